namespace Soa

inductive Cols where
  | leaf (xs : List Nat)
  | nest (fs : List Cols)
  deriving Repr, Inhabited

inductive Elem where
  | leaf (v : Nat)
  | nest (fs : List Elem)
  deriving Repr, Inhabited

/-- polymorphic partial list operation with an argument list and a result list,
    natural in the element type; failure is decided by the two lengths. -/
structure PolyOp where
  run : {α : Type} → List α → List α → Option (List α × List α)
  fails : Nat → Nat → Bool
  fail_iff : ∀ {α : Type} (xs as : List α), (run xs as).isNone = fails xs.length as.length
  nat : ∀ {α β : Type} (f : α → β) (xs as : List α),
    run (xs.map f) (as.map f) = (run xs as).map (fun r => (r.1.map f, r.2.map f))

def Cols.lock (n : Nat) : Cols → Prop
  | .leaf xs => xs.length = n
  | .nest fs => fs ≠ [] ∧ ∀ c ∈ fs, c.lock n

/-- same tree shape -/
def Cols.same : Cols → Cols → Prop
  | .leaf _, .leaf _ => True
  | .nest fs, .nest gs => sameL fs gs
  | _, _ => False
where sameL : List Cols → List Cols → Prop
  | [], [] => True
  | c :: cs, d :: ds => c.same d ∧ sameL cs ds
  | _, _ => False

def Cols.rows : Cols → List Elem
  | .leaf xs => xs.map Elem.leaf
  | .nest fs => (rowsL fs).map Elem.nest
where rowsL : List Cols → List (List Elem)
  | [] => []
  | [c] => c.rows.map (fun e => [e])
  | c :: c' :: cs => List.zipWith (· :: ·) c.rows (rowsL (c' :: cs))

structure Res where
  st : Cols
  out : Cols
  panicked : Bool

/-- generated code: the same std call on every field, in order, with that field's
    argument column; stop at the first panic (later fields untouched). -/
def Cols.apply2 (op : PolyOp) : Cols → Cols → Res
  | .leaf xs, .leaf as => match op.run xs as with
    | some r => ⟨.leaf r.1, .leaf r.2, false⟩
    | none => ⟨.leaf xs, .leaf as, true⟩
  | .nest fs, .nest gs => let r := apply2L op fs gs; ⟨.nest r.1, .nest r.2.1, r.2.2⟩
  | c, a => ⟨c, a, true⟩
where apply2L (op : PolyOp) : List Cols → List Cols → List Cols × List Cols × Bool
  | c :: cs, a :: as =>
    let r := c.apply2 op a
    if r.panicked then (r.st :: cs, r.out :: as, true) else
      let r' := apply2L op cs as
      (r.st :: r'.1, r.out :: r'.2.1, r'.2.2)
  | cs, as => (cs, as, false)

@[simp] theorem lock_leaf : (Cols.leaf xs).lock n ↔ xs.length = n := by simp [Cols.lock]
@[simp] theorem lock_nest : (Cols.nest fs).lock n ↔ fs ≠ [] ∧ ∀ c ∈ fs, c.lock n := by simp [Cols.lock]

theorem zip_comm_aux (op : PolyOp) {α β γ : Type} (f : α → β → γ) (zs ws : List (α × β)) :
    op.run (zs.map (fun p => f p.1 p.2)) (ws.map (fun p => f p.1 p.2)) =
      (match op.run (zs.map Prod.fst) (ws.map Prod.fst), op.run (zs.map Prod.snd) (ws.map Prod.snd) with
       | some a, some b => some (List.zipWith f a.1 b.1, List.zipWith f a.2 b.2)
       | _, _ => none) := by
  rw [op.nat, op.nat, op.nat]
  cases op.run zs ws with
  | none => simp
  | some r => simp [List.zipWith_map_left, List.zipWith_map_right, List.zipWith_self]

theorem zip_comm (op : PolyOp) {α β γ : Type} (f : α → β → γ)
    (xs : List α) (ys : List β) (as : List α) (bs : List β)
    (h : xs.length = ys.length) (h' : as.length = bs.length) :
    op.run (List.zipWith f xs ys) (List.zipWith f as bs) =
      (match op.run xs as, op.run ys bs with
       | some a, some b => some (List.zipWith f a.1 b.1, List.zipWith f a.2 b.2)
       | _, _ => none) := by
  have hx : (xs.zip ys).map Prod.fst = xs := by rw [List.map_fst_zip]; omega
  have hy : (xs.zip ys).map Prod.snd = ys := by rw [List.map_snd_zip]; omega
  have ha : (as.zip bs).map Prod.fst = as := by rw [List.map_fst_zip]; omega
  have hb : (as.zip bs).map Prod.snd = bs := by rw [List.map_snd_zip]; omega
  have hz : List.zipWith f xs ys = (xs.zip ys).map (fun p => f p.1 p.2) := by
    rw [List.zip, List.map_zipWith]
  have hw : List.zipWith f as bs = (as.zip bs).map (fun p => f p.1 p.2) := by
    rw [List.zip, List.map_zipWith]
  have := zip_comm_aux op f (xs.zip ys) (as.zip bs)
  rw [hx, hy, ha, hb] at this
  rw [hz, hw]; exact this

@[simp] theorem same_nest : (Cols.nest fs).same (Cols.nest gs) ↔ Cols.same.sameL fs gs := by simp [Cols.same]
@[simp] theorem sameL_cons : Cols.same.sameL (c :: cs) (d :: ds) ↔ c.same d ∧ Cols.same.sameL cs ds := by
  simp [Cols.same.sameL]

theorem rows_len (n : Nat) : ∀ c : Cols, c.lock n → c.rows.length = n
  | .leaf xs, h => by simpa [Cols.rows] using h
  | .nest fs, h => by
    rw [lock_nest] at h
    simp only [Cols.rows, List.length_map]
    exact rowsL_len n fs h.1 h.2
where rowsL_len (n : Nat) : ∀ fs : List Cols, fs ≠ [] → (∀ c ∈ fs, c.lock n) → (Cols.rows.rowsL fs).length = n
  | [], h, _ => absurd rfl h
  | [c], _, h => by
    simp only [Cols.rows.rowsL, List.length_map]
    exact rows_len n c (h c (by simp))
  | c :: c' :: cs, _, h => by
    simp only [Cols.rows.rowsL, List.length_zipWith]
    have h1 := rows_len n c (h c (by simp))
    have h2 := rowsL_len n (c' :: cs) (by simp) (fun x hx => h x (by simp at hx ⊢; right; exact hx))
    omega

theorem apply2_ok (op : PolyOp) (n k : Nat) (hf : op.fails n k = false) :
    ∀ c a : Cols, c.lock n → a.lock k → c.same a →
      (c.apply2 op a).panicked = false ∧
      op.run c.rows a.rows = some ((c.apply2 op a).st.rows, (c.apply2 op a).out.rows)
  | .leaf xs, .leaf as, hc, ha, _ => by
    have hl : xs.length = n := lock_leaf.mp hc
    have hk : as.length = k := lock_leaf.mp ha
    have := op.fail_iff xs as
    rw [hl, hk, hf] at this
    simp only [Cols.apply2]
    cases hr : op.run xs as with
    | none => simp [hr] at this
    | some r => simp [Cols.rows, op.nat, hr]
  | .nest fs, .nest gs, hc, ha, hs => by
    rw [lock_nest] at hc ha
    rw [same_nest] at hs
    have := apply2L_ok op n k hf fs gs hc.1 hc.2 ha.2 hs
    simp only [Cols.apply2, Cols.rows]
    refine ⟨this.1, ?_⟩
    rw [op.nat, this.2]; rfl
  | .leaf _, .nest _, _, _, hs => by simp [Cols.same] at hs
  | .nest _, .leaf _, _, _, hs => by simp [Cols.same] at hs
where apply2L_ok (op : PolyOp) (n k : Nat) (hf : op.fails n k = false) :
    ∀ fs gs : List Cols, fs ≠ [] → (∀ c ∈ fs, c.lock n) → (∀ a ∈ gs, a.lock k) →
      Cols.same.sameL fs gs →
      (Cols.apply2.apply2L op fs gs).2.2 = false ∧
      op.run (Cols.rows.rowsL fs) (Cols.rows.rowsL gs) =
        some (Cols.rows.rowsL (Cols.apply2.apply2L op fs gs).1,
              Cols.rows.rowsL (Cols.apply2.apply2L op fs gs).2.1)
  | [], _, h, _, _, _ => absurd rfl h
  | _ :: _, [], _, _, _, hs => by simp [Cols.same.sameL] at hs
  | [c], [a], _, hc, ha, hs => by
    rw [sameL_cons] at hs
    have ih := apply2_ok op n k hf c a (hc c (by simp)) (ha a (by simp)) hs.1
    simp only [Cols.apply2.apply2L, ih.1, Cols.rows.rowsL]
    simp [op.nat, ih.2, Cols.rows.rowsL]
  | [_], _ :: _ :: _, _, _, _, hs => by simp [Cols.same.sameL] at hs
  | _ :: _ :: _, [_], _, _, _, hs => by simp [Cols.same.sameL] at hs
  | c :: c' :: cs, a :: a' :: as, _, hc, ha, hs => by
    rw [sameL_cons] at hs
    have ih := apply2_ok op n k hf c a (hc c (by simp)) (ha a (by simp)) hs.1
    have hc' : ∀ x ∈ c' :: cs, x.lock n := fun x hx => hc x (by simp at hx ⊢; right; exact hx)
    have ha' : ∀ x ∈ a' :: as, x.lock k := fun x hx => ha x (by simp at hx ⊢; right; exact hx)
    have ih' := apply2L_ok op n k hf (c' :: cs) (a' :: as) (by simp) hc' ha' hs.2
    have h1 := rows_len n c (hc c (by simp))
    have h2 := rows_len.rowsL_len n (c' :: cs) (by simp) hc'
    have h3 := rows_len k a (ha a (by simp))
    have h4 := rows_len.rowsL_len k (a' :: as) (by simp) ha'
    rw [Cols.apply2.apply2L]
    simp only [ih.1]
    refine ⟨ih'.1, ?_⟩
    rw [Cols.rows.rowsL, Cols.rows.rowsL, zip_comm op _ _ _ _ _ (by omega) (by omega), ih.2, ih'.2]
    cases hr : Cols.apply2.apply2L op (c' :: cs) (a' :: as) with
    | mk l rest =>
      cases rest with
      | mk l2 b =>
        cases l with
        | nil => simp [Cols.apply2.apply2L] at hr; split at hr <;> simp at hr
        | cons y zs =>
          cases l2 with
          | nil => simp [Cols.apply2.apply2L] at hr; split at hr <;> simp at hr
          | cons y2 zs2 => simp [Cols.rows.rowsL]

end Soa
