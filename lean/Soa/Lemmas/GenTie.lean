import Soa.Model.Exec
import Soa.Lemmas.SkelTie
import Soa.Lemmas.SkelRefsTie
import Soa.Lemmas.LoopTie
import Soa.Lemmas.LoopTieW
/-!
# What the driver executes is the hand-written model (on every lockstep container)

`Soa.Exec.Gen.*` are the functions the compiled model driver runs for the vector API: the
skeletons and statement trees extracted from /repo on this run, composed the way the
generated code composes them (the loops call the *extracted* `pop` / `push` / `truncate` /
`swap`).  Here: each of them equals the hand-written `Model.*` function on every lockstep
container of every shape — so every property theorem about `Model.*` is a theorem about
what was extracted, and the `I` lines the driver prints are those of the extracted code.
-/
set_option linter.unusedSimpArgs false
namespace Soa.Exec.Gen
open Soa Soa.Sk Soa.Lp Soa.Extracted

variable {c e d : Cols} {n : Nat}

theorem push_eq (dr : Bool) (c e : Cols) : push dr c e = Model.push c e := by simp [push, push_tie]
theorem pop_eq (dr : Bool) (c : Cols) : pop dr c = Model.pop c := by simp [pop, pop_tie]
theorem remove_eq (dr : Bool) (c : Cols) (i : Nat) : remove dr c i = Model.remove c i := by simp [remove, remove_tie]
theorem swapRemove_eq (dr : Bool) (c : Cols) (i : Nat) : swapRemove dr c i = Model.swapRemove c i := by
  simp [swapRemove, swap_remove_tie]
theorem append_eq (dr : Bool) (c d : Cols) : append dr c d = Model.append c d := by simp [append, append_tie]
theorem splitOff_eq (dr : Bool) (c : Cols) (i : Nat) : splitOff dr c i = Model.splitOff c i := by simp [splitOff, split_off_tie]
theorem insert_eq (dr : Bool) (i : Nat) (hc : c.lock n) (he : e.lock 1) (hs : c.same e) :
    insert dr c i e = Model.insert dr c i e := by simp [insert, insert_tie dr i hc he hs]
theorem replace_eq (dr : Bool) (i : Nat) (hc : c.lock n) (he : e.lock 1) (hs : c.same e) :
    replace dr c i e = Model.replace dr c i e := by simp [replace, replace_tie dr i hc he hs]

/-- the extracted `swap` on the view of the whole vector agrees with the model's on lockstep containers -/
theorem swOk_swapWhole : SwOk swapWhole := by
  intro c n a b hc ha hb
  have hfl := firstLen_lock c n hc
  simp [swapWhole, swap_tie, hfl, ha, hb, modelSwap]

theorem methods0_eq (dr : Bool) (empty : Cols) : methods0 dr empty = methodsWith empty (Model.truncate dr) swapWhole := by
  have h1 : pop dr = Model.pop := funext (pop_eq dr)
  have h2 : push dr = Model.push := by funext c e; exact push_eq dr c e
  simp [methods0, methodsWith, h1, h2]

theorem truncate_eq (dr : Bool) (k : Nat) (hc : c.lock n) : truncate dr c k = Model.truncate dr c k := by
  simp [truncate, methods0_eq, truncate_tie dr k c c (Model.truncate dr) swapWhole n (c.firstLen + 2) hc
    (by rw [firstLen_lock c n hc]; omega)]

theorem trOk_truncate (dr : Bool) : TrOk dr (truncate dr) := fun _ _ k hc => truncate_eq dr k hc

theorem methods_eq (dr : Bool) (empty : Cols) : methods dr empty = methodsWith empty (truncate dr) swapWhole := by
  simp [methods, methods0_eq, methodsWith]

theorem clear_eq (dr : Bool) (hc : c.lock n) : clear dr c = Model.clear dr c := by
  simp [clear, methods_eq, clear_tie dr c c (truncate dr) swapWhole (trOk_truncate dr) n (c.firstLen + 2) hc]

theorem dropVec_eq (dr : Bool) (hc : c.lock n) : dropVec dr c = Model.dropVec dr c := by
  simp [dropVec, methods_eq, drop_tie dr c c (truncate dr) swapWhole n (c.firstLen + 2) hc
    (by rw [firstLen_lock c n hc]; omega)]

/-- `retain` and `retain_mut`, with any answers, any panicking call and any writes by the callback -/
theorem retain_eq_w (dr mut_ : Bool) (keep : Nat → Bool) (boom : Option Nat) (touch : Nat → Nat → Option (Nat × Nat))
    (hc : c.lock n) :
    retain dr mut_ c keep boom touch = Model.retain dr c keep boom touch := by
  have h := retain_tie_w dr c c (truncate dr) swapWhole (trOk_truncate dr) swOk_swapWhole keep boom touch n (c.firstLen + 2) hc
  cases mut_ <;> simp [retain, methods_eq, h.1, h.2]

/-- `retain` and `retain_mut` with a callback that does not write -/
theorem retain_eq (dr mut_ : Bool) (keep : Nat → Bool) (boom : Option Nat) (hc : c.lock n) :
    retain dr mut_ c keep boom (fun _ _ => none) = Model.retain dr c keep boom (fun _ _ => none) :=
  retain_eq_w dr mut_ keep boom _ hc

theorem resize_eq (dr : Bool) (k : Nat) (hc : c.lock n) (he : e.lock 1) (hs : c.same e) :
    resize dr c k e = Model.resize dr c k e := by
  simp [resize, methods_eq, resize_tie dr c c e (truncate dr) swapWhole (trOk_truncate dr) k n (c.firstLen + 2) hc he hs]

theorem extend_eq (dr : Bool) (c : Cols) (es : List Cols) : extend dr c es = Model.extend c es := by
  simp [extend, methods_eq, extend_tie]

/-- `collect()` -/
theorem fromIter_eq (dr : Bool) (empty : Cols) (es : List Cols) (hp : (Model.extend empty es).panicked = false) :
    fromIter dr empty es = Model.extend empty es := by
  have h := from_iter_tie dr empty empty (truncate dr) swapWhole es 2 hp
  unfold fromIter
  rw [methods_eq, h]
  rw [extend_shape es empty, hp]

/-- the extracted `Extend<Ref>::extend` reads as the `Extend<T>` loop over `to_owned` copies -/
theorem extendRefs_reads : isOwnedExtend Extracted.lp_PVec_Extend_PRef_a_extend = true := by decide

/-- `Extend<Ref>` (`vec.extend(&other)`, `vec.extend(other.iter())`) is `extend_from_slice`: the elements of the
    source cloned one whole element at a time, so a panicking `Clone` leaves whole elements only -/
theorem extendRefs_eq (dr : Bool) (c src : Cols) : extendRefs dr c src = Model.extendFromSlice c src := by
  unfold extendRefs
  rw [extendRefs_reads]
  simp only [↓reduceIte, extend_eq]
  rfl

/-- `extend_from_slice`: contents and panic flag (the clone events are the same up to their order) -/
theorem extendFromSlice_core (dr : Bool) (c d : Cols) :
    core (extendFromSlice dr c d) = core (Model.extendFromSlice c d) := by
  have h := extend_from_slice_tie dr c c d (truncate dr) swapWhole (c.firstLen + 2)
  unfold extendFromSlice
  rw [methods_eq]
  cases hr : run { dr := dr, ps := [V.src d], M := methodsWith c (truncate dr) swapWhole, fuel := c.firstLen + 2 }
      lp_PVec_soa_derive_SoAAppendVec_P_extend_from_slice c with
  | none => simp [hr] at h
  | some o =>
    simp only [hr, Option.map_some, Option.some.injEq] at h
    simp only [Option.getD_some, h]
    simp [core, Model.extendFromSlice]

end Soa.Exec.Gen
