import Soa.Model.LoopSyntax
import Soa.Extracted.Loops
import Soa.Model.Views
/-!
# The generated sorts, as extracted, are "argsort, then one gather of every field"

The three inherent sorts of a mutable view (`sort_by`, `sort_by_key`, `sort`) are read from
their extracted statement trees as: the index list `0..self.len()`, sorted by **std's stable**
`sort_by` / `sort_by_key` with the callback applied to `self.index(*j)` (in argument order),
turned into `Permutation::oneline(..).inverse()` and applied once through
`__private_apply_permutation` (which is per-field, `Sk.apply_permutation_tie`).  That is
the two-phase form the C07 / C16 theorems are about: phase 1 touches no field (a panic of
the callback leaves the container as it was), phase 2 gathers every field by one
permutation.
-/
namespace Soa.Lp
open Soa Soa.Extracted

/-- how the callback is applied inside the std sort -/
inductive SortCall
  | cmp        -- `f(self.index(*j), self.index(*k))`, the comparator's arguments in the order of the closure's
  | key        -- `f(self.index(*i))`
  | natural    -- `self.index(*i)`: the elements' own `Ord`
  deriving DecidableEq, Repr

structure SortSk where
  stdSort : String      -- the std method sorting the index list
  call : SortCall
  deriving DecidableEq, Repr

/-- read a generated sort -/
def sortSkOf (b : Body) : Option SortSk :=
  match b.stmts, b.tail with
  | [.let_ "permutation" (.mcall (.range (.num 0) (.mcall .self_ "len" [])) "collect" []),
     .expr (.mcall (.var "permutation") sortM [lam]),
     .let_ "permutation" (.mcall (.fcall "Permutation::oneline" [.var "permutation"]) "inverse" []),
     .expr (.mcall .self_ "__private_apply_permutation" [.var "permutation"])], none =>
    (match lam with
     | .lam [j, k] (.app 0 [.mcall .self_ "index" [.var j'], .mcall .self_ "index" [.var k']]) =>
       if j = j' ∧ k = k' ∧ j ≠ k then some ⟨sortM, .cmp⟩ else none
     | .lam [i] (.app 0 [.mcall .self_ "index" [.var i']]) => if i = i' then some ⟨sortM, .key⟩ else none
     | .lam [i] (.mcall .self_ "index" [.var i']) => if i = i' then some ⟨sortM, .natural⟩ else none
     | _ => none)
  | _, _ => none

/-- the sort is std's stable sort of the positions under the user's order, then one gather -/
def SortSk.stable (s : SortSk) : Bool :=
  (s.call == .cmp && s.stdSort == "sort_by") || (s.call != .cmp && s.stdSort == "sort_by_key")

/-- outcome of a generated sort on the window `w` of `c`, given the order `le` on positions the callback induces -/
def runSort (b : Body) (c : Cols) (w : View.Win) (le : Nat → Nat → Bool) : Option Cols :=
  match sortSkOf b with
  | some s => if s.stable then some (View.gatherWin c w ((List.range' w.s w.l).mergeSort le)) else none
  | none => none

theorem sort_by_read : sortSkOf lp_PSliceMut_a_sort_by = some ⟨"sort_by", .cmp⟩ := by decide
theorem sort_by_key_read : sortSkOf lp_PSliceMut_a_sort_by_key = some ⟨"sort_by_key", .key⟩ := by decide
theorem sort_read : sortSkOf lp_PSliceMut_a_sort = some ⟨"sort_by_key", .natural⟩ := by decide

/-- all three generated sorts: argsort with std's stable sort, then the gather of every field -/
theorem sort_tie (c : Cols) (w : View.Win) (le : Nat → Nat → Bool) :
    runSort lp_PSliceMut_a_sort_by c w le = some (View.gatherWin c w ((List.range' w.s w.l).mergeSort le)) ∧
    runSort lp_PSliceMut_a_sort_by_key c w le = some (View.gatherWin c w ((List.range' w.s w.l).mergeSort le)) ∧
    runSort lp_PSliceMut_a_sort c w le = some (View.gatherWin c w ((List.range' w.s w.l).mergeSort le)) := by
  simp [runSort, sort_by_read, sort_by_key_read, sort_read, SortSk.stable]

end Soa.Lp
