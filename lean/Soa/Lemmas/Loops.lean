import Soa.Model.Vec
import Soa.Lemmas.PerField
import Soa.Lemmas.RetainIdx
/-!
# The loops of the generated code (`truncate`/`Drop` pop loop, `retain` swap loop) at the
container level, related to their row-level counterparts by the transposition theorem.
-/
namespace Soa

macro "triv" : tactic => `(tactic| first | rfl | trivial)

theorem lock_of_rows_len {st : Cols} {m k : Nat} (hl : st.lock m) (hr : st.rows.length = k) : st.lock k := by
  have := rows_len m st hl
  rw [this] at hr; subst hr; exact hl

/-! ## one-row trees: column-major ids = the ids of the single row -/

theorem flat_nest (fs : List Cols) : (Cols.nest fs).flat = (fs.map Cols.flat).flatten := by
  unfold Cols.flat
  simp only [Cols.leaves]
  induction fs with
  | nil => simp [Cols.leaves.leavesL]
  | cons c cs ih => simp [Cols.leaves.leavesL, ih]

theorem ids_nest (es : List Elem) : (Elem.nest es).ids = (es.map Elem.ids).flatten := by
  simp only [Elem.ids]
  induction es with
  | nil => simp [Elem.ids.idsL]
  | cons e es ih => simp [Elem.ids.idsL, ih]

/-- a one-row tree has exactly one row, and its ids (column-major) are that row's ids -/
theorem one_row : ∀ e : Cols, e.lock 1 → ∃ r : Elem, e.rows = [r] ∧ e.flat = r.ids
  | .leaf xs, h => by
    have hl : xs.length = 1 := lock_leaf.mp h
    match xs, hl with
    | [v], _ => exact ⟨.leaf v, by simp [Cols.rows], by simp [Cols.flat, Cols.leaves, Elem.ids]⟩
  | .nest fs, h => by
    rw [lock_nest] at h
    obtain ⟨rs, h1, h2⟩ := go fs h.1 h.2
    refine ⟨.nest rs, ?_, ?_⟩
    · simp [Cols.rows, h1]
    · rw [flat_nest, ids_nest, h2]
where go : ∀ fs : List Cols, fs ≠ [] → (∀ c ∈ fs, c.lock 1) →
    ∃ rs : List Elem, Cols.rows.rowsL fs = [rs] ∧ (fs.map Cols.flat).flatten = (rs.map Elem.ids).flatten
  | [], h, _ => absurd rfl h
  | [c], _, h => by
    obtain ⟨r, h1, h2⟩ := one_row c (h c (by simp))
    exact ⟨[r], by simp [Cols.rows.rowsL, h1], by simp [h2]⟩
  | c :: c' :: cs, _, h => by
    obtain ⟨r, h1, h2⟩ := one_row c (h c (by simp))
    obtain ⟨rs, h3, h4⟩ := go (c' :: cs) (by simp) (fun x hx => h x (by simp at hx ⊢; right; exact hx))
    refine ⟨r :: rs, ?_, ?_⟩
    · simp only [Cols.rows.rowsL, h1, h3]; simp
    · simp only [List.map_cons, List.flatten_cons] at h4 ⊢
      rw [h2, h4]

/-- what the callback is shown at position `i`: the ids of row `i` -/
theorem rowAt_eq (c : Cols) (n i : Nat) (hc : c.lock n) (hi : i < n) :
    ∃ r, c.rows[i]? = some r ∧ Model.rowAt c i = r.ids := by
  unfold Model.rowAt Model.noArgs
  have hl := rows_len n c hc
  have hi' : i < c.rows.length := by omega
  cases perField0 (pickOp [i]) c n hc with
  | ok s hrun _ _ _ hout _ hlo _ _ =>
    rw [rows_noArgs c n hc] at hrun
    simp only [pickOp, PolyOp.ofTotal_run, hl, List.all_cons, hi, decide_true, List.all_nil, Bool.and_self,
      ↓reduceIte, Option.some.injEq] at hrun
    subst hrun
    simp only [List.filterMap_cons, List.getElem?_eq_getElem hi', List.filterMap_nil] at hout
    have hlo' := lock_of_rows_len hlo (k := 1) (by rw [hout]; rfl)
    obtain ⟨r, h1, h2⟩ := one_row _ hlo'
    refine ⟨r, ?_, h2⟩
    rw [h1] at hout
    rw [List.getElem?_eq_getElem hi']
    simp only [List.cons.injEq, and_true] at hout
    rw [hout]
  | fail _ hfail _ _ _ =>
    simp [pickOp, hi] at hfail

/-! ## `pop` on a non-empty lockstep container -/

theorem pop_ok (c : Cols) (n : Nat) (hc : c.lock (n + 1)) :
    ∃ st e, Model.pop c = { st := st, ret := some e } ∧ st.lock n ∧ e.lock 1 ∧ c.same st ∧
      st.rows = c.rows.take n ∧ e.rows = c.rows.drop n := by
  unfold Model.pop Model.noArgs
  rw [firstLen_lock c (n + 1) hc]
  cases perField0 popOp c (n + 1) hc with
  | ok s hrun _ hp hst hout hl hlo hsm _ =>
    rw [rows_noArgs c (n + 1) hc] at hrun
    have hlen := rows_len (n + 1) c hc
    simp only [popOp, PolyOp.ofTotal_run, hlen, List.length_nil, Nat.zero_lt_succ, decide_true, BEq.rfl,
      Bool.and_self, ↓reduceIte, Nat.add_sub_cancel, Option.some.injEq] at hrun
    subst hrun
    simp only at hst hout
    refine ⟨_, _, ?_, lock_of_rows_len hl (by rw [hst]; simp [hlen]),
      lock_of_rows_len hlo (by rw [hout]; simp [hlen]), hsm, hst, hout⟩
    simp [hp]
  | fail _ hfail _ _ _ => simp [popOp] at hfail

theorem pop_cases (c : Cols) :
    Model.pop c = { st := c, isNone := true } ∨
    ((c.apply2 popOp (c.const [])).panicked = true ∧
      Model.pop c = { st := (c.apply2 popOp (c.const [])).st, panicked := true,
                      ev := dropFields (c.apply2 popOp (c.const [])).out }) ∨
    ((c.apply2 popOp (c.const [])).panicked = false ∧
      Model.pop c = { st := (c.apply2 popOp (c.const [])).st, ret := some (c.apply2 popOp (c.const [])).out }) := by
  unfold Model.pop Model.noArgs
  dsimp only
  by_cases h0 : c.firstLen = 0
  · left; simp [h0]
  · right
    by_cases hp : (c.apply2 popOp (c.const [])).panicked = true
    · left; simp [h0, hp]
    · right; simp [h0, hp]

/-! ## the pop loop of `truncate` / `clear` / `Drop` -/

theorem truncateLoop_ok (dr : Bool) (k : Nat) : ∀ (fuel n : Nat) (c : Cols) (ev : Ev),
    c.lock n → n - k < fuel →
    let o := Model.truncateLoop dr k fuel c ev
    o.panicked = false ∧ o.st.rows = c.rows.take k ∧ o.st.lock (min n k) ∧ c.same o.st ∧
      o.ret = none ∧ o.isNone = false
  | 0, _, _, _, _, h => by omega
  | fuel + 1, n, c, ev, hc, hf => by
    simp only [Model.truncateLoop]
    rw [firstLen_lock c n hc]
    by_cases hk : n > k
    · obtain ⟨m, rfl⟩ : ∃ m, n = m + 1 := ⟨n - 1, by omega⟩
      obtain ⟨st, e, hpop, hl, _, hsm, hrows, _⟩ := pop_ok c m hc
      simp only [hk, ↓reduceIte, hpop, Bool.false_eq_true]
      have ih := truncateLoop_ok dr k fuel m st (ev ++ dropWhole dr e) hl (by omega)
      refine ⟨ih.1, ?_, ?_, same_trans _ _ _ hsm ih.2.2.2.1, ih.2.2.2.2⟩
      · rw [ih.2.1, hrows, List.take_take]
        congr 1; omega
      · have : min m k = min (m + 1) k := by omega
        rw [← this]; exact ih.2.2.1
    · simp only [hk, ↓reduceIte]
      refine ⟨by triv, ?_, ?_, same_refl c, by triv, by triv⟩
      · rw [List.take_of_length_le]; rw [rows_len n c hc]; omega
      · have : min n k = n := by omega
        rw [this]; exact hc

/-! ## the swap loop of `retain` -/

theorem retainLoop_rows (keep : Nat → Bool) (boom : Option Nat) (n : Nat) :
    ∀ (fuel i del : Nat) (c : Cols) (vis : List (List Nat)) (visR : List Elem) (ev : Ev) (made : List Nat),
    c.lock n → i + fuel = n → vis = visR.map Elem.ids →
    let r := Model.retainLoop keep boom (fun _ _ => none) fuel i del c vis ev made
    let r' := RetainIdx.loop keep boom fuel i del c.rows visR
    r.c.rows = r'.1 ∧ r.del = r'.2.1 ∧ r.vis = r'.2.2.1.map Elem.ids ∧ r.boom = r'.2.2.2 ∧
      r.c.lock n ∧ c.same r.c ∧ r.ev = ev ∧ r.made = made
  | 0, i, del, c, vis, visR, ev, made, hc, _, hv => by
    simp [Model.retainLoop, RetainIdx.loop, hv, hc, same_refl]
  | fuel + 1, i, del, c, vis, visR, ev, made, hc, hi, hv => by
    have hin : i < n := by omega
    obtain ⟨row, hrow, hra⟩ := rowAt_eq c n i hc hin
    simp only [Model.retainLoop, RetainIdx.loop, hrow]
    have hv' : vis ++ [Model.rowAt c i] = (visR ++ [row]).map Elem.ids := by simp [hv, hra]
    by_cases hb : boom = some i
    · simp only [hb, ↓reduceIte]
      exact ⟨by triv, by triv, hv', by triv, hc, same_refl c, by triv, by triv⟩
    · simp only [hb, ↓reduceIte]
      by_cases hk : keep i
      · simp only [hk, Bool.not_true, Bool.false_eq_true, ↓reduceIte]
        by_cases hd : del > 0
        · simp only [hd, ↓reduceIte]
          cases perField0 (swapOp (i - del) i) c n hc with
          | ok s hrun _ _ hst _ hl _ hsm _ =>
            rw [rows_noArgs c n hc] at hrun
            have hlen := rows_len n c hc
            have hlt : i - del < n := by omega
            simp only [swapOp, PolyOp.ofTotal_run, hlen, hlt, hin, decide_true, List.length_nil, BEq.rfl,
              Bool.and_self, ↓reduceIte, Option.some.injEq] at hrun
            subst hrun
            simp only at hst
            have hl := lock_of_rows_len hl (k := n) (by rw [hst]; simp [hlen])
            have ih := retainLoop_rows keep boom n fuel (i + 1) del _ _ (visR ++ [row]) ev made hl (by omega) hv'
            simp only [Model.noArgs] at ih ⊢
            rw [hst] at ih
            exact ⟨ih.1, ih.2.1, ih.2.2.1, ih.2.2.2.1, ih.2.2.2.2.1, same_trans _ _ _ hsm ih.2.2.2.2.2.1,
              ih.2.2.2.2.2.2⟩
          | fail _ hfail _ _ _ =>
            have hlt : i - del < n := by omega
            simp [swapOp, hlt, hin] at hfail
        · simp only [hd, ↓reduceIte]
          exact retainLoop_rows keep boom n fuel (i + 1) del c _ (visR ++ [row]) ev made hc (by omega) hv'
      · simp only [hk, Bool.not_false, ↓reduceIte]
        exact retainLoop_rows keep boom n fuel (i + 1) (del + 1) c _ (visR ++ [row]) ev made hc (by omega) hv'

end Soa
