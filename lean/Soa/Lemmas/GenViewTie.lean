import Soa.Model.Exec
import Soa.Lemmas.SkelViewTie
import Soa.Lemmas.SkelIterTie
/-!
# The view and iterator steps the driver executes are the hand-written window functions

`Soa.Exec.Gen.splitAt`, `first`, `last`, `splitFirst`, `splitLast`, `reborrow`, `asShared`,
`iterStep` run the skeletons extracted from /repo on a value whose fields all cover the
window `w`, and require the answer to be the same in every field.  For every well-formed
shape they equal `View.splitAt`, … — the functions the C05 / C06 theorems are about.
-/
set_option linter.unusedSimpArgs false
namespace Soa.Exec.Gen
open Soa Soa.Sk Soa.View Soa.Extracted

theorem leavesT_uniform (a : LV) : ∀ sh : Shape, sh.wf → ∃ n, leavesT (VT.uniform a sh) = List.replicate (n + 1) a
  | .leaf _, _ => ⟨0, rfl⟩
  | .nest fs, h => by
    rw [Shape.wf_nest] at h
    simp only [VT.uniform, leavesT]
    cases fs with
    | nil => exact absurd rfl h.1
    | cons f fs =>
      obtain ⟨n1, h1⟩ := leavesT_uniform a f (h.2 f (by simp))
      obtain ⟨n2, h2⟩ := go fs (fun x hx => h.2 x (by simp [hx]))
      refine ⟨n1 + n2, ?_⟩
      simp only [VT.uniform.uniformL, leavesT.leavesTL, h1, h2]
      rw [List.replicate_append_replicate]
      congr 1; omega
where go : ∀ fs : List Shape, (∀ f ∈ fs, f.wf) → ∃ n, leavesT.leavesTL (VT.uniform.uniformL a fs) = List.replicate n a
  | [], _ => ⟨0, rfl⟩
  | f :: fs, h => by
    obtain ⟨n1, h1⟩ := leavesT_uniform a f (h f (by simp))
    obtain ⟨n2, h2⟩ := go fs (fun x hx => h x (by simp [hx]))
    refine ⟨n1 + 1 + n2, ?_⟩
    simp only [VT.uniform.uniformL, leavesT.leavesTL, h1, h2, List.replicate_append_replicate]

theorem winOfT_uniform (w : Win) (sh : Shape) (hw : sh.wf) : winOfT (VT.uniform (.win w) sh) = some w := by
  obtain ⟨n, h⟩ := leavesT_uniform (.win w) sh hw
  simp [winOfT, h, List.replicate_succ]

theorem posOfT_uniform (p : Nat) (sh : Shape) (hw : sh.wf) : posOfT (VT.uniform (.pos p) sh) = some p := by
  obtain ⟨n, h⟩ := leavesT_uniform (.pos p) sh hw
  simp [posOfT, h, List.replicate_succ]

variable (sh : Shape) (hw : sh.wf)
include hw

theorem splitAt_eq (m : Bool) (w : Win) (k side : Nat) (hs : side = 0 ∨ side = 1) :
    splitAt sh m w k side = View.splitAt w k side := by
  unfold splitAt
  have h1 := split_at_tie sh hw w k
  have h2 := split_at_mut_tie sh hw w k
  cases m <;> simp only [Bool.false_eq_true, ↓reduceIte, h1, h2] <;>
  · unfold View.splitAt
    by_cases hk : k ≤ w.l
    · rcases hs with rfl | rfl <;> simp [hk, winOfT_uniform _ sh hw]
    · simp [hk]

theorem first_eq (m : Bool) (w : Win) : first sh m w = View.first w := by
  unfold first viewPos
  have h1 := first_tie sh hw w
  have h2 := first_mut_tie sh hw w
  cases m <;> simp only [Bool.false_eq_true, ↓reduceIte, h1, h2] <;>
  · unfold View.first
    by_cases h0 : w.l = 0 <;> simp [h0, posOfT_uniform _ sh hw]

theorem last_eq (m : Bool) (w : Win) : last sh m w = View.last w := by
  unfold last viewPos
  have h1 := last_tie sh hw w
  have h2 := last_mut_tie sh hw w
  cases m <;> simp only [Bool.false_eq_true, ↓reduceIte, h1, h2] <;>
  · unfold View.last
    by_cases h0 : w.l = 0 <;> simp [h0, posOfT_uniform _ sh hw]

theorem splitFirst_eq (m : Bool) (w : Win) : splitFirst sh m w = View.splitFirst w := by
  unfold splitFirst viewPosWin
  have h1 := split_first_tie sh hw w
  have h2 := split_first_mut_tie sh hw w
  cases m <;> simp only [Bool.false_eq_true, ↓reduceIte, h1, h2] <;>
  · unfold View.splitFirst
    by_cases h0 : w.l = 0 <;> simp [h0, posOfT_uniform _ sh hw, winOfT_uniform _ sh hw]

theorem splitLast_eq (m : Bool) (w : Win) : splitLast sh m w = View.splitLast w := by
  unfold splitLast viewPosWin
  have h1 := split_last_tie sh hw w
  have h2 := split_last_mut_tie sh hw w
  cases m <;> simp only [Bool.false_eq_true, ↓reduceIte, h1, h2] <;>
  · unfold View.splitLast
    by_cases h0 : w.l = 0 <;> simp [h0, posOfT_uniform _ sh hw, winOfT_uniform _ sh hw]

theorem reborrow_eq (m : Bool) (w : Win) : reborrow sh m w = .ok w := by
  unfold reborrow viewWin
  have h := same_window_tie sh hw w
  cases m <;> simp [h.1, h.2.1, winOfT_uniform _ sh hw]

theorem asShared_eq (m : Bool) (tok : String) (w : Win) : asShared sh m tok w = .ok w := by
  unfold asShared viewWin
  have h := same_window_tie sh hw w
  cases m
  · simp
  · by_cases ht : tok == "as_ref" <;> simp [ht, h.2.2.1, h.2.2.2, winOfT_uniform _ sh hw]

theorem iterStep_eq (mutIter back : Bool) (w : Win) :
    iterStep sh mutIter back w = if back then View.nextBack w else View.next w := by
  unfold iterStep
  have hn := next_tie sh hw w
  have hb := next_back_tie sh hw w
  cases mutIter <;> cases back <;> simp only [hn.1, hn.2, hb.1, hb.2, Bool.false_eq_true, ↓reduceIte] <;>
  · first
    | (unfold View.next; by_cases h0 : w.l = 0 <;> simp [h0, posOfT_uniform _ sh hw, winOfT_uniform _ sh hw])
    | (unfold View.nextBack; by_cases h0 : w.l = 0 <;> simp [h0, posOfT_uniform _ sh hw, winOfT_uniform _ sh hw])

end Soa.Exec.Gen
