import Soa.Model.Basic
/-!
# From the transposition theorem to method-level refinement

Helper lemmas: what `len()` returns under lockstep, the failing branch of the transposition
theorem (first field panics, nothing changed), preservation of shape and of lockstep.
-/
namespace Soa

/-! ## leaves / firstLen under lockstep -/

theorem leaves_ne_nil : ∀ (c : Cols) (n : Nat), c.lock n → c.leaves ≠ []
  | .leaf xs, _, _ => by simp [Cols.leaves]
  | .nest fs, n, h => by
    rw [lock_nest] at h
    cases fs with
    | nil => exact absurd rfl h.1
    | cons c cs =>
      simp only [Cols.leaves, Cols.leaves.leavesL]
      have := leaves_ne_nil c n (h.2 c (by simp))
      intro hh
      exact this (List.append_eq_nil_iff.mp hh).1

theorem leaves_lock (n : Nat) : ∀ (c : Cols), c.lock n → ∀ l ∈ c.leaves, l.length = n
  | .leaf xs, h => by
    intro l hl
    simp [Cols.leaves] at hl
    subst hl
    exact lock_leaf.mp h
  | .nest fs, h => by
    rw [lock_nest] at h
    simp only [Cols.leaves]
    exact go fs h.2
where go : ∀ fs : List Cols, (∀ c ∈ fs, c.lock n) → ∀ l ∈ Cols.leaves.leavesL fs, l.length = n
  | [], _ => by simp [Cols.leaves.leavesL]
  | c :: cs, h => by
    intro l hl
    simp only [Cols.leaves.leavesL, List.mem_append] at hl
    cases hl with
    | inl hl => exact leaves_lock n c (h c (by simp)) l hl
    | inr hl => exact go cs (fun x hx => h x (by simp [hx])) l hl

/-- under lockstep the generated `len()` (length of the first field) is the common length -/
theorem firstLen_lock (c : Cols) (n : Nat) (h : c.lock n) : c.firstLen = n := by
  unfold Cols.firstLen
  have hne := leaves_ne_nil c n h
  cases hl : c.leaves with
  | nil => exact absurd hl hne
  | cons l ls =>
    simp only [List.headD_cons]
    exact leaves_lock n c h l (by simp [hl])

theorem rows_nil_of_lock0 (c : Cols) (h : c.lock 0) : c.rows = [] :=
  List.eq_nil_of_length_eq_zero (rows_len 0 c h)

/-- the empty argument tree of the argument-less std calls -/
theorem lock_noArgs (c : Cols) (n : Nat) (h : c.lock n) : (c.const []).lock 0 := by
  have := lock_const [] c ⟨n, h⟩
  simpa using this

theorem rows_noArgs (c : Cols) (n : Nat) (h : c.lock n) : (c.const []).rows = [] :=
  rows_nil_of_lock0 _ (lock_noArgs c n h)

/-! ## `same` is an equivalence on trees -/

theorem same_refl : ∀ c : Cols, c.same c
  | .leaf _ => by simp [Cols.same]
  | .nest fs => by rw [same_nest]; exact go fs
where go : ∀ fs : List Cols, Cols.same.sameL fs fs
  | [] => by simp [Cols.same.sameL]
  | c :: cs => by rw [sameL_cons]; exact ⟨same_refl c, go cs⟩

theorem same_symm : ∀ c d : Cols, c.same d → d.same c
  | .leaf _, .leaf _, _ => by simp [Cols.same]
  | .nest fs, .nest gs, h => by rw [same_nest] at h ⊢; exact go fs gs h
  | .leaf _, .nest _, h => by simp [Cols.same] at h
  | .nest _, .leaf _, h => by simp [Cols.same] at h
where go : ∀ fs gs : List Cols, Cols.same.sameL fs gs → Cols.same.sameL gs fs
  | [], [], _ => by simp [Cols.same.sameL]
  | [], _ :: _, h => by simp [Cols.same.sameL] at h
  | _ :: _, [], h => by simp [Cols.same.sameL] at h
  | c :: cs, d :: ds, h => by
    rw [sameL_cons] at h ⊢; exact ⟨same_symm c d h.1, go cs ds h.2⟩

theorem same_trans : ∀ c d e : Cols, c.same d → d.same e → c.same e
  | .leaf _, .leaf _, .leaf _, _, _ => by simp [Cols.same]
  | .nest fs, .nest gs, .nest hs, h1, h2 => by
    rw [same_nest] at h1 h2 ⊢; exact go fs gs hs h1 h2
  | .leaf _, .nest _, _, h, _ => by simp [Cols.same] at h
  | .nest _, .leaf _, _, h, _ => by simp [Cols.same] at h
  | .leaf _, .leaf _, .nest _, _, h => by simp [Cols.same] at h
  | .nest _, .nest _, .leaf _, _, h => by simp [Cols.same] at h
where go : ∀ fs gs hs : List Cols, Cols.same.sameL fs gs → Cols.same.sameL gs hs → Cols.same.sameL fs hs
  | [], [], [], _, _ => by simp [Cols.same.sameL]
  | [], _ :: _, _, h, _ => by simp [Cols.same.sameL] at h
  | _ :: _, [], _, h, _ => by simp [Cols.same.sameL] at h
  | [], [], _ :: _, _, h => by simp [Cols.same.sameL] at h
  | _ :: _, _ :: _, [], _, h => by simp [Cols.same.sameL] at h
  | c :: cs, d :: ds, e :: es, h1, h2 => by
    rw [sameL_cons] at h1 h2 ⊢
    exact ⟨same_trans c d e h1.1 h2.1, go cs ds es h1.2 h2.2⟩

/-! ## shape preservation of `apply2` -/

theorem apply2_same (op : PolyOp) : ∀ c a : Cols, c.same a →
    c.same (c.apply2 op a).st ∧ c.same (c.apply2 op a).out
  | .leaf xs, .leaf as, _ => by
    simp only [Cols.apply2]
    cases op.run xs as <;> simp [Cols.same]
  | .nest fs, .nest gs, h => by
    rw [same_nest] at h
    simp only [Cols.apply2, same_nest]
    exact go fs gs h
  | .leaf _, .nest _, h => by simp [Cols.same] at h
  | .nest _, .leaf _, h => by simp [Cols.same] at h
where go : ∀ fs gs : List Cols, Cols.same.sameL fs gs →
    Cols.same.sameL fs (Cols.apply2.apply2L op fs gs).1 ∧ Cols.same.sameL fs (Cols.apply2.apply2L op fs gs).2.1
  | [], [], _ => by simp [Cols.apply2.apply2L, Cols.same.sameL]
  | [], _ :: _, h => by simp [Cols.same.sameL] at h
  | _ :: _, [], h => by simp [Cols.same.sameL] at h
  | c :: cs, a :: as, h => by
    rw [sameL_cons] at h
    have ih := apply2_same op c a h.1
    have ih' := go cs as h.2
    rw [Cols.apply2.apply2L]
    by_cases hp : (c.apply2 op a).panicked
    · simp only [hp, ↓reduceIte, sameL_cons]
      exact ⟨⟨ih.1, same_refl.go cs⟩, ⟨ih.2, h.2⟩⟩
    · simp only [hp, Bool.false_eq_true, ↓reduceIte, sameL_cons]
      exact ⟨⟨ih.1, ih'.1⟩, ⟨ih.2, ih'.2⟩⟩

/-! ## the failing branch: the first field's std call panics before anything changed -/

theorem apply2_fail (op : PolyOp) (n k : Nat) (hf : op.fails n k = true) :
    ∀ c a : Cols, c.lock n → a.lock k → c.same a →
      (c.apply2 op a).panicked = true ∧ (c.apply2 op a).st = c ∧ (c.apply2 op a).out = a
  | .leaf xs, .leaf as, hc, ha, _ => by
    have hl : xs.length = n := lock_leaf.mp hc
    have hk : as.length = k := lock_leaf.mp ha
    have := op.fail_iff xs as
    rw [hl, hk, hf] at this
    simp only [Cols.apply2]
    cases hr : op.run xs as with
    | none => simp
    | some r => simp [hr] at this
  | .nest fs, .nest gs, hc, ha, hs => by
    rw [lock_nest] at hc ha
    rw [same_nest] at hs
    simp only [Cols.apply2]
    cases fs with
    | nil => exact absurd rfl hc.1
    | cons c cs =>
      cases gs with
      | nil => simp [Cols.same.sameL] at hs
      | cons a as =>
        rw [sameL_cons] at hs
        have ih := apply2_fail op n k hf c a (hc.2 c (by simp)) (ha.2 a (by simp)) hs.1
        simp [Cols.apply2.apply2L, ih.1, ih.2.1, ih.2.2]
  | .leaf _, .nest _, _, _, hs => by simp [Cols.same] at hs
  | .nest _, .leaf _, _, _, hs => by simp [Cols.same] at hs

/-! ## result lengths are determined by the argument lengths, so lockstep is preserved -/

/-- the lengths of the results of a natural operation depend only on the input lengths -/
theorem PolyOp.len_eq (op : PolyOp) {α β : Type} (xs : List α) (as : List α) (ys : List β) (bs : List β)
    (h1 : xs.length = ys.length) (h2 : as.length = bs.length) :
    (op.run xs as).map (fun r => (r.1.length, r.2.length)) =
      (op.run ys bs).map (fun r => (r.1.length, r.2.length)) := by
  have hx : xs.map (fun _ => ()) = ys.map (fun _ => ()) := by
    apply List.ext_getElem <;> simp [h1]
  have ha : as.map (fun _ => ()) = bs.map (fun _ => ()) := by
    apply List.ext_getElem <;> simp [h2]
  have e1 := op.nat (fun _ => ()) xs as
  have e2 := op.nat (fun _ => ()) ys bs
  rw [hx, ha] at e1
  rw [e1] at e2
  cases hr : op.run xs as <;> cases hs : op.run ys bs <;> simp [hr, hs] at e2 ⊢
  have l1 := congrArg List.length e2.1
  have l2 := congrArg List.length e2.2
  simp at l1 l2
  exact ⟨l1, l2⟩

/-- the result lengths of `op` on columns of lengths `n`, `k` (when it does not fail) -/
def PolyOp.outLen (op : PolyOp) (n k : Nat) : Nat × Nat :=
  match op.run (List.replicate n ()) (List.replicate k ()) with
  | some r => (r.1.length, r.2.length)
  | none => (n, k)

theorem PolyOp.run_len (op : PolyOp) {α : Type} (xs as : List α) (r : List α × List α)
    (h : op.run xs as = some r) : (r.1.length, r.2.length) = op.outLen xs.length as.length := by
  have := op.len_eq xs as (List.replicate xs.length ()) (List.replicate as.length ()) (by simp) (by simp)
  rw [h] at this
  unfold PolyOp.outLen
  cases hr : op.run (List.replicate xs.length ()) (List.replicate as.length ()) with
  | none => simp [hr] at this
  | some r' => simp [hr] at this ⊢; exact this

theorem apply2_lock (op : PolyOp) (n k : Nat) (hf : op.fails n k = false) :
    ∀ c a : Cols, c.lock n → a.lock k → c.same a →
      (c.apply2 op a).st.lock (op.outLen n k).1 ∧ (c.apply2 op a).out.lock (op.outLen n k).2
  | .leaf xs, .leaf as, hc, ha, _ => by
    have hl : xs.length = n := lock_leaf.mp hc
    have hk : as.length = k := lock_leaf.mp ha
    have := op.fail_iff xs as
    rw [hl, hk, hf] at this
    simp only [Cols.apply2]
    cases hr : op.run xs as with
    | none => simp [hr] at this
    | some r =>
      have hlen := op.run_len xs as r hr
      rw [hl, hk] at hlen
      simp only [lock_leaf]
      exact ⟨by rw [← hlen], by rw [← hlen]⟩
  | .nest fs, .nest gs, hc, ha, hs => by
    rw [lock_nest] at hc ha
    rw [same_nest] at hs
    simp only [Cols.apply2, lock_nest]
    have := go fs gs hc.2 ha.2 hs
    refine ⟨⟨?_, this.1⟩, ⟨?_, this.2⟩⟩
    · have hsame := (apply2_same.go op fs gs hs).1
      cases fs with
      | nil => exact absurd rfl hc.1
      | cons c cs =>
        cases hh : (Cols.apply2.apply2L op (c :: cs) gs).1 with
        | nil => rw [hh] at hsame; simp [Cols.same.sameL] at hsame
        | cons _ _ => simp
    · have hsame := (apply2_same.go op fs gs hs).2
      cases fs with
      | nil => exact absurd rfl hc.1
      | cons c cs =>
        cases hh : (Cols.apply2.apply2L op (c :: cs) gs).2.1 with
        | nil => rw [hh] at hsame; simp [Cols.same.sameL] at hsame
        | cons _ _ => simp
  | .leaf _, .nest _, _, _, hs => by simp [Cols.same] at hs
  | .nest _, .leaf _, _, _, hs => by simp [Cols.same] at hs
where go : ∀ fs gs : List Cols, (∀ c ∈ fs, c.lock n) → (∀ a ∈ gs, a.lock k) → Cols.same.sameL fs gs →
    (∀ d ∈ (Cols.apply2.apply2L op fs gs).1, d.lock (op.outLen n k).1) ∧
    (∀ d ∈ (Cols.apply2.apply2L op fs gs).2.1, d.lock (op.outLen n k).2)
  | [], [], _, _, _ => by simp [Cols.apply2.apply2L]
  | [], _ :: _, _, _, h => by simp [Cols.same.sameL] at h
  | _ :: _, [], _, _, h => by simp [Cols.same.sameL] at h
  | c :: cs, a :: as, hc, ha, hs => by
    rw [sameL_cons] at hs
    have ih := apply2_lock op n k hf c a (hc c (by simp)) (ha a (by simp)) hs.1
    have hp := (apply2_ok op n k hf c a (hc c (by simp)) (ha a (by simp)) hs.1).1
    have ih' := go cs as (fun x hx => hc x (by simp [hx])) (fun x hx => ha x (by simp [hx])) hs.2
    rw [Cols.apply2.apply2L]
    simp only [hp, Bool.false_eq_true, ↓reduceIte, List.mem_cons]
    constructor
    · intro d hd
      cases hd with
      | inl e => subst e; exact ih.1
      | inr e => exact ih'.1 d e
    · intro d hd
      cases hd with
      | inl e => subst e; exact ih.2
      | inr e => exact ih'.2 d e

end Soa
