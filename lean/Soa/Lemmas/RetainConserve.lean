import Soa.Lemmas.Ledger
import Soa.Lemmas.LoopsW
/-!
# Ownership through `retain` / `retain_mut`, on every tree

Helper lemmas for `C03.retain`: a write through a mutable element reference exchanges one value
(the old one is destroyed, the new one was created by the callback); the swap hands nothing out;
so the loop, whatever the callback answers, writes, and wherever it panics, ends owning what it
owned plus what was created minus what was destroyed.  No lockstep hypothesis.
-/
namespace Soa.Lp
open Soa Soa.Model

theorem set_perm (id : Nat) : ∀ (xs : List Nat) (pos old : Nat), xs[pos]? = some old → (xs.set pos id ++ [old]).Perm (xs ++ [id])
  | [], _, _, h => by simp at h
  | x :: xs, 0, old, h => by
    simp at h; subst h
    simp only [List.set_cons_zero, List.cons_append]
    refine (List.perm_append_comm (l₁ := id :: xs) (l₂ := [x])).trans ?_
    simp only [List.cons_append, List.nil_append]
    exact List.Perm.cons x (List.perm_append_comm (l₁ := [id]) (l₂ := xs))
  | x :: xs, pos + 1, old, h => by
    simp only [List.set_cons_succ, List.cons_append]
    exact List.Perm.cons x (set_perm id xs pos old (by simpa using h))

theorem getD_app_left {α : Type} (l l' : List α) (d : α) (k : Nat) (h : k < l.length) : (l ++ l').getD k d = l.getD k d := by
  simp [List.getD, List.getElem?_append_left h]
theorem getD_app_right {α : Type} (l l' : List α) (d : α) (k : Nat) (h : l.length ≤ k) :
    (l ++ l').getD k d = l'.getD (k - l.length) d := by
  simp [List.getD, List.getElem?_append_right h]

/-- the write exchanges one value, or (leaf number outside this subtree) changes nothing -/
theorem setLeaf_flat (leaf pos id : Nat) : ∀ (c : Cols) (j : Nat),
    (setLeaf leaf pos id c j).2 = j + c.leaves.length ∧
    (j ≤ leaf → ∀ old, (c.leaves.getD (leaf - j) [])[pos]? = some old →
      ((setLeaf leaf pos id c j).1.flat ++ [old]).Perm (c.flat ++ [id])) ∧
    ((leaf < j ∨ j + c.leaves.length ≤ leaf) → (setLeaf leaf pos id c j).1 = c)
  | .leaf xs, j => by
    refine ⟨by simp [setLeaf, Cols.leaves], ?_, ?_⟩
    · intro hj old hold
      by_cases he : j = leaf
      · subst he
        simp only [Nat.sub_self, Cols.leaves, List.getD_cons_zero] at hold
        simpa [setLeaf, Cols.flat, Cols.leaves] using set_perm id xs pos old hold
      · have : leaf - j ≠ 0 := by omega
        obtain ⟨k, hk⟩ := Nat.exists_eq_succ_of_ne_zero this
        simp [Cols.leaves, hk] at hold
    · intro h
      have : j ≠ leaf := by simp [Cols.leaves] at h; omega
      simp [setLeaf, this]
  | .nest fs, j => by
    have h := go fs j
    simp only [setLeaf, Cols.leaves]
    refine ⟨h.1, ?_, ?_⟩
    · intro hj old hold
      rw [flat_nest, flat_nest]
      exact h.2.1 hj old hold
    · intro hh
      rw [h.2.2 hh]
where go : ∀ (fs : List Cols) (j : Nat),
    (setLeaf.setLeafL leaf pos id fs j).2 = j + (Cols.leaves.leavesL fs).length ∧
    (j ≤ leaf → ∀ old, ((Cols.leaves.leavesL fs).getD (leaf - j) [])[pos]? = some old →
      ((((setLeaf.setLeafL leaf pos id fs j).1).map Cols.flat).flatten ++ [old]).Perm ((fs.map Cols.flat).flatten ++ [id])) ∧
    ((leaf < j ∨ j + (Cols.leaves.leavesL fs).length ≤ leaf) → (setLeaf.setLeafL leaf pos id fs j).1 = fs)
  | [], j => by
    refine ⟨by simp [setLeaf.setLeafL, Cols.leaves.leavesL], ?_, fun _ => by simp [setLeaf.setLeafL]⟩
    intro _ old hold
    simp [Cols.leaves.leavesL] at hold
  | c :: cs, j => by
    have h1 := setLeaf_flat leaf pos id c j
    have h2 := go cs (j + c.leaves.length)
    have hu : setLeaf.setLeafL leaf pos id (c :: cs) j =
        ((setLeaf leaf pos id c j).1 :: (setLeaf.setLeafL leaf pos id cs (setLeaf leaf pos id c j).2).1,
          (setLeaf.setLeafL leaf pos id cs (setLeaf leaf pos id c j).2).2) := rfl
    rw [hu, h1.1]
    simp only [Cols.leaves.leavesL, List.length_append]
    refine ⟨by rw [h2.1]; omega, ?_, ?_⟩
    · intro hj old hold
      by_cases hin : leaf - j < c.leaves.length
      · -- the leaf is in `c`; the siblings are unchanged
        rw [getD_app_left _ _ _ _ hin] at hold
        rw [h2.2.2 (Or.inl (by omega))]
        have := h1.2.1 hj old hold
        simp only [List.map_cons, List.flatten_cons]
        refine (perm_mid _ _ _).trans (((List.Perm.append_right _ this).trans ?_))
        simp only [List.append_assoc]
        exact List.Perm.append_left _ List.perm_append_comm
      · rw [getD_app_right _ _ _ _ (by omega)] at hold
        rw [h1.2.2 (Or.inr (by omega))]
        have := h2.2.1 (by omega) old (by rwa [show leaf - (j + c.leaves.length) = leaf - j - c.leaves.length by omega])
        simp only [List.map_cons, List.flatten_cons, List.append_assoc]
        exact List.Perm.append_left _ this
    · intro hh
      rw [h1.2.2 (by omega), h2.2.2 (by omega)]

/-- a write through a mutable element reference: one value destroyed, one created -/
theorem writeLeaf_conserve (c : Cols) (leaf pos id : Nat) :
    ((writeLeaf c leaf pos id).1.flat ++ (writeLeaf c leaf pos id).2.1.drops).Perm (c.flat ++ (writeLeaf c leaf pos id).2.2) := by
  unfold writeLeaf
  split
  · rename_i old hold
    exact (setLeaf_flat leaf pos id c 0).2.1 (by omega) old (by simpa using hold)
  · simp

theorem ev_drops_append (a b : Ev) : (a ++ b).drops = a.drops ++ b.drops := rfl

section
variable (keep : Nat → Bool) (boom : Option Nat) (touch : Nat → Nat → Option (Nat × Nat))

theorem touched_conserve (c : Cols) (ev : Ev) (made : List Nat) (i : Nat) :
    ∃ mk dk, (touched touch c ev made i).2.2 = made ++ mk ∧ (touched touch c ev made i).2.1.drops = ev.drops ++ dk ∧
      ((touched touch c ev made i).1.flat ++ dk).Perm (c.flat ++ mk) := by
  unfold touched
  split
  · exact ⟨_, _, rfl, rfl, writeLeaf_conserve c _ _ _⟩
  · exact ⟨[], [], by simp, by simp, by simp⟩

end
end Soa.Lp

namespace Soa
open Soa.Model

/-- an op that hands nothing out when given nothing -/
def PolyOp.NoOut (op : PolyOp) : Prop := ∀ {α : Type} (xs : List α) (r : List α × List α), op.run xs [] = some r → r.2 = []

theorem apply2_out_nil (op : PolyOp) (hn : op.NoOut) : ∀ c : Cols, (c.apply2 op (c.const [])).out.flat = []
  | .leaf xs => by
    simp only [Cols.const, Cols.apply2]
    cases hr : op.run xs [] with
    | none => simp [Cols.flat, Cols.leaves]
    | some r => simp [Cols.flat, Cols.leaves, hn xs r hr]
  | .nest fs => by
    simp only [Cols.const, Cols.apply2]
    rw [flat_nest]
    exact go fs
where go : ∀ fs : List Cols, (((Cols.apply2.apply2L op fs (Cols.const.constL [] fs)).2.1).map Cols.flat).flatten = []
  | [] => by simp [Cols.const.constL, Cols.apply2.apply2L]
  | c :: cs => by
    simp only [Cols.const.constL, Cols.apply2.apply2L]
    split
    · simp only [List.map_cons, List.flatten_cons, apply2_out_nil op hn c, List.nil_append]
      exact flat_const_nil.go cs
    · simp only [List.map_cons, List.flatten_cons, apply2_out_nil op hn c, List.nil_append]
      exact go cs

theorem swap_noOut (a b : Nat) : (swapOp a b).NoOut := by
  intro α xs r hr
  simp only [swapOp, PolyOp.ofTotal_run] at hr
  split at hr
  · cases hr; rfl
  · cases hr

theorem swap_linear (a b : Nat) : (swapOp a b).Linear :=
  PolyOp.ofTotal_linear (by
    intro α xs as h
    simp only [Bool.and_eq_true, decide_eq_true_eq, beq_iff_eq] at h
    have : as = [] := List.eq_nil_of_length_eq_zero h.2
    subst this
    simpa using swapList_perm xs a b)

/-- the swap of the `retain` loop moves values inside the container and nowhere else, on every tree -/
theorem swap_conserve (c : Cols) (a b : Nat) : (c.apply2 (swapOp a b) (Model.noArgs c)).st.flat.Perm c.flat := by
  have h := apply2_conserve (swapOp a b) (swap_linear a b) c (c.const []) (same_const [] c)
  have ho := apply2_out_nil (swapOp a b) (swap_noOut a b) c
  rw [ho, flat_const_nil] at h
  simpa [Model.noArgs] using h

end Soa

namespace Soa.Lp
open Soa Soa.Model

theorem perm_chain (R T C dk dk2 mk mk2 C' : List Nat) (hp2 : (R ++ dk2).Perm (C' ++ mk2)) (hc' : C'.Perm T)
    (hp : (T ++ dk).Perm (C ++ mk)) : (R ++ (dk ++ dk2)).Perm (C ++ (mk ++ mk2)) := by
  have h1 : (R ++ (dk ++ dk2)).Perm (R ++ dk2 ++ dk) := by
    rw [List.append_assoc]; exact List.Perm.append_left _ List.perm_append_comm
  have h2 : (R ++ dk2 ++ dk).Perm (C' ++ mk2 ++ dk) := List.Perm.append_right dk hp2
  have h3 : (C' ++ mk2 ++ dk).Perm (C' ++ dk ++ mk2) := perm_mid _ _ _
  have h4 : (C' ++ dk ++ mk2).Perm (C ++ mk ++ mk2) :=
    List.Perm.append_right mk2 ((List.Perm.append_right dk hc').trans hp)
  have h5 := h1.trans (h2.trans (h3.trans h4))
  rwa [List.append_assoc C mk mk2] at h5

/-- **the `retain` / `retain_mut` loop conserves ownership** on every tree, for every sequence of
    answers, every panicking call and every write of the callback -/
theorem retainLoop_conserve (keep : Nat → Bool) (boom : Option Nat) (touch : Nat → Nat → Option (Nat × Nat)) :
    ∀ (fuel i del : Nat) (c : Cols) (vis : List (List Nat)) (ev : Ev) (made : List Nat),
      ∃ mk dk, (Model.retainLoop keep boom touch fuel i del c vis ev made).made = made ++ mk ∧
        (Model.retainLoop keep boom touch fuel i del c vis ev made).ev.drops = ev.drops ++ dk ∧
        ((Model.retainLoop keep boom touch fuel i del c vis ev made).c.flat ++ dk).Perm (c.flat ++ mk)
  | 0, i, del, c, vis, ev, made => ⟨[], [], by simp [Model.retainLoop], by simp [Model.retainLoop], by simp [Model.retainLoop]⟩
  | fuel + 1, i, del, c, vis, ev, made => by
    obtain ⟨mk, dk, hm, hd, hp⟩ := touched_conserve touch c ev made i
    rw [retainLoop_succ]
    split
    · exact ⟨mk, dk, hm, hd, hp⟩
    · have step : ∀ (del' : Nat) (c' : Cols), c'.flat.Perm (touched touch c ev made i).1.flat →
          ∃ mk' dk', (Model.retainLoop keep boom touch fuel (i + 1) del' c' (vis ++ [Model.rowAt c i])
              (touched touch c ev made i).2.1 (touched touch c ev made i).2.2).made = made ++ mk' ∧
            (Model.retainLoop keep boom touch fuel (i + 1) del' c' (vis ++ [Model.rowAt c i])
              (touched touch c ev made i).2.1 (touched touch c ev made i).2.2).ev.drops = ev.drops ++ dk' ∧
            ((Model.retainLoop keep boom touch fuel (i + 1) del' c' (vis ++ [Model.rowAt c i])
              (touched touch c ev made i).2.1 (touched touch c ev made i).2.2).c.flat ++ dk').Perm (c.flat ++ mk') := by
        intro del' c' hc'
        obtain ⟨mk2, dk2, hm2, hd2, hp2⟩ := retainLoop_conserve keep boom touch fuel (i + 1) del' c' (vis ++ [Model.rowAt c i])
          (touched touch c ev made i).2.1 (touched touch c ev made i).2.2
        refine ⟨mk ++ mk2, dk ++ dk2, by rw [hm2, hm, List.append_assoc], by rw [hd2, hd, List.append_assoc], ?_⟩
        exact perm_chain _ _ _ _ _ _ _ _ hp2 hc' hp
      split
      · exact step _ _ (List.Perm.refl _)
      · split
        · exact step _ _ (swap_conserve _ _ _)
        · exact step _ _ (List.Perm.refl _)

end Soa.Lp
