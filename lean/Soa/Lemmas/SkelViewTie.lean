import Soa.Model.SkelView
import Soa.Lemmas.SkelRead.C05
/-!
# Views, references and pointer bundles: the extracted methods act uniformly on every field

For every generated view / reference / pointer method with per-field content: on a value
whose fields all carry the same std value (all field slices cover the same window, all
field pointers designate the same position — what lockstep means for a view), the method
*as extracted from /repo* yields a value whose fields all carry the same result, and that
result is the one the hand-written model (`Soa.View`, `C10.Bundle`) uses.  For every
well-formed shape, every window / position and every argument.
-/
set_option linter.unusedSimpArgs false
namespace Soa.Sk
open Soa View Soa.Extracted Soa.Sk.Expected

variable (sh : Shape) (hw : sh.wf)
include hw

/-- unfold the run of a view method on a uniform value -/
macro "view_run" rd:ident ex:ident nm:term : tactic => `(tactic| (
  have hn := $nm
  simp only [runView, $rd:ident, $ex:ident, hn, runViewSk, itemExpr, nestOkView, subject, isSliceFromRawParts,
    mapR_uniform _ _ _ ‹Shape.wf _›, first_uniform _ _ ‹Shape.wf _›, any_uniform _ _ _ ‹Shape.wf _›, viewLeaf, vNat, vInt,
    isEmptyLV, isNullLV]))

/-! ## vector → views -/

theorem as_slice_tie (n : Nat) :
    runView sk_PVec_as_slice (VT.uniform (.len n) sh) [] = .ok (.one (VT.uniform (.win ⟨0, n⟩) sh)) := by
  view_run read_PVec_as_slice exp_PVec_as_slice (by decide : sk_PVec_as_slice.name = "as_slice")
  simp [R.bind, R.map]

theorem as_mut_slice_tie (n : Nat) :
    runView sk_PVec_as_mut_slice (VT.uniform (.len n) sh) [] = .ok (.one (VT.uniform (.win ⟨0, n⟩) sh)) := by
  view_run read_PVec_as_mut_slice exp_PVec_as_mut_slice (by decide : sk_PVec_as_mut_slice.name = "as_mut_slice")
  simp [R.bind, R.map]

/-- `vec.slice(a..b)`: the window `a..b` in every field, panicking exactly when std indexing does (`View.vecSlice`) -/
theorem slice_tie (n a b : Nat) :
    runView sk_PVec_slice (VT.uniform (.len n) sh) [.range a b] =
      match vecSlice n a b with
      | .ok w => .ok (.one (VT.uniform (.win w) sh))
      | _ => .panic := by
  view_run read_PVec_slice exp_PVec_slice (by decide : sk_PVec_slice.name = "slice")
  unfold vecSlice
  by_cases h : a ≤ b ∧ b ≤ n <;> simp [h, R.bind, R.map, isEmptyLV]

theorem slice_mut_tie (n a b : Nat) :
    runView sk_PVec_slice_mut (VT.uniform (.len n) sh) [.range a b] =
      match vecSlice n a b with
      | .ok w => .ok (.one (VT.uniform (.win w) sh))
      | _ => .panic := by
  view_run read_PVec_slice_mut exp_PVec_slice_mut (by decide : sk_PVec_slice_mut.name = "slice_mut")
  unfold vecSlice
  by_cases h : a ≤ b ∧ b ≤ n <;> simp [h, R.bind, R.map, isEmptyLV]

/-! ## shared views -/

theorem split_at_tie (w : Win) (k : Nat) :
    runView sk_PSlice_a_split_at (VT.uniform (.win w) sh) [.nat k] =
      match splitAt w k 0, splitAt w k 1 with
      | .ok l, .ok r => .ok (.two (VT.uniform (.win l) sh) (VT.uniform (.win r) sh))
      | _, _ => .panic := by
  view_run read_PSlice_a_split_at exp_PSlice_a_split_at (by decide : sk_PSlice_a_split_at.name = "split_at")
  unfold splitAt
  by_cases h : k ≤ w.l <;> simp [h, R.bind, R.map, unzip_uniform, isEmptyLV]

theorem split_at_mut_tie (w : Win) (k : Nat) :
    runView sk_PSliceMut_a_split_at_mut (VT.uniform (.win w) sh) [.nat k] =
      match splitAt w k 0, splitAt w k 1 with
      | .ok l, .ok r => .ok (.two (VT.uniform (.win l) sh) (VT.uniform (.win r) sh))
      | _, _ => .panic := by
  view_run read_PSliceMut_a_split_at_mut exp_PSliceMut_a_split_at_mut (by decide : sk_PSliceMut_a_split_at_mut.name = "split_at_mut")
  unfold splitAt
  by_cases h : k ≤ w.l <;> simp [h, R.bind, R.map, unzip_uniform, isEmptyLV]

theorem first_tie (w : Win) :
    runView sk_PSlice_a_first (VT.uniform (.win w) sh) [] =
      match first w with
      | .ok p => .ok (.one (VT.uniform (.pos p) sh))
      | _ => .ok .none_ := by
  view_run read_PSlice_a_first exp_PSlice_a_first (by decide : sk_PSlice_a_first.name = "first")
  unfold first
  by_cases h : w.l = 0
  · simp [h, R.bind, R.map, isEmptyLV]
  · have hb : (w.l == 0) = false := by simpa using h
    simp [hb, h, R.bind, R.map, isEmptyLV]

theorem first_mut_tie (w : Win) :
    runView sk_PSliceMut_a_first_mut (VT.uniform (.win w) sh) [] =
      match first w with
      | .ok p => .ok (.one (VT.uniform (.pos p) sh))
      | _ => .ok .none_ := by
  view_run read_PSliceMut_a_first_mut exp_PSliceMut_a_first_mut (by decide : sk_PSliceMut_a_first_mut.name = "first_mut")
  unfold first
  by_cases h : w.l = 0
  · simp [h, R.bind, R.map, isEmptyLV]
  · have hb : (w.l == 0) = false := by simpa using h
    simp [hb, h, R.bind, R.map, isEmptyLV]

theorem last_tie (w : Win) :
    runView sk_PSlice_a_last (VT.uniform (.win w) sh) [] =
      match last w with
      | .ok p => .ok (.one (VT.uniform (.pos p) sh))
      | _ => .ok .none_ := by
  view_run read_PSlice_a_last exp_PSlice_a_last (by decide : sk_PSlice_a_last.name = "last")
  unfold last
  by_cases h : w.l = 0
  · simp [h, R.bind, R.map, isEmptyLV]
  · have hb : (w.l == 0) = false := by simpa using h
    simp [hb, h, R.bind, R.map, isEmptyLV]

theorem last_mut_tie (w : Win) :
    runView sk_PSliceMut_a_last_mut (VT.uniform (.win w) sh) [] =
      match last w with
      | .ok p => .ok (.one (VT.uniform (.pos p) sh))
      | _ => .ok .none_ := by
  view_run read_PSliceMut_a_last_mut exp_PSliceMut_a_last_mut (by decide : sk_PSliceMut_a_last_mut.name = "last_mut")
  unfold last
  by_cases h : w.l = 0
  · simp [h, R.bind, R.map, isEmptyLV]
  · have hb : (w.l == 0) = false := by simpa using h
    simp [hb, h, R.bind, R.map, isEmptyLV]

theorem split_first_tie (w : Win) :
    runView sk_PSlice_a_split_first (VT.uniform (.win w) sh) [] =
      match splitFirst w with
      | .ok (p, r) => .ok (.two (VT.uniform (.pos p) sh) (VT.uniform (.win r) sh))
      | _ => .ok .none_ := by
  view_run read_PSlice_a_split_first exp_PSlice_a_split_first (by decide : sk_PSlice_a_split_first.name = "split_first")
  unfold splitFirst
  by_cases h : w.l = 0
  · simp [h, R.bind, R.map, unzip_uniform, isEmptyLV]
  · have hb : (w.l == 0) = false := by simpa using h
    simp [hb, h, R.bind, R.map, unzip_uniform, isEmptyLV]

theorem split_first_mut_tie (w : Win) :
    runView sk_PSliceMut_a_split_first_mut (VT.uniform (.win w) sh) [] =
      match splitFirst w with
      | .ok (p, r) => .ok (.two (VT.uniform (.pos p) sh) (VT.uniform (.win r) sh))
      | _ => .ok .none_ := by
  view_run read_PSliceMut_a_split_first_mut exp_PSliceMut_a_split_first_mut (by decide : sk_PSliceMut_a_split_first_mut.name = "split_first_mut")
  unfold splitFirst
  by_cases h : w.l = 0
  · simp [h, R.bind, R.map, unzip_uniform, isEmptyLV]
  · have hb : (w.l == 0) = false := by simpa using h
    simp [hb, h, R.bind, R.map, unzip_uniform, isEmptyLV]

theorem split_last_tie (w : Win) :
    runView sk_PSlice_a_split_last (VT.uniform (.win w) sh) [] =
      match splitLast w with
      | .ok (p, r) => .ok (.two (VT.uniform (.pos p) sh) (VT.uniform (.win r) sh))
      | _ => .ok .none_ := by
  view_run read_PSlice_a_split_last exp_PSlice_a_split_last (by decide : sk_PSlice_a_split_last.name = "split_last")
  unfold splitLast
  by_cases h : w.l = 0
  · simp [h, R.bind, R.map, unzip_uniform, isEmptyLV]
  · have hb : (w.l == 0) = false := by simpa using h
    simp [hb, h, R.bind, R.map, unzip_uniform, isEmptyLV]

theorem split_last_mut_tie (w : Win) :
    runView sk_PSliceMut_a_split_last_mut (VT.uniform (.win w) sh) [] =
      match splitLast w with
      | .ok (p, r) => .ok (.two (VT.uniform (.pos p) sh) (VT.uniform (.win r) sh))
      | _ => .ok .none_ := by
  view_run read_PSliceMut_a_split_last_mut exp_PSliceMut_a_split_last_mut (by decide : sk_PSliceMut_a_split_last_mut.name = "split_last_mut")
  unfold splitLast
  by_cases h : w.l = 0
  · simp [h, R.bind, R.map, unzip_uniform, isEmptyLV]
  · have hb : (w.l == 0) = false := by simpa using h
    simp [hb, h, R.bind, R.map, unzip_uniform, isEmptyLV]

/-- `reborrow`, `as_ref`, `as_slice` of views: the same window in every field -/
theorem same_window_tie (w : Win) :
    runView sk_PSlice_a_reborrow (VT.uniform (.win w) sh) [] = .ok (.one (VT.uniform (.win w) sh)) ∧
    runView sk_PSliceMut_a_reborrow (VT.uniform (.win w) sh) [] = .ok (.one (VT.uniform (.win w) sh)) ∧
    runView sk_PSliceMut_a_as_ref (VT.uniform (.win w) sh) [] = .ok (.one (VT.uniform (.win w) sh)) ∧
    runView sk_PSliceMut_a_as_slice (VT.uniform (.win w) sh) [] = .ok (.one (VT.uniform (.win w) sh)) := by
  refine ⟨?_, ?_, ?_, ?_⟩
  · view_run read_PSlice_a_reborrow exp_PSlice_a_reborrow (by decide : sk_PSlice_a_reborrow.name = "reborrow")
    simp [R.bind, R.map]
  · view_run read_PSliceMut_a_reborrow exp_PSliceMut_a_reborrow (by decide : sk_PSliceMut_a_reborrow.name = "reborrow")
    simp [R.bind, R.map]
  · view_run read_PSliceMut_a_as_ref exp_PSliceMut_a_as_ref (by decide : sk_PSliceMut_a_as_ref.name = "as_ref")
    simp [R.bind, R.map]
  · view_run read_PSliceMut_a_as_slice exp_PSliceMut_a_as_slice (by decide : sk_PSliceMut_a_as_slice.name = "as_slice")
    simp [R.bind, R.map]

end Soa.Sk
