import Soa.Model.SkelCap
import Soa.Lemmas.SkelRead.C12
/-!
# Capacity API: the extracted methods are the capacity model

`reserve`, `reserve_exact`, `shrink_to_fit`, `with_capacity` as extracted from /repo are the
per-leaf std policies of `Soa/Model/Cap.lean` applied to every leaf; the extracted
`capacity()` — a `min` fold in which a nested field contributes its own `capacity()` — is
the smallest leaf capacity, for every shape.
-/
set_option linter.unusedSimpArgs false
namespace Soa.Sk
open Soa Soa.Cap Soa.Extracted Soa.Sk.Expected

theorem mapCaps_total (g : Char → Nat → Nat) : ∀ l : List (Char × Nat),
    mapCaps (fun k c => some (g k c)) l = some (l.map (fun p => (p.1, g p.1 p.2)))
  | [] => rfl
  | p :: ps => by simp [mapCaps, mapCaps_total g ps]

theorem reserve_tie (s : St) (n : Nat) : runCapStmts sk_PVec_reserve s [n] = some (s.reserve n) := by
  have hn : sk_PVec_reserve.name = "reserve" := by decide
  simp only [runCapStmts, read_PVec_reserve, exp_PVec_reserve, hn, nestOkView, capLeaf]
  have : capLeaf [n] s.len (FE.call "reserve" [Arg.param 0] Post.none) = fun k c => some (leafReserve k s.len n c) := by
    funext k c; simp [capLeaf]
  simp [this, mapCaps_total, St.reserve, St.map]

theorem reserve_exact_tie (s : St) (n : Nat) : runCapStmts sk_PVec_reserve_exact s [n] = some (s.reserveExact n) := by
  have hn : sk_PVec_reserve_exact.name = "reserve_exact" := by decide
  simp only [runCapStmts, read_PVec_reserve_exact, exp_PVec_reserve_exact, hn, nestOkView, capLeaf]
  have : capLeaf [n] s.len (FE.call "reserve_exact" [Arg.param 0] Post.none) = fun k c => some (leafReserveExact k s.len n c) := by
    funext k c; simp [capLeaf]
  simp [this, mapCaps_total, St.reserveExact, St.map]

theorem shrink_to_fit_tie (s : St) : runCapStmts sk_PVec_shrink_to_fit s [] = some s.shrink := by
  have hn : sk_PVec_shrink_to_fit.name = "shrink_to_fit" := by decide
  simp only [runCapStmts, read_PVec_shrink_to_fit, exp_PVec_shrink_to_fit, hn, nestOkView, capLeaf]
  have : capLeaf [] s.len (FE.call "shrink_to_fit" [] Post.none) = fun k c => some (leafShrink k s.len c) := by
    funext k c; simp [capLeaf]
  simp [this, mapCaps_total, St.shrink, St.map]

theorem with_capacity_tie (kinds : List Char) (n : Nat) :
    runWithCapacity sk_PVec_with_capacity kinds n = some (St.new kinds n) := by
  have h : isWithCapacity sk_PVec_with_capacity = true := by decide
  simp [runWithCapacity, h]

/-! ## `capacity()` -/

theorem le_foldl_min (m : Nat) : ∀ (l : List Nat) (a : Nat), m ≤ l.foldl min a ↔ m ≤ a ∧ ∀ x ∈ l, m ≤ x
  | [], a => by simp
  | x :: xs, a => by
    rw [List.foldl_cons, le_foldl_min m xs (min a x)]
    simp only [List.mem_cons, forall_eq_or_imp]
    constructor
    · rintro ⟨h, hr⟩; exact ⟨by omega, by omega, hr⟩
    · rintro ⟨h, h', hr⟩; exact ⟨by omega, hr⟩

theorem le_capOf_iff (m : Nat) : ∀ t : CapT, t.wf → (m ≤ capOf t ↔ ∀ p ∈ t.flat, m ≤ p.2)
  | .leaf p, _ => by simp [capOf, VT.flat]
  | .nest fs, h => by
    simp only [VT.wf] at h
    have hl := go fs h.2
    cases fs with
    | nil => exact absurd rfl h.1
    | cons f fs =>
      simp only [capOf, capOf.capsL, VT.flat]
      rw [le_foldl_min]
      simp only [capOf.capsL, VT.flat.flatL] at hl
      constructor
      · rintro ⟨_, hx⟩; exact hl.mp hx
      · intro hx
        have := hl.mpr hx
        exact ⟨this _ (by simp), this⟩
where go : ∀ fs : List CapT, (∀ f ∈ fs, f.wf) →
    ((∀ x ∈ capOf.capsL fs, m ≤ x) ↔ ∀ p ∈ VT.flat.flatL fs, m ≤ p.2)
  | [], _ => by simp [capOf.capsL, VT.flat.flatL]
  | f :: fs, h => by
    have ih := go fs (fun x hx => h x (by simp [hx]))
    have i1 := le_capOf_iff m f (h f (by simp))
    simp only [capOf.capsL, VT.flat.flatL, List.mem_cons, forall_eq_or_imp, List.mem_append]
    rw [i1, ih]
    constructor
    · rintro ⟨a, b⟩ p hp; rcases hp with hp | hp; exact a p hp; exact b p hp
    · intro hh; exact ⟨fun p hp => hh p (Or.inl hp), fun p hp => hh p (Or.inr hp)⟩

theorem flat_ne_nil : ∀ t : CapT, t.wf → t.flat ≠ []
  | .leaf _, _ => by simp [VT.flat]
  | .nest fs, h => by
    simp only [VT.wf] at h
    cases fs with
    | nil => exact absurd rfl h.1
    | cons f fs =>
      simp only [VT.flat, VT.flat.flatL]
      intro hh
      exact flat_ne_nil f (h.2 f (by simp)) (List.append_eq_nil_iff.mp hh).1

theorem le_capacity_iff (m : Nat) (s : St) (hne : s.caps ≠ []) : m ≤ s.capacity ↔ ∀ p ∈ s.caps, m ≤ p.2 := by
  unfold St.capacity
  cases hc : s.caps with
  | nil => exact absurd hc hne
  | cons p ps =>
    simp only
    have : ∀ (l : List (Char × Nat)) (a : Nat), m ≤ l.foldl (fun m q => min m q.2) a ↔ m ≤ a ∧ ∀ x ∈ l, m ≤ x.2 := by
      intro l
      induction l with
      | nil => simp
      | cons x xs ih =>
        intro a
        rw [List.foldl_cons, ih]
        simp only [List.mem_cons, forall_eq_or_imp]
        constructor
        · rintro ⟨h, hr⟩; exact ⟨by omega, by omega, hr⟩
        · rintro ⟨h, h', hr⟩; exact ⟨by omega, hr⟩
    rw [this]
    simp

/-- the extracted `capacity()` on a vector of any shape is the smallest leaf capacity -/
theorem capacity_tie (t : CapT) (ht : t.wf) (len : Nat) :
    runCapacity sk_PVec_capacity t = some (St.capacity { len := len, caps := t.flat }) := by
  have h : isCapacity sk_PVec_capacity = true := by decide
  simp only [runCapacity, h, ↓reduceIte, Option.some.injEq]
  apply Nat.le_antisymm
  · rw [le_capacity_iff _ { len := len, caps := t.flat } (flat_ne_nil t ht)]
    exact (le_capOf_iff _ t ht).mp (Nat.le_refl _)
  · rw [le_capOf_iff _ t ht]
    exact (le_capacity_iff _ { len := len, caps := t.flat } (flat_ne_nil t ht)).mp (Nat.le_refl _)

end Soa.Sk
