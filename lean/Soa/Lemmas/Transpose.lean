import Soa.Lemmas.Loops
import Soa.Own
/-!
# Transposition preserves the multiset of field values

The ids of a lockstep container read row by row are a permutation of the ids read column
by column (`Cols.ids`, `Cols.flat`): nothing is lost or duplicated by looking at the
container element-wise instead of field-wise.
-/
namespace Soa

theorem zipCons_ids : ∀ (xs : List Elem) (ys : List (List Elem)), xs.length = ys.length →
    (((List.zipWith (· :: ·) xs ys).map (fun r => (r.map Elem.ids).flatten)).flatten).Perm
      ((xs.map Elem.ids).flatten ++ (ys.map (fun r => (r.map Elem.ids).flatten)).flatten)
  | [], [], _ => by simp
  | x :: xs, y :: ys, h => by
    have ih := zipCons_ids xs ys (by simpa using h)
    simp only [List.zipWith_cons_cons, List.map_cons, List.flatten_cons, List.append_assoc]
    refine List.Perm.append_left _ ?_
    -- y.ids ++ rest  ~  xs.ids ++ (y.ids ++ ys.ids)
    refine (List.Perm.append_left _ ih).trans ?_
    rw [← List.append_assoc, ← List.append_assoc]
    exact List.Perm.append_right _ List.perm_append_comm
  | [], _ :: _, h => by simp at h
  | _ :: _, [], h => by simp at h

theorem leaf_ids_flatten : ∀ xs : List Nat, (xs.map (Elem.ids ∘ Elem.leaf)).flatten = xs
  | [] => rfl
  | x :: xs => by simp [Elem.ids, leaf_ids_flatten xs]

theorem rows_ids_perm (n : Nat) : ∀ c : Cols, c.lock n → ((c.rows.map Elem.ids).flatten).Perm c.ids
  | .leaf xs, _ => by
    simp only [Cols.rows, Cols.ids, List.map_map]
    rw [leaf_ids_flatten]
  | .nest fs, h => by
    rw [lock_nest] at h
    simp only [Cols.rows, Cols.ids, List.map_map]
    have : (Elem.ids ∘ Elem.nest) = fun r => (r.map Elem.ids).flatten := by
      funext r; simp [ids_nest]
    rw [this]
    exact go fs h.1 h.2
where go : ∀ fs : List Cols, fs ≠ [] → (∀ c ∈ fs, c.lock n) →
    (((Cols.rows.rowsL fs).map (fun r => (r.map Elem.ids).flatten)).flatten).Perm (Cols.ids.idsL fs)
  | [], h, _ => absurd rfl h
  | [c], _, h => by
    simp only [Cols.rows.rowsL, Cols.ids.idsL, List.append_nil, List.map_map]
    have : ((fun r => (List.map Elem.ids r).flatten) ∘ fun e => [e]) = Elem.ids := by
      funext e; simp
    rw [this]
    exact rows_ids_perm n c (h c (by simp))
  | c :: c' :: cs, _, h => by
    simp only [Cols.rows.rowsL, Cols.ids.idsL]
    have l1 := rows_len n c (h c (by simp))
    have l2 := rows_len.rowsL_len n (c' :: cs) (by simp) (fun x hx => h x (by simp at hx ⊢; right; exact hx))
    refine (zipCons_ids c.rows _ (by omega)).trans ?_
    exact List.Perm.append (rows_ids_perm n c (h c (by simp)))
      (go (c' :: cs) (by simp) (fun x hx => h x (by simp at hx ⊢; right; exact hx)))

end Soa
