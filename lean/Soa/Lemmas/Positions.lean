import Soa.Model.Views
import Soa.Lemmas.Loops
/-!
# Reading columns at positions = reading rows

`View.rowIds c i` (what the executable model prints for the element at position `i`: one id
per leaf) is the id list of row `i`; applying one list function to every leaf is a
per-field application (`apply2`), so the transposition theorem applies to windows, gathers
and single-leaf writes.
-/
namespace Soa
open View

/-- a total natural function on lists, as a `PolyOp` without argument that never fails on
    columns of length `n` satisfying `ok` -/
def fnOp (ok : Nat → Bool) (f : {α : Type} → List α → List α)
    (hnat : ∀ {α β : Type} (g : α → β) (xs : List α), f (xs.map g) = (f xs).map g) : PolyOp :=
  .ofTotal (fun n k => ok n && k == 0) (fun xs _ => (f xs, [])) (by intros; simp [hnat])

/-- `mapLeaves f` is the per-field application of `fnOp`, when `f` is what the op computes -/
theorem mapLeaves_eq_apply2 (ok : Nat → Bool) (f : {α : Type} → List α → List α) (hnat) (n : Nat) (hok : ok n = true) :
    ∀ c : Cols, c.lock n → (c.apply2 (fnOp ok f hnat) (c.const [])).st = mapLeaves (f (α := Nat)) c
  | .leaf xs, h => by
    have hl : xs.length = n := lock_leaf.mp h
    simp [Cols.const, Cols.apply2, fnOp, PolyOp.ofTotal_run, hl, hok, mapLeaves]
  | .nest fs, h => by
    rw [lock_nest] at h
    simp only [Cols.const, Cols.apply2, mapLeaves]
    congr 1
    exact go fs h.2
where go : ∀ fs : List Cols, (∀ c ∈ fs, c.lock n) →
    (Cols.apply2.apply2L (fnOp ok f hnat) fs (Cols.const.constL [] fs)).1 = mapLeaves.mapLeavesL (f (α := Nat)) fs
  | [], _ => by simp [Cols.const.constL, Cols.apply2.apply2L, mapLeaves.mapLeavesL]
  | c :: cs, h => by
    have hc := h c (by simp)
    have ih := mapLeaves_eq_apply2 ok f hnat n hok c hc
    have ih' := go cs (fun x hx => h x (by simp [hx]))
    have hp : (c.apply2 (fnOp ok f hnat) (c.const [])).panicked = false :=
      (apply2_ok (fnOp ok f hnat) n 0 (by simp [fnOp, hok]) c (c.const []) hc (lock_noArgs c n hc) (same_const [] c)).1
    simp only [Cols.const.constL, Cols.apply2.apply2L, hp, Bool.false_eq_true, ↓reduceIte, mapLeaves.mapLeavesL, ih, ih']

/-- applying a natural list function to every field array applies it to the rows -/
theorem mapLeaves_rows (ok : Nat → Bool) (f : {α : Type} → List α → List α)
    (hnat : ∀ {α β : Type} (g : α → β) (xs : List α), f (xs.map g) = (f xs).map g)
    (n : Nat) (hok : ok n = true) (c : Cols) (hc : c.lock n) :
    (mapLeaves (f (α := Nat)) c).rows = f c.rows := by
  rw [← mapLeaves_eq_apply2 ok f hnat n hok c hc]
  cases perField0 (fnOp ok f hnat) c n hc with
  | ok s hrun _ _ hst _ _ _ _ _ =>
    rw [rows_noArgs c n hc] at hrun
    simp only [fnOp, PolyOp.ofTotal_run, rows_len n c hc, hok, List.length_nil, BEq.rfl, Bool.and_self, ↓reduceIte,
      Option.some.injEq] at hrun
    subst hrun
    exact hst
  | fail _ hfail _ _ _ => simp [fnOp, hok] at hfail

theorem mapLeaves_lock (f : List Nat → List Nat) (n m : Nat) (hf : ∀ xs : List Nat, xs.length = n → (f xs).length = m) :
    ∀ c : Cols, c.lock n → (mapLeaves f c).lock m
  | .leaf xs, h => by simp [mapLeaves, hf xs (lock_leaf.mp h)]
  | .nest fs, h => by
    rw [lock_nest] at h
    simp only [mapLeaves, lock_nest]
    refine ⟨?_, go fs h.2⟩
    cases fs with
    | nil => exact absurd rfl h.1
    | cons c cs => simp [mapLeaves.mapLeavesL]
where go : ∀ fs : List Cols, (∀ c ∈ fs, c.lock n) → ∀ d ∈ mapLeaves.mapLeavesL f fs, d.lock m
  | [], _ => by simp [mapLeaves.mapLeavesL]
  | c :: cs, h => by
    intro d hd
    simp only [mapLeaves.mapLeavesL, List.mem_cons] at hd
    rcases hd with rfl | hd
    · exact mapLeaves_lock f n m hf c (h c (by simp))
    · exact go cs (fun x hx => h x (by simp [hx])) d hd

/-! ## the window seen through a view -/

/-- the columns seen through a window are the per-field `drop/take`; transposed, they are the
    window of the rows — for any shape -/
theorem window_rows (c : Cols) (n : Nat) (hc : c.lock n) (w : Win) :
    (mapLeaves (fun l => (l.drop w.s).take w.l) c).rows = (c.rows.drop w.s).take w.l :=
  mapLeaves_rows (fun _ => true) (fun xs => (xs.drop w.s).take w.l)
    (by intros; simp [List.map_take, List.map_drop]) n rfl c hc

theorem leaves_mapLeaves (f : List Nat → List Nat) : ∀ c : Cols, (mapLeaves f c).leaves = c.leaves.map f
  | .leaf xs => by simp [mapLeaves, Cols.leaves]
  | .nest fs => by
    simp only [mapLeaves, Cols.leaves]
    exact go fs
where go : ∀ fs : List Cols, Cols.leaves.leavesL (mapLeaves.mapLeavesL f fs) = (Cols.leaves.leavesL fs).map f
  | [] => by simp [mapLeaves.mapLeavesL, Cols.leaves.leavesL]
  | c :: cs => by simp [mapLeaves.mapLeavesL, Cols.leaves.leavesL, leaves_mapLeaves f c, go cs]

/-- what the model prints for a window (`winCols`) is the leaf list of the per-field window -/
theorem winCols_eq (c : Cols) (w : Win) :
    winCols c w = (mapLeaves (fun l => (l.drop w.s).take w.l) c).leaves := by
  rw [leaves_mapLeaves]; rfl

/-! ## the element at a position -/

theorem take_one_drop {α : Type} (xs : List α) (i : Nat) (h : i < xs.length) : (xs.drop i).take 1 = [xs[i]] := by
  rw [List.drop_eq_getElem_cons h]; rfl

/-- the ids read at position `i` of every leaf are the ids of row `i` -/
theorem rowIds_eq (c : Cols) (n i : Nat) (hc : c.lock n) (hi : i < n) :
    ∃ r, c.rows[i]? = some r ∧ rowIds c i = r.ids := by
  -- the one-position window is a one-row tree whose single row is row `i`
  have hw := window_rows c n hc ⟨i, 1⟩
  have hlen := rows_len n c hc
  have hlock : (mapLeaves (fun l => (l.drop i).take 1) c).lock 1 :=
    mapLeaves_lock _ n 1 (by intro xs hx; simp [hx]; omega) c hc
  obtain ⟨r, h1, h2⟩ := one_row _ hlock
  have hi' : i < c.rows.length := by omega
  refine ⟨r, ?_, ?_⟩
  · rw [h1] at hw
    have : (c.rows.drop i).take 1 = [c.rows[i]] := take_one_drop c.rows i hi'
    simp only at hw
    rw [this] at hw
    rw [List.getElem?_eq_getElem hi']
    simp only [List.cons.injEq, and_true] at hw
    rw [hw]
  · rw [← h2]
    unfold rowIds Cols.flat
    rw [leaves_mapLeaves]
    have hl := leaves_lock n c hc
    have : ∀ ls : List (List Nat), (∀ l ∈ ls, l.length = n) →
        ls.map (fun l => l.getD i 0) = (ls.map (fun l => (l.drop i).take 1)).flatten := by
      intro ls
      induction ls with
      | nil => simp
      | cons l ls ih =>
        intro h
        have hll := h l (by simp)
        have hil : i < l.length := by omega
        simp only [List.map_cons, List.flatten_cons]
        rw [ih (fun x hx => h x (by simp [hx])), take_one_drop l i hil]
        simp [List.getD_eq_getElem?_getD, List.getElem?_eq_getElem hil]
    exact this c.leaves hl

end Soa
