import Soa.Ops
/-!
# The generated `retain` loop at the row level, with decisions by call index

`for i in 0..len { if !f(get(i)) { del += 1 } else if del > 0 { swap(i - del, i) } }` then
`truncate(len - del)`: equal to filtering by the callback's answers, the callback sees the
elements once each in index order, and at every moment the list is a permutation of the
original (so a panic in the callback loses and duplicates nothing).
-/
namespace Soa.RetainIdx
variable {α : Type}

/-- the loop, literally, on one list; `keep i` is the callback's answer at its `i`-th call,
    `boom` the call that panics; returns the list, `del`, the visit log, panicked -/
def loop (keep : Nat → Bool) (boom : Option Nat) : Nat → Nat → Nat → List α → List α → List α × Nat × List α × Bool
  | 0, _, del, xs, vis => (xs, del, vis, false)
  | f + 1, i, del, xs, vis =>
    match xs[i]? with
    | none => (xs, del, vis, false)
    | some x =>
      if boom = some i then (xs, del, vis ++ [x], true)
      else if !keep i then loop keep boom f (i + 1) (del + 1) xs (vis ++ [x])
      else if del > 0 then loop keep boom f (i + 1) del (swapList xs (i - del) i) (vis ++ [x])
      else loop keep boom f (i + 1) del xs (vis ++ [x])

/-- answers by index, starting at index `i` -/
def filterIdx (keep : Nat → Bool) : Nat → List α → List α
  | _, [] => []
  | i, x :: r => if keep i then x :: filterIdx keep (i + 1) r else filterIdx keep (i + 1) r

/-- functional mirror on the decomposition kept ++ junk ++ rest -/
def go (keep : Nat → Bool) : Nat → List α → List α → List α → List α × List α
  | _, kept, junk, [] => (kept, junk)
  | i, kept, junk, x :: r =>
    if !keep i then go keep (i + 1) kept (junk ++ [x]) r
    else match junk with
      | [] => go keep (i + 1) (kept ++ [x]) [] r
      | j0 :: js => go keep (i + 1) (kept ++ [x]) (js ++ [j0]) r

theorem swap_decomp (kept js r : List α) (j0 x : α) :
    swapList (kept ++ (j0 :: js) ++ x :: r) kept.length (kept.length + (js.length + 1)) =
      (kept ++ [x]) ++ (js ++ [j0]) ++ r := by
  unfold swapList
  have h1 : (kept ++ (j0 :: js) ++ x :: r)[kept.length]? = some j0 := by
    simp [List.append_assoc, List.getElem?_append_right]
  have h2 : (kept ++ (j0 :: js) ++ x :: r)[kept.length + (js.length + 1)]? = some x := by
    rw [List.getElem?_append_right (by simp)]
    simp
  rw [h1, h2]
  simp only [List.append_assoc, List.cons_append, List.nil_append]
  rw [List.set_append_right _ _ (by omega), List.set_append_right _ _ (by omega)]
  simp only [Nat.sub_self, List.set_cons_zero, Nat.add_sub_cancel_left]
  congr 1
  rw [show js.length + 1 = (js.length) + 1 from rfl, List.set_cons_succ]
  congr 1
  rw [List.set_append_right _ _ (by omega)]
  simp

/-- without a panic the loop computes the decomposition and visits `rest` in order -/
theorem loop_go (keep : Nat → Bool) : ∀ (rest kept junk vis : List α),
    loop keep none rest.length (kept.length + junk.length) junk.length (kept ++ junk ++ rest) vis =
      ((go keep (kept.length + junk.length) kept junk rest).1 ++ (go keep (kept.length + junk.length) kept junk rest).2,
       (go keep (kept.length + junk.length) kept junk rest).2.length, vis ++ rest, false)
  | [], kept, junk, vis => by simp [loop, go]
  | x :: r, kept, junk, vis => by
    have hx : (kept ++ junk ++ x :: r)[kept.length + junk.length]? = some x := by
      rw [List.getElem?_append_right (by simp)]; simp
    simp only [List.length_cons, loop, hx, go]
    by_cases hp : keep (kept.length + junk.length)
    · simp only [hp, Bool.not_true, Bool.false_eq_true, ↓reduceIte, reduceCtorEq]
      cases junk with
      | nil =>
        have := loop_go keep r (kept ++ [x]) [] (vis ++ [x])
        simp only [List.length_append, List.length_cons, List.length_nil, Nat.add_zero, List.append_nil,
          List.append_assoc, List.cons_append, List.nil_append, Nat.zero_add] at this ⊢
        simpa using this
      | cons j0 js =>
        have := loop_go keep r (kept ++ [x]) (js ++ [j0]) (vis ++ [x])
        have hs := swap_decomp kept js r j0 x
        simp only [List.length_cons, Nat.zero_lt_succ, ↓reduceIte, Nat.add_sub_cancel, hs]
        simp only [List.length_append, List.length_cons, List.length_nil] at this
        have e1 : kept.length + (js.length + 1) + 1 = kept.length + (0 + 1) + (js.length + (0 + 1)) := by omega
        have e2 : js.length + 1 = js.length + (0 + 1) := by omega
        rw [e1, e2]
        simpa [List.append_assoc] using this
    · simp only [hp, Bool.not_false, ↓reduceIte, reduceCtorEq]
      have := loop_go keep r kept (junk ++ [x]) (vis ++ [x])
      simp only [List.length_append, List.length_cons, List.length_nil, List.append_assoc,
        List.cons_append, List.nil_append] at this ⊢
      have e1 : kept.length + junk.length + 1 = kept.length + (junk.length + (0 + 1)) := by omega
      have e2 : junk.length + 1 = junk.length + (0 + 1) := by omega
      rw [e1, e2]; exact this

theorem go_fst (keep : Nat → Bool) : ∀ (rest : List α) (i : Nat) (kept junk : List α),
    (go keep i kept junk rest).1 = kept ++ filterIdx keep i rest
  | [], i, kept, junk => by simp [go, filterIdx]
  | x :: r, i, kept, junk => by
    by_cases hp : keep i
    · cases junk <;> simp [go, filterIdx, hp, go_fst keep r]
    · simp [go, filterIdx, hp, go_fst keep r]

theorem go_len (keep : Nat → Bool) : ∀ (rest : List α) (i : Nat) (kept junk : List α),
    (go keep i kept junk rest).1.length + (go keep i kept junk rest).2.length =
      kept.length + junk.length + rest.length
  | [], i, kept, junk => by simp [go]
  | x :: r, i, kept, junk => by
    by_cases hp : keep i
    · cases junk with
      | nil => have := go_len keep r (i+1) (kept ++ [x]) []; simp [go, hp] at this ⊢; omega
      | cons j0 js => have := go_len keep r (i+1) (kept ++ [x]) (js ++ [j0]); simp [go, hp] at this ⊢; omega
    · have := go_len keep r (i+1) kept (junk ++ [x]); simp [go, hp] at this ⊢; omega

/-- loop + final truncate = filtering by the answers; visits = all elements in order -/
theorem loop_filter (keep : Nat → Bool) (xs : List α) :
    let r := loop keep none xs.length 0 0 xs []
    r.2.2.2 = false ∧ r.2.2.1 = xs ∧
    r.1.take (xs.length - r.2.1) = filterIdx keep 0 xs ∧ r.1.length = xs.length ∧ r.2.1 ≤ xs.length := by
  have h := loop_go keep xs [] [] []
  have h1 := go_fst keep xs 0 [] []
  have h2 := go_len keep xs 0 [] []
  simp only [List.length_nil, Nat.add_zero, List.nil_append] at h h1 h2
  simp only [h, true_and]
  refine ⟨?_, ?_, ?_⟩
  · rw [List.take_append_of_le_length (by omega), List.take_of_length_le (by omega), h1]
  · simp; omega
  · omega

theorem go_snd (keep : Nat → Bool) : ∀ (rest : List α) (i : Nat) (kept junk : List α),
    (go keep i kept junk rest).2.Perm (junk ++ filterIdx (fun j => !keep j) i rest)
  | [], i, kept, junk => by simp [go, filterIdx]
  | x :: r, i, kept, junk => by
    by_cases hp : keep i
    · cases junk with
      | nil => simpa [go, filterIdx, hp] using go_snd keep r (i + 1) (kept ++ [x]) []
      | cons j0 js =>
        have := go_snd keep r (i + 1) (kept ++ [x]) (js ++ [j0])
        simp only [go, filterIdx, hp, Bool.not_true, Bool.false_eq_true, ↓reduceIte]
        refine this.trans ?_
        refine List.Perm.append_right _ ?_
        exact (List.perm_append_comm (l₁ := js) (l₂ := [j0]))
    · have := go_snd keep r (i + 1) kept (junk ++ [x])
      simp only [go, filterIdx, hp, Bool.not_false, ↓reduceIte]
      simpa [List.append_assoc] using this

/-- what the final `truncate` discards is, as a multiset, what the callback rejected -/
theorem loop_junk (keep : Nat → Bool) (xs : List α) :
    let r := loop keep none xs.length 0 0 xs []
    (r.1.drop (xs.length - r.2.1)).Perm (filterIdx (fun j => !keep j) 0 xs) := by
  have h := loop_go keep xs [] [] []
  have h2 := go_len keep xs 0 [] []
  have h3 := go_snd keep xs 0 [] []
  simp only [List.length_nil, Nat.add_zero, List.nil_append] at h h2 h3
  simp only [h]
  rw [List.drop_append_of_le_length (by omega), List.drop_of_length_le (by omega)]
  simpa using h3

/-- whatever happens (also when the callback panics), the list stays a permutation of the input -/
theorem loop_perm (keep : Nat → Bool) (boom : Option Nat) :
    ∀ (f i del : Nat) (xs vis : List α), (loop keep boom f i del xs vis).1.Perm xs
  | 0, _, _, xs, _ => by simp [loop]
  | f + 1, i, del, xs, vis => by
    simp only [loop]
    cases hx : xs[i]? with
    | none => simp
    | some x =>
      simp only
      split
      · simp
      · split
        · exact loop_perm keep boom f _ _ xs _
        · split
          · refine (loop_perm keep boom f _ _ _ _).trans ?_
            exact swapList_perm xs _ _
          · exact loop_perm keep boom f _ _ xs _

end Soa.RetainIdx
