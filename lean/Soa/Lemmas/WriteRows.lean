import Soa.Model.Vec
import Soa.Spec.Vec
import Soa.Lemmas.Refine
/-!
# A write through a mutable element reference, transposed

`*ref.f = new` on the element at position `pos` of the struct-of-arrays container overwrites
position `pos` of one field array (`Model.setLeaf`); on the array of structs it overwrites one
field of the `pos`-th struct (`Spec.setLeafE`).  The two agree for every shape.
-/
namespace Soa
open Soa.Model

theorem set_self {α : Type} : ∀ (xs : List α) (i : Nat) (x : α), xs[i]? = some x → xs.set i x = xs
  | [], _, _, _ => rfl
  | y :: ys, 0, x, h => by simp at h; simp [h]
  | y :: ys, i + 1, x, h => by simp at h; simp [set_self ys i x h]

theorem zipWith_set {α β γ : Type} (f : α → β → γ) : ∀ (as : List α) (bs : List β) (i : Nat) (a : α) (b : β),
    as[i]? ≠ none → bs[i]? ≠ none →
    (List.zipWith f as bs).set i (f a b) = List.zipWith f (as.set i a) (bs.set i b)
  | [], _, _, _, _, h, _ => by simp at h
  | _ :: _, [], _, _, _, _, h => by simp at h
  | x :: as, y :: bs, 0, a, b, _, _ => by simp
  | x :: as, y :: bs, i + 1, a, b, h1, h2 => by
    simp only [List.zipWith_cons_cons, List.set_cons_succ, List.cons.injEq, true_and]
    exact zipWith_set f as bs i a b (by simpa using h1) (by simpa using h2)

theorem rowsL_cons (c : Cols) (cs : List Cols) (h : cs ≠ []) :
    Cols.rows.rowsL (c :: cs) = List.zipWith (· :: ·) c.rows (Cols.rows.rowsL cs) := by
  cases cs with
  | nil => exact absurd rfl h
  | cons d ds => rfl

theorem setLeafL_ne (leaf pos id : Nat) (c : Cols) (cs : List Cols) (j : Nat) :
    (setLeaf.setLeafL leaf pos id (c :: cs) j).1 ≠ [] := by
  simp [setLeaf.setLeafL]

/-- rows of the container after the write = the rows with the `pos`-th struct rewritten; the two
    leaf counters advance together -/
theorem setLeaf_rows (leaf pos id n : Nat) : ∀ (c : Cols) (j : Nat) (e : Elem), c.lock n → c.rows[pos]? = some e →
    (setLeaf leaf pos id c j).1.rows = c.rows.set pos (Spec.setLeafE leaf id e j).1 ∧
      (setLeaf leaf pos id c j).2 = (Spec.setLeafE leaf id e j).2
  | .leaf xs, j, e, _, he => by
    simp only [Cols.rows, List.getElem?_map, Option.map_eq_some_iff] at he
    obtain ⟨v, hv, rfl⟩ := he
    simp only [setLeaf, Spec.setLeafE, Cols.rows]
    by_cases hj : j = leaf
    · simp [hj, Cols.rows, List.map_set]
    · simp only [hj, ↓reduceIte, Cols.rows, and_true]
      exact (set_self _ _ _ (by simp [hv])).symm
  | .nest fs, j, e, hc, he => by
    rw [lock_nest] at hc
    simp only [Cols.rows, List.getElem?_map, Option.map_eq_some_iff] at he
    obtain ⟨es, hes, rfl⟩ := he
    have := go fs j es hc.1 hc.2 hes
    simp only [setLeaf, Spec.setLeafE, Cols.rows, this.1, this.2, List.map_set, and_self]
where go : ∀ (fs : List Cols) (j : Nat) (es : List Elem), fs ≠ [] → (∀ c ∈ fs, c.lock n) →
    (Cols.rows.rowsL fs)[pos]? = some es →
    Cols.rows.rowsL (setLeaf.setLeafL leaf pos id fs j).1 = (Cols.rows.rowsL fs).set pos (Spec.setLeafE.setLeafEL leaf id es j).1 ∧
      (setLeaf.setLeafL leaf pos id fs j).2 = (Spec.setLeafE.setLeafEL leaf id es j).2
  | [], _, _, h, _, _ => absurd rfl h
  | [c], j, es, _, hc, hes => by
    simp only [Cols.rows.rowsL, List.getElem?_map, Option.map_eq_some_iff] at hes
    obtain ⟨e, he, rfl⟩ := hes
    have := setLeaf_rows leaf pos id n c j e (hc c (by simp)) he
    simp only [setLeaf.setLeafL, Spec.setLeafE.setLeafEL, Cols.rows.rowsL, this.1, this.2, List.map_set, and_self]
  | c :: c' :: cs, j, es, _, hc, hes => by
    rw [rowsL_cons c (c' :: cs) (by simp)] at hes ⊢
    rw [List.getElem?_zipWith] at hes
    cases h1 : c.rows[pos]? with
    | none => simp [h1] at hes
    | some e =>
      cases h2 : (Cols.rows.rowsL (c' :: cs))[pos]? with
      | none => simp [h1, h2] at hes
      | some es' =>
        simp only [h1, h2, Option.map_some, Option.bind_some, Option.some.injEq] at hes
        subst hes
        have ih1 := setLeaf_rows leaf pos id n c j e (hc c (by simp)) h1
        have ih2 := go (c' :: cs) (setLeaf leaf pos id c j).2 es' (by simp) (fun x hx => hc x (by simp [hx])) h2
        have hu : setLeaf.setLeafL leaf pos id (c :: c' :: cs) j =
            ((setLeaf leaf pos id c j).1 :: (setLeaf.setLeafL leaf pos id (c' :: cs) (setLeaf leaf pos id c j).2).1,
              (setLeaf.setLeafL leaf pos id (c' :: cs) (setLeaf leaf pos id c j).2).2) := rfl
        have hv : Spec.setLeafE.setLeafEL leaf id (e :: es') j =
            ((Spec.setLeafE leaf id e j).1 :: (Spec.setLeafE.setLeafEL leaf id es' (Spec.setLeafE leaf id e j).2).1,
              (Spec.setLeafE.setLeafEL leaf id es' (Spec.setLeafE leaf id e j).2).2) := rfl
        rw [hu, hv]
        simp only
        rw [rowsL_cons _ _ (setLeafL_ne leaf pos id c' cs _), ih1.1, ih2.1, ih2.2, ih1.2]
        exact ⟨(zipWith_set _ _ _ _ _ _ (by simp [h1]) (by simp [h2])).symm, rfl⟩

end Soa

namespace Soa
open Soa.Model

/-- a leaf number outside the struct leaves it unchanged -/
theorem setLeafE_out (leaf id : Nat) : ∀ (e : Elem) (j : Nat), leaf < j ∨ j + e.ids.length ≤ leaf →
    Spec.setLeafE leaf id e j = (e, j + e.ids.length)
  | .leaf v, j, h => by
    have : j ≠ leaf := by simp [Elem.ids] at h; omega
    simp [Spec.setLeafE, this, Elem.ids]
  | .nest fs, j, h => by
    simp only [Spec.setLeafE, Elem.ids] at h ⊢
    rw [go fs j h]
where go : ∀ (es : List Elem) (j : Nat), leaf < j ∨ j + (Elem.ids.idsL es).length ≤ leaf →
    Spec.setLeafE.setLeafEL leaf id es j = (es, j + (Elem.ids.idsL es).length)
  | [], j, _ => by simp [Spec.setLeafE.setLeafEL, Elem.ids.idsL]
  | e :: es, j, h => by
    simp only [Elem.ids.idsL, List.length_append] at h
    have h1 := setLeafE_out leaf id e j (by omega)
    have h2 := go es (j + e.ids.length) (by omega)
    simp only [Spec.setLeafE.setLeafEL, h1, h2, Elem.ids.idsL, List.length_append]
    simp [Nat.add_assoc]

/-- every struct of the rows has as many leaves as the container has field arrays -/
theorem rows_ids_len (n : Nat) : ∀ (c : Cols), c.lock n → ∀ e ∈ c.rows, e.ids.length = c.leaves.length
  | .leaf xs, _, e, he => by
    simp only [Cols.rows, List.mem_map] at he
    obtain ⟨v, _, rfl⟩ := he
    simp [Elem.ids, Cols.leaves]
  | .nest fs, hc, e, he => by
    rw [lock_nest] at hc
    simp only [Cols.rows, List.mem_map] at he
    obtain ⟨es, hes, rfl⟩ := he
    simp only [Elem.ids, Cols.leaves]
    exact go fs hc.1 hc.2 es hes
where go : ∀ (fs : List Cols), fs ≠ [] → (∀ c ∈ fs, c.lock n) → ∀ es ∈ Cols.rows.rowsL fs,
    (Elem.ids.idsL es).length = (Cols.leaves.leavesL fs).length
  | [], h, _, _, _ => absurd rfl h
  | [c], _, hc, es, hes => by
    simp only [Cols.rows.rowsL, List.mem_map] at hes
    obtain ⟨e, he, rfl⟩ := hes
    simp [Elem.ids.idsL, Cols.leaves.leavesL, rows_ids_len n c (hc c (by simp)) e he]
  | c :: c' :: cs, _, hc, es, hes => by
    rw [rowsL_cons c (c' :: cs) (by simp)] at hes
    obtain ⟨i, hi, hget⟩ := List.getElem_of_mem hes
    simp only [List.getElem_zipWith] at hget
    subst hget
    simp only [List.length_zipWith] at hi
    have h1 := rows_ids_len n c (hc c (by simp)) _ (List.getElem_mem (by omega : i < c.rows.length))
    have h2 := go (c' :: cs) (by simp) (fun x hx => hc x (by simp [hx])) _
      (List.getElem_mem (by omega : i < (Cols.rows.rowsL (c' :: cs)).length))
    simp only [Elem.ids.idsL, Cols.leaves.leavesL, List.length_append, h1, h2]

/-- **a write through a mutable element reference, transposed** (any leaf number, valid or not) -/
theorem writeLeaf_rows (c : Cols) (n leaf pos id : Nat) (e : Elem) (hc : c.lock n) (he : c.rows[pos]? = some e) :
    (writeLeaf c leaf pos id).1.rows = c.rows.set pos (Spec.setLeafE leaf id e 0).1 := by
  have hlen := rows_len n c hc
  have hpos : pos < n := by
    have := (List.getElem?_eq_some_iff.mp he).1; omega
  unfold writeLeaf
  cases hl : (c.leaves.getD leaf [])[pos]? with
  | some old => exact (setLeaf_rows leaf pos id n c 0 e hc he).1
  | none =>
    have hout : c.leaves.length ≤ leaf := by
      refine Nat.le_of_not_lt fun hlt => ?_
      have hm : c.leaves[leaf] ∈ c.leaves := List.getElem_mem hlt
      have := leaves_lock n c hc _ hm
      simp [List.getD, List.getElem?_eq_getElem hlt] at hl
      omega
    have hid := rows_ids_len n c hc e (List.mem_of_getElem? he)
    rw [setLeafE_out leaf id e 0 (Or.inr (by omega))]
    exact (set_self _ _ _ he).symm

end Soa
