import Soa.Lemmas.SkelRead.C01
import Soa.Lemmas.SkelRead.C05
import Soa.Lemmas.SkelRead.C06
import Soa.Lemmas.SkelRead.C07
import Soa.Lemmas.SkelRead.C10
import Soa.Lemmas.SkelRead.C12
import Soa.Lemmas.SkelRead.C15
/-! all skeleton readings (one module per property scope, so that a change of one generated function breaks the
    obligations of the properties whose model covers it and no others) -/
namespace Soa.Sk
/-- every generated function has a validated shape-generic template -/
theorem opaque_count : Soa.Extracted.skOpaqueCount = 0 := by decide
end Soa.Sk
