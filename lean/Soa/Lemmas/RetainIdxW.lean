import Soa.Lemmas.RetainIdx
/-!
# The generated `retain_mut` loop at the row level, with a callback that writes

`upd i x` is what the callback leaves in the element it is shown at its `i`-th call (position
`i`).  The loop is the one of `RetainIdx.loop` with that write applied in place before the answer
is looked at.  Result: filtering the *updated* list by the answers; the callback is shown the
elements as they were (every position is written at most once, at its own visit, and the swaps
of earlier steps only touch positions below the cursor).
-/
namespace Soa.RetainIdx
variable {α : Type}

def loopW (keep : Nat → Bool) (upd : Nat → α → α) : Nat → Nat → Nat → List α → List α → List α × Nat × List α
  | 0, _, del, xs, vis => (xs, del, vis)
  | f + 1, i, del, xs, vis =>
    match xs[i]? with
    | none => (xs, del, vis)
    | some x =>
      let xs := xs.set i (upd i x)
      if !keep i then loopW keep upd f (i + 1) (del + 1) xs (vis ++ [x])
      else if del > 0 then loopW keep upd f (i + 1) del (swapList xs (i - del) i) (vis ++ [x])
      else loopW keep upd f (i + 1) del xs (vis ++ [x])

/-- the writes of calls `i`, `i + 1`, … applied to a list whose head is at position `i` -/
def updFrom (upd : Nat → α → α) : Nat → List α → List α
  | _, [] => []
  | i, x :: r => upd i x :: updFrom upd (i + 1) r

@[simp] theorem updFrom_length (upd : Nat → α → α) : ∀ (xs : List α) (i : Nat), (updFrom upd i xs).length = xs.length
  | [], _ => rfl
  | _ :: r, i => by simp [updFrom, updFrom_length upd r]

theorem updFrom_id : ∀ (xs : List α) (i : Nat), updFrom (fun _ x => x) i xs = xs
  | [], _ => rfl
  | _ :: r, i => by simp [updFrom, updFrom_id r]

def goW (keep : Nat → Bool) (upd : Nat → α → α) : Nat → List α → List α → List α → List α × List α
  | _, kept, junk, [] => (kept, junk)
  | i, kept, junk, x :: r =>
    if !keep i then goW keep upd (i + 1) kept (junk ++ [upd i x]) r
    else match junk with
      | [] => goW keep upd (i + 1) (kept ++ [upd i x]) [] r
      | j0 :: js => goW keep upd (i + 1) (kept ++ [upd i x]) (js ++ [j0]) r

theorem set_decomp (kept junk r : List α) (x y : α) :
    (kept ++ junk ++ x :: r).set (kept.length + junk.length) y = kept ++ junk ++ y :: r := by
  rw [List.set_append_right _ _ (by simp)]
  simp

theorem loopW_go (keep : Nat → Bool) (upd : Nat → α → α) : ∀ (rest kept junk vis : List α),
    loopW keep upd rest.length (kept.length + junk.length) junk.length (kept ++ junk ++ rest) vis =
      ((goW keep upd (kept.length + junk.length) kept junk rest).1 ++ (goW keep upd (kept.length + junk.length) kept junk rest).2,
       (goW keep upd (kept.length + junk.length) kept junk rest).2.length, vis ++ rest)
  | [], kept, junk, vis => by simp [loopW, goW]
  | x :: r, kept, junk, vis => by
    have hx : (kept ++ junk ++ x :: r)[kept.length + junk.length]? = some x := by
      rw [List.getElem?_append_right (by simp)]; simp
    simp only [List.length_cons, loopW, hx, goW, set_decomp]
    by_cases hp : keep (kept.length + junk.length)
    · simp only [hp, Bool.not_true, Bool.false_eq_true, ↓reduceIte]
      cases junk with
      | nil =>
        have := loopW_go keep upd r (kept ++ [upd (kept.length + 0) x]) [] (vis ++ [x])
        simp only [List.length_append, List.length_cons, List.length_nil, Nat.add_zero, List.append_nil,
          List.append_assoc, List.cons_append, List.nil_append, Nat.zero_add] at this ⊢
        simpa using this
      | cons j0 js =>
        have := loopW_go keep upd r (kept ++ [upd (kept.length + (js.length + 1)) x]) (js ++ [j0]) (vis ++ [x])
        have hs := swap_decomp kept js r j0 (upd (kept.length + (js.length + 1)) x)
        simp only [List.length_cons, Nat.zero_lt_succ, ↓reduceIte, Nat.add_sub_cancel, hs]
        simp only [List.length_append, List.length_cons, List.length_nil] at this
        have e1 : kept.length + (js.length + 1) + 1 = kept.length + (0 + 1) + (js.length + (0 + 1)) := by omega
        have e2 : js.length + 1 = js.length + (0 + 1) := by omega
        rw [e1, e2]
        simpa [List.append_assoc] using this
    · simp only [hp, Bool.not_false, ↓reduceIte]
      have := loopW_go keep upd r kept (junk ++ [upd (kept.length + junk.length) x]) (vis ++ [x])
      simp only [List.length_append, List.length_cons, List.length_nil, List.append_assoc,
        List.cons_append, List.nil_append] at this ⊢
      have e1 : kept.length + junk.length + 1 = kept.length + (junk.length + (0 + 1)) := by omega
      have e2 : junk.length + 1 = junk.length + (0 + 1) := by omega
      rw [e1, e2]; exact this

theorem goW_fst (keep : Nat → Bool) (upd : Nat → α → α) : ∀ (rest : List α) (i : Nat) (kept junk : List α),
    (goW keep upd i kept junk rest).1 = kept ++ filterIdx keep i (updFrom upd i rest)
  | [], i, kept, junk => by simp [goW, filterIdx, updFrom]
  | x :: r, i, kept, junk => by
    by_cases hp : keep i
    · cases junk <;> simp [goW, filterIdx, updFrom, hp, goW_fst keep upd r]
    · simp [goW, filterIdx, updFrom, hp, goW_fst keep upd r]

theorem goW_len (keep : Nat → Bool) (upd : Nat → α → α) : ∀ (rest : List α) (i : Nat) (kept junk : List α),
    (goW keep upd i kept junk rest).1.length + (goW keep upd i kept junk rest).2.length =
      kept.length + junk.length + rest.length
  | [], i, kept, junk => by simp [goW]
  | x :: r, i, kept, junk => by
    by_cases hp : keep i
    · cases junk with
      | nil => have := goW_len keep upd r (i+1) (kept ++ [upd i x]) []; simp [goW, hp] at this ⊢; omega
      | cons j0 js => have := goW_len keep upd r (i+1) (kept ++ [upd i x]) (js ++ [j0]); simp [goW, hp] at this ⊢; omega
    · have := goW_len keep upd r (i+1) kept (junk ++ [upd i x]); simp [goW, hp] at this ⊢; omega

/-- loop + final truncate = filtering the written elements by the answers; the callback was shown
    every element once, in order, as it was before its write -/
theorem loopW_filter (keep : Nat → Bool) (upd : Nat → α → α) (xs : List α) :
    let r := loopW keep upd xs.length 0 0 xs []
    r.2.2 = xs ∧
    r.1.take (xs.length - r.2.1) = filterIdx keep 0 (updFrom upd 0 xs) ∧ r.1.length = xs.length ∧ r.2.1 ≤ xs.length := by
  have h := loopW_go keep upd xs [] [] []
  have h1 := goW_fst keep upd xs 0 [] []
  have h2 := goW_len keep upd xs 0 [] []
  simp only [List.length_nil, Nat.add_zero, List.nil_append] at h h1 h2
  simp only [h, true_and]
  refine ⟨?_, ?_, ?_⟩
  · rw [List.take_append_of_le_length (by omega), List.take_of_length_le (by omega), h1]
  · simp; omega
  · omega

theorem goW_snd (keep : Nat → Bool) (upd : Nat → α → α) : ∀ (rest : List α) (i : Nat) (kept junk : List α),
    (goW keep upd i kept junk rest).2.Perm (junk ++ filterIdx (fun j => !keep j) i (updFrom upd i rest))
  | [], i, kept, junk => by simp [goW, filterIdx, updFrom]
  | x :: r, i, kept, junk => by
    by_cases hp : keep i
    · cases junk with
      | nil => simpa [goW, filterIdx, updFrom, hp] using goW_snd keep upd r (i + 1) (kept ++ [upd i x]) []
      | cons j0 js =>
        have := goW_snd keep upd r (i + 1) (kept ++ [upd i x]) (js ++ [j0])
        simp only [goW, filterIdx, updFrom, hp, Bool.not_true, Bool.false_eq_true, ↓reduceIte]
        refine this.trans ?_
        refine List.Perm.append_right _ ?_
        exact (List.perm_append_comm (l₁ := js) (l₂ := [j0]))
    · have := goW_snd keep upd r (i + 1) kept (junk ++ [upd i x])
      simp only [goW, filterIdx, updFrom, hp, Bool.not_false, ↓reduceIte]
      simpa [List.append_assoc] using this

/-- what the final `truncate` discards is, as a multiset, the written elements the callback rejected -/
theorem loopW_junk (keep : Nat → Bool) (upd : Nat → α → α) (xs : List α) :
    let r := loopW keep upd xs.length 0 0 xs []
    (r.1.drop (xs.length - r.2.1)).Perm (filterIdx (fun j => !keep j) 0 (updFrom upd 0 xs)) := by
  have h := loopW_go keep upd xs [] [] []
  have h2 := goW_len keep upd xs 0 [] []
  have h3 := goW_snd keep upd xs 0 [] []
  simp only [List.length_nil, Nat.add_zero, List.nil_append] at h h2 h3
  simp only [h]
  rw [List.drop_append_of_le_length (by omega), List.drop_of_length_le (by omega)]
  simpa using h3

end Soa.RetainIdx
