import Soa.Own
import Soa.Model.Vec
import Soa.Lemmas.Loops
/-! Ownership bookkeeping lemmas: ids of trees, perms -/
namespace Soa

theorem flat_eq_ids : ∀ c : Cols, c.flat = c.ids
  | .leaf xs => by simp [Cols.flat, Cols.leaves, Cols.ids]
  | .nest fs => by
    rw [flat_nest]
    simp only [Cols.ids]
    exact go fs
where go : ∀ fs : List Cols, (fs.map Cols.flat).flatten = Cols.ids.idsL fs
  | [] => by simp [Cols.ids.idsL]
  | c :: cs => by simp [Cols.ids.idsL, flat_eq_ids c, go cs]

/-- ids are conserved by a linear per-field application on any trees, also through a panic -/
theorem apply2_conserve (op : PolyOp) (hl : op.Linear) (c a : Cols) (hs : c.same a) :
    ((c.apply2 op a).st.flat ++ (c.apply2 op a).out.flat).Perm (c.flat ++ a.flat) := by
  simp only [flat_eq_ids]
  exact apply2_linear op hl c a hs

theorem flat_const_nil : ∀ c : Cols, (c.const []).flat = []
  | .leaf _ => by simp [Cols.const, Cols.flat, Cols.leaves]
  | .nest fs => by
    simp only [Cols.const]
    rw [flat_nest]
    exact go fs
where go : ∀ fs : List Cols, ((Cols.const.constL [] fs).map Cols.flat).flatten = []
  | [] => by simp [Cols.const.constL]
  | c :: cs => by simp [Cols.const.constL, flat_const_nil c, go cs]

theorem flat_nil_of_lock0 : ∀ c : Cols, c.lock 0 → c.flat = []
  | .leaf xs, h => by
    have : xs = [] := List.eq_nil_of_length_eq_zero (lock_leaf.mp h)
    simp [Cols.flat, Cols.leaves, this]
  | .nest fs, h => by
    rw [lock_nest] at h
    rw [flat_nest]
    exact go fs h.2
where go : ∀ fs : List Cols, (∀ c ∈ fs, c.lock 0) → (fs.map Cols.flat).flatten = []
  | [], _ => by simp
  | c :: cs, h => by
    simp [flat_nil_of_lock0 c (h c (by simp)), go cs (fun x hx => h x (by simp [hx]))]

end Soa
