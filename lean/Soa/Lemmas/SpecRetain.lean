import Soa.Spec.Vec
import Soa.Lemmas.RetainIdx
/-! `Vec::retain` of the specification, without panic and without writes: filtering by the answers -/
namespace Soa.Spec

theorem retainGo_none (keep : Nat → Bool) : ∀ (rs : List Elem) (k : Nat) (acc : LoopOut),
    retainGo keep none (fun _ _ => none) k rs acc =
      { acc with kept := acc.kept ++ RetainIdx.filterIdx keep k rs,
                 gone := acc.gone ++ RetainIdx.filterIdx (fun i => !keep i) k rs,
                 vis := acc.vis ++ rs.map Elem.ids }
  | [], k, acc => by simp [retainGo, RetainIdx.filterIdx]
  | e :: es, k, acc => by
    simp only [retainGo]
    by_cases hk : keep k
    · simp [hk, retainGo_none keep es, RetainIdx.filterIdx]
    · simp [hk, retainGo_none keep es, RetainIdx.filterIdx]

theorem retain_none (dr : Bool) (keep : Nat → Bool) (rs : List Elem) :
    (retain dr rs keep none (fun _ _ => none)).panicked = false ∧
    (retain dr rs keep none (fun _ _ => none)).st = RetainIdx.filterIdx keep 0 rs ∧
    (retain dr rs keep none (fun _ _ => none)).vis = rs.map Elem.ids ∧
    (retain dr rs keep none (fun _ _ => none)).ret = none ∧
    (retain dr rs keep none (fun _ _ => none)).isNone = false := by
  unfold retain
  rw [retainGo_none]
  simp

end Soa.Spec
