import Soa.Lemmas.Loops
import Soa.Lemmas.WriteRows
import Soa.Lemmas.RetainIdxW
/-!
# The hand-written `retain` / `retain_mut` loop with a callback that writes

Model-level facts (no extracted code involved): a write keeps lockstep and shape; one unfolding
of the loop; the loop on the field arrays is the row-level loop `RetainIdx.loopW` on the rows.
-/
set_option linter.unusedSimpArgs false
set_option linter.unusedVariables false
namespace Soa.Lp
open Soa Soa.Model

theorem setLeaf_lock (leaf pos id n : Nat) : ∀ (c : Cols) (j : Nat), c.lock n → (Model.setLeaf leaf pos id c j).1.lock n
  | .leaf xs, j, h => by
    simp only [Model.setLeaf]
    split <;> simp_all
  | .nest fs, j, h => by
    rw [lock_nest] at h
    simp only [Model.setLeaf, lock_nest]
    refine ⟨?_, go fs j h.2⟩
    cases fs with
    | nil => exact absurd rfl h.1
    | cons f fs => simp [Model.setLeaf.setLeafL]
where go : ∀ (fs : List Cols) (j : Nat), (∀ c ∈ fs, c.lock n) → ∀ d ∈ (Model.setLeaf.setLeafL leaf pos id fs j).1, d.lock n
  | [], j, _ => by simp [Model.setLeaf.setLeafL]
  | f :: fs, j, h => by
    intro d hd
    simp only [Model.setLeaf.setLeafL, List.mem_cons] at hd
    rcases hd with rfl | hd
    · exact setLeaf_lock leaf pos id n f j (h f (by simp))
    · exact go fs _ (fun x hx => h x (by simp [hx])) d hd

/-- a write through a mutable element reference keeps every field array's length -/
theorem writeLeaf_lock (c : Cols) (n leaf pos id : Nat) (h : c.lock n) : (Model.writeLeaf c leaf pos id).1.lock n := by
  unfold Model.writeLeaf
  split
  · exact setLeaf_lock leaf pos id n c 0 h
  · exact h

theorem setLeaf_same (leaf pos id : Nat) : ∀ (c : Cols) (j : Nat), c.same (Model.setLeaf leaf pos id c j).1
  | .leaf xs, j => by
    simp only [Model.setLeaf]
    split <;> simp [Cols.same]
  | .nest fs, j => by
    simp only [Model.setLeaf, same_nest]
    exact go fs j
where go : ∀ (fs : List Cols) (j : Nat), Cols.same.sameL fs (Model.setLeaf.setLeafL leaf pos id fs j).1
  | [], j => by simp [Model.setLeaf.setLeafL, Cols.same.sameL]
  | f :: fs, j => by
    simp only [Model.setLeaf.setLeafL, sameL_cons]
    exact ⟨setLeaf_same leaf pos id f j, go fs _⟩

/-- a write through a mutable element reference keeps the shape -/
theorem writeLeaf_same (c : Cols) (leaf pos id : Nat) : c.same (Model.writeLeaf c leaf pos id).1 := by
  unfold Model.writeLeaf
  split
  · exact setLeaf_same leaf pos id c 0
  · exact same_refl c

section retainw
variable (keep : Nat → Bool) (boom : Option Nat) (touch : Nat → Nat → Option (Nat × Nat)) (n : Nat)

/-- the element, events and created values after the callback's write at call / position `i` -/
def touched (c : Cols) (ev : Ev) (made : List Nat) (i : Nat) : Cols × Ev × List Nat :=
  match touch i i with
  | some (l, id) => let w := Model.writeLeaf c l i id; (w.1, ev ++ w.2.1, made ++ w.2.2)
  | none => (c, ev, made)

theorem touched_lock (c : Cols) (ev : Ev) (made : List Nat) (i : Nat) (hc : c.lock n) : (touched touch c ev made i).1.lock n := by
  unfold touched
  split
  · exact writeLeaf_lock c n _ _ _ hc
  · exact hc

theorem retainLoop_succ (fuel i del : Nat) (c : Cols) (vis : List (List Nat)) (ev : Ev) (made : List Nat) :
    Model.retainLoop keep boom touch (fuel + 1) i del c vis ev made =
      (if boom = some i then ⟨(touched touch c ev made i).1, del, vis ++ [Model.rowAt c i], true, (touched touch c ev made i).2.1, (touched touch c ev made i).2.2⟩
       else if !keep i then Model.retainLoop keep boom touch fuel (i + 1) (del + 1) (touched touch c ev made i).1 (vis ++ [Model.rowAt c i]) (touched touch c ev made i).2.1 (touched touch c ev made i).2.2
       else if del > 0 then
         Model.retainLoop keep boom touch fuel (i + 1) del
           ((touched touch c ev made i).1.apply2 (swapOp (i - del) i) (Model.noArgs (touched touch c ev made i).1)).st (vis ++ [Model.rowAt c i]) (touched touch c ev made i).2.1 (touched touch c ev made i).2.2
       else Model.retainLoop keep boom touch fuel (i + 1) del (touched touch c ev made i).1 (vis ++ [Model.rowAt c i]) (touched touch c ev made i).2.1 (touched touch c ev made i).2.2) := by
  rfl

theorem retainLoopW_del_le :
    ∀ (fuel i del : Nat) (c : Cols) (vis : List (List Nat)) (ev : Ev) (made : List Nat), del ≤ i →
      (Model.retainLoop keep boom touch fuel i del c vis ev made).del ≤ i + fuel
  | 0, i, del, c, vis, ev, made, h => by simp [Model.retainLoop]; omega
  | fuel + 1, i, del, c, vis, ev, made, h => by
    rw [retainLoop_succ]
    split
    · simp; omega
    · split
      · have := retainLoopW_del_le fuel (i + 1) (del + 1) (touched touch c ev made i).1 (vis ++ [Model.rowAt c i])
          (touched touch c ev made i).2.1 (touched touch c ev made i).2.2 (by omega); omega
      · split
        · have := retainLoopW_del_le fuel (i + 1) del
            ((touched touch c ev made i).1.apply2 (swapOp (i - del) i) (Model.noArgs (touched touch c ev made i).1)).st
            (vis ++ [Model.rowAt c i]) (touched touch c ev made i).2.1 (touched touch c ev made i).2.2 (by omega); omega
        · have := retainLoopW_del_le fuel (i + 1) del (touched touch c ev made i).1 (vis ++ [Model.rowAt c i])
            (touched touch c ev made i).2.1 (touched touch c ev made i).2.2 (by omega); omega

/-- the loop keeps every field array's length, whatever the callback writes -/
theorem retainLoopW_lock :
    ∀ (fuel i del : Nat) (c : Cols) (vis : List (List Nat)) (ev : Ev) (made : List Nat), c.lock n → i + fuel = n → del ≤ i →
      (Model.retainLoop keep boom touch fuel i del c vis ev made).c.lock n
  | 0, i, del, c, vis, ev, made, hc, _, _ => by simpa [Model.retainLoop] using hc
  | fuel + 1, i, del, c, vis, ev, made, hc, hi, hd => by
    have hc1 := touched_lock touch n c ev made i hc
    have hin : i < n := by omega
    rw [retainLoop_succ]
    split
    · exact hc1
    · split
      · exact retainLoopW_lock fuel (i + 1) (del + 1) _ _ _ _ hc1 (by omega) (by omega)
      · split
        · cases perField0 (swapOp (i - del) i) (touched touch c ev made i).1 n hc1 with
          | ok s hrun _ hpn hst _ hlk _ hsm _ =>
            rw [rows_noArgs _ n hc1] at hrun
            have hlen := rows_len n _ hc1
            have hlt : i - del < n := by omega
            simp only [swapOp, PolyOp.ofTotal_run, hlen, hlt, hin, decide_true, List.length_nil, BEq.rfl,
              Bool.and_self, ↓reduceIte, Option.some.injEq] at hrun
            subst hrun
            simp only at hst
            have hlk' := lock_of_rows_len hlk (k := n) (by rw [hst]; simp [hlen])
            exact retainLoopW_lock fuel (i + 1) del _ _ _ _ hlk' (by omega) (by omega)
          | fail _ hfail _ _ _ =>
            have hlt : i - del < n := by omega
            simp [swapOp, hlt, hin] at hfail
        · exact retainLoopW_lock fuel (i + 1) del _ _ _ _ hc1 (by omega) (by omega)

theorem touched_same (c : Cols) (ev : Ev) (made : List Nat) (i : Nat) : c.same (touched touch c ev made i).1 := by
  unfold touched
  split
  · exact writeLeaf_same c _ _ _
  · exact same_refl c

/-- what the callback's write at its `i`-th call leaves in the struct it is shown -/
def updOf (i : Nat) (e : Elem) : Elem :=
  match touch i i with
  | some (l, id) => (Spec.setLeafE l id e 0).1
  | none => e

theorem touched_rows (c : Cols) (ev : Ev) (made : List Nat) (i : Nat) (e : Elem) (hc : c.lock n) (he : c.rows[i]? = some e) :
    (touched touch c ev made i).1.rows = c.rows.set i (updOf touch i e) := by
  unfold touched updOf
  split
  · exact writeLeaf_rows c n _ _ _ e hc he
  · exact (set_self _ _ _ he).symm

/-- the loop on the field arrays is the row-level loop on the rows, also when the callback writes -/
theorem retainLoopW_rows :
    ∀ (fuel i del : Nat) (c : Cols) (vis : List (List Nat)) (visR : List Elem) (ev : Ev) (made : List Nat),
    c.lock n → i + fuel = n → vis = visR.map Elem.ids →
    let r := Model.retainLoop keep none touch fuel i del c vis ev made
    let r' := RetainIdx.loopW keep (updOf touch) fuel i del c.rows visR
    r.c.rows = r'.1 ∧ r.del = r'.2.1 ∧ r.vis = r'.2.2.map Elem.ids ∧ r.boom = false ∧ r.c.lock n ∧ c.same r.c
  | 0, i, del, c, vis, visR, ev, made, hc, _, hv => by
    simp [Model.retainLoop, RetainIdx.loopW, hv, hc, same_refl]
  | fuel + 1, i, del, c, vis, visR, ev, made, hc, hi, hv => by
    have hin : i < n := by omega
    obtain ⟨row, hrow, hra⟩ := rowAt_eq c n i hc hin
    have hc1 := touched_lock touch n c ev made i hc
    have hs1 := touched_same touch c ev made i
    have hr1 := touched_rows touch n c ev made i row hc hrow
    rw [retainLoop_succ]
    simp only [RetainIdx.loopW, hrow, reduceCtorEq, ↓reduceIte]
    have hv' : vis ++ [Model.rowAt c i] = (visR ++ [row]).map Elem.ids := by simp [hv, hra]
    by_cases hk : keep i
    · simp only [hk, Bool.not_true, Bool.false_eq_true, ↓reduceIte]
      by_cases hd : del > 0
      · simp only [hd, ↓reduceIte]
        cases perField0 (swapOp (i - del) i) (touched touch c ev made i).1 n hc1 with
        | ok s hrun _ _ hst _ hl _ hsm _ =>
          rw [rows_noArgs _ n hc1] at hrun
          have hlen := rows_len n _ hc1
          have hlt : i - del < n := by omega
          simp only [swapOp, PolyOp.ofTotal_run, hlen, hlt, hin, decide_true, List.length_nil, BEq.rfl,
            Bool.and_self, ↓reduceIte, Option.some.injEq] at hrun
          subst hrun
          simp only at hst
          have hl := lock_of_rows_len hl (k := n) (by rw [hst]; simp [hlen])
          have ih := retainLoopW_rows fuel (i + 1) del _ _ (visR ++ [row]) (touched touch c ev made i).2.1
            (touched touch c ev made i).2.2 hl (by omega) hv'
          simp only [Model.noArgs] at ih ⊢
          rw [hst, hr1] at ih
          exact ⟨ih.1, ih.2.1, ih.2.2.1, ih.2.2.2.1, ih.2.2.2.2.1, same_trans _ _ _ hs1 (same_trans _ _ _ hsm ih.2.2.2.2.2)⟩
        | fail _ hfail _ _ _ =>
          have hlt : i - del < n := by omega
          simp [swapOp, hlt, hin] at hfail
      · simp only [hd, ↓reduceIte]
        have ih := retainLoopW_rows fuel (i + 1) del _ _ (visR ++ [row]) (touched touch c ev made i).2.1
          (touched touch c ev made i).2.2 hc1 (by omega) hv'
        rw [hr1] at ih
        exact ⟨ih.1, ih.2.1, ih.2.2.1, ih.2.2.2.1, ih.2.2.2.2.1, same_trans _ _ _ hs1 ih.2.2.2.2.2⟩
    · simp only [hk, Bool.not_false, ↓reduceIte]
      have ih := retainLoopW_rows fuel (i + 1) (del + 1) _ _ (visR ++ [row]) (touched touch c ev made i).2.1
        (touched touch c ev made i).2.2 hc1 (by omega) hv'
      rw [hr1] at ih
      exact ⟨ih.1, ih.2.1, ih.2.2.1, ih.2.2.2.1, ih.2.2.2.2.1, same_trans _ _ _ hs1 ih.2.2.2.2.2⟩

theorem touched_dropT (c : Cols) (ev : Ev) (made : List Nat) (i : Nat) : (touched touch c ev made i).2.1.dropT = ev.dropT := by
  unfold touched
  split
  · show ev.dropT ++ (Model.writeLeaf c _ i _).2.1.dropT = ev.dropT
    unfold Model.writeLeaf
    split <;> simp
  · rfl

/-- the loop itself runs no destructor of the struct (only the final `truncate` does) -/
theorem retainLoopW_dropT :
    ∀ (fuel i del : Nat) (c : Cols) (vis : List (List Nat)) (ev : Ev) (made : List Nat),
      (Model.retainLoop keep boom touch fuel i del c vis ev made).ev.dropT = ev.dropT
  | 0, i, del, c, vis, ev, made => by simp [Model.retainLoop]
  | fuel + 1, i, del, c, vis, ev, made => by
    rw [retainLoop_succ]
    split
    · exact touched_dropT touch c ev made i
    · split
      · rw [retainLoopW_dropT]; exact touched_dropT touch c ev made i
      · split
        · rw [retainLoopW_dropT]; exact touched_dropT touch c ev made i
        · rw [retainLoopW_dropT]; exact touched_dropT touch c ev made i

/-- the loop keeps the shape, whatever the callback answers, writes, or wherever it panics -/
theorem retainLoopW_same :
    ∀ (fuel i del : Nat) (c : Cols) (vis : List (List Nat)) (ev : Ev) (made : List Nat), c.lock n → i + fuel = n → del ≤ i →
      c.same (Model.retainLoop keep boom touch fuel i del c vis ev made).c
  | 0, i, del, c, vis, ev, made, _, _, _ => by simpa [Model.retainLoop] using same_refl c
  | fuel + 1, i, del, c, vis, ev, made, hc, hi, hd => by
    have hc1 := touched_lock touch n c ev made i hc
    have hs1 := touched_same touch c ev made i
    have hin : i < n := by omega
    rw [retainLoop_succ]
    split
    · exact hs1
    · split
      · exact same_trans _ _ _ hs1 (retainLoopW_same fuel (i + 1) (del + 1) _ _ _ _ hc1 (by omega) (by omega))
      · split
        · cases perField0 (swapOp (i - del) i) (touched touch c ev made i).1 n hc1 with
          | ok s hrun _ hpn hst _ hlk _ hsm _ =>
            rw [rows_noArgs _ n hc1] at hrun
            have hlen := rows_len n _ hc1
            have hlt : i - del < n := by omega
            simp only [swapOp, PolyOp.ofTotal_run, hlen, hlt, hin, decide_true, List.length_nil, BEq.rfl,
              Bool.and_self, ↓reduceIte, Option.some.injEq] at hrun
            subst hrun
            simp only at hst
            have hlk' := lock_of_rows_len hlk (k := n) (by rw [hst]; simp [hlen])
            exact same_trans _ _ _ hs1 (same_trans _ _ _ hsm (retainLoopW_same fuel (i + 1) del _ _ _ _ hlk' (by omega) (by omega)))
          | fail _ hfail _ _ _ =>
            have hlt : i - del < n := by omega
            simp [swapOp, hlt, hin] at hfail
        · exact same_trans _ _ _ hs1 (retainLoopW_same fuel (i + 1) del _ _ _ _ hc1 (by omega) (by omega))

end retainw

end Soa.Lp
