import Soa.Model.Loop
import Soa.Extracted.Loops
import Soa.Lemmas.Loops
/-!
# The loop-style generated functions, as extracted, are the hand-written model

For every lockstep container of every shape and every argument: running the statement tree
extracted from /repo on this run (`Soa/Extracted/Loops.lean`) with the interpreter of
`Soa/Model/Loop.lean` — over the model's `pop` / `push` / `truncate` / `swap` — gives exactly
the outcome of the hand-written model function the property theorems are about.  The proofs
are symbolic executions of the extracted tree with a loop invariant per loop; they are
re-checked against the regenerated tree on every run, so any change of a loop (another
bound, another order of calls, a second call of the callback, a dropped `truncate`) breaks
them unless it provably means the same.
-/
set_option linter.unusedSimpArgs false
set_option linter.unusedVariables false
namespace Soa.Lp
open Soa Soa.Model Soa.Extracted

/-- `slice.swap(a, b)` on the view of the whole vector, in the hand-written model -/
def modelSwap (c : Cols) (a b : Nat) : Out :=
  let r := c.apply2 (swapOp a b) (Model.noArgs c); { st := r.st, panicked := r.panicked }

/-- the methods a loop-style function calls: `len` / `pop` / `push` of the hand-written model (the extracted ones are
    equal to them on every container, `Sk.pop_tie` / `Sk.push_tie`), and a `truncate` and a `swap` that are only required
    to agree with the model on lockstep containers (`TrOk`, `SwOk`) — so that the theorems below apply both to the
    model's own methods and to the extracted ones the driver runs -/
def methodsWith (empty : Cols) (tr : Cols → Nat → Out) (sw : Cols → Nat → Nat → Out) : Methods :=
  { len := Cols.firstLen, pop := Model.pop, push := Model.push, truncate := tr, swap := sw, empty := empty }

def TrOk (dr : Bool) (tr : Cols → Nat → Out) : Prop := ∀ (c : Cols) (n k : Nat), c.lock n → tr c k = Model.truncate dr c k
def SwOk (sw : Cols → Nat → Nat → Out) : Prop :=
  ∀ (c : Cols) (n a b : Nat), c.lock n → a < n → b < n → sw c a b = modelSwap c a b

/-- the hand-written model of the methods a loop-style function calls -/
def modelMethods (dr : Bool) (empty : Cols) : Methods := methodsWith empty (Model.truncate dr) modelSwap

theorem trOk_model (dr : Bool) : TrOk dr (Model.truncate dr) := fun _ _ _ _ => rfl
theorem swOk_model : SwOk modelSwap := fun _ _ _ _ _ _ _ => rfl

@[simp] theorem ev_append_nil (a : Ev) : a ++ ({} : Ev) = a := by
  show Ev.append a {} = a
  cases a; simp [Ev.append]
@[simp] theorem ev_empty_append (a : Ev) : ({} : Ev) ++ a = a := by
  show Ev.append {} a = a
  cases a; simp [Ev.append]
theorem ev_append_assoc (a b c : Ev) : a ++ b ++ c = a ++ (b ++ c) := by
  show Ev.append (Ev.append a b) c = Ev.append a (Ev.append b c)
  simp [Ev.append]

/-- how a finished machine is reported -/
def outOf (r : Res Unit) : Option Out :=
  match r with
  | .ok _ m => some { st := m.self, ev := m.ev, vis := m.vis, made := m.made }
  | .panic m => some { st := m.self, panicked := true, ev := m.ev, vis := m.vis, made := m.made }
  | .stuck _ => none

theorem outOf_bind_ok (r : Res Unit) : outOf (r.bind fun _ m => Res.ok () m) = outOf r := by
  cases r <;> rfl

/-- a body without tail expression whose by-value parameters hold nothing to destroy -/
theorem run_unit (env : Env) (b : Body) (self : Cols) (ht : b.tail = none) (hl : ∀ m, leftovers env m = {}) :
    run env b self = outOf (execList env b.stmts { self := self }) := by
  unfold run
  cases execList env b.stmts { self := self } with
  | ok _ m => simp [ht, outOf, hl]
  | panic m => simp [outOf, hl]
  | stuck s => simp [outOf]

/-! ## `truncate`: `while self.len() > len { drop(self.pop()) }` -/

section truncate
variable (dr : Bool) (k : Nat) (empty : Cols) (tr : Cols → Nat → Out) (sw : Cols → Nat → Nat → Out)

def truncEnv (fuel : Nat) : Env := { dr := dr, ps := [.nat k], M := methodsWith empty tr sw, fuel := fuel }

def truncCond (fuel : Nat) : Mach → Res Bool := fun m =>
  (eval (truncEnv dr k empty tr sw fuel) (.bin ">" (.mcall .self_ "len" []) (.param 0)) m).bind fun v m =>
    match v with | .bool b => .ok b m | _ => .stuck "condition"
def truncBody (fuel : Nat) : Mach → Res Unit := fun m =>
  execList (truncEnv dr k empty tr sw fuel) [(.expr (.fcall "::std::mem::drop" [(.mcall .self_ "pop" [])]))] m

theorem truncate_loop : ∀ (n : Nat) (c : Cols) (m : Mach) (f g F : Nat), c.lock n → m.self = c → n - k < f → n - k < g →
    outOf (whileLoop (truncCond dr k empty tr sw F) (truncBody dr k empty tr sw F) f m) =
      some { (Model.truncateLoop dr k g c m.ev) with vis := m.vis, made := m.made }
  | n, c, m, 0, _, _, _, _, hf, _ => by omega
  | n, c, m, _, 0, _, _, _, _, hg => by omega
  | n, c, m, f + 1, g + 1, F, hc, hm, hf, hg => by
    have hfl := firstLen_lock c n hc
    simp only [whileLoop, truncCond, truncEnv, eval, evalList, callSelf, callOther, moveArg, methodsWith, Res.bind, hm, hfl, arith,
      List.getElem?_cons_zero, Model.truncateLoop]
    by_cases hk : n > k
    · obtain ⟨j, rfl⟩ : ∃ j, n = j + 1 := ⟨n - 1, by omega⟩
      obtain ⟨st, e, hpop, hl, _, _, _, _⟩ := pop_ok c j hc
      have ih := truncate_loop j st { m with self := st, ev := m.ev ++ dropWhole dr e } f g F hl rfl (by omega) (by omega)
      simp only [hk, decide_true, ↓reduceIte, truncBody, truncEnv, execList, exec, eval, evalList, callSelf, callOther, moveArg, afterSelf,
        methodsWith, Res.bind, hm, hpop, Bool.false_eq_true, List.head?_cons, Option.bind_some, asParam, asVar, dropV,
        ev_append_nil, ev_append_assoc, ev_empty_append]
      simpa [truncCond, truncBody, truncEnv, ev_append_assoc] using ih
    · simp [hk, outOf, hm]

end truncate

theorem truncateLoop_shape (dr : Bool) (k : Nat) : ∀ (g : Nat) (c : Cols) (ev : Ev),
    Model.truncateLoop dr k g c ev =
      { st := (Model.truncateLoop dr k g c ev).st, panicked := (Model.truncateLoop dr k g c ev).panicked,
        ev := (Model.truncateLoop dr k g c ev).ev }
  | 0, c, ev => by simp [Model.truncateLoop]
  | g + 1, c, ev => by
    simp only [Model.truncateLoop]
    split
    · rcases pop_cases c with h | h | h
      · rw [h]; simp
      · rw [h.2]; simp
      · rw [h.2]; simp only [Bool.false_eq_true, ↓reduceIte]; exact truncateLoop_shape dr k g _ _
    · rfl

theorem truncate_shape (dr : Bool) (c : Cols) (k : Nat) :
    Model.truncate dr c k = { st := (Model.truncate dr c k).st, panicked := (Model.truncate dr c k).panicked,
                              ev := (Model.truncate dr c k).ev } :=
  truncateLoop_shape dr k _ c {}

/-- **truncate** as extracted = `Model.truncate` -/
theorem truncate_tie (dr : Bool) (k : Nat) (empty c : Cols) (tr : Cols → Nat → Out) (sw : Cols → Nat → Nat → Out) (n fuel : Nat) (hc : c.lock n) (hf : n - k < fuel) :
    run { dr := dr, ps := [.nat k], M := methodsWith empty tr sw, fuel := fuel } lp_PVec_truncate c = some (Model.truncate dr c k) := by
  have h := truncate_loop dr k empty tr sw n c { self := c } fuel (c.firstLen - k + 1) fuel hc rfl hf
    (by rw [firstLen_lock c n hc]; omega)
  rw [run_unit _ _ _ (by decide) (by intro m; simp [leftovers, leftovers.go])]
  simp only [lp_PVec_truncate, execList, exec, outOf_bind_ok]
  refine Eq.trans (show _ = outOf (whileLoop (truncCond dr k empty tr sw fuel) (truncBody dr k empty tr sw fuel) fuel { self := c }) from rfl)
    (h.trans ?_)
  have hv := truncateLoop_shape dr k (c.firstLen - k + 1) c {}
  unfold Model.truncate
  generalize Model.truncateLoop dr k (c.firstLen - k + 1) c {} = o at hv ⊢
  rw [hv]

/-- **clear** as extracted (`self.truncate(0)`) = `Model.clear` -/
theorem clear_tie (dr : Bool) (empty c : Cols) (tr : Cols → Nat → Out) (sw : Cols → Nat → Nat → Out) (htr : TrOk dr tr)
    (n fuel : Nat) (hc : c.lock n) :
    run { dr := dr, ps := [], M := methodsWith empty tr sw, fuel := fuel } lp_PVec_clear c = some (Model.clear dr c) := by
  rw [run_unit _ _ _ (by decide) (by intro m; simp [leftovers, leftovers.go])]
  have hs := truncate_shape dr c 0
  simp only [lp_PVec_clear, execList, exec, eval, evalList, callSelf, afterSelf, methodsWith, Res.bind, Model.clear, htr c n 0 hc]
  generalize Model.truncate dr c 0 = o at hs ⊢
  rw [hs]
  cases hp : o.panicked <;> simp [hp, outOf, dropV]

/-! ## `Drop`: `while let Some(value) = self.pop() { drop(value) }` -/

section dropvec
variable (dr : Bool) (empty : Cols) (tr : Cols → Nat → Out) (sw : Cols → Nat → Nat → Out)

def dropEnv (fuel : Nat) : Env := { dr := dr, ps := [], M := methodsWith empty tr sw, fuel := fuel }

def dropCond (fuel : Nat) : Mach → Res Bool := fun m =>
  (eval (dropEnv dr empty tr sw fuel) (.mcall .self_ "pop" []) m).bind fun v m => match v with
    | .opt (some el) => .ok true { m with locals := ("value", .elem el) :: m.locals }
    | .opt none => .ok false m
    | _ => .stuck "while let"
def dropBody (fuel : Nat) : Mach → Res Unit := fun m =>
  (execList (dropEnv dr empty tr sw fuel) [(.expr (.fcall "::std::mem::drop" [(.var "value")]))] m).bind fun _ m =>
    let v := (lookup "value" m.locals).getD .moved
    .ok () { m with locals := m.locals.drop 1, ev := m.ev ++ dropV dr v }

theorem pop_zero (c : Cols) (hc : c.lock 0) : Model.pop c = { st := c, isNone := true } := by
  unfold Model.pop; simp [firstLen_lock c 0 hc]

theorem drop_loop : ∀ (n : Nat) (c : Cols) (m : Mach) (f g F : Nat), c.lock n → m.self = c → n < f → n < g →
    outOf (whileLoop (dropCond dr empty tr sw F) (dropBody dr empty tr sw F) f m) =
      some { (Model.truncateLoop dr 0 g c m.ev) with vis := m.vis, made := m.made }
  | n, c, m, 0, _, _, _, _, hf, _ => by omega
  | n, c, m, _, 0, _, _, _, _, hg => by omega
  | 0, c, m, f + 1, g + 1, F, hc, hm, hf, hg => by
    have hfl := firstLen_lock c 0 hc
    simp [whileLoop, dropCond, dropEnv, eval, evalList, callSelf, afterSelf, methodsWith, Res.bind, hm, pop_zero c hc,
      Model.truncateLoop, hfl, outOf]
  | j + 1, c, m, f + 1, g + 1, F, hc, hm, hf, hg => by
    have hfl := firstLen_lock c (j + 1) hc
    obtain ⟨st, e, hpop, hl, _, _, _, _⟩ := pop_ok c j hc
    have ih := drop_loop j st { m with self := st, ev := m.ev ++ dropWhole dr e } f g F hl rfl (by omega) (by omega)
    simp [whileLoop, dropCond, dropEnv, eval, evalList, callSelf, afterSelf, methodsWith, Res.bind, hm, hpop,
      dropBody, execList, exec, lookup, asParam, asVar, setLocal, dropV, Model.truncateLoop, hfl]
    simpa [dropCond, dropBody, dropEnv, ev_append_assoc, Res.bind, execList, exec, eval, evalList, lookup, asParam, asVar,
      setLocal, dropV] using ih

end dropvec

/-- **`Drop for …Vec`** as extracted = `Model.dropVec` -/
theorem drop_tie (dr : Bool) (empty c : Cols) (tr : Cols → Nat → Out) (sw : Cols → Nat → Nat → Out) (n fuel : Nat) (hc : c.lock n) (hf : n < fuel) :
    run { dr := dr, ps := [], M := methodsWith empty tr sw, fuel := fuel } lp_PVec_Drop_drop c = some (Model.dropVec dr c) := by
  have h := drop_loop dr empty tr sw n c { self := c } fuel (c.firstLen - 0 + 1) fuel hc rfl hf
    (by rw [firstLen_lock c n hc]; omega)
  rw [run_unit _ _ _ (by decide) (by intro m; simp [leftovers, leftovers.go])]
  simp only [lp_PVec_Drop_drop, execList, exec, outOf_bind_ok]
  refine Eq.trans (show _ = outOf (whileLoop (dropCond dr empty tr sw fuel) (dropBody dr empty tr sw fuel) fuel { self := c }) from rfl)
    (h.trans ?_)
  have hv := truncateLoop_shape dr 0 (c.firstLen - 0 + 1) c {}
  unfold Model.dropVec Model.truncate
  generalize Model.truncateLoop dr 0 (c.firstLen - 0 + 1) c {} = o at hv ⊢
  rw [hv]

/-! ## `Extend<T>` / `FromIterator`: `for item in iter { self.push(item) }` -/

theorem extend_shape : ∀ (es : List Cols) (c : Cols),
    Model.extend c es = { st := (Model.extend c es).st, panicked := (Model.extend c es).panicked }
  | [], c => rfl
  | e :: es, c => by
    simp only [Model.extend]
    split
    · simp [Model.push]
    · exact extend_shape es _

section extend
variable (dr : Bool) (empty : Cols) (tr : Cols → Nat → Out) (sw : Cols → Nat → Nat → Out) (all : List Cols)

def extEnv (fuel : Nat) : Env := { dr := dr, ps := [.elems all], M := methodsWith empty tr sw, fuel := fuel }

def extBody (fuel : Nat) : Cols → Mach → Res Unit := fun e m =>
  (execList (extEnv dr empty tr sw all fuel) [(.expr (.mcall .self_ "push" [(.var "item")]))]
      { m with locals := ("item", .elem e) :: m.locals }).bind fun _ m =>
    let v := (lookup "item" m.locals).getD .moved
    .ok () { m with locals := m.locals.drop 1, ev := m.ev ++ dropV dr v }

theorem extend_loop (F : Nat) : ∀ (es : List Cols) (c : Cols) (m : Mach), m.self = c →
    outOf (forList (extBody dr empty tr sw all F) es m) =
      some { st := (Model.extend c es).st, panicked := (Model.extend c es).panicked, ev := m.ev, vis := m.vis, made := m.made }
  | [], c, m, hm => by simp [forList, outOf, Model.extend, hm]
  | e :: es, c, m, hm => by
    simp only [forList, Model.extend]
    have hev : (Model.push c e).ev = {} := rfl
    by_cases hp : (Model.push c e).panicked = true
    · simp [hev, extBody, extEnv, execList, exec, eval, evalList, lookup, callSelf, afterSelf, moveArg, methodsWith, Res.bind,
        asParam, asVar, setLocal, hm, hp, outOf]
    · have hp' : (Model.push c e).panicked = false := by simpa using hp
      have ih := extend_loop F es (Model.push c e).st { m with self := (Model.push c e).st } rfl
      simp [hev, extBody, extEnv, execList, exec, eval, evalList, lookup, callSelf, afterSelf, moveArg, methodsWith, Res.bind,
        asParam, asVar, setLocal, hm, hp', dropV] at ih ⊢
      simpa using ih

end extend

/-- **`Extend<T>::extend`** as extracted = `Model.extend` -/
theorem extend_tie (dr : Bool) (empty c : Cols) (tr : Cols → Nat → Out) (sw : Cols → Nat → Nat → Out) (es : List Cols) (fuel : Nat) :
    run { dr := dr, ps := [.elems es], M := methodsWith empty tr sw, fuel := fuel } lp_PVec_Extend_P_extend c =
      some (Model.extend c es) := by
  have h := extend_loop dr empty tr sw es fuel es c { self := c } rfl
  rw [run_unit _ _ _ (by decide) (by intro m; simp [leftovers, leftovers.go])]
  simp only [lp_PVec_Extend_P_extend, execList, exec, eval, List.getElem?_cons_zero, Res.bind_ok, outOf_bind_ok]
  refine Eq.trans (show _ = outOf (forList (extBody dr empty tr sw es fuel) es { self := c }) from rfl) (h.trans ?_)
  rw [extend_shape es c]

/-! ## `retain` / `retain_mut` (callbacks that do not write): the swap loop, then one `truncate` -/

/-- the loop body `if !f(slice.GET(i).unwrap()) { del += 1 } else if del > 0 { slice.swap(i - del, i) }` -/
def retainBody (g : String) : List St :=
  [(.ite (.not (.app 0 [(.mcall (.mcall (.var "slice") g [(.var "i")]) "unwrap" [])])) [(.opAssign "+=" "del" (.num 1))]
      [(.ite (.bin ">" (.var "del") (.num 0))
        [(.expr (.mcall (.var "slice") "swap" [(.bin "-" (.var "i") (.var "del")), (.var "i")]))] [])])]

def retainStmts (g : String) : List St :=
  [(.let_ "len" (.mcall .self_ "len" [])),
   (.let_ "del" (.num 0)),
   (.block [(.let_ "slice" (.mcall .self_ "as_mut_slice" [])), (.forIn "i" (.range (.num 0) (.var "len")) (retainBody g))]),
   (.ite (.bin ">" (.var "del") (.num 0)) [(.expr (.mcall .self_ "truncate" [(.bin "-" (.var "len") (.var "del"))]))] [])]

theorem retain_stmts : lp_PVec_retain.stmts = retainStmts "get" ∧ lp_PVec_retain_mut.stmts = retainStmts "get_mut" ∧
    lp_PVec_retain.tail = none ∧ lp_PVec_retain_mut.tail = none := ⟨rfl, rfl, rfl, rfl⟩

section retain
variable (dr : Bool) (empty : Cols) (tr : Cols → Nat → Out) (sw : Cols → Nat → Nat → Out) (keep : Nat → Bool) (boom : Option Nat) (g : String) (n : Nat)

def retEnv (fuel : Nat) : Env :=
  { dr := dr, ps := [], keep := keep, boom := boom, touch := fun _ _ => none, M := methodsWith empty tr sw, fuel := fuel }

def baseLocals (del : Nat) : List (String × V) := [("slice", .view), ("del", .nat del), ("len", .nat n)]

def retIter (fuel : Nat) : Nat → Mach → Res Unit := fun i m =>
  (execList (retEnv dr empty tr sw keep boom fuel) (retainBody g) { m with locals := ("i", .nat i) :: m.locals }).bind fun _ m =>
    .ok () { m with locals := m.locals.drop 1 }

/-- what the interpreter's loop must look like, given the model loop's result -/
def LoopRes (r : Model.LoopOut) (res : Res Unit) : Prop :=
  if r.boom then ∃ m', res = .panic m' ∧ m'.self = r.c ∧ m'.vis = r.vis ∧ m'.ev = r.ev ∧ m'.made = r.made ∧ m'.movedPs = []
  else ∃ m', res = .ok () m' ∧ m'.self = r.c ∧ m'.locals = baseLocals n r.del ∧ m'.vis = r.vis ∧ m'.ev = r.ev ∧
    m'.made = r.made ∧ m'.movedPs = []

theorem retain_loop (hsw : SwOk sw) (hg : g = "get" ∨ g = "get_mut") (F : Nat) :
    ∀ (fuel i del : Nat) (c : Cols) (m : Mach), c.lock n → i + fuel = n → del ≤ i → m.self = c →
      m.locals = baseLocals n del → m.calls = i → m.movedPs = [] →
      LoopRes n (Model.retainLoop keep boom (fun _ _ => none) fuel i del c m.vis m.ev m.made)
        (forRange (retIter dr empty tr sw keep boom g F) i fuel m)
  | 0, i, del, c, m, hc, hi, hd, hm, hl, hcalls, hmv => by
    simp only [Model.retainLoop, forRange, LoopRes, Bool.false_eq_true, ↓reduceIte]
    exact ⟨m, rfl, hm, hl, rfl, rfl, rfl, hmv⟩
  | fuel + 1, i, del, c, m, hc, hi, hd, hm, hl, hcalls, hmv => by
    have hin : i < n := by omega
    have hfl := firstLen_lock c n hc
    have hget : (if i < c.firstLen then some i else none) = some i := by simp [hfl, hin]
    simp only [Model.retainLoop, forRange]
    -- the part of the body up to the answer of the callback
    by_cases hb : boom = some i
    · simp only [hb, ↓reduceIte, LoopRes]
      rcases hg with rfl | rfl <;>
      · simp [retIter, retEnv, retainBody, execList, exec, eval, evalList, lookup, hl, baseLocals, callOther, methodsWith, hm,
          hget, callClosure, hcalls, hb, hmv]
    · have hb' : ¬ boom = some m.calls := by rw [hcalls]; exact hb
      by_cases hk : keep i
      · by_cases hdz : del > 0
        · -- kept, and something was deleted before: swap into place
          cases perField0 (swapOp (i - del) i) c n hc with
          | ok s hrun _ hpn hst _ hlk _ hsm _ =>
            rw [rows_noArgs c n hc] at hrun
            have hlen := rows_len n c hc
            have hlt : i - del < n := by omega
            simp only [swapOp, PolyOp.ofTotal_run, hlen, hlt, hin, decide_true, List.length_nil, BEq.rfl,
              Bool.and_self, ↓reduceIte, Option.some.injEq] at hrun
            subst hrun
            simp only at hst
            have hlk' := lock_of_rows_len hlk (k := n) (by rw [hst]; simp [hlen])
            have ih := retain_loop hsw hg F fuel (i + 1) del (c.apply2 (swapOp (i - del) i) (Model.noArgs c)).st
              { m with self := (c.apply2 (swapOp (i - del) i) (Model.noArgs c)).st, vis := m.vis ++ [Model.rowAt c i],
                       calls := i + 1 } hlk' (by omega) (by omega) rfl hl rfl hmv
            simp only [hb, hk, hdz, ↓reduceIte, Bool.not_true, Bool.false_eq_true]
            have hsub : del ≤ i := hd
            have hswc := hsw c n (i - del) i hc hlt hin
            rcases hg with rfl | rfl <;>
            · simp [retIter, retEnv, retainBody, execList, exec, eval, evalList, lookup, hl, baseLocals, callOther, methodsWith,
                hm, hget, callClosure, hcalls, hb, hk, hdz, arith, hsub, afterSelf, hpn, dropV, Model.noArgs, hswc, modelSwap] at ih ⊢
              exact ih
          | fail _ hfail _ _ _ =>
            have hlt : i - del < n := by omega
            simp [swapOp, hlt, hin] at hfail
        · have ih := retain_loop hsw hg F fuel (i + 1) del c
            { m with vis := m.vis ++ [Model.rowAt c i], calls := i + 1 } hc (by omega) (by omega) hm hl rfl hmv
          simp only [hb, hk, hdz, ↓reduceIte, Bool.not_true, Bool.false_eq_true]
          rcases hg with rfl | rfl <;>
          · simp [retIter, retEnv, retainBody, execList, exec, eval, evalList, lookup, hl, baseLocals, callOther, methodsWith,
              hm, hget, callClosure, hcalls, hb, hk, hdz, arith] at ih ⊢
            exact ih
      · have ih := retain_loop hsw hg F fuel (i + 1) (del + 1) c
          { m with vis := m.vis ++ [Model.rowAt c i], calls := i + 1, locals := baseLocals n (del + 1) } hc (by omega) (by omega)
          hm rfl rfl hmv
        simp only [hb, hk, ↓reduceIte, Bool.not_false]
        rcases hg with rfl | rfl <;>
        · simp [retIter, retEnv, retainBody, execList, exec, eval, evalList, lookup, hl, baseLocals, callOther, methodsWith,
            hm, hget, callClosure, hcalls, hb, hk, arith, setLocal] at ih ⊢
          exact ih

end retain

theorem retainLoop_del_le (keep : Nat → Bool) (boom : Option Nat) :
    ∀ (fuel i del : Nat) (c : Cols) (vis : List (List Nat)) (ev : Ev) (made : List Nat), del ≤ i →
      (Model.retainLoop keep boom (fun _ _ => none) fuel i del c vis ev made).del ≤ i + fuel
  | 0, i, del, c, vis, ev, made, h => by simp [Model.retainLoop]; omega
  | fuel + 1, i, del, c, vis, ev, made, h => by
    simp only [Model.retainLoop]
    split
    · simp; omega
    · split
      · have := retainLoop_del_le keep boom fuel (i + 1) (del + 1) c (vis ++ [Model.rowAt c i]) ev made (by omega); omega
      · split
        · have := retainLoop_del_le keep boom fuel (i + 1) del (c.apply2 (swapOp (i - del) i) (Model.noArgs c)).st
            (vis ++ [Model.rowAt c i]) ev made (by omega); omega
        · have := retainLoop_del_le keep boom fuel (i + 1) del c (vis ++ [Model.rowAt c i]) ev made (by omega); omega

/-- **`retain`** and **`retain_mut`** (callback without writes) as extracted = `Model.retain` -/
theorem retain_tie (dr : Bool) (empty c : Cols) (tr : Cols → Nat → Out) (sw : Cols → Nat → Nat → Out) (htrOk : TrOk dr tr)
    (hsw : SwOk sw) (keep : Nat → Bool) (boom : Option Nat) (n fuel : Nat) (hc : c.lock n) :
    run { dr := dr, ps := [], keep := keep, boom := boom, touch := fun _ _ => none, M := methodsWith empty tr sw, fuel := fuel }
      lp_PVec_retain c = some (Model.retain dr c keep boom (fun _ _ => none)) ∧
    run { dr := dr, ps := [], keep := keep, boom := boom, touch := fun _ _ => none, M := methodsWith empty tr sw, fuel := fuel }
      lp_PVec_retain_mut c = some (Model.retain dr c keep boom (fun _ _ => none)) := by
  have hfl := firstLen_lock c n hc
  have key : ∀ g, g = "get" ∨ g = "get_mut" →
      outOf (execList (retEnv dr empty tr sw keep boom fuel) (retainStmts g) { self := c }) =
        some (Model.retain dr c keep boom (fun _ _ => none)) := by
    intro g hg
    have hloop := retain_loop dr empty tr sw keep boom g n hsw hg fuel n 0 0 c
      { self := c, locals := baseLocals n 0 } hc (by omega) (by omega) rfl rfl rfl rfl
    have hdel := retainLoop_del_le keep boom n 0 0 c [] {} [] (by omega)
    have hrl : (Model.retainLoop keep boom (fun _ _ => none) n 0 0 c [] {} []).c.lock n :=
      (retainLoop_rows keep boom n n 0 0 c [] [] {} [] hc (by omega) rfl).2.2.2.2.1
    have hM : (retEnv dr empty tr sw keep boom fuel).M = methodsWith empty tr sw := rfl
    have hlen : (methodsWith empty tr sw).len = Cols.firstLen := rfl
    have htr : (methodsWith empty tr sw).truncate = tr := rfl
    simp only [retainStmts, execList, exec, eval, evalList, callSelf, hM, hlen, htr, Res.bind_ok, lookup,
      String.reduceEq, ↓reduceIte, List.length_cons, List.length_nil, hfl, Nat.sub_zero]
    simp only [Model.retain, hfl]
    generalize Model.retainLoop keep boom (fun _ _ => none) n 0 0 c [] {} [] = r at hloop hdel hrl ⊢
    unfold LoopRes at hloop
    simp only [baseLocals] at hloop
    unfold retIter at hloop
    by_cases hb : r.boom = true
    · rw [if_pos hb] at hloop
      obtain ⟨m', hres, h1, h2, h3, h4, h5⟩ := hloop
      rw [hres]
      simp [hb, outOf, h1, h2, h3, h4]
    · rw [if_neg hb] at hloop
      obtain ⟨m', hres, h1, hl, h2, h3, h4, h5⟩ := hloop
      have hb' : r.boom = false := by simpa using hb
      rw [hres]
      by_cases hd : r.del > 0
      · obtain ⟨tst, tpan, tev, hs⟩ : ∃ a b e, Model.truncate dr r.c (n - r.del) = { st := a, panicked := b, ev := e } :=
          ⟨_, _, _, truncate_shape dr r.c (n - r.del)⟩
        have hle : r.del ≤ n := by omega
        have htrr := htrOk r.c n (n - r.del) hrl
        simp [hb', hl, lookup, arith, hd, hle, eval, evalList, callSelf, afterSelf, h1, execList, exec, dropV, hM, htr, htrr, hs]
        cases tpan <;> simp [outOf, h2, h3, h4]
      · simp [hb', hl, lookup, arith, hd, eval, evalList, execList, exec, outOf, h1, h2, h3, h4]
  constructor
  · rw [run_unit _ _ _ retain_stmts.2.2.1 (by intro m; simp [leftovers, leftovers.go]), retain_stmts.1]
    exact key "get" (Or.inl rfl)
  · rw [run_unit _ _ _ retain_stmts.2.2.2 (by intro m; simp [leftovers, leftovers.go]), retain_stmts.2.1]
    exact key "get_mut" (Or.inr rfl)

/-! ## `resize`: reserve, `new_len - len - 1` clones pushed, then the value itself; or `truncate` -/

theorem ev_append_def (a b : Ev) : a ++ b = ⟨a.drops ++ b.drops, a.dropT ++ b.dropT, a.clones ++ b.clones⟩ := rfl

theorem push_ok {c e : Cols} {n : Nat} (hc : c.lock n) (he : e.lock 1) (hs : c.same e) :
    (Model.push c e).panicked = false ∧ (Model.push c e).st.lock (n + 1) ∧ c.same (Model.push c e).st := by
  unfold Model.push
  cases perField appendOp c e n 1 hc he hs with
  | ok s hrun _ hp hst _ hl _ hsm _ =>
    have hlen := rows_len n c hc
    have hel := rows_len 1 e he
    simp only [appendOp, PolyOp.ofTotal_run, ↓reduceIte, Option.some.injEq] at hrun
    subst hrun
    simp only at hst
    exact ⟨hp, lock_of_rows_len hl (by rw [hst]; simp [hlen, hel]), hsm⟩
  | fail _ hfail _ _ _ => simp [appendOp] at hfail

theorem extend_replicate_ok {e : Cols} (he : e.lock 1) : ∀ (j : Nat) (c : Cols) (n : Nat), c.lock n → c.same e →
    (Model.extend c (List.replicate j e)).panicked = false ∧ (Model.extend c (List.replicate j e)).st.lock (n + j) ∧
      (Model.extend c (List.replicate j e)).st.same e
  | 0, c, n, hc, hs => by simp [Model.extend, hc, hs]
  | j + 1, c, n, hc, hs => by
    obtain ⟨hp, hl, hsm⟩ := push_ok hc he hs
    have hs' : (Model.push c e).st.same e := same_trans _ _ _ (same_symm _ _ hsm) hs
    have ih := extend_replicate_ok he j (Model.push c e).st (n + 1) hl hs'
    simp only [List.replicate_succ, Model.extend, hp, Bool.false_eq_true, ↓reduceIte]
    exact ⟨ih.1, by have := ih.2.1; rwa [show n + 1 + j = n + (j + 1) by omega] at this, ih.2.2⟩

/-- pushing `j` copies and then one more is pushing `j + 1` copies -/
theorem extend_replicate_succ {e : Cols} (he : e.lock 1) : ∀ (j : Nat) (c : Cols) (n : Nat), c.lock n → c.same e →
    (Model.extend c (List.replicate (j + 1) e)).st = (Model.push (Model.extend c (List.replicate j e)).st e).st
  | 0, c, n, hc, hs => by
    obtain ⟨hp, _, _⟩ := push_ok hc he hs
    simp [Model.extend, hp]
  | j + 1, c, n, hc, hs => by
    obtain ⟨hp, hl, hsm⟩ := push_ok hc he hs
    have hs' : (Model.push c e).st.same e := same_trans _ _ _ (same_symm _ _ hsm) hs
    have ih := extend_replicate_succ he j (Model.push c e).st (n + 1) hl hs'
    rw [List.replicate_succ, Model.extend]
    simp only [hp, Bool.false_eq_true, ↓reduceIte]
    rw [ih]
    conv => rhs; rw [List.replicate_succ, Model.extend]
    simp only [hp, Bool.false_eq_true, ↓reduceIte]

def rszBody : List St := [(.expr (.mcall .self_ "push" [(.mcall (.mcall (.param 1) "as_ref" []) "to_owned" [])]))]

def rszStmts : List St :=
  [(.let_ "len" (.mcall .self_ "len" [])),
   (.ite (.bin ">" (.param 0) (.var "len"))
      [(.expr (.mcall .self_ "reserve" [(.bin "-" (.param 0) (.var "len"))])),
       (.forIn "_" (.range (.bin "+" (.var "len") (.num 1)) (.param 0)) rszBody),
       (.expr (.mcall .self_ "push" [(.param 1)]))]
      [(.expr (.mcall .self_ "truncate" [(.param 0)]))])]

theorem resize_stmts : lp_PVec_resize.stmts = rszStmts ∧ lp_PVec_resize.tail = none := ⟨rfl, rfl⟩

section resize
variable (dr : Bool) (empty : Cols) (tr : Cols → Nat → Out) (sw : Cols → Nat → Nat → Out) (k : Nat) (e : Cols)

def rszEnv (fuel : Nat) : Env := { dr := dr, ps := [.nat k, .elem e], M := methodsWith empty tr sw, fuel := fuel }

def rszIter (fuel : Nat) : Nat → Mach → Res Unit := fun i m =>
  (execList (rszEnv dr empty tr sw k e fuel) rszBody { m with locals := ("_", .nat i) :: m.locals }).bind fun _ m =>
    .ok () { m with locals := m.locals.drop 1 }

theorem resize_loop (he : e.lock 1) (F : Nat) : ∀ (j i : Nat) (c : Cols) (n : Nat) (m : Mach), c.lock n → c.same e → m.self = c →
    forRange (rszIter dr empty tr sw k e F) i j m =
      .ok () { m with self := (Model.extend c (List.replicate j e)).st,
                      ev := m.ev ++ { clones := (List.replicate j e.flat).flatten } }
  | 0, i, c, n, m, hc, hs, hm => by
    subst hm
    cases m with | mk self locals movedPs ev vis made calls =>
    cases ev
    simp [forRange, Model.extend, ev_append_def]
  | j + 1, i, c, n, m, hc, hs, hm => by
    obtain ⟨hp, hl, hsm⟩ := push_ok hc he hs
    have hs' : (Model.push c e).st.same e := same_trans _ _ _ (same_symm _ _ hsm) hs
    have hev : (Model.push c e).ev = {} := rfl
    have ih := resize_loop he F j (i + 1) (Model.push c e).st (n + 1)
      { m with self := (Model.push c e).st, ev := m.ev ++ { clones := e.flat } } hl hs' rfl
    simp only [forRange]
    simp [rszIter, rszBody, rszEnv, execList, exec, eval, evalList, callSelf, callOther, afterSelf, moveArg, methodsWith, asParam, asVar,
      hm, hp, hev, dropV] at ih ⊢
    rw [ih]
    simp [List.replicate_succ, Model.extend, hp, ev_append_def, List.append_assoc]

end resize

/-- **`resize`** as extracted = `Model.resize` -/
theorem resize_tie (dr : Bool) (empty c e : Cols) (tr : Cols → Nat → Out) (sw : Cols → Nat → Nat → Out) (htrOk : TrOk dr tr)
    (k n fuel : Nat) (hc : c.lock n) (he : e.lock 1) (hs : c.same e) :
    run { dr := dr, ps := [.nat k, .elem e], M := methodsWith empty tr sw, fuel := fuel } lp_PVec_resize c =
      some (Model.resize dr c k e) := by
  have hfl := firstLen_lock c n hc
  have hM : (rszEnv dr empty tr sw k e fuel).M = methodsWith empty tr sw := rfl
  have hlen : (methodsWith empty tr sw).len = Cols.firstLen := rfl
  have htr : (methodsWith empty tr sw).truncate = tr := rfl
  have htrc := htrOk c n k hc
  have hpush : (methodsWith empty tr sw).push = Model.push := rfl
  have hps : (rszEnv dr empty tr sw k e fuel).ps = [.nat k, .elem e] := rfl
  have hdr : (rszEnv dr empty tr sw k e fuel).dr = dr := rfl
  show run (rszEnv dr empty tr sw k e fuel) lp_PVec_resize c = _
  unfold run
  rw [resize_stmts.1, resize_stmts.2]
  simp only [rszStmts, execList, exec, eval, evalList, callSelf, callOther, hM, hlen, htr, hps, hdr, Res.bind_ok, lookup,
    String.reduceEq, ↓reduceIte, List.getElem?_cons_zero, arith, hfl, Model.resize]
  by_cases hk : k > n
  · have hle : n ≤ k := by omega
    have hloop := resize_loop dr empty tr sw k e he fuel (k - (n + 1)) (n + 1) c n
      { self := c, locals := [("len", V.nat n)], ev := {} ++ dropV dr V.unit } hc hs rfl
    unfold rszIter at hloop
    obtain ⟨hp0, hl0, hs0⟩ := extend_replicate_ok he (k - (n + 1)) c n hc hs
    obtain ⟨hp1, _, _⟩ := push_ok hl0 he hs0
    have hsucc := extend_replicate_succ he (k - (n + 1)) c n hc hs
    have hkn : k - (n + 1) + 1 = k - n := by omega
    have hall := extend_replicate_ok he (k - n) c n hc hs
    have hdec : decide (n < k) = true := by simpa using hk
    simp only [hdec, hle, ↓reduceIte, Res.bind_ok, execList, exec, eval, evalList, callSelf, String.reduceEq, lookup, arith,
      hM, hps, List.getElem?_cons_zero, List.getElem?_cons_succ, gt_iff_lt]
    rw [hloop, if_pos (show n < k from hk)]
    have hkn' : k - n - 1 = k - (n + 1) := by omega
    simp [afterSelf, moveArg, asParam, asVar, hpush, hp1, dropV, leftovers, leftovers.go, hps, hdr,
      lookup, arith, eval, evalList, callSelf, execList, exec, hM, ev_append_def, hall.1, hkn']
    rw [← hkn, hsucc]
    exact ⟨rfl, rfl, rfl, rfl⟩
  · obtain ⟨tst, tpan, tev, hsT⟩ : ∃ a b x, Model.truncate dr c k = { st := a, panicked := b, ev := x } :=
      ⟨_, _, _, truncate_shape dr c k⟩
    simp [hk, afterSelf, htrc, hsT, dropV, leftovers, leftovers.go, hps, hdr]
    cases tpan <;> simp [ev_append_def]

/-! ## `extend_from_slice`: reserve, then `push(item.to_owned())` for every element of the source -/

/-- everything but the clone events (which the interpreter records element by element, the model field by field) -/
def core (o : Out) : Cols × Bool × List Nat × List Nat × List (List Nat) × List Nat :=
  (o.st, o.panicked, o.ev.drops, o.ev.dropT, o.vis, o.made)

def efsBody : List St := [(.expr (.mcall .self_ "push" [(.mcall (.var "item") "to_owned" [])]))]

def efsStmts : List St :=
  [(.expr (.mcall .self_ "reserve" [(.mcall (.param 0) "len" [])])),
   (.forIn "item" (.mcall (.param 0) "iter" []) efsBody)]

theorem efs_stmts : lp_PVec_soa_derive_SoAAppendVec_P_extend_from_slice.stmts = efsStmts ∧
    lp_PVec_soa_derive_SoAAppendVec_P_extend_from_slice.tail = none := ⟨rfl, rfl⟩

section efs
variable (dr : Bool) (empty : Cols) (tr : Cols → Nat → Out) (sw : Cols → Nat → Nat → Out) (d : Cols)

def efsEnv (fuel : Nat) : Env := { dr := dr, ps := [.src d], M := methodsWith empty tr sw, fuel := fuel }

def efsIter (fuel : Nat) : Nat → Mach → Res Unit := fun i m =>
  (execList (efsEnv dr empty tr sw d fuel) efsBody { m with locals := ("item", .sref d i) :: m.locals }).bind fun _ m =>
    .ok () { m with locals := m.locals.drop 1 }

theorem efs_loop (F : Nat) : ∀ (j i : Nat) (c : Cols) (m : Mach), m.self = c →
    (outOf (forRange (efsIter dr empty tr sw d F) i j m)).map core =
      some ((Model.extend c ((List.range' i j).map (Model.rowCols d))).st,
            (Model.extend c ((List.range' i j).map (Model.rowCols d))).panicked, m.ev.drops, m.ev.dropT, m.vis, m.made)
  | 0, i, c, m, hm => by simp [forRange, outOf, core, Model.extend, hm]
  | j + 1, i, c, m, hm => by
    have hev : (Model.push c (Model.rowCols d i)).ev = {} := rfl
    simp only [forRange, List.range'_succ, List.map_cons, Model.extend]
    by_cases hp : (Model.push c (Model.rowCols d i)).panicked = true
    · simp [efsIter, efsBody, efsEnv, execList, exec, eval, evalList, lookup, callSelf, callOther, afterSelf, moveArg,
        methodsWith, asParam, asVar, hm, hp, hev, outOf, core, ev_append_def]
    · have hp' : (Model.push c (Model.rowCols d i)).panicked = false := by simpa using hp
      have ih := efs_loop F j (i + 1) (Model.push c (Model.rowCols d i)).st
        { m with self := (Model.push c (Model.rowCols d i)).st, ev := m.ev ++ { clones := (Model.rowCols d i).flat } } rfl
      simp [efsIter, efsBody, efsEnv, execList, exec, eval, evalList, lookup, callSelf, callOther, afterSelf, moveArg,
        methodsWith, asParam, asVar, hm, hp', hev, dropV, ev_append_def] at ih ⊢
      exact ih

end efs

/-- **`extend_from_slice`** as extracted: contents and panic flag of `Model.extendFromSlice`, nothing destroyed -/
theorem extend_from_slice_tie (dr : Bool) (empty c d : Cols) (tr : Cols → Nat → Out) (sw : Cols → Nat → Nat → Out) (fuel : Nat) :
    (run { dr := dr, ps := [.src d], M := methodsWith empty tr sw, fuel := fuel }
        lp_PVec_soa_derive_SoAAppendVec_P_extend_from_slice c).map core =
      some ((Model.extendFromSlice c d).st, (Model.extendFromSlice c d).panicked, [], [], [], []) := by
  have hM : (efsEnv dr empty tr sw d fuel).M = methodsWith empty tr sw := rfl
  have hlen : (methodsWith empty tr sw).len = Cols.firstLen := rfl
  have hps : (efsEnv dr empty tr sw d fuel).ps = [.src d] := rfl
  have hdr : (efsEnv dr empty tr sw d fuel).dr = dr := rfl
  have h := efs_loop dr empty tr sw d fuel d.firstLen 0 c { self := c, ev := {} ++ dropV dr V.unit } rfl
  unfold efsIter at h
  show (run (efsEnv dr empty tr sw d fuel) lp_PVec_soa_derive_SoAAppendVec_P_extend_from_slice c).map core = _
  rw [run_unit _ _ _ efs_stmts.2 (by intro m; simp [leftovers, leftovers.go, efsEnv]), efs_stmts.1]
  simp only [efsStmts, execList, exec, eval, evalList, callSelf, callOther, hM, hlen, hps, hdr, Res.bind_ok, String.reduceEq,
    ↓reduceIte, List.getElem?_cons_zero, outOf_bind_ok]
  rw [h]
  simp [Model.extendFromSlice, List.range_eq_range', dropV, ev_append_def]

/-! ## `FromIterator`: `let mut result = …Vec::new(); for element in iter { result.push(element); } result` -/

def fiBody : List St := [(.expr (.mcall (.var "result") "push" [(.var "element")]))]

def fiStmts : List St := [(.let_ "result" (.fcall "PVec::new" [])), (.forIn "element" (.param 0) fiBody)]

theorem fi_stmts : lp_PVec_std_iter_FromIterator_P_from_iter.stmts = fiStmts ∧
    lp_PVec_std_iter_FromIterator_P_from_iter.tail = some (.var "result") := ⟨rfl, rfl⟩

section fromiter
variable (dr : Bool) (empty : Cols) (tr : Cols → Nat → Out) (sw : Cols → Nat → Nat → Out) (all : List Cols)

def fiEnv (fuel : Nat) : Env := { dr := dr, ps := [.elems all], M := methodsWith empty tr sw, fuel := fuel }

def fiIter (fuel : Nat) : Cols → Mach → Res Unit := fun e m =>
  (execList (fiEnv dr empty tr sw all fuel) fiBody { m with locals := ("element", .elem e) :: m.locals }).bind fun _ m =>
    .ok () { m with locals := m.locals.drop 1,
                    ev := m.ev ++ dropV (fiEnv dr empty tr sw all fuel).dr ((lookup "element" m.locals).getD .moved) }

theorem extend_panicked_cons {c e : Cols} {es : List Cols} (h : (Model.extend c (e :: es)).panicked = false) :
    (Model.push c e).panicked = false ∧ (Model.extend (Model.push c e).st es).panicked = false := by
  simp only [Model.extend] at h
  by_cases hp : (Model.push c e).panicked = true
  · simp [hp] at h
  · simp only [hp, Bool.false_eq_true, ↓reduceIte] at h
    exact ⟨by simpa using hp, h⟩

theorem fi_loop (F : Nat) : ∀ (es : List Cols) (c : Cols) (m : Mach), m.locals = [("result", .cont c)] →
    (Model.extend c es).panicked = false →
    forList (fiIter dr empty tr sw all F) es m = .ok () { m with locals := [("result", .cont (Model.extend c es).st)] }
  | [], c, m, hl, _ => by
    cases m; simp_all [forList, Model.extend]
  | e :: es, c, m, hl, hp => by
    obtain ⟨hp1, hp2⟩ := extend_panicked_cons hp
    have hev : (Model.push c e).ev = {} := rfl
    have ih := fi_loop F es (Model.push c e).st { m with locals := [("result", .cont (Model.push c e).st)] } rfl hp2
    simp only [forList]
    simp [fiIter, fiBody, fiEnv, execList, exec, eval, evalList, lookup, hl, callOther, moveArg, methodsWith, asParam, asVar,
      setLocal, hp1, hev, dropV] at ih ⊢
    rw [ih]
    simp [Model.extend, hp1]

end fromiter

/-- **`FromIterator::from_iter`** as extracted: the collected vector is `Model.extend` of the empty vector -/
theorem from_iter_tie (dr : Bool) (empty self : Cols) (tr : Cols → Nat → Out) (sw : Cols → Nat → Nat → Out) (es : List Cols)
    (fuel : Nat) (hp : (Model.extend empty es).panicked = false) :
    run { dr := dr, ps := [.elems es], M := methodsWith empty tr sw, fuel := fuel } lp_PVec_std_iter_FromIterator_P_from_iter self =
      some { st := self, ret := some (Model.extend empty es).st } := by
  have h := fi_loop dr empty tr sw es fuel es empty { self := self, locals := [("result", .cont empty)] } rfl hp
  unfold fiIter at h
  have hM : (fiEnv dr empty tr sw es fuel).M = methodsWith empty tr sw := rfl
  have hps : (fiEnv dr empty tr sw es fuel).ps = [.elems es] := rfl
  have hem : (methodsWith empty tr sw).empty = empty := rfl
  show run (fiEnv dr empty tr sw es fuel) lp_PVec_std_iter_FromIterator_P_from_iter self = _
  unfold run
  rw [fi_stmts.1, fi_stmts.2]
  simp only [fiStmts, execList, exec, eval, evalList, hM, hps, hem, Res.bind_ok, List.getElem?_cons_zero]
  rw [h]
  simp [eval, lookup, leftovers, leftovers.go, hps]

end Soa.Lp
