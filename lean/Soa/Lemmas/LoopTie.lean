import Soa.Model.Loop
import Soa.Extracted.Loops
import Soa.Lemmas.Loops
/-!
# The loop-style generated functions, as extracted, are the hand-written model

For every lockstep container of every shape and every argument: running the statement tree
extracted from /repo on this run (`Soa/Extracted/Loops.lean`) with the interpreter of
`Soa/Model/Loop.lean` — over the model's `pop` / `push` / `truncate` / `swap` — gives exactly
the outcome of the hand-written model function the property theorems are about.  The proofs
are symbolic executions of the extracted tree with a loop invariant per loop; they are
re-checked against the regenerated tree on every run, so any change of a loop (another
bound, another order of calls, a second call of the callback, a dropped `truncate`) breaks
them unless it provably means the same.
-/
set_option linter.unusedSimpArgs false
set_option linter.unusedVariables false
namespace Soa.Lp
open Soa Soa.Model Soa.Extracted

/-- the hand-written model of the methods a loop-style function calls -/
def modelMethods (dr : Bool) (empty : Cols) : Methods :=
  { len := Cols.firstLen, pop := Model.pop, push := Model.push, truncate := Model.truncate dr,
    swap := fun c a b => let r := c.apply2 (swapOp a b) (Model.noArgs c); { st := r.st, panicked := r.panicked },
    empty := empty }

@[simp] theorem ev_append_empty' (a : Ev) : a ++ ({} : Ev) = a := by
  show Ev.append a {} = a
  cases a; simp [Ev.append]
@[simp] theorem ev_empty_append (a : Ev) : ({} : Ev) ++ a = a := by
  show Ev.append {} a = a
  cases a; simp [Ev.append]
theorem ev_append_assoc (a b c : Ev) : a ++ b ++ c = a ++ (b ++ c) := by
  show Ev.append (Ev.append a b) c = Ev.append a (Ev.append b c)
  simp [Ev.append]

/-- how a finished machine is reported -/
def outOf (r : Res Unit) : Option Out :=
  match r with
  | .ok _ m => some { st := m.self, ev := m.ev, vis := m.vis, made := m.made }
  | .panic m => some { st := m.self, panicked := true, ev := m.ev, vis := m.vis, made := m.made }
  | .stuck _ => none

theorem outOf_bind_ok (r : Res Unit) : outOf (r.bind fun _ m => Res.ok () m) = outOf r := by
  cases r <;> rfl

/-- a body without tail expression whose by-value parameters hold nothing to destroy -/
theorem run_unit (env : Env) (b : Body) (self : Cols) (ht : b.tail = none) (hl : ∀ m, leftovers env m = {}) :
    run env b self = outOf (execList env b.stmts { self := self }) := by
  unfold run
  cases execList env b.stmts { self := self } with
  | ok _ m => simp [ht, outOf, hl]
  | panic m => simp [outOf, hl]
  | stuck s => simp [outOf]

/-! ## `truncate`: `while self.len() > len { drop(self.pop()) }` -/

section truncate
variable (dr : Bool) (k : Nat) (empty : Cols)

def truncEnv (fuel : Nat) : Env := { dr := dr, ps := [.nat k], M := modelMethods dr empty, fuel := fuel }

def truncCond (fuel : Nat) : Mach → Res Bool := fun m =>
  (eval (truncEnv dr k empty fuel) (.bin ">" (.mcall .self_ "len" []) (.param 0)) m).bind fun v m =>
    match v with | .bool b => .ok b m | _ => .stuck "condition"
def truncBody (fuel : Nat) : Mach → Res Unit := fun m =>
  execList (truncEnv dr k empty fuel) [(.expr (.fcall "::std::mem::drop" [(.mcall .self_ "pop" [])]))] m

theorem truncate_loop : ∀ (n : Nat) (c : Cols) (m : Mach) (f g F : Nat), c.lock n → m.self = c → n - k < f → n - k < g →
    outOf (whileLoop (truncCond dr k empty F) (truncBody dr k empty F) f m) =
      some { (Model.truncateLoop dr k g c m.ev) with vis := m.vis, made := m.made }
  | n, c, m, 0, _, _, _, _, hf, _ => by omega
  | n, c, m, _, 0, _, _, _, _, hg => by omega
  | n, c, m, f + 1, g + 1, F, hc, hm, hf, hg => by
    have hfl := firstLen_lock c n hc
    simp only [whileLoop, truncCond, truncEnv, eval, evalList, callSelf, callOther, moveArg, modelMethods, Res.bind, hm, hfl, arith,
      List.getElem?_cons_zero, Model.truncateLoop]
    by_cases hk : n > k
    · obtain ⟨j, rfl⟩ : ∃ j, n = j + 1 := ⟨n - 1, by omega⟩
      obtain ⟨st, e, hpop, hl, _, _, _, _⟩ := pop_ok c j hc
      have ih := truncate_loop j st { m with self := st, ev := m.ev ++ dropWhole dr e } f g F hl rfl (by omega) (by omega)
      simp only [hk, decide_true, ↓reduceIte, truncBody, truncEnv, execList, exec, eval, evalList, callSelf, callOther, moveArg, afterSelf,
        modelMethods, Res.bind, hm, hpop, Bool.false_eq_true, List.head?_cons, Option.bind_some, asParam, asVar, dropV,
        ev_append_empty', ev_append_assoc, ev_empty_append]
      simpa [truncCond, truncBody, truncEnv, ev_append_assoc] using ih
    · simp [hk, outOf, hm]

end truncate

theorem truncateLoop_shape (dr : Bool) (k : Nat) : ∀ (g : Nat) (c : Cols) (ev : Ev),
    Model.truncateLoop dr k g c ev =
      { st := (Model.truncateLoop dr k g c ev).st, panicked := (Model.truncateLoop dr k g c ev).panicked,
        ev := (Model.truncateLoop dr k g c ev).ev }
  | 0, c, ev => by simp [Model.truncateLoop]
  | g + 1, c, ev => by
    simp only [Model.truncateLoop]
    split
    · rcases pop_cases c with h | h | h
      · rw [h]; simp
      · rw [h.2]; simp
      · rw [h.2]; simp only [Bool.false_eq_true, ↓reduceIte]; exact truncateLoop_shape dr k g _ _
    · rfl

theorem truncate_shape (dr : Bool) (c : Cols) (k : Nat) :
    Model.truncate dr c k = { st := (Model.truncate dr c k).st, panicked := (Model.truncate dr c k).panicked,
                              ev := (Model.truncate dr c k).ev } :=
  truncateLoop_shape dr k _ c {}

/-- **truncate** as extracted = `Model.truncate` -/
theorem truncate_tie (dr : Bool) (k : Nat) (empty c : Cols) (n fuel : Nat) (hc : c.lock n) (hf : n - k < fuel) :
    run { dr := dr, ps := [.nat k], M := modelMethods dr empty, fuel := fuel } lp_PVec_truncate c = some (Model.truncate dr c k) := by
  have h := truncate_loop dr k empty n c { self := c } fuel (c.firstLen - k + 1) fuel hc rfl hf
    (by rw [firstLen_lock c n hc]; omega)
  rw [run_unit _ _ _ (by decide) (by intro m; simp [leftovers, leftovers.go])]
  simp only [lp_PVec_truncate, execList, exec, outOf_bind_ok]
  refine Eq.trans (show _ = outOf (whileLoop (truncCond dr k empty fuel) (truncBody dr k empty fuel) fuel { self := c }) from rfl)
    (h.trans ?_)
  have hv := truncateLoop_shape dr k (c.firstLen - k + 1) c {}
  unfold Model.truncate
  generalize Model.truncateLoop dr k (c.firstLen - k + 1) c {} = o at hv ⊢
  rw [hv]

/-- **clear** as extracted (`self.truncate(0)`) = `Model.clear` -/
theorem clear_tie (dr : Bool) (empty c : Cols) (fuel : Nat) :
    run { dr := dr, ps := [], M := modelMethods dr empty, fuel := fuel } lp_PVec_clear c = some (Model.clear dr c) := by
  rw [run_unit _ _ _ (by decide) (by intro m; simp [leftovers, leftovers.go])]
  have hs := truncate_shape dr c 0
  simp only [lp_PVec_clear, execList, exec, eval, evalList, callSelf, afterSelf, modelMethods, Res.bind, Model.clear]
  generalize Model.truncate dr c 0 = o at hs ⊢
  rw [hs]
  cases hp : o.panicked <;> simp [hp, outOf, dropV]

/-! ## `Drop`: `while let Some(value) = self.pop() { drop(value) }` -/

section dropvec
variable (dr : Bool) (empty : Cols)

def dropEnv (fuel : Nat) : Env := { dr := dr, ps := [], M := modelMethods dr empty, fuel := fuel }

def dropCond (fuel : Nat) : Mach → Res Bool := fun m =>
  (eval (dropEnv dr empty fuel) (.mcall .self_ "pop" []) m).bind fun v m => match v with
    | .opt (some el) => .ok true { m with locals := ("value", .elem el) :: m.locals }
    | .opt none => .ok false m
    | _ => .stuck "while let"
def dropBody (fuel : Nat) : Mach → Res Unit := fun m =>
  (execList (dropEnv dr empty fuel) [(.expr (.fcall "::std::mem::drop" [(.var "value")]))] m).bind fun _ m =>
    let v := (lookup "value" m.locals).getD .moved
    .ok () { m with locals := m.locals.drop 1, ev := m.ev ++ dropV dr v }

theorem pop_zero (c : Cols) (hc : c.lock 0) : Model.pop c = { st := c, isNone := true } := by
  unfold Model.pop; simp [firstLen_lock c 0 hc]

theorem drop_loop : ∀ (n : Nat) (c : Cols) (m : Mach) (f g F : Nat), c.lock n → m.self = c → n < f → n < g →
    outOf (whileLoop (dropCond dr empty F) (dropBody dr empty F) f m) =
      some { (Model.truncateLoop dr 0 g c m.ev) with vis := m.vis, made := m.made }
  | n, c, m, 0, _, _, _, _, hf, _ => by omega
  | n, c, m, _, 0, _, _, _, _, hg => by omega
  | 0, c, m, f + 1, g + 1, F, hc, hm, hf, hg => by
    have hfl := firstLen_lock c 0 hc
    simp [whileLoop, dropCond, dropEnv, eval, evalList, callSelf, afterSelf, modelMethods, Res.bind, hm, pop_zero c hc,
      Model.truncateLoop, hfl, outOf]
  | j + 1, c, m, f + 1, g + 1, F, hc, hm, hf, hg => by
    have hfl := firstLen_lock c (j + 1) hc
    obtain ⟨st, e, hpop, hl, _, _, _, _⟩ := pop_ok c j hc
    have ih := drop_loop j st { m with self := st, ev := m.ev ++ dropWhole dr e } f g F hl rfl (by omega) (by omega)
    simp [whileLoop, dropCond, dropEnv, eval, evalList, callSelf, afterSelf, modelMethods, Res.bind, hm, hpop,
      dropBody, execList, exec, lookup, asParam, asVar, setLocal, dropV, Model.truncateLoop, hfl]
    simpa [dropCond, dropBody, dropEnv, ev_append_assoc, Res.bind, execList, exec, eval, evalList, lookup, asParam, asVar,
      setLocal, dropV] using ih

end dropvec

/-- **`Drop for …Vec`** as extracted = `Model.dropVec` -/
theorem drop_tie (dr : Bool) (empty c : Cols) (n fuel : Nat) (hc : c.lock n) (hf : n < fuel) :
    run { dr := dr, ps := [], M := modelMethods dr empty, fuel := fuel } lp_PVec_Drop_drop c = some (Model.dropVec dr c) := by
  have h := drop_loop dr empty n c { self := c } fuel (c.firstLen - 0 + 1) fuel hc rfl hf
    (by rw [firstLen_lock c n hc]; omega)
  rw [run_unit _ _ _ (by decide) (by intro m; simp [leftovers, leftovers.go])]
  simp only [lp_PVec_Drop_drop, execList, exec, outOf_bind_ok]
  refine Eq.trans (show _ = outOf (whileLoop (dropCond dr empty fuel) (dropBody dr empty fuel) fuel { self := c }) from rfl)
    (h.trans ?_)
  have hv := truncateLoop_shape dr 0 (c.firstLen - 0 + 1) c {}
  unfold Model.dropVec Model.truncate
  generalize Model.truncateLoop dr 0 (c.firstLen - 0 + 1) c {} = o at hv ⊢
  rw [hv]

/-! ## `Extend<T>` / `FromIterator`: `for item in iter { self.push(item) }` -/

theorem extend_shape : ∀ (es : List Cols) (c : Cols),
    Model.extend c es = { st := (Model.extend c es).st, panicked := (Model.extend c es).panicked }
  | [], c => rfl
  | e :: es, c => by
    simp only [Model.extend]
    split
    · simp [Model.push]
    · exact extend_shape es _

section extend
variable (dr : Bool) (empty : Cols) (all : List Cols)

def extEnv (fuel : Nat) : Env := { dr := dr, ps := [.elems all], M := modelMethods dr empty, fuel := fuel }

def extBody (fuel : Nat) : Cols → Mach → Res Unit := fun e m =>
  (execList (extEnv dr empty all fuel) [(.expr (.mcall .self_ "push" [(.var "item")]))]
      { m with locals := ("item", .elem e) :: m.locals }).bind fun _ m =>
    let v := (lookup "item" m.locals).getD .moved
    .ok () { m with locals := m.locals.drop 1, ev := m.ev ++ dropV dr v }

theorem extend_loop (F : Nat) : ∀ (es : List Cols) (c : Cols) (m : Mach), m.self = c →
    outOf (forList (extBody dr empty all F) es m) =
      some { st := (Model.extend c es).st, panicked := (Model.extend c es).panicked, ev := m.ev, vis := m.vis, made := m.made }
  | [], c, m, hm => by simp [forList, outOf, Model.extend, hm]
  | e :: es, c, m, hm => by
    simp only [forList, Model.extend]
    have hev : (Model.push c e).ev = {} := rfl
    by_cases hp : (Model.push c e).panicked = true
    · simp [hev, extBody, extEnv, execList, exec, eval, evalList, lookup, callSelf, afterSelf, moveArg, modelMethods, Res.bind,
        asParam, asVar, setLocal, hm, hp, outOf]
    · have hp' : (Model.push c e).panicked = false := by simpa using hp
      have ih := extend_loop F es (Model.push c e).st { m with self := (Model.push c e).st } rfl
      simp [hev, extBody, extEnv, execList, exec, eval, evalList, lookup, callSelf, afterSelf, moveArg, modelMethods, Res.bind,
        asParam, asVar, setLocal, hm, hp', dropV] at ih ⊢
      simpa using ih

end extend

/-- **`Extend<T>::extend`** as extracted = `Model.extend` -/
theorem extend_tie (dr : Bool) (empty c : Cols) (es : List Cols) (fuel : Nat) :
    run { dr := dr, ps := [.elems es], M := modelMethods dr empty, fuel := fuel } lp_PVec_Extend_P_extend c =
      some (Model.extend c es) := by
  have h := extend_loop dr empty es fuel es c { self := c } rfl
  rw [run_unit _ _ _ (by decide) (by intro m; simp [leftovers, leftovers.go])]
  simp only [lp_PVec_Extend_P_extend, execList, exec, eval, List.getElem?_cons_zero, Res.bind_ok, outOf_bind_ok]
  refine Eq.trans (show _ = outOf (forList (extBody dr empty es fuel) es { self := c }) from rfl) (h.trans ?_)
  rw [extend_shape es c]

end Soa.Lp
