import Soa.Lemmas.LoopTie
import Soa.Lemmas.LoopsW
/-!
# `retain_mut` with a callback that writes to the element it is shown

The same symbolic execution as `LoopTie.retain_loop`, with the callback's write
(`touch`: at its `k`-th call it overwrites leaf `l` of the element at hand) applied by both
sides before the answer is looked at.  A write keeps every field array's length
(`writeLeaf_lock`), so the loop invariant is unchanged.
-/
set_option linter.unusedSimpArgs false
set_option linter.unusedVariables false
namespace Soa.Lp
open Soa Soa.Model Soa.Extracted

section retainw
variable (dr : Bool) (empty : Cols) (tr : Cols → Nat → Out) (sw : Cols → Nat → Nat → Out) (keep : Nat → Bool) (boom : Option Nat)
  (touch : Nat → Nat → Option (Nat × Nat)) (g : String) (n : Nat)

def retEnvW (fuel : Nat) : Env :=
  { dr := dr, ps := [], keep := keep, boom := boom, touch := touch, M := methodsWith empty tr sw, fuel := fuel }

def retIterW (fuel : Nat) : Nat → Mach → Res Unit := fun i m =>
  (execList (retEnvW dr empty tr sw keep boom touch fuel) (retainBody g) { m with locals := ("i", .nat i) :: m.locals }).bind fun _ m =>
    .ok () { m with locals := m.locals.drop 1 }

theorem retain_loop_w (hsw : SwOk sw) (hg : g = "get" ∨ g = "get_mut") (F : Nat) :
    ∀ (fuel i del : Nat) (c : Cols) (m : Mach), c.lock n → i + fuel = n → del ≤ i → m.self = c →
      m.locals = baseLocals n del → m.calls = i → m.movedPs = [] →
      LoopRes n (Model.retainLoop keep boom touch fuel i del c m.vis m.ev m.made)
        (forRange (retIterW dr empty tr sw keep boom touch g F) i fuel m)
  | 0, i, del, c, m, hc, hi, hd, hm, hl, hcalls, hmv => by
    simp only [Model.retainLoop, forRange, LoopRes, Bool.false_eq_true, ↓reduceIte]
    exact ⟨m, rfl, hm, hl, rfl, rfl, rfl, hmv⟩
  | fuel + 1, i, del, c, m, hc, hi, hd, hm, hl, hcalls, hmv => by
    have hin : i < n := by omega
    have hfl := firstLen_lock c n hc
    have hMlen : ∀ b, (retEnvW dr empty tr sw keep b touch F).M.len = Cols.firstLen := fun _ => rfl
    have hMswap : ∀ b, (retEnvW dr empty tr sw keep b touch F).M.swap = sw := fun _ => rfl
    have hdrE : ∀ b, (retEnvW dr empty tr sw keep b touch F).dr = dr := fun _ => rfl
    have hget : (if i < c.firstLen then some i else none) = some i := by simp [hfl, hin]
    -- both sides apply the callback's write first
    obtain ⟨c1, ev1, made1, ht⟩ : ∃ c1 ev1 made1, touched touch c m.ev m.made i = (c1, ev1, made1) := ⟨_, _, _, rfl⟩
    have hc1 : c1.lock n := by have := touched_lock touch n c m.ev m.made i hc; rwa [ht] at this
    have hfl1 := firstLen_lock c1 n hc1
    rw [retainLoop_succ, ht]
    simp only [forRange]
    -- the interpreter's callback call, with the same write
    have hcall : ∀ (b : Option Nat) (mc : Mach), mc.self = c → mc.ev = m.ev → mc.made = m.made → mc.calls = i → mc.vis = m.vis →
        callClosure (retEnvW dr empty tr sw keep b touch F) (.eref i) mc =
          (if b = some i then
            Res.panic { mc with self := c1, ev := ev1, made := made1, vis := m.vis ++ [Model.rowAt c i], calls := i + 1 }
           else Res.ok (.bool (keep i)) { mc with self := c1, ev := ev1, made := made1, vis := m.vis ++ [Model.rowAt c i], calls := i + 1 }) := by
      intro b mc h1 h2 h3 h4 h5
      have : touched touch c m.ev m.made i = (c1, ev1, made1) := ht
      unfold touched at this
      simp only [callClosure, retEnvW, h1, h2, h3, h4, h5]
      cases htt : touch i i with
      | none => simp only [htt] at this; obtain ⟨rfl, rfl, rfl⟩ := this; rfl
      | some p => obtain ⟨l, id⟩ := p; simp only [htt] at this; obtain ⟨rfl, rfl, rfl⟩ := this; rfl
    by_cases hb : boom = some i
    · simp only [hb, ↓reduceIte, LoopRes]
      rcases hg with rfl | rfl <;>
      · simp [retIterW, retainBody, execList, exec, eval, evalList, lookup, hl, baseLocals, callOther, hMlen, hMswap, hdrE, hm,
          hget, hcall, hcalls, hb, hmv]
    · by_cases hk : keep i
      · by_cases hdz : del > 0
        · cases perField0 (swapOp (i - del) i) c1 n hc1 with
          | ok s hrun _ hpn hst _ hlk _ hsm _ =>
            rw [rows_noArgs c1 n hc1] at hrun
            have hlen := rows_len n c1 hc1
            have hlt : i - del < n := by omega
            simp only [swapOp, PolyOp.ofTotal_run, hlen, hlt, hin, decide_true, List.length_nil, BEq.rfl,
              Bool.and_self, ↓reduceIte, Option.some.injEq] at hrun
            subst hrun
            simp only at hst
            have hlk' := lock_of_rows_len hlk (k := n) (by rw [hst]; simp [hlen])
            have ih := retain_loop_w hsw hg F fuel (i + 1) del (c1.apply2 (swapOp (i - del) i) (Model.noArgs c1)).st
              { m with self := (c1.apply2 (swapOp (i - del) i) (Model.noArgs c1)).st, ev := ev1, made := made1,
                       vis := m.vis ++ [Model.rowAt c i], calls := i + 1 } hlk' (by omega) (by omega) rfl hl rfl hmv
            simp only [hb, hk, hdz, ↓reduceIte, Bool.not_true, Bool.false_eq_true]
            have hsub : del ≤ i := hd
            have hswc := hsw c1 n (i - del) i hc1 hlt hin
            rcases hg with rfl | rfl <;>
            · simp [retIterW, retainBody, execList, exec, eval, evalList, lookup, hl, baseLocals, callOther, hMlen, hMswap, hdrE,
                hm, hget, hcall, hcalls, hb, hk, hdz, arith, hsub, afterSelf, hpn, dropV, Model.noArgs, hswc, modelSwap, hfl1] at ih ⊢
              exact ih
          | fail _ hfail _ _ _ =>
            have hlt : i - del < n := by omega
            simp [swapOp, hlt, hin] at hfail
        · have ih := retain_loop_w hsw hg F fuel (i + 1) del c1
            { m with self := c1, ev := ev1, made := made1, vis := m.vis ++ [Model.rowAt c i], calls := i + 1 } hc1 (by omega) (by omega) rfl hl rfl hmv
          simp only [hb, hk, hdz, ↓reduceIte, Bool.not_true, Bool.false_eq_true]
          rcases hg with rfl | rfl <;>
          · simp [retIterW, retainBody, execList, exec, eval, evalList, lookup, hl, baseLocals, callOther, hMlen, hMswap, hdrE,
              hm, hget, hcall, hcalls, hb, hk, hdz, arith] at ih ⊢
            exact ih
      · have ih := retain_loop_w hsw hg F fuel (i + 1) (del + 1) c1
          { m with self := c1, ev := ev1, made := made1, vis := m.vis ++ [Model.rowAt c i], calls := i + 1, locals := baseLocals n (del + 1) }
          hc1 (by omega) (by omega) rfl rfl rfl hmv
        simp only [hb, hk, ↓reduceIte, Bool.not_false]
        rcases hg with rfl | rfl <;>
        · simp [retIterW, retainBody, execList, exec, eval, evalList, lookup, hl, baseLocals, callOther, hMlen, hMswap, hdrE,
            hm, hget, hcall, hcalls, hb, hk, arith, setLocal] at ih ⊢
          exact ih

end retainw

/-- **`retain`** and **`retain_mut`** as extracted = `Model.retain`, for a callback that writes to the element it is shown
    (`touch`).  `retain`'s callback gets `&T` and cannot write; the statement covers both uniformly. -/
theorem retain_tie_w (dr : Bool) (empty c : Cols) (tr : Cols → Nat → Out) (sw : Cols → Nat → Nat → Out) (htrOk : TrOk dr tr)
    (hsw : SwOk sw) (keep : Nat → Bool) (boom : Option Nat) (touch : Nat → Nat → Option (Nat × Nat)) (n fuel : Nat) (hc : c.lock n) :
    run { dr := dr, ps := [], keep := keep, boom := boom, touch := touch, M := methodsWith empty tr sw, fuel := fuel }
      lp_PVec_retain c = some (Model.retain dr c keep boom touch) ∧
    run { dr := dr, ps := [], keep := keep, boom := boom, touch := touch, M := methodsWith empty tr sw, fuel := fuel }
      lp_PVec_retain_mut c = some (Model.retain dr c keep boom touch) := by
  have hfl := firstLen_lock c n hc
  have key : ∀ g, g = "get" ∨ g = "get_mut" →
      outOf (execList (retEnvW dr empty tr sw keep boom touch fuel) (retainStmts g) { self := c }) =
        some (Model.retain dr c keep boom touch) := by
    intro g hg
    have hloop := retain_loop_w dr empty tr sw keep boom touch g n hsw hg fuel n 0 0 c
      { self := c, locals := baseLocals n 0 } hc (by omega) (by omega) rfl rfl rfl rfl
    have hdel := retainLoopW_del_le keep boom touch n 0 0 c [] {} [] (by omega)
    have hrl : (Model.retainLoop keep boom touch n 0 0 c [] {} []).c.lock n :=
      retainLoopW_lock keep boom touch n n 0 0 c [] {} [] hc (by omega) (by omega)
    have hM : (retEnvW dr empty tr sw keep boom touch fuel).M = methodsWith empty tr sw := rfl
    have hlen : (methodsWith empty tr sw).len = Cols.firstLen := rfl
    have htr : (methodsWith empty tr sw).truncate = tr := rfl
    simp only [retainStmts, execList, exec, eval, evalList, callSelf, hM, hlen, htr, Res.bind_ok, lookup,
      String.reduceEq, ↓reduceIte, List.length_cons, List.length_nil, hfl, Nat.sub_zero]
    simp only [Model.retain, hfl]
    generalize Model.retainLoop keep boom touch n 0 0 c [] {} [] = r at hloop hdel hrl ⊢
    unfold LoopRes at hloop
    simp only [baseLocals] at hloop
    unfold retIterW at hloop
    by_cases hb : r.boom = true
    · rw [if_pos hb] at hloop
      obtain ⟨m', hres, h1, h2, h3, h4, h5⟩ := hloop
      rw [hres]
      simp [hb, outOf, h1, h2, h3, h4]
    · rw [if_neg hb] at hloop
      obtain ⟨m', hres, h1, hl, h2, h3, h4, h5⟩ := hloop
      have hb' : r.boom = false := by simpa using hb
      rw [hres]
      by_cases hd : r.del > 0
      · obtain ⟨tst, tpan, tev, hs⟩ : ∃ a b e, Model.truncate dr r.c (n - r.del) = { st := a, panicked := b, ev := e } :=
          ⟨_, _, _, truncate_shape dr r.c (n - r.del)⟩
        have hle : r.del ≤ n := by omega
        have htrr := htrOk r.c n (n - r.del) hrl
        simp [hb', hl, lookup, arith, hd, hle, eval, evalList, callSelf, afterSelf, h1, execList, exec, dropV, hM, htr, htrr, hs]
        cases tpan <;> simp [outOf, h2, h3, h4]
      · simp [hb', hl, lookup, arith, hd, eval, evalList, execList, exec, outOf, h1, h2, h3, h4]
  constructor
  · rw [run_unit _ _ _ retain_stmts.2.2.1 (by intro m; simp [leftovers, leftovers.go]), retain_stmts.1]
    exact key "get" (Or.inl rfl)
  · rw [run_unit _ _ _ retain_stmts.2.2.2 (by intro m; simp [leftovers, leftovers.go]), retain_stmts.2.1]
    exact key "get_mut" (Or.inr rfl)

end Soa.Lp
