import Soa.Model.SkelIter
import Soa.Lemmas.SkelRead.C06
import Soa.Lemmas.SkelRead.C05
/-!
# Iterators: the extracted zip chains step every field alike

On a view whose fields all cover the window `w`, the iterator built by the extracted
`iter` / `iter_mut` / `into_iter` has one component per leaf over `w`; the extracted `next` /
`next_back` yield the position `View.next` / `View.nextBack` yields, in every field, and leave
every component with the same remaining window; `len` / `size_hint` report the number of
positions not yet yielded.  For every well-formed shape.
-/
set_option linter.unusedSimpArgs false
namespace Soa.Sk
open Soa View Soa.Extracted Soa.Sk.Expected

theorem flat'_uniform (a : LV) : ∀ sh : Shape, sh.wf →
    (∀ v ∈ zipLen.VT.flat' (VT.uniform a sh), v = a) ∧ zipLen.VT.flat' (VT.uniform a sh) ≠ []
  | .leaf _, _ => by simp [VT.uniform, zipLen.VT.flat']
  | .nest fs, h => by
    rw [Shape.wf_nest] at h
    simp only [VT.uniform, zipLen.VT.flat']
    refine ⟨go fs h.2, ?_⟩
    cases fs with
    | nil => exact absurd rfl h.1
    | cons f fs =>
      simp only [VT.uniform.uniformL, zipLen.flatL']
      intro hh
      exact (flat'_uniform a f (h.2 f (by simp))).2 (List.append_eq_nil_iff.mp hh).1
where go : ∀ fs : List Shape, (∀ f ∈ fs, f.wf) → ∀ v ∈ zipLen.flatL' (VT.uniform.uniformL a fs), v = a
  | [], _ => by simp [VT.uniform.uniformL, zipLen.flatL']
  | f :: fs, h => by
    intro v hv
    simp only [VT.uniform.uniformL, zipLen.flatL', List.mem_append] at hv
    rcases hv with hv | hv
    · exact (flat'_uniform a f (h f (by simp))).1 v hv
    · exact go fs (fun x hx => h x (by simp [hx])) v hv

theorem foldl_min_const (n : Nat) : ∀ l : List Nat, (∀ x ∈ l, x = n) → l.foldl min n = n
  | [], _ => rfl
  | x :: xs, h => by
    have hx : x = n := h x (by simp)
    subst hx
    simp only [List.foldl_cons, Nat.min_self]
    exact foldl_min_const x xs (fun y hy => h y (by simp [hy]))

theorem zipLen_uniform (w : Win) (sh : Shape) (hw : sh.wf) : zipLen (VT.uniform (.win w) sh) = w.l := by
  obtain ⟨hall, hne⟩ := flat'_uniform (.win w) sh hw
  unfold zipLen
  cases hl : zipLen.VT.flat' (VT.uniform (.win w) sh) with
  | nil => exact absurd hl hne
  | cons v vs =>
    rw [hl] at hall
    have hv : v = .win w := hall v (by simp)
    subst hv
    simp only [zipLen.lenOf]
    apply foldl_min_const
    intro x hx
    simp only [List.mem_map] at hx
    obtain ⟨y, hy, rfl⟩ := hx
    rw [hall y (by simp [hy])]; rfl

section uniform
variable (sh : Shape) (hw : sh.wf)
include hw

/-- every way of creating an iterator from a view: one component per leaf, over the view's window -/
theorem iter_new_tie (w : Win) :
    runIterNew sk_PSlice_a_iter (VT.uniform (.win w) sh) = .ok (VT.uniform (.win w) sh) ∧
    runIterNew sk_PSlice_a_into_iter (VT.uniform (.win w) sh) = .ok (VT.uniform (.win w) sh) ∧
    runIterNew sk_PSlice_a_IntoIterator_into_iter (VT.uniform (.win w) sh) = .ok (VT.uniform (.win w) sh) ∧
    runIterNew sk_aPSlice_b_IntoIterator_into_iter (VT.uniform (.win w) sh) = .ok (VT.uniform (.win w) sh) ∧
    runIterNew sk_PSliceMut_a_iter_mut (VT.uniform (.win w) sh) = .ok (VT.uniform (.win w) sh) ∧
    runIterNew sk_PSliceMut_a_into_iter (VT.uniform (.win w) sh) = .ok (VT.uniform (.win w) sh) ∧
    runIterNew sk_PSliceMut_a_IntoIterator_into_iter (VT.uniform (.win w) sh) = .ok (VT.uniform (.win w) sh) := by
  have n1 : sk_PSlice_a_iter.name = "iter" := by decide
  have n2 : sk_PSlice_a_into_iter.name = "into_iter" := by decide
  have n3 : sk_PSlice_a_IntoIterator_into_iter.name = "into_iter" := by decide
  have n4 : sk_aPSlice_b_IntoIterator_into_iter.name = "into_iter" := by decide
  have n5 : sk_PSliceMut_a_iter_mut.name = "iter_mut" := by decide
  have n6 : sk_PSliceMut_a_into_iter.name = "into_iter" := by decide
  have n7 : sk_PSliceMut_a_IntoIterator_into_iter.name = "into_iter" := by decide
  simp [runIterNew, n1, n2, n3, n4, n5, n6, n7, mapR_uniform _ _ _ hw, R.map, R.bind,
    read_PSlice_a_iter, exp_PSlice_a_iter, read_PSlice_a_into_iter, exp_PSlice_a_into_iter,
    read_PSlice_a_IntoIterator_into_iter, exp_PSlice_a_IntoIterator_into_iter,
    read_aPSlice_b_IntoIterator_into_iter, exp_aPSlice_b_IntoIterator_into_iter,
    read_PSliceMut_a_iter_mut, exp_PSliceMut_a_iter_mut, read_PSliceMut_a_into_iter, exp_PSliceMut_a_into_iter,
    read_PSliceMut_a_IntoIterator_into_iter, exp_PSliceMut_a_IntoIterator_into_iter]

/-- `next()` of both iterator types is `View.next` in every field -/
theorem next_tie (w : Win) :
    runIterStep sk_PIter_a_Iterator_next (VT.uniform (.win w) sh) =
      .ok ((View.next w).1.map (fun p => VT.uniform (.pos p) sh), VT.uniform (.win (View.next w).2) sh) ∧
    runIterStep sk_PIterMut_a_Iterator_next (VT.uniform (.win w) sh) =
      .ok ((View.next w).1.map (fun p => VT.uniform (.pos p) sh), VT.uniform (.win (View.next w).2) sh) := by
  have n1 : sk_PIter_a_Iterator_next.name = "next" := by decide
  have n2 : sk_PIterMut_a_Iterator_next.name = "next" := by decide
  have hz := zipLen_uniform w sh hw
  unfold View.next
  by_cases h0 : w.l = 0
  · simp [runIterStep, n1, n2, hz, h0, read_PIter_a_Iterator_next, exp_PIter_a_Iterator_next,
      read_PIterMut_a_Iterator_next, exp_PIterMut_a_Iterator_next]
  · simp [runIterStep, n1, n2, hz, h0, mapR_uniform _ _ _ hw, R.map, R.bind, read_PIter_a_Iterator_next, exp_PIter_a_Iterator_next,
      read_PIterMut_a_Iterator_next, exp_PIterMut_a_Iterator_next]

/-- `next_back()` of both iterator types is `View.nextBack` in every field -/
theorem next_back_tie (w : Win) :
    runIterStep sk_PIter_a_DoubleEndedIterator_next_back (VT.uniform (.win w) sh) =
      .ok ((View.nextBack w).1.map (fun p => VT.uniform (.pos p) sh), VT.uniform (.win (View.nextBack w).2) sh) ∧
    runIterStep sk_PIterMut_a_DoubleEndedIterator_next_back (VT.uniform (.win w) sh) =
      .ok ((View.nextBack w).1.map (fun p => VT.uniform (.pos p) sh), VT.uniform (.win (View.nextBack w).2) sh) := by
  have n1 : sk_PIter_a_DoubleEndedIterator_next_back.name = "next_back" := by decide
  have n2 : sk_PIterMut_a_DoubleEndedIterator_next_back.name = "next_back" := by decide
  have hz := zipLen_uniform w sh hw
  unfold View.nextBack
  by_cases h0 : w.l = 0
  · simp [runIterStep, n1, n2, hz, h0, read_PIter_a_DoubleEndedIterator_next_back, exp_PIter_a_DoubleEndedIterator_next_back,
      read_PIterMut_a_DoubleEndedIterator_next_back, exp_PIterMut_a_DoubleEndedIterator_next_back]
  · simp [runIterStep, n1, n2, hz, h0, mapR_uniform _ _ _ hw, R.map, R.bind,
      read_PIter_a_DoubleEndedIterator_next_back, exp_PIter_a_DoubleEndedIterator_next_back,
      read_PIterMut_a_DoubleEndedIterator_next_back, exp_PIterMut_a_DoubleEndedIterator_next_back]

/-- `len()` and `size_hint()` of both iterator types: the positions not yet yielded -/
theorem iter_len_tie (w : Win) :
    runIterLen sk_PIter_a_ExactSizeIterator_len (VT.uniform (.win w) sh) = some w.l ∧
    runIterLen sk_PIter_a_Iterator_size_hint (VT.uniform (.win w) sh) = some w.l ∧
    runIterLen sk_PIterMut_a_ExactSizeIterator_len (VT.uniform (.win w) sh) = some w.l ∧
    runIterLen sk_PIterMut_a_Iterator_size_hint (VT.uniform (.win w) sh) = some w.l := by
  have h1 : isIterLen sk_PIter_a_ExactSizeIterator_len = true := by decide
  have h2 : isIterLen sk_PIter_a_Iterator_size_hint = true := by decide
  have h3 : isIterLen sk_PIterMut_a_ExactSizeIterator_len = true := by decide
  have h4 : isIterLen sk_PIterMut_a_Iterator_size_hint = true := by decide
  simp [runIterLen, h1, h2, h3, h4, zipLen_uniform w sh hw]

end uniform

/-- the vector's and the mutable view's iterator entry points delegate to the view's -/
theorem delegations :
    isDelegation sk_PVec_iter "as_slice" "into_iter" = true ∧
    isDelegation sk_PVec_iter_mut "as_mut_slice" "into_iter" = true ∧
    isDelegation sk_aPVec_IntoIterator_into_iter "as_slice" "into_iter" = true ∧
    isDelegation sk_amutPVec_IntoIterator_into_iter "as_mut_slice" "into_iter" = true ∧
    isDelegation sk_PSliceMut_a_iter "as_ref" "into_iter" = true := by decide

end Soa.Sk

namespace Soa.Sk
open Soa View Soa.Extracted Soa.Sk.Expected

/-- **composition**: `vec.iter()` / `for x in &vec` are `self.as_slice().into_iter()`, `vec.iter_mut()` / `for x in &mut vec`
    are `self.as_mut_slice().into_iter()` (`delegations`): running the two extracted functions one after the other on a
    vector whose field arrays all have length `n` gives an iterator with one component per leaf over the whole array -/
theorem vec_iter_composed (sh : Shape) (hw : sh.wf) (n : Nat) :
    (match runView sk_PVec_as_slice (VT.uniform (.len n) sh) [] with
     | .ok (.one s) => runIterNew sk_PSlice_a_into_iter s
     | _ => .stuck) = .ok (VT.uniform (.win ⟨0, n⟩) sh) ∧
    (match runView sk_PVec_as_mut_slice (VT.uniform (.len n) sh) [] with
     | .ok (.one s) => runIterNew sk_PSliceMut_a_into_iter s
     | _ => .stuck) = .ok (VT.uniform (.win ⟨0, n⟩) sh) := by
  have h1 : runView sk_PVec_as_slice (VT.uniform (.len n) sh) [] = .ok (.one (VT.uniform (.win ⟨0, n⟩) sh)) := by
    have hn : sk_PVec_as_slice.name = "as_slice" := by decide
    simp [runView, Soa.Sk.read_PVec_as_slice, exp_PVec_as_slice, hn, runViewSk, itemExpr, nestOkView, subject,
      mapR_uniform _ _ _ hw, viewLeaf, R.bind, R.map]
  have h2 : runView sk_PVec_as_mut_slice (VT.uniform (.len n) sh) [] = .ok (.one (VT.uniform (.win ⟨0, n⟩) sh)) := by
    have hn : sk_PVec_as_mut_slice.name = "as_mut_slice" := by decide
    simp [runView, Soa.Sk.read_PVec_as_mut_slice, exp_PVec_as_mut_slice, hn, runViewSk, itemExpr, nestOkView, subject,
      mapR_uniform _ _ _ hw, viewLeaf, R.bind, R.map]
  have hi := iter_new_tie sh hw ⟨0, n⟩
  rw [h1, h2]
  exact ⟨hi.2.1, hi.2.2.2.2.2.1⟩

end Soa.Sk
