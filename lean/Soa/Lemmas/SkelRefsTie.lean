import Soa.Model.SkelRefs
import Soa.Lemmas.SkelRead.C15
import Soa.Lemmas.SkelRead.C05
import Soa.Lemmas.SkelRead.C07
import Soa.Lemmas.SkelRead.C01
import Soa.Lemmas.PerField
/-!
# Element references, `swap`, permutation application and `len()`: extracted = hand model
-/
set_option linter.unusedSimpArgs false
namespace Soa.Sk
open Soa View Soa.Model Soa.Extracted Soa.Sk.Expected

/-- `to_owned()` of a shared and of a mutable element reference (and therefore the four `From` impls, whose body
    is `value.to_owned()`): every leaf at the referenced position is cloned once, in declaration order -/
theorem to_owned_tie (c : Cols) (p : Nat) :
    runToOwned sk_PRef_a_to_owned sk_P_From_PRef_a_from false c p = some (rowIds c p, { clones := rowIds c p }) ∧
    runToOwned sk_PRefMut_a_to_owned sk_P_From_aPRefMut_a_from true c p = some (rowIds c p, { clones := rowIds c p }) := by
  have h1 : sk_PRef_a_to_owned.name = "to_owned" := by decide
  have h2 : sk_PRefMut_a_to_owned.name = "to_owned" := by decide
  have f1 : isFromImpl sk_P_From_PRef_a_from = true := by decide
  have f2 : isFromImpl sk_P_From_aPRefMut_a_from = true := by decide
  simp [runToOwned, read_PRef_a_to_owned, exp_PRef_a_to_owned, read_PRefMut_a_to_owned, exp_PRefMut_a_to_owned,
    h1, h2, f1, f2, isFromNested]

/-- the four `From` impls are `value.to_owned()` -/
theorem from_impls : isFromImpl sk_P_From_PRef_a_from = true ∧ isFromImpl sk_P_From_aPRef_a_from = true ∧
    isFromImpl sk_P_From_PRefMut_a_from = true ∧ isFromImpl sk_P_From_aPRefMut_a_from = true := by decide

/-- `RefMut::replace` at a live element is `Model.replace` without its guard: the value lands in exactly that
    element, the old element is returned, nothing is destroyed -/
theorem ref_replace_tie (dr : Bool) {c e : Cols} {n : Nat} (p : Nat) (hc : c.lock n) (he : e.lock 1) (hs : c.same e) (hp : p < n) :
    runRefReplace dr sk_PRefMut_a_replace c p e = some (Model.replace dr c p e) := by
  have h1 : sk_PRefMut_a_replace.name = "replace" := by decide
  have hfl := firstLen_lock c n hc
  have hg : ¬ p ≥ n := by omega
  cases perField (replaceOp p) c e n 1 hc he hs with
  | ok s _ _ hpn _ _ _ _ _ _ =>
    simp [runRefReplace, read_PRefMut_a_replace, exp_PRefMut_a_replace, h1, hpn, hfl, hg, moveInEv, Model.replace]
  | fail _ hfail _ _ _ => simp [replaceOp] at hfail; omega

/-- `value.as_ref()` / `value.as_mut()`: a reference to every field of the value -/
theorem value_as_ref_tie (sh : Shape) (hw : sh.wf) (p : Int) :
    runView sk_P_as_ref (VT.uniform (.pos p) sh) [] = .ok (.one (VT.uniform (.pos p) sh)) ∧
    runView sk_P_as_mut (VT.uniform (.pos p) sh) [] = .ok (.one (VT.uniform (.pos p) sh)) := by
  have h1 : sk_P_as_ref.name = "as_ref" := by decide
  have h2 : sk_P_as_mut.name = "as_mut" := by decide
  refine ⟨?_, ?_⟩
  · simp only [runView, read_P_as_ref, exp_P_as_ref, h1, runViewSk, itemExpr, nestOkView, subject]
    simp [mapR_uniform _ _ _ hw, viewLeaf, R.bind, R.map]
  · simp only [runView, read_P_as_mut, exp_P_as_mut, h2, runViewSk, itemExpr, nestOkView, subject]
    simp [mapR_uniform _ _ _ hw, viewLeaf, R.bind, R.map]

/-- `slice.swap(a, b)` on the window `w`: every field swaps the parent positions `w.s+a`, `w.s+b`; out of range panics
    before anything is touched -/
theorem swap_tie (c : Cols) (w : Win) (a b : Nat) :
    runSwap sk_PSliceMut_a_swap c w a b =
      some (if a < w.l ∧ b < w.l then
              { st := (c.apply2 (swapOp (w.s + a) (w.s + b)) (noArgs c)).st,
                panicked := (c.apply2 (swapOp (w.s + a) (w.s + b)) (noArgs c)).panicked }
            else { st := c, panicked := true }) := by
  have h1 : sk_PSliceMut_a_swap.name = "swap" := by decide
  by_cases h : a < w.l ∧ b < w.l <;> simp [runSwap, read_PSliceMut_a_swap, exp_PSliceMut_a_swap, h1, h]

theorem apply_permutation_tie (c : Cols) (w : Win) (ps : List Nat) :
    runApplyPermutation sk_PSliceMut_a_private_apply_permutation c w ps = some (gatherWin c w ps) := by
  have h1 : sk_PSliceMut_a_private_apply_permutation.name = "__private_apply_permutation" := by decide
  simp [runApplyPermutation, read_PSliceMut_a_private_apply_permutation, exp_PSliceMut_a_private_apply_permutation, h1]

/-! ## `len()` -/

/-- every struct has at least one field -/
def Cols.wfc : Cols → Prop
  | .leaf _ => True
  | .nest fs => fs ≠ [] ∧ ∀ f ∈ fs, Cols.wfc f

theorem leaves_ne_nil_wfc : ∀ c : Cols, Cols.wfc c → c.leaves ≠ []
  | .leaf _, _ => by simp [Cols.leaves]
  | .nest fs, h => by
    simp only [Cols.wfc] at h
    cases fs with
    | nil => exact absurd rfl h.1
    | cons f fs =>
      simp only [Cols.leaves, Cols.leaves.leavesL]
      intro hh
      exact leaves_ne_nil_wfc f (h.2 f (by simp)) (List.append_eq_nil_iff.mp hh).1

theorem firstLen_cons (f : Cols) (fs : List Cols) (h : Cols.wfc f) : (Cols.nest (f :: fs)).firstLen = f.firstLen := by
  have := leaves_ne_nil_wfc f h
  unfold Cols.firstLen
  simp only [Cols.leaves, Cols.leaves.leavesL]
  cases hl : f.leaves with
  | nil => exact absurd hl this
  | cons l ls => simp

theorem lenTree_release : ∀ c : Cols, Cols.wfc c → lenTree .release c = some c.firstLen
  | .leaf xs, _ => by simp [lenTree, Cols.firstLen, Cols.leaves]
  | .nest fs, h => by
    simp only [Cols.wfc] at h
    cases fs with
    | nil => exact absurd rfl h.1
    | cons f fs =>
      simp only [lenTree]
      rw [lenTree_release f (h.2 f (by simp)), firstLen_cons f fs (h.2 f (by simp))]

/-- debug: an answer `n` means every leaf array has length `n` -/
theorem lenTree_debug_some : ∀ (c : Cols) (n : Nat), Cols.wfc c → lenTree .debug c = some n →
    (∀ l ∈ c.leaves, l.length = n)
  | .leaf xs, n, _, h => by
    simp only [lenTree, Option.some.injEq] at h
    intro l hl; simp [Cols.leaves] at hl; subst hl; exact h
  | .nest fs, n, hw, h => by
    simp only [Cols.wfc] at hw
    simp only [lenTree] at h
    cases hl : lenTree.lensL fs with
    | none => simp [hl] at h
    | some ls =>
      rw [hl] at h
      cases ls with
      | nil =>
        -- impossible: fs ≠ []
        cases fs with
        | nil => exact absurd rfl hw.1
        | cons f fs => simp only [lenTree.lensL] at hl; split at hl <;> simp at hl
      | cons x xs =>
        simp only at h
        split at h
        · rename_i hall
          simp only [Option.some.injEq] at h
          subst h
          simp only [Cols.leaves]
          exact go fs (x :: xs) x hw.2 hl (by simpa using hall)
        · simp at h
where go : ∀ (fs : List Cols) (ls : List Nat) (n : Nat), (∀ f ∈ fs, Cols.wfc f) → lenTree.lensL fs = some ls →
    (∀ y ∈ ls, y = n) → ∀ l ∈ Cols.leaves.leavesL fs, l.length = n
  | [], _, _, _, _, _ => by simp [Cols.leaves.leavesL]
  | f :: fs, ls, n, hw, hl, hall => by
    simp only [lenTree.lensL] at hl
    cases hf : lenTree .debug f with
    | none => simp [hf] at hl
    | some x =>
      cases hr : lenTree.lensL fs with
      | none => simp [hf, hr] at hl
      | some xs =>
        simp only [hf, hr, Option.some.injEq] at hl
        subst hl
        have hx : x = n := hall x (by simp)
        subst hx
        intro l hlm
        simp only [Cols.leaves.leavesL, List.mem_append] at hlm
        rcases hlm with hlm | hlm
        · exact lenTree_debug_some f x (hw f (by simp)) hf l hlm
        · exact go fs xs x (fun g hg => hw g (by simp [hg])) hr (fun y hy => hall y (by simp [hy])) l hlm

/-- debug: if every leaf array has length `n`, the answer is `n` -/
theorem lenTree_debug_all : ∀ (c : Cols) (n : Nat), Cols.wfc c → (∀ l ∈ c.leaves, l.length = n) → lenTree .debug c = some n
  | .leaf xs, n, _, h => by simp [lenTree, h xs (by simp [Cols.leaves])]
  | .nest fs, n, hw, h => by
    simp only [Cols.wfc] at hw
    simp only [Cols.leaves] at h
    have hl := go fs n hw.2 h
    cases fs with
    | nil => exact absurd rfl hw.1
    | cons f fs =>
      simp only [lenTree, hl, List.replicate_succ, List.length_cons]
      simp
where go : ∀ (fs : List Cols) (n : Nat), (∀ f ∈ fs, Cols.wfc f) → (∀ l ∈ Cols.leaves.leavesL fs, l.length = n) →
    lenTree.lensL fs = some (List.replicate fs.length n)
  | [], _, _, _ => rfl
  | f :: fs, n, hw, h => by
    have h1 := lenTree_debug_all f n (hw f (by simp)) (fun l hl => h l (by simp [Cols.leaves.leavesL, hl]))
    have h2 := go fs n (fun g hg => hw g (by simp [hg])) (fun l hl => h l (by simp [Cols.leaves.leavesL, hl]))
    simp [lenTree.lensL, h1, h2, List.replicate_succ]

/-- the extracted `len()` is the model's `len`: the first field's length; a debug build panics exactly when
    some leaf array (at any nesting depth) has another length -/
theorem lenTree_eq (p : Prof) (c : Cols) (hw : Cols.wfc c) : lenTree p c = Model.len p c := by
  cases p with
  | release => simp [Model.len, lenTree_release c hw]
  | debug =>
    simp only [Model.len]
    by_cases hall : c.leaves.all (fun l => l.length == c.firstLen) = true
    · rw [if_pos hall]
      exact lenTree_debug_all c _ hw (by simpa using hall)
    · rw [if_neg hall]
      cases h : lenTree .debug c with
      | none => rfl
      | some n =>
        exfalso
        apply hall
        have hn := lenTree_debug_some c n hw h
        have hne := leaves_ne_nil_wfc c hw
        have hf : c.firstLen = n := by
          unfold Cols.firstLen
          cases hl : c.leaves with
          | nil => exact absurd hl hne
          | cons l ls => simpa using hn l (by simp [hl])
        simp only [List.all_eq_true, beq_iff_eq]
        intro l hl; rw [hf]; exact hn l hl

theorem len_tie (p : Prof) (c : Cols) (hw : Cols.wfc c) :
    runLen sk_PVec_len p c = some (Model.len p c) ∧
    runLen sk_PSlice_a_len p c = some (Model.len p c) ∧
    runLen sk_PSliceMut_a_len p c = some (Model.len p c) := by
  have h1 : isLenFn sk_PVec_len "len" = true := by decide
  have h2 : isLenFn sk_PSlice_a_len "len" = true := by decide
  have h3 : isLenFn sk_PSliceMut_a_len "len" = true := by decide
  simp [runLen, h1, h2, h3, lenTree_eq p c hw]

/-- `is_empty()` has the same form with `is_empty` in place of `len` -/
theorem is_empty_form : isLenFn sk_PVec_is_empty "is_empty" = true ∧ isLenFn sk_PSlice_a_is_empty "is_empty" = true ∧
    isLenFn sk_PSliceMut_a_is_empty "is_empty" = true := by decide

end Soa.Sk
