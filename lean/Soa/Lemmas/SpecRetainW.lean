import Soa.Spec.Vec
import Soa.Lemmas.RetainIdxW
import Soa.Lemmas.LoopsW
/-! `Vec::retain_mut` of the specification with a callback that writes (no panic): filtering the written
elements by the answers; the callback is shown the elements as they were -/
namespace Soa.Spec
open Soa.Lp

theorem retainGo_touch (keep : Nat → Bool) (touch : Nat → Nat → Option (Nat × Nat)) :
    ∀ (rs : List Elem) (k : Nat) (acc : LoopOut),
    (retainGo keep none touch k rs acc).kept = acc.kept ++ RetainIdx.filterIdx keep k (RetainIdx.updFrom (updOf touch) k rs) ∧
    (retainGo keep none touch k rs acc).vis = acc.vis ++ rs.map Elem.ids ∧
    (retainGo keep none touch k rs acc).boom = acc.boom ∧
    (retainGo keep none touch k rs acc).rest = acc.rest
  | [], k, acc => by simp [retainGo, RetainIdx.filterIdx, RetainIdx.updFrom]
  | e :: es, k, acc => by
    simp only [retainGo, reduceCtorEq, ↓reduceIte]
    cases ht : touch k k with
    | none =>
      have hu : updOf touch k e = e := by simp [updOf, ht]
      by_cases hk : keep k
      · have ih := retainGo_touch keep touch es (k + 1) { acc with kept := acc.kept ++ [e], vis := acc.vis ++ [e.ids], ev := acc.ev }
        simp [hk, RetainIdx.filterIdx, RetainIdx.updFrom, hu, ih]
      · have ih := retainGo_touch keep touch es (k + 1) { acc with gone := acc.gone ++ [e], vis := acc.vis ++ [e.ids], ev := acc.ev }
        simp [hk, RetainIdx.filterIdx, RetainIdx.updFrom, hu, ih]
    | some p =>
      obtain ⟨l, id⟩ := p
      have hu : updOf touch k e = (setLeafE l id e 0).1 := by simp [updOf, ht]
      by_cases hk : keep k
      · have ih := retainGo_touch keep touch es (k + 1)
          { acc with kept := acc.kept ++ [(setLeafE l id e 0).1], vis := acc.vis ++ [e.ids],
                     ev := acc.ev ++ ({ drops := [e.ids.getD l 0] } : Ev) }
        simp [hk, RetainIdx.filterIdx, RetainIdx.updFrom, hu] at ih ⊢
        exact ih
      · have ih := retainGo_touch keep touch es (k + 1)
          { acc with gone := acc.gone ++ [(setLeafE l id e 0).1], vis := acc.vis ++ [e.ids],
                     ev := acc.ev ++ ({ drops := [e.ids.getD l 0] } : Ev) }
        simp [hk, RetainIdx.filterIdx, RetainIdx.updFrom, hu] at ih ⊢
        exact ih

theorem retain_touch (dr : Bool) (keep : Nat → Bool) (touch : Nat → Nat → Option (Nat × Nat)) (rs : List Elem) :
    (retain dr rs keep none touch).panicked = false ∧
    (retain dr rs keep none touch).st = RetainIdx.filterIdx keep 0 (RetainIdx.updFrom (updOf touch) 0 rs) ∧
    (retain dr rs keep none touch).vis = rs.map Elem.ids ∧
    (retain dr rs keep none touch).ret = none ∧
    (retain dr rs keep none touch).isNone = false := by
  have h := retainGo_touch keep touch rs 0 ⟨[], [], [], false, {}, []⟩
  unfold retain
  simp [h.1, h.2.1, h.2.2.1, h.2.2.2]

theorem retainGo_touch_gone (keep : Nat → Bool) (touch : Nat → Nat → Option (Nat × Nat)) :
    ∀ (rs : List Elem) (k : Nat) (acc : LoopOut),
    (retainGo keep none touch k rs acc).gone =
      acc.gone ++ RetainIdx.filterIdx (fun i => !keep i) k (RetainIdx.updFrom (updOf touch) k rs)
  | [], k, acc => by simp [retainGo, RetainIdx.filterIdx, RetainIdx.updFrom]
  | e :: es, k, acc => by
    simp only [retainGo, reduceCtorEq, ↓reduceIte]
    cases ht : touch k k with
    | none =>
      have hu : updOf touch k e = e := by simp [updOf, ht]
      by_cases hk : keep k
      · have ih := retainGo_touch_gone keep touch es (k + 1) { acc with kept := acc.kept ++ [e], vis := acc.vis ++ [e.ids], ev := acc.ev }
        simp [hk, RetainIdx.filterIdx, RetainIdx.updFrom, hu, ih]
      · have ih := retainGo_touch_gone keep touch es (k + 1) { acc with gone := acc.gone ++ [e], vis := acc.vis ++ [e.ids], ev := acc.ev }
        simp [hk, RetainIdx.filterIdx, RetainIdx.updFrom, hu, ih]
    | some p =>
      obtain ⟨l, id⟩ := p
      have hu : updOf touch k e = (setLeafE l id e 0).1 := by simp [updOf, ht]
      by_cases hk : keep k
      · have ih := retainGo_touch_gone keep touch es (k + 1)
          { acc with kept := acc.kept ++ [(setLeafE l id e 0).1], vis := acc.vis ++ [e.ids],
                     ev := acc.ev ++ ({ drops := [e.ids.getD l 0] } : Ev) }
        simp [hk, RetainIdx.filterIdx, RetainIdx.updFrom, hu] at ih ⊢
        exact ih
      · have ih := retainGo_touch_gone keep touch es (k + 1)
          { acc with gone := acc.gone ++ [(setLeafE l id e 0).1], vis := acc.vis ++ [e.ids],
                     ev := acc.ev ++ ({ drops := [e.ids.getD l 0] } : Ev) }
        simp [hk, RetainIdx.filterIdx, RetainIdx.updFrom, hu] at ih ⊢
        exact ih

/-- the writes of the callback run no struct destructor -/
theorem retainGo_touch_dropT (keep : Nat → Bool) (touch : Nat → Nat → Option (Nat × Nat)) :
    ∀ (rs : List Elem) (k : Nat) (acc : LoopOut), (retainGo keep none touch k rs acc).ev.dropT = acc.ev.dropT
  | [], k, acc => by simp [retainGo]
  | e :: es, k, acc => by
    simp only [retainGo, reduceCtorEq, ↓reduceIte]
    cases ht : touch k k with
    | none => by_cases hk : keep k <;> simp [hk, retainGo_touch_dropT keep touch es]
    | some p =>
      obtain ⟨l, id⟩ := p
      have he : ∀ (a : Ev) (d : List Nat), (a ++ ({ drops := d } : Ev)).dropT = a.dropT := fun a d => by
        show a.dropT ++ [] = a.dropT
        simp
      by_cases hk : keep k <;> simp [hk, retainGo_touch_dropT keep touch es, he]

end Soa.Spec
