import Soa.Lemmas.Delegations
/-! thin generated functions read from their extracted bodies (scope C01) -/
namespace Soa.Lp
open Soa.Extracted

/-- `ToSoAVec::to_vec` of both views is the inherent `to_vec` -/
theorem trait_to_vec :
    isCallOn lp_PSlice_a_soa_derive_ToSoAVec_P_to_vec .self_ "to_vec" = true ∧
    isCallOn lp_PSliceMut_a_soa_derive_ToSoAVec_P_to_vec .self_ "to_vec" = true := by decide


end Soa.Lp
