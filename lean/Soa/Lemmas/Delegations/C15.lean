import Soa.Lemmas.Delegations
/-! thin generated functions read from their extracted bodies (scope C15) -/
namespace Soa.Lp
open Soa.Extracted

/-- the four `From<Ref>` conversions are `to_owned()` of the reference -/
theorem from_conversions :
    isCallOn lp_P_From_PRef_a_from (.param 0) "to_owned" = true ∧ isCallOn lp_P_From_aPRef_a_from (.param 0) "to_owned" = true ∧
    isCallOn lp_P_From_PRefMut_a_from (.param 0) "to_owned" = true ∧
    isCallOn lp_P_From_aPRefMut_a_from (.param 0) "to_owned" = true := by decide


end Soa.Lp
