import Soa.Lemmas.Delegations
/-! thin generated functions read from their extracted bodies (scope C12) -/
namespace Soa.Lp
open Soa.Extracted

/-- `new()` is `Default::default()` -/
theorem new_is_default : lp_PVec_new.stmts.length = 0 ∧
    (match lp_PVec_new.tail with | some (.fcall "Default::default" []) => true | _ => false) = true := by decide

end Soa.Lp
