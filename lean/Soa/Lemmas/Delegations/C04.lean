import Soa.Lemmas.Delegations
/-! thin generated functions read from their extracted bodies (scope C04) -/
namespace Soa.Lp
open Soa.Extracted

/-- the six accessors of the vector are the index value's `SoAIndex` / `SoAIndexMut` methods on the vector -/
theorem vec_accessors :
    isForward lp_PVec_get "get" = true ∧ isForward lp_PVec_get_unchecked "get_unchecked" = true ∧
    isForward lp_PVec_index "index" = true ∧ isForward lp_PVec_get_mut "get_mut" = true ∧
    isForward lp_PVec_get_unchecked_mut "get_unchecked_mut" = true ∧ isForward lp_PVec_index_mut "index_mut" = true := by decide


/-- those of the shared view, on a reborrow of the view -/
theorem slice_accessors :
    isForwardVia lp_PSlice_a_get "reborrow" "get" = true ∧
    isForwardVia lp_PSlice_a_get_unchecked "reborrow" "get_unchecked" = true ∧
    isForwardVia lp_PSlice_a_index "reborrow" "index" = true := by decide


/-- those of the mutable view: the shared ones on `as_slice()`, the mutable ones on a reborrow -/
theorem sliceMut_accessors :
    isForwardVia lp_PSliceMut_a_get "as_slice" "get" = true ∧
    isForwardVia lp_PSliceMut_a_get_unchecked "as_slice" "get_unchecked" = true ∧
    isForwardVia lp_PSliceMut_a_index "as_slice" "index" = true ∧
    isForwardVia lp_PSliceMut_a_get_mut "reborrow" "get_mut" = true ∧
    isForwardVia lp_PSliceMut_a_get_unchecked_mut "reborrow" "get_unchecked_mut" = true ∧
    isForwardVia lp_PSliceMut_a_index_mut "reborrow" "index_mut" = true := by decide


end Soa.Lp
