import Soa.Lemmas.Delegations
/-! thin generated functions read from their extracted bodies (scope C06) -/
namespace Soa.Lp
open Soa.Extracted

/-- `size_hint` and `len` of both iterators are those of the wrapped zip -/
theorem iter_sizes :
    isCallOn lp_PIter_a_Iterator_size_hint (.proj .self_ 0) "size_hint" = true ∧
    isCallOn lp_PIter_a_ExactSizeIterator_len (.proj .self_ 0) "len" = true ∧
    isCallOn lp_PIterMut_a_Iterator_size_hint (.proj .self_ 0) "size_hint" = true ∧
    isCallOn lp_PIterMut_a_ExactSizeIterator_len (.proj .self_ 0) "len" = true := by decide


end Soa.Lp
