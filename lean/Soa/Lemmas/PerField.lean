import Soa.Lemmas.Refine
/-!
# Per-field methods refine the std operation on rows

One statement covering both branches: if the std operation succeeds on the rows, the
per-field application does not panic, yields the transposed results and stays in lockstep;
if it fails, the first field panics and nothing has changed.
-/
namespace Soa

inductive PerFieldSpec (op : PolyOp) (c a : Cols) (n k : Nat) : Prop where
  | ok (s : List Elem × List Elem)
      (hrun : op.run c.rows a.rows = some s)
      (hfail : op.fails n k = false)
      (hp : (c.apply2 op a).panicked = false)
      (hst : (c.apply2 op a).st.rows = s.1)
      (hout : (c.apply2 op a).out.rows = s.2)
      (hlock : (c.apply2 op a).st.lock (op.outLen n k).1)
      (hlockOut : (c.apply2 op a).out.lock (op.outLen n k).2)
      (hsame : c.same (c.apply2 op a).st)
      (hsameOut : c.same (c.apply2 op a).out)
  | fail
      (hrun : op.run c.rows a.rows = none)
      (hfail : op.fails n k = true)
      (hp : (c.apply2 op a).panicked = true)
      (hst : (c.apply2 op a).st = c)
      (hout : (c.apply2 op a).out = a)

theorem perField (op : PolyOp) (c a : Cols) (n k : Nat)
    (hc : c.lock n) (ha : a.lock k) (hs : c.same a) : PerFieldSpec op c a n k := by
  have hrl := rows_len n c hc
  have hal := rows_len k a ha
  have hfi := op.fail_iff c.rows a.rows
  rw [hrl, hal] at hfi
  cases hf : op.fails n k with
  | false =>
    have h := apply2_ok op n k hf c a hc ha hs
    have hl := apply2_lock op n k hf c a hc ha hs
    have hsm := apply2_same op c a hs
    exact .ok _ h.2 hf h.1 rfl rfl hl.1 hl.2 hsm.1 hsm.2
  | true =>
    rw [hf] at hfi
    have h := apply2_fail op n k hf c a hc ha hs
    have hrun : op.run c.rows a.rows = none := by
      cases hr : op.run c.rows a.rows with
      | none => rfl
      | some _ => simp [hr] at hfi
    exact .fail hrun hf h.1 h.2.1 h.2.2

/-- the argument-less form: the argument tree is `c.const []` -/
theorem perField0 (op : PolyOp) (c : Cols) (n : Nat) (hc : c.lock n) :
    PerFieldSpec op c (c.const []) n 0 :=
  perField op c (c.const []) n 0 hc (lock_noArgs c n hc) (same_const [] c)

end Soa
