import Soa.Model.SkelView
import Soa.Lemmas.SkelRead.C10
import Soa.Lemmas.PerField
/-!
# Pointer bundles: the extracted methods are the std raw-pointer method on every component

On a bundle whose components all designate position `p` (with one null flag), every
offsetting method of `ptr.rs` *as extracted from /repo* yields a bundle whose components all
designate `p ± count`; the conversions between views, references and bundles keep the
position; `is_null` is "some component is null" on *any* bundle; a read is a bitwise copy of
the row and a write stores the value in exactly that row without destroying anything.
-/
set_option linter.unusedSimpArgs false
namespace Soa.Sk
open Soa View Soa.Extracted Soa.Sk.Expected

/-- `is_null()` of both bundle types, for every bundle (uniform or not) -/
theorem is_null_tie (t : VT LV) :
    runIsNull sk_PPtr_is_null t = some (t.any isNullLV) ∧ runIsNull sk_PPtrMut_is_null t = some (t.any isNullLV) := by
  have h1 : sk_PPtr_is_null.name = "is_null" := by decide
  have h2 : sk_PPtrMut_is_null.name = "is_null" := by decide
  simp [runIsNull, read_PPtr_is_null, exp_PPtr_is_null, read_PPtrMut_is_null, exp_PPtrMut_is_null, h1, h2]

section uniform
variable (sh : Shape) (hw : sh.wf)
include hw

macro "ptr_run" rd:ident ex:ident nm:term : tactic => `(tactic| (
  have hn := $nm
  simp only [runView, $rd:ident, $ex:ident, hn, runViewSk, itemExpr, nestOkView, subject, isSliceFromRawParts,
    mapR_uniform _ _ _ ‹Shape.wf _›, first_uniform _ _ ‹Shape.wf _›, any_uniform _ _ _ ‹Shape.wf _›, viewLeaf, vNat, vInt,
    isEmptyLV, isNullLV]
  simp [R.bind, R.map]))

/-- `add`, `wrapping_add` (both bundle types): every component moves by `+k` -/
theorem add_tie (p : Int) (nl : Bool) (k : Nat) :
    runView sk_PPtr_add (VT.uniform (.ptr p nl) sh) [.nat k] = .ok (.one (VT.uniform (.ptr (p + k) nl) sh)) ∧
    runView sk_PPtr_wrapping_add (VT.uniform (.ptr p nl) sh) [.nat k] = .ok (.one (VT.uniform (.ptr (p + k) nl) sh)) ∧
    runView sk_PPtrMut_add (VT.uniform (.ptr p nl) sh) [.nat k] = .ok (.one (VT.uniform (.ptr (p + k) nl) sh)) ∧
    runView sk_PPtrMut_wrapping_add (VT.uniform (.ptr p nl) sh) [.nat k] = .ok (.one (VT.uniform (.ptr (p + k) nl) sh)) := by
  refine ⟨?_, ?_, ?_, ?_⟩
  · ptr_run read_PPtr_add exp_PPtr_add (by decide : sk_PPtr_add.name = "add")
  · ptr_run read_PPtr_wrapping_add exp_PPtr_wrapping_add (by decide : sk_PPtr_wrapping_add.name = "wrapping_add")
  · ptr_run read_PPtrMut_add exp_PPtrMut_add (by decide : sk_PPtrMut_add.name = "add")
  · ptr_run read_PPtrMut_wrapping_add exp_PPtrMut_wrapping_add (by decide : sk_PPtrMut_wrapping_add.name = "wrapping_add")

/-- `sub`, `wrapping_sub`: every component moves by `-k` -/
theorem sub_tie (p : Int) (nl : Bool) (k : Nat) :
    runView sk_PPtr_sub (VT.uniform (.ptr p nl) sh) [.nat k] = .ok (.one (VT.uniform (.ptr (p - k) nl) sh)) ∧
    runView sk_PPtr_wrapping_sub (VT.uniform (.ptr p nl) sh) [.nat k] = .ok (.one (VT.uniform (.ptr (p - k) nl) sh)) ∧
    runView sk_PPtrMut_sub (VT.uniform (.ptr p nl) sh) [.nat k] = .ok (.one (VT.uniform (.ptr (p - k) nl) sh)) ∧
    runView sk_PPtrMut_wrapping_sub (VT.uniform (.ptr p nl) sh) [.nat k] = .ok (.one (VT.uniform (.ptr (p - k) nl) sh)) := by
  refine ⟨?_, ?_, ?_, ?_⟩
  · ptr_run read_PPtr_sub exp_PPtr_sub (by decide : sk_PPtr_sub.name = "sub")
  · ptr_run read_PPtr_wrapping_sub exp_PPtr_wrapping_sub (by decide : sk_PPtr_wrapping_sub.name = "wrapping_sub")
  · ptr_run read_PPtrMut_sub exp_PPtrMut_sub (by decide : sk_PPtrMut_sub.name = "sub")
  · ptr_run read_PPtrMut_wrapping_sub exp_PPtrMut_wrapping_sub (by decide : sk_PPtrMut_wrapping_sub.name = "wrapping_sub")

/-- `offset`, `wrapping_offset`: every component moves by the signed count -/
theorem offset_tie (p : Int) (nl : Bool) (k : Int) :
    runView sk_PPtr_offset (VT.uniform (.ptr p nl) sh) [.int k] = .ok (.one (VT.uniform (.ptr (p + k) nl) sh)) ∧
    runView sk_PPtr_wrapping_offset (VT.uniform (.ptr p nl) sh) [.int k] = .ok (.one (VT.uniform (.ptr (p + k) nl) sh)) ∧
    runView sk_PPtrMut_offset (VT.uniform (.ptr p nl) sh) [.int k] = .ok (.one (VT.uniform (.ptr (p + k) nl) sh)) ∧
    runView sk_PPtrMut_wrapping_offset (VT.uniform (.ptr p nl) sh) [.int k] = .ok (.one (VT.uniform (.ptr (p + k) nl) sh)) := by
  refine ⟨?_, ?_, ?_, ?_⟩
  · ptr_run read_PPtr_offset exp_PPtr_offset (by decide : sk_PPtr_offset.name = "offset")
  · ptr_run read_PPtr_wrapping_offset exp_PPtr_wrapping_offset (by decide : sk_PPtr_wrapping_offset.name = "wrapping_offset")
  · ptr_run read_PPtrMut_offset exp_PPtrMut_offset (by decide : sk_PPtrMut_offset.name = "offset")
  · ptr_run read_PPtrMut_wrapping_offset exp_PPtrMut_wrapping_offset (by decide : sk_PPtrMut_wrapping_offset.name = "wrapping_offset")

/-- const ↔ mut casts keep every component -/
theorem cast_tie (p : Int) (nl : Bool) :
    runView sk_PPtr_as_mut_ptr (VT.uniform (.ptr p nl) sh) [] = .ok (.one (VT.uniform (.ptr p nl) sh)) ∧
    runView sk_PPtrMut_as_ptr (VT.uniform (.ptr p nl) sh) [] = .ok (.one (VT.uniform (.ptr p nl) sh)) := by
  refine ⟨?_, ?_⟩
  · ptr_run read_PPtr_as_mut_ptr exp_PPtr_as_mut_ptr (by decide : sk_PPtr_as_mut_ptr.name = "as_mut_ptr")
  · ptr_run read_PPtrMut_as_ptr exp_PPtrMut_as_ptr (by decide : sk_PPtrMut_as_ptr.name = "as_ptr")

/-- bundles obtained from a vector, a view or an element reference designate its first element / that element -/
theorem as_ptr_tie (n : Nat) (w : Win) (p : Int) :
    runView sk_PVec_as_ptr (VT.uniform (.len n) sh) [] = .ok (.one (VT.uniform (.ptr 0 false) sh)) ∧
    runView sk_PVec_as_mut_ptr (VT.uniform (.len n) sh) [] = .ok (.one (VT.uniform (.ptr 0 false) sh)) ∧
    runView sk_PSlice_a_as_ptr (VT.uniform (.win w) sh) [] = .ok (.one (VT.uniform (.ptr w.s false) sh)) ∧
    runView sk_PSliceMut_a_as_ptr (VT.uniform (.win w) sh) [] = .ok (.one (VT.uniform (.ptr w.s false) sh)) ∧
    runView sk_PSliceMut_a_as_mut_ptr (VT.uniform (.win w) sh) [] = .ok (.one (VT.uniform (.ptr w.s false) sh)) ∧
    runView sk_PRef_a_as_ptr (VT.uniform (.pos p) sh) [] = .ok (.one (VT.uniform (.ptr p false) sh)) ∧
    runView sk_PRefMut_a_as_ptr (VT.uniform (.pos p) sh) [] = .ok (.one (VT.uniform (.ptr p false) sh)) ∧
    runView sk_PRefMut_a_as_mut_ptr (VT.uniform (.pos p) sh) [] = .ok (.one (VT.uniform (.ptr p false) sh)) := by
  refine ⟨?_, ?_, ?_, ?_, ?_, ?_, ?_, ?_⟩
  · ptr_run read_PVec_as_ptr exp_PVec_as_ptr (by decide : sk_PVec_as_ptr.name = "as_ptr")
  · ptr_run read_PVec_as_mut_ptr exp_PVec_as_mut_ptr (by decide : sk_PVec_as_mut_ptr.name = "as_mut_ptr")
  · ptr_run read_PSlice_a_as_ptr exp_PSlice_a_as_ptr (by decide : sk_PSlice_a_as_ptr.name = "as_ptr")
  · ptr_run read_PSliceMut_a_as_ptr exp_PSliceMut_a_as_ptr (by decide : sk_PSliceMut_a_as_ptr.name = "as_ptr")
  · ptr_run read_PSliceMut_a_as_mut_ptr exp_PSliceMut_a_as_mut_ptr (by decide : sk_PSliceMut_a_as_mut_ptr.name = "as_mut_ptr")
  · ptr_run read_PRef_a_as_ptr exp_PRef_a_as_ptr (by decide : sk_PRef_a_as_ptr.name = "as_ptr")
  · ptr_run read_PRefMut_a_as_ptr exp_PRefMut_a_as_ptr (by decide : sk_PRefMut_a_as_ptr.name = "as_ptr")
  · ptr_run read_PRefMut_a_as_mut_ptr exp_PRefMut_a_as_mut_ptr (by decide : sk_PRefMut_a_as_mut_ptr.name = "as_mut_ptr")

/-- `as_ref()` / `as_mut()`: `None` exactly when the bundle is null, else references to the designated element -/
theorem as_ref_tie (p : Int) (nl : Bool) :
    runView sk_PPtr_as_ref (VT.uniform (.ptr p nl) sh) [] = (if nl then .ok .none_ else .ok (.one (VT.uniform (.pos p) sh))) ∧
    runView sk_PPtrMut_as_ref (VT.uniform (.ptr p nl) sh) [] = (if nl then .ok .none_ else .ok (.one (VT.uniform (.pos p) sh))) ∧
    runView sk_PPtrMut_as_mut (VT.uniform (.ptr p nl) sh) [] = (if nl then .ok .none_ else .ok (.one (VT.uniform (.pos p) sh))) := by
  refine ⟨?_, ?_, ?_⟩
  · cases nl <;> ptr_run read_PPtr_as_ref exp_PPtr_as_ref (by decide : sk_PPtr_as_ref.name = "as_ref")
  · cases nl <;> ptr_run read_PPtrMut_as_ref exp_PPtrMut_as_ref (by decide : sk_PPtrMut_as_ref.name = "as_ref")
  · cases nl <;> ptr_run read_PPtrMut_as_mut exp_PPtrMut_as_mut (by decide : sk_PPtrMut_as_mut.name = "as_mut")

/-- `from_raw_parts(data, len)` / `from_raw_parts_mut`: the window `[p, p+len)` in every field -/
theorem from_raw_parts_tie (p len : Nat) (self : VT LV) :
    runView sk_PSlice_a_from_raw_parts self [.tree (VT.uniform (.ptr p false) sh), .nat len] =
      .ok (.one (VT.uniform (.win ⟨p, len⟩) sh)) ∧
    runView sk_PSliceMut_a_from_raw_parts_mut self [.tree (VT.uniform (.ptr p false) sh), .nat len] =
      .ok (.one (VT.uniform (.win ⟨p, len⟩) sh)) := by
  refine ⟨?_, ?_⟩
  · have hn : sk_PSlice_a_from_raw_parts.name = "from_raw_parts" := by decide
    simp only [runView, read_PSlice_a_from_raw_parts, exp_PSlice_a_from_raw_parts, hn, runViewSk, itemExpr, nestOkView, subject,
      isSliceFromRawParts]
    simp [mapR_uniform _ _ _ hw, viewLeaf, vNat, isSliceFromRawParts, R.bind, R.map]
  · have hn : sk_PSliceMut_a_from_raw_parts_mut.name = "from_raw_parts_mut" := by decide
    simp only [runView, read_PSliceMut_a_from_raw_parts_mut, exp_PSliceMut_a_from_raw_parts_mut, hn, runViewSk, itemExpr, nestOkView,
      subject, isSliceFromRawParts]
    simp [mapR_uniform _ _ _ hw, viewLeaf, vNat, isSliceFromRawParts, R.bind, R.map]

end uniform

/-! ## reads and writes -/

theorem ptr_read_tie (c : Cols) (p : Nat) :
    runPtrRead sk_PPtr_read c p = some { st := c, ret := some (Model.rowCols c p) } ∧
    runPtrRead sk_PPtr_read_volatile c p = some { st := c, ret := some (Model.rowCols c p) } ∧
    runPtrRead sk_PPtr_read_unaligned c p = some { st := c, ret := some (Model.rowCols c p) } ∧
    runPtrRead sk_PPtrMut_read c p = some { st := c, ret := some (Model.rowCols c p) } ∧
    runPtrRead sk_PPtrMut_read_volatile c p = some { st := c, ret := some (Model.rowCols c p) } ∧
    runPtrRead sk_PPtrMut_read_unaligned c p = some { st := c, ret := some (Model.rowCols c p) } := by
  have h1 : sk_PPtr_read.name = "read" := by decide
  have h2 : sk_PPtr_read_volatile.name = "read_volatile" := by decide
  have h3 : sk_PPtr_read_unaligned.name = "read_unaligned" := by decide
  have h4 : sk_PPtrMut_read.name = "read" := by decide
  have h5 : sk_PPtrMut_read_volatile.name = "read_volatile" := by decide
  have h6 : sk_PPtrMut_read_unaligned.name = "read_unaligned" := by decide
  simp [runPtrRead, isPtrRead, h1, h2, h3, h4, h5, h6,
    read_PPtr_read, exp_PPtr_read, read_PPtr_read_volatile, exp_PPtr_read_volatile, read_PPtr_read_unaligned, exp_PPtr_read_unaligned,
    read_PPtrMut_read, exp_PPtrMut_read, read_PPtrMut_read_volatile, exp_PPtrMut_read_volatile, read_PPtrMut_read_unaligned, exp_PPtrMut_read_unaligned]

/-- a pointer write at an in-bounds position is `Model.replace` without its guard: the value is stored in exactly
    that row, the overwritten bits are handed back, nothing is destroyed (neither the slot nor `val`) -/
theorem ptr_write_tie (dr : Bool) {c e : Cols} {n : Nat} (p : Nat) (hc : c.lock n) (he : e.lock 1) (hs : c.same e) (hp : p < n) :
    runPtrWrite dr sk_PPtrMut_write c p e = some (Model.replace dr c p e) ∧
    runPtrWrite dr sk_PPtrMut_write_volatile c p e = some (Model.replace dr c p e) ∧
    runPtrWrite dr sk_PPtrMut_write_unaligned c p e = some (Model.replace dr c p e) := by
  have h1 : sk_PPtrMut_write.name = "write" := by decide
  have h2 : sk_PPtrMut_write_volatile.name = "write_volatile" := by decide
  have h3 : sk_PPtrMut_write_unaligned.name = "write_unaligned" := by decide
  have hfl := firstLen_lock c n hc
  have hg : ¬ p ≥ n := by omega
  cases perField (replaceOp p) c e n 1 hc he hs with
  | ok s _ _ hpn _ _ _ _ _ _ =>
    simp [runPtrWrite, isPtrWrite, h1, h2, h3, hpn, hfl, hg, moveInEv, Model.replace,
      read_PPtrMut_write, exp_PPtrMut_write, read_PPtrMut_write_volatile, exp_PPtrMut_write_volatile,
      read_PPtrMut_write_unaligned, exp_PPtrMut_write_unaligned]
  | fail _ hfail _ _ _ => simp [replaceOp] at hfail; omega

end Soa.Sk
