namespace Soa.Retain
variable {α : Type}

/-- std `slice.swap(a, b)` for in-bounds indices -/
def swapAt (xs : List α) (a b : Nat) : List α :=
  match xs[a]?, xs[b]? with
  | some x, some y => (xs.set a y).set b x
  | _, _ => xs

/-- the generated `retain` loop, literally: for i in 0..len { if !f(get(i)) {del+=1} else if del>0 {swap(i-del,i)} } -/
def loop (p : α → Bool) : Nat → Nat → Nat → List α → List α × Nat
  | 0, _, del, xs => (xs, del)
  | f+1, i, del, xs =>
    match xs[i]? with
    | none => (xs, del)
    | some x =>
      if !p x then loop p f (i+1) (del+1) xs
      else if del > 0 then loop p f (i+1) del (swapAt xs (i - del) i)
      else loop p f (i+1) del xs

def retain (p : α → Bool) (xs : List α) : List α :=
  let r := loop p xs.length 0 0 xs
  if r.2 > 0 then r.1.take (xs.length - r.2) else r.1

/-- functional mirror on the decomposition kept ++ junk ++ rest -/
def go (p : α → Bool) : List α → List α → List α → List α × List α
  | kept, junk, [] => (kept, junk)
  | kept, junk, x :: r =>
    if !p x then go p kept (junk ++ [x]) r
    else match junk with
      | [] => go p (kept ++ [x]) [] r
      | j0 :: js => go p (kept ++ [x]) (js ++ [j0]) r

theorem swap_decomp (kept js r : List α) (j0 x : α) :
    swapAt (kept ++ (j0 :: js) ++ x :: r) kept.length (kept.length + (js.length + 1)) =
      (kept ++ [x]) ++ (js ++ [j0]) ++ r := by
  unfold swapAt
  have h1 : (kept ++ (j0 :: js) ++ x :: r)[kept.length]? = some j0 := by
    simp [List.append_assoc, List.getElem?_append_right]
  have h2 : (kept ++ (j0 :: js) ++ x :: r)[kept.length + (js.length + 1)]? = some x := by
    rw [List.getElem?_append_right (by simp)]
    simp
  rw [h1, h2]
  simp only [List.append_assoc, List.cons_append, List.nil_append]
  rw [List.set_append_right _ _ (by omega), List.set_append_right _ _ (by omega)]
  simp only [Nat.sub_self, List.set_cons_zero, Nat.add_sub_cancel_left]
  congr 1
  rw [show js.length + 1 = (js.length) + 1 from rfl, List.set_cons_succ]
  congr 1
  rw [List.set_append_right _ _ (by omega)]
  simp

theorem loop_go (p : α → Bool) : ∀ (rest kept junk : List α),
    loop p rest.length (kept.length + junk.length) junk.length (kept ++ junk ++ rest) =
      ((go p kept junk rest).1 ++ (go p kept junk rest).2, (go p kept junk rest).2.length)
  | [], kept, junk => by simp [loop, go]
  | x :: r, kept, junk => by
    have hx : (kept ++ junk ++ x :: r)[kept.length + junk.length]? = some x := by
      rw [List.getElem?_append_right (by simp)]; simp
    simp only [List.length_cons, loop, hx, go]
    by_cases hp : p x
    · simp only [hp, Bool.not_true, Bool.false_eq_true, ↓reduceIte]
      cases junk with
      | nil =>
        have := loop_go p r (kept ++ [x]) []
        simp only [List.length_append, List.length_cons, List.length_nil, Nat.add_zero, List.append_nil,
          List.append_assoc, List.cons_append, List.nil_append, Nat.zero_add] at this ⊢
        simpa using this
      | cons j0 js =>
        have := loop_go p r (kept ++ [x]) (js ++ [j0])
        have hs := swap_decomp kept js r j0 x
        simp only [List.length_cons, Nat.zero_lt_succ, ↓reduceIte, Nat.add_sub_cancel, hs]
        simp only [List.length_append, List.length_cons, List.length_nil] at this
        have e1 : kept.length + (js.length + 1) + 1 = kept.length + (0 + 1) + (js.length + (0 + 1)) := by omega
        have e2 : js.length + 1 = js.length + (0 + 1) := by omega
        rw [e1, e2]; exact this
    · simp only [hp, Bool.not_false, ↓reduceIte]
      have := loop_go p r kept (junk ++ [x])
      simp only [List.length_append, List.length_cons, List.length_nil, List.append_assoc,
        List.cons_append, List.nil_append] at this ⊢
      have e1 : kept.length + junk.length + 1 = kept.length + (junk.length + (0 + 1)) := by omega
      have e2 : junk.length + 1 = junk.length + (0 + 1) := by omega
      rw [e1, e2]; exact this

theorem go_fst (p : α → Bool) : ∀ (rest kept junk : List α), (go p kept junk rest).1 = kept ++ rest.filter p
  | [], kept, junk => by simp [go]
  | x :: r, kept, junk => by
    by_cases hp : p x
    · cases junk <;> simp [go, hp, go_fst p r]
    · simp [go, hp, go_fst p r]

theorem go_len (p : α → Bool) : ∀ (rest kept junk : List α),
    (go p kept junk rest).1.length + (go p kept junk rest).2.length = kept.length + junk.length + rest.length
  | [], kept, junk => by simp [go]
  | x :: r, kept, junk => by
    by_cases hp : p x
    · cases junk with
      | nil => have := go_len p r (kept ++ [x]) []; simp [go, hp] at this ⊢; omega
      | cons j0 js => have := go_len p r (kept ++ [x]) (js ++ [j0]); simp [go, hp] at this ⊢; omega
    · have := go_len p r kept (junk ++ [x]); simp [go, hp] at this ⊢; omega

/-- the generated retain loop + final truncate is `filter` -/
theorem retain_eq_filter (p : α → Bool) (xs : List α) : retain p xs = xs.filter p := by
  have h := loop_go p xs [] []
  have h1 := go_fst p xs [] []
  have h2 := go_len p xs [] []
  simp only [List.length_nil, Nat.add_zero, List.nil_append] at h h1 h2
  unfold retain
  simp only [h]
  split
  · rw [List.take_append_of_le_length (by omega)]
    rw [List.take_of_length_le (by omega), h1]
  · have : (go p [] [] xs).2 = [] := by
      cases hh : (go p [] [] xs).2 with
      | nil => rfl
      | cons a b => simp [hh] at *
    simp [this, h1]

#print axioms retain_eq_filter
end Soa.Retain
