import Soa.Model.SkelSem
import Soa.Extracted.Skel
import Soa.Lemmas.PerField
/-!
# The extracted skeletons mean what the hand-written model says

For every element-level vector method: (1) the template extracted from /repo on this run
reads as the expected skeleton (`sk_*`, decided by the kernel on the regenerated table), and
(2) the outcome computed from that skeleton (`runElem`) equals the hand-written model
function the property theorems are about, for every container in lockstep, every shape
and every argument (`*_tie`).  A semantic change of a generated method — another guard,
another std call, another argument order, a missing `ManuallyDrop`, a different field order
of the result — changes the extracted skeleton and breaks (1) or (2); renaming a local
variable or re-indenting does not.
-/
set_option linter.unusedSimpArgs false
namespace Soa.Sk
open Soa Soa.Model Soa.Extracted

@[simp] theorem ev_append_empty (a : Ev) : a ++ ({} : Ev) = a := by
  show Ev.append a {} = a
  cases a; simp [Ev.append]

theorem sk_push : skOf sk_PVec_push =
    .stmts { md := some 0, unsafeBlk := true } (.stmt (.call "push" [.moveIn 0] .none))
      (.stmt (.call "push" [.moveIn 0] .none)) none := by decide

theorem sk_insert : skOf sk_PVec_insert =
    .stmts { guard := some (">", 0), md := some 1, unsafeBlk := true }
      (.stmt (.call "insert" [.param 0, .moveIn 1] .none))
      (.stmt (.call "insert" [.param 0, .moveIn 1] .none)) none := by decide

theorem sk_replace : skOf sk_PVec_replace =
    .lets { guard := some (">=", 0), md := some 1 }
      (.readLet 1 "" (.memReplaceIdx (.param 0) (.local_ "field")))
      (.readLet 1 "" (.call "replace" [.param 0, .local_ "field"] .none)) .elem "" false none := by decide

theorem sk_remove : skOf sk_PVec_remove =
    .lets {} (.letP "" (.call "remove" [.param 0] .none)) (.letP "" (.call "remove" [.param 0] .none))
      .elem "" false none := by decide

theorem sk_swap_remove : skOf sk_PVec_swap_remove =
    .lets {} (.letP "" (.call "swap_remove" [.param 0] .none)) (.letP "" (.call "swap_remove" [.param 0] .none))
      .elem "" false none := by decide

theorem sk_pop : skOf sk_PVec_pop =
    .lets { emptyNone := true } (.letP "" (.call "pop" [] .unwrap)) (.letP "" (.call "pop" [] .unwrap))
      .elem "" true none := by decide

theorem sk_append : skOf sk_PVec_append =
    .stmts {} (.stmt (.call "append" [.fieldMut 0] .none)) (.stmt (.call "append" [.fieldMut 0] .none)) none := by decide

theorem sk_split_off : skOf sk_PVec_split_off =
    .lit {} .vec (.init (.call "split_off" [.param 0] .none)) (.init (.call "split_off" [.param 0] .none)) false := by
  decide

theorem sk_to_vec_slice : isToVec sk_PSlice_a_to_vec = true := by decide
theorem sk_to_vec_slice_mut : isToVec sk_PSliceMut_a_to_vec = true := by decide

/-- the function names the nested fields are called with are the functions' own names -/
theorem names : sk_PVec_push.name = "push" ∧ sk_PVec_insert.name = "insert" ∧ sk_PVec_replace.name = "replace" ∧
    sk_PVec_remove.name = "remove" ∧ sk_PVec_swap_remove.name = "swap_remove" ∧ sk_PVec_pop.name = "pop" ∧
    sk_PVec_append.name = "append" ∧ sk_PVec_split_off.name = "split_off" := by decide

variable {c e d : Cols} {n k : Nat}

theorem push_tie (dr : Bool) (c e : Cols) :
    runElem dr sk_PVec_push c [.elem e] = some (Model.push c e) := by
  have hn : sk_PVec_push.name = "push" := by decide
  simp [runElem, hn, sk_push, runSk, runCore, nestOk, itemFE, leafOp, itemSrc, feSrc, argSrc, colsArg, moveInEv, Model.push]

theorem insert_tie (dr : Bool) (i : Nat) (hc : c.lock n) (he : e.lock 1) (hs : c.same e) :
    runElem dr sk_PVec_insert c [.nat i, .elem e] = some (Model.insert dr c i e) := by
  have hfl := firstLen_lock c n hc
  have hn : sk_PVec_insert.name = "insert" := by decide
  simp only [runElem, sk_insert, hn, runSk, runCore, nestOk, itemFE, leafOp, itemSrc, feSrc, argSrc, colsArg, natArg,
    moveInEv, Model.insert, cmpEval, byValue, dropAll, hfl]
  by_cases hg : i > n
  · simp [hg]
  · cases perField (insertOp i) c e n 1 hc he hs with
    | ok s _ _ hp _ _ _ _ _ _ => simp [hg, hp]
    | fail _ hfail _ _ _ => simp [insertOp] at hfail; omega

theorem replace_tie (dr : Bool) (i : Nat) (hc : c.lock n) (he : e.lock 1) (hs : c.same e) :
    runElem dr sk_PVec_replace c [.nat i, .elem e] = some (Model.replace dr c i e) := by
  have hfl := firstLen_lock c n hc
  have hn : sk_PVec_replace.name = "replace" := by decide
  simp only [runElem, sk_replace, hn, runSk, runCore, nestOk, itemFE, leafOp, itemSrc, feSrc, argSrc, colsArg, natArg,
    moveInEv, Model.replace, cmpEval, byValue, dropAll, hfl]
  by_cases hg : i ≥ n
  · simp [hg]
  · cases perField (replaceOp i) c e n 1 hc he hs with
    | ok s _ _ hp _ _ _ _ _ _ => simp [hg, hp]
    | fail _ hfail _ _ _ => simp [replaceOp] at hfail; omega

theorem remove_tie (dr : Bool) (i : Nat) (c : Cols) :
    runElem dr sk_PVec_remove c [.nat i] = some (Model.remove c i) := by
  have hn : sk_PVec_remove.name = "remove" := by decide
  simp only [runElem, sk_remove, hn, runSk, runCore, nestOk, itemFE, leafOp, itemSrc, feSrc, argSrc, natArg, Model.remove]
  simp
  split <;> simp_all

theorem swap_remove_tie (dr : Bool) (i : Nat) (c : Cols) :
    runElem dr sk_PVec_swap_remove c [.nat i] = some (Model.swapRemove c i) := by
  have hn : sk_PVec_swap_remove.name = "swap_remove" := by decide
  simp only [runElem, sk_swap_remove, hn, runSk, runCore, nestOk, itemFE, leafOp, itemSrc, feSrc, argSrc, natArg, Model.swapRemove]
  simp
  split <;> simp_all

theorem pop_tie (dr : Bool) (c : Cols) :
    runElem dr sk_PVec_pop c [] = some (Model.pop c) := by
  have hn : sk_PVec_pop.name = "pop" := by decide
  simp only [runElem, sk_pop, hn, runSk, runCore, nestOk, itemFE, leafOp, itemSrc, feSrc, argSrc, Model.pop]
  simp
  by_cases h0 : c.firstLen = 0
  · simp [h0]
  · simp [h0]; split <;> simp_all

theorem append_tie (dr : Bool) (c d : Cols) :
    runElem dr sk_PVec_append c [.cont d] = some (Model.append c d) := by
  have hn : sk_PVec_append.name = "append" := by decide
  simp [runElem, sk_append, hn, runSk, runCore, nestOk, itemFE, leafOp, itemSrc, feSrc, argSrc, colsArg, Model.append]

theorem split_off_tie (dr : Bool) (i : Nat) (c : Cols) :
    runElem dr sk_PVec_split_off c [.nat i] = some (Model.splitOff c i) := by
  have hn : sk_PVec_split_off.name = "split_off" := by decide
  simp only [runElem, sk_split_off, hn, runSk, runCore, nestOk, itemFE, leafOp, itemSrc, feSrc, argSrc, natArg, Model.splitOff]
  simp
  split <;> simp_all

theorem to_vec_tie (src : Cols) :
    runToVec sk_PSlice_a_to_vec src = some (Model.toVec src) ∧
    runToVec sk_PSliceMut_a_to_vec src = some (Model.toVec src) := by
  simp [runToVec, sk_to_vec_slice, sk_to_vec_slice_mut, Model.toVec]

end Soa.Sk
