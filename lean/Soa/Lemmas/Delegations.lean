import Soa.Model.LoopSyntax
import Soa.Extracted.Loops
/-!
# The thin functions of the generated API, read from their extracted bodies

Accessors on the three containers forward to the `SoAIndex` / `SoAIndexMut` method of the index value
(whose generated impls are translated separately, `Soa/Extracted/IdxIR.lean`); the `From<Ref>` conversions are
`to_owned()`; the trait `ToSoAVec::to_vec` is the inherent `to_vec`; an iterator's `size_hint` / `len` are those
of the zip it wraps; `new` is `Default::default()`.  Each statement is decided by the kernel on the statement tree
printed from /repo by the translator on this run.
-/
namespace Soa.Lp
open Soa.Extracted

/-- `index.<m>(self)` -/
def isForward (b : Body) (m : String) : Bool :=
  match b.stmts, b.tail with
  | [], some (.mcall (.param 0) m' [.self_]) => m' == m
  | _, _ => false

/-- `let slice = self.<conv>(); index.<m>(slice)` -/
def isForwardVia (b : Body) (conv m : String) : Bool :=
  match b.stmts, b.tail with
  | [.let_ "slice" (.mcall .self_ c [])], some (.mcall (.param 0) m' [.var "slice"]) => c == conv && m' == m
  | _, _ => false

/-- `<recv>.<m>()` with no statements before it -/
def isCallOn (b : Body) (recv : Ex) (m : String) : Bool :=
  match b.stmts, b.tail with
  | [], some (.mcall r m' []) => m' == m && (match r, recv with
      | .self_, .self_ => true
      | .param i, .param j => i == j
      | .proj .self_ i, .proj .self_ j => i == j
      | _, _ => false)
  | _, _ => false

end Soa.Lp
