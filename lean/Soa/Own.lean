import Soa.Ops
namespace Soa

/-- all ids stored in a container tree (DFS over leaves) -/
def Cols.ids : Cols → List Nat
  | .leaf xs => xs
  | .nest fs => idsL fs
where idsL : List Cols → List Nat
  | [] => []
  | c :: cs => c.ids ++ idsL cs

/-- an op is linear if it neither duplicates nor discards values -/
def PolyOp.Linear (op : PolyOp) : Prop :=
  ∀ {α : Type} (xs as : List α) (r : List α × List α), op.run xs as = some r → (r.1 ++ r.2).Perm (xs ++ as)

theorem apply2_linear (op : PolyOp) (hl : op.Linear) :
    ∀ c a : Cols, c.same a →
      ((c.apply2 op a).st.ids ++ (c.apply2 op a).out.ids).Perm (c.ids ++ a.ids)
  | .leaf xs, .leaf as, _ => by
    simp only [Cols.apply2]
    cases hr : op.run xs as with
    | none => simp [Cols.ids]
    | some r => simpa [Cols.ids] using hl xs as r hr
  | .nest fs, .nest gs, hs => by
    rw [same_nest] at hs
    simpa [Cols.apply2, Cols.ids] using apply2L_linear op hl fs gs hs
  | .leaf _, .nest _, hs => by simp [Cols.same] at hs
  | .nest _, .leaf _, hs => by simp [Cols.same] at hs
where apply2L_linear (op : PolyOp) (hl : op.Linear) :
    ∀ fs gs : List Cols, Cols.same.sameL fs gs →
      (Cols.ids.idsL (Cols.apply2.apply2L op fs gs).1 ++ Cols.ids.idsL (Cols.apply2.apply2L op fs gs).2.1).Perm
        (Cols.ids.idsL fs ++ Cols.ids.idsL gs)
  | [], [], _ => by simp [Cols.apply2.apply2L, Cols.ids.idsL]
  | [], _ :: _, hs => by simp [Cols.same.sameL] at hs
  | _ :: _, [], hs => by simp [Cols.same.sameL] at hs
  | c :: cs, a :: as, hs => by
    rw [sameL_cons] at hs
    have ih := apply2_linear op hl c a hs.1
    have ih' := apply2L_linear op hl cs as hs.2
    rw [Cols.apply2.apply2L]
    by_cases hp : (c.apply2 op a).panicked
    · -- later fields untouched
      simp only [hp, ↓reduceIte, Cols.ids.idsL]
      have : ((c.apply2 op a).st.ids ++ Cols.ids.idsL cs ++ ((c.apply2 op a).out.ids ++ Cols.ids.idsL as)).Perm
          (((c.apply2 op a).st.ids ++ (c.apply2 op a).out.ids) ++ (Cols.ids.idsL cs ++ Cols.ids.idsL as)) := by
        simp only [List.append_assoc]
        exact List.Perm.append_left _ (by
          rw [← List.append_assoc, ← List.append_assoc]
          exact List.Perm.append_right _ List.perm_append_comm)
      refine this.trans ?_
      have h2 : (c.ids ++ Cols.ids.idsL cs ++ (a.ids ++ Cols.ids.idsL as)).Perm
          ((c.ids ++ a.ids) ++ (Cols.ids.idsL cs ++ Cols.ids.idsL as)) := by
        simp only [List.append_assoc]
        exact List.Perm.append_left _ (by
          rw [← List.append_assoc, ← List.append_assoc]
          exact List.Perm.append_right _ List.perm_append_comm)
      exact (List.Perm.append_right _ ih).trans h2.symm
    · simp only [hp, Bool.false_eq_true, ↓reduceIte, Cols.ids.idsL]
      have : ((c.apply2 op a).st.ids ++ Cols.ids.idsL (Cols.apply2.apply2L op cs as).1 ++
            ((c.apply2 op a).out.ids ++ Cols.ids.idsL (Cols.apply2.apply2L op cs as).2.1)).Perm
          (((c.apply2 op a).st.ids ++ (c.apply2 op a).out.ids) ++
            (Cols.ids.idsL (Cols.apply2.apply2L op cs as).1 ++ Cols.ids.idsL (Cols.apply2.apply2L op cs as).2.1)) := by
        simp only [List.append_assoc]
        exact List.Perm.append_left _ (by
          rw [← List.append_assoc, ← List.append_assoc]
          exact List.Perm.append_right _ List.perm_append_comm)
      refine this.trans ?_
      have h2 : (c.ids ++ Cols.ids.idsL cs ++ (a.ids ++ Cols.ids.idsL as)).Perm
          ((c.ids ++ a.ids) ++ (Cols.ids.idsL cs ++ Cols.ids.idsL as)) := by
        simp only [List.append_assoc]
        exact List.Perm.append_left _ (by
          rw [← List.append_assoc, ← List.append_assoc]
          exact List.Perm.append_right _ List.perm_append_comm)
      exact (List.Perm.append ih ih').trans h2.symm

/-- a total op is linear when its function neither duplicates nor discards -/
theorem PolyOp.ofTotal_linear {ok f hnat}
    (h : ∀ {α : Type} (xs as : List α), ok xs.length as.length = true →
      ((f xs as).1 ++ (f xs as).2).Perm (xs ++ as)) : (PolyOp.ofTotal ok f hnat).Linear := by
  intro α xs as r hr
  simp only [PolyOp.ofTotal_run] at hr
  split at hr
  · cases hr; exact h xs as (by assumption)
  · cases hr

theorem perm_mid {α : Type} (a b c : List α) : (a ++ b ++ c).Perm (a ++ c ++ b) := by
  simp only [List.append_assoc]
  exact List.Perm.append_left _ List.perm_append_comm

theorem append_linear : appendOp.Linear :=
  PolyOp.ofTotal_linear (by intros; simp)

theorem insert_linear (i : Nat) : (insertOp i).Linear :=
  PolyOp.ofTotal_linear (by
    intro α xs as _
    simp only [List.append_nil]
    have h := perm_mid (xs.take i) as (xs.drop i)
    simpa using h)

theorem take_drop_succ_perm {α : Type} (xs : List α) (i : Nat) :
    (xs.take i ++ xs.drop (i+1) ++ (xs.drop i).take 1).Perm xs := by
  have h1 : xs.drop i = (xs.drop i).take 1 ++ xs.drop (i+1) := by
    rw [← List.drop_drop, List.take_append_drop]
  have h2 : xs = xs.take i ++ ((xs.drop i).take 1 ++ xs.drop (i+1)) := by
    rw [← h1, List.take_append_drop]
  have h3 := perm_mid (xs.take i) (xs.drop (i+1)) ((xs.drop i).take 1)
  calc (xs.take i ++ xs.drop (i+1) ++ (xs.drop i).take 1).Perm
        (xs.take i ++ (xs.drop i).take 1 ++ xs.drop (i+1)) := h3
    _ = xs := by rw [List.append_assoc]; exact h2.symm

theorem remove_linear (i : Nat) : (removeOp i).Linear :=
  PolyOp.ofTotal_linear (by
    intro α xs as h
    simp only [Bool.and_eq_true, decide_eq_true_eq, beq_iff_eq] at h
    have : as = [] := List.eq_nil_of_length_eq_zero h.2
    subst this
    simpa using take_drop_succ_perm xs i)

theorem pop_linear : popOp.Linear :=
  PolyOp.ofTotal_linear (by
    intro α xs as h
    simp only [Bool.and_eq_true, decide_eq_true_eq, beq_iff_eq] at h
    have : as = [] := List.eq_nil_of_length_eq_zero h.2
    subst this
    simp)

theorem splitOff_linear (k : Nat) : (splitOffOp k).Linear :=
  PolyOp.ofTotal_linear (by
    intro α xs as h
    simp only [Bool.and_eq_true, decide_eq_true_eq, beq_iff_eq] at h
    have : as = [] := List.eq_nil_of_length_eq_zero h.2
    subst this
    simp)

theorem truncate_linear (k : Nat) : (truncateOp k).Linear :=
  PolyOp.ofTotal_linear (by
    intro α xs as h
    simp only [beq_iff_eq] at h
    have : as = [] := List.eq_nil_of_length_eq_zero h
    subst this
    simp)

theorem replace_linear (i : Nat) : (replaceOp i).Linear :=
  PolyOp.ofTotal_linear (by
    intro α xs as _
    have h := take_drop_succ_perm xs i
    have h2 : (xs.take i ++ as ++ xs.drop (i+1) ++ (xs.drop i).take 1).Perm
        (xs.take i ++ xs.drop (i+1) ++ (xs.drop i).take 1 ++ as) := by
      simp only [List.append_assoc]
      refine List.Perm.append_left _ ?_
      have := List.perm_append_comm (l₁ := as) (l₂ := xs.drop (i+1) ++ (xs.drop i).take 1)
      simpa [List.append_assoc] using this
    exact h2.trans (List.Perm.append_right _ h))

end Soa
