import Soa.Model.Skel
/-!
# The skeletons the semantic theorems were proved from (frozen; regenerate with `bin/reskel`)

One definition per generated function with per-field content (index and trait layers are translated separately):
how its template, extracted from /repo, reads as guard / wrapper / per-field expression / result.
-/
namespace Soa.Sk.Expected
open Soa.Sk

-- scope C12
def exp_PVec_with_capacity : Sk :=
  Soa.Sk.Sk.lit
    { guard := none, emptyNone := false, nullNone := false, md := none, unsafeBlk := false }
    (Soa.Sk.Ty.vec)
    (Soa.Sk.Item.init (Soa.Sk.FE.path ["Vec", "::", "with_capacity"] [Soa.Sk.Arg.param 0]))
    (Soa.Sk.Item.init
      (Soa.Sk.FE.path
        ["<", "§T", "as", "::", "soa_derive", "::", "StructOfArray", ">", "::", "Type", "::", "with_capacity"]
        [Soa.Sk.Arg.param 0]))
    false

-- scope C12
def exp_PVec_capacity : Sk :=
  Soa.Sk.Sk.minFold
    "capacity"
    (Soa.Sk.Item.minAssign "capacity" (Soa.Sk.FE.call "capacity" [] (Soa.Sk.Post.none)))
    (Soa.Sk.Item.minAssign "capacity" (Soa.Sk.FE.call "capacity" [] (Soa.Sk.Post.none)))

-- scope C12
def exp_PVec_reserve : Sk :=
  Soa.Sk.Sk.stmts
    { guard := none, emptyNone := false, nullNone := false, md := none, unsafeBlk := false }
    (Soa.Sk.Item.stmt (Soa.Sk.FE.call "reserve" [Soa.Sk.Arg.param 0] (Soa.Sk.Post.none)))
    (Soa.Sk.Item.stmt (Soa.Sk.FE.call "reserve" [Soa.Sk.Arg.param 0] (Soa.Sk.Post.none)))
    none

-- scope C12
def exp_PVec_reserve_exact : Sk :=
  Soa.Sk.Sk.stmts
    { guard := none, emptyNone := false, nullNone := false, md := none, unsafeBlk := false }
    (Soa.Sk.Item.stmt (Soa.Sk.FE.call "reserve_exact" [Soa.Sk.Arg.param 0] (Soa.Sk.Post.none)))
    (Soa.Sk.Item.stmt (Soa.Sk.FE.call "reserve_exact" [Soa.Sk.Arg.param 0] (Soa.Sk.Post.none)))
    none

-- scope C12
def exp_PVec_shrink_to_fit : Sk :=
  Soa.Sk.Sk.stmts
    { guard := none, emptyNone := false, nullNone := false, md := none, unsafeBlk := false }
    (Soa.Sk.Item.stmt (Soa.Sk.FE.call "shrink_to_fit" [] (Soa.Sk.Post.none)))
    (Soa.Sk.Item.stmt (Soa.Sk.FE.call "shrink_to_fit" [] (Soa.Sk.Post.none)))
    none

-- scope C01
def exp_PVec_push : Sk :=
  Soa.Sk.Sk.stmts
    { guard := none, emptyNone := false, nullNone := false, md := some 0, unsafeBlk := true }
    (Soa.Sk.Item.stmt (Soa.Sk.FE.call "push" [Soa.Sk.Arg.moveIn 0] (Soa.Sk.Post.none)))
    (Soa.Sk.Item.stmt (Soa.Sk.FE.call "push" [Soa.Sk.Arg.moveIn 0] (Soa.Sk.Post.none)))
    none

-- scope C01
def exp_PVec_len : Sk :=
  Soa.Sk.Sk.firstChecked
    "len"
    (Soa.Sk.Item.dbgAssertEq (Soa.Sk.FE.call "len" [] (Soa.Sk.Post.none)) "len")
    (Soa.Sk.Item.dbgAssertEq (Soa.Sk.FE.call "len" [] (Soa.Sk.Post.none)) "len")

-- scope C01
def exp_PVec_is_empty : Sk :=
  Soa.Sk.Sk.firstChecked
    "is_empty"
    (Soa.Sk.Item.dbgAssertEq (Soa.Sk.FE.call "is_empty" [] (Soa.Sk.Post.none)) "empty")
    (Soa.Sk.Item.dbgAssertEq (Soa.Sk.FE.call "is_empty" [] (Soa.Sk.Post.none)) "empty")

-- scope C01
def exp_PVec_swap_remove : Sk :=
  Soa.Sk.Sk.lets
    { guard := none, emptyNone := false, nullNone := false, md := none, unsafeBlk := false }
    (Soa.Sk.Item.letP "" (Soa.Sk.FE.call "swap_remove" [Soa.Sk.Arg.param 0] (Soa.Sk.Post.none)))
    (Soa.Sk.Item.letP "" (Soa.Sk.FE.call "swap_remove" [Soa.Sk.Arg.param 0] (Soa.Sk.Post.none)))
    (Soa.Sk.Ty.elem)
    ""
    false
    none

-- scope C01
def exp_PVec_insert : Sk :=
  Soa.Sk.Sk.stmts
    { guard := some (">", 0), emptyNone := false, nullNone := false, md := some 1, unsafeBlk := true }
    (Soa.Sk.Item.stmt (Soa.Sk.FE.call "insert" [Soa.Sk.Arg.param 0, Soa.Sk.Arg.moveIn 1] (Soa.Sk.Post.none)))
    (Soa.Sk.Item.stmt (Soa.Sk.FE.call "insert" [Soa.Sk.Arg.param 0, Soa.Sk.Arg.moveIn 1] (Soa.Sk.Post.none)))
    none

-- scope C01
def exp_PVec_replace : Sk :=
  Soa.Sk.Sk.lets
    { guard := some (">=", 0), emptyNone := false, nullNone := false, md := some 1, unsafeBlk := false }
    (Soa.Sk.Item.readLet 1 "" (Soa.Sk.FE.memReplaceIdx (Soa.Sk.Arg.param 0) (Soa.Sk.Arg.local_ "field")))
    (Soa.Sk.Item.readLet
      1
      ""
      (Soa.Sk.FE.call "replace" [Soa.Sk.Arg.param 0, Soa.Sk.Arg.local_ "field"] (Soa.Sk.Post.none)))
    (Soa.Sk.Ty.elem)
    ""
    false
    none

-- scope C01
def exp_PVec_remove : Sk :=
  Soa.Sk.Sk.lets
    { guard := none, emptyNone := false, nullNone := false, md := none, unsafeBlk := false }
    (Soa.Sk.Item.letP "" (Soa.Sk.FE.call "remove" [Soa.Sk.Arg.param 0] (Soa.Sk.Post.none)))
    (Soa.Sk.Item.letP "" (Soa.Sk.FE.call "remove" [Soa.Sk.Arg.param 0] (Soa.Sk.Post.none)))
    (Soa.Sk.Ty.elem)
    ""
    false
    none

-- scope C01
def exp_PVec_pop : Sk :=
  Soa.Sk.Sk.lets
    { guard := none, emptyNone := true, nullNone := false, md := none, unsafeBlk := false }
    (Soa.Sk.Item.letP "" (Soa.Sk.FE.call "pop" [] (Soa.Sk.Post.unwrap)))
    (Soa.Sk.Item.letP "" (Soa.Sk.FE.call "pop" [] (Soa.Sk.Post.unwrap)))
    (Soa.Sk.Ty.elem)
    ""
    true
    none

-- scope C01
def exp_PVec_append : Sk :=
  Soa.Sk.Sk.stmts
    { guard := none, emptyNone := false, nullNone := false, md := none, unsafeBlk := false }
    (Soa.Sk.Item.stmt (Soa.Sk.FE.call "append" [Soa.Sk.Arg.fieldMut 0] (Soa.Sk.Post.none)))
    (Soa.Sk.Item.stmt (Soa.Sk.FE.call "append" [Soa.Sk.Arg.fieldMut 0] (Soa.Sk.Post.none)))
    none

-- scope C01
def exp_PVec_split_off : Sk :=
  Soa.Sk.Sk.lit
    { guard := none, emptyNone := false, nullNone := false, md := none, unsafeBlk := false }
    (Soa.Sk.Ty.vec)
    (Soa.Sk.Item.init (Soa.Sk.FE.call "split_off" [Soa.Sk.Arg.param 0] (Soa.Sk.Post.none)))
    (Soa.Sk.Item.init (Soa.Sk.FE.call "split_off" [Soa.Sk.Arg.param 0] (Soa.Sk.Post.none)))
    false

-- scope C05
def exp_PVec_as_slice : Sk :=
  Soa.Sk.Sk.lit
    { guard := none, emptyNone := false, nullNone := false, md := none, unsafeBlk := false }
    (Soa.Sk.Ty.slice)
    (Soa.Sk.Item.init (Soa.Sk.FE.call "as_slice" [] (Soa.Sk.Post.none)))
    (Soa.Sk.Item.init (Soa.Sk.FE.call "as_slice" [] (Soa.Sk.Post.none)))
    false

-- scope C05
def exp_PVec_as_mut_slice : Sk :=
  Soa.Sk.Sk.lit
    { guard := none, emptyNone := false, nullNone := false, md := none, unsafeBlk := false }
    (Soa.Sk.Ty.sliceMut)
    (Soa.Sk.Item.init (Soa.Sk.FE.call "as_mut_slice" [] (Soa.Sk.Post.none)))
    (Soa.Sk.Item.init (Soa.Sk.FE.call "as_mut_slice" [] (Soa.Sk.Post.none)))
    false

-- scope C05
def exp_PVec_slice : Sk :=
  Soa.Sk.Sk.lit
    { guard := none, emptyNone := false, nullNone := false, md := none, unsafeBlk := false }
    (Soa.Sk.Ty.slice)
    (Soa.Sk.Item.init (Soa.Sk.FE.index false (Soa.Sk.Arg.paramClone 0)))
    (Soa.Sk.Item.init (Soa.Sk.FE.call "slice" [Soa.Sk.Arg.paramClone 0] (Soa.Sk.Post.none)))
    false

-- scope C05
def exp_PVec_slice_mut : Sk :=
  Soa.Sk.Sk.lit
    { guard := none, emptyNone := false, nullNone := false, md := none, unsafeBlk := false }
    (Soa.Sk.Ty.sliceMut)
    (Soa.Sk.Item.init (Soa.Sk.FE.index true (Soa.Sk.Arg.paramClone 0)))
    (Soa.Sk.Item.init (Soa.Sk.FE.call "slice_mut" [Soa.Sk.Arg.paramClone 0] (Soa.Sk.Post.none)))
    false

-- scope C10
def exp_PVec_as_ptr : Sk :=
  Soa.Sk.Sk.lit
    { guard := none, emptyNone := false, nullNone := false, md := none, unsafeBlk := false }
    (Soa.Sk.Ty.ptr)
    (Soa.Sk.Item.init (Soa.Sk.FE.call "as_ptr" [] (Soa.Sk.Post.none)))
    (Soa.Sk.Item.init (Soa.Sk.FE.call "as_ptr" [] (Soa.Sk.Post.none)))
    false

-- scope C10
def exp_PVec_as_mut_ptr : Sk :=
  Soa.Sk.Sk.lit
    { guard := none, emptyNone := false, nullNone := false, md := none, unsafeBlk := false }
    (Soa.Sk.Ty.ptrMut)
    (Soa.Sk.Item.init (Soa.Sk.FE.call "as_mut_ptr" [] (Soa.Sk.Post.none)))
    (Soa.Sk.Item.init (Soa.Sk.FE.call "as_mut_ptr" [] (Soa.Sk.Post.none)))
    false

-- scope C10
def exp_PVec_from_raw_parts : Sk :=
  Soa.Sk.Sk.lit
    { guard := none, emptyNone := false, nullNone := false, md := none, unsafeBlk := false }
    (Soa.Sk.Ty.vec)
    (Soa.Sk.Item.init
      (Soa.Sk.FE.path
        ["Vec", "::", "from_raw_parts"]
        [Soa.Sk.Arg.field 0, Soa.Sk.Arg.param 1, Soa.Sk.Arg.param 2]))
    (Soa.Sk.Item.init
      (Soa.Sk.FE.path
        ["§TVec", "::", "from_raw_parts"]
        [Soa.Sk.Arg.field 0, Soa.Sk.Arg.param 1, Soa.Sk.Arg.param 2]))
    false

-- scope C15
def exp_P_as_ref : Sk :=
  Soa.Sk.Sk.lit
    { guard := none, emptyNone := false, nullNone := false, md := none, unsafeBlk := false }
    (Soa.Sk.Ty.ref)
    (Soa.Sk.Item.init (Soa.Sk.FE.borrow false))
    (Soa.Sk.Item.init (Soa.Sk.FE.call "as_ref" [] (Soa.Sk.Post.none)))
    false

-- scope C15
def exp_P_as_mut : Sk :=
  Soa.Sk.Sk.lit
    { guard := none, emptyNone := false, nullNone := false, md := none, unsafeBlk := false }
    (Soa.Sk.Ty.refMut)
    (Soa.Sk.Item.init (Soa.Sk.FE.borrow true))
    (Soa.Sk.Item.init (Soa.Sk.FE.call "as_mut" [] (Soa.Sk.Post.none)))
    false

-- scope C15
def exp_PRef_a_to_owned : Sk :=
  Soa.Sk.Sk.lit
    { guard := none, emptyNone := false, nullNone := false, md := none, unsafeBlk := false }
    (Soa.Sk.Ty.elem)
    (Soa.Sk.Item.init (Soa.Sk.FE.call "clone" [] (Soa.Sk.Post.none)))
    (Soa.Sk.Item.init
      (Soa.Sk.FE.path
        ["<", "§T", "as", "::", "std", "::", "convert", "::", "From", "<", "_", ">", ">", "::", "from"]
        [Soa.Sk.Arg.other ["self", ".§"]]))
    false

-- scope C15
def exp_PRefMut_a_to_owned : Sk :=
  Soa.Sk.Sk.lit
    { guard := none, emptyNone := false, nullNone := false, md := none, unsafeBlk := false }
    (Soa.Sk.Ty.elem)
    (Soa.Sk.Item.init (Soa.Sk.FE.call "clone" [] (Soa.Sk.Post.none)))
    (Soa.Sk.Item.init
      (Soa.Sk.FE.path
        ["<", "§T", "as", "::", "std", "::", "convert", "::", "From", "<", "_", ">", ">", "::", "from"]
        [Soa.Sk.Arg.other ["&", "self", ".", "§"]]))
    false

-- scope C15
def exp_PRefMut_a_replace : Sk :=
  Soa.Sk.Sk.lets
    { guard := none, emptyNone := false, nullNone := false, md := none, unsafeBlk := false }
    (Soa.Sk.Item.readLet 0 "" (Soa.Sk.FE.memReplaceDeref (Soa.Sk.Arg.local_ "field")))
    (Soa.Sk.Item.readLet 0 "" (Soa.Sk.FE.call "replace" [Soa.Sk.Arg.local_ "field"] (Soa.Sk.Post.none)))
    (Soa.Sk.Ty.elem)
    ""
    false
    (some 0)

-- scope C10
def exp_PPtr_as_mut_ptr : Sk :=
  Soa.Sk.Sk.lit
    { guard := none, emptyNone := false, nullNone := false, md := none, unsafeBlk := false }
    (Soa.Sk.Ty.ptrMut)
    (Soa.Sk.Item.init (Soa.Sk.FE.cast true))
    (Soa.Sk.Item.init (Soa.Sk.FE.call "as_mut_ptr" [] (Soa.Sk.Post.none)))
    false

-- scope C10
def exp_PPtr_is_null : Sk :=
  Soa.Sk.Sk.orFold
    (Soa.Sk.Item.stmt (Soa.Sk.FE.call "is_null" [] (Soa.Sk.Post.none)))
    (Soa.Sk.Item.stmt (Soa.Sk.FE.call "is_null" [] (Soa.Sk.Post.none)))

-- scope C10
def exp_PPtr_as_ref : Sk :=
  Soa.Sk.Sk.lit
    { guard := none, emptyNone := false, nullNone := true, md := none, unsafeBlk := false }
    (Soa.Sk.Ty.ref)
    (Soa.Sk.Item.init (Soa.Sk.FE.call "as_ref" [] (Soa.Sk.Post.expectNonNull)))
    (Soa.Sk.Item.init (Soa.Sk.FE.call "as_ref" [] (Soa.Sk.Post.expectNonNull)))
    true

-- scope C10
def exp_PPtr_offset : Sk :=
  Soa.Sk.Sk.lit
    { guard := none, emptyNone := false, nullNone := false, md := none, unsafeBlk := false }
    (Soa.Sk.Ty.ptr)
    (Soa.Sk.Item.init (Soa.Sk.FE.call "offset" [Soa.Sk.Arg.param 0] (Soa.Sk.Post.none)))
    (Soa.Sk.Item.init (Soa.Sk.FE.call "offset" [Soa.Sk.Arg.param 0] (Soa.Sk.Post.none)))
    false

-- scope C10
def exp_PPtr_wrapping_offset : Sk :=
  Soa.Sk.Sk.lit
    { guard := none, emptyNone := false, nullNone := false, md := none, unsafeBlk := false }
    (Soa.Sk.Ty.ptr)
    (Soa.Sk.Item.init (Soa.Sk.FE.call "wrapping_offset" [Soa.Sk.Arg.param 0] (Soa.Sk.Post.none)))
    (Soa.Sk.Item.init (Soa.Sk.FE.call "wrapping_offset" [Soa.Sk.Arg.param 0] (Soa.Sk.Post.none)))
    false

-- scope C10
def exp_PPtr_add : Sk :=
  Soa.Sk.Sk.lit
    { guard := none, emptyNone := false, nullNone := false, md := none, unsafeBlk := false }
    (Soa.Sk.Ty.ptr)
    (Soa.Sk.Item.init (Soa.Sk.FE.call "add" [Soa.Sk.Arg.param 0] (Soa.Sk.Post.none)))
    (Soa.Sk.Item.init (Soa.Sk.FE.call "add" [Soa.Sk.Arg.param 0] (Soa.Sk.Post.none)))
    false

-- scope C10
def exp_PPtr_sub : Sk :=
  Soa.Sk.Sk.lit
    { guard := none, emptyNone := false, nullNone := false, md := none, unsafeBlk := false }
    (Soa.Sk.Ty.ptr)
    (Soa.Sk.Item.init (Soa.Sk.FE.call "sub" [Soa.Sk.Arg.param 0] (Soa.Sk.Post.none)))
    (Soa.Sk.Item.init (Soa.Sk.FE.call "sub" [Soa.Sk.Arg.param 0] (Soa.Sk.Post.none)))
    false

-- scope C10
def exp_PPtr_wrapping_add : Sk :=
  Soa.Sk.Sk.lit
    { guard := none, emptyNone := false, nullNone := false, md := none, unsafeBlk := false }
    (Soa.Sk.Ty.ptr)
    (Soa.Sk.Item.init (Soa.Sk.FE.call "wrapping_add" [Soa.Sk.Arg.param 0] (Soa.Sk.Post.none)))
    (Soa.Sk.Item.init (Soa.Sk.FE.call "wrapping_add" [Soa.Sk.Arg.param 0] (Soa.Sk.Post.none)))
    false

-- scope C10
def exp_PPtr_wrapping_sub : Sk :=
  Soa.Sk.Sk.lit
    { guard := none, emptyNone := false, nullNone := false, md := none, unsafeBlk := false }
    (Soa.Sk.Ty.ptr)
    (Soa.Sk.Item.init (Soa.Sk.FE.call "wrapping_sub" [Soa.Sk.Arg.param 0] (Soa.Sk.Post.none)))
    (Soa.Sk.Item.init (Soa.Sk.FE.call "wrapping_sub" [Soa.Sk.Arg.param 0] (Soa.Sk.Post.none)))
    false

-- scope C10
def exp_PPtr_read : Sk :=
  Soa.Sk.Sk.lit
    { guard := none, emptyNone := false, nullNone := false, md := none, unsafeBlk := false }
    (Soa.Sk.Ty.elem)
    (Soa.Sk.Item.init (Soa.Sk.FE.call "read" [] (Soa.Sk.Post.none)))
    (Soa.Sk.Item.init (Soa.Sk.FE.call "read" [] (Soa.Sk.Post.none)))
    false

-- scope C10
def exp_PPtr_read_volatile : Sk :=
  Soa.Sk.Sk.lit
    { guard := none, emptyNone := false, nullNone := false, md := none, unsafeBlk := false }
    (Soa.Sk.Ty.elem)
    (Soa.Sk.Item.init (Soa.Sk.FE.call "read_volatile" [] (Soa.Sk.Post.none)))
    (Soa.Sk.Item.init (Soa.Sk.FE.call "read_volatile" [] (Soa.Sk.Post.none)))
    false

-- scope C10
def exp_PPtr_read_unaligned : Sk :=
  Soa.Sk.Sk.lit
    { guard := none, emptyNone := false, nullNone := false, md := none, unsafeBlk := false }
    (Soa.Sk.Ty.elem)
    (Soa.Sk.Item.init (Soa.Sk.FE.call "read_unaligned" [] (Soa.Sk.Post.none)))
    (Soa.Sk.Item.init (Soa.Sk.FE.call "read_unaligned" [] (Soa.Sk.Post.none)))
    false

-- scope C10
def exp_PPtrMut_as_ptr : Sk :=
  Soa.Sk.Sk.lit
    { guard := none, emptyNone := false, nullNone := false, md := none, unsafeBlk := false }
    (Soa.Sk.Ty.ptr)
    (Soa.Sk.Item.init (Soa.Sk.FE.cast false))
    (Soa.Sk.Item.init (Soa.Sk.FE.call "as_ptr" [] (Soa.Sk.Post.none)))
    false

-- scope C10
def exp_PPtrMut_is_null : Sk :=
  Soa.Sk.Sk.orFold
    (Soa.Sk.Item.stmt (Soa.Sk.FE.call "is_null" [] (Soa.Sk.Post.none)))
    (Soa.Sk.Item.stmt (Soa.Sk.FE.call "is_null" [] (Soa.Sk.Post.none)))

-- scope C10
def exp_PPtrMut_as_ref : Sk :=
  Soa.Sk.Sk.lit
    { guard := none, emptyNone := false, nullNone := true, md := none, unsafeBlk := false }
    (Soa.Sk.Ty.ref)
    (Soa.Sk.Item.init (Soa.Sk.FE.call "as_ref" [] (Soa.Sk.Post.expectNonNull)))
    (Soa.Sk.Item.init (Soa.Sk.FE.call "as_ref" [] (Soa.Sk.Post.expectNonNull)))
    true

-- scope C10
def exp_PPtrMut_as_mut : Sk :=
  Soa.Sk.Sk.lit
    { guard := none, emptyNone := false, nullNone := true, md := none, unsafeBlk := false }
    (Soa.Sk.Ty.refMut)
    (Soa.Sk.Item.init (Soa.Sk.FE.call "as_mut" [] (Soa.Sk.Post.expectNonNull)))
    (Soa.Sk.Item.init (Soa.Sk.FE.call "as_mut" [] (Soa.Sk.Post.expectNonNull)))
    true

-- scope C10
def exp_PPtrMut_offset : Sk :=
  Soa.Sk.Sk.lit
    { guard := none, emptyNone := false, nullNone := false, md := none, unsafeBlk := false }
    (Soa.Sk.Ty.ptrMut)
    (Soa.Sk.Item.init (Soa.Sk.FE.call "offset" [Soa.Sk.Arg.param 0] (Soa.Sk.Post.none)))
    (Soa.Sk.Item.init (Soa.Sk.FE.call "offset" [Soa.Sk.Arg.param 0] (Soa.Sk.Post.none)))
    false

-- scope C10
def exp_PPtrMut_wrapping_offset : Sk :=
  Soa.Sk.Sk.lit
    { guard := none, emptyNone := false, nullNone := false, md := none, unsafeBlk := false }
    (Soa.Sk.Ty.ptrMut)
    (Soa.Sk.Item.init (Soa.Sk.FE.call "wrapping_offset" [Soa.Sk.Arg.param 0] (Soa.Sk.Post.none)))
    (Soa.Sk.Item.init (Soa.Sk.FE.call "wrapping_offset" [Soa.Sk.Arg.param 0] (Soa.Sk.Post.none)))
    false

-- scope C10
def exp_PPtrMut_add : Sk :=
  Soa.Sk.Sk.lit
    { guard := none, emptyNone := false, nullNone := false, md := none, unsafeBlk := false }
    (Soa.Sk.Ty.ptrMut)
    (Soa.Sk.Item.init (Soa.Sk.FE.call "add" [Soa.Sk.Arg.param 0] (Soa.Sk.Post.none)))
    (Soa.Sk.Item.init (Soa.Sk.FE.call "add" [Soa.Sk.Arg.param 0] (Soa.Sk.Post.none)))
    false

-- scope C10
def exp_PPtrMut_sub : Sk :=
  Soa.Sk.Sk.lit
    { guard := none, emptyNone := false, nullNone := false, md := none, unsafeBlk := false }
    (Soa.Sk.Ty.ptrMut)
    (Soa.Sk.Item.init (Soa.Sk.FE.call "sub" [Soa.Sk.Arg.param 0] (Soa.Sk.Post.none)))
    (Soa.Sk.Item.init (Soa.Sk.FE.call "sub" [Soa.Sk.Arg.param 0] (Soa.Sk.Post.none)))
    false

-- scope C10
def exp_PPtrMut_wrapping_add : Sk :=
  Soa.Sk.Sk.lit
    { guard := none, emptyNone := false, nullNone := false, md := none, unsafeBlk := false }
    (Soa.Sk.Ty.ptrMut)
    (Soa.Sk.Item.init (Soa.Sk.FE.call "wrapping_add" [Soa.Sk.Arg.param 0] (Soa.Sk.Post.none)))
    (Soa.Sk.Item.init (Soa.Sk.FE.call "wrapping_add" [Soa.Sk.Arg.param 0] (Soa.Sk.Post.none)))
    false

-- scope C10
def exp_PPtrMut_wrapping_sub : Sk :=
  Soa.Sk.Sk.lit
    { guard := none, emptyNone := false, nullNone := false, md := none, unsafeBlk := false }
    (Soa.Sk.Ty.ptrMut)
    (Soa.Sk.Item.init (Soa.Sk.FE.call "wrapping_sub" [Soa.Sk.Arg.param 0] (Soa.Sk.Post.none)))
    (Soa.Sk.Item.init (Soa.Sk.FE.call "wrapping_sub" [Soa.Sk.Arg.param 0] (Soa.Sk.Post.none)))
    false

-- scope C10
def exp_PPtrMut_read : Sk :=
  Soa.Sk.Sk.lit
    { guard := none, emptyNone := false, nullNone := false, md := none, unsafeBlk := false }
    (Soa.Sk.Ty.elem)
    (Soa.Sk.Item.init (Soa.Sk.FE.call "read" [] (Soa.Sk.Post.none)))
    (Soa.Sk.Item.init (Soa.Sk.FE.call "read" [] (Soa.Sk.Post.none)))
    false

-- scope C10
def exp_PPtrMut_read_volatile : Sk :=
  Soa.Sk.Sk.lit
    { guard := none, emptyNone := false, nullNone := false, md := none, unsafeBlk := false }
    (Soa.Sk.Ty.elem)
    (Soa.Sk.Item.init (Soa.Sk.FE.call "read_volatile" [] (Soa.Sk.Post.none)))
    (Soa.Sk.Item.init (Soa.Sk.FE.call "read_volatile" [] (Soa.Sk.Post.none)))
    false

-- scope C10
def exp_PPtrMut_read_unaligned : Sk :=
  Soa.Sk.Sk.lit
    { guard := none, emptyNone := false, nullNone := false, md := none, unsafeBlk := false }
    (Soa.Sk.Ty.elem)
    (Soa.Sk.Item.init (Soa.Sk.FE.call "read_unaligned" [] (Soa.Sk.Post.none)))
    (Soa.Sk.Item.init (Soa.Sk.FE.call "read_unaligned" [] (Soa.Sk.Post.none)))
    false

-- scope C10
def exp_PPtrMut_write : Sk :=
  Soa.Sk.Sk.stmts
    { guard := none, emptyNone := false, nullNone := false, md := none, unsafeBlk := true }
    (Soa.Sk.Item.stmt (Soa.Sk.FE.call "write" [Soa.Sk.Arg.moveIn 0] (Soa.Sk.Post.none)))
    (Soa.Sk.Item.stmt (Soa.Sk.FE.call "write" [Soa.Sk.Arg.moveIn 0] (Soa.Sk.Post.none)))
    (some 0)

-- scope C10
def exp_PPtrMut_write_volatile : Sk :=
  Soa.Sk.Sk.stmts
    { guard := none, emptyNone := false, nullNone := false, md := none, unsafeBlk := true }
    (Soa.Sk.Item.stmt (Soa.Sk.FE.call "write_volatile" [Soa.Sk.Arg.moveIn 0] (Soa.Sk.Post.none)))
    (Soa.Sk.Item.stmt (Soa.Sk.FE.call "write_volatile" [Soa.Sk.Arg.moveIn 0] (Soa.Sk.Post.none)))
    (some 0)

-- scope C10
def exp_PPtrMut_write_unaligned : Sk :=
  Soa.Sk.Sk.stmts
    { guard := none, emptyNone := false, nullNone := false, md := none, unsafeBlk := true }
    (Soa.Sk.Item.stmt (Soa.Sk.FE.call "write_unaligned" [Soa.Sk.Arg.moveIn 0] (Soa.Sk.Post.none)))
    (Soa.Sk.Item.stmt (Soa.Sk.FE.call "write_unaligned" [Soa.Sk.Arg.moveIn 0] (Soa.Sk.Post.none)))
    (some 0)

-- scope C10
def exp_PRef_a_as_ptr : Sk :=
  Soa.Sk.Sk.lit
    { guard := none, emptyNone := false, nullNone := false, md := none, unsafeBlk := false }
    (Soa.Sk.Ty.ptr)
    (Soa.Sk.Item.init (Soa.Sk.FE.cast false))
    (Soa.Sk.Item.init (Soa.Sk.FE.call "as_ptr" [] (Soa.Sk.Post.none)))
    false

-- scope C10
def exp_PRefMut_a_as_ptr : Sk :=
  Soa.Sk.Sk.lit
    { guard := none, emptyNone := false, nullNone := false, md := none, unsafeBlk := false }
    (Soa.Sk.Ty.ptr)
    (Soa.Sk.Item.init (Soa.Sk.FE.cast false))
    (Soa.Sk.Item.init (Soa.Sk.FE.call "as_ptr" [] (Soa.Sk.Post.none)))
    false

-- scope C10
def exp_PRefMut_a_as_mut_ptr : Sk :=
  Soa.Sk.Sk.lit
    { guard := none, emptyNone := false, nullNone := false, md := none, unsafeBlk := false }
    (Soa.Sk.Ty.ptrMut)
    (Soa.Sk.Item.init (Soa.Sk.FE.cast true))
    (Soa.Sk.Item.init (Soa.Sk.FE.call "as_mut_ptr" [] (Soa.Sk.Post.none)))
    false

-- scope C05
def exp_PSlice_a_len : Sk :=
  Soa.Sk.Sk.firstChecked
    "len"
    (Soa.Sk.Item.dbgAssertEq (Soa.Sk.FE.call "len" [] (Soa.Sk.Post.none)) "len")
    (Soa.Sk.Item.dbgAssertEq (Soa.Sk.FE.call "len" [] (Soa.Sk.Post.none)) "len")

-- scope C05
def exp_PSlice_a_is_empty : Sk :=
  Soa.Sk.Sk.firstChecked
    "is_empty"
    (Soa.Sk.Item.dbgAssertEq (Soa.Sk.FE.call "is_empty" [] (Soa.Sk.Post.none)) "empty")
    (Soa.Sk.Item.dbgAssertEq (Soa.Sk.FE.call "is_empty" [] (Soa.Sk.Post.none)) "empty")

-- scope C05
def exp_PSlice_a_first : Sk :=
  Soa.Sk.Sk.lets
    { guard := none, emptyNone := true, nullNone := false, md := none, unsafeBlk := false }
    (Soa.Sk.Item.letP "_1" (Soa.Sk.FE.call "first" [] (Soa.Sk.Post.unwrap)))
    (Soa.Sk.Item.letP "_1" (Soa.Sk.FE.call "first" [] (Soa.Sk.Post.unwrap)))
    (Soa.Sk.Ty.ref)
    "_1"
    true
    none

-- scope C05
def exp_PSlice_a_split_first : Sk :=
  Soa.Sk.Sk.pairs
    { guard := none, emptyNone := true, nullNone := false, md := none, unsafeBlk := false }
    (Soa.Sk.Item.letPair "_1" "_2" (Soa.Sk.FE.call "split_first" [] (Soa.Sk.Post.unwrap)))
    (Soa.Sk.Item.letPair "_1" "_2" (Soa.Sk.FE.call "split_first" [] (Soa.Sk.Post.unwrap)))
    (Soa.Sk.Ty.ref)
    (Soa.Sk.Ty.slice)
    "_1"
    "_2"
    true

-- scope C05
def exp_PSlice_a_last : Sk :=
  Soa.Sk.Sk.lets
    { guard := none, emptyNone := true, nullNone := false, md := none, unsafeBlk := false }
    (Soa.Sk.Item.letP "_1" (Soa.Sk.FE.call "last" [] (Soa.Sk.Post.unwrap)))
    (Soa.Sk.Item.letP "_1" (Soa.Sk.FE.call "last" [] (Soa.Sk.Post.unwrap)))
    (Soa.Sk.Ty.ref)
    "_1"
    true
    none

-- scope C05
def exp_PSlice_a_split_last : Sk :=
  Soa.Sk.Sk.pairs
    { guard := none, emptyNone := true, nullNone := false, md := none, unsafeBlk := false }
    (Soa.Sk.Item.letPair "_1" "_2" (Soa.Sk.FE.call "split_last" [] (Soa.Sk.Post.unwrap)))
    (Soa.Sk.Item.letPair "_1" "_2" (Soa.Sk.FE.call "split_last" [] (Soa.Sk.Post.unwrap)))
    (Soa.Sk.Ty.ref)
    (Soa.Sk.Ty.slice)
    "_1"
    "_2"
    true

-- scope C05
def exp_PSlice_a_split_at : Sk :=
  Soa.Sk.Sk.pairs
    { guard := none, emptyNone := false, nullNone := false, md := none, unsafeBlk := false }
    (Soa.Sk.Item.letPair "_1" "_2" (Soa.Sk.FE.call "split_at" [Soa.Sk.Arg.param 0] (Soa.Sk.Post.none)))
    (Soa.Sk.Item.letPair "_1" "_2" (Soa.Sk.FE.call "split_at" [Soa.Sk.Arg.param 0] (Soa.Sk.Post.none)))
    (Soa.Sk.Ty.slice)
    (Soa.Sk.Ty.slice)
    "_1"
    "_2"
    false

-- scope C05
def exp_PSlice_a_reborrow : Sk :=
  Soa.Sk.Sk.lit
    { guard := none, emptyNone := false, nullNone := false, md := none, unsafeBlk := false }
    (Soa.Sk.Ty.slice)
    (Soa.Sk.Item.init (Soa.Sk.FE.borrow false))
    (Soa.Sk.Item.init (Soa.Sk.FE.call "reborrow" [] (Soa.Sk.Post.none)))
    false

-- scope C10
def exp_PSlice_a_as_ptr : Sk :=
  Soa.Sk.Sk.lit
    { guard := none, emptyNone := false, nullNone := false, md := none, unsafeBlk := false }
    (Soa.Sk.Ty.ptr)
    (Soa.Sk.Item.init (Soa.Sk.FE.call "as_ptr" [] (Soa.Sk.Post.none)))
    (Soa.Sk.Item.init (Soa.Sk.FE.call "as_ptr" [] (Soa.Sk.Post.none)))
    false

-- scope C10
def exp_PSlice_a_from_raw_parts : Sk :=
  Soa.Sk.Sk.lit
    { guard := none, emptyNone := false, nullNone := false, md := none, unsafeBlk := false }
    (Soa.Sk.Ty.slice)
    (Soa.Sk.Item.init
      (Soa.Sk.FE.path
        ["::", "std", "::", "slice", "::", "from_raw_parts"]
        [Soa.Sk.Arg.field 0, Soa.Sk.Arg.param 1]))
    (Soa.Sk.Item.init
      (Soa.Sk.FE.path ["§TSlice", "::", "from_raw_parts"] [Soa.Sk.Arg.field 0, Soa.Sk.Arg.param 1]))
    false

-- scope C01
def exp_PSlice_a_to_vec : Sk :=
  Soa.Sk.Sk.lit
    { guard := none, emptyNone := false, nullNone := false, md := none, unsafeBlk := false }
    (Soa.Sk.Ty.vec)
    (Soa.Sk.Item.init (Soa.Sk.FE.call "to_vec" [] (Soa.Sk.Post.none)))
    (Soa.Sk.Item.init (Soa.Sk.FE.call "to_vec" [] (Soa.Sk.Post.none)))
    false

-- scope C05
def exp_PSliceMut_a_as_ref : Sk :=
  Soa.Sk.Sk.lit
    { guard := none, emptyNone := false, nullNone := false, md := none, unsafeBlk := false }
    (Soa.Sk.Ty.slice)
    (Soa.Sk.Item.init (Soa.Sk.FE.copy))
    (Soa.Sk.Item.init (Soa.Sk.FE.call "as_ref" [] (Soa.Sk.Post.none)))
    false

-- scope C05
def exp_PSliceMut_a_len : Sk :=
  Soa.Sk.Sk.firstChecked
    "len"
    (Soa.Sk.Item.dbgAssertEq (Soa.Sk.FE.call "len" [] (Soa.Sk.Post.none)) "len")
    (Soa.Sk.Item.dbgAssertEq (Soa.Sk.FE.call "len" [] (Soa.Sk.Post.none)) "len")

-- scope C05
def exp_PSliceMut_a_is_empty : Sk :=
  Soa.Sk.Sk.firstChecked
    "is_empty"
    (Soa.Sk.Item.dbgAssertEq (Soa.Sk.FE.call "is_empty" [] (Soa.Sk.Post.none)) "empty")
    (Soa.Sk.Item.dbgAssertEq (Soa.Sk.FE.call "is_empty" [] (Soa.Sk.Post.none)) "empty")

-- scope C05
def exp_PSliceMut_a_first_mut : Sk :=
  Soa.Sk.Sk.lets
    { guard := none, emptyNone := true, nullNone := false, md := none, unsafeBlk := false }
    (Soa.Sk.Item.letF (Soa.Sk.FE.call "first_mut" [] (Soa.Sk.Post.unwrap)))
    (Soa.Sk.Item.letF (Soa.Sk.FE.call "first_mut" [] (Soa.Sk.Post.unwrap)))
    (Soa.Sk.Ty.refMut)
    "§"
    true
    none

-- scope C05
def exp_PSliceMut_a_split_first_mut : Sk :=
  Soa.Sk.Sk.pairs
    { guard := none, emptyNone := true, nullNone := false, md := none, unsafeBlk := false }
    (Soa.Sk.Item.letPair "§" "_slice_1" (Soa.Sk.FE.call "split_first_mut" [] (Soa.Sk.Post.unwrap)))
    (Soa.Sk.Item.letPair "§" "_slice_1" (Soa.Sk.FE.call "split_first_mut" [] (Soa.Sk.Post.unwrap)))
    (Soa.Sk.Ty.refMut)
    (Soa.Sk.Ty.sliceMut)
    "§"
    "_slice_1"
    true

-- scope C05
def exp_PSliceMut_a_last_mut : Sk :=
  Soa.Sk.Sk.lets
    { guard := none, emptyNone := true, nullNone := false, md := none, unsafeBlk := false }
    (Soa.Sk.Item.letF (Soa.Sk.FE.call "last_mut" [] (Soa.Sk.Post.unwrap)))
    (Soa.Sk.Item.letF (Soa.Sk.FE.call "last_mut" [] (Soa.Sk.Post.unwrap)))
    (Soa.Sk.Ty.refMut)
    "§"
    true
    none

-- scope C05
def exp_PSliceMut_a_split_last_mut : Sk :=
  Soa.Sk.Sk.pairs
    { guard := none, emptyNone := true, nullNone := false, md := none, unsafeBlk := false }
    (Soa.Sk.Item.letPair "§" "_slice_1" (Soa.Sk.FE.call "split_last_mut" [] (Soa.Sk.Post.unwrap)))
    (Soa.Sk.Item.letPair "§" "_slice_1" (Soa.Sk.FE.call "split_last_mut" [] (Soa.Sk.Post.unwrap)))
    (Soa.Sk.Ty.refMut)
    (Soa.Sk.Ty.sliceMut)
    "§"
    "_slice_1"
    true

-- scope C05
def exp_PSliceMut_a_split_at_mut : Sk :=
  Soa.Sk.Sk.pairs
    { guard := none, emptyNone := false, nullNone := false, md := none, unsafeBlk := false }
    (Soa.Sk.Item.letPair
      "_slice_1"
      "_slice_2"
      (Soa.Sk.FE.call "split_at_mut" [Soa.Sk.Arg.param 0] (Soa.Sk.Post.none)))
    (Soa.Sk.Item.letPair
      "_slice_1"
      "_slice_2"
      (Soa.Sk.FE.call "split_at_mut" [Soa.Sk.Arg.param 0] (Soa.Sk.Post.none)))
    (Soa.Sk.Ty.sliceMut)
    (Soa.Sk.Ty.sliceMut)
    "_slice_1"
    "_slice_2"
    false

-- scope C05
def exp_PSliceMut_a_swap : Sk :=
  Soa.Sk.Sk.stmts
    { guard := none, emptyNone := false, nullNone := false, md := none, unsafeBlk := false }
    (Soa.Sk.Item.stmt (Soa.Sk.FE.call "swap" [Soa.Sk.Arg.param 0, Soa.Sk.Arg.param 1] (Soa.Sk.Post.none)))
    (Soa.Sk.Item.stmt (Soa.Sk.FE.call "swap" [Soa.Sk.Arg.param 0, Soa.Sk.Arg.param 1] (Soa.Sk.Post.none)))
    none

-- scope C05
def exp_PSliceMut_a_as_slice : Sk :=
  Soa.Sk.Sk.lit
    { guard := none, emptyNone := false, nullNone := false, md := none, unsafeBlk := false }
    (Soa.Sk.Ty.slice)
    (Soa.Sk.Item.init (Soa.Sk.FE.borrow false))
    (Soa.Sk.Item.init (Soa.Sk.FE.call "as_slice" [] (Soa.Sk.Post.none)))
    false

-- scope C05
def exp_PSliceMut_a_reborrow : Sk :=
  Soa.Sk.Sk.lit
    { guard := none, emptyNone := false, nullNone := false, md := none, unsafeBlk := false }
    (Soa.Sk.Ty.sliceMut)
    (Soa.Sk.Item.init (Soa.Sk.FE.borrow true))
    (Soa.Sk.Item.init (Soa.Sk.FE.call "reborrow" [] (Soa.Sk.Post.none)))
    false

-- scope C10
def exp_PSliceMut_a_as_ptr : Sk :=
  Soa.Sk.Sk.lit
    { guard := none, emptyNone := false, nullNone := false, md := none, unsafeBlk := false }
    (Soa.Sk.Ty.ptr)
    (Soa.Sk.Item.init (Soa.Sk.FE.call "as_ptr" [] (Soa.Sk.Post.none)))
    (Soa.Sk.Item.init (Soa.Sk.FE.call "as_ptr" [] (Soa.Sk.Post.none)))
    false

-- scope C10
def exp_PSliceMut_a_as_mut_ptr : Sk :=
  Soa.Sk.Sk.lit
    { guard := none, emptyNone := false, nullNone := false, md := none, unsafeBlk := false }
    (Soa.Sk.Ty.ptrMut)
    (Soa.Sk.Item.init (Soa.Sk.FE.call "as_mut_ptr" [] (Soa.Sk.Post.none)))
    (Soa.Sk.Item.init (Soa.Sk.FE.call "as_mut_ptr" [] (Soa.Sk.Post.none)))
    false

-- scope C10
def exp_PSliceMut_a_from_raw_parts_mut : Sk :=
  Soa.Sk.Sk.lit
    { guard := none, emptyNone := false, nullNone := false, md := none, unsafeBlk := false }
    (Soa.Sk.Ty.sliceMut)
    (Soa.Sk.Item.init
      (Soa.Sk.FE.path
        ["::", "std", "::", "slice", "::", "from_raw_parts_mut"]
        [Soa.Sk.Arg.field 0, Soa.Sk.Arg.param 1]))
    (Soa.Sk.Item.init
      (Soa.Sk.FE.path ["§TSliceMut", "::", "from_raw_parts_mut"] [Soa.Sk.Arg.field 0, Soa.Sk.Arg.param 1]))
    false

-- scope C07
def exp_PSliceMut_a_private_apply_permutation : Sk :=
  Soa.Sk.Sk.stmts
    { guard := none, emptyNone := false, nullNone := false, md := none, unsafeBlk := false }
    (Soa.Sk.Item.stmt (Soa.Sk.FE.localCall "$0" "apply_slice_in_place" [Soa.Sk.Arg.selfFieldMut]))
    (Soa.Sk.Item.stmt (Soa.Sk.FE.call "__private_apply_permutation" [Soa.Sk.Arg.param 0] (Soa.Sk.Post.none)))
    none

-- scope C01
def exp_PSliceMut_a_to_vec : Sk :=
  Soa.Sk.Sk.lit
    { guard := none, emptyNone := false, nullNone := false, md := none, unsafeBlk := false }
    (Soa.Sk.Ty.vec)
    (Soa.Sk.Item.init (Soa.Sk.FE.call "to_vec" [] (Soa.Sk.Post.none)))
    (Soa.Sk.Item.init (Soa.Sk.FE.call "to_vec" [] (Soa.Sk.Post.none)))
    false

-- scope C06
def exp_PIter_a_Iterator_next : Sk :=
  Soa.Sk.Sk.zipStep "next" (Soa.Sk.Ty.ref)

-- scope C06
def exp_PIter_a_DoubleEndedIterator_next_back : Sk :=
  Soa.Sk.Sk.zipStep "next_back" (Soa.Sk.Ty.ref)

-- scope C06
def exp_PSlice_a_iter : Sk :=
  Soa.Sk.Sk.zipNew
    (Soa.Sk.Ty.iter)
    (Soa.Sk.FE.call "iter" [] (Soa.Sk.Post.none))
    (Soa.Sk.FE.call "iter" [] (Soa.Sk.Post.none))

-- scope C06
def exp_PSlice_a_into_iter : Sk :=
  Soa.Sk.Sk.zipNew
    (Soa.Sk.Ty.iter)
    (Soa.Sk.FE.call "iter" [] (Soa.Sk.Post.none))
    (Soa.Sk.FE.call "into_iter" [] (Soa.Sk.Post.none))

-- scope C06
def exp_PIterMut_a_Iterator_next : Sk :=
  Soa.Sk.Sk.zipStep "next" (Soa.Sk.Ty.refMut)

-- scope C06
def exp_PIterMut_a_DoubleEndedIterator_next_back : Sk :=
  Soa.Sk.Sk.zipStep "next_back" (Soa.Sk.Ty.refMut)

-- scope C06
def exp_PSliceMut_a_iter_mut : Sk :=
  Soa.Sk.Sk.zipNew
    (Soa.Sk.Ty.iterMut)
    (Soa.Sk.FE.call "iter_mut" [] (Soa.Sk.Post.none))
    (Soa.Sk.FE.call "iter_mut" [] (Soa.Sk.Post.none))

-- scope C06
def exp_PSliceMut_a_into_iter : Sk :=
  Soa.Sk.Sk.zipNew
    (Soa.Sk.Ty.iterMut)
    (Soa.Sk.FE.call "iter_mut" [] (Soa.Sk.Post.none))
    (Soa.Sk.FE.call "into_iter" [] (Soa.Sk.Post.none))

-- scope C06
def exp_PSlice_a_IntoIterator_into_iter : Sk :=
  Soa.Sk.Sk.zipNew
    (Soa.Sk.Ty.iter)
    (Soa.Sk.FE.call "iter" [] (Soa.Sk.Post.none))
    (Soa.Sk.FE.call "into_iter" [] (Soa.Sk.Post.none))

-- scope C06
def exp_aPSlice_b_IntoIterator_into_iter : Sk :=
  Soa.Sk.Sk.zipNew
    (Soa.Sk.Ty.iter)
    (Soa.Sk.FE.call "iter" [] (Soa.Sk.Post.none))
    (Soa.Sk.FE.call "into_iter" [] (Soa.Sk.Post.none))

-- scope C06
def exp_PSliceMut_a_IntoIterator_into_iter : Sk :=
  Soa.Sk.Sk.zipNew
    (Soa.Sk.Ty.iterMut)
    (Soa.Sk.FE.call "iter_mut" [] (Soa.Sk.Post.none))
    (Soa.Sk.FE.call "into_iter" [] (Soa.Sk.Post.none))

end Soa.Sk.Expected
