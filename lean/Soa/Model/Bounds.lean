import Soa.Model.IndexRun
/-!
# The `RangeBounds` → `start..end` conversion of the generic trait layer (IR + interpreter),
the classification enums of the translator, and std's semantics of indexing with a
`(Bound, Bound)` pair.
-/
namespace Soa.Bounds
open Soa.IdxIR

inductive Bound | inc (v : Nat) | exc (v : Nat) | unb
  deriving DecidableEq, Repr

/-- right-hand side of one match arm of the conversion (`i` = the bound's value, `n` = `self.len()`) -/
inductive BExpr | val | checkedSucc | plainSucc | zero | len | succMinLen | opaque (s : String)
  deriving DecidableEq, Repr

structure Conv where
  name : String
  kind : Kind
  startInc : BExpr
  startExc : BExpr
  startUnb : BExpr
  endInc : BExpr
  endExc : BExpr
  endUnb : BExpr
  call : M

inductive FwdKind | sameName | reborrow | asRefIntoIter | applyInversePermutation | viaMutSlice | unknown
  deriving DecidableEq, Repr
inductive ProvidedKind | getZero | getMutZero | getLenSatSub1 | getMutLenSatSub1 | argsortByThenApply
  | argsortByKeyThenApply | unknown
  deriving DecidableEq, Repr
inductive AssocName | ref | refMut | slice | sliceMut | iter | iterMut | ptr | ptrMut
  deriving DecidableEq, Repr
inductive GenType | ref | refMut | slice | sliceMut | iter | iterMut | ptr | ptrMut | other
  deriving DecidableEq, Repr

/-- value of an arm: `none` = the arm panics (checked overflow, or overflow check in debug) -/
def evalB (p : Prof) (n : Nat) (i : Nat) : BExpr → Option Nat
  | .val => some i
  | .checkedSucc => if i < MAX then some (i + 1) else none
  | .plainSucc => addU p i 1
  | .zero => some 0
  | .len => some n
  | .succMinLen => (addU p i 1).map (fun x => min x n)
  | .opaque _ => none

def Conv.startOf (c : Conv) (p : Prof) (n : Nat) : Bound → Option Nat
  | .inc v => evalB p n v c.startInc
  | .exc v => evalB p n v c.startExc
  | .unb => evalB p n 0 c.startUnb

def Conv.endOf (c : Conv) (p : Prof) (n : Nat) : Bound → Option Nat
  | .inc v => evalB p n v c.endInc
  | .exc v => evalB p n v c.endExc
  | .unb => evalB p n 0 c.endUnb

/-- the generated trait `slice(bounds)` / `slice_mut(bounds)`: convert, then the inherent
    `index(start..end)` / `index_mut(start..end)` of the extracted index layer -/
def Conv.run (c : Conv) (p : Prof) (n : Nat) (sh : Shape) (sb eb : Bound) : R :=
  match c.startOf p n sb with
  | none => .err .panic
  | some s =>
    match c.endOf p n eb with
    | none => .err .panic
    | some e => IdxIR.run p n sh c.kind { form := .range, start := s, end_ := e } c.call

/-- std: `core::slice::index::into_slice_range` — start and end of a `(Bound, Bound)` pair
    (`none` = overflow panic) -/
def stdStart : Bound → Option Nat
  | .inc v => some v
  | .exc v => if v < MAX then some (v + 1) else none
  | .unb => some 0

def stdEnd (n : Nat) : Bound → Option Nat
  | .inc v => if v < MAX then some (v + 1) else none
  | .exc v => some v
  | .unb => some n

/-- std: indexing a slice of length `n` with a `(Bound, Bound)` pair (conversion, then
    `Range` indexing): `none` = panic -/
def stdBounds (n : Nat) (sb eb : Bound) : Option (Nat × Nat) :=
  match stdStart sb, stdEnd n eb with
  | some s, some e => if s ≤ e ∧ e ≤ n then some (s, e - s) else none
  | _, _ => none

end Soa.Bounds
