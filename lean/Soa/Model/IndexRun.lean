import Soa.Extracted.Index
/-!
# Running the extracted index layer, and std's `SliceIndex` semantics to compare with
-/
namespace Soa.IdxIR

/-- a generated accessor `m` of container kind `k` applied to the index value `iv`, on a
    lockstep container of length `n` and shape `sh`, under build profile `p` -/
def run (p : Prof) (n : Nat) (sh : Shape) (k : Kind) (iv : IV) (m : M) : R :=
  match Soa.Extracted.table k iv.form m with
  | some b => eval Soa.Extracted.table p n sh 8 k iv b
  | none => .err .stuck

/-- std: the window `slice.get(index)` selects on a slice of length `n` (`none` = `None`);
    `slice[index]` panics exactly when this is `none`.
    (`core::slice::index`: `RangeInclusive` with `end == usize::MAX` is rejected, an exhausted
    one is the empty range at `end + 1`.) -/
def stdGet (n : Nat) (iv : IV) : Option (Nat × Nat) :=
  match iv.form with
  | .pos => if iv.pos < n then some (iv.pos, 1) else none
  | .range => if iv.start ≤ iv.end_ ∧ iv.end_ ≤ n then some (iv.start, iv.end_ - iv.start) else none
  | .rangeTo => if iv.end_ ≤ n then some (0, iv.end_) else none
  | .rangeFrom => if iv.start ≤ n then some (iv.start, n - iv.start) else none
  | .rangeFull => some (0, n)
  | .rangeIncl =>
    if iv.end_ = MAX then none
    else
      let s := if iv.exhausted then iv.end_ + 1 else iv.start
      if s ≤ iv.end_ + 1 ∧ iv.end_ + 1 ≤ n then some (s, iv.end_ + 1 - s) else none
  | .rangeToIncl =>
    if iv.end_ = MAX then none
    else if iv.end_ + 1 ≤ n then some (0, iv.end_ + 1) else none

/-- what a non-panicking accessor must return -/
def expectGet (w : Option (Nat × Nat)) : R :=
  match w with
  | some (s, l) => .ok (.some_ (.win s l))
  | none => .ok .none_

/-- what a panicking accessor must do -/
def expectIndex (w : Option (Nat × Nat)) : R :=
  match w with
  | some (s, l) => .ok (.win s l)
  | none => .err .panic

def Shape.wf : Shape → Prop
  | .leaf => True
  | .nest fs => fs ≠ [] ∧ ∀ f ∈ fs, f.wf

@[simp] theorem wf_nest : (Shape.nest fs).wf ↔ fs ≠ [] ∧ ∀ f ∈ fs, f.wf := by simp [Shape.wf]

/-- on a lockstep container every field yields the same window, whatever the shape -/
theorem buildShape_lock (n : Nat) (iv : IV) (c : Bool) : ∀ sh : Shape, sh.wf → buildShape n iv c sh = leafAcc n iv c
  | .leaf, _ => by simp [buildShape]
  | .nest fs, h => by
    rw [wf_nest] at h
    simp only [buildShape]
    exact go fs h.1 h.2
where go : ∀ fs : List Shape, fs ≠ [] → (∀ f ∈ fs, f.wf) → buildShape.go n iv c fs = leafAcc n iv c
  | [], h, _ => absurd rfl h
  | [f], _, h => by simp only [buildShape.go]; exact buildShape_lock n iv c f (h f (by simp))
  | f :: g :: fs, _, h => by
    have h1 := buildShape_lock n iv c f (h f (by simp))
    have h2 := go (g :: fs) (by simp) (fun x hx => h x (by simp at hx ⊢; right; exact hx))
    simp only [buildShape.go, h1, h2]
    cases leafAcc n iv c <;> simp

theorem addU_small (p : Prof) (x : Nat) (h : x < MAX) : addU p x 1 = some (x + 1) := by
  have : x + 1 ≤ MAX := by omega
  simp [addU, this]

end Soa.IdxIR
