import Soa.Extracted.Index
/-!
# Running the extracted index layer, and std's `SliceIndex` semantics to compare with
-/
namespace Soa.IdxIR

/-- a generated accessor `m` of container kind `k` applied to the index value `iv`, on a
    lockstep container of length `n` and shape `sh`, under build profile `p` -/
def runLT (p : Prof) (t : LT) (k : Kind) (iv : IV) (m : M) : R :=
  match Soa.Extracted.table k iv.form m with
  | some b => eval Soa.Extracted.table p t 8 k iv b
  | none => .err .stuck

/-- on a lockstep container of length `n` and shape `sh` -/
def run (p : Prof) (n : Nat) (sh : Shape) (k : Kind) (iv : IV) (m : M) : R := runLT p (LT.uniform n sh) k iv m

/-- std: the window `slice.get(index)` selects on a slice of length `n` (`none` = `None`);
    `slice[index]` panics exactly when this is `none`.
    (`core::slice::index`: `RangeInclusive` with `end == usize::MAX` is rejected, an exhausted
    one is the empty range at `end + 1`.) -/
def stdGet (n : Nat) (iv : IV) : Option (Nat × Nat) :=
  match iv.form with
  | .pos => if iv.pos < n then some (iv.pos, 1) else none
  | .range => if iv.start ≤ iv.end_ ∧ iv.end_ ≤ n then some (iv.start, iv.end_ - iv.start) else none
  | .rangeTo => if iv.end_ ≤ n then some (0, iv.end_) else none
  | .rangeFrom => if iv.start ≤ n then some (iv.start, n - iv.start) else none
  | .rangeFull => some (0, n)
  | .rangeIncl =>
    if iv.end_ = MAX then none
    else
      let s := if iv.exhausted then iv.end_ + 1 else iv.start
      if s ≤ iv.end_ + 1 ∧ iv.end_ + 1 ≤ n then some (s, iv.end_ + 1 - s) else none
  | .rangeToIncl =>
    if iv.end_ = MAX then none
    else if iv.end_ + 1 ≤ n then some (0, iv.end_ + 1) else none

/-- what a non-panicking accessor must return -/
def expectGet (w : Option (Nat × Nat)) : R :=
  match w with
  | some (s, l) => .ok (.some_ (.win s l))
  | none => .ok .none_

/-- what a panicking accessor must do -/
def expectIndex (w : Option (Nat × Nat)) : R :=
  match w with
  | some (s, l) => .ok (.win s l)
  | none => .err .panic

def Shape.wf : Shape → Prop
  | .leaf => True
  | .nest fs => fs ≠ [] ∧ ∀ f ∈ fs, f.wf

@[simp] theorem wf_nest : (Shape.nest fs).wf ↔ fs ≠ [] ∧ ∀ f ∈ fs, f.wf := by simp [Shape.wf]

theorem leaves_uniform (n : Nat) : ∀ sh : Shape, sh.wf → (LT.uniform n sh).leaves ≠ [] ∧ ∀ x ∈ (LT.uniform n sh).leaves, x = n
  | .leaf, _ => by simp [LT.uniform, LT.leaves]
  | .nest fs, h => by
    rw [wf_nest] at h
    simp only [LT.uniform, LT.leaves]
    exact go fs h.1 h.2
where go : ∀ fs : List Shape, fs ≠ [] → (∀ f ∈ fs, f.wf) →
    LT.leaves.leavesL (LT.uniform.uniformL n fs) ≠ [] ∧ ∀ x ∈ LT.leaves.leavesL (LT.uniform.uniformL n fs), x = n
  | [], h, _ => absurd rfl h
  | [f], _, h => by
    have := leaves_uniform n f (h f (by simp))
    simp only [LT.uniform.uniformL, LT.leaves.leavesL, List.append_nil]
    exact this
  | f :: g :: fs, _, h => by
    have h1 := leaves_uniform n f (h f (by simp))
    have h2 := go (g :: fs) (by simp) (fun x hx => h x (by simp at hx ⊢; right; exact hx))
    simp only [LT.uniform.uniformL, LT.leaves.leavesL] at h2 ⊢
    refine ⟨by intro he; exact h1.1 (List.append_eq_nil_iff.mp he).1, ?_⟩
    intro x hx
    rcases List.mem_append.mp hx with hx | hx
    · exact h1.2 x hx
    · exact h2.2 x hx

@[simp] theorem first_uniform (n : Nat) (sh : Shape) (hw : sh.wf) : (LT.uniform n sh).first = n := by
  have h := leaves_uniform n sh hw
  unfold LT.first
  cases hl : (LT.uniform n sh).leaves with
  | nil => exact absurd hl h.1
  | cons x xs => simp only [List.headD_cons]; exact h.2 x (by simp [hl])

/-- on a lockstep container the debug assertion of `len()` passes: both profiles return `n` -/
@[simp] theorem lenChecked_uniform (p : Prof) (n : Nat) (sh : Shape) (hw : sh.wf) :
    (LT.uniform n sh).lenChecked p = some n := by
  have h := leaves_uniform n sh hw
  have hf := first_uniform n sh hw
  cases p
  · simp only [LT.lenChecked, hf]
    have : (LT.uniform n sh).leaves.all (· == n) = true := by
      rw [List.all_eq_true]; intro x hx; simp [h.2 x hx]
    simp [this]
  · simp [LT.lenChecked, hf]

/-- on a lockstep container every field yields the same window, whatever the shape -/
theorem buildLT_uniform (n : Nat) (iv : IV) (m : Mode) : ∀ sh : Shape, sh.wf → buildLT iv m (LT.uniform n sh) = leafAcc n iv m
  | .leaf, _ => by simp [buildLT, LT.uniform]
  | .nest fs, h => by
    rw [wf_nest] at h
    simp only [buildLT, LT.uniform]
    exact go fs h.1 h.2
where go : ∀ fs : List Shape, fs ≠ [] → (∀ f ∈ fs, f.wf) → buildLT.go iv m (LT.uniform.uniformL n fs) = leafAcc n iv m
  | [], h, _ => absurd rfl h
  | [f], _, h => by simp only [LT.uniform.uniformL, buildLT.go]; exact buildLT_uniform n iv m f (h f (by simp))
  | f :: g :: fs, _, h => by
    have h1 := buildLT_uniform n iv m f (h f (by simp))
    have h2 := go (g :: fs) (by simp) (fun x hx => h x (by simp at hx ⊢; right; exact hx))
    simp only [LT.uniform.uniformL] at h2 ⊢
    simp only [buildLT.go, h1, h2]
    cases hl : leafAcc n iv m with
    | err e => rfl
    | ok v => cases v <;> simp

theorem addU_small (p : Prof) (x : Nat) (h : x < MAX) : addU p x 1 = some (x + 1) := by
  have : x + 1 ≤ MAX := by omega
  simp [addU, this]

end Soa.IdxIR
