import Soa.Model.SkelView
/-!
# Meaning of the extracted skeletons: element references, `swap`, permutation application, `len`

* `to_owned()`: `P { #(§: self.§.clone(),)* }`, a nested field through `From<…Ref>` whose body is
  `value.to_owned()` — every leaf at the referenced position is cloned, in declaration order;
* `RefMut::replace(val)`: per field `mem::replace(&mut *self.§, ptr::read(&val.§))`, then `forget(val)`;
* `SliceMut::swap(a, b)`: `self.§.swap(a, b)` on every field;
* `__private_apply_permutation(p)`: `p.apply_slice_in_place(&mut self.§)` on every field;
* `len()` / `is_empty()`: the first field's answer, every field asserted equal in debug builds.
-/
namespace Soa.Sk
open Soa View Soa.Model

/-- `<§T as ::std::convert::From<_>>::from(self.§)` (shared reference) or `from(&self.§)` (mutable reference) -/
def isFromNested (byRef : Bool) : FE → Bool
  | .path ["<", "§T", "as", "::", "std", "::", "convert", "::", "From", "<", "_", ">", ">", "::", "from"] [.other ts] =>
    ts == (if byRef then ["&", "self", ".", "§"] else ["self", ".§"])
  | _ => false

/-- the `From<…Ref>` impl the nested field goes through: `{ value.to_owned() }` -/
def isFromImpl (f : Fn) : Bool := f.body == [.t ["{", "$0", ".", "to_owned", "(", ")", "}"]] && f.name == "from"

/-- `to_owned()` of a reference at position `p` of `c`: the ids read (one clone per leaf, declaration order) -/
def runToOwned (f fromImpl : Fn) (byRef : Bool) (c : Cols) (p : Nat) : Option (List Nat × Ev) :=
  match skOf f with
  | .lit pre .elem (.init (.call "clone" [] .none)) (.init ne) false =>
    if pre == {} ∧ isFromNested byRef ne ∧ isFromImpl fromImpl ∧ f.name = "to_owned" then
      some (rowIds c p, { clones := rowIds c p })
    else none
  | _ => none

/-- `RefMut::replace(val)` through a reference at position `p` of `c` -/
def runRefReplace (dr : Bool) (f : Fn) (c : Cols) (p : Nat) (e : Cols) : Option Out :=
  match skOf f with
  | .lets pre (.readLet 0 fam (.memReplaceDeref (.local_ "field"))) (.readLet 0 fam' (.call "replace" [.local_ "field"] .none))
      .elem fam'' false fg =>
    if pre.guard = none ∧ pre.emptyNone = false ∧ pre.nullNone = false ∧ fam = fam' ∧ fam = fam'' ∧ f.name = "replace" then
      let r := c.apply2 (replaceOp p) e
      if r.panicked then none   -- a reference always designates a live element
      else some { st := r.st, ret := some r.out, ev := moveInEv dr (pre.md == some 0) (fg == some 0) false e }
    else none
  | _ => none

/-- `slice.swap(a, b)` on a mutable view covering the window `w` of `c` -/
def runSwap (f : Fn) (c : Cols) (w : Win) (a b : Nat) : Option Out :=
  match skOf f with
  | .stmts pre (.stmt (.call "swap" [.param 0, .param 1] .none)) (.stmt (.call "swap" [.param 0, .param 1] .none)) none =>
    if pre == {} ∧ f.name = "swap" then
      if a < w.l ∧ b < w.l then
        let r := c.apply2 (swapOp (w.s + a) (w.s + b)) (noArgs c)
        some { st := r.st, panicked := r.panicked }
      else some { st := c, panicked := true }
    else none
  | _ => none

/-- `__private_apply_permutation`: the gather `new[i] = old[ps[i]]` on the window, in every field -/
def runApplyPermutation (f : Fn) (c : Cols) (w : Win) (ps : List Nat) : Option Cols :=
  match skOf f with
  | .stmts pre (.stmt (.localCall "$0" "apply_slice_in_place" [.selfFieldMut]))
      (.stmt (.call "__private_apply_permutation" [.param 0] .none)) none =>
    if pre == {} ∧ f.name = "__private_apply_permutation" then some (gatherWin c w ps) else none
  | _ => none

/-- the generated `len()` evaluated on a tree of field arrays: `let len = self.§first.len();
    #( debug_assert_eq!(self.§.len(), len); )* len` — a nested field answers with its own generated `len()` -/
def lenTree (p : Prof) : Cols → Option Nat
  | .leaf xs => some xs.length
  | .nest fs =>
    match p with
    | .release => (match fs with | [] => some 0 | f :: _ => lenTree .release f)
    | .debug =>
      match lensL fs with
      | none => none
      | some [] => some 0
      | some (x :: xs) => if (x :: xs).all (· == x) then some x else none
where lensL : List Cols → Option (List Nat)
  | [] => some []
  | f :: fs => match lenTree .debug f, lensL fs with
    | some x, some xs => some (x :: xs)
    | _, _ => none

def isLenFn (f : Fn) (m : String) : Bool :=
  match skOf f with
  | .firstChecked m' (.dbgAssertEq (.call m1 [] .none) x) (.dbgAssertEq (.call m2 [] .none) y) =>
    m' == m && m1 == m && m2 == m && x == y && f.name == m
  | _ => false

def runLen (f : Fn) (p : Prof) (c : Cols) : Option (Option Nat) := if isLenFn f "len" then some (lenTree p c) else none

end Soa.Sk
