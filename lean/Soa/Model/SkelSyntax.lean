/-!
# Shape-generic templates of the generated functions (syntax)

What the translator (`/verif/extract/src/skel.rs`) emits for every generated function: the
body as fixed tokens interleaved with per-field repetitions — the `#( … )*` of the
generator's `quote!`, recovered from the generated code and validated against the real
generators on several struct shapes.  `§` is the field of the repetition, `§T` its type,
`§p…` the generator-private binder that belongs to it, `§first` the first field, `$k` the
function's parameter number `k`.
-/
namespace Soa.Sk

inductive Recv | none | ref | refMut | byValue | byValueMut
  deriving DecidableEq, Repr

inductive Tm
  | t (toks : List String)
  | rep (leaf nest : List String) (sep : String) (trailing : Bool)
  | chain (leaf nest : List String) (method : String)   -- `e0.m(e1).m(e2)…`: a left fold over the fields
  | tuplePat                                            -- `((f0, f1), f2)…`: left-nested tuple pattern of the field names
  | opaque (why : String)
  deriving DecidableEq, Repr

structure Fn where
  key : String
  scope : String
  owner : String
  trait_ : String
  name : String
  file : String
  recv : Recv
  nparams : Nat
  isUnsafe : Bool
  body : List Tm
  deriving DecidableEq, Repr

end Soa.Sk
