import Soa.Model.SkelView
/-!
# Meaning of the extracted skeletons: iterators

A generated iterator is the `Zip` chain of the per-field std slice iterators (a nested field
contributes its own generated iterator); as a value, one window of not-yet-yielded
positions per leaf.  `next` / `next_back` step every component and re-tuple the items into a
`…Ref` / `…RefMut`; `len` / `size_hint` are forwarded to the chain.

std's `Zip` is modelled for components of equal length (lockstep); on components of
different lengths it yields while every component can (`zipLen`), which is all the
properties need (C19 / C20 treat unequal lengths separately).
-/
namespace Soa.Sk
open Soa View

/-- `iter()` / `iter_mut()` / `into_iter()` of a view: the chain of the field iterators, each over its field's window -/
def runIterNew (f : Fn) (self : VT LV) : R (VT LV) :=
  match skOf f with
  | .zipNew ty (.call m [] .none) (.call m' [] .none) =>
    if (ty == .iter ∧ m = "iter" ∨ ty == .iterMut ∧ m = "iter_mut") ∧ m' = f.name then
      self.mapR (fun v => match v with | .win w => .ok (.win w) | _ => .stuck)
    else .stuck
  | _ => .stuck

def winOf : LV → Option Win | .win w => some w | _ => none

/-- number of items the zip chain can still yield -/
def zipLen (t : VT LV) : Nat :=
  match VT.flat' t with
  | [] => 0
  | v :: vs => (vs.map lenOf).foldl min (lenOf v)
where
  lenOf : LV → Nat | .win w => w.l | _ => 0
  VT.flat' : VT LV → List LV
    | .leaf a => [a]
    | .nest fs => flatL' fs
  flatL' : List (VT LV) → List LV
    | [] => []
    | f :: fs => VT.flat' f ++ flatL' fs

/-- one step of the chain: the yielded positions (a `…Ref`) and the iterator afterwards; `none_` when exhausted -/
def runIterStep (f : Fn) (self : VT LV) : R (Option (VT LV) × VT LV) :=
  match skOf f with
  | .zipStep m ty =>
    if (ty == .ref ∨ ty == .refMut) ∧ m = f.name ∧ (m = "next" ∨ m = "next_back") then
      if zipLen self = 0 then .ok (none, self)
      else
        let back := m == "next_back"
        let n := zipLen self
        let item : R (VT LV) := self.mapR (fun v => match v with
          | .win w => .ok (.pos (if back then (w.s + n - 1 : Nat) else w.s))
          | _ => .stuck)
        let rest : R (VT LV) := self.mapR (fun v => match v with
          | .win w => .ok (.win (if back then ⟨w.s, n - 1⟩ else ⟨w.s + 1, w.l - 1⟩))
          | _ => .stuck)
        item.bind (fun i => rest.map (fun r => (some i, r)))
    else .stuck
  | _ => .stuck

/-- `len()` / `size_hint()`: `self.0.len()` — what the chain can still yield -/
def isIterLen (f : Fn) : Bool :=
  (f.body == [.t ["{", "self", ".", "0", ".", "len", "(", ")", "}"]] && f.name == "len") ||
  (f.body == [.t ["{", "self", ".", "0", ".", "size_hint", "(", ")", "}"]] && f.name == "size_hint")

def runIterLen (f : Fn) (self : VT LV) : Option Nat := if isIterLen f then some (zipLen self) else none

/-- delegations: `vec.iter()` = `self.as_slice().into_iter()` etc. -/
def isDelegation (f : Fn) (via last : String) : Bool :=
  f.body == [.t ["{", "self", ".", via, "(", ")", ".", last, "(", ")", "}"]]

end Soa.Sk
