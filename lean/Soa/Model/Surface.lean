/-!
# Compile-time surface of the generated types (C18)

What a model can carry of "the generated types give the same compile-time guarantees as the
std types they stand for":

* the **field type constructors** of the nine generated types (`Vec<T>`, `&'a [T]`,
  `&'a mut [T]`, `&'a T`, `&'a mut T`, `*const T`, `*mut T`, `slice::Iter`, `slice::IterMut`,
  a nested field contributing the nested type of the same kind) — extracted from /repo;
* std's rules for auto traits, `Copy` and lifetime variance of those constructors (trusted:
  they are facts about std and the language), and the structural rule for structs
  (conjunction over fields), evaluated by recursion over the shape of the user struct;
* the **signature table** of every generated function (receiver mode, whether the output
  carries mutable / shared access, `unsafe`), extracted from /repo, and the discipline it
  has to satisfy;
* a small **loan calculus** (what rustc's borrow checker does with one source and the
  results of calls on it) that predicts the verdict of every program of the probe corpus.

rustc is the judge of the probe programs; this file is the calculus whose predictions are
compared with rustc's verdicts on every run.
-/
namespace Soa.Surface

/-- the nine generated types -/
inductive K9 | vec | slice | sliceMut | ref | refMut | ptr | ptrMut | iter | iterMut
  deriving DecidableEq, Repr

def K9.all : List K9 := [.vec, .slice, .sliceMut, .ref, .refMut, .ptr, .ptrMut, .iter, .iterMut]

/-- type constructor of a field of a generated struct -/
inductive Ctor
  | vec | sliceRef | sliceMutRef | ref | refMut | ptrConst | ptrMut | sliceIter | sliceIterMut
  | nested (k : K9)
  | other
  deriving DecidableEq, Repr

/-- what each generated type stores per plain field -/
def ctorOf : K9 → Ctor
  | .vec => .vec | .slice => .sliceRef | .sliceMut => .sliceMutRef | .ref => .ref | .refMut => .refMut
  | .ptr => .ptrConst | .ptrMut => .ptrMut | .iter => .sliceIter | .iterMut => .sliceIterMut

/-! ## std facts about the constructors (trusted) -/

/-- `(Send, Sync)` of `C<T>` given `(T: Send, T: Sync)` -/
def ctorAuto : Ctor → Bool × Bool → Bool × Bool
  | .vec, (s, y) => (s, y)                 -- Vec<T>: Send iff T: Send, Sync iff T: Sync
  | .sliceRef, (_, y) => (y, y)            -- &[T]: Send iff T: Sync, Sync iff T: Sync
  | .ref, (_, y) => (y, y)                 -- &T
  | .sliceMutRef, (s, y) => (s, y)         -- &mut [T]: Send iff T: Send, Sync iff T: Sync
  | .refMut, (s, y) => (s, y)              -- &mut T
  | .ptrConst, _ => (false, false)         -- raw pointers are neither
  | .ptrMut, _ => (false, false)
  | .sliceIter, (_, y) => (y, y)           -- slice::Iter<T>: as &[T]
  | .sliceIterMut, (s, y) => (s, y)        -- slice::IterMut<T>: as &mut [T]
  | .nested _, a => a
  | .other, _ => (false, false)

/-- is `C<T>` `Copy` (for every `T`)? -/
def ctorCopy : Ctor → Bool
  | .sliceRef | .ref | .ptrConst | .ptrMut => true
  | _ => false

/-- is `C<'a, T>` covariant in `'a`? (all reference constructors are; `Vec`/raw pointers have no lifetime) -/
def ctorCovariantLt : Ctor → Bool
  | .other => false
  | _ => true

/-- is `C<T>` covariant in `T`? (mutable references, `*mut` and `IterMut` are invariant) -/
def ctorCovariantTy : Ctor → Bool
  | .vec | .sliceRef | .ref | .ptrConst | .sliceIter => true
  | _ => false

/-! ## shapes with auto-trait flags on the leaves -/

inductive Sh
  | leaf (send sync : Bool)
  | nest (fs : List Sh)
  deriving Repr

/-- every struct has at least one field (the derive rejects empty structs) -/
def Sh.wf : Sh → Bool
  | .leaf _ _ => true
  | .nest fs => !fs.isEmpty && wfL fs
where wfL : List Sh → Bool
  | [] => true
  | f :: fs => f.wf && wfL fs

def and2 (a b : Bool × Bool) : Bool × Bool := (a.1 && b.1, a.2 && b.2)

/-- `(Send, Sync)` of the user's element type: a struct is Send/Sync iff all its fields are -/
def Sh.elem : Sh → Bool × Bool
  | .leaf s y => (s, y)
  | .nest fs => elemL fs
where elemL : List Sh → Bool × Bool
  | [] => (true, true)
  | f :: fs => and2 f.elem (elemL fs)

/-- `(Send, Sync)` of the generated type of kind `k` for a user struct of shape `sh`: a struct
    of `ctorOf k` applied to every plain field and the generated type of kind `k` of every
    nested field; the iterators are `Zip`s of the same, which is Send/Sync iff both sides are -/
def Sh.gen (k : K9) : Sh → Bool × Bool
  | .leaf s y => ctorAuto (ctorOf k) (s, y)
  | .nest fs => genL k fs
where genL (k : K9) : List Sh → Bool × Bool
  | [] => (true, true)
  | f :: fs => and2 (f.gen k) (genL k fs)

/-- the std type each generated kind stands for, applied to the element type -/
def stdAuto (k : K9) (e : Bool × Bool) : Bool × Bool := ctorAuto (ctorOf k) e

/-! ## signatures -/

/-- how a call takes the container it is called on -/
inductive Mode | shared | excl | value | none
  deriving DecidableEq, Repr

/-- what kind of access to the container's elements the result carries -/
inductive Out | mutable | shared | none
  deriving DecidableEq, Repr

/-- source kinds: the nine generated types, the element type itself, anything else -/
inductive SrcK | gen (k : K9) | elem | other
  deriving DecidableEq, Repr

structure Sig where
  owner : String
  trait_ : String
  name : String
  unsafe_ : Bool
  mode : Mode
  src : SrcK
  out : Out
  /-- the result borrows from the borrow through which the source was taken (elided lifetime, or the
      borrow's lifetime is named in the result type); `false`: it carries the source's own lifetime -/
  tied : Bool
  deriving DecidableEq, Repr

/-- kinds that are `Copy` by construction (they derive it and all their fields are `Copy`) -/
def K9.copy : K9 → Bool
  | .slice | .ref | .ptr | .ptrMut => true
  | _ => false

/-- kinds that hold exclusive access to elements -/
def K9.exclusive : K9 → Bool
  | .sliceMut | .refMut | .iterMut => true
  | _ => false

/-- **discipline**: a safe function hands out mutable access only from an exclusive borrow of its
    source that the result keeps alive (`tied`), or by consuming a source that is itself exclusive
    access and not `Copy`; the one exception is a mutable iterator's `next`/`next_back`, whose results
    carry the iterator's own lifetime because it yields every element at most once (C06) -/
def Sig.ok (s : Sig) : Bool :=
  s.unsafe_ ||
  match s.out with
  | .mutable =>
    (match s.mode, s.src with
     | .excl, .gen k => s.tied || k == .iterMut
     | .excl, .elem => s.tied
     | .value, .gen k => k.exclusive && !k.copy
     | _, _ => false)
  | _ => true

/-- what the result of a call keeps borrowed from the source *variable* while it is alive: nothing
    if it carries no access or carries the source's own lifetime, else the mode of the borrow -/
def Sig.hold (s : Sig) : Mode :=
  match s.mode with
  | .value => .none
  | m => if s.out == .none || !s.tied then .none else m

/-- what the result keeps borrowed from the *root* container (the vector all views derive from) -/
def Sig.rootHold (s : Sig) : Mode :=
  match s.out with
  | .mutable => .excl
  | .shared => .shared
  | .none => .none

/-! ## loan calculus: one source, results of calls on it, NLL liveness -/

inductive Step
  | call (take hold : Mode)  -- a call takes the source in mode `take`; its result (numbered by call order) keeps `hold`
  | use (k : Nat)            -- use result `k`
  | endScope                 -- the source goes out of scope
  deriving DecidableEq, Repr

/-- result `k` is used at or after position `p` -/
def usedFrom (prog : List Step) (p k : Nat) : Bool := (prog.drop p).any (· == .use k)

/-- number of calls strictly before position `p` (= the number of the result created at `p`) -/
def callsBefore (prog : List Step) (p : Nat) : Nat :=
  ((prog.take p).filter (fun s => match s with | .call _ _ => true | _ => false)).length

/-- (take, hold) of the calls, in order -/
def calls (prog : List Step) : List (Mode × Mode) :=
  prog.filterMap (fun s => match s with | .call t h => some (t, h) | _ => none)

/-- does a live result holding `h` forbid taking the source in mode `t`? -/
def conflicts (h t : Mode) : Bool :=
  match h, t with
  | .none, _ | _, .none => false
  | .value, _ => false
  | .shared, .shared => false
  | _, _ => true                -- excl held: any access; shared held: excl access or a move (E0499/E0502/E0505)

/-- the step at position `p` is accepted; `copy`: the source is a `Copy` value, so taking it by
    value is a read and does not move it -/
def stepOk (copy : Bool) (prog : List Step) (p : Nat) : Bool :=
  match prog[p]? with
  | none => true
  | some (.use _) => true
  | some (.call t _) =>
    let t' := if t == .value && copy then Mode.shared else t
    let earlier := List.range (callsBefore prog p)
    earlier.all (fun k => !(usedFrom prog (p + 1) k && conflicts ((calls prog).getD k (.none, .none)).2 t')) &&
    -- the source was not moved out before (E0382)
    (copy || t == .none || earlier.all (fun k => ((calls prog).getD k (.none, .none)).1 != .value))
  | some .endScope =>
    -- nothing borrowed from the source is used afterwards (E0597)
    (List.range (callsBefore prog p)).all (fun k =>
      !(usedFrom prog (p + 1) k &&
        (((calls prog).getD k (.none, .none)).2 == .shared || ((calls prog).getD k (.none, .none)).2 == .excl)))

/-- rustc's verdict as the calculus predicts it -/
def accepted (copy : Bool) (prog : List Step) : Bool := (List.range prog.length).all (stepOk copy prog)

/-! ## driver: `surface <copy 0|1> <steps…>` with steps `c<take><hold>` (modes S E V N), `u<k>`, `end` -/

def parseMode (c : Char) : Option Mode :=
  if c == 'S' then some .shared else if c == 'E' then some .excl else if c == 'V' then some .value
  else if c == 'N' then some .none else none

def parseStep (s : String) : Option Step :=
  match s.toList with
  | ['c', t, h] => match parseMode t, parseMode h with
    | some t, some h => some (.call t h)
    | _, _ => none
  | ['e', 'n', 'd'] => some .endScope
  | 'u' :: ds => (String.ofList ds).toNat?.map .use
  | _ => none

def optAll {α : Type} : List (Option α) → Option (List α)
  | [] => some []
  | none :: _ => none
  | some x :: xs => match optAll xs with | some ys => some (x :: ys) | none => none

def fmt2 (p : Bool × Bool) : String := (if p.1 then "1" else "0") ++ (if p.2 then "1" else "0")

/-- `auto <send><sync> …` (one flag pair per leaf of a flat struct; `(`/`)` nest) is not needed by
    the probes: they use structs of one payload kind, so the driver takes the element flags -/
def surfaceLine (line : String) : String :=
  match line.trimAscii.toString.splitOn " " with
  | "surface" :: c :: steps =>
    match optAll ((steps.filter (· ≠ "")).map parseStep) with
    | some prog => if accepted (c == "1") prog then "accept" else "reject"
    | none => "bad-op"
  | ["auto", s, y] =>
    let e := (s == "1", y == "1")
    " ".intercalate (K9.all.map (fun k => fmt2 (stdAuto k e))) ++ " copy=" ++
      String.ofList (K9.all.map (fun k => if k.copy then '1' else '0'))
  | _ => "bad-op"

end Soa.Surface
