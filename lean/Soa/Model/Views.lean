import Soa.Model.Vec
import Soa.Model.IndexRun
/-!
# Views, iterators, sorting and pointer bundles as *parent positions*

A view (`…Slice`, `…SliceMut`), an iterator or a pointer bundle of a lockstep container is a
set of positions of the parent's field arrays — the same in every field, because the
generated code performs the same std slice / pointer operation on every field.  A window
`⟨s, l⟩` stands for the positions `s, s+1, …, s+l-1`.  Hand-written from `slice.rs`,
`iter.rs`, `ptr.rs`; range indexing goes through the extracted index layer.
-/
namespace Soa.View
open Soa

structure Win where
  s : Nat
  l : Nat
  deriving Repr, DecidableEq

/-- outcome of a view operation -/
inductive Res (α : Type) where
  | ok (a : α)
  | none      -- the accessor returned `None`
  | panic
  | stuck     -- not expressible (never produced on the unchanged tree)
  deriving Repr

def Win.positions (w : Win) : List Nat := List.range' w.s w.l

/-- `split_at(k)` / `split_at_mut(k)`: per field `self.f.split_at(k)`; std panics iff `k > len` -/
def splitAt (w : Win) (k side : Nat) : Res Win :=
  if k ≤ w.l then .ok (if side = 0 then ⟨w.s, k⟩ else ⟨w.s + k, w.l - k⟩) else .panic

/-- `split_first()` / `split_last()` (and `_mut`): `None` when `is_empty()`, else per field
    `split_first().unwrap()`: (position of the element, window of the rest) -/
def splitFirst (w : Win) : Res (Nat × Win) :=
  if w.l = 0 then .none else .ok (w.s, ⟨w.s + 1, w.l - 1⟩)
def splitLast (w : Win) : Res (Nat × Win) :=
  if w.l = 0 then .none else .ok (w.s + w.l - 1, ⟨w.s, w.l - 1⟩)

/-- `first()` / `last()` (and `_mut`) -/
def first (w : Win) : Res Nat := if w.l = 0 then .none else .ok w.s
def last (w : Win) : Res Nat := if w.l = 0 then .none else .ok (w.s + w.l - 1)

/-- indexing a view through the extracted index layer: the accessor `m` of kind `k` on a slice
    of length `w.l`; the resulting window is relative to the view -/
def viaIndex (p : IdxIR.Prof) (sh : IdxIR.Shape) (k : IdxIR.Kind) (m : IdxIR.M) (w : Win) (iv : IdxIR.IV) : Res Win :=
  match IdxIR.run p w.l sh k iv m with
  | .ok (.win a l) => .ok ⟨w.s + a, l⟩
  | .ok (.some_ (.win a l)) => .ok ⟨w.s + a, l⟩
  | .ok .none_ => .none
  | .err .panic => .panic
  | _ => .stuck

/-- the same by std's own rules (specification side) -/
def viaStd (getting : Bool) (w : Win) (iv : IdxIR.IV) : Res Win :=
  match IdxIR.stdGet w.l iv with
  | some (a, l) => .ok ⟨w.s + a, l⟩
  | none => if getting then .none else .panic

/-- `vec.slice(a..b)` / `vec.slice_mut(a..b)`: per field `&self.f[a..b]` (std indexing) -/
def vecSlice (n a b : Nat) : Res Win := if a ≤ b ∧ b ≤ n then .ok ⟨a, b - a⟩ else .panic

/-! ## iterators: the positions not yet yielded -/

/-- `next()`: every field's `slice::Iter` yields its front element -/
def next (w : Win) : Option Nat × Win := if w.l = 0 then (none, w) else (some w.s, ⟨w.s + 1, w.l - 1⟩)
/-- `next_back()` -/
def nextBack (w : Win) : Option Nat × Win := if w.l = 0 then (none, w) else (some (w.s + w.l - 1), ⟨w.s, w.l - 1⟩)

/-- `nth(k)`: std's default — `k` elements are skipped, the next one is yielded; overshooting exhausts the iterator -/
def nth (w : Win) (k : Nat) : Option Nat × Win :=
  if k < w.l then (some (w.s + k), ⟨w.s + k + 1, w.l - k - 1⟩) else (none, ⟨w.s + w.l, 0⟩)
/-- `nth_back(k)` -/
def nthBack (w : Win) (k : Nat) : Option Nat × Win :=
  if k < w.l then (some (w.s + w.l - 1 - k), ⟨w.s, w.l - 1 - k⟩) else (none, ⟨w.s, 0⟩)
/-- `last()`: consumes the iterator, yields its last element -/
def lastOf (w : Win) : Option Nat × Win :=
  if w.l = 0 then (none, w) else (some (w.s + w.l - 1), ⟨w.s + w.l, 0⟩)

/-! ## reading and writing the parent at positions -/

/-- ids of the element at parent position `i` (one per leaf, declaration order) -/
def rowIds (c : Cols) (i : Nat) : List Nat := c.leaves.map (fun l => l.getD i 0)

/-- the columns visible through a window -/
def winCols (c : Cols) (w : Win) : List (List Nat) := c.leaves.map (fun l => (l.drop w.s).take w.l)

/-- apply a function to every leaf array -/
def mapLeaves (f : List Nat → List Nat) : Cols → Cols
  | .leaf xs => .leaf (f xs)
  | .nest fs => .nest (mapLeavesL f fs)
where mapLeavesL (f : List Nat → List Nat) : List Cols → List Cols
  | [] => []
  | c :: cs => mapLeaves f c :: mapLeavesL f cs

/-- replace, in every leaf, the segment `[s, s+l)` by the values at the positions `ps` (a gather
    restricted to a window: what a sort of a sub-slice does to the parent) -/
def gatherWin (c : Cols) (w : Win) (ps : List Nat) : Cols :=
  mapLeaves (fun l => l.take w.s ++ ps.map (fun p => l.getD p 0) ++ l.drop (w.s + w.l)) c

/-- is `p` a permutation of `0..n` -/
def isPerm (p : List Nat) (n : Nat) : Bool :=
  p.length == n && (List.range n).all (fun i => p.contains i)

end Soa.View
