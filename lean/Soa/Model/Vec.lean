import Soa.Model.Basic
/-!
# Model of the generated `…Vec` methods (`soa-derive-internal/src/vec.rs`, `iter.rs`)

One definition per template, following it literally: the guard the template has, then the
same std call on every field in declaration order (`Cols.apply2`, early exit on the first
panic), then the ownership steps (`ptr::read` per field, `mem::forget(value)`).
Hand-written; tied to the code by the correspondence harness (`I` lines).
-/
namespace Soa.Model

/-- what a call leaves behind and hands back -/
structure Out where
  st : Cols                  -- the container as left behind (also after a panic)
  ret : Option Cols := none  -- value handed back: element (one row), container, or nothing
  isNone : Bool := false     -- the call returned `None`
  panicked : Bool := false
  ev : Ev := {}              -- destroyed / cloned during the call (including unwinding)
  vis : List (List Nat) := []  -- elements shown to the user callback, in call order
  other : Option Cols := none  -- new content of the second container operand (`append`)
  made : List Nat := []        -- payloads created by the user callback during the call

abbrev noArgs (c : Cols) : Cols := c.const []

/-- `push`: `self.f.push(ptr::read(&value.f))` for every field, then `forget(value)` -/
def push (c e : Cols) : Out :=
  let r := c.apply2 appendOp e
  { st := r.st, panicked := r.panicked }

/-- `insert`: guard `index > self.len()`, then per-field `insert`, then `forget` -/
def insert (drops : Bool) (c : Cols) (i : Nat) (e : Cols) : Out :=
  if i > c.firstLen then { st := c, panicked := true, ev := dropWhole drops e }
  else
    let r := c.apply2 (insertOp i) e
    { st := r.st, panicked := r.panicked, ev := if r.panicked then dropWhole drops e else {} }

/-- `replace`: guard `index >= self.len()`, then per-field `mem::replace`, then `forget` -/
def replace (drops : Bool) (c : Cols) (i : Nat) (e : Cols) : Out :=
  if i ≥ c.firstLen then { st := c, panicked := true, ev := dropWhole drops e }
  else
    let r := c.apply2 (replaceOp i) e
    if r.panicked then { st := r.st, panicked := true, ev := dropWhole drops e }
    else { st := r.st, ret := some r.out }

/-- `remove`: per-field `remove(index)`, reassembled -/
def remove (c : Cols) (i : Nat) : Out :=
  let r := c.apply2 (removeOp i) (noArgs c)
  if r.panicked then { st := r.st, panicked := true, ev := dropFields r.out }
  else { st := r.st, ret := some r.out }

/-- `swap_remove`: per-field `swap_remove(index)`, reassembled -/
def swapRemove (c : Cols) (i : Nat) : Out :=
  let r := c.apply2 (swapRemoveOp i) (noArgs c)
  if r.panicked then { st := r.st, panicked := true, ev := dropFields r.out }
  else { st := r.st, ret := some r.out }

/-- `pop`: `None` when `is_empty()`, else per-field `pop().unwrap()` -/
def pop (c : Cols) : Out :=
  if c.firstLen = 0 then { st := c, isNone := true }
  else
    let r := c.apply2 popOp (noArgs c)
    if r.panicked then { st := r.st, panicked := true, ev := dropFields r.out }
  else { st := r.st, ret := some r.out }

/-- `truncate(len)`: `while self.len() > len { drop(self.pop()) }` — every discarded element
    is reassembled and destroyed as a whole struct value -/
def truncateLoop (drops : Bool) (k : Nat) : Nat → Cols → Ev → Out
  | 0, c, ev => { st := c, ev := ev }
  | fuel + 1, c, ev =>
    if c.firstLen > k then
      let r := pop c
      if r.panicked then { st := r.st, panicked := true, ev := ev ++ r.ev }
      else match r.ret with
        | some e => truncateLoop drops k fuel r.st (ev ++ dropWhole drops e)
        | none => { st := r.st, ev := ev }
    else { st := c, ev := ev }

def truncate (drops : Bool) (c : Cols) (k : Nat) : Out :=
  truncateLoop drops k (c.firstLen - k + 1) c {}

/-- `clear`: `self.truncate(0)` -/
def clear (drops : Bool) (c : Cols) : Out := truncate drops c 0

/-- `Drop for …Vec`: `while let Some(value) = self.pop() { drop(value) }` -/
def dropVec (drops : Bool) (c : Cols) : Out := truncate drops c 0

/-- `append`: per-field `append(&mut other.f)`; `other` is left empty -/
def append (c d : Cols) : Out :=
  let r := c.apply2 appendOp d
  { st := r.st, panicked := r.panicked, other := some r.out }

/-- `split_off(at)`: per-field `split_off(at)` collected into a new vector -/
def splitOff (c : Cols) (at_ : Nat) : Out :=
  let r := c.apply2 (splitOffOp at_) (noArgs c)
  if r.panicked then { st := r.st, panicked := true, ev := dropFields r.out }
  else { st := r.st, ret := some r.out }

/-- the element at position `i`, as the callback sees it (`slice.get(i).unwrap()`) -/
def rowAt (c : Cols) (i : Nat) : List Nat := (c.apply2 (pickOp [i]) (noArgs c)).out.flat

/-- overwrite position `pos` of DFS leaf number `leaf` with `id`; `j` counts leaves -/
def setLeaf (leaf pos id : Nat) : Cols → Nat → Cols × Nat
  | .leaf xs, j => (if j = leaf then .leaf (xs.set pos id) else .leaf xs, j + 1)
  | .nest fs, j => let r := setLeafL leaf pos id fs j; (.nest r.1, r.2)
where setLeafL (leaf pos id : Nat) : List Cols → Nat → List Cols × Nat
  | [], j => ([], j)
  | c :: cs, j =>
    let r := setLeaf leaf pos id c j
    let r' := setLeafL leaf pos id cs r.2
    (r.1 :: r'.1, r'.2)

/-- a write `*ref.f = new` through a mutable element reference: the old value is destroyed -/
def writeLeaf (c : Cols) (leaf pos id : Nat) : Cols × Ev × List Nat :=
  match (c.leaves.getD leaf [])[pos]? with
  | some old => ((setLeaf leaf pos id c 0).1, { drops := [old] }, [id])
  | none => (c, {}, [])

structure LoopOut where
  c : Cols
  del : Nat
  vis : List (List Nat)
  boom : Bool
  ev : Ev
  made : List Nat

/-- the loop of `retain` / `retain_mut`:
    `for i in 0..len { if !f(slice.get(i).unwrap()) { del += 1 } else if del > 0 { slice.swap(i - del, i) } }`.
    `keep k` is the answer of the callback at its `k`-th call, `boom` the call that panics,
    `touch k pos` the write the (`retain_mut`) callback makes to the element it is shown. -/
def retainLoop (keep : Nat → Bool) (boom : Option Nat) (touch : Nat → Nat → Option (Nat × Nat)) :
    Nat → Nat → Nat → Cols → List (List Nat) → Ev → List Nat → LoopOut
  | 0, _, del, c, vis, ev, made => ⟨c, del, vis, false, ev, made⟩
  | fuel + 1, i, del, c, vis, ev, made =>
    let vis' := vis ++ [rowAt c i]
    let (c, ev, made) := match touch i i with
      | some (l, id) => let w := writeLeaf c l i id; (w.1, ev ++ w.2.1, made ++ w.2.2)
      | none => (c, ev, made)
    if boom = some i then ⟨c, del, vis', true, ev, made⟩
    else if !keep i then retainLoop keep boom touch fuel (i + 1) (del + 1) c vis' ev made
    else if del > 0 then
      retainLoop keep boom touch fuel (i + 1) del (c.apply2 (swapOp (i - del) i) (noArgs c)).st vis' ev made
    else retainLoop keep boom touch fuel (i + 1) del c vis' ev made

/-- `retain(f)` / `retain_mut(f)`: the loop, then `if del > 0 { self.truncate(len - del) }` -/
def retain (drops : Bool) (c : Cols) (keep : Nat → Bool) (boom : Option Nat)
    (touch : Nat → Nat → Option (Nat × Nat)) : Out :=
  let len := c.firstLen
  let r := retainLoop keep boom touch len 0 0 c [] {} []
  if r.boom then { st := r.c, panicked := true, vis := r.vis, ev := r.ev, made := r.made }
  else if r.del > 0 then
    let t := truncate drops r.c (len - r.del)
    { t with vis := r.vis, ev := r.ev ++ t.ev, made := r.made }
  else { st := r.c, vis := r.vis, ev := r.ev, made := r.made }

/-- `FromIterator` / `Extend<T>`: `for item in iter { self.push(item) }` -/
def extend (c : Cols) : List Cols → Out
  | [] => { st := c }
  | e :: es =>
    let r := push c e
    if r.panicked then r else extend r.st es

/-- the element at position `i` as a one-row tree (what `slice.get(i).unwrap().to_owned()` rebuilds) -/
def rowCols (c : Cols) (i : Nat) : Cols := (c.apply2 (pickOp [i]) (noArgs c)).out

/-- `resize(new_len, value)` (Clone API), element by element: growing reserves, pushes
    `new_len - len - 1` clones of the value (`value.as_ref().to_owned()`) and then the value
    itself; otherwise `truncate(new_len)` and the value is dropped. -/
def resize (drops : Bool) (c : Cols) (n : Nat) (e : Cols) : Out :=
  let len := c.firstLen
  if n > len then
    let r := extend c (List.replicate (n - len) e)
    { st := r.st, panicked := r.panicked,
      ev := { clones := (List.replicate (n - len - 1) e.flat).flatten } }
  else
    let t := truncate drops c n
    { st := t.st, panicked := t.panicked, ev := t.ev ++ dropWhole drops e }

/-- `extend_from_slice(other)`: `reserve(other.len())`, then `push(item.to_owned())` for every
    element of `other` -/
def extendFromSlice (c src : Cols) : Out :=
  let r := extend c ((List.range src.firstLen).map (rowCols src))
  { st := r.st, panicked := r.panicked, ev := { clones := src.flat } }

/-- `to_vec()` of a slice: per-field `to_vec()` -/
def toVec (src : Cols) : Out :=
  { st := src, ret := some src, ev := { clones := src.flat } }

end Soa.Model

namespace Soa.Model

/-- build profile: `debug_assert*` executed or not (arithmetic overflow: see `IdxIR.Prof`) -/
inductive Prof | debug | release
  deriving DecidableEq

/-- the generated `len()`: `let len = self.first.len(); debug_assert_eq!(self.f.len(), len) …; len` —
    the first field's length; a debug build panics (`none`) when another field disagrees -/
def len (p : Prof) (c : Cols) : Option Nat :=
  match p with
  | .release => some c.firstLen
  | .debug => if c.leaves.all (fun l => l.length == c.firstLen) then some c.firstLen else none

/-- the generated `is_empty()`, likewise -/
def isEmpty (p : Prof) (c : Cols) : Option Bool :=
  match p with
  | .release => some (c.firstLen == 0)
  | .debug => if c.leaves.all (fun l => (l.length == 0) == (c.firstLen == 0)) then some (c.firstLen == 0) else none

end Soa.Model
