import Soa.Model.Skel
import Soa.Model.Vec
/-!
# Meaning of the extracted skeletons: element-level vector operations

`runElem` gives the observable outcome (`Model.Out`) of a generated `…Vec` method *as read
from its extracted template*: the guard the template has, the std call the template makes
on a leaf array (`leafOp`: Rust method name and argument forms ↦ list operation of
`Soa/Ops.lean`), applied to every field in declaration order with early exit on the first
panic (`Cols.apply2`; a nested field receives the call of the same generated function, which
`nestOk` checks), the ownership wrapper (`ManuallyDrop` / `mem::forget`) and the shape of
the result.  The table `leafOp` is the only place where Rust text is given a meaning; it is
part of the std model and is validated by the correspondence on every run.
-/
namespace Soa.Sk
open Soa Soa.Model

/-- actual arguments of a call, by parameter position -/
inductive ArgV
  | nat (n : Nat)
  | elem (e : Cols)    -- a struct value (one row), passed by value
  | cont (c : Cols)    -- another container (`&mut other`)

def natArg (ps : List ArgV) (k : Nat) : Option Nat :=
  match ps[k]? with | some (.nat n) => some n | _ => none

def colsArg (ps : List ArgV) (k : Nat) : Option Cols :=
  match ps[k]? with | some (.elem e) => some e | some (.cont c) => some c | _ => none

/-- the struct values passed by value: destroyed when the function unwinds before taking them apart -/
def byValue : List ArgV → List Cols
  | [] => []
  | .elem e :: ps => e :: byValue ps
  | _ :: ps => byValue ps

def dropAll (dr : Bool) : List Cols → Ev
  | [] => {}
  | e :: es => dropWhole dr e ++ dropAll dr es

def cmpEval : String → Nat → Nat → Option Bool
  | ">", a, b => some (decide (a > b))
  | ">=", a, b => some (decide (a ≥ b))
  | "<", a, b => some (decide (a < b))
  | "<=", a, b => some (decide (a ≤ b))
  | "==", a, b => some (decide (a = b))
  | "!=", a, b => some (decide (a ≠ b))
  | _, _, _ => none

/-- the std `Vec<T>` call a per-field expression makes on a leaf array, as a list operation -/
def leafOp (ps : List ArgV) : FE → Option PolyOp
  | .call "push" [.moveIn _] .none => some appendOp
  | .call "insert" [.param i, .moveIn _] .none => (natArg ps i).map insertOp
  | .call "remove" [.param i] .none => (natArg ps i).map removeOp
  | .call "swap_remove" [.param i] .none => (natArg ps i).map swapRemoveOp
  | .call "pop" [] .unwrap => some popOp
  | .call "append" [.fieldMut _] .none => some appendOp
  | .call "split_off" [.param i] .none => (natArg ps i).map splitOffOp
  | .memReplaceIdx (.param i) (.local_ "field") => (natArg ps i).map replaceOp
  | _ => none

/-- where the argument column of the per-field call comes from -/
inductive Src | none | moved (k : Nat) | borrowedMut (k : Nat)
  deriving DecidableEq

def argSrc : List Arg → Src
  | [] => .none
  | .moveIn k :: _ => .moved k
  | .fieldMut k :: _ => .borrowedMut k
  | _ :: as => argSrc as

def feSrc : FE → Src
  | .call _ args _ => argSrc args
  | _ => .none

def itemFE : Item → Option FE
  | .stmt e | .letP _ e | .letF e | .readLet _ _ e | .init e => some e
  | _ => none

def itemSrc : Item → Src
  | .readLet k _ _ => .moved k
  | .stmt e | .letP _ e | .init e => feSrc e
  | _ => .none

/-- the nested field gets the call of the same generated function with the same arguments -/
def nestOk (own : String) (leaf nest : Item) : Bool :=
  match leaf, nest with
  | .readLet k f (.memReplaceIdx i v), .readLet k' f' (.call m [i', v'] .none) =>
    k == k' && f == f' && m == own && i == i' && v == v'
  | l, n =>
    l == n && (match itemFE l with | some (.call m _ _) => m == own | _ => false)

/-- events for the moved-in value `e` once the per-field calls are over (`panicked`: they unwound) -/
def moveInEv (dr : Bool) (md forget : Bool) (panicked : Bool) (e : Cols) : Ev :=
  if md then {}                          -- `ManuallyDrop`: never destroyed by this function
  else if panicked then dropWhole dr e   -- unwinding destroys the by-value parameter
  else if forget then {} else dropWhole dr e

/-- result shape of an element-level method -/
inductive RetKind | unit | elem | container
  deriving DecidableEq

/-- the per-field part: guard, `is_empty` test, then the same std call on every field -/
def runCore (dr : Bool) (own : String) (pre : Pre) (leaf nest : Item) (forget : Option Nat) (rk : RetKind)
    (c : Cols) (ps : List ArgV) : Option Out :=
  if !nestOk own leaf nest then none else
  match itemFE leaf with
  | none => none
  | some fe =>
    match leafOp ps fe with
    | none => none
    | some op =>
      let guardFails : Option Bool := match pre.guard with
        | none => some false
        | some (cmp, k) => (natArg ps k).bind (fun i => cmpEval cmp i c.firstLen)
      match guardFails with
      | none => none
      | some true => some { st := c, panicked := true, ev := dropAll dr (byValue ps) }
      | some false =>
        if pre.emptyNone ∧ c.firstLen = 0 then some { st := c, isNone := true } else
        let src := itemSrc leaf
        let arg : Option Cols := match src with
          | .none => some (noArgs c)
          | .moved k | .borrowedMut k => colsArg ps k
        match arg with
        | none => none
        | some a =>
          let r := c.apply2 op a
          let mv : Ev := match src with
            | .moved k => moveInEv dr (pre.md == some k) (forget == some k) r.panicked a
            | _ => {}
          let other : Option Cols := match src with | .borrowedMut _ => some r.out | _ => none
          match rk with
          | .unit => some { st := r.st, panicked := r.panicked, ev := mv, other := other }
          | .elem | .container =>
            if r.panicked then some { st := r.st, panicked := true, ev := (match src with | .none => dropFields r.out | _ => mv) }
            else some { st := r.st, ret := some r.out, ev := mv }

/-- outcome of a generated element-level vector method, from its skeleton -/
def runSk (dr : Bool) (own : String) (sk : Sk) (c : Cols) (ps : List ArgV) : Option Out :=
  match sk with
  | .stmts pre leaf nest fg => runCore dr own pre leaf nest fg .unit c ps
  | .lets pre leaf nest .elem _ ws fg =>
    if ws = pre.emptyNone then runCore dr own pre leaf nest fg .elem c ps else none
  | .lit pre .vec leaf nest false => runCore dr own pre leaf nest none .container c ps
  | _ => none

def runElem (dr : Bool) (f : Fn) (c : Cols) (ps : List ArgV) : Option Out :=
  runSk dr f.name (skOf f) c ps

/-- `to_vec()` of a view: `…Vec { #(§: self.§.to_vec(),)* }` — every field array is cloned -/
def isToVec (f : Fn) : Bool :=
  match skOf f with
  | .lit pre .vec (.init (.call "to_vec" [] .none)) (.init (.call "to_vec" [] .none)) false =>
    pre == {} && f.name == "to_vec"
  | _ => false

def runToVec (f : Fn) (src : Cols) : Option Out :=
  if isToVec f then some { st := src, ret := some src, ev := { clones := src.flat } } else none

end Soa.Sk
