/-!
# Capacity bookkeeping of the field vectors (numbers only)

std's `RawVec` policy as the generated code exercises it: one capacity per leaf array, all
leaves share the container length.  Modelled, not verified; validated against the real std
(`caps` observations) on every run.
-/
namespace Soa.Cap

def MAXU : Nat := 18446744073709551615

/-- `RawVec::MIN_NON_ZERO_CAP` by element size class: 8 for one byte, 4 up to 1024 bytes, else 1 -/
def minNonZero : Char → Nat
  | 'b' => 8
  | 'l' => 1
  | _ => 4

/-- `grow_amortized(len, additional)`: `max(cap * 2, len + additional, MIN_NON_ZERO_CAP)` -/
def growAmortized (k : Char) (cap len add : Nat) : Nat := max (max (cap * 2) (len + add)) (minNonZero k)

/-- `Vec::reserve(additional)` on one field vector of `len` elements (zero-sized elements
    never allocate: capacity `usize::MAX`) -/
def leafReserve (k : Char) (len add cap : Nat) : Nat :=
  if k = 'z' then cap else if cap - len < add then growAmortized k cap len add else cap

/-- `Vec::reserve_exact(additional)` -/
def leafReserveExact (k : Char) (len add cap : Nat) : Nat :=
  if k = 'z' then cap else if cap - len < add then len + add else cap

/-- `Vec::push` / `Vec::insert`: grow by one (amortised) when full -/
def leafPush (k : Char) (len cap : Nat) : Nat := leafReserve k len 1 cap

/-- `Vec::shrink_to_fit` -/
def leafShrink (k : Char) (len cap : Nat) : Nat := if k = 'z' then cap else if cap > len then len else cap

/-- `Vec::with_capacity(n)` / `Vec::new()` (`n = 0`) / exact allocations (`split_off`, `to_vec`) -/
def leafExact (k : Char) (n : Nat) : Nat := if k = 'z' then MAXU else n

/-- a container: the common length and one capacity per leaf (declaration order) -/
structure St where
  len : Nat
  caps : List (Char × Nat)
  deriving Repr

def St.map (s : St) (len' : Nat) (f : Char → Nat → Nat) : St :=
  { len := len', caps := s.caps.map (fun p => (p.1, f p.1 p.2)) }

def St.new (kinds : List Char) (n : Nat) : St := { len := 0, caps := kinds.map (fun k => (k, leafExact k n)) }
def St.push (s : St) : St := s.map (s.len + 1) (fun k c => leafPush k s.len c)
def St.pushes : Nat → St → St
  | 0, s => s
  | n + 1, s => St.pushes n s.push
def St.reserve (s : St) (add : Nat) : St := s.map s.len (fun k c => leafReserve k s.len add c)
def St.reserveExact (s : St) (add : Nat) : St := s.map s.len (fun k c => leafReserveExact k s.len add c)
def St.shrink (s : St) : St := s.map s.len (fun k c => leafShrink k s.len c)
/-- growth by `add` elements at once (`append`, `extend_from_slice`, `resize`) -/
def St.grow (s : St) (add : Nat) : St := s.map (s.len + add) (fun k c => leafReserve k s.len add c)
/-- operations that only shorten (`pop`, `remove`, `truncate`, `retain`, …) keep every capacity -/
def St.setLen (s : St) (len' : Nat) : St := { s with len := len' }

/-- the generated `capacity()`: the smallest field capacity -/
def St.capacity (s : St) : Nat :=
  match s.caps with
  | [] => 0
  | p :: ps => ps.foldl (fun m q => min m q.2) p.2

/-- every field vector can hold the container's length -/
def St.Inv (s : St) : Prop := ∀ p ∈ s.caps, s.len ≤ p.2

/-- zero-sized fields have capacity `usize::MAX` (std never allocates for them) -/
def St.ZInv (s : St) : Prop := ∀ p ∈ s.caps, p.1 = 'z' → p.2 = MAXU

end Soa.Cap
