/-!
# `#[soa_derive(..)]` / `#[soa_attr(Kind, ..)]` — model of `Input::new` and of the attribute
lists the generators put on the seven generated types

`soa-derive-internal/src/input.rs`: the attributes of the input struct are walked in source
order; `soa_derive(T, …)` calls `add_derive` for every trait except `Default` (ignored) and
panics on `Copy`; `add_derive` pushes `derive(T)` on the vector's list and — unless `T` is
one of `Clone`, `Deserialize`, `Serialize` — on the six other lists; `soa_attr(Kind, attr)`
pushes `attr` on the list of `Kind` and panics on any other first argument.  The generators
(`vec.rs`, `slice.rs`, `refs.rs`, `ptr.rs`) splice the lists between their own built-in
derives (`emitted`).
-/
namespace Soa.Derive

inductive Kind | vec | slice | sliceMut | ref | refMut | ptr | ptrMut
  deriving DecidableEq, Repr

def Kind.all : List Kind := [.vec, .slice, .sliceMut, .ref, .refMut, .ptr, .ptrMut]

inductive Tr
  | Debug | PartialEq | Eq | PartialOrd | Ord | Hash | Clone | Default
  | Serialize | Deserialize | Copy
  | other (n : Nat)
  deriving DecidableEq, Repr

/-- an attribute on a generated struct: `#[derive(T, …)]` or anything else (by tag) -/
inductive At
  | derive (ts : List Tr)
  | other (n : Nat)
  deriving DecidableEq, Repr

/-- an attribute on the input struct -/
inductive Directive
  | soaDerive (ts : List Tr)          -- `#[soa_derive(T, …)]`
  | soaAttr (k : Kind) (a : At)       -- `#[soa_attr(Kind, attr)]`
  | soaAttrBad (a : At)               -- `#[soa_attr(NotAKind, attr)]`
  | foreign                           -- any other attribute (`#[derive(..)]`, `#[repr(..)]`, docs)
  deriving DecidableEq, Repr

structure Attrs where
  deriveClone : Bool
  vec : List At
  slice : List At
  sliceMut : List At
  ref : List At
  refMut : List At
  ptr : List At
  ptrMut : List At
  deriving DecidableEq, Repr

def Attrs.empty : Attrs := ⟨false, [], [], [], [], [], [], []⟩

def Attrs.get (a : Attrs) : Kind → List At
  | .vec => a.vec | .slice => a.slice | .sliceMut => a.sliceMut | .ref => a.ref
  | .refMut => a.refMut | .ptr => a.ptr | .ptrMut => a.ptrMut

def Attrs.push (a : Attrs) (k : Kind) (x : At) : Attrs :=
  match k with
  | .vec => { a with vec := a.vec ++ [x] }
  | .slice => { a with slice := a.slice ++ [x] }
  | .sliceMut => { a with sliceMut := a.sliceMut ++ [x] }
  | .ref => { a with ref := a.ref ++ [x] }
  | .refMut => { a with refMut := a.refMut ++ [x] }
  | .ptr => { a with ptr := a.ptr ++ [x] }
  | .ptrMut => { a with ptrMut := a.ptrMut ++ [x] }

/-- the `EXCEPTIONS` list of `add_derive` -/
def vecOnly : Tr → Bool
  | .Clone | .Deserialize | .Serialize => true
  | _ => false

/-- `ExtraAttributes::add_derive` -/
def addDerive (a : Attrs) (t : Tr) : Attrs :=
  let d := At.derive [t]
  let a := if vecOnly t then a else
    (((((a.push .slice d).push .sliceMut d).push .ref d).push .refMut d).push .ptr d).push .ptrMut d
  let a := a.push .vec d
  if t = .Clone then { a with deriveClone := true } else a

/-- one `#[soa_derive(…)]` attribute; `none`: the derive panics (`Copy`) -/
def processDerive : Attrs → List Tr → Option Attrs
  | a, [] => some a
  | a, t :: ts =>
    if t = .Copy then none
    else if t = .Default then processDerive a ts
    else processDerive (addDerive a t) ts

/-- the attribute loop of `Input::new`; `none`: the derive panics -/
def process : Attrs → List Directive → Option Attrs
  | a, [] => some a
  | a, .soaDerive ts :: ds =>
    match processDerive a ts with
    | some a' => process a' ds
    | none => none
  | a, .soaAttr k x :: ds => process (a.push k x) ds
  | _, .soaAttrBad _ :: _ => none
  | a, .foreign :: ds => process a ds

/-- the attribute list the generators put on each generated struct, in source order -/
def emitted (a : Attrs) : Kind → List At
  | .vec => a.vec ++ [.derive [.Default]]
  | .slice => [.derive [.Copy, .Clone]] ++ a.slice ++ [.derive [.Default]]
  | .sliceMut => a.sliceMut ++ [.derive [.Default]]
  | .ref => a.ref ++ [.derive [.Copy, .Clone]]
  | .refMut => a.refMut
  | .ptr => a.ptr ++ [.derive [.Copy, .Clone]]
  | .ptrMut => a.ptrMut ++ [.derive [.Copy, .Clone]]

/-- a derive of `t` is among the attributes -/
def derives (l : List At) (t : Tr) : Bool :=
  l.any (fun x => match x with | .derive ts => ts.contains t | .other _ => false)

/-- the row of the extracted table the model predicts: the seven emitted lists and the
    presence of the cloning API (`resize`, `Slice::to_vec`, `SliceMut::to_vec`,
    `extend_from_slice`) -/
def predict (ds : List Directive) : Option (List (List At) × List Bool) :=
  match process .empty ds with
  | none => none
  | some a => some (Kind.all.map (emitted a), [a.deriveClone, a.deriveClone, a.deriveClone, a.deriveClone])

structure Row where
  dirs : List Directive
  out : Option (List (List At) × List Bool)
  deriving DecidableEq, Repr

/-! ## driver: `derive <directives>` where a directive is `D:Debug,Clone` | `A:Vec:derive:Hash` |
`A:Slice:tag:3` | `B` (bad kind) | `F` (foreign); prints the 7 x 8 truth table of the standard traits -/

def trNames : List (String × Tr) := [("Debug", .Debug), ("PartialEq", .PartialEq), ("Eq", .Eq), ("PartialOrd", .PartialOrd),
  ("Ord", .Ord), ("Hash", .Hash), ("Clone", .Clone), ("Default", .Default), ("Serialize", .Serialize),
  ("Deserialize", .Deserialize), ("Copy", .Copy)]

def parseTr (s : String) : Tr := match trNames.find? (·.1 == s) with | some p => p.2 | none => .other s.length

def kindNames : List (String × Kind) := [("Vec", .vec), ("Slice", .slice), ("SliceMut", .sliceMut), ("Ref", .ref),
  ("RefMut", .refMut), ("Ptr", .ptr), ("PtrMut", .ptrMut)]

def parseDirective (s : String) : Option Directive :=
  match s.splitOn ":" with
  | ["D", ts] => some (.soaDerive (((ts.splitOn ",").filter (· ≠ "")).map parseTr))
  | ["A", k, "derive", t] => (kindNames.find? (·.1 == k)).map (fun p => .soaAttr p.2 (.derive [parseTr t]))
  | ["A", k, "tag", n] => (kindNames.find? (·.1 == k)).map (fun p => .soaAttr p.2 (.other (n.toNat?.getD 0)))
  | ["B"] => some (.soaAttrBad (.other 0))
  | ["F"] => some .foreign
  | _ => none

def tableTraits : List Tr := [.Debug, .PartialEq, .Eq, .PartialOrd, .Ord, .Hash, .Clone, .Default, .Copy]

def optAll {α : Type} : List (Option α) → Option (List α)
  | [] => some []
  | none :: _ => none
  | some x :: xs => match optAll xs with | some ys => some (x :: ys) | none => none

def deriveLine (line : String) : String :=
  match line.trimAscii.toString.splitOn " " with
  | "derive" :: ds =>
    match optAll ((ds.filter (· ≠ "")).map parseDirective) with
    | none => "bad-op"
    | some dirs =>
      match process .empty dirs with
      | none => "rejected"
      | some a =>
        let row := fun k => String.ofList ((tableTraits.map (fun t => if derives (emitted a k) t then '1' else '0')))
        " ".intercalate (Kind.all.map row) ++ s!" clone_api={if a.deriveClone then 1 else 0}"
  | _ => "bad-op"

end Soa.Derive
