import Soa.Model.Vec
import Soa.Spec.Vec
import Soa.Model.IndexRun
import Soa.Extracted.Generic
import Soa.Model.Cap
import Soa.Model.Views
import Soa.Model.SkelSem
import Soa.Extracted.Skel
import Soa.Model.SkelRefs
import Soa.Model.SkelIter
import Soa.Model.Loop
import Soa.Extracted.Loops
/-!
# Scenario interpreter: one operation per line, one observation line per side

`I` lines: the model of the generated code (columns).  `S` lines: the specification
(`Vec<T>` on rows).  Same text format as the Rust harness; nothing is defaulted — a line
that cannot be parsed yields `bad-op`.
-/
namespace Soa.Exec
open Soa

/-! the element-level vector methods as read from the skeletons extracted from /repo on this run
    (`Soa/Extracted/Skel.lean`); where a skeleton can no longer be read the hand-written model is used, so that the
    search for a failing input goes on (the proof obligations `Sk.sk_*` / `Sk.*_tie` are broken in that case) -/
namespace Gen
open Soa.Sk Soa.Extracted
def push (dr : Bool) (c e : Cols) : Model.Out := (runElem dr sk_PVec_push c [.elem e]).getD (Model.push c e)
def insert (dr : Bool) (c : Cols) (i : Nat) (e : Cols) : Model.Out := (runElem dr sk_PVec_insert c [.nat i, .elem e]).getD (Model.insert dr c i e)
def replace (dr : Bool) (c : Cols) (i : Nat) (e : Cols) : Model.Out := (runElem dr sk_PVec_replace c [.nat i, .elem e]).getD (Model.replace dr c i e)
def remove (dr : Bool) (c : Cols) (i : Nat) : Model.Out := (runElem dr sk_PVec_remove c [.nat i]).getD (Model.remove c i)
def swapRemove (dr : Bool) (c : Cols) (i : Nat) : Model.Out := (runElem dr sk_PVec_swap_remove c [.nat i]).getD (Model.swapRemove c i)
def pop (dr : Bool) (c : Cols) : Model.Out := (runElem dr sk_PVec_pop c []).getD (Model.pop c)
def append (dr : Bool) (c d : Cols) : Model.Out := (runElem dr sk_PVec_append c [.cont d]).getD (Model.append c d)
def splitOff (dr : Bool) (c : Cols) (i : Nat) : Model.Out := (runElem dr sk_PVec_split_off c [.nat i]).getD (Model.splitOff c i)

/-! the loop-style functions: the statement trees extracted from /repo (`Soa/Extracted/Loops.lean`) run by the
    interpreter of `Soa/Model/Loop.lean` over the extracted element-level methods -/
open Soa.Lp in
def swapWhole (c : Cols) (a b : Nat) : Model.Out :=
  (runSwap sk_PSliceMut_a_swap c ⟨0, c.firstLen⟩ a b).getD
    (let r := c.apply2 (swapOp a b) (Model.noArgs c); { st := r.st, panicked := r.panicked })
open Soa.Lp in
def methods0 (dr : Bool) (empty : Cols) : Methods :=
  { len := Cols.firstLen, pop := pop dr, push := push dr, truncate := Model.truncate dr, swap := swapWhole, empty := empty }
open Soa.Lp in
def truncate (dr : Bool) (c : Cols) (k : Nat) : Model.Out :=
  (run { dr := dr, ps := [.nat k], M := methods0 dr c, fuel := c.firstLen + 2 } lp_PVec_truncate c).getD (Model.truncate dr c k)
open Soa.Lp in
def methods (dr : Bool) (empty : Cols) : Methods := { methods0 dr empty with truncate := truncate dr }
open Soa.Lp in
def clear (dr : Bool) (c : Cols) : Model.Out :=
  (run { dr := dr, ps := [], M := methods dr c, fuel := c.firstLen + 2 } lp_PVec_clear c).getD (Model.clear dr c)
open Soa.Lp in
def dropVec (dr : Bool) (c : Cols) : Model.Out :=
  (run { dr := dr, ps := [], M := methods dr c, fuel := c.firstLen + 2 } lp_PVec_Drop_drop c).getD (Model.dropVec dr c)
open Soa.Lp in
def retain (dr : Bool) (mut_ : Bool) (c : Cols) (keep : Nat → Bool) (boom : Option Nat) (touch : Nat → Nat → Option (Nat × Nat)) : Model.Out :=
  (run { dr := dr, ps := [], keep := keep, boom := boom, touch := touch, M := methods dr c, fuel := c.firstLen + 2 }
    (if mut_ then lp_PVec_retain_mut else lp_PVec_retain) c).getD (Model.retain dr c keep boom touch)
open Soa.Lp in
def resize (dr : Bool) (c : Cols) (n : Nat) (e : Cols) : Model.Out :=
  (run { dr := dr, ps := [.nat n, .elem e], M := methods dr c, fuel := c.firstLen + 2 } lp_PVec_resize c).getD (Model.resize dr c n e)
open Soa.Lp in
def extendFromSlice (dr : Bool) (c src : Cols) : Model.Out :=
  (run { dr := dr, ps := [.src src], M := methods dr c, fuel := c.firstLen + 2 }
    lp_PVec_soa_derive_SoAAppendVec_P_extend_from_slice c).getD (Model.extendFromSlice c src)
open Soa.Lp in
def extend (dr : Bool) (c : Cols) (es : List Cols) : Model.Out :=
  (run { dr := dr, ps := [.elems es], M := methods dr c, fuel := c.firstLen + 2 } lp_PVec_Extend_P_extend c).getD (Model.extend c es)
/-- is this statement tree literally `<Self as Extend<P>>::extend(self, iter.into_iter().map(|item| item.to_owned()))`? -/
def isOwnedExtend (b : Soa.Lp.Body) : Bool :=
  match b.stmts, b.tail with
  | [], some (.fcall "<SelfasExtend<P>>::extend" [.self_, .mcall (.mcall (.param 0) "into_iter" []) "map"
      [.lam ["item"] (.mcall (.var "item") "to_owned" [])]]) => true
  | _, _ => false
/-- `Extend<Ref>` (`vec.extend(&other)`, `vec.extend(other.iter())`): as extracted it is the extracted `Extend<T>` loop over
    the owned copies (`to_owned`: one clone per field, in field order, per element) of the items -/
def extendRefs (dr : Bool) (c src : Cols) : Model.Out :=
  if isOwnedExtend lp_PVec_Extend_PRef_a_extend then
    let o := extend dr c ((List.range src.firstLen).map (Model.rowCols src))
    { st := o.st, panicked := o.panicked, ev := { clones := src.flat } }
  else Model.extendFromSlice c src
/-- hand-written: `extend` from an iterator that panics at item `k` — the items before it are pushed, the rest is destroyed -/
def extendBoomModel (dr : Bool) (c : Cols) (es : List Cols) (k : Nat) : Model.Out :=
  let r := Model.extend c (es.take k)
  if r.panicked then r
  else if k < es.length then { st := r.st, panicked := true, ev := Soa.Lp.dropCols dr (es.drop k) } else r
open Soa.Lp in
def extendBoom (dr : Bool) (c : Cols) (es : List Cols) (k : Nat) : Model.Out :=
  (run { dr := dr, ps := [.elemsBoom es k], M := methods dr c, fuel := c.firstLen + 2 } lp_PVec_Extend_P_extend c).getD
    (extendBoomModel dr c es k)
open Soa.Lp in
/-- `collect()`: `FromIterator::from_iter` -/
def fromIter (dr : Bool) (empty : Cols) (es : List Cols) : Model.Out :=
  match run { dr := dr, ps := [.elems es], M := methods dr empty, fuel := 2 } lp_PVec_std_iter_FromIterator_P_from_iter empty with
  | some o => (match o.ret with | some c => { st := c, panicked := o.panicked, ev := o.ev } | none => Model.extend empty es)
  | none => Model.extend empty es
/-! views and iterators: the skeletons extracted from /repo applied to a value whose fields all cover the same window;
    the answer must again be the same in every field (`winOfT` / `posOfT`), else the step is `stuck`.  Where a skeleton can
    no longer be read the hand-written window function is used. -/

def leavesT : VT LV → List LV
  | .leaf a => [a]
  | .nest fs => leavesTL fs
where leavesTL : List (VT LV) → List LV
  | [] => []
  | f :: fs => leavesT f ++ leavesTL fs

def winOfT (t : VT LV) : Option View.Win :=
  match leavesT t with
  | .win w :: rest => if rest.all (fun v => v == .win w) then some w else none
  | _ => none

def posOfT (t : VT LV) : Option Nat :=
  match leavesT t with
  | .pos p :: rest => if rest.all (fun v => v == .pos p) ∧ 0 ≤ p then some p.toNat else none
  | _ => none

def viewWin (f : Fn) (sh : Shape) (w : View.Win) (args : List VArg) (hand : View.Res View.Win) : View.Res View.Win :=
  match runView f (VT.uniform (.win w) sh) args with
  | .ok (.one t) => (match winOfT t with | some w' => .ok w' | none => .stuck)
  | .ok .none_ => .none
  | .ok (.two _ _) => .stuck
  | .panic => .panic
  | .stuck => hand

def viewPos (f : Fn) (sh : Shape) (w : View.Win) (hand : View.Res Nat) : View.Res Nat :=
  match runView f (VT.uniform (.win w) sh) [] with
  | .ok (.one t) => (match posOfT t with | some p => .ok p | none => .stuck)
  | .ok .none_ => .none
  | .ok (.two _ _) => .stuck
  | .panic => .panic
  | .stuck => hand

def viewPosWin (f : Fn) (sh : Shape) (w : View.Win) (hand : View.Res (Nat × View.Win)) : View.Res (Nat × View.Win) :=
  match runView f (VT.uniform (.win w) sh) [] with
  | .ok (.two a b) => (match posOfT a, winOfT b with | some p, some w' => .ok (p, w') | _, _ => .stuck)
  | .ok .none_ => .none
  | .ok (.one _) => .stuck
  | .panic => .panic
  | .stuck => hand

def splitAt (sh : Shape) (m : Bool) (w : View.Win) (k side : Nat) : View.Res View.Win :=
  match runView (if m then sk_PSliceMut_a_split_at_mut else sk_PSlice_a_split_at) (VT.uniform (.win w) sh) [.nat k] with
  | .ok (.two a b) => (match winOfT (if side = 0 then a else b) with | some w' => .ok w' | none => .stuck)
  | .ok _ => .stuck
  | .panic => .panic
  | .stuck => View.splitAt w k side

def splitFirst (sh : Shape) (m : Bool) (w : View.Win) : View.Res (Nat × View.Win) :=
  viewPosWin (if m then sk_PSliceMut_a_split_first_mut else sk_PSlice_a_split_first) sh w (View.splitFirst w)
def splitLast (sh : Shape) (m : Bool) (w : View.Win) : View.Res (Nat × View.Win) :=
  viewPosWin (if m then sk_PSliceMut_a_split_last_mut else sk_PSlice_a_split_last) sh w (View.splitLast w)
def first (sh : Shape) (m : Bool) (w : View.Win) : View.Res Nat :=
  viewPos (if m then sk_PSliceMut_a_first_mut else sk_PSlice_a_first) sh w (View.first w)
def last (sh : Shape) (m : Bool) (w : View.Win) : View.Res Nat :=
  viewPos (if m then sk_PSliceMut_a_last_mut else sk_PSlice_a_last) sh w (View.last w)
/-- `reborrow` of either view kind -/
def reborrow (sh : Shape) (m : Bool) (w : View.Win) : View.Res View.Win :=
  viewWin (if m then sk_PSliceMut_a_reborrow else sk_PSlice_a_reborrow) sh w [] (.ok w)
/-- shared view of a mutable view (`as_ref` / `as_slice`); a shared view is already one -/
def asShared (sh : Shape) (m : Bool) (tok : String) (w : View.Win) : View.Res View.Win :=
  if m then viewWin (if tok == "as_ref" then sk_PSliceMut_a_as_ref else sk_PSliceMut_a_as_slice) sh w [] (.ok w) else .ok w

/-- one step of an iterator over the window `w`: the yielded position and the remaining window -/
def iterStep (sh : Shape) (mutIter back : Bool) (w : View.Win) : Option Nat × View.Win :=
  let f := match mutIter, back with
    | false, false => sk_PIter_a_Iterator_next | false, true => sk_PIter_a_DoubleEndedIterator_next_back
    | true, false => sk_PIterMut_a_Iterator_next | true, true => sk_PIterMut_a_DoubleEndedIterator_next_back
  let hand := if back then View.nextBack w else View.next w
  match runIterStep f (VT.uniform (.win w) sh) with
  | .ok (none, t) => (match winOfT t with | some w' => (none, w') | none => hand)
  | .ok (some i, t) => (match posOfT i, winOfT t with | some p, some w' => (some p, w') | _, _ => hand)
  | _ => hand

end Gen

structure Ctx where
  shape : Shape
  drops : Bool
  kinds : List Char
  prof : IdxIR.Prof := .debug
  nestedDrops : List Nat := []   -- leaf indices naming the destructors of nested structs that implement `Drop`

/-- forget the payload kinds: the shape as the index layer sees it -/
def toIdxShape : Shape → IdxIR.Shape
  | .leaf _ => .leaf
  | .nest fs => .nest (go fs)
where go : List Shape → List IdxIR.Shape
  | [] => []
  | f :: fs => toIdxShape f :: go fs

def Ctx.kindOf (cx : Ctx) (id : Nat) : Char := cx.kinds.getD (id % 8) 's'
def Ctx.maskId (cx : Ctx) (id : Nat) : Nat := if cx.kindOf id = 'z' then 0 else id

/-! ## rendering -/

def fmtList (xs : List String) : String := "[" ++ ",".intercalate xs ++ "]"
def fmtNats (xs : List Nat) : String := fmtList (xs.map toString)
def fmtCols (cs : List (List Nat)) : String := fmtList (cs.map fmtNats)

def Ctx.maskCols (cx : Ctx) (cs : List (List Nat)) : List (List Nat) :=
  (cs.zip cx.kinds).map (fun p => if p.2 = 'z' then p.1.map (fun _ => 0) else p.1)

def Ctx.evStrings (cx : Ctx) (ev : Ev) : List String :=
  -- plain-data fields (`p`) have no destructor and are not tracked: they produce no events
  let d := (ev.drops.filter (fun i => cx.kindOf i != 'p')).map (fun i => if cx.kindOf i = 'z' then "dz" else s!"d{i}")
  -- a struct destructor run is named by the element's first leaf id; a nested struct that implements `Drop` (one per entry
  -- of `nestedDrops`) is destroyed with the element it is part of: one unnamed event `N` per run
  let t := (ev.dropT.map (fun i => s!"T{i}" :: cx.nestedDrops.map (fun _ => "N"))).flatten
  let c := (ev.clones.filter (fun i => cx.kindOf i != 'p')).map (fun i => if cx.kindOf i = 'z' then "cz" else s!"c{i}")
  (d ++ t ++ c).mergeSort (fun a b => decide (a ≤ b))

def Ctx.fmtEv (cx : Ctx) (ev : Ev) : String := fmtList (cx.evStrings ev)

/-- columns of a row list, by leaf -/
def rowsCols (nleaves : Nat) (rs : List Elem) : List (List Nat) :=
  (List.range nleaves).map (fun j => rs.map (fun e => e.ids.getD j 0))

/-! ## ledger (exactly-once ownership, as the harness counts it) -/

structure Ledger where
  created : Array Nat := Array.replicate 512 0   -- per (masked) id: how many were created
  dropped : Array Nat := Array.replicate 512 0   -- … and destroyed
  doubleDrop : Bool := false

def bump (a : Array Nat) (i : Nat) : Array Nat := a.modify i (· + 1)

def Ledger.add (cx : Ctx) (l : Ledger) (made : List Nat) (ev : Ev) : Ledger :=
  let tracked (i : Nat) : Bool := cx.kindOf i != 'p'
  let cr := ((made ++ ev.clones).filter tracked).map cx.maskId
  let dr := (ev.drops.filter tracked).map cx.maskId
  let created := cr.foldl bump l.created
  let dropped := dr.foldl bump l.dropped
  -- a value is destroyed more often than it was created: only the ids destroyed in this step can newly be so
  let dd := l.doubleDrop || dr.any (fun i => dropped.getD i 0 > created.getD i 0)
  { created, dropped, doubleDrop := dd }

def Ledger.leak (l : Ledger) : Bool :=
  (List.range l.created.size).any (fun i => l.created.getD i 0 != l.dropped.getD i 0)

/-! ## worlds -/

structure World where
  regs : List Cols          -- model: the SoA vectors
  rows : List (List Elem)   -- spec: the `Vec<T>` mirrors
  li : Ledger := {}
  ls : Ledger := {}
  caps : List Cap.St := []  -- per register: capacity of every field vector

def nreg : Nat := 3

def World.init (cx : Ctx) : World :=
  { regs := List.replicate nreg cx.shape.empty, rows := List.replicate nreg [],
    caps := List.replicate nreg (Cap.St.new cx.kinds 0) }

def parseReg (s : String) : Option Nat :=
  if s.startsWith "r" then (s.drop 1).toString.toNat? else none

def kv (ws : List String) (key : String) : Option String :=
  ws.findSome? (fun w => if w.startsWith (key ++ "=") then some (w.drop (key.length + 1)).toString else none)

def parseNats (s : String) : Option (List Nat) :=
  if s == "-" || s == "" then some [] else (s.splitOn ",").mapM (·.toNat?)

/-- an observation of one side of one step -/
structure Obs where
  status : String            -- "ok" | "panic"
  ret : String := "-"
  rev : Ev := {}             -- events of destroying the returned value
  ev : Ev := {}
  vis : Option (List (List Nat)) := none

def Ctx.fmtObs (cx : Ctx) (o : Obs) : String :=
  let base := s!"{o.status} ret={o.ret} rev={cx.fmtEv o.rev} ev={cx.fmtEv o.ev}"
  match o.vis with
  | some v => base ++ s!" vis={fmtCols (v.map (fun r => r.map cx.maskId))}"
  | none => base

def Ctx.fmtElem (cx : Ctx) (ids : List Nat) : String := fmtNats (ids.map cx.maskId)

/-- model side: turn an `Out` of a method returning an element into an observation -/
def Ctx.obsElemI (cx : Ctx) (o : Model.Out) (opt : Bool) : Obs :=
  if o.panicked then { status := "panic", ev := o.ev }
  else match o.ret with
    | some e => { status := "ok", ret := (if opt then "some" else "") ++ cx.fmtElem e.flat,
                  rev := dropWhole cx.drops e, ev := o.ev }
    | none => { status := "ok", ret := if o.isNone then "none" else "-", ev := o.ev }

def Ctx.obsElemS (cx : Ctx) (o : Spec.Out) (opt : Bool) : Obs :=
  if o.panicked then { status := "panic", ev := o.ev }
  else match o.ret with
    | some e => { status := "ok", ret := (if opt then "some" else "") ++ cx.fmtElem (e.map Elem.ids).flatten,
                  rev := dropRows cx.drops e, ev := o.ev }
    | none => { status := "ok", ret := if o.isNone then "none" else "-", ev := o.ev }

def setReg {α : Type} (xs : List α) (i : Nat) (x : α) : List α := xs.set i x

/-- result of one step: the new world and the two observations -/
structure StepOut where
  w : World
  i : Obs
  s : Obs
  madeI : List Nat := []   -- payload ids created by the caller for this step (both sides alike)

def badOp (w : World) : StepOut := { w, i := { status := "bad-op" }, s := { status := "bad-op" } }

def keepFn (mask : String) : Nat → Bool :=
  let bits := mask.toList.map (· == '1')
  fun k => bits.getD k true

/-- the effect of the `retain_mut` test callback: at its `k`-th call (position `k`) it
    overwrites leaf `l` of the visited element with a fresh payload -/
def touchFn (wleaf : Option Nat) (wtag : Nat) : Nat → Nat → Option (Nat × Nat) :=
  fun k _pos => wleaf.map (fun l => (l, ((wtag + k) % 32) * 8 + l))

def stepCore (cx : Ctx) (w : World) (ws : List String) : StepOut :=
  let sh := cx.shape
  let dr := cx.drops
  let nl := cx.kinds.length
  let getI (r : Nat) : Cols := w.regs.getD r sh.empty
  let getS (r : Nat) : List Elem := w.rows.getD r []
  -- assigning a register destroys its previous content (the vector's `Drop`)
  let assignI (regs : List Cols) (r : Nat) (c : Cols) : List Cols × Ev :=
    (setReg regs r c, (Gen.dropVec dr (regs.getD r sh.empty)).ev)
  let assignS (rows : List (List Elem)) (r : Nat) (c : List Elem) : List (List Elem) × Ev :=
    (setReg rows r c, (Spec.dropVec dr (rows.getD r [])).ev)
  let elemOp (r : Nat) (oi : Model.Out) (os : Spec.Out) (opt : Bool) (made : List Nat) : StepOut :=
    { w := { w with regs := setReg w.regs r oi.st, rows := setReg w.rows r os.st },
      i := cx.obsElemI oi opt, s := cx.obsElemS os opt, madeI := made }
  match ws with
  | ["new", r] | ["drop", r] | ["with_capacity", r, _] =>
    match parseReg r with
    | some r =>
      let (regs, ei) := assignI w.regs r sh.empty
      let (rows, es) := assignS w.rows r []
      { w := { w with regs, rows }, i := { status := "ok", ev := ei }, s := { status := "ok", ev := es } }
    | none => badOp w
  | ["unwind_drop", r] =>
    -- the vector is moved into a frame that panics: its `Drop` runs during unwinding
    match parseReg r with
    | some r =>
      let (regs, ei) := assignI w.regs r sh.empty
      let (rows, es) := assignS w.rows r []
      { w := { w with regs, rows }, i := { status := "panic", ev := ei }, s := { status := "panic", ev := es } }
    | none => badOp w
  | ["push", r, t] =>
    match parseReg r, t.toNat? with
    | some r, some t =>
      let e := sh.elem t
      elemOp r (Gen.push dr (getI r) e) (Spec.push (getS r) e.rows) false e.flat
    | _, _ => badOp w
  | ["pop", r] =>
    match parseReg r with
    | some r => elemOp r (Gen.pop dr (getI r)) (Spec.pop (getS r)) true []
    | none => badOp w
  | ["insert", r, i, t] =>
    match parseReg r, i.toNat?, t.toNat? with
    | some r, some i, some t =>
      let e := sh.elem t
      elemOp r (Gen.insert dr (getI r) i e) (Spec.insert dr (getS r) i e.rows) false e.flat
    | _, _, _ => badOp w
  | ["replace", r, i, t] =>
    match parseReg r, i.toNat?, t.toNat? with
    | some r, some i, some t =>
      let e := sh.elem t
      elemOp r (Gen.replace dr (getI r) i e) (Spec.replace dr (getS r) i e.rows) false e.flat
    | _, _, _ => badOp w
  | ["remove", r, i] =>
    match parseReg r, i.toNat? with
    | some r, some i => elemOp r (Gen.remove dr (getI r) i) (Spec.remove (getS r) i) false []
    | _, _ => badOp w
  | ["swap_remove", r, i] =>
    match parseReg r, i.toNat? with
    | some r, some i => elemOp r (Gen.swapRemove dr (getI r) i) (Spec.swapRemove (getS r) i) false []
    | _, _ => badOp w
  | ["truncate", r, k] =>
    match parseReg r, k.toNat? with
    | some r, some k => elemOp r (Gen.truncate dr (getI r) k) (Spec.truncate dr (getS r) k) false []
    | _, _ => badOp w
  | ["clear", r] =>
    match parseReg r with
    | some r => elemOp r (Gen.clear dr (getI r)) (Spec.clear dr (getS r)) false []
    | none => badOp w
  | ["append", r, q] =>
    match parseReg r, parseReg q with
    | some r, some q =>
      if r == q then badOp w else
      let oi := Gen.append dr (getI r) (getI q)
      let os := Spec.append (getS r) (getS q)
      let regs := setReg (setReg w.regs r oi.st) q (oi.other.getD (getI q))
      let rows := setReg (setReg w.rows r os.st) q (os.other.getD (getS q))
      { w := { w with regs, rows }, i := { status := if oi.panicked then "panic" else "ok", ev := oi.ev },
        s := { status := "ok", ev := os.ev } }
    | _, _ => badOp w
  | ["split_off", r, at_, q] =>
    match parseReg r, at_.toNat?, parseReg q with
    | some r, some at_, some q =>
      let oi := Gen.splitOff dr (getI r) at_
      let os := Spec.splitOff (getS r) at_
      let (regs, oiObs) : List Cols × Obs := match oi.panicked, oi.ret with
        | false, some t =>
          let regs := setReg w.regs r oi.st
          let (regs, ev) := assignI regs q t
          (regs, { status := "ok", ev := ev })
        | _, _ => (setReg w.regs r oi.st, { status := "panic", ev := oi.ev })
      let (rows, osObs) : List (List Elem) × Obs := match os.panicked, os.ret with
        | false, some t =>
          let rows := setReg w.rows r os.st
          let (rows, ev) := assignS rows q t
          (rows, { status := "ok", ev := ev })
        | _, _ => (setReg w.rows r os.st, { status := "panic", ev := os.ev })
      { w := { w with regs, rows }, i := oiObs, s := osObs }
    | _, _, _ => badOp w
  | "retain" :: r :: rest =>
    match parseReg r with
    | some r =>
      let keep := keepFn ((kv rest "keep").getD "")
      let boom := (kv rest "panic").bind (·.toNat?)
      let oi := Gen.retain dr false (getI r) keep boom (fun _ _ => none)
      let os := Spec.retain dr (getS r) keep boom (fun _ _ => none)
      { w := { w with regs := setReg w.regs r oi.st, rows := setReg w.rows r os.st },
        i := { status := if oi.panicked then "panic" else "ok", ev := oi.ev, vis := some oi.vis },
        s := { status := if os.panicked then "panic" else "ok", ev := os.ev, vis := some os.vis } }
    | none => badOp w
  | "retain_mut" :: r :: rest =>
    match parseReg r with
    | some r =>
      let keep := keepFn ((kv rest "keep").getD "")
      let boom := (kv rest "panic").bind (·.toNat?)
      let touch := touchFn ((kv rest "wleaf").bind (·.toNat?)) (((kv rest "wtag").bind (·.toNat?)).getD 0)
      let oi := Gen.retain dr true (getI r) keep boom touch
      let os := Spec.retain dr (getS r) keep boom touch
      { w := { w with regs := setReg w.regs r oi.st, rows := setReg w.rows r os.st },
        i := { status := if oi.panicked then "panic" else "ok", ev := oi.ev, vis := some oi.vis },
        s := { status := if os.panicked then "panic" else "ok", ev := os.ev, vis := some os.vis },
        madeI := oi.made }
    | none => badOp w
  | ["extend", r, ts] =>
    match parseReg r, parseNats ts with
    | some r, some ts =>
      let es := ts.map sh.elem
      let oi := Gen.extend dr (getI r) es
      let os := Spec.extend (getS r) (es.map Cols.rows).flatten
      elemOp r oi os false (es.map Cols.flat).flatten
    | _, _ => badOp w
  | ["extend_boom", r, ts, k] =>
    match parseReg r, parseNats ts, k.toNat? with
    | some r, some ts, some k =>
      let es := ts.map sh.elem
      let oi := Gen.extendBoom dr (getI r) es k
      let pre := Spec.extend (getS r) ((es.take k).map Cols.rows).flatten
      let os : Spec.Out := if k < es.length then { pre with panicked := true, ev := dropRows dr ((es.drop k).map Cols.rows).flatten } else pre
      elemOp r oi os false (es.map Cols.flat).flatten
    | _, _, _ => badOp w
  | ["collect", r, ts] =>
    match parseReg r, parseNats ts with
    | some r, some ts =>
      let es := ts.map sh.elem
      let oi := Gen.fromIter dr sh.empty es
      let os := Spec.extend [] (es.map Cols.rows).flatten
      let (regs, ei) := assignI w.regs r oi.st
      let (rows, es') := assignS w.rows r os.st
      { w := { w with regs, rows }, i := { status := "ok", ev := ei }, s := { status := "ok", ev := es' },
        madeI := (es.map Cols.flat).flatten }
    | _, _ => badOp w
  | ["len", r] =>
    match parseReg r with
    | some r => { w, i := { status := "ok", ret := toString (getI r).firstLen },
                  s := { status := "ok", ret := toString (getS r).length } }
    | none => badOp w
  | ["is_empty", r] =>
    match parseReg r with
    | some r => { w, i := { status := "ok", ret := toString ((getI r).firstLen == 0) },
                  s := { status := "ok", ret := toString ((getS r).length == 0) } }
    | none => badOp w
  | ["resize", r, n, t] =>
    match parseReg r, n.toNat?, t.toNat? with
    | some r, some n, some t =>
      let e := sh.elem t
      elemOp r (Gen.resize dr (getI r) n e) (Spec.resize dr (getS r) n e.rows) false e.flat
    | _, _, _ => badOp w
  | ["extend_from_slice", r, q] =>
    match parseReg r, parseReg q with
    | some r, some q =>
      if r == q then badOp w else
      elemOp r (Gen.extendFromSlice dr (getI r) (getI q)) (Spec.extendFromSlice (getS r) (getS q)) false []
    | _, _ => badOp w
  | ["extend_refs", r, q] | ["extend_refs_f", r, q] =>
    match parseReg r, parseReg q with
    | some r, some q =>
      if r == q then badOp w else
      elemOp r (Gen.extendRefs dr (getI r) (getI q)) (Spec.extendFromSlice (getS r) (getS q)) false []
    | _, _ => badOp w
  | ["to_vec", r, q] | ["to_vec_sm", r, q] | ["to_vec_ts", r, q] | ["to_vec_tsm", r, q] =>
    match parseReg r, parseReg q with
    | some r, some q =>
      let oi := Model.toVec (getI r)
      let os := Spec.toVec (getS r)
      let (regs, ei) := assignI w.regs q (oi.ret.getD sh.empty)
      let (rows, es) := assignS w.rows q (os.ret.getD [])
      { w := { w with regs, rows }, i := { status := "ok", ev := oi.ev ++ ei }, s := { status := "ok", ev := os.ev ++ es } }
    | _, _ => badOp w
  | ["reserve", r, n] | ["reserve_exact", r, n] =>
    match parseReg r, n.toNat? with
    | some r, some n =>
      -- a request of 2^63 or more: every field array of a sized type reports "capacity overflow" (its layout would exceed
      -- isize::MAX bytes) before anything is allocated; an array of a zero-sized type only when `len + additional` overflows
      -- usize.  (Smaller requests that exceed the address space abort in the allocator: not generated.)
      let allZ := cx.kinds.all (· == 'z')
      let boom (len : Nat) : Bool := n ≥ 2 ^ 63 && (!allZ || len + n ≥ 2 ^ 64)
      { w, i := { status := if boom (getI r).firstLen then "panic" else "ok" }, s := { status := if boom (getS r).length then "panic" else "ok" } }
    | _, _ => badOp w
  | ["shrink_to_fit", r] =>
    match parseReg r with
    | some _ => { w, i := { status := "ok" }, s := { status := "ok" } }
    | none => badOp w
  | ["capacity", r] =>
    match parseReg r with
    | some r => { w, i := { status := "ok", ret := toString ((w.caps.getD r (Cap.St.new cx.kinds 0)).capacity) }, s := { status := "ok" } }
    | none => badOp w
  | ["caps", r] =>
    match parseReg r with
    | some r => { w, i := { status := "ok", ret := fmtNats ((w.caps.getD r (Cap.St.new cx.kinds 0)).caps.map (·.2)) }, s := { status := "ok" } }
    | none => badOp w
  | "promise" :: r :: rest =>
    match parseReg r with
    | some r =>
      let st := w.caps.getD r (Cap.St.new cx.kinds 0)
      let c := getI r
      let len := c.firstLen
      let cap := match rest with
        | [n] => len + (n.toNat?.getD 0)
        | _ => st.capacity
      let k := min (cap - len) (match rest with | [_] => 1024 | _ => 64)
      let es := (List.range k).map (fun j => sh.elem (j % 32))
      let oi := Model.extend c es
      let os := Spec.extend (getS r) (es.map Cols.rows).flatten
      let st' := Cap.St.pushes k { st with len := len }
      let moved := st'.caps != st.caps
      { w := { w with regs := setReg w.regs r oi.st, rows := setReg w.rows r os.st },
        i := { status := "ok", ret := s!"promise cap_ge_len={decide (cap ≥ len)} moved={moved} pushed={k}" },
        s := { status := "ok" }, madeI := (es.map Cols.flat).flatten }
    | none => badOp w
  | acc :: r :: kind :: mode :: form :: a :: b :: rest =>
    -- checked / panicking indexing through the extracted index layer
    if acc != "get" && acc != "index" then badOp w else
    match parseReg r, a.toNat?, b.toNat? with
    | some r, some a, some b =>
      let ex := rest == ["ex"]
      let fm : Option IdxIR.Form := match form with
        | "pos" => some .pos | "range" => some .range | "rangeto" => some .rangeTo | "rangefrom" => some .rangeFrom
        | "full" => some .rangeFull | "incl" => some .rangeIncl | "toincl" => some .rangeToIncl | _ => none
      -- inherent accessors forward to the index traits: `SliceMut::get` goes through `as_slice()`,
      -- `SliceMut::get_mut` through `reborrow()`, the vector ones directly
      let km : Option (IdxIR.Kind × Bool) := match kind, mode with
        | "vec", "shared" => some (.vecRef, false) | "vec", "mut" => some (.vecMut, true)
        | "slice", "shared" => some (.slice, false) | "slicemut", "shared" => some (.slice, false)
        | "slicemut", "mut" => some (.sliceMut, true) | _, _ => none
      match fm, km with
      | some fm, some (k, isMut) =>
        let getting := acc == "get"
        let iv : IdxIR.IV := match fm with
          | .pos => { form := fm, pos := a }
          | .rangeIncl => if ex then { form := fm, start := b, end_ := b, exhausted := true } else { form := fm, start := a, end_ := b }
          | _ => { form := fm, start := a, end_ := b }
        let m : IdxIR.M := match getting, isMut with
          | true, false => .get | true, true => .getMut | false, false => .index | false, true => .indexMut
        let c := getI r
        let n := c.firstLen
        let res := IdxIR.run cx.prof n (toIdxShape sh) k iv m
        let renderWin (cols : List (List Nat)) (s l : Nat) : String :=
          if fm == .pos then fmtNats (cols.map (fun col => col.getD s 0))
          else fmtCols (cols.map (fun col => (col.drop s).take l))
        let ci := cx.maskCols c.leaves
        let obsI : Obs := match res with
          | .ok (.some_ (.win s l)) => { status := "ok", ret := "some" ++ renderWin ci s l ++ " inb=true" }
          | .ok .none_ => { status := "ok", ret := "none inb=true" }
          | .ok (.win s l) => { status := "ok", ret := renderWin ci s l ++ " inb=true" }
          | .err .panic => { status := "panic" }
          | .err .ub => { status := "ub" }
          | _ => { status := "stuck" }
        let rs := getS r
        let cs := cx.maskCols (rowsCols nl rs)
        let obsS : Obs := match IdxIR.stdGet rs.length iv, getting with
          | some (s, l), true => { status := "ok", ret := "some" ++ renderWin cs s l ++ " inb=true" }
          | none, true => { status := "ok", ret := "none inb=true" }
          | some (s, l), false => { status := "ok", ret := renderWin cs s l ++ " inb=true" }
          | none, false => { status := "panic" }
        { w, i := obsI, s := obsS }
      | _, _ => badOp w
    | _, _, _ => badOp w
  | _ => badOp w

/-! ## views, iterators, sorting, pointer bundles, element references -/

open View in
/-- result of walking a view path -/
inductive PathEnd where
  | win (w : View.Win)
  | elem (pos : Nat) (opt : Bool)
  | none
  | panic
  | stuck

def tokParts (t : String) : List String := t.splitOn ":"
def partNat (ps : List String) (i : Nat) : Nat := ((ps.getD i "").toNat?).getD (IdxIR.MAX - 7)
def partInt (ps : List String) (i : Nat) : Int := ((ps.getD i "").toInt?).getD 0

def resWin (r : View.Res View.Win) : PathEnd :=
  match r with
  | .ok w => .win w
  | .none => .none
  | .panic => .panic
  | .stuck => .stuck

/-- walk a path of view operations from window `w`; `useIR` = range indexing through the extracted
    index layer (model) or by std's rules (specification).  Returns where it ended, whether the
    view is still mutable, and the tokens left (a trailing `write:…`). -/
def walkPath (cx : Ctx) (useIR : Bool) : List String → View.Win → Bool → PathEnd × Bool × List String
  | [], w, m => (.win w, m, [])
  | t :: rest, w, m =>
    let ps := tokParts t
    let a := partNat ps 1
    let b := partNat ps 2
    let viaIdx (iv : IdxIR.IV) (getting : Bool) : View.Res View.Win :=
      if useIR then
        View.viaIndex cx.prof (toIdxShape cx.shape) (if m then .sliceMut else .slice)
          (match getting, m with
           | true, false => .get | true, true => .getMut | false, false => .index | false, true => .indexMut) w iv
      else View.viaStd getting w iv
    let cont (r : View.Res View.Win) (m' : Bool) : PathEnd × Bool × List String :=
      match r with
      | .ok w' => walkPath cx useIR rest w' m'
      | .none => (.none, m', rest)
      | .panic => (.panic, m', rest)
      | .stuck => (.stuck, m', rest)
    match ps.headD "" with
    | "write" => (.win w, m, t :: rest)
    | "split_at" => cont (if useIR then Gen.splitAt cx.shape m w a b else View.splitAt w a b) m
    | "split_first" =>
      match (if useIR then Gen.splitFirst cx.shape m w else View.splitFirst w) with
      | .ok (e, r) => if ps.getD 1 "" == "elem" then (.elem e true, m, rest) else walkPath cx useIR rest r m
      | _ => (.none, m, rest)
    | "split_last" =>
      match (if useIR then Gen.splitLast cx.shape m w else View.splitLast w) with
      | .ok (e, r) => if ps.getD 1 "" == "elem" then (.elem e true, m, rest) else walkPath cx useIR rest r m
      | _ => (.none, m, rest)
    | "range" => cont (viaIdx { form := .range, start := a, end_ := b } false) m
    | "rangeto" => cont (viaIdx { form := .rangeTo, end_ := a } false) m
    | "rangefrom" => cont (viaIdx { form := .rangeFrom, start := a } false) m
    | "getr" => cont (viaIdx { form := .range, start := a, end_ := b } true) m
    | "incl" => cont (viaIdx { form := .rangeIncl, start := a, end_ := b } false) m
    | "first" => (match (if useIR then Gen.first cx.shape m w else View.first w) with
        | .ok e => (.elem e true, m, rest) | .panic => (.panic, m, rest) | .stuck => (.stuck, m, rest) | .none => (.none, m, rest))
    | "last" => (match (if useIR then Gen.last cx.shape m w else View.last w) with
        | .ok e => (.elem e true, m, rest) | .panic => (.panic, m, rest) | .stuck => (.stuck, m, rest) | .none => (.none, m, rest))
    | "get" =>
      (match viaIdx { form := .pos, pos := a } true with
       | .ok w' => (.elem w'.s true, m, rest) | .none => (.none, m, rest) | .panic => (.panic, m, rest) | .stuck => (.stuck, m, rest))
    | "idx" =>
      (match viaIdx { form := .pos, pos := a } false with
       | .ok w' => (.elem w'.s false, m, rest) | .none => (.none, m, rest) | .panic => (.panic, m, rest) | .stuck => (.stuck, m, rest))
    | "reborrow" => if useIR then cont (Gen.reborrow cx.shape m w) m else walkPath cx useIR rest w m
    | "rebdrop" | "peek" => walkPath cx useIR rest w m   -- a child view taken and dropped leaves the parent as it was
    | "as_ref" | "as_slice" =>
      if useIR then cont (Gen.asShared cx.shape m (ps.headD "") w) false else walkPath cx useIR rest w false
    | _ => (.stuck, m, rest)

/-- apply a user write `*ref.leaf = fresh(tag)` at parent position `pos`, both sides -/
def writeBoth (cx : Ctx) (w : World) (r : Nat) (pos leaf tag : Nat) : World × Ev × Ev × List Nat :=
  let id := tag * 8 + leaf
  let c := w.regs.getD r cx.shape.empty
  let rs := w.rows.getD r []
  let (c', evI, made) := Model.writeLeaf c leaf pos id
  let (rs', evS) : List Elem × Ev := match rs[pos]? with
    | some e => (rs.set pos (Spec.setLeafE leaf id e 0).1, { drops := [e.ids.getD leaf 0] })
    | none => (rs, {})
  ({ w with regs := setReg w.regs r c', rows := setReg w.rows r rs' }, evI, evS, made)

/-- the order of the harness payloads: leaf `j` of an element (id = `tag * 8 + j`) is ordered by bit `j % 5` of the tag -/
def okey (id : Nat) : Nat := ((id / 8) >>> ((id % 8) % 5)) % 2

def lexLe : List Nat → List Nat → Bool
  | [], _ => true
  | _ :: _, [] => false
  | a :: as, b :: bs => if a < b then true else if b < a then false else lexLe as bs

/-- the leaf whose id carries the sort key: the first leaf that is not zero-sized -/
def Ctx.keyLeaf (cx : Ctx) : Nat := (cx.kinds.findIdx? (· != 'z')).getD 0

/-- views / iterators / sorting / pointers / element references; `none` = not one of these commands -/
def stepViews (cx : Ctx) (w : World) (ws : List String) : Option StepOut :=
  let sh := cx.shape
  let nl := cx.kinds.length
  let getI (r : Nat) : Cols := w.regs.getD r sh.empty
  let getS (r : Nat) : List Elem := w.rows.getD r []
  let colsI (r : Nat) : List (List Nat) := cx.maskCols (getI r).leaves
  let colsS (r : Nat) : List (List Nat) := cx.maskCols (rowsCols nl (getS r))
  let rowStr (cols : List (List Nat)) (p : Nat) : String := fmtNats (cols.map (fun l => l.getD p 0))
  let winStr (cols : List (List Nat)) (v : View.Win) : String := fmtCols (cols.map (fun l => (l.drop v.s).take v.l))
  let pan : Obs := { status := "panic" }
  match ws with
  | op :: r :: mode :: start :: toks =>
    if op == "view" || op == "viewmut" then
      match parseReg r with
      | none => some (badOp w)
      | some r =>
        let n := (getI r).firstLen
        let ns := (getS r).length
        let sp := tokParts start
        let mut_ := mode == "mut"
        let st (n : Nat) : View.Res View.Win := match sp.headD "" with
          | "as_slice" | "as_mut_slice" => .ok ⟨0, n⟩
          | "slice" | "slice_mut" => View.vecSlice n (partNat sp 1) (partNat sp 2)
          | _ => .stuck
        let run (useIR : Bool) (n : Nat) : PathEnd × Bool × List String := match st n with
          | .ok v => walkPath cx useIR toks v mut_
          | .panic => (.panic, mut_, [])
          | _ => (.stuck, mut_, [])
        let (eI, mI, restI) := run true n
        let (eS, _, _) := run false ns
        -- a trailing write
        let wr : Option (Nat × Nat × Nat) := match restI with
          | [t] => let ps := tokParts t
                   if ps.headD "" == "write" then some (partNat ps 1, partNat ps 2, partNat ps 3) else none
          | _ => none
        match wr with
        | none =>
          let render (e : PathEnd) (cols : List (List Nat)) : Obs := match e with
            | .win v => { status := "ok", ret := winStr cols v }
            | .elem p true => { status := "ok", ret := "some" ++ rowStr cols p }
            | .elem p false => { status := "ok", ret := rowStr cols p }
            | .none => { status := "ok", ret := "none" }
            | .panic => pan
            | .stuck => { status := "stuck" }
          some { w, i := render eI (colsI r), s := render eS (colsS r) }
        | some (pos, leaf, tag) =>
          if !mI then some (badOp w) else
          -- where the write lands: an element, or position `pos` of the final window (`get_mut(pos)`)
          let target (e : PathEnd) : Option (Option Nat) := match e with
            | .elem p _ => some (some p)
            | .win v => some (if pos < v.l then some (v.s + pos) else none)
            | .none => some none
            | _ => none
          match target eI, target eS with
          | some (some p), some (some _) =>
            let (w', evI, evS, made) := writeBoth cx w r p leaf tag
            some { w := w', i := { status := "ok", ret := "written", ev := evI }, s := { status := "ok", ret := "written", ev := evS }, madeI := made }
          | some none, some none =>
            let retI := match eI with | .none => "none" | _ => "nowrite"
            let retS := match eS with | .none => "none" | _ => "nowrite"
            some { w, i := { status := "ok", ret := retI }, s := { status := "ok", ret := retS } }
          | ti, tsp =>
            let f (t : Option (Option Nat)) (e : PathEnd) : Obs := match t, e with
              | _, .panic => pan
              | some (some _), _ => { status := "ok", ret := "written" }
              | some none, _ => { status := "ok", ret := "nowrite" }
              | none, _ => { status := "stuck" }
            some { w, i := f ti eI, s := f tsp eS }
    else if op == "ptr" || op == "ptrw" then
      -- ptr r <from> <const|mut> <steps…> [terminal]
      match parseReg r with
      | none => some (badOp w)
      | some r =>
        let n := (getI r).firstLen
        let fp := tokParts mode
        let base : Option Nat := match fp.headD "" with
          | "vec" | "slice" | "slicemut" | "tvec" | "tslice" | "tslicemut" => some 0
          | "ref" | "refmut" => if partNat fp 1 < n then some (partNat fp 1) else none
          -- a window [a, b) of the slice / mutable slice, directly (`win…`) or rebuilt with from_raw_parts(_mut) (`rt…`)
          | "wins" | "winsm" | "rts" | "rtsm" => if partNat fp 1 ≤ partNat fp 2 ∧ partNat fp 2 ≤ n then some (partNat fp 1) else none
          | _ => none
        match base with
        | none => some { w, i := pan, s := pan }
        | some base =>
          -- accumulate the element offset and the nulled components until a terminal token
          let rec go (toks : List String) (p : Int) (nulls : List Nat) : Int × List Nat × List String :=
            match toks with
            | [] => (p, nulls, [])
            | t :: rest =>
              let ps := tokParts t
              match ps.headD "" with
              | "add" | "wadd" => go rest (p + (partNat ps 1 : Nat)) nulls
              | "sub" | "wsub" => go rest (p - (partNat ps 1 : Nat)) nulls
              | "offset" | "woffset" => go rest (p + partInt ps 1) nulls
              | "as_mut_ptr" | "as_ptr" => go rest p nulls
              | "null" => go rest p (partNat ps 1 :: nulls)
              | _ => (p, nulls, t :: rest)
          let (p, nulls, rest) := go toks (base : Int) []
          let pn := p.toNat
          let one (cols : List (List Nat)) (len : Nat) (rows? : Option (List Elem)) : Obs × Option (Nat × Nat) :=
            match rest with
            | [] => ({ status := "ok", ret := "at" ++ fmtList (cx.kinds.map (fun k => if k == 'z' then "-1" else toString p)) }, none)
            | t :: _ =>
              let ps := tokParts t
              let _ := rows?
              match ps.headD "" with
              | "is_null" => ({ status := "ok", ret := toString (!nulls.isEmpty) }, none)
              | "read" | "read_volatile" | "read_unaligned" =>
                if p ≥ 0 ∧ pn < len then ({ status := "ok", ret := rowStr cols pn }, none) else ({ status := "ub" }, none)
              | "as_ref" =>
                if !nulls.isEmpty then ({ status := "ok", ret := "none" }, none)
                else if p ≥ 0 ∧ pn < len then ({ status := "ok", ret := "some" ++ rowStr cols pn }, none) else ({ status := "ub" }, none)
              | "as_mut" =>
                if !nulls.isEmpty then ({ status := "ok", ret := "none" }, none)
                else if p ≥ 0 ∧ pn < len then
                  (if ps.length > 2 then ({ status := "ok", ret := "written" }, some (partNat ps 1, partNat ps 2))
                   else ({ status := "ok", ret := "some" ++ rowStr cols pn }, none))
                else ({ status := "ub" }, none)
              | _ => ({ status := "stuck" }, none)
          match rest with
          | t :: _ =>
            let ps := tokParts t
            if ["write", "write_volatile", "write_unaligned"].contains (ps.headD "") then
              -- overwrite slot `p` bitwise: nothing is destroyed by the write itself; the harness took the old
              -- value out first and destroys it afterwards as a whole struct value
              let tag := partNat ps 1
              let e := sh.elem tag
              if p ≥ 0 ∧ pn < n then
                let oi := Model.replace cx.drops (getI r) pn e
                let os := Spec.replace cx.drops (getS r) pn e.rows
                let oldI := (oi.ret.getD sh.empty)
                let oldS := os.ret.getD []
                some { w := { w with regs := setReg w.regs r oi.st, rows := setReg w.rows r os.st },
                       i := { status := "ok", ret := "written:" ++ cx.fmtElem oldI.flat ++ ":wev=[]", ev := dropWhole cx.drops oldI },
                       s := { status := "ok", ret := "written:" ++ cx.fmtElem (oldS.map Elem.ids).flatten ++ ":wev=[]", ev := dropRows cx.drops oldS },
                       madeI := e.flat }
              else some { w, i := { status := "ub" }, s := { status := "ub" } }
            else
              let (oi, wi) := one (colsI r) n none
              let (os, _) := one (colsS r) (getS r).length none
              match wi with
              | some (leaf, tag) =>
                let (w', evI, evS, made) := writeBoth cx w r pn leaf tag
                some { w := w', i := { oi with ev := evI }, s := { os with ev := evS }, madeI := made }
              | none => some { w, i := oi, s := os }
          | [] =>
            let (oi, _) := one (colsI r) n none
            let (os, _) := one (colsS r) (getS r).length none
            some { w, i := oi, s := os }
    else none
  | _ => none

/-- internal iteration to exhaustion (`fold`, `rfold`, `rev().for_each`): the positions of the two windows are visited in
    the given order, every visit is one call of the test callback (which writes, for a mutable iterator) -/
def drainIter (cx : Ctx) (r : Nat) (writes : Bool) (tag : String) : List (Nat × Nat) → Nat → World → List String → List String → Ev → Ev → List Nat →
    World × List String × List String × Ev × Ev × List Nat
  | [], _, w, outI, outS, evI, evS, made => (w, outI, outS, evI, evS, made)
  | (pI, pS) :: ps, k, w, outI, outS, evI, evS, made =>
    let sh := cx.shape
    let nl := cx.kinds.length
    let c0 := w.regs.getD r sh.empty
    let r0 := w.rows.getD r []
    let rowStr (cols : List (List Nat)) (p : Nat) : String := fmtNats (cols.map (fun l => l.getD p 0))
    let sI := tag ++ rowStr (cx.maskCols c0.leaves) pI
    let sS := tag ++ rowStr (cx.maskCols (rowsCols nl r0)) pS
    if writes then
      let (w', eI, eS, md) := writeBoth cx w r pI (k % nl) ((16 + k) % 32)
      drainIter cx r writes tag ps (k + 1) w' (outI ++ [sI]) (outS ++ [sS]) (evI ++ eI) (evS ++ eS) (made ++ md)
    else drainIter cx r writes tag ps (k + 1) w (outI ++ [sI]) (outS ++ [sS]) evI evS made

/-- like `drainIter` with one tag per visit -/
def drainIterT (cx : Ctx) (r : Nat) (writes : Bool) : List ((Nat × Nat) × String) → Nat → World → List String → List String → Ev → Ev → List Nat →
    World × List String × List String × Ev × Ev × List Nat
  | [], _, w, outI, outS, evI, evS, made => (w, outI, outS, evI, evS, made)
  | ((pI, pS), tag) :: ps, k, w, outI, outS, evI, evS, made =>
    let (w', oI, oS, eI, eS, md) := drainIter cx r writes tag [(pI, pS)] k w [] [] {} {} []
    drainIterT cx r writes ps (k + 1) w' (outI ++ oI) (outS ++ oS) (evI ++ eI) (evS ++ eS) (made ++ md)

/-- drive an iterator on both sides step by step (`F` next, `B` next_back, `L` len, `H` size_hint);
    an element yielded by a mutable iterator is written by the test callback -/
def iterDrive (cx : Ctx) (r : Nat) (writes : Bool) : List Char → View.Win → View.Win → Nat → World → List String → List String → Ev → Ev → List Nat →
    World × List String × List String × Ev × Ev × List Nat
  | [], _, _, _, w, outI, outS, evI, evS, made => (w, outI, outS, evI, evS, made)
  | c :: cs, vI, vS, k, w, outI, outS, evI, evS, made =>
    let sh := cx.shape
    let nl := cx.kinds.length
    let colsI (c : Cols) : List (List Nat) := cx.maskCols c.leaves
    let colsS (rs : List Elem) : List (List Nat) := cx.maskCols (rowsCols nl rs)
    let rowStr (cols : List (List Nat)) (p : Nat) : String := fmtNats (cols.map (fun l => l.getD p 0))
    let c0 := w.regs.getD r sh.empty
    let r0 := w.rows.getD r []
    if c == 'W' then
      -- `.rev()` stepped alternately from its front (= the original's back) and its back (= the original's front)
      let alt (v : View.Win) : List Nat :=
        let ps := List.range' v.s v.l
        (List.range v.l).map (fun t => if t % 2 == 0 then ps.getD (v.l - 1 - t / 2) 0 else ps.getD (t / 2) 0)
      let tagsOf (n : Nat) : List String := (List.range n).map (fun t => if t % 2 == 0 then "B" else "F")
      drainIterT cx r writes (((alt vI).zip (alt vS)).zip (tagsOf vI.l)) k w outI outS evI evS made
    else if c == 'X' || c == 'Y' || c == 'V' then
      -- `X` fold (front to back); `Y` rfold, `V` rev().for_each (back to front); the iterator is consumed, later steps are ignored
      let fwd := c == 'X'
      let posI := if fwd then List.range' vI.s vI.l else (List.range' vI.s vI.l).reverse
      let posS := if fwd then List.range' vS.s vS.l else (List.range' vS.s vS.l).reverse
      drainIter cx r writes (if fwd then "F" else "B") (posI.zip posS) k w outI outS evI evS made
    else if c == 'L' then iterDrive cx r writes cs vI vS k w (outI ++ [s!"L{vI.l}"]) (outS ++ [s!"L{vS.l}"]) evI evS made
    else if c == 'H' then iterDrive cx r writes cs vI vS k w (outI ++ [s!"H{vI.l}:{vI.l}"]) (outS ++ [s!"H{vS.l}:{vS.l}"]) evI evS made
    else if c == 'C' then
      iterDrive cx r writes cs ⟨vI.s + vI.l, 0⟩ ⟨vS.s + vS.l, 0⟩ k w (outI ++ [s!"C{vI.l}"]) (outS ++ [s!"C{vS.l}"]) evI evS made
    else
      let stepOf (v : View.Win) : Option Nat × View.Win :=
        if c == 'F' then View.next v else if c == 'B' then View.nextBack v
        else if c == 'N' then View.nth v 1 else if c == 'Z' then View.nth v 1000
        else if c == 'R' then View.nthBack v 1 else if c == 'T' then View.lastOf v
        else (none, v)
      -- the model side steps through the zip chain extracted from /repo (`next` / `next_back` of the iterator kind in use)
      let (yI, vI') := if c == 'F' then Gen.iterStep cx.shape writes false vI
                       else if c == 'B' then Gen.iterStep cx.shape writes true vI else stepOf vI
      let (yS, vS') := stepOf vS
      let tag := String.singleton c
      match yI, yS with
      | some pI, some pS =>
        let sI := tag ++ rowStr (colsI c0) pI
        let sS := tag ++ rowStr (colsS r0) pS
        if writes then
          let leaf := k % nl
          let (w', eI, eS, md) := writeBoth cx w r pI leaf ((16 + k) % 32)
          iterDrive cx r writes cs vI' vS' (k + 1) w' (outI ++ [sI]) (outS ++ [sS]) (evI ++ eI) (evS ++ eS) (made ++ md)
        else iterDrive cx r writes cs vI' vS' (k + 1) w (outI ++ [sI]) (outS ++ [sS]) evI evS made
      | _, _ =>
        let f (y : Option Nat) (cols : List (List Nat)) : String := match y with
          | some p => tag ++ rowStr cols p
          | none => tag ++ "none"
        iterDrive cx r writes cs vI' vS' k w (outI ++ [f yI (colsI c0)]) (outS ++ [f yS (colsS r0)]) evI evS made

/-- iterators (`iter`, `itermut`), sorting (`sort`, `apply_index`, `swap`), `roundtrip`, `refs`, `refreplace` -/
def stepIter (cx : Ctx) (w : World) (ws : List String) : Option StepOut :=
  let sh := cx.shape
  let nl := cx.kinds.length
  let getI (r : Nat) : Cols := w.regs.getD r sh.empty
  let getS (r : Nat) : List Elem := w.rows.getD r []
  let colsI (c : Cols) : List (List Nat) := cx.maskCols c.leaves
  let colsS (rs : List Elem) : List (List Nat) := cx.maskCols (rowsCols nl rs)
  let rowStr (cols : List (List Nat)) (p : Nat) : String := fmtNats (cols.map (fun l => l.getD p 0))
  match ws with
  | ["iter", r, src, steps] | ["itermut", r, src, steps] =>
      match parseReg r with
      | none => some (badOp w)
      | some r =>
        let writes := ws.headD "" == "itermut"
        -- `….rev`: the reversed iterator: its `next` is `next_back` of the plain one and vice versa (steps F / B / L / H only)
        let rev := src.endsWith ".rev"
        let flip (c : Char) : Char := if c == 'F' then 'B' else if c == 'B' then 'F' else c
        let flipS (t : String) : String := match t.toList with
          | c :: rest => String.ofList (flip c :: rest)
          | [] => t
        let stepsL := if rev then steps.toList.map flip else steps.toList
        let (w', oI, oS, evI, evS, made) := iterDrive cx r writes stepsL ⟨0, (getI r).firstLen⟩ ⟨0, (getS r).length⟩ 0 w [] [] {} {} []
        let oI := if rev then oI.map flipS else oI
        let oS := if rev then oS.map flipS else oS
        -- `….reuse`: the view the iterator was obtained from (by reference) still covers all its elements afterwards
        let reuse := src.endsWith ".reuse"
        let oI := if reuse then oI ++ [s!"P{(getI r).firstLen}", s!"Q{(getI r).firstLen}"] else oI
        let oS := if reuse then oS ++ [s!"P{(getS r).length}", s!"Q{(getS r).length}"] else oS
        some { w := w', i := { status := "ok", ret := ",".intercalate oI, ev := evI },
               s := { status := "ok", ret := ",".intercalate oS, ev := evS }, madeI := made }
  | "sort" :: r :: entry :: rest =>
    match parseReg r with
    | none => some (badOp w)
    | some r =>
      let modulus := ((kv rest "mod").bind (·.toNat?)).getD 4
      let rng : Option (Nat × Nat) := (kv rest "range").bind (fun s => match s.splitOn ":" with
        | [a, b] => (a.toNat?).bind (fun a => (b.toNat?).map (fun b => (a, b)))
        | _ => none)
      let rng := if entry.startsWith "t" then none else rng
      let c := getI r
      let rs := getS r
      let n := c.firstLen
      -- the sub-slice: `as_mut_slice()` then `index_mut(a..b)` through the extracted index layer
      let winI : View.Res View.Win := match rng with
        | some (a, b) => View.viaIndex cx.prof (toIdxShape sh) .sliceMut .indexMut ⟨0, n⟩ { form := .range, start := a, end_ := b }
        | none => .ok ⟨0, n⟩
      let winS : View.Res View.Win := match rng with
        | some (a, b) => View.viaStd false ⟨0, rs.length⟩ { form := .range, start := a, end_ := b }
        | none => .ok ⟨0, rs.length⟩
      let kl := cx.keyLeaf
      let natural := entry == "sort"
      let oI : Obs × Cols := match winI with
        | .ok v =>
          let cols := c.leaves
          let mcols := cx.maskCols cols
          let key (p : Nat) : Nat := ((cols.getD kl []).getD p 0 / 8) % modulus
          let row (p : Nat) : List Nat := mcols.map (fun l => okey (l.getD p 0))
          let le (p q : Nat) : Bool := if natural then lexLe (row p) (row q) else key p ≤ key q
          -- `permutation.sort_by(…)` on `0..len`, then every field gathered by it
          let perm := (List.range' v.s v.l).mergeSort le
          ({ status := "ok" }, View.gatherWin c v perm)
        | .panic => ({ status := "panic" }, c)
        | _ => ({ status := "stuck" }, c)
      let oS : Obs × List Elem := match winS with
        | .ok v =>
          let key (e : Elem) : Nat := (e.ids.getD kl 0 / 8) % modulus
          let mrow (e : Elem) : List Nat := (e.ids.zip cx.kinds).map (fun p => if p.2 == 'z' then 0 else okey p.1)
          let le (a b : Elem) : Bool := if natural then lexLe (mrow a) (mrow b) else key a ≤ key b
          let seg := (rs.drop v.s).take v.l
          ({ status := "ok" }, rs.take v.s ++ seg.mergeSort le ++ rs.drop (v.s + v.l))
        | .panic => ({ status := "panic" }, rs)
        | _ => ({ status := "stuck" }, rs)
      some { w := { w with regs := setReg w.regs r oI.2, rows := setReg w.rows r oS.2 }, i := oI.1, s := oS.1 }
  | ["apply_index", r, _via, idx] =>
    match parseReg r, parseNats idx with
    | some r, some p =>
      let c := getI r
      let rs := getS r
      let n := c.firstLen
      -- validated up front (length, permutation) in every profile; then `new[i] = old[p[i]]` in every field
      let okI := View.isPerm p n
      let okS := View.isPerm p rs.length
      let c' := if okI then View.gatherWin c ⟨0, n⟩ p else c
      let rs' := if okS then p.filterMap (rs[·]?) else rs
      some { w := { w with regs := setReg w.regs r c', rows := setReg w.rows r rs' },
             i := { status := if okI then "ok" else "panic" }, s := { status := if okS then "ok" else "panic" } }
    | _, _ => some (badOp w)
  | ["swap", r, a, b] =>
    match parseReg r, a.toNat?, b.toNat? with
    | some r, some a, some b =>
      let c := getI r
      let rs := getS r
      let ri := c.apply2 (swapOp a b) (c.const [])
      let si := (swapOp a b).run rs []
      some { w := { w with regs := setReg w.regs r ri.st, rows := setReg w.rows r ((si.map (·.1)).getD rs) },
             i := { status := if ri.panicked then "panic" else "ok" }, s := { status := if si.isNone then "panic" else "ok" } }
    | _, _, _ => some (badOp w)
  | ["roundtrip", r, kind] =>
    match parseReg r with
    | some r =>
      if kind == "vec" then some { w, i := { status := "ok", ret := "rebuilt" }, s := { status := "ok", ret := "rebuilt" } }
      else if kind == "vec_cap" then
        -- from_raw_parts(ptr, len, capacity) with the common capacity of the field arrays: the identity, capacities included;
        -- not applicable when the field arrays have different capacities (zero-sized fields, at usize::MAX, aside)
        let cs := ((w.caps.getD r (Cap.St.new cx.kinds 0)).caps.filter (·.1 != 'z')).map (·.2)
        let na := cs.isEmpty || cs.any (· != cs.headD 0) || cs.headD 0 == 0
        some { w, i := { status := "ok", ret := if na then "n/a" else "kept" }, s := { status := "ok", ret := if na then "n/a" else "kept" } }
      else some { w, i := { status := "ok", ret := fmtCols (colsI (getI r)) }, s := { status := "ok", ret := fmtCols (colsS (getS r)) } }
    | none => some (badOp w)
  | "refs" :: r :: what :: args =>
    match parseReg r with
    | none => some (badOp w)
    | some r =>
      let a (i : Nat) : Nat := ((args.getD i "").toNat?).getD 0
      if what == "value_as_ref" then
        let e := sh.elem (a 0)
        let s := cx.fmtElem e.flat
        some { w, i := { status := "ok", ret := s ++ "/" ++ s, ev := dropWhole cx.drops e },
               s := { status := "ok", ret := s ++ "/" ++ s, ev := dropRows cx.drops e.rows }, madeI := e.flat }
      else if what == "value_as_mut" then
        let e := sh.elem (a 0)
        let leaf := a 1
        let id := a 2 * 8 + leaf
        let (e', ev, made) := Model.writeLeaf e leaf 0 id
        let s := cx.fmtElem e'.flat
        some { w, i := { status := "ok", ret := s, ev := ev ++ dropWhole cx.drops e' },
               s := { status := "ok", ret := s, ev := ev ++ dropRows cx.drops e'.rows }, madeI := e.flat ++ made }
      else
        -- to_owned / From conversions of the element reference at position i: clone every field, in order
        let i := a 0
        let c := getI r
        let rs := getS r
        let oI : Obs := if i < c.firstLen then
            let ids := View.rowIds c i
            let first := ids.headD 0
            { status := "ok", ret := cx.fmtElem ids,
              ev := { clones := ids, drops := ids, dropT := if cx.drops then [first] else [] } }
          else { status := "panic" }
        let oS : Obs := match rs[i]? with
          | some e => { status := "ok", ret := cx.fmtElem e.ids,
                        ev := { clones := e.ids, drops := e.ids, dropT := if cx.drops then [e.firstId] else [] } }
          | none => { status := "panic" }
        some { w, i := oI, s := oS }
  | ["refreplace", r, i, t] =>
    match parseReg r, i.toNat?, t.toNat? with
    | some r, some i, some t =>
      let e := sh.elem t
      let oi := Model.replace cx.drops (getI r) i e
      let os := Spec.replace cx.drops (getS r) i e.rows
      some { w := { w with regs := setReg w.regs r oi.st, rows := setReg w.rows r os.st },
             i := cx.obsElemI oi false, s := cx.obsElemS os false, madeI := e.flat }
    | _, _, _ => some (badOp w)
  | _ => none

def parseBound (s : String) : Option Bounds.Bound :=
  if s == "unb" then some .unb else
  match s.splitOn ":" with
  | ["inc", v] => v.toNat?.map .inc
  | ["exc", v] => v.toNat?.map .exc
  | _ => none

/-- element access through the index layer at one position (`get`/`index`, shared or mut) -/
def posAccess (cx : Ctx) (w : World) (r : Nat) (k : IdxIR.Kind) (m : IdxIR.M) (i : Nat) : Obs × Obs :=
  let c := w.regs.getD r cx.shape.empty
  let rs := w.rows.getD r []
  let res := IdxIR.run cx.prof c.firstLen (toIdxShape cx.shape) k { form := .pos, pos := i } m
  let ci := cx.maskCols c.leaves
  let cs := cx.maskCols (rowsCols cx.kinds.length rs)
  let getting := m == .get || m == .getMut
  let row (cols : List (List Nat)) (s : Nat) : String := fmtNats (cols.map (fun col => col.getD s 0))
  let oi : Obs := match res with
    | .ok (.some_ (.win s _)) => { status := "ok", ret := "some" ++ row ci s }
    | .ok .none_ => { status := "ok", ret := "none" }
    | .ok (.win s _) => { status := "ok", ret := row ci s }
    | .err .panic => { status := "panic" }
    | .err .ub => { status := "ub" }
    | _ => { status := "stuck" }
  let os : Obs := match rs[i]?, getting with
    | some _, true => { status := "ok", ret := "some" ++ row cs i }
    | none, true => { status := "ok", ret := "none" }
    | some _, false => { status := "ok", ret := row cs i }
    | none, false => { status := "panic" }
  (oi, os)

/-- operations dispatched through the generic traits.  The generated trait methods forward to
    the inherent method of the same name (`C09.forwarding`, checked on the extracted table);
    `first`/`last` are the provided `get(0)` / `get(len.saturating_sub(1))`; `slice`/`slice_mut`
    run the extracted `RangeBounds` conversion. -/
def step (cx : Ctx) (w : World) (ws : List String) : StepOut :=
  match stepViews cx w ws with
  | some o => o
  | none =>
  match stepIter cx w ws with
  | some o => o
  | none =>
  match ws with
  | ["tnew", r] => stepCore cx w ["new", r]
  -- `apply_index` through a named mutable slice that is looked at again afterwards: it still covers all its elements
  | ["apply_index_reuse", r, idx] =>
    match stepIter cx w ["apply_index", r, "slicemut", idx] with
    | some o =>
      let n := (w.regs.getD ((parseReg r).getD 0) cx.shape.empty).firstLen
      let m := (w.rows.getD ((parseReg r).getD 0) []).length
      { o with i := { o.i with ret := if o.i.status == "ok" then s!"P{n},Q{n}" else o.i.ret }, s := { o.s with ret := if o.s.status == "ok" then s!"P{m},Q{m}" else o.s.ret } }
    | none => badOp w
  -- an iterator whose size_hint promises fewer items than it yields: the generated `Extend` / `FromIterator` are push loops,
  -- what the iterator promises does not matter
  | ["extend_lo", r, ts, _] => stepCore cx w ["extend", r, ts]
  | ["collect_lo", r, ts, _] => stepCore cx w ["collect", r, ts]
  | ["treserve", r, n] => stepCore cx w ["reserve", r, n]
  | ["treserve_exact", r, n] => stepCore cx w ["reserve_exact", r, n]
  | ["tshrink_to_fit", r] => stepCore cx w ["shrink_to_fit", r]
  | ["tcapacity", r] => stepCore cx w ["capacity", r]
  | ["twith_capacity", r, n] => stepCore cx w ["with_capacity", r, n]
  | ["tlen", r, _kind] =>
    match parseReg r with
    | some r =>
      let c := w.regs.getD r cx.shape.empty
      let rs := w.rows.getD r []
      { w, i := { status := "ok", ret := s!"{c.firstLen}/{c.firstLen == 0}" },
        s := { status := "ok", ret := s!"{rs.length}/{rs.length == 0}" } }
    | none => badOp w
  | "tget" :: r :: kind :: m :: rest =>
    match parseReg r with
    | some r =>
      let c := w.regs.getD r cx.shape.empty
      let n := c.firstLen
      let i : Option Nat := match m, rest with
        | "first", [] | "first_mut", [] => some 0
        | "last", [] | "last_mut", [] => some (n - 1)
        | _, [i] => i.toNat?
        | _, _ => none
      let isMut := m == "get_mut" || m == "index_mut" || m == "first_mut" || m == "last_mut"
      let getting := !(m == "index" || m == "index_mut")
      let k : Option IdxIR.Kind := match kind, isMut with
        | "vec", false => some .vecRef | "vec", true => some .vecMut
        | "slice", false => some .slice | "slicemut", false => some .slice | "slicemut", true => some .sliceMut
        | _, _ => none
      match i, k with
      | some i, some k =>
        let mm : IdxIR.M := match getting, isMut with
          | true, false => .get | true, true => .getMut | false, false => .index | false, true => .indexMut
        let (oi, os) := posAccess cx w r k mm i
        -- the mirror's first/last are std's own
        let rs := w.rows.getD r []
        let os := if m == "last" || m == "last_mut" then
            (match rs.getLast? with
             | some _ => os
             | none => { status := "ok", ret := "none" })
          else os
        { w, i := oi, s := os }
      | _, _ => badOp w
    | none => badOp w
  | ["bounds", r, kind, mode, sb, eb] =>
    match parseReg r, parseBound sb, parseBound eb with
    | some r, some sb, some eb =>
      let name := match kind, mode with
        | "vec", "shared" => "SoAVec::slice" | "vec", "mut" => "SoAVec::slice_mut"
        | "slice", "shared" => "SoASlice::slice" | "slicemut", "shared" => "SoASliceMut::slice"
        | "slicemut", "mut" => "SoASliceMut::slice_mut" | _, _ => ""
      match Extracted.convs.find? (·.name == name) with
      | some cv =>
        let c := w.regs.getD r cx.shape.empty
        let rs := w.rows.getD r []
        let res := cv.run cx.prof c.firstLen (toIdxShape cx.shape) sb eb
        let win (cols : List (List Nat)) (s l : Nat) : String := fmtCols (cols.map (fun col => (col.drop s).take l))
        let oi : Obs := match res with
          | .ok (.win s l) => { status := "ok", ret := win (cx.maskCols c.leaves) s l ++ " inb=true" }
          | .err .panic => { status := "panic" }
          | .err .ub => { status := "ub" }
          | _ => { status := "stuck" }
        let os : Obs := match Bounds.stdBounds rs.length sb eb with
          | some (s, l) => { status := "ok", ret := win (cx.maskCols (rowsCols cx.kinds.length rs)) s l ++ " inb=true" }
          | none => { status := "panic" }
        { w, i := oi, s := os }
      | none => badOp w
    | _, _, _ => badOp w
  | op :: rest =>
    if ["tpush", "tpop", "tinsert", "tremove", "tswap_remove", "treplace", "ttruncate", "tclear", "tappend", "tsplit_off"].contains op
    then stepCore cx w ((op.drop 1).toString :: rest)
    else stepCore cx w ws
  | [] => badOp w

def Ctx.fmtRegsI (cx : Ctx) (w : World) : String :=
  ";".intercalate (w.regs.map (fun c => fmtCols (cx.maskCols c.leaves)))
def Ctx.fmtRegsS (cx : Ctx) (w : World) : String :=
  ";".intercalate (w.rows.map (fun rs => fmtCols (cx.maskCols (rowsCols cx.kinds.length rs))))

/-- capacities after one step (std's `RawVec` policy, `Soa/Model/Cap.lean`), from the operation
    and the lengths before / after it -/
def capUpdate (cx : Ctx) (w w' : World) (ws : List String) (ok : Bool) : List Cap.St :=
  let fresh := Cap.St.new cx.kinds 0
  let lenOf (wd : World) (r : Nat) : Nat := (wd.regs.getD r cx.shape.empty).firstLen
  let get (r : Nat) : Cap.St := { (w.caps.getD r fresh) with len := lenOf w r }
  let set (cs : List Cap.St) (r : Nat) (st : Cap.St) : List Cap.St := cs.set r st
  let keep (r : Nat) : List Cap.St := set w.caps r ((get r).setLen (lenOf w' r))
  let op := ((ws.headD "").dropWhile (· == 't')).toString
  let op := if op == "runcate" || op.startsWith "o_vec" then "t" ++ op else op
  let op := if op == "extend_lo" then "extend" else if op == "collect_lo" then "collect" else op
  let reg (i : Nat) : Nat := ((ws.getD i "").drop 1).toString.toNat?.getD 0
  let num (i : Nat) : Nat := (ws.getD i "").toNat?.getD 0
  if op == "unwind_drop" then set w.caps (reg 1) fresh else
  if !ok then (List.range nreg).foldl (fun cs r => set cs r { (cs.getD r fresh) with len := lenOf w' r }) w.caps else
  match op with
  | "new" | "drop" | "unwind_drop" => set w.caps (reg 1) fresh
  | "with_capacity" => set w.caps (reg 1) (Cap.St.new cx.kinds (num 2))
  | "push" | "insert" => set w.caps (reg 1) (get (reg 1)).push
  | "extend" | "extend_refs" | "extend_refs_f" | "promise" => set w.caps (reg 1) (Cap.St.pushes (lenOf w' (reg 1) - lenOf w (reg 1)) (get (reg 1)))
  | "collect" => set w.caps (reg 1) (Cap.St.pushes (lenOf w' (reg 1)) fresh)
  | "append" =>
    let cs := set w.caps (reg 1) ((get (reg 1)).grow (lenOf w (reg 2)))
    set cs (reg 2) ((get (reg 2)).setLen 0)
  | "extend_from_slice" => set w.caps (reg 1) ((get (reg 1)).grow (lenOf w (reg 2)))
  | "resize" =>
    let n := num 2
    let l := lenOf w (reg 1)
    set w.caps (reg 1) (if n > l then (get (reg 1)).grow (n - l) else (get (reg 1)).setLen n)
  | "split_off" =>
    let cs := keep (reg 1)
    set cs (reg 3) { (Cap.St.new cx.kinds (lenOf w' (reg 3))) with len := lenOf w' (reg 3) }
  | "to_vec" | "to_vec_sm" | "to_vec_ts" | "to_vec_tsm" => set w.caps (reg 2) { (Cap.St.new cx.kinds (lenOf w' (reg 2))) with len := lenOf w' (reg 2) }
  | "roundtrip" => if ws.getD 2 "" == "vec" then set w.caps (reg 1) (get (reg 1)).shrink else w.caps
  | "reserve" => set w.caps (reg 1) ((get (reg 1)).reserve (num 2))
  | "reserve_exact" => set w.caps (reg 1) ((get (reg 1)).reserveExact (num 2))
  | "shrink_to_fit" => set w.caps (reg 1) (get (reg 1)).shrink
  | _ => (List.range nreg).foldl (fun cs r => set cs r { (cs.getD r fresh) with len := lenOf w' r }) w.caps

/-- run one step and render the two observation lines; the ledgers are advanced -/
def stepLines (cx : Ctx) (w : World) (n : Nat) (line : String) : World × String × String :=
  let ws := (line.splitOn " ").filter (· ≠ "")
  let r := step cx w ws
  if r.i.status == "bad-op" then (w, s!"I {n} bad-op", s!"S {n} bad-op") else
  let li := (w.li.add cx r.madeI (r.i.ev ++ r.i.rev))
  let ls := (w.ls.add cx r.madeI (r.s.ev ++ r.s.rev))
  let w' := { r.w with li, ls }
  let w' := { w' with caps := capUpdate cx w w' ws (r.i.status == "ok") }
  let pure := ["get", "index", "len", "is_empty", "capacity", "caps", "view", "iter", "bounds", "tget", "tlen", "ptr", "refs"].contains (ws.headD "")
  if pure then (w', s!"I {n} {cx.fmtObs r.i} regs=~", s!"S {n} {cx.fmtObs r.s} regs=~") else
  (w', s!"I {n} {cx.fmtObs r.i} regs={cx.fmtRegsI w'}", s!"S {n} {cx.fmtObs r.s} regs={cx.fmtRegsS w'}")

/-- the final drop of every register, and the ledger audit -/
def endLines (cx : Ctx) (w : World) : String × String :=
  let ei := w.regs.foldl (fun ev c => ev ++ (Gen.dropVec cx.drops c).ev) ({} : Ev)
  let es := w.rows.foldl (fun ev rs => ev ++ (Spec.dropVec cx.drops rs).ev) ({} : Ev)
  let li := w.li.add cx [] ei
  let ls := w.ls.add cx [] es
  (s!"I end ok ret=- rev=[] ev={cx.fmtEv ei} double_drop={li.doubleDrop} leak={li.leak}",
   s!"S end ok ret=- rev=[] ev={cx.fmtEv es} double_drop={ls.doubleDrop} leak={ls.leak}")

/-! ## shape descriptor: `shape <Name> drops=<0|1> ( s ( s b ) s )` -/

partial def parseTree : List String → Option (Shape × List String)
  | "(" :: rest =>
    let rec go (acc : List Shape) : List String → Option (Shape × List String)
      | ")" :: rest => some (.nest acc.reverse, rest)
      | toks => match parseTree toks with
        | some (f, rest) => go (f :: acc) rest
        | none => none
    go [] rest
  | tok :: rest =>
    match tok.toList with
    | [c] => if "zbslhp".toList.contains c then some (.leaf c, rest) else none
    | _ => none
  | [] => none

def parseShapeLine (prof : IdxIR.Prof) (line : String) : Option Ctx :=
  match (line.splitOn " ").filter (· ≠ "") with
  | "shape" :: _name :: dr :: toks =>
    match parseTree toks with
    | some (sh, []) =>
      let nd : List Nat := match dr.splitOn ":" with
        | [_, ls] => (ls.splitOn ",").filterMap String.toNat?
        | _ => []
      some { shape := sh, drops := dr.startsWith "drops=1", kinds := sh.kinds, prof := prof, nestedDrops := nd }
    | _ => none
  | _ => none

end Soa.Exec
