/-!
# Interpreter for the index-layer IR emitted by the translator (`/verif/extract`) from
`soa-derive-internal/src/index.rs`.  Hand-written; the table it interprets is regenerated
from /repo on every run.
-/
namespace Soa.IdxIR

inductive A | self | start | end_ | max | lenChecked | lenFirst | lit (n : Nat) | add (a b : A) | none | opaque (s : String)
  deriving DecidableEq
inductive C | lt (a b : A) | le (a b : A) | eq (a b : A) | and (c d : C) | opaque (s : String)
  deriving DecidableEq
inductive I | self | range (a b : A) | rangeIncl (a b : A) | opaque (s : String)
  deriving DecidableEq
inductive K | same | asSlice | asMutSlice
  deriving DecidableEq
inductive M | get | getUnchecked | index | getMut | getUncheckedMut | indexMut
  deriving DecidableEq
inductive Acc | leafUnchecked | leafUncheckedMut | leafIndex | leafIndexMut | leafGet | leafGetMut
  deriving DecidableEq
inductive B | ite (c : C) (t e : B) | some (b : B) | none | unit | panic | call (m : M) (i : I) (k : K) | cont (k : K)
  | build (leaf : Acc) (nested : M) | opaque (s : String)
  deriving DecidableEq
inductive Kind | vecRef | vecMut | slice | sliceMut
  deriving DecidableEq
inductive Form | pos | range | rangeTo | rangeFrom | rangeFull | rangeIncl | rangeToIncl
  deriving DecidableEq
inductive Prof | debug | release
  deriving DecidableEq

/-- struct shape: a field is a leaf array or a nested SoA -/
inductive Shape | leaf | nest (fs : List Shape)

/-- the lengths of the field arrays of one container, as a tree: in lockstep they are all
    equal (`LT.uniform`), but the fields are public and safe code can make them differ -/
inductive LT | leaf (n : Nat) | nest (fs : List LT)

def LT.leaves : LT → List Nat
  | .leaf n => [n]
  | .nest fs => leavesL fs
where leavesL : List LT → List Nat
  | [] => []
  | f :: fs => f.leaves ++ leavesL fs

/-- length of the first field array (what the generated `len()` returns) -/
def LT.first (t : LT) : Nat := t.leaves.headD 0

def LT.uniform (n : Nat) : Shape → LT
  | .leaf => .leaf n
  | .nest fs => .nest (uniformL n fs)
where uniformL (n : Nat) : List Shape → List LT
  | [] => []
  | f :: fs => LT.uniform n f :: uniformL n fs

def MAX : Nat := 18446744073709551615

structure IV where
  form : Form
  pos : Nat := 0
  start : Nat := 0
  end_ : Nat := 0
  exhausted : Bool := false   -- `RangeInclusive` only; the generated code cannot read it, std does

inductive Err | panic | ub | stuck
  deriving DecidableEq, Repr
inductive V | win (s l : Nat) | none_ | some_ (v : V) | early   -- `early`: a `?` returned `None` from the enclosing function
  deriving DecidableEq, Repr
inductive R | ok (v : V) | err (e : Err)
  deriving DecidableEq, Repr

def addU (p : Prof) (x y : Nat) : Option Nat :=
  if x + y ≤ MAX then some (x + y)
  else match p with
    | .debug => none                       -- overflow check panics
    | .release => some (x + y - (MAX + 1))   -- wraps

/-- the generated `len()`: the first field's length; a debug build asserts that every other
    field agrees and panics (`none`) otherwise -/
def LT.lenChecked (p : Prof) (t : LT) : Option Nat :=
  match p with
  | .release => some t.first
  | .debug => if t.leaves.all (· == t.first) then some t.first else none

/-- none = overflow panic (or a failed debug assertion in `len()`) -/
def evalA (p : Prof) (t : LT) (iv : IV) : A → Option Nat
  | .self => some iv.pos
  | .start => some iv.start
  | .end_ => some iv.end_
  | .max => some MAX
  | .lenChecked => t.lenChecked p
  | .lenFirst => some t.first
  | .lit k => some k
  | .add a b => match evalA p t iv a, evalA p t iv b with
    | some x, some y => addU p x y
    | _, _ => none
  | .none => none
  | .opaque _ => none

def evalC (p : Prof) (t : LT) (iv : IV) : C → Option Bool
  | .lt a b => match evalA p t iv a, evalA p t iv b with | some x, some y => some (decide (x < y)) | _, _ => none
  | .le a b => match evalA p t iv a, evalA p t iv b with | some x, some y => some (decide (x ≤ y)) | _, _ => none
  | .eq a b => match evalA p t iv a, evalA p t iv b with | some x, some y => some (decide (x = y)) | _, _ => none
  | .and c d => match evalC p t iv c with
    | some true => evalC p t iv d
    | some false => some false
    | none => none
  | .opaque _ => none

def evalI (p : Prof) (t : LT) (iv : IV) : I → Option IV
  | .self => some iv
  | .range a b => match evalA p t iv a, evalA p t iv b with
    | some x, some y => some { form := .range, start := x, end_ := y } | _, _ => none
  | .rangeIncl a b => match evalA p t iv a, evalA p t iv b with
    | some x, some y => some { form := .rangeIncl, start := x, end_ := y } | _, _ => none
  | .opaque _ => none

def kindAfter : Kind → K → Kind
  | k, .same => k
  | _, .asSlice => .slice
  | _, .asMutSlice => .sliceMut

/-- how a per-field accessor reacts to an index outside its field array -/
inductive Mode | unchecked | checked | try_
  deriving DecidableEq

/-- `get_unchecked*`: undefined behaviour; `&f[i]`: panic; `f.get(i)?`: `None` from the function -/
def Acc.mode : Acc → Mode
  | .leafUnchecked | .leafUncheckedMut => .unchecked
  | .leafIndex | .leafIndexMut => .checked
  | .leafGet | .leafGetMut => .try_

def oob : Mode → R
  | .unchecked => .err .ub
  | .checked => .err .panic
  | .try_ => .ok .early

/-- leaf access on a field array of length n -/
def leafAcc (n : Nat) (iv : IV) (m : Mode) : R :=
  match iv.form with
  | .pos => if iv.pos < n then .ok (.win iv.pos 1) else oob m
  | .range => if iv.start ≤ iv.end_ ∧ iv.end_ ≤ n then .ok (.win iv.start (iv.end_ - iv.start)) else oob m
  | _ => .err .stuck

/-- the struct literal `T { f: acc(slice.f), … }`: fields in declaration order, each with ITS OWN
    length; the first error / early `None` wins; windows must agree -/
def buildLT (iv : IV) (m : Mode) : LT → R
  | .leaf n => leafAcc n iv m
  | .nest fs => go fs
where go : List LT → R
  | [] => .err .stuck
  | [f] => buildLT iv m f
  | f :: g :: fs => match buildLT iv m f with
    | .err e => .err e
    | .ok .early => .ok .early
    | .ok v => match go (g :: fs) with
      | .err e => .err e
      | .ok .early => .ok .early
      | .ok w => if v = w then .ok v else .err .stuck

def sliceKind : Kind → Kind
  | .sliceMut | .vecMut => .sliceMut
  | _ => .slice

def eval (table : Kind → Form → M → Option B) (p : Prof) (t : LT) : Nat → Kind → IV → B → R
  | 0, _, _, _ => .err .stuck
  | fuel+1, kind, iv, b =>
    match b with
    | .ite c th e => match evalC p t iv c with
      | some true => eval table p t fuel kind iv th
      | some false => eval table p t fuel kind iv e
      | none => .err .panic
    | .some b => match eval table p t fuel kind iv b with
      | .ok .early => .ok .none_          -- a `?` inside `Some(…)` returned `None`
      | .ok v => .ok (.some_ v)
      | .err e => .err e
    | .none => .ok .none_
    | .panic => .err .panic
    | .unit => .err .stuck
    | .cont _ => .ok (.win 0 t.first)
    | .call m i k => match evalI p t iv i with
      | none => .err .panic
      | some iv' => match table (kindAfter kind k) iv'.form m with
        | some b' => eval table p t fuel (kindAfter kind k) iv' b'
        | none => .err .stuck
    | .build la nm =>
      -- the accessor used for nested fields must be this very builder again (checked on the
      -- extracted table), possibly wrapped in `Some(…)` for the `?`-style accessors
      if table (sliceKind kind) iv.form nm = some (.build la nm) ∨
         table (sliceKind kind) iv.form nm = some (.some (.build la nm)) then buildLT iv la.mode t
      else .err .stuck
    | .opaque _ => .err .stuck

end Soa.IdxIR
