/-!
# Interpreter for the index-layer IR emitted by the translator (`/verif/extract`) from
`soa-derive-internal/src/index.rs`.  Hand-written; the table it interprets is regenerated
from /repo on every run.
-/
namespace Soa.IdxIR

inductive A | self | start | end_ | max | lenChecked | lenFirst | lit (n : Nat) | add (a b : A) | none | opaque (s : String)
  deriving DecidableEq
inductive C | lt (a b : A) | le (a b : A) | eq (a b : A) | and (c d : C) | opaque (s : String)
  deriving DecidableEq
inductive I | self | range (a b : A) | rangeIncl (a b : A) | opaque (s : String)
  deriving DecidableEq
inductive K | same | asSlice | asMutSlice
  deriving DecidableEq
inductive M | get | getUnchecked | index | getMut | getUncheckedMut | indexMut
  deriving DecidableEq
inductive Acc | leafUnchecked | leafUncheckedMut | leafIndex | leafIndexMut
  deriving DecidableEq
inductive B | ite (c : C) (t e : B) | some (b : B) | none | unit | panic | call (m : M) (i : I) (k : K) | cont (k : K)
  | build (leaf : Acc) (nested : M) | opaque (s : String)
  deriving DecidableEq
inductive Kind | vecRef | vecMut | slice | sliceMut
  deriving DecidableEq
inductive Form | pos | range | rangeTo | rangeFrom | rangeFull | rangeIncl | rangeToIncl
  deriving DecidableEq
inductive Prof | debug | release
  deriving DecidableEq

/-- struct shape: a field is a leaf array or a nested SoA -/
inductive Shape | leaf | nest (fs : List Shape)

def MAX : Nat := 18446744073709551615

structure IV where
  form : Form
  pos : Nat := 0
  start : Nat := 0
  end_ : Nat := 0
  exhausted : Bool := false   -- `RangeInclusive` only; the generated code cannot read it, std does

inductive Err | panic | ub | stuck
  deriving DecidableEq, Repr
inductive V | win (s l : Nat) | none_ | some_ (v : V)
  deriving DecidableEq, Repr
inductive R | ok (v : V) | err (e : Err)
  deriving DecidableEq, Repr

def addU (p : Prof) (x y : Nat) : Option Nat :=
  if x + y ≤ MAX then some (x + y)
  else match p with
    | .debug => none                       -- overflow check panics
    | .release => some (x + y - (MAX + 1))   -- wraps

/-- none = overflow panic; stuck terms evaluate to MAX+1 sentinel via `bad` flag -/
def evalA (p : Prof) (n : Nat) (iv : IV) : A → Option Nat
  | .self => some iv.pos
  | .start => some iv.start
  | .end_ => some iv.end_
  | .max => some MAX
  | .lenChecked => some n      -- lockstep: the debug assertion passes
  | .lenFirst => some n
  | .lit k => some k
  | .add a b => match evalA p n iv a, evalA p n iv b with
    | some x, some y => addU p x y
    | _, _ => none
  | .none => none
  | .opaque _ => none

def evalC (p : Prof) (n : Nat) (iv : IV) : C → Option Bool
  | .lt a b => match evalA p n iv a, evalA p n iv b with | some x, some y => some (decide (x < y)) | _, _ => none
  | .le a b => match evalA p n iv a, evalA p n iv b with | some x, some y => some (decide (x ≤ y)) | _, _ => none
  | .eq a b => match evalA p n iv a, evalA p n iv b with | some x, some y => some (decide (x = y)) | _, _ => none
  | .and c d => match evalC p n iv c with
    | some true => evalC p n iv d
    | some false => some false
    | none => none
  | .opaque _ => none

def evalI (p : Prof) (n : Nat) (iv : IV) : I → Option IV
  | .self => some iv
  | .range a b => match evalA p n iv a, evalA p n iv b with
    | some x, some y => some { form := .range, start := x, end_ := y } | _, _ => none
  | .rangeIncl a b => match evalA p n iv a, evalA p n iv b with
    | some x, some y => some { form := .rangeIncl, start := x, end_ := y } | _, _ => none
  | .opaque _ => none

def kindAfter : Kind → K → Kind
  | k, .same => k
  | _, .asSlice => .slice
  | _, .asMutSlice => .sliceMut

def Acc.checked : Acc → Bool
  | .leafIndex | .leafIndexMut => true
  | _ => false

/-- leaf access on a field of length n -/
def leafAcc (n : Nat) (iv : IV) (checked : Bool) : R :=
  match iv.form with
  | .pos => if iv.pos < n then .ok (.win iv.pos 1) else .err (if checked then .panic else .ub)
  | .range => if iv.start ≤ iv.end_ ∧ iv.end_ ≤ n then .ok (.win iv.start (iv.end_ - iv.start))
              else .err (if checked then .panic else .ub)
  | _ => .err .stuck

/-- builder over a shape: fields in order, first error wins, all windows must agree -/
def buildShape (n : Nat) (iv : IV) (checked : Bool) : Shape → R
  | .leaf => leafAcc n iv checked
  | .nest fs => go fs
where go : List Shape → R
  | [] => .err .stuck
  | [f] => buildShape n iv checked f
  | f :: g :: fs => match buildShape n iv checked f with
    | .err e => .err e
    | .ok v => match go (g :: fs) with
      | .err e => .err e
      | .ok w => if v = w then .ok v else .err .stuck

def sliceKind : Kind → Kind
  | .sliceMut | .vecMut => .sliceMut
  | _ => .slice

def eval (table : Kind → Form → M → Option B) (p : Prof) (n : Nat) (sh : Shape) : Nat → Kind → IV → B → R
  | 0, _, _, _ => .err .stuck
  | fuel+1, kind, iv, b =>
    match b with
    | .ite c t e => match evalC p n iv c with
      | some true => eval table p n sh fuel kind iv t
      | some false => eval table p n sh fuel kind iv e
      | none => .err .panic
    | .some b => match eval table p n sh fuel kind iv b with
      | .ok v => .ok (.some_ v)
      | .err e => .err e
    | .none => .ok .none_
    | .panic => .err .panic
    | .unit => .err .stuck
    | .cont _ => .ok (.win 0 n)
    | .call m i k => match evalI p n iv i with
      | none => .err .panic
      | some iv' => match table (kindAfter kind k) iv'.form m with
        | some b' => eval table p n sh fuel (kindAfter kind k) iv' b'
        | none => .err .stuck
    | .build la nm =>
      -- the nested accessor must be this very builder again (checked on the extracted table)
      if table (sliceKind kind) iv.form nm = some (.build la nm) then buildShape n iv la.checked sh
      else .err .stuck
    | .opaque _ => .err .stuck

end Soa.IdxIR
