import Soa.Model.LoopSyntax
import Soa.Model.Vec
/-!
# Interpreter for the statement trees of the loop-style generated functions

A big-step interpreter for the small Rust subset of `Soa/Extracted/Loops.lean`, over a machine
that holds the vector (`self`), the local variables, the ownership events and the record of
what the user callback was shown.  Calls of *other* generated methods (`self.pop()`,
`self.push(x)`, `self.truncate(k)`, `slice.swap(a, b)`, …) go through a method table
(`Methods`), so the same interpreter runs on the hand-written model (for the theorems) and on
the semantics extracted from /repo (in the driver).  Ownership is tracked as far as these
functions need it: a by-value parameter or a popped element is destroyed when it is passed to
`mem::drop`, when it goes out of scope unmoved, or when the function unwinds.

`while` loops take fuel (`Env.fuel`); `for` loops recurse on the range / the list.
-/
namespace Soa.Lp
open Soa

inductive V where
  | unit
  | nat (n : Nat)
  | bool (b : Bool)
  | elem (e : Cols)                     -- an owned struct value (one row)
  | opt (o : Option Cols)               -- `Option<P>` holding an owned value
  | cont (c : Cols)                     -- an owned vector (`from_iter`'s `result`)
  | view                                -- `self.as_mut_slice()`: mutable view of the whole of `self`
  | oref (o : Option Nat)               -- `Option<…Ref>` / `Option<…RefMut>` into `self`
  | eref (i : Nat)                      -- element reference into `self`
  | range (a b : Nat)
  | elems (es : List Cols)              -- an iterator of owned values
  | elemsBoom (es : List Cols) (k : Nat)  -- … that panics when asked for item number `k` (the rest is destroyed with it)
  | src (c : Cols)                      -- a borrowed container (`other`)
  | srcIter (c : Cols)                  -- `other.iter()`
  | sref (c : Cols) (i : Nat)           -- reference to row `i` of a borrowed container
  | vref (e : Cols)                     -- `value.as_ref()`
  | moved
  deriving Inhabited

/-- semantics of the generated methods a loop-style function calls -/
structure Methods where
  len : Cols → Nat
  pop : Cols → Model.Out
  push : Cols → Cols → Model.Out
  truncate : Cols → Nat → Model.Out
  swap : Cols → Nat → Nat → Model.Out
  empty : Cols

structure Env where
  dr : Bool
  ps : List V
  keep : Nat → Bool := fun _ => true
  boom : Option Nat := none
  touch : Nat → Nat → Option (Nat × Nat) := fun _ _ => none
  M : Methods
  fuel : Nat

structure Mach where
  self : Cols
  locals : List (String × V) := []
  movedPs : List Nat := []               -- by-value parameters already moved out
  ev : Ev := {}
  vis : List (List Nat) := []
  made : List Nat := []
  calls : Nat := 0                       -- calls of the closure parameter so far

inductive Res (α : Type) where
  | ok (a : α) (m : Mach)
  | panic (m : Mach)
  | stuck (why : String)

def Res.bind {α β : Type} (r : Res α) (f : α → Mach → Res β) : Res β :=
  match r with
  | .ok a m => f a m
  | .panic m => .panic m
  | .stuck w => .stuck w

@[simp] theorem Res.bind_ok {α β : Type} (a : α) (m : Mach) (f : α → Mach → Res β) : (Res.ok a m).bind f = f a m := rfl
@[simp] theorem Res.bind_panic {α β : Type} (m : Mach) (f : α → Mach → Res β) : (Res.panic m : Res α).bind f = .panic m := rfl
@[simp] theorem Res.bind_stuck {α β : Type} (w : String) (f : α → Mach → Res β) : (Res.stuck w : Res α).bind f = .stuck w := rfl

def lookup (x : String) : List (String × V) → Option V
  | [] => none
  | (y, v) :: r => if x = y then some v else lookup x r

def setLocal (x : String) (v : V) : List (String × V) → List (String × V)
  | [] => [(x, v)]
  | (y, w) :: r => if x = y then (y, v) :: r else (y, w) :: setLocal x v r

/-- destroy a value that is no longer owned by anybody -/
def dropV (dr : Bool) : V → Ev
  | .elem e => dropWhole dr e
  | .opt (some e) => dropWhole dr e
  | .cont c => dropWhole dr c
  | _ => {}

/-- destroy a list of owned values -/
def dropCols (dr : Bool) : List Cols → Ev
  | [] => {}
  | e :: es => dropWhole dr e ++ dropCols dr es

/-- apply the outcome of a method of the vector to the machine -/
def afterSelf (m : Mach) (o : Model.Out) (k : Model.Out → V) : Res V :=
  let m' := { m with self := o.st, ev := m.ev ++ o.ev }
  if o.panicked then .panic m' else .ok (k o) m'

/-- is the expression a bare by-value parameter (so that using it as an argument moves it)? -/
def asParam : Ex → Option Nat | .param k => some k | _ => none
def asVar : Ex → Option String | .var x => some x | _ => none

def arith (op : String) (a b : Nat) : Option V :=
  match op with
  | ">" => some (.bool (decide (a > b)))
  | "<" => some (.bool (decide (a < b)))
  | ">=" => some (.bool (decide (a ≥ b)))
  | "<=" => some (.bool (decide (a ≤ b)))
  | "==" => some (.bool (decide (a = b)))
  | "!=" => some (.bool (decide (a ≠ b)))
  | "+" => some (.nat (a + b))
  | "-" => if b ≤ a then some (.nat (a - b)) else none     -- an underflow is profile dependent: outside the subset
  | _ => none

/-- an owned value passed by value to `push` is moved: a parameter is marked, a local variable is emptied -/
def moveArg (argParam : Option Nat) (argVar : Option String) (mc : Mach) : Mach :=
  let mc := match argParam with | some k => { mc with movedPs := k :: mc.movedPs } | none => mc
  match argVar with | some x => { mc with locals := setLocal x .moved mc.locals } | none => mc

/-- a method of the vector itself (`self.m(args)`) -/
def callSelf (env : Env) (m : String) (args : List V) (argParam : Option Nat) (argVar : Option String) (mc : Mach) : Res V :=
  let M := env.M
  if m = "len" then (match args with | [] => .ok (.nat (M.len mc.self)) mc | _ => .stuck "len")
  else if m = "is_empty" then (match args with | [] => .ok (.bool (M.len mc.self == 0)) mc | _ => .stuck "is_empty")
  else if m = "pop" then (match args with | [] => afterSelf mc (M.pop mc.self) (fun o => .opt o.ret) | _ => .stuck "pop")
  else if m = "push" then
    (match args with | [.elem e] => afterSelf (moveArg argParam argVar mc) (M.push mc.self e) (fun _ => .unit) | _ => .stuck "push")
  else if m = "truncate" then
    (match args with | [.nat k] => afterSelf mc (M.truncate mc.self k) (fun _ => .unit) | _ => .stuck "truncate")
  else if m = "reserve" then (match args with | [.nat _] => .ok .unit mc | _ => .stuck "reserve")
  else if m = "as_mut_slice" then (match args with | [] => .ok .view mc | _ => .stuck "as_mut_slice")
  else .stuck ("self." ++ m)

/-- a method of a local value -/
def callOther (env : Env) (recvVar : Option String) (recv : V) (m : String) (args : List V)
    (argParam : Option Nat) (argVar : Option String) (mc : Mach) : Res V :=
  let M := env.M
  match recv with
  | .view =>
    if m = "get" ∨ m = "get_mut" then
      (match args with | [.nat i] => .ok (.oref (if i < M.len mc.self then some i else none)) mc | _ => .stuck "get")
    else if m = "swap" then
      (match args with | [.nat a, .nat b] => afterSelf mc (M.swap mc.self a b) (fun _ => .unit) | _ => .stuck "swap")
    else .stuck ("view." ++ m)
  | .oref o =>
    if m = "unwrap" then (match o with | some i => .ok (.eref i) mc | none => .panic mc) else .stuck ("option." ++ m)
  | .cont c =>
    if m = "push" then
      (match args, recvVar with
       | [.elem e], some x =>
         let o := M.push c e
         let mc := moveArg argParam argVar mc
         let mc' := { mc with locals := setLocal x (.cont o.st) mc.locals, ev := mc.ev ++ o.ev }
         if o.panicked then .panic mc' else .ok .unit mc'
       | _, _ => .stuck "push on a local vector")
    else .stuck ("vector." ++ m)
  | .src c =>
    if m = "len" then .ok (.nat (M.len c)) mc
    else if m = "iter" then .ok (.srcIter c) mc
    else .stuck ("slice." ++ m)
  | .sref c i =>
    if m = "to_owned" then
      let e := Model.rowCols c i
      .ok (.elem e) { mc with ev := mc.ev ++ { clones := e.flat } }
    else .stuck ("ref." ++ m)
  | .elem e => if m = "as_ref" then .ok (.vref e) mc else .stuck ("value." ++ m)
  | .vref e => if m = "to_owned" then .ok (.elem e) { mc with ev := mc.ev ++ { clones := e.flat } } else .stuck ("ref." ++ m)
  | _ => .stuck ("." ++ m)

/-- the user callback `f(slice.get(i).unwrap())`: the element is recorded as shown, a `retain_mut` callback may write
    to it, the callback may panic, else it answers `keep` — all indexed by the number of calls so far -/
def callClosure (env : Env) (arg : V) (mc : Mach) : Res V :=
  match arg with
  | .eref i =>
    let k := mc.calls
    let vis' := mc.vis ++ [Model.rowAt mc.self i]
    let (c, ev, made) := match env.touch k i with
      | some (l, id) => let w := Model.writeLeaf mc.self l i id; (w.1, mc.ev ++ w.2.1, mc.made ++ w.2.2)
      | none => (mc.self, mc.ev, mc.made)
    let mc' := { mc with self := c, ev := ev, made := made, vis := vis', calls := k + 1 }
    if env.boom = some k then .panic mc' else .ok (.bool (env.keep k)) mc'
  | _ => .stuck "closure argument"

mutual
def eval (env : Env) : Ex → Mach → Res V
  | .self_, _ => .stuck "self as a value"
  | .num n, m => .ok (.nat n) m
  | .var x, m => match lookup x m.locals with | some v => .ok v m | none => .stuck ("unbound " ++ x)
  | .param k, m => match env.ps[k]? with | some v => .ok v m | none => .stuck "parameter"
  | .bin op a b, m =>
    (eval env a m).bind fun va m => (eval env b m).bind fun vb m =>
      match va, vb with
      | .nat x, .nat y => (match arith op x y with | some v => .ok v m | none => .stuck ("arith " ++ op))
      | _, _ => .stuck ("operands of " ++ op)
  | .not e, m => (eval env e m).bind fun v m => match v with | .bool b => .ok (.bool (!b)) m | _ => .stuck "!"
  | .range a b, m =>
    (eval env a m).bind fun va m => (eval env b m).bind fun vb m =>
      match va, vb with | .nat x, .nat y => .ok (.range x y) m | _, _ => .stuck "range"
  | .mcall recv mth args, m =>
    match recv with
    | .self_ => (evalList env args m).bind fun vs m =>
        callSelf env mth vs (args.head?.bind asParam) (args.head?.bind asVar) m
    | r => (eval env r m).bind fun rv m => (evalList env args m).bind fun vs m =>
        callOther env (asVar r) rv mth vs (args.head?.bind asParam) (args.head?.bind asVar) m
  | .fcall p args, m =>
    (evalList env args m).bind fun vs m =>
      match p, vs with
      | "::std::mem::drop", [v] =>
        let m := match args.head?.bind asParam with | some k => { m with movedPs := k :: m.movedPs } | none => m
        let m := match args.head?.bind asVar with | some x => { m with locals := setLocal x .moved m.locals } | none => m
        .ok .unit { m with ev := m.ev ++ dropV env.dr v }
      | "PVec::new", [] => .ok (.cont env.M.empty) m
      | _, _ => .stuck ("call of " ++ p)
  | .app _ args, m =>
    (evalList env args m).bind fun vs m => match vs with | [v] => callClosure env v m | _ => .stuck "closure arity"
  | .proj _ _, _ => .stuck "projection"
  | .fld _ _, _ => .stuck "field"
  | .lam _ _, _ => .stuck "closure literal"
  | .other s, _ => .stuck s
def evalList (env : Env) : List Ex → Mach → Res (List V)
  | [], m => .ok [] m
  | e :: es, m => (eval env e m).bind fun v m => (evalList env es m).bind fun vs m => .ok (v :: vs) m
end

/-- `while`-style iteration with fuel -/
def whileLoop (cond : Mach → Res Bool) (body : Mach → Res Unit) : Nat → Mach → Res Unit
  | 0, _ => .stuck "out of fuel"
  | f + 1, m => (cond m).bind fun b m => if b then (body m).bind fun _ m => whileLoop cond body f m else .ok () m

def forRange (body : Nat → Mach → Res Unit) : Nat → Nat → Mach → Res Unit
  | _, 0, m => .ok () m
  | i, n + 1, m => (body i m).bind fun _ m => forRange body (i + 1) n m

def forList {α : Type} (body : α → Mach → Res Unit) : List α → Mach → Res Unit
  | [], m => .ok () m
  | a :: as, m => (body a m).bind fun _ m => forList body as m

mutual
def exec (env : Env) : St → Mach → Res Unit
  | .let_ x e, m => (eval env e m).bind fun v m => .ok () { m with locals := (x, v) :: m.locals }
  | .expr e, m => (eval env e m).bind fun v m => .ok () { m with ev := m.ev ++ dropV env.dr v }
  | .opAssign op x e, m =>
    (eval env e m).bind fun v m =>
      match lookup x m.locals, v with
      | some (.nat a), .nat b =>
        (match op with
         | "+=" => .ok () { m with locals := setLocal x (.nat (a + b)) m.locals }
         | _ => .stuck ("assignment " ++ op))
      | _, _ => .stuck "assignment operands"
  | .ite c t e, m =>
    (eval env c m).bind fun v m => match v with
      | .bool true => execList env t m
      | .bool false => execList env e m
      | _ => .stuck "condition"
  | .while_ c body, m =>
    whileLoop (fun m => (eval env c m).bind fun v m => match v with | .bool b => .ok b m | _ => .stuck "condition")
      (fun m => execList env body m) env.fuel m
  | .whileLetSome x e body, m =>
    -- `while let Some(x) = e { body }`: the bound value is destroyed at the end of an iteration unless it was moved
    whileLoop (fun m => (eval env e m).bind fun v m => match v with
        | .opt (some el) => .ok true { m with locals := (x, .elem el) :: m.locals }
        | .opt none => .ok false m
        | _ => .stuck "while let")
      (fun m => (execList env body m).bind fun _ m =>
        let v := (lookup x m.locals).getD .moved
        .ok () { m with locals := m.locals.drop 1, ev := m.ev ++ dropV env.dr v }) env.fuel m
  | .forIn x it body, m =>
    (eval env it m).bind fun v m => match v with
      | .range a b => forRange (fun i m => (execList env body { m with locals := (x, .nat i) :: m.locals }).bind fun _ m =>
          .ok () { m with locals := m.locals.drop 1 }) a (b - a) m
      | .elemsBoom es k =>
        (forList (fun e m => (execList env body { m with locals := (x, .elem e) :: m.locals }).bind fun _ m =>
          let v := (lookup x m.locals).getD .moved
          .ok () { m with locals := m.locals.drop 1, ev := m.ev ++ dropV env.dr v }) (es.take k) m).bind fun _ m =>
          if k < es.length then .panic { m with ev := m.ev ++ dropCols env.dr (es.drop k) } else .ok () m
      | .elems es => forList (fun e m => (execList env body { m with locals := (x, .elem e) :: m.locals }).bind fun _ m =>
          let v := (lookup x m.locals).getD .moved
          .ok () { m with locals := m.locals.drop 1, ev := m.ev ++ dropV env.dr v }) es m
      | .srcIter c => forRange (fun i m => (execList env body { m with locals := (x, .sref c i) :: m.locals }).bind fun _ m =>
          .ok () { m with locals := m.locals.drop 1 }) 0 (env.M.len c) m
      | _ => .stuck "for over"
  | .block ss, m =>
    let n := m.locals.length
    (execList env ss m).bind fun _ m => .ok () { m with locals := m.locals.drop (m.locals.length - n) }
  | .other s, _ => .stuck s
def execList (env : Env) : List St → Mach → Res Unit
  | [], m => .ok () m
  | s :: ss, m => (exec env s m).bind fun _ m => execList env ss m
end

/-- the by-value struct parameters that were not moved out: destroyed when the function returns or unwinds -/
def leftovers (env : Env) (m : Mach) : Ev :=
  go env.dr m.movedPs env.ps 0
where go (dr : Bool) (moved : List Nat) : List V → Nat → Ev
  | [], _ => {}
  | v :: vs, k => (if moved.contains k then {} else (match v with | .elem e => dropWhole dr e | _ => {})) ++ go dr moved vs (k + 1)

/-- run a function body: `Model.Out` of the call (`ret`: the container a constructor-style function returns) -/
def run (env : Env) (b : Body) (self : Cols) : Option Model.Out :=
  match execList env b.stmts { self := self } with
  | .stuck _ => none
  | .panic m => some { st := m.self, panicked := true, ev := m.ev ++ leftovers env m, vis := m.vis, made := m.made }
  | .ok _ m =>
    match b.tail with
    | none => some { st := m.self, ev := m.ev ++ leftovers env m, vis := m.vis, made := m.made }
    | some t =>
      match eval env t m with
      | .ok (.cont c) m => some { st := m.self, ret := some c, ev := m.ev ++ leftovers env m, vis := m.vis, made := m.made }
      | .ok _ m => some { st := m.self, ev := m.ev ++ leftovers env m, vis := m.vis, made := m.made }
      | .panic m => some { st := m.self, panicked := true, ev := m.ev ++ leftovers env m, vis := m.vis, made := m.made }
      | .stuck _ => none

end Soa.Lp
