import Soa.Model.SkelSem
import Soa.Model.Views
/-!
# Meaning of the extracted skeletons: views, element references and pointer bundles

A generated view / reference / pointer value is one std value per field: a tree (`VT`) with
the struct's shape whose leaves are `LV`s — the length of a field `Vec`, the window of a
field slice in its parent array, the position of a field reference, a field raw pointer.
A generated method applies a per-field expression to every leaf (`viewLeaf`: Rust method
name and argument forms ↦ what std does to that one value); a nested field receives the
call of the same generated function (`nestOkView`), i.e. the recursion of `VT.mapR`.

`mapR_uniform` is the reason the hand-written model may speak of *one* window for a whole
view: on a tree whose leaves all carry the same value, the method yields a tree whose
leaves all carry the same result, for every shape.
-/
namespace Soa.Sk
open Soa View

inductive VT (α : Type) where
  | leaf (a : α)
  | nest (fs : List (VT α))
  deriving Repr

/-- outcome of evaluating a per-field expression / a generated function -/
inductive R (α : Type) where
  | ok (a : α)
  | panic
  | stuck        -- outside what the semantics covers (never on the unchanged tree: the `sk_*` theorems)
  deriving Repr

def R.bind {α β : Type} (r : R α) (f : α → R β) : R β :=
  match r with | .ok a => f a | .panic => .panic | .stuck => .stuck

def R.map {α β : Type} (f : α → β) (r : R α) : R β := r.bind (fun a => .ok (f a))

/-- apply `g` to every leaf in declaration order; the first panic wins -/
def VT.mapR {α β : Type} (g : α → R β) : VT α → R (VT β)
  | .leaf a => (g a).map .leaf
  | .nest fs => (mapRL g fs).map .nest
where mapRL {α β : Type} (g : α → R β) : List (VT α) → R (List (VT β))
  | [] => .ok []
  | f :: fs => (f.mapR g).bind (fun f' => (mapRL g fs).map (f' :: ·))

/-- the tree of a given shape whose leaves all carry `a` -/
def VT.uniform {α : Type} (a : α) : Shape → VT α
  | .leaf _ => .leaf a
  | .nest fs => .nest (uniformL a fs)
where uniformL {α : Type} (a : α) : List Shape → List (VT α)
  | [] => []
  | f :: fs => VT.uniform a f :: uniformL a fs

/-- leftmost leaf (the first field: what `len()` / `is_empty()` read) -/
def VT.first {α : Type} : VT α → Option α
  | .leaf a => some a
  | .nest fs => firstL fs
where firstL {α : Type} : List (VT α) → Option α
  | [] => none
  | f :: _ => f.first

def VT.any {α : Type} (p : α → Bool) : VT α → Bool
  | .leaf a => p a
  | .nest fs => anyL p fs
where anyL {α : Type} (p : α → Bool) : List (VT α) → Bool
  | [] => false
  | f :: fs => f.any p || anyL p fs

/-- **uniformity**: the same per-field operation on equal leaves gives equal leaves, for every well-formed shape -/
theorem mapR_uniform {α β : Type} (g : α → R β) (a : α) : ∀ sh : Shape, sh.wf →
    (VT.uniform a sh).mapR g = (g a).map (fun b => VT.uniform b sh)
  | .leaf _, _ => by simp only [VT.uniform, VT.mapR]
  | .nest fs, h => by
    rw [Shape.wf_nest] at h
    simp only [VT.uniform, VT.mapR]
    rw [go fs h.1 h.2]
    cases g a <;> rfl
where go : ∀ fs : List Shape, fs ≠ [] → (∀ f ∈ fs, f.wf) →
    VT.mapR.mapRL g (VT.uniform.uniformL a fs) = (g a).map (fun b => VT.uniform.uniformL b fs)
  | [], h, _ => absurd rfl h
  | [f], _, h => by
    simp only [VT.uniform.uniformL, VT.mapR.mapRL]
    rw [mapR_uniform g a f (h f (by simp))]
    cases g a <;> rfl
  | f :: f' :: fs, _, h => by
    have ih := go (f' :: fs) (by simp) (fun x hx => h x (by simp [hx]))
    rw [VT.uniform.uniformL, VT.mapR.mapRL, mapR_uniform g a f (h f (by simp)), ih]
    cases g a <;> rfl

theorem first_uniform {α : Type} (a : α) : ∀ sh : Shape, sh.wf → (VT.uniform a sh).first = some a
  | .leaf _, _ => rfl
  | .nest fs, h => by
    rw [Shape.wf_nest] at h
    cases fs with
    | nil => exact absurd rfl h.1
    | cons f fs =>
      simp only [VT.uniform, VT.uniform.uniformL, VT.first, VT.first.firstL]
      exact first_uniform a f (h.2 f (by simp))

theorem any_uniform {α : Type} (p : α → Bool) (a : α) : ∀ sh : Shape, sh.wf → (VT.uniform a sh).any p = p a
  | .leaf _, _ => rfl
  | .nest fs, h => by
    rw [Shape.wf_nest] at h
    simp only [VT.uniform, VT.any]
    exact go fs h.1 h.2
where go : ∀ fs : List Shape, fs ≠ [] → (∀ f ∈ fs, f.wf) → VT.any.anyL p (VT.uniform.uniformL a fs) = p a
  | [], h, _ => absurd rfl h
  | [f], _, h => by
    simp only [VT.uniform.uniformL, VT.any.anyL, Bool.or_false]
    exact any_uniform p a f (h f (by simp))
  | f :: f' :: fs, _, h => by
    have ih := go (f' :: fs) (by simp) (fun x hx => h x (by simp [hx]))
    rw [VT.uniform.uniformL, VT.any.anyL, any_uniform p a f (h f (by simp)), ih, Bool.or_self]

/-- one std value per field -/
inductive LV where
  | len (n : Nat)                 -- a field `Vec<F>`: its length
  | win (w : Win)                 -- a field slice: its window in the parent array
  | pos (p : Int)                 -- a field reference: its position in the parent array
  | ptr (p : Int) (null : Bool)   -- a field raw pointer
  | pair (a b : LV)
  deriving Repr, DecidableEq

/-- actual arguments of a view / pointer method, by parameter position -/
inductive VArg where
  | nat (n : Nat)
  | int (k : Int)
  | range (a b : Nat)
  | tree (t : VT LV)     -- a bundle passed by value (`data`)

def vNat (ps : List VArg) (k : Nat) : Option Nat := match ps[k]? with | some (.nat n) => some n | _ => none
def vInt (ps : List VArg) (k : Nat) : Option Int :=
  match ps[k]? with | some (.int n) => some n | some (.nat n) => some n | _ => none

def isSliceFromRawParts (p : List String) : Bool :=
  p == ["::", "std", "::", "slice", "::", "from_raw_parts"] || p == ["::", "std", "::", "slice", "::", "from_raw_parts_mut"]

/-- what std does to the value of one field -/
def viewLeaf (ps : List VArg) (fe : FE) (v : LV) : R LV :=
  match fe, v with
  -- a field `Vec`
  | .call "as_slice" [] .none, .len n => .ok (.win ⟨0, n⟩)
  | .call "as_mut_slice" [] .none, .len n => .ok (.win ⟨0, n⟩)
  | .index _ (.paramClone k), .len n =>
    (match ps[k]? with
     | some (.range a b) => if a ≤ b ∧ b ≤ n then .ok (.win ⟨a, b - a⟩) else .panic
     | _ => .stuck)
  | .call "as_ptr" [] .none, .len _ => .ok (.ptr 0 false)
  | .call "as_mut_ptr" [] .none, .len _ => .ok (.ptr 0 false)
  -- a field slice
  | .borrow _, .win w => .ok (.win w)
  | .copy, .win w => .ok (.win w)
  | .call "first" [] .unwrap, .win w => if w.l = 0 then .panic else .ok (.pos w.s)
  | .call "first_mut" [] .unwrap, .win w => if w.l = 0 then .panic else .ok (.pos w.s)
  | .call "last" [] .unwrap, .win w => if w.l = 0 then .panic else .ok (.pos (w.s + w.l - 1 : Nat))
  | .call "last_mut" [] .unwrap, .win w => if w.l = 0 then .panic else .ok (.pos (w.s + w.l - 1 : Nat))
  | .call "split_first" [] .unwrap, .win w => if w.l = 0 then .panic else .ok (.pair (.pos w.s) (.win ⟨w.s + 1, w.l - 1⟩))
  | .call "split_first_mut" [] .unwrap, .win w => if w.l = 0 then .panic else .ok (.pair (.pos w.s) (.win ⟨w.s + 1, w.l - 1⟩))
  | .call "split_last" [] .unwrap, .win w => if w.l = 0 then .panic else .ok (.pair (.pos (w.s + w.l - 1 : Nat)) (.win ⟨w.s, w.l - 1⟩))
  | .call "split_last_mut" [] .unwrap, .win w => if w.l = 0 then .panic else .ok (.pair (.pos (w.s + w.l - 1 : Nat)) (.win ⟨w.s, w.l - 1⟩))
  | .call "split_at" [.param k] .none, .win w =>
    (match vNat ps k with
     | some m => if m ≤ w.l then .ok (.pair (.win ⟨w.s, m⟩) (.win ⟨w.s + m, w.l - m⟩)) else .panic
     | none => .stuck)
  | .call "split_at_mut" [.param k] .none, .win w =>
    (match vNat ps k with
     | some m => if m ≤ w.l then .ok (.pair (.win ⟨w.s, m⟩) (.win ⟨w.s + m, w.l - m⟩)) else .panic
     | none => .stuck)
  | .call "as_ptr" [] .none, .win w => .ok (.ptr w.s false)
  | .call "as_mut_ptr" [] .none, .win w => .ok (.ptr w.s false)
  -- a field reference
  | .cast _, .pos p => .ok (.ptr p false)
  | .borrow _, .pos p => .ok (.pos p)
  -- a field raw pointer
  | .cast _, .ptr p n => .ok (.ptr p n)
  | .call "add" [.param k] .none, .ptr p n => (match vNat ps k with | some c => .ok (.ptr (p + c) n) | none => .stuck)
  | .call "wrapping_add" [.param k] .none, .ptr p n => (match vNat ps k with | some c => .ok (.ptr (p + c) n) | none => .stuck)
  | .call "sub" [.param k] .none, .ptr p n => (match vNat ps k with | some c => .ok (.ptr (p - c) n) | none => .stuck)
  | .call "wrapping_sub" [.param k] .none, .ptr p n => (match vNat ps k with | some c => .ok (.ptr (p - c) n) | none => .stuck)
  | .call "offset" [.param k] .none, .ptr p n => (match vInt ps k with | some c => .ok (.ptr (p + c) n) | none => .stuck)
  | .call "wrapping_offset" [.param k] .none, .ptr p n => (match vInt ps k with | some c => .ok (.ptr (p + c) n) | none => .stuck)
  | .call "as_ref" [] .expectNonNull, .ptr p n => if n then .panic else .ok (.pos p)
  | .call "as_mut" [] .expectNonNull, .ptr p n => if n then .panic else .ok (.pos p)
  | .path q [.field _, .param k], .ptr p n =>
    if isSliceFromRawParts q then
      (match vNat ps k with
       | some len => if n = false ∧ 0 ≤ p then .ok (.win ⟨p.toNat, len⟩) else .stuck
       | none => .stuck)
    else .stuck
  | _, _ => .stuck

/-- the nested field gets the call of the same generated function (with the same arguments) -/
def nestOkView (own : String) (leaf nest : FE) : Bool :=
  match leaf, nest with
  | .call m a p, .call m' a' p' => m == own && m' == own && a == a' && p == p'
  | .index _ a, .call m' [a'] .none => m' == own && a == a'
  | .borrow _, .call m' [] .none => m' == own
  | .copy, .call m' [] .none => m' == own
  | .cast _, .call m' [] .none => m' == own
  | .path q args, .path [t, "::", m'] args' =>
    isSliceFromRawParts q && m' == own && args == args' && (t == "§TSlice" || t == "§TSliceMut")
  | _, _ => false

/-- which value the repetition ranges over: `self`, or the bundle parameter of `from_raw_parts` -/
def subject (self : VT LV) (ps : List VArg) : FE → Option (VT LV)
  | .path _ (.field d :: _) => match ps[d]? with | some (.tree t) => some t | _ => none
  | _ => some self

def isNullLV : LV → Bool | .ptr _ n => n | _ => false
def isEmptyLV : LV → Option Bool | .win w => some (w.l == 0) | .len n => some (n == 0) | _ => none

def unzipVT : VT LV → Option (VT LV × VT LV)
  | .leaf (.pair a b) => some (.leaf a, .leaf b)
  | .leaf _ => none
  | .nest fs => (unzipL fs).map (fun p => (.nest p.1, .nest p.2))
where unzipL : List (VT LV) → Option (List (VT LV) × List (VT LV))
  | [] => some ([], [])
  | f :: fs => match unzipVT f, unzipL fs with
    | some (a, b), some (as, bs) => some (a :: as, b :: bs)
    | _, _ => none

/-- result of a view method: `None`, one value, or a pair of values -/
inductive VOut where
  | none_
  | one (t : VT LV)
  | two (a b : VT LV)
  deriving Repr

def itemExpr : Item → Option FE
  | .init e | .letP _ e | .letF e | .letPair _ _ e => some e
  | _ => none

/-- outcome of a generated view / reference / pointer method, from its skeleton -/
def runViewSk (own : String) (sk : Sk) (self : VT LV) (ps : List VArg) : R VOut :=
  let core (pre : Pre) (leaf nest : Item) (k : VT LV → R VOut) : R VOut :=
    match itemExpr leaf, itemExpr nest with
    | some le, some ne =>
      if !nestOkView own le ne then .stuck else
      match subject self ps le with
      | none => .stuck
      | some t =>
        -- `if self.is_null() { None }` / `if self.is_empty() { None }`
        if pre.nullNone ∧ self.any isNullLV then .ok .none_ else
        match (if pre.emptyNone then (self.first.bind isEmptyLV) else some false) with
        | none => .stuck
        | some true => .ok .none_
        | some false => (t.mapR (viewLeaf ps le)).bind k
    | _, _ => .stuck
  match sk with
  | .lit pre _ leaf nest ws =>
    if pre.guard.isSome ∨ pre.md.isSome ∨ pre.emptyNone ∨ ws ≠ pre.nullNone then .stuck
    else core pre leaf nest (fun t => .ok (.one t))
  | .lets pre leaf nest _ _ ws fg =>
    if pre.guard.isSome ∨ pre.md.isSome ∨ pre.nullNone ∨ fg.isSome ∨ ws ≠ pre.emptyNone then .stuck
    else core pre leaf nest (fun t => .ok (.one t))
  | .pairs pre leaf nest _ _ _ _ ws =>
    if pre.guard.isSome ∨ pre.md.isSome ∨ pre.nullNone ∨ ws ≠ pre.emptyNone then .stuck
    else core pre leaf nest (fun t => match unzipVT t with | some (a, b) => .ok (.two a b) | none => .stuck)
  | _ => .stuck

def runView (f : Fn) (self : VT LV) (ps : List VArg) : R VOut := runViewSk f.name (skOf f) self ps

theorem unzip_uniform (a b : LV) : ∀ sh : Shape, unzipVT (VT.uniform (.pair a b) sh) = some (VT.uniform a sh, VT.uniform b sh)
  | .leaf _ => rfl
  | .nest fs => by
    simp only [VT.uniform, unzipVT]
    rw [go fs]; rfl
where go : ∀ fs : List Shape, unzipVT.unzipL (VT.uniform.uniformL (.pair a b) fs) =
    some (VT.uniform.uniformL a fs, VT.uniform.uniformL b fs)
  | [] => rfl
  | f :: fs => by
    simp only [VT.uniform.uniformL, unzipVT.unzipL]
    rw [unzip_uniform a b f, go fs]

/-! ## pointer bundles: `is_null`, reads and writes through a bundle that designates one position -/

/-- `is_null()`: `false || #( self.§.is_null() )||*` — some component pointer is null -/
def runIsNull (f : Fn) (self : VT LV) : Option Bool :=
  match skOf f with
  | .orFold (.stmt (.call "is_null" [] .none)) (.stmt (.call "is_null" [] .none)) =>
    if f.name = "is_null" then some (self.any isNullLV) else none
  | _ => none

def isPtrRead (m : String) : Bool := m = "read" || m = "read_volatile" || m = "read_unaligned"
def isPtrWrite (m : String) : Bool := m = "write" || m = "write_volatile" || m = "write_unaligned"

/-- `ptr.read*()` through a bundle designating position `p` of every field of `c`: a bitwise copy of that row -/
def runPtrRead (f : Fn) (c : Cols) (p : Nat) : Option Model.Out :=
  match skOf f with
  | .lit pre .elem (.init (.call m [] .none)) (.init (.call m' [] .none)) false =>
    if pre == {} ∧ m = f.name ∧ m' = f.name ∧ isPtrRead m then some { st := c, ret := some (Model.rowCols c p) } else none
  | _ => none

/-- `ptr.write*(val)` through a bundle designating position `p` of every field of `c`: per field
    `self.§.write(ptr::read(&val.§))`, then `forget(val)`.  The overwritten bits are handed back (`ret`): they
    are not destroyed by the write. -/
def runPtrWrite (dr : Bool) (f : Fn) (c : Cols) (p : Nat) (e : Cols) : Option Model.Out :=
  match skOf f with
  | .stmts pre (.stmt (.call m [.moveIn 0] .none)) (.stmt (.call m' [.moveIn 0] .none)) fg =>
    if m = f.name ∧ m' = f.name ∧ isPtrWrite m ∧ pre.guard = none ∧ pre.emptyNone = false ∧ pre.nullNone = false then
      let r := c.apply2 (replaceOp p) e
      if r.panicked then none   -- out of bounds: undefined behaviour, outside the property
      else some { st := r.st, ret := some r.out, ev := moveInEv dr (pre.md == some 0) (fg == some 0) false e }
    else none
  | _ => none

end Soa.Sk
