import Soa.View
/-!
# Shapes, elements, events — shared vocabulary of the model and the specification
-/
namespace Soa

/-- struct shape: a field is a leaf array (with its payload kind: `z` zero-sized, `b` one
    byte, `s` 2..1024 bytes, `l` > 1024 bytes, `h` heap-owning) or a nested SoA -/
inductive Shape where
  | leaf (kind : Char)
  | nest (fs : List Shape)
  deriving Repr, Inhabited

/-- a shape is well formed when every struct has at least one field (`Input::new` asserts it) -/
def Shape.wf : Shape → Prop
  | .leaf _ => True
  | .nest fs => fs ≠ [] ∧ ∀ f ∈ fs, f.wf

@[simp] theorem Shape.wf_leaf : (Shape.leaf k).wf := by simp [Shape.wf]
@[simp] theorem Shape.wf_nest : (Shape.nest fs).wf ↔ fs ≠ [] ∧ ∀ f ∈ fs, f.wf := by simp [Shape.wf]

/-- payload kinds of the leaves, in declaration (DFS) order -/
def Shape.kinds : Shape → List Char
  | .leaf k => [k]
  | .nest fs => kindsL fs
where kindsL : List Shape → List Char
  | [] => []
  | f :: fs => f.kinds ++ kindsL fs

/-- the container of that shape in which every leaf array is `xs` -/
def Shape.fill (xs : List Nat) : Shape → Cols
  | .leaf _ => .leaf xs
  | .nest fs => .nest (fillL xs fs)
where fillL (xs : List Nat) : List Shape → List Cols
  | [] => []
  | f :: fs => f.fill xs :: fillL xs fs

/-- the empty container (`Vec::new()` in every field) -/
def Shape.empty (sh : Shape) : Cols := sh.fill []

/-- the element built from `tag`: leaf number `j` (DFS) carries the id `tag * 8 + j`;
    as a tree of one-element columns.  Returns the tree and the next free leaf number. -/
def Shape.elemAt (tag : Nat) : Shape → Nat → Cols × Nat
  | .leaf _, j => (.leaf [tag * 8 + j], j + 1)
  | .nest fs, j => let r := elemL tag fs j; (.nest r.1, r.2)
where elemL (tag : Nat) : List Shape → Nat → List Cols × Nat
  | [], j => ([], j)
  | f :: fs, j =>
    let r := f.elemAt tag j
    let r' := elemL tag fs r.2
    (r.1 :: r'.1, r'.2)

def Shape.elem (sh : Shape) (tag : Nat) : Cols := (sh.elemAt tag 0).1

/-- leaf columns in DFS order -/
def Cols.leaves : Cols → List (List Nat)
  | .leaf xs => [xs]
  | .nest fs => leavesL fs
where leavesL : List Cols → List (List Nat)
  | [] => []
  | c :: cs => c.leaves ++ leavesL cs

/-- all ids stored in a tree, DFS over leaves -/
def Cols.flat (c : Cols) : List Nat := c.leaves.flatten

/-- length of the first leaf array: what the generated `len()` returns -/
def Cols.firstLen (c : Cols) : Nat := (c.leaves.headD []).length

/-- the first leaf column: ids by which struct-destructor events are named -/
def Cols.firstLeaf (c : Cols) : List Nat := c.leaves.headD []

/-- leaf ids of one struct value, DFS -/
def Elem.ids : Elem → List Nat
  | .leaf v => [v]
  | .nest fs => idsL fs
where idsL : List Elem → List Nat
  | [] => []
  | e :: es => e.ids ++ idsL es

/-- events of one call, as multisets (lists up to permutation) -/
structure Ev where
  drops : List Nat := []    -- field values destroyed
  dropT : List Nat := []    -- struct destructor runs, named by the element's first leaf id
  clones : List Nat := []   -- `Clone::clone` calls, named by the cloned id
  deriving Repr, Inhabited

def Ev.append (a b : Ev) : Ev := ⟨a.drops ++ b.drops, a.dropT ++ b.dropT, a.clones ++ b.clones⟩
instance : Append Ev := ⟨Ev.append⟩

/-- events of destroying whole struct values held as a tree of columns (`k` rows):
    every field value dies, and the struct destructor runs once per row if it has one -/
def dropWhole (drops : Bool) (e : Cols) : Ev :=
  { drops := e.flat, dropT := if drops then e.firstLeaf else [] }

/-- the first id of a row names its struct-destructor run -/
def Elem.firstId (e : Elem) : Nat := e.ids.headD 0

/-- the same for rows -/
def dropRows (drops : Bool) (rs : List Elem) : Ev :=
  { drops := (rs.map Elem.ids).flatten, dropT := if drops then rs.map Elem.firstId else [] }

/-- events of destroying field values one array at a time (no struct destructor involved) -/
def dropFields (e : Cols) : Ev := { drops := e.flat }

end Soa
