/-!
# Statement trees of the generated functions without per-field content (syntax)

What `/verif/extract` emits for `truncate`, `clear`, `retain`, `retain_mut`, `Drop`, `resize`,
`extend_from_slice`, `from_iter`, `extend`, the sorts and the delegations: the syn tree of the
function body restricted to the constructs these functions use.  `param k` is the function's
`k`-th parameter, `app k args` a call of the closure parameter `k`.  Anything else is
`other "<tokens>"` and has no meaning.
-/
namespace Soa.Lp

inductive Ex where
  | self_
  | var (x : String)
  | param (k : Nat)
  | num (n : Nat)
  | mcall (recv : Ex) (m : String) (args : List Ex)
  | fcall (path : String) (args : List Ex)
  | app (k : Nat) (args : List Ex)
  | bin (op : String) (a b : Ex)
  | not (e : Ex)
  | range (a b : Ex)
  | proj (e : Ex) (i : Nat)
  | fld (e : Ex) (f : String)
  | lam (params : List String) (body : Ex)
  | other (s : String)
  deriving Repr, Inhabited

inductive St where
  | let_ (x : String) (e : Ex)
  | expr (e : Ex)
  | opAssign (op : String) (x : String) (e : Ex)
  | ite (c : Ex) (t e : List St)
  | while_ (c : Ex) (body : List St)
  | whileLetSome (x : String) (e : Ex) (body : List St)
  | forIn (x : String) (it : Ex) (body : List St)
  | block (ss : List St)
  | other (s : String)
  deriving Repr, Inhabited

structure Body where
  key : String
  scope : String
  name : String
  stmts : List St
  tail : Option Ex
  deriving Repr, Inhabited

end Soa.Lp
