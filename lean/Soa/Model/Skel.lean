import Soa.Model.SkelSyntax
/-!
# Reading the extracted templates: tokens → per-field expressions, items, function skeletons

A small parser for the Rust subset the generators emit, written as total structural
functions over token lists so that the kernel can evaluate it on the extracted templates
(`Soa/Extracted/Skel.lean`).  Nothing here is specific to one generated function: a
per-field expression is read as "method `m` of the field with these arguments", an item as
"statement / `let` of a private binder / struct-literal field", a body as "guard, wrapper,
repetition, result".  What the std calls *mean* is the business of `Soa/Model/SkelSem.lean`.
-/
namespace Soa.Sk

/-- position of a parameter token `$k` (the translator numbers parameters by position) -/
def paramIdx : String → Option Nat
  | "$0" => some 0 | "$1" => some 1 | "$2" => some 2 | "$3" => some 3 | "$4" => some 4 | "$5" => some 5
  | _ => none

/-- family of a generator-private binder token `§p…` -/
def privFam : String → Option String
  | "§p" => some "" | "§p_1" => some "_1" | "§p_2" => some "_2"
  | "§p_slice_1" => some "_slice_1" | "§p_slice_2" => some "_slice_2"
  | _ => none

def isOpen (t : String) : Bool := t = "(" || t = "[" || t = "{"
def isClose (t : String) : Bool := t = ")" || t = "]" || t = "}"

/-- split at the separators of nesting depth 0 -/
def splitTop (sep : String) : List String → Nat → List String → List (List String)
  | [], _, cur => if cur.isEmpty then [] else [cur.reverse]
  | t :: ts, d, cur =>
    if d = 0 ∧ t = sep then cur.reverse :: splitTop sep ts 0 []
    else splitTop sep ts (if isOpen t then d + 1 else if isClose t then d - 1 else d) (t :: cur)

/-- the tokens up to the bracket that closes the already opened one, and what follows it -/
def takeGroup : List String → Nat → List String → Option (List String × List String)
  | [], _, _ => none
  | t :: ts, d, cur =>
    if isClose t then
      if d = 0 then some (cur.reverse, ts) else takeGroup ts (d - 1) (t :: cur)
    else takeGroup ts (if isOpen t then d + 1 else d) (t :: cur)

def stripPrefix : List String → List String → Option (List String)
  | [], ts => some ts
  | _ :: _, [] => none
  | p :: ps, t :: ts => if p = t then stripPrefix ps ts else none

/-- an argument of a per-field call -/
inductive Arg
  | param (k : Nat)        -- `$k`
  | paramClone (k : Nat)   -- `$k.clone()`
  | moveIn (k : Nat)       -- `::std::ptr::read(&$k.§)`: the field of the by-value parameter, moved bitwise
  | fieldMut (k : Nat)     -- `&mut $k.§`
  | field (k : Nat)        -- `$k.§`
  | selfFieldMut           -- `&mut self.§`
  | local_ (x : String)    -- a local variable
  | other (ts : List String)
  deriving DecidableEq, Repr

def parseArg : List String → Arg
  | [x] => match paramIdx x with | some k => .param k | none => .local_ x
  | [x, ".", "clone", "(", ")"] => match paramIdx x with | some k => .paramClone k | none => .other [x, ".", "clone", "(", ")"]
  | ["::", "std", "::", "ptr", "::", "read", "(", "&", x, ".", "§", ")"] =>
    match paramIdx x with | some k => .moveIn k | none => .other ["ptr::read", x]
  | ["&", "mut", "self", ".", "§"] => .selfFieldMut
  | ["&", "mut", x, ".", "§"] => match paramIdx x with | some k => .fieldMut k | none => .other ["&mut", x]
  | [x, ".", "§"] => match paramIdx x with | some k => .field k | none => .other [x, ".§"]
  | ts => .other ts

def parseArgs (ts : List String) : List Arg := (splitTop "," ts 0 []).map parseArg

inductive Post | none | unwrap | expectNonNull | other (ts : List String)
  deriving DecidableEq, Repr

def parsePost : List String → Post
  | [] => .none
  | [".", "unwrap", "(", ")"] => .unwrap
  | [".", "expect", "(", "\"should not be null\"", ")"] => .expectNonNull
  | ts => .other ts

/-- a per-field expression; `§` is the field -/
inductive FE
  | call (m : String) (args : List Arg) (post : Post)   -- `self.§.m(args)` [`.unwrap()`]
  | index (mut_ : Bool) (a : Arg)                        -- `&self.§[a]` / `&mut self.§[a]`
  | borrow (mut_ : Bool)                                 -- `&self.§` / `&mut self.§`
  | copy                                                 -- `self.§`
  | cast (mut_ : Bool)                                   -- `self.§ as *mut _` / `as *const _`
  | memReplaceIdx (i v : Arg)                            -- `::std::mem::replace(&mut self.§[i], v)`
  | memReplaceDeref (v : Arg)                            -- `::std::mem::replace(&mut *self.§, v)`
  | path (p : List String) (args : List Arg)             -- `Vec::with_capacity($0)`, `::std::slice::from_raw_parts($0.§, $1)`
  | localCall (x m : String) (args : List Arg)           -- `permutation.apply_slice_in_place(&mut self.§)`
  | priv (fam : String)                                  -- `§p…`
  | fieldName                                            -- `§` used as a local variable
  | other (ts : List String)
  deriving DecidableEq, Repr

def parseFE : List String → FE
  | ["§"] => .fieldName
  | ["self", ".", "§"] => .copy
  | ["&", "self", ".", "§"] => .borrow false
  | ["&", "mut", "self", ".", "§"] => .borrow true
  | ["self", ".", "§", "as", "*", "mut", "_"] => .cast true
  | ["self", ".", "§", "as", "*", "const", "_"] => .cast false
  | "self" :: "." :: "§" :: "." :: m :: "(" :: rest =>
    match takeGroup rest 0 [] with
    | some (inner, after) => .call m (parseArgs inner) (parsePost after)
    | none => .other ("self.§." :: m :: rest)
  | "&" :: "mut" :: "self" :: "." :: "§" :: "[" :: rest =>
    match takeGroup rest 0 [] with
    | some (inner, []) => .index true (parseArg inner)
    | _ => .other ("&mut self.§[" :: rest)
  | "&" :: "self" :: "." :: "§" :: "[" :: rest =>
    match takeGroup rest 0 [] with
    | some (inner, []) => .index false (parseArg inner)
    | _ => .other ("&self.§[" :: rest)
  | "::" :: "std" :: "::" :: "mem" :: "::" :: "replace" :: "(" :: "&" :: "mut" :: "self" :: "." :: "§" :: "[" :: rest =>
    match takeGroup rest 0 [] with
    | some (i, "," :: rest') =>
      match takeGroup rest' 0 [] with
      | some (v, []) => .memReplaceIdx (parseArg i) (parseArg v)
      | _ => .other ("mem::replace[" :: rest)
    | _ => .other ("mem::replace[" :: rest)
  | "::" :: "std" :: "::" :: "mem" :: "::" :: "replace" :: "(" :: "&" :: "mut" :: "*" :: "self" :: "." :: "§" :: "," :: rest =>
    match takeGroup rest 0 [] with
    | some (v, []) => .memReplaceDeref (parseArg v)
    | _ => .other ("mem::replace*" :: rest)
  | [t] => match privFam t with | some f => .priv f | none => .other [t]
  | ts =>
    -- `x.m(args)` on a local, or a path call `a::b::c(args)`
    match ts with
    | x :: "." :: m :: "(" :: rest =>
      match takeGroup rest 0 [] with
      | some (inner, []) => if x = "self" then .other ts else .localCall x m (parseArgs inner)
      | _ => .other ts
    | _ =>
      let p := ts.takeWhile (· ≠ "(")
      match ts.dropWhile (· ≠ "(") with
      | "(" :: rest =>
        match takeGroup rest 0 [] with
        | some (inner, []) => if p.contains "self" then .other ts else .path p (parseArgs inner)
        | _ => .other ts
      | _ => .other ts

/-- one repetition item -/
inductive Item
  | stmt (e : FE)                               -- `E`
  | letP (fam : String) (e : FE)                -- `let §p… = E`
  | letF (e : FE)                               -- `let § = E`
  | letPair (a b : String) (e : FE)             -- `let (x, y) = E` with x, y ∈ {`§`, `§p…`}
  | readLet (src : Nat) (fam : String) (e : FE) -- `let field = unsafe { ::std::ptr::read(&$src.§) }; let §p… = E`
  | init (e : FE)                               -- `§: E` (struct literal field)
  | minAssign (x : String) (e : FE)             -- `x = ::std::cmp::min(x, E)`
  | dbgAssertEq (e : FE) (x : String)           -- `debug_assert_eq!(E, x)`
  | other (ts : List String)
  deriving DecidableEq, Repr

def binderName (t : String) : Option String :=
  if t = "§" then some "§" else privFam t

def parseItem : List String → Item
  | "§" :: ":" :: rest => .init (parseFE rest)
  | "let" :: "field" :: "=" :: "unsafe" :: "{" :: "::" :: "std" :: "::" :: "ptr" :: "::" :: "read" :: "(" :: "&" :: x :: "." :: "§" :: ")" :: "}" :: ";" :: "let" :: p :: "=" :: rest =>
    match paramIdx x, privFam p with
    | some k, some f => .readLet k f (parseFE rest)
    | _, _ => .other ("let field" :: rest)
  | "let" :: "(" :: a :: "," :: b :: ")" :: "=" :: rest =>
    match binderName a, binderName b with
    | some x, some y => .letPair x y (parseFE rest)
    | _, _ => .other ("let (" :: a :: b :: rest)
  | "let" :: "§" :: "=" :: rest => .letF (parseFE rest)
  | "let" :: p :: "=" :: rest =>
    match privFam p with
    | some f => .letP f (parseFE rest)
    | none => .other ("let" :: p :: rest)
  | "debug_assert_eq" :: "!" :: "(" :: rest =>
    match takeGroup rest 0 [] with
    | some (inner, []) =>
      match splitTop "," inner 0 [] with
      | [e, [x]] => .dbgAssertEq (parseFE e) x
      | _ => .other ("debug_assert_eq!" :: rest)
    | _ => .other ("debug_assert_eq!" :: rest)
  | x :: "=" :: "::" :: "std" :: "::" :: "cmp" :: "::" :: "min" :: "(" :: rest =>
    match takeGroup rest 0 [] with
    | some (inner, []) =>
      match splitTop "," inner 0 [] with
      | [[y], e] => if x = y then .minAssign x (parseFE e) else .other (x :: "=min" :: rest)
      | _ => .other (x :: "=min" :: rest)
    | _ => .other (x :: "=min" :: rest)
  | ts => .stmt (parseFE ts)

/-! ## function prologues and epilogues -/

/-- what precedes the repetition in a statement-style body -/
structure Pre where
  guard : Option (String × Nat) := none   -- `if $k cmp self.len() { panic!(…) }`
  emptyNone : Bool := false               -- `if self.is_empty() { None } else {`
  nullNone : Bool := false                -- `if self.is_null() { None } else {`
  md : Option Nat := none                 -- `let $k = ::std::mem::ManuallyDrop::new($k);`
  unsafeBlk : Bool := false               -- `unsafe {`
  deriving DecidableEq, Repr

def isCmp (t : String) : Bool := t = ">" || t = ">=" || t = "<" || t = "<=" || t = "==" || t = "!="

def preUnsafe (p : Pre) : List String → Option Pre
  | [] => some p
  | ["unsafe", "{"] => some { p with unsafeBlk := true }
  | _ => none

def preMd (p : Pre) : List String → Option Pre
  | "let" :: x :: "=" :: "::" :: "std" :: "::" :: "mem" :: "::" :: "ManuallyDrop" :: "::" :: "new" :: "(" :: y :: ")" :: ";" :: rest =>
    match paramIdx x with
    | some k => if x = y then preUnsafe { p with md := some k } rest else none
    | none => none
  | ts => preUnsafe p ts

def preGuard (p : Pre) : List String → Option Pre
  | "if" :: x :: cmp :: "self" :: "." :: "len" :: "(" :: ")" :: "{" :: "panic" :: "!" :: "(" :: rest =>
    match paramIdx x, takeGroup rest 0 [] with
    | some k, some (_, ";" :: "}" :: rest') => if isCmp cmp then preMd { p with guard := some (cmp, k) } rest' else none
    | _, _ => none
  | ts => preMd p ts

def parsePre : List String → Option Pre
  | "{" :: "if" :: "self" :: "." :: "is_empty" :: "(" :: ")" :: "{" :: "None" :: "}" :: "else" :: "{" :: rest =>
    preMd { emptyNone := true } rest
  | "{" :: "if" :: "self" :: "." :: "is_null" :: "(" :: ")" :: "{" :: "None" :: "}" :: "else" :: "{" :: rest =>
    preMd { nullNone := true } rest
  | "{" :: rest => preGuard {} rest
  | _ => none

/-- the generated type a struct literal builds -/
inductive Ty | elem | vec | slice | sliceMut | ref | refMut | ptr | ptrMut | iter | iterMut | unknown (s : String)
  deriving DecidableEq, Repr

def tyOf : String → Ty
  | "P" => .elem | "PVec" => .vec | "PSlice" => .slice | "PSliceMut" => .sliceMut
  | "PRef" => .ref | "PRefMut" => .refMut | "PPtr" => .ptr | "PPtrMut" => .ptrMut
  | "PIter" => .iter | "PIterMut" => .iterMut
  | s => .unknown s

/-- how a function body is built from per-field pieces -/
inductive Sk
  /-- `{ pre #( E; )* [}] [::std::mem::forget($k);] }` -/
  | stmts (pre : Pre) (leaf nest : Item) (forget : Option Nat)
  /-- `{ pre #( let §p = E; )* [Some(] T { #(§: §p),* } [)] }` -/
  | lets (pre : Pre) (leaf nest : Item) (ty : Ty) (fam : String) (wrapSome : Bool) (forget : Option Nat)
  /-- `{ pre [Some(] T { #(§: E,)* } [)] }` -/
  | lit (pre : Pre) (ty : Ty) (leaf nest : Item) (wrapSome : Bool)
  /-- `{ pre #( let (x, y) = E; )* let a = T1 { #(§: x),* }; let b = T2 { #(§: y),* }; [Some(](a, b)[)] }` -/
  | pairs (pre : Pre) (leaf nest : Item) (ty1 ty2 : Ty) (f1 f2 : String) (wrapSome : Bool)
  /-- `{ let x = self.§first.m(); #( debug_assert_eq!(self.§.m(), x); )* x }` -/
  | firstChecked (m : String) (leaf nest : Item)
  /-- `{ let mut x = self.§first.m(); #( x = ::std::cmp::min(x, self.§.m()); )* x }` -/
  | minFold (m : String) (leaf nest : Item)
  /-- `{ false || #( E )||* }` -/
  | orFold (leaf nest : Item)
  /-- `{ T( e0.zip(e1).zip(e2)… ) }`: an iterator built as the zip chain of the per-field iterators -/
  | zipNew (ty : Ty) (leaf nest : FE)
  /-- `{ self.0.m().and_then(|((f0, f1), f2)| Some(T { #(§,)* })) }`: one step of the zip chain, re-tupled -/
  | zipStep (m : String) (ty : Ty)
  /-- no per-field content: the body as it stands -/
  | fixed (ts : List String)
  | unknown (why : String)
  deriving DecidableEq, Repr

def initOfFam (fam : String) : Item := .init (.priv fam)

/-- `T { ` possibly preceded by `Some (` -/
def litHead : List String → Option (Ty × Bool)
  | [t, "{"] => some (tyOf t, false)
  | ["Some", "(", t, "{"] => some (tyOf t, true)
  | _ => none

/-- closing tokens after the last repetition: `}` for the literal, `)` for `Some(`, then one `}` per open block -/
def closes (wrapSome : Bool) (pre : Pre) : List String :=
  ["}"] ++ (if wrapSome then [")"] else []) ++ (if pre.emptyNone || pre.nullNone then ["}"] else []) ++ (if pre.unsafeBlk then ["}"] else []) ++ ["}"]

def forgetOf : List String → Option (Option Nat × List String)
  | "::" :: "std" :: "::" :: "mem" :: "::" :: "forget" :: "(" :: x :: ")" :: ";" :: rest =>
    match paramIdx x with | some k => some (some k, rest) | none => none
  | ts => some (none, ts)

def skOf (f : Fn) : Sk :=
  match f.body with
  | [.t ts] => .fixed ts
  | [.t pre, .rep l n ";" true, .t post] =>
    match pre, post with
    | ["{", "let", x, "=", "self", ".", "§first", ".", m, "(", ")", ";"], [x', "}"] =>
      if x = x' then .firstChecked m (parseItem l) (parseItem n) else .unknown "first-checked: result variable"
    | ["{", "let", "mut", x, "=", "self", ".", "§first", ".", m, "(", ")", ";"], [x', "}"] =>
      if x = x' then .minFold m (parseItem l) (parseItem n) else .unknown "min-fold: result variable"
    | _, _ =>
      match parsePre pre with
      | some p =>
        -- `}` of the unsafe block (if any), then an optional forget, then `}` of the function
        let post' := if p.unsafeBlk then stripPrefix ["}"] post else some post
        match post'.bind forgetOf with
        | some (fg, ["}"]) => .stmts p (parseItem l) (parseItem n) fg
        | _ => .unknown "statements: epilogue"
      | none => .unknown "statements: prologue"
  | [.t pre, .rep l n ";" true, .t mid, .rep l2 n2 "," false, .t post] =>
    match parsePre pre with
    | some p =>
      match forgetOf mid with
      | some (fg, mid') =>
        match litHead mid', parseItem l2 with
        | some (ty, ws), .init (.priv fam) =>
          if l2 = n2 ∧ post = closes ws p then .lets p (parseItem l) (parseItem n) ty fam ws fg
          else .unknown "lets: literal"
        | some (ty, ws), .init .fieldName =>
          if l2 = n2 ∧ post = closes ws p then .lets p (parseItem l) (parseItem n) ty "§" ws fg
          else .unknown "lets: literal"
        | _, _ => .unknown "lets: head"
      | none => .unknown "lets: forget"
    | none => .unknown "lets: prologue"
  | [.t pre, .rep l n "," true, .t post] =>
    -- `{ [if … else {] [Some(] T {` … `} [)] [}] }`
    let go (p : Pre) (head : List String) : Sk :=
      match litHead head with
      | some (ty, ws) => if post = closes ws p then .lit p ty (parseItem l) (parseItem n) ws else .unknown "literal: closing"
      | none => .unknown "literal: head"
    match pre with
    | "{" :: "if" :: "self" :: "." :: "is_null" :: "(" :: ")" :: "{" :: "None" :: "}" :: "else" :: "{" :: head => go { nullNone := true } head
    | "{" :: head => go {} head
    | _ => .unknown "literal: prologue"
  | [.t pre, .rep l n ";" true, .t m1, .rep a1 a1' "," false, .t m2, .rep a2 a2' "," false, .t post] =>
    match parsePre pre, parseItem l, parseItem a1, parseItem a2 with
    | some p, .letPair x y e, .init e1, .init e2 =>
      let nm (e : FE) : Option String := match e with | .priv f => some f | .fieldName => some "§" | _ => none
      match m1, m2, nm e1, nm e2 with
      | ["let", v1, "=", t1, "{"], ["}", ";", "let", v2, "=", t2, "{"], some f1, some f2 =>
        let tailPlain := ["}", ";", "(", v1, ",", v2, ")", "}"]
        let tailSome := ["}", ";", "Some", "(", "(", v1, ",", v2, ")", ")", "}", "}"]
        if a1 = a1' ∧ a2 = a2' ∧ x = f1 ∧ y = f2 then
          if post = tailPlain ∧ !p.emptyNone then .pairs p (.letPair x y e) (parseItem n) (tyOf t1) (tyOf t2) f1 f2 false
          else if post = tailSome ∧ p.emptyNone then .pairs p (.letPair x y e) (parseItem n) (tyOf t1) (tyOf t2) f1 f2 true
          else .unknown "pairs: result"
        else .unknown "pairs: binders"
      | _, _, _, _ => .unknown "pairs: literals"
    | _, _, _, _ => .unknown "pairs: prologue"
  | [.t ["{", "false", "||"], .rep l n "||" false, .t ["}"]] => .orFold (parseItem l) (parseItem n)
  | [.t ["{", t, "("], .chain l n "zip", .t [")", "}"]] => .zipNew (tyOf t) (parseFE l) (parseFE n)
  | [.t ["{", "self", ".", "0", ".", m, "(", ")", ".", "and_then", "(", "|"], .tuplePat, .t ["|", "Some", "(", t, "{"],
     .rep ["§"] ["§"] "," true, .t ["}", ")", ")", "}"]] => .zipStep m (tyOf t)
  | [.opaque why] => .unknown why
  | _ => .unknown "shape of the body"

end Soa.Sk
