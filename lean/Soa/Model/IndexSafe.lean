import Soa.Model.IndexRun
/-!
# Static safety analysis of the extracted index layer

`safeB` decides, on the IR term of an accessor, whether its evaluation can reach a
per-field `get_unchecked*`.  `eval_not_ub` proves the analysis sound for **every** tree of
field lengths (lockstep or not), every index value and both profiles.
-/
namespace Soa.IdxIR

/-- the index form an `I` expression produces, given the form of `self` -/
def formAfter (form : Form) : I → Form
  | .self => form
  | .range _ _ => .range
  | .rangeIncl _ _ => .rangeIncl
  | .opaque _ => form

/-- can evaluating `b` reach an unchecked per-field access?  (`true` = it cannot) -/
def safeB (table : Kind → Form → M → Option B) : Nat → Kind → Form → B → Bool
  | 0, _, _, _ => true
  | fuel + 1, kind, form, b =>
    match b with
    | .ite _ t e => safeB table fuel kind form t && safeB table fuel kind form e
    | .some b => safeB table fuel kind form b
    | .call m i k =>
      match table (kindAfter kind k) (formAfter form i) m with
      | some b' => safeB table fuel (kindAfter kind k) (formAfter form i) b'
      | none => true
    | .build la _ => la.mode != .unchecked
    | _ => true

theorem evalI_form (p : Prof) (t : LT) (iv iv' : IV) (i : I) (h : evalI p t iv i = some iv') :
    iv'.form = formAfter iv.form i := by
  cases i with
  | self => simp only [evalI, Option.some.injEq] at h; subst h; rfl
  | range a b =>
    simp only [evalI] at h
    split at h <;> simp at h
    subst h; rfl
  | rangeIncl a b =>
    simp only [evalI] at h
    split at h <;> simp at h
    subst h; rfl
  | _ => simp [evalI] at h

theorem leafAcc_not_ub (n : Nat) (iv : IV) (m : Mode) (hm : m ≠ .unchecked) : leafAcc n iv m ≠ .err .ub := by
  unfold leafAcc
  cases m <;> simp at hm <;> cases iv.form <;> simp [oob] <;> split <;> simp

theorem buildLT_not_ub (iv : IV) (m : Mode) (hm : m ≠ .unchecked) : ∀ t : LT, buildLT iv m t ≠ .err .ub
  | .leaf n => by simp only [buildLT]; exact leafAcc_not_ub n iv m hm
  | .nest fs => by
    simp only [buildLT]
    exact go fs
where go : ∀ fs : List LT, buildLT.go iv m fs ≠ .err .ub
  | [] => by simp [buildLT.go]
  | [f] => by simp only [buildLT.go]; exact buildLT_not_ub iv m hm f
  | f :: g :: fs => by
    have h1 := buildLT_not_ub iv m hm f
    have h2 := go (g :: fs)
    simp only [buildLT.go]
    cases hf : buildLT iv m f with
    | err e => simp only; intro he; rw [hf] at h1; exact h1 he
    | ok v =>
      cases v with
      | early => simp
      | win s l =>
        simp only
        cases hg : buildLT.go iv m (g :: fs) with
        | err e => simp only; intro he; rw [hg] at h2; exact h2 he
        | ok w => cases w <;> simp <;> split <;> simp
      | none_ =>
        simp only
        cases hg : buildLT.go iv m (g :: fs) with
        | err e => simp only; intro he; rw [hg] at h2; exact h2 he
        | ok w => cases w <;> simp <;> split <;> simp
      | some_ x =>
        simp only
        cases hg : buildLT.go iv m (g :: fs) with
        | err e => simp only; intro he; rw [hg] at h2; exact h2 he
        | ok w => cases w <;> simp <;> split <;> simp

/-- **soundness of the analysis**: an accessor the analysis accepts never performs an
    unchecked out-of-bounds access — on any tree of field lengths, for any index value -/
theorem eval_not_ub (table : Kind → Form → M → Option B) (p : Prof) (t : LT) :
    ∀ (fuel : Nat) (kind : Kind) (iv : IV) (b : B), safeB table fuel kind iv.form b = true →
      eval table p t fuel kind iv b ≠ .err .ub
  | 0, _, _, _, _ => by simp [eval]
  | fuel + 1, kind, iv, b, h => by
    cases b with
    | ite c th e =>
      simp only [safeB, Bool.and_eq_true] at h
      simp only [eval]
      cases evalC p t iv c with
      | none => simp
      | some v => cases v
                  · exact eval_not_ub table p t fuel kind iv e h.2
                  · exact eval_not_ub table p t fuel kind iv th h.1
    | some b =>
      simp only [safeB] at h
      have ih := eval_not_ub table p t fuel kind iv b h
      simp only [eval]
      cases hb : eval table p t fuel kind iv b with
      | err e => simp only; intro he; rw [hb] at ih; exact ih he
      | ok v => cases v <;> simp
    | call m i k =>
      simp only [safeB] at h
      simp only [eval]
      cases hi : evalI p t iv i with
      | none => simp
      | some iv' =>
        have hf := evalI_form p t iv iv' i hi
        simp only
        rw [hf]
        cases ht : table (kindAfter kind k) (formAfter iv.form i) m with
        | none => simp
        | some b' =>
          simp only [ht] at h
          simp only
          have := eval_not_ub table p t fuel (kindAfter kind k) iv' b' (by rw [hf]; exact h)
          exact this
    | build la nm =>
      simp only [safeB, bne_iff_ne, ne_eq] at h
      simp only [eval]
      split
      · exact buildLT_not_ub iv la.mode h t
      · simp
    | _ => simp [eval]

end Soa.IdxIR
