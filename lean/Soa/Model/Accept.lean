/-!
# Which declarations the derive accepts, and binder hygiene of the generated code (C13)

`accept` mirrors the order of checks in `Input::new` (`soa-derive-internal/src/input.rs`) and the
`expect("missing ident")` / `unwrap()` on field identifiers in the generators: data kind, then
the empty-struct assertion, then the attribute loop (first offending attribute wins), then —
in the generators — the identifier of every field.

Hygiene: the generated functions bind three kinds of local names — the user's **field
names** (in `first_mut`, `split_first_mut`, `last_mut`, `split_last_mut` and the iterator
closures), **generator-private** names (`___soa_derive_private…_<i>`, built with a span
extracted from the generator sources) and **fixed** locals written in the `quote!` templates.
A function is represented by its binder / use events in evaluation order (extracted from
/repo); a use resolves to the latest earlier binder whose *string* is the same, and the
function is hygienic for a naming of the fields iff every use resolves to the binder of the
same symbolic name.
-/
namespace Soa.Accept

inductive DKind | namedStruct | tupleStruct | unitStruct | enum_ | union_
  deriving DecidableEq, Repr

inductive Tr | Debug | Clone | Copy | Default | PartialEq | other
  deriving DecidableEq, Repr

inductive AttrShape | okKind | badKind | badShape
  deriving DecidableEq, Repr

/-- `#[soa_derive(traits…)]` / `#[soa_attr(…)]` on the declaration, in source order -/
inductive Dir | traits (ts : List Tr) | attr (a : AttrShape)
  deriving DecidableEq, Repr

structure Decl where
  kind : DKind
  nFields : Nat
  dirs : List Dir
  deriving DecidableEq, Repr

inductive Diag
  | notStruct       -- "#[derive(StructOfArray)] only supports struct"
  | noFields        -- "… only supports struct with fields"
  | unnamedField    -- a field without identifier (tuple struct): the generators' unwrap/expect on the ident
  | copy            -- "can not derive Copy for SoA vectors"
  | badKind         -- "expected one of the SoA type, got …"
  | badAttrShape    -- "expected attribute like #[soa_attr(<Type>, <attr>)]"
  | badDeriveList
  | other (msg : String)
  deriving DecidableEq, Repr

/-- the first offending attribute, in source order -/
def firstBad : List Dir → Option Diag
  | [] => none
  | .traits ts :: ds => if ts.contains .Copy then some .copy else firstBad ds
  | .attr .okKind :: ds => firstBad ds
  | .attr .badKind :: _ => some .badKind
  | .attr .badShape :: _ => some .badAttrShape

/-- `none`: code is generated; `some d`: the derive panics with diagnostic `d` -/
def accept (d : Decl) : Option Diag :=
  match d.kind with
  | .enum_ | .union_ => some .notStruct
  | k =>
    if d.nFields = 0 then some .noFields else
    match firstBad d.dirs with
    | some e => some e
    | none => if k = .tupleStruct then some .unnamedField else none

/-! ## binder hygiene -/

inductive Name
  | field (i : Nat)                 -- the i-th field's name, chosen by the user
  | priv (fam : String) (i : Nat)   -- generator-private binder `<fam>_<i>`
  | fixed (s : String)              -- a local written in the generator's templates
  deriving DecidableEq, Repr

inductive Ev | bind (n : Name) | use (n : Name)
  deriving DecidableEq, Repr

/-- the key under which a name is looked up.  `hyg = true`: private binders are created with
    `Span::mixed_site()` and live in their own hygiene context (`Sum.inr`); `false`: with
    `Span::call_site()`, i.e. they are plain strings like the user's names -/
def key (hyg : Bool) (ν : Nat → String) : Name → String ⊕ (String × Nat)
  | .field i => .inl (ν i)
  | .fixed s => .inl s
  | .priv f i => if hyg then .inr (f, i) else .inl (f ++ "_" ++ toString i)

def lookupBy {κ : Type} [DecidableEq κ] (k : Name → κ) (env : List Name) (n : Name) : Option Name :=
  env.find? (fun m => k m = k n)

/-- every use resolves to the binder of the same symbolic name (or to no local binder) -/
def resolveBy {κ : Type} [DecidableEq κ] (k : Name → κ) : List Name → List Ev → Bool
  | _, [] => true
  | env, .bind n :: es => resolveBy k (n :: env) es
  | env, .use n :: es =>
    (match lookupBy k env n with
     | some m => decide (m = n)
     | none => true) && resolveBy k env es

/-- the function is hygienic for the field naming `ν` -/
def hygienic (hyg : Bool) (ν : Nat → String) (evs : List Ev) : Bool := resolveBy (key hyg ν) [] evs

/-- resolution when every name is only equal to itself -/
def hygienicSym (evs : List Ev) : Bool := resolveBy id [] evs

def Ev.name : Ev → Name
  | .bind n => n
  | .use n => n

/-- strings a field name must avoid: the fixed locals and (when not hygienic) the private names of the function -/
def reservedOf (hyg : Bool) (evs : List Ev) : List String :=
  evs.filterMap (fun e => match e.name with
    | .fixed s => some s
    | .priv f i => if hyg then none else some (f ++ "_" ++ toString i)
    | .field _ => none)

end Soa.Accept
