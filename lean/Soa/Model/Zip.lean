/-!
# `soa_zip!` — model of the macro rules (`src/lib.rs`)

`soa_zip!($self, [fields…] , externals… ,*)` binds `this = $self` and hands
`@munch this, {fields…} -> [] externals,` to `soa_zip_impl!`, whose rules are modelled one
function per rule group:

* `munch` — the four `@munch` rules: eat one `field` / `mut field` from the front of the
  selection and append `$self.$field.iter()` / `.iter_mut()` to the output list; the two
  "last field" rules hand the output list followed by the externals to `@last`.  There is
  no rule for an empty selection.
* `last` — `@last , $first, $($tail,)*`: `IntoIterator::into_iter($first)` followed by one
  `.zip($tail)` per remaining expression, then `.map(closure)`.
* `flattenRule` — `@flatten`: starting from pattern `a` and tuple `(a)`, every remaining
  expression wraps the pattern into `($p, a)` and appends `a` to the tuple.  Each rule
  expansion introduces its own `a` (macro hygiene: one syntax context per expansion, which
  is modelled by numbering the binders by expansion step).

The rule texts themselves are extracted from /repo on every run
(`Soa.Extracted.ZipMacro`) and compared with `rulesText` below, which is what these
functions were written from.
-/
namespace Soa.Zip

structure Sel where
  field : Nat
  mu : Bool
  deriving DecidableEq, Repr

/-- an iterator expression as handed to `@last` -/
inductive Src
  | field (f : Nat) (mu : Bool)   -- `$self.$field.iter()` (`mu = false`) / `.iter_mut()`
  | ext (k : Nat)                  -- the k-th external expression, verbatim
  deriving DecidableEq, Repr

/-- `@munch`; `none`: no rule matches -/
def munch : List Sel → List Src → Option (List Src)
  | [], _ => none
  | [s], out => some (out ++ [.field s.field s.mu])
  | s :: t, out => munch t (out ++ [.field s.field s.mu])

/-- Rust values flowing through the zip chain -/
inductive Val (α : Type)
  | atom (x : α)
  | pair (a b : Val α)
  deriving Repr, DecidableEq

/-- `acc.zip(t1).zip(t2)…` with std's `Zip`: stops as soon as one side stops -/
def zipChain {α : Type} : List (Val α) → List (List α) → List (Val α)
  | acc, [] => acc
  | acc, t :: ts => zipChain (List.zipWith (fun a x => .pair a (.atom x)) acc t) ts

/-- closure patterns; binders are numbered by the expansion step that introduced them -/
inductive Pat
  | var (k : Nat)
  | pair (p q : Pat)
  deriving Repr

/-- `@flatten $p => ($tup…) , $_iter , tail…`  ↦  `@flatten ($p, a) => ($tup…, a) , tail…`;
    with no expression left the closure `|$p| $tup` is emitted -/
def flattenRule : Pat → List Nat → Nat → Nat → Pat × List Nat
  | p, tup, _, 0 => (p, tup)
  | p, tup, k, n + 1 => flattenRule (.pair p (.var k)) (tup ++ [k]) (k + 1) n

def lookup {α : Type} : List (Nat × Val α) → Nat → Option (Val α)
  | [], _ => none
  | (j, v) :: e, k => if j = k then some v else lookup e k

/-- irrefutable pattern match of a closure argument -/
def Pat.bind {α : Type} : Pat → Val α → Option (List (Nat × Val α))
  | .var k, v => some [(k, v)]
  | .pair p q, .pair a b =>
    match p.bind a, q.bind b with
    | some e1, some e2 => some (e1 ++ e2)
    | _, _ => none
  | .pair _ _, .atom _ => none

def evalTuple {α : Type} (env : List (Nat × Val α)) : List Nat → Option (List (Val α))
  | [] => some []
  | k :: ks =>
    match lookup env k, evalTuple env ks with
    | some v, some vs => some (v :: vs)
    | _, _ => none

/-- apply the closure `|p| (tup…)` to one item of the zip chain -/
def applyClosure {α : Type} (p : Pat) (tup : List Nat) (v : Val α) : Option (List (Val α)) :=
  match p.bind v with
  | some env => evalTuple env tup
  | none => none

def mapAll {α β : Type} (f : α → Option β) : List α → Option (List β)
  | [] => some []
  | x :: xs =>
    match f x, mapAll f xs with
    | some y, some ys => some (y :: ys)
    | _, _ => none

/-- `@last , $first, $($tail,)*` on the lists the iterator expressions yield -/
def last {α : Type} : List (List α) → Option (List (List (Val α)))
  | [] => none
  | first :: tail =>
    let chain := zipChain (first.map .atom) tail
    let cl := flattenRule (.var 0) [0] 1 tail.length
    mapAll (applyClosure cl.1 cl.2) chain

/-- what a yielded component refers to -/
inductive Item
  | ref (f i : Nat) (mu : Bool)   -- (mutable) reference to position `i` of field `f`
  | ext (k : Nat) (v : Nat)        -- item `v` of the k-th external
  deriving DecidableEq, Repr

/-- `slice::Iter` / `IterMut` of a field with `n` elements; externals yield their items -/
def Src.items (flen : Nat → Nat) (ext : Nat → List Nat) : Src → List Item
  | .field f m => (List.range (flen f)).map (fun i => .ref f i m)
  | .ext k => (ext k).map (.ext k)

/-- the whole macro: selection, number of externals ↦ yielded tuples -/
def run (sels : List Sel) (nExt : Nat) (flen : Nat → Nat) (ext : Nat → List Nat) : Option (List (List (Val Item))) :=
  match munch sels [] with
  | none => none
  | some out => last ((out ++ (List.range nExt).map Src.ext).map (Src.items flen ext))

/-- positions written when the loop body writes through every `mut` component -/
def mutTarget : Val Item → Option (Nat × Nat)
  | .atom (.ref f i true) => some (f, i)
  | _ => none

def writes : List (List (Val Item)) → List (Nat × Nat)
  | [] => []
  | t :: ts => t.filterMap mutTarget ++ writes ts

/-! ## the rule texts the functions above were written from (one token per word; compared with the extracted ones in `Soa.Props.C20`) -/
def rulesText : List (String × String) := [
  ("@ flatten $ p : pat = > $ tup : expr",
   "| $ p | $ tup"),
  ("@ flatten $ p : pat = > ( $ ( $ tup : tt ) * ) , $ _iter : expr $ ( , $ tail : expr ) *",
   "$ crate : : soa_zip_impl ! ( @ flatten ( $ p , a ) = > ( $ ( $ tup ) * , a ) $ ( , $ tail ) * )"),
  ("@ last , $ first : expr , $ ( $ tail : expr , ) *",
   ": : std : : iter : : IntoIterator : : into_iter ( $ first ) $ ( . zip ( $ tail ) ) * . map ( $ crate : : soa_zip_impl ! ( @ flatten a = > ( a ) $ ( , $ tail ) * ) )"),
  ("@ munch $ self : expr , { mut $ field : ident } - > [ $ ( $ output : tt ) * ] $ ( $ ext : expr , ) *",
   "$ crate : : soa_zip_impl ! ( @ last $ ( $ output ) * , $ self . $ field . iter_mut ( ) , $ ( $ ext , ) * )"),
  ("@ munch $ self : expr , { $ field : ident } - > [ $ ( $ output : tt ) * ] $ ( $ ext : expr , ) *",
   "$ crate : : soa_zip_impl ! ( @ last $ ( $ output ) * , $ self . $ field . iter ( ) , $ ( $ ext , ) * )"),
  ("@ munch $ self : expr , { mut $ field : ident , $ ( $ tail : tt ) * } - > [ $ ( $ output : tt ) * ] $ ( $ ext : expr , ) *",
   "$ crate : : soa_zip_impl ! ( @ munch $ self , { $ ( $ tail ) * } - > [ $ ( $ output ) * , $ self . $ field . iter_mut ( ) ] $ ( $ ext , ) * )"),
  ("@ munch $ self : expr , { $ field : ident , $ ( $ tail : tt ) * } - > [ $ ( $ output : tt ) * ] $ ( $ ext : expr , ) *",
   "$ crate : : soa_zip_impl ! ( @ munch $ self , { $ ( $ tail ) * } - > [ $ ( $ output ) * , $ self . $ field . iter ( ) ] $ ( $ ext , ) * )")]

def entryText : List (String × String) := [
  ("$ self : expr , [ $ ( $ fields : tt ) * ] $ ( , $ external : expr ) * $ ( , ) *",
   "{ let this = $ self ; $ crate : : soa_zip_impl ! ( @ munch this , { $ ( $ fields ) * } - > [ ] $ ( $ external , ) * ) }")]

/-! ## driver: `zip len=<n> sel=a,mut:b,n ext=<l0>,<l1>` -/

def fieldNames : List String := ["a", "b", "c", "d", "n"]

/-- value stored by the probe programs at position `i` of leaf `j` (a b c d n.x n.y) -/
def leafBase (j : Nat) : Nat := [10, 60, 110, 160, 200, 260].getD j 0

def renderItem (writesBefore : Nat × Nat → Nat) : Item → String
  | .ref f i _ =>
    if f = 4 then s!"{leafBase 4 + i + writesBefore (4, i)}:{leafBase 5 + i + 2 * writesBefore (4, i)}"
    else s!"{leafBase f + i + writesBefore (f, i)}"
  | .ext _ v => toString v

def renderVal (wb : Nat × Nat → Nat) : Val Item → String
  | .atom x => renderItem wb x
  | .pair a b => "<" ++ renderVal wb a ++ "," ++ renderVal wb b ++ ">"

def parseSel (s : String) : Option Sel :=
  let (m, name) := if s.startsWith "mut:" then (true, (s.drop 4).toString) else (false, s)
  match fieldNames.idxOf? name with
  | some f => some ⟨f, m⟩
  | none => none

def count (ws : List (Nat × Nat)) (p : Nat × Nat) : Nat := (ws.filter (· == p)).length

def kv (ws : List String) (key : String) : Option String :=
  (ws.find? (·.startsWith (key ++ "="))).map (fun w => (w.drop (key.length + 1)).toString)

/-- `zip len=<window length> [off=<window start> total=<container length>] sel=… ext=…`: the container handed
    to the macro is a window `[off, off+len)` of a vector of `total` elements (a whole vector: `off = 0`,
    `total = len`); what is printed are the values the tuples show and the whole vector afterwards -/
def zipLine (line : String) : String :=
  match line.trimAscii.toString.splitOn " " with
  | "zip" :: ws =>
    let n := ((kv ws "len").bind (·.toNat?)).getD 0
    let off := ((kv ws "off").bind (·.toNat?)).getD 0
    let total := ((kv ws "total").bind (·.toNat?)).getD n
    let selStrs := (((kv ws "sel").getD "").splitOn ",").filter (· ≠ "")
    let extLens := ((((kv ws "ext").getD "").splitOn ",").filter (· ≠ "")).filterMap (·.toNat?)
    match mapAll parseSel selStrs with
    | none => "bad-op"
    | some sels =>
      let ext := fun k => (List.range (extLens.getD k 0)).map (fun i => 1000 * (k + 1) + i)
      match run sels extLens.length (fun _ => n) ext with
      | none => "no-rule"
      | some tuples =>
        -- positions inside the window are positions `off + i` of the vector
        let shift : Val Item → Val Item := fun v => match v with
          | .atom (.ref f i m) => .atom (.ref f (off + i) m)
          | v => v
        let tuples := tuples.map (·.map shift)
        let ws := writes tuples
        -- the probes print a tuple before writing through it; every position is visited once
        let shown := tuples.map (fun t => "(" ++ ",".intercalate (t.map (renderVal (fun _ => 0))) ++ ")")
        let leaf := fun (j f : Nat) (mult : Nat) =>
          (List.range total).map (fun i => leafBase j + i + mult * count ws (f, i))
        let after := s!"a={leaf 0 0 1} b={leaf 1 1 1} c={leaf 2 2 1} d={leaf 3 3 1} x={leaf 4 4 1} y={leaf 5 4 2}"
        " ".intercalate shown ++ " | " ++ after
  | _ => "bad-op"

end Soa.Zip
