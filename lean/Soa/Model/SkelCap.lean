import Soa.Model.SkelView
import Soa.Model.Cap
/-!
# Meaning of the extracted skeletons: the capacity API

The capacity of a generated vector is one number per leaf array (`Cap.St`).  `reserve`,
`reserve_exact`, `shrink_to_fit` are the same std call on every field (a nested field
receives the call of the same generated function, so every leaf receives it);
`with_capacity` builds every field with the same request; `capacity()` folds `min` over
the fields, a nested field contributing its own `capacity()`.
-/
namespace Soa.Sk
open Soa Soa.Cap

/-- what the std call of a per-field expression does to the capacity of one leaf `Vec` of `len` elements -/
def capLeaf (ps : List Nat) (len : Nat) (fe : FE) (k : Char) (cap : Nat) : Option Nat :=
  match fe with
  | .call "reserve" [.param i] .none => ps[i]?.map (fun add => leafReserve k len add cap)
  | .call "reserve_exact" [.param i] .none => ps[i]?.map (fun add => leafReserveExact k len add cap)
  | .call "shrink_to_fit" [] .none => some (leafShrink k len cap)
  | _ => none

def mapCaps (g : Char → Nat → Option Nat) : List (Char × Nat) → Option (List (Char × Nat))
  | [] => some []
  | p :: ps => match g p.1 p.2, mapCaps g ps with
    | some c, some r => some ((p.1, c) :: r)
    | _, _ => none

/-- `reserve` / `reserve_exact` / `shrink_to_fit` from the skeleton -/
def runCapStmts (f : Fn) (s : St) (ps : List Nat) : Option St :=
  match skOf f with
  | .stmts pre (.stmt le) (.stmt ne) none =>
    if pre == {} ∧ nestOkView f.name le ne then (mapCaps (capLeaf ps s.len le) s.caps).map (fun cs => { len := s.len, caps := cs })
    else none
  | _ => none

/-- `with_capacity(n)`: `…Vec { #(§: Vec::with_capacity($0),)* }`, nested: `<§T as StructOfArray>::Type::with_capacity($0)` -/
def isWithCapacity (f : Fn) : Bool :=
  match skOf f with
  | .lit pre .vec (.init (.path ["Vec", "::", "with_capacity"] [.param 0]))
      (.init (.path ["<", "§T", "as", "::", "soa_derive", "::", "StructOfArray", ">", "::", "Type", "::", "with_capacity"] [.param 0])) false =>
    pre == {} && f.name == "with_capacity"
  | _ => false

def runWithCapacity (f : Fn) (kinds : List Char) (n : Nat) : Option St :=
  if isWithCapacity f then some (St.new kinds n) else none

/-- capacities as a tree with the struct's shape -/
abbrev CapT := VT (Char × Nat)

/-- the generated `capacity()`: `let mut c = self.§first.capacity(); #( c = min(c, self.§.capacity()); )* c` -/
def capOf : CapT → Nat
  | .leaf p => p.2
  | .nest fs => match capsL fs with
    | [] => 0
    | c :: cs => (c :: cs).foldl min c
where capsL : List CapT → List Nat
  | [] => []
  | f :: fs => capOf f :: capsL fs

def isCapacity (f : Fn) : Bool :=
  match skOf f with
  | .minFold "capacity" (.minAssign x (.call "capacity" [] .none)) (.minAssign y (.call "capacity" [] .none)) =>
    x == y && f.name == "capacity"
  | _ => false

def runCapacity (f : Fn) (t : CapT) : Option Nat := if isCapacity f then some (capOf t) else none

/-- leaves in declaration order -/
def VT.flat {α : Type} : VT α → List α
  | .leaf a => [a]
  | .nest fs => flatL fs
where flatL {α : Type} : List (VT α) → List α
  | [] => []
  | f :: fs => f.flat ++ flatL fs

/-- every struct has at least one field -/
def VT.wf {α : Type} : VT α → Prop
  | .leaf _ => True
  | .nest fs => fs ≠ [] ∧ ∀ f ∈ fs, f.wf

end Soa.Sk
