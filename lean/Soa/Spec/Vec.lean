import Soa.Model.Basic
/-!
# Specification: what `Vec<T>` does, on rows (`List Elem`)

The std operations are the very same polymorphic functions the generated code calls per
field (`Soa.Ops`), here applied to whole elements.  Validated against the real
`Vec<T>` on every run (`S` lines of the harness).
-/
namespace Soa.Spec

structure Out where
  st : List Elem
  ret : Option (List Elem) := none
  isNone : Bool := false
  panicked : Bool := false
  ev : Ev := {}
  vis : List (List Nat) := []
  other : Option (List Elem) := none

/-- run a std operation on the rows; `none` = the std call panics with the vector untouched -/
def std (op : PolyOp) (rs as : List Elem) : Option (List Elem × List Elem) := op.run rs as

def push (rs e : List Elem) : Out :=
  match std appendOp rs e with
  | some r => { st := r.1 }
  | none => { st := rs, panicked := true }

def insert (drops : Bool) (rs : List Elem) (i : Nat) (e : List Elem) : Out :=
  match std (insertOp i) rs e with
  | some r => { st := r.1 }
  | none => { st := rs, panicked := true, ev := dropRows drops e }

def replace (drops : Bool) (rs : List Elem) (i : Nat) (e : List Elem) : Out :=
  match std (replaceOp i) rs e with
  | some r => { st := r.1, ret := some r.2 }
  | none => { st := rs, panicked := true, ev := dropRows drops e }

def remove (rs : List Elem) (i : Nat) : Out :=
  match std (removeOp i) rs [] with
  | some r => { st := r.1, ret := some r.2 }
  | none => { st := rs, panicked := true }

def swapRemove (rs : List Elem) (i : Nat) : Out :=
  match std (swapRemoveOp i) rs [] with
  | some r => { st := r.1, ret := some r.2 }
  | none => { st := rs, panicked := true }

def pop (rs : List Elem) : Out :=
  match std popOp rs [] with
  | some r => { st := r.1, ret := some r.2 }
  | none => { st := rs, isNone := true }

def truncate (drops : Bool) (rs : List Elem) (k : Nat) : Out :=
  { st := rs.take k, ev := dropRows drops (rs.drop k) }

def clear (drops : Bool) (rs : List Elem) : Out := truncate drops rs 0

def dropVec (drops : Bool) (rs : List Elem) : Out := truncate drops rs 0

def append (rs os : List Elem) : Out := { st := rs ++ os, other := some [] }

def splitOff (rs : List Elem) (at_ : Nat) : Out :=
  match std (splitOffOp at_) rs [] with
  | some r => { st := r.1, ret := some r.2 }
  | none => { st := rs, panicked := true }

/-- overwrite DFS leaf number `leaf` of one struct value; `j` counts leaves -/
def setLeafE (leaf id : Nat) : Elem → Nat → Elem × Nat
  | .leaf v, j => (if j = leaf then .leaf id else .leaf v, j + 1)
  | .nest fs, j => let r := setLeafEL leaf id fs j; (.nest r.1, r.2)
where setLeafEL (leaf id : Nat) : List Elem → Nat → List Elem × Nat
  | [], j => ([], j)
  | e :: es, j =>
    let r := setLeafE leaf id e j
    let r' := setLeafEL leaf id es r.2
    (r.1 :: r'.1, r'.2)

structure LoopOut where
  kept : List Elem
  gone : List Elem
  vis : List (List Nat)
  boom : Bool
  ev : Ev
  rest : List Elem

/-- `Vec::retain` / `retain_mut`: the callback sees every element once, in index order;
    `keep k` is its `k`-th answer; a discarded element is destroyed at once; if the callback
    panics at call `k`, std keeps the kept prefix followed by everything from `k` on. -/
def retainGo (keep : Nat → Bool) (boom : Option Nat) (touch : Nat → Nat → Option (Nat × Nat)) :
    Nat → List Elem → LoopOut → LoopOut
  | _, [], acc => acc
  | k, e :: es, acc =>
    let vis := acc.vis ++ [e.ids]
    let (e, ev) := match touch k k with
      | some (l, id) => ((setLeafE l id e 0).1, acc.ev ++ ({ drops := [e.ids.getD l 0] } : Ev))
      | none => (e, acc.ev)
    if boom = some k then { acc with vis, ev, boom := true, rest := e :: es }
    else if keep k then retainGo keep boom touch (k + 1) es { acc with kept := acc.kept ++ [e], vis, ev }
    else retainGo keep boom touch (k + 1) es { acc with gone := acc.gone ++ [e], vis, ev }

def retain (drops : Bool) (rs : List Elem) (keep : Nat → Bool) (boom : Option Nat)
    (touch : Nat → Nat → Option (Nat × Nat)) : Out :=
  let r := retainGo keep boom touch 0 rs ⟨[], [], [], false, {}, []⟩
  { st := r.kept ++ r.rest, panicked := r.boom, ev := r.ev ++ dropRows drops r.gone, vis := r.vis }

def extend (rs es : List Elem) : Out := { st := rs ++ es }

def resize (drops : Bool) (rs : List Elem) (n : Nat) (e : List Elem) : Out :=
  if n ≤ rs.length then { st := rs.take n, ev := dropRows drops (rs.drop n ++ e) }
  else { st := rs ++ (List.replicate (n - rs.length) e).flatten,
         ev := { clones := (List.replicate (n - rs.length - 1) ((e.map Elem.ids).flatten)).flatten } }

def extendFromSlice (rs src : List Elem) : Out :=
  { st := rs ++ src, ev := { clones := (src.map Elem.ids).flatten } }

def toVec (src : List Elem) : Out :=
  { st := src, ret := some src, ev := { clones := (src.map Elem.ids).flatten } }

end Soa.Spec
