import Soa.Model.Cap
import Soa.Model.Pinned
import Soa.Extracted.Bodies
/-!
# C12 — capacity contract

Over the numeric model of the field vectors' capacities (`Soa/Model/Cap.lean`, std's
`RawVec` policy, validated against the real std on every run): for every struct shape —
in particular fields in different std growth classes and zero-sized fields — `len ≤ cap`
holds in every field always; `capacity()` returns `c ≥ len` such that the next `c - len`
pushes reallocate no field; after `with_capacity(n)`, `reserve(n)`, `reserve_exact(n)` the
next `n` pushes reallocate no field.  (A field array moves only when its vector
reallocates; reserve/shrink do not touch the contents in the model by construction, which
the correspondence checks on the real code.)
-/
namespace Soa.C12
open Soa.Cap

theorem capacity_le (s : St) : ∀ p ∈ s.caps, s.capacity ≤ p.2 := by
  unfold St.capacity
  cases h : s.caps with
  | nil => simp
  | cons p ps =>
    have key : ∀ (l : List (Char × Nat)) (m : Nat), (l.foldl (fun m q => min m q.2) m ≤ m) ∧
        ∀ q ∈ l, l.foldl (fun m q => min m q.2) m ≤ q.2 := by
      intro l
      induction l with
      | nil => intro m; simp
      | cons a as ih =>
        intro m
        have h1 := ih (min m a.2)
        simp only [List.foldl_cons, List.mem_cons, forall_eq_or_imp]
        refine ⟨by omega, by omega, h1.2⟩
    intro q hq
    simp only [List.mem_cons] at hq
    rcases hq with rfl | hq
    · exact (key ps q.2).1
    · exact (key ps p.2).2 q hq

theorem capacity_ge (s : St) (m : Nat) (hne : s.caps ≠ []) (h : ∀ p ∈ s.caps, m ≤ p.2) : m ≤ s.capacity := by
  unfold St.capacity
  cases hc : s.caps with
  | nil => exact absurd hc hne
  | cons p ps =>
    rw [hc] at h
    have key : ∀ (l : List (Char × Nat)) (a : Nat), m ≤ a → (∀ q ∈ l, m ≤ q.2) →
        m ≤ l.foldl (fun m q => min m q.2) a := by
      intro l
      induction l with
      | nil => intro a ha _; simpa using ha
      | cons b bs ih =>
        intro a ha hb
        simp only [List.foldl_cons]
        apply ih
        · have := hb b (by simp); omega
        · intro q hq; exact hb q (by simp [hq])
    exact key ps p.2 (h p (by simp)) (fun q hq => h q (by simp [hq]))

/-- **`capacity() ≥ len()`, without panicking** (it is a total function of the field capacities) -/
theorem capacity_ge_len (s : St) (hne : s.caps ≠ []) (h : s.Inv) : s.len ≤ s.capacity :=
  capacity_ge s s.len hne h

theorem reserve_ge (k : Char) (len add cap : Nat) (h : len ≤ cap) (hz : k = 'z' → cap = MAXU) (hl : len + add ≤ MAXU) :
    len + add ≤ leafReserve k len add cap := by
  unfold leafReserve growAmortized
  by_cases hk : k = 'z'
  · simp [hk]; rw [hz hk]; exact hl
  · simp only [hk, ↓reduceIte]
    split <;> omega

theorem reserveExact_ge (k : Char) (len add cap : Nat) (h : len ≤ cap) (hz : k = 'z' → cap = MAXU) (hl : len + add ≤ MAXU) :
    len + add ≤ leafReserveExact k len add cap := by
  unfold leafReserveExact
  by_cases hk : k = 'z'
  · simp [hk]; rw [hz hk]; exact hl
  · simp only [hk, ↓reduceIte]
    split <;> omega

/-- a push into spare capacity reallocates nothing -/
theorem push_spare (k : Char) (len cap : Nat) (h : len < cap) : leafPush k len cap = cap := by
  unfold leafPush leafReserve
  by_cases hk : k = 'z'
  · simp [hk]
  · simp only [hk, ↓reduceIte]
    have : ¬ cap - len < 1 := by omega
    simp [this]

theorem pushAll_spare (s : St) (h : ∀ p ∈ s.caps, s.len < p.2) : s.push.caps = s.caps := by
  unfold St.push St.map
  simp only
  have : ∀ l : List (Char × Nat), (∀ p ∈ l, s.len < p.2) →
      l.map (fun p => (p.1, Cap.leafPush p.1 s.len p.2)) = l := by
    intro l
    induction l with
    | nil => simp
    | cons a as ih =>
      intro hl
      simp only [List.map_cons, List.cons.injEq]
      exact ⟨by rw [C12.push_spare a.1 s.len a.2 (hl a (by simp))], ih (fun p hp => hl p (by simp [hp]))⟩
  exact this s.caps h

/-- **the promise**: while `len + k ≤` every field's capacity, `k` pushes reallocate no field
    (no field array moves) -/
theorem pushes_no_realloc : ∀ (k : Nat) (s : St), (∀ p ∈ s.caps, s.len + k ≤ p.2) →
    (St.pushes k s).caps = s.caps ∧ (St.pushes k s).len = s.len + k
  | 0, s, _ => by simp [St.pushes]
  | k + 1, s, h => by
    have h1 : s.push.caps = s.caps := pushAll_spare s (fun p hp => by have := h p hp; omega)
    have h2 : s.push.len = s.len + 1 := rfl
    have ih := pushes_no_realloc k s.push (by
      intro p hp; rw [h1] at hp; rw [h2]; have := h p hp; omega)
    simp only [St.pushes]
    exact ⟨by rw [ih.1, h1], by rw [ih.2, h2]; omega⟩

/-- **after `capacity()` returned `c`: `c - len` further pushes move nothing** -/
theorem capacity_promise (s : St) (hne : s.caps ≠ []) (h : s.Inv) :
    (St.pushes (s.capacity - s.len) s).caps = s.caps := by
  have hge := capacity_ge_len s hne h
  exact (pushes_no_realloc (s.capacity - s.len) s (fun p hp => by
    have := capacity_le s p hp; omega)).1

/-- **after `reserve(n)`: `n` further pushes move nothing** -/
theorem reserve_promise (s : St) (n : Nat) (h : s.Inv) (hz : s.ZInv) (hl : s.len + n ≤ MAXU) :
    (St.pushes n (s.reserve n)).caps = (s.reserve n).caps := by
  refine (pushes_no_realloc n (s.reserve n) ?_).1
  intro p hp
  simp only [St.reserve, St.map, List.mem_map] at hp ⊢
  obtain ⟨q, hq, rfl⟩ := hp
  exact reserve_ge q.1 s.len n q.2 (h q hq) (hz q hq) hl

/-- **after `reserve_exact(n)`: `n` further pushes move nothing** -/
theorem reserveExact_promise (s : St) (n : Nat) (h : s.Inv) (hz : s.ZInv) (hl : s.len + n ≤ MAXU) :
    (St.pushes n (s.reserveExact n)).caps = (s.reserveExact n).caps := by
  refine (pushes_no_realloc n (s.reserveExact n) ?_).1
  intro p hp
  simp only [St.reserveExact, St.map, List.mem_map] at hp ⊢
  obtain ⟨q, hq, rfl⟩ := hp
  exact reserveExact_ge q.1 s.len n q.2 (h q hq) (hz q hq) hl

/-- **a reservation never takes anything back**: `reserve(k)` / `reserve_exact(k)` leave every field's capacity at
    least where it was, for every `k` (std: "does nothing if capacity is already sufficient") -/
theorem leafReserve_mono (k : Char) (len add cap : Nat) : cap ≤ leafReserve k len add cap := by
  unfold leafReserve growAmortized
  split
  · exact Nat.le_refl _
  · split <;> omega

theorem leafReserveExact_mono (k : Char) (len add cap : Nat) : cap ≤ leafReserveExact k len add cap := by
  unfold leafReserveExact
  split
  · exact Nat.le_refl _
  · split <;> omega

/-- growth never gives capacity back either: a push (and `insert`, `extend`, `append`, `resize` — `St.grow`) leaves every
    field's capacity at least where it was -/
theorem push_grow_mono (s : St) (add : Nat) :
    (∀ q ∈ s.caps, q.2 ≤ leafPush q.1 s.len q.2) ∧ (∀ q ∈ s.caps, q.2 ≤ leafReserve q.1 s.len add q.2) :=
  ⟨fun q _ => leafReserve_mono q.1 s.len 1 q.2, fun q _ => leafReserve_mono q.1 s.len add q.2⟩

/-- **a standing promise survives later reservations**: if `n` more pushes were guaranteed not to move anything (after
    `with_capacity`, `reserve`, `reserve_exact`), they still are after any further `reserve(k)` / `reserve_exact(k)` -/
theorem promise_survives_reserve (s : St) (n k : Nat) (h : ∀ p ∈ s.caps, s.len + n ≤ p.2) :
    (∀ p ∈ (s.reserve k).caps, (s.reserve k).len + n ≤ p.2) ∧
    (∀ p ∈ (s.reserveExact k).caps, (s.reserveExact k).len + n ≤ p.2) := by
  constructor
  · intro p hp
    simp only [St.reserve, St.map, List.mem_map] at hp ⊢
    obtain ⟨q, hq, rfl⟩ := hp
    exact Nat.le_trans (h q hq) (leafReserve_mono q.1 s.len k q.2)
  · intro p hp
    simp only [St.reserveExact, St.map, List.mem_map] at hp ⊢
    obtain ⟨q, hq, rfl⟩ := hp
    exact Nat.le_trans (h q hq) (leafReserveExact_mono q.1 s.len k q.2)

/-- … so the promised pushes after `reserve(n)` then `reserve_exact(k)` (any `k`) move nothing -/
theorem reserve_then_reserveExact_promise (s : St) (n k : Nat) (h : s.Inv) (hz : s.ZInv) (hl : s.len + n ≤ MAXU) :
    (St.pushes n ((s.reserve n).reserveExact k)).caps = ((s.reserve n).reserveExact k).caps := by
  refine (pushes_no_realloc n _ ?_).1
  refine (promise_survives_reserve (s.reserve n) n k ?_).2
  intro p hp
  simp only [St.reserve, St.map, List.mem_map] at hp ⊢
  obtain ⟨q, hq, rfl⟩ := hp
  exact reserve_ge q.1 s.len n q.2 (h q hq) (hz q hq) hl

/-- **after `with_capacity(n)`: `n` pushes move nothing** -/
theorem withCapacity_promise (kinds : List Char) (n : Nat) (hn : n ≤ MAXU) :
    (St.pushes n (St.new kinds n)).caps = (St.new kinds n).caps := by
  refine (pushes_no_realloc n (St.new kinds n) ?_).1
  intro p hp
  simp only [St.new, List.mem_map] at hp ⊢
  obtain ⟨k, _, rfl⟩ := hp
  simp only [leafExact, Nat.zero_add]
  split <;> omega

/-- `len ≤ cap` in every field is preserved by every growth step -/
theorem inv_grow (s : St) (add : Nat) (h : s.Inv) (hz : s.ZInv) (hl : s.len + add ≤ MAXU) : (s.grow add).Inv := by
  intro p hp
  simp only [St.grow, St.map, List.mem_map] at hp ⊢
  obtain ⟨q, hq, rfl⟩ := hp
  exact reserve_ge q.1 s.len add q.2 (h q hq) (hz q hq) hl

theorem inv_push (s : St) (h : s.Inv) (hz : s.ZInv) (hl : s.len + 1 ≤ MAXU) : s.push.Inv :=
  inv_grow s 1 h hz hl

theorem inv_shrink (s : St) (h : s.Inv) : s.shrink.Inv := by
  intro p hp
  simp only [St.shrink, St.map, List.mem_map] at hp ⊢
  obtain ⟨q, hq, rfl⟩ := hp
  have := h q hq
  simp only [leafShrink]
  split
  · exact this
  · split <;> omega

theorem inv_setLen (s : St) (len' : Nat) (h : s.Inv) (hle : len' ≤ s.len) : (s.setLen len').Inv := by
  intro p hp
  have := h p hp
  simp only [St.setLen] at hp ⊢
  omega

theorem inv_new (kinds : List Char) (n : Nat) : (St.new kinds n).Inv := by
  intro p hp
  simp only [St.new, List.mem_map] at hp ⊢
  obtain ⟨k, _, rfl⟩ := hp
  omega

/-! non-vacuity: `{ flag: 1 byte, x: 8 bytes }` after one push has field capacities 8 and 4;
    `capacity()` is 4 and three more pushes move nothing, a fourth reallocates the second field -/
def two : St := (St.new ['b', 's'] 0).push
example : two.caps = [('b', 8), ('s', 4)] ∧ two.capacity = 4 := by decide
example : two.Inv := by intro p hp; simp [two, St.new, St.push, St.map, leafExact, leafPush, leafReserve, growAmortized, minNonZero] at hp; rcases hp with rfl | rfl <;> decide
example : (St.pushes 3 two).caps = two.caps ∧ (St.pushes 4 two).caps ≠ two.caps := by decide

/-- **text pin**: the generated functions this property's hand-written model describes have, in
    /repo today, exactly the text the model was written from (`Soa/Model/Pinned.lean`) -/
theorem bodies_pinned : Soa.Extracted.bodies_C12 = Soa.Model.pinned_C12 := rfl

theorem bodies_pinned_nonempty : Soa.Model.pinned_C12.length ≥ 4 := by decide

end Soa.C12
