import Soa.Props.C03
import Soa.Props.C08
import Soa.Props.C16
import Soa.Lemmas.GenTie
/-!
# C03 / C08 / C16 for the vector API as extracted from /repo

The driver's `Gen.*` functions (extracted skeletons and loop trees) equal the hand-written
model on lockstep containers (`Soa/Lemmas/GenTie.lean`), events included; so the ownership,
destructor and fault theorems hold for them verbatim.
-/
namespace Soa.Extr
open Soa Soa.Exec

variable {c e : Cols} {n : Nat}

/-! ## C03: every field value is owned exactly once -/

theorem push_conserves (dr : Bool) (hc : c.lock n) (he : e.lock 1) (hs : c.same e) : C03.Conserves c e (Gen.push dr c e) := by
  rw [Gen.push_eq]; exact C03.push hc he hs
theorem insert_conserves (dr : Bool) (i : Nat) (hc : c.lock n) (he : e.lock 1) (hs : c.same e) :
    C03.Conserves c e (Gen.insert dr c i e) := by
  rw [Gen.insert_eq dr i hc he hs]; exact C03.insert dr i hc he hs
theorem replace_conserves (dr : Bool) (i : Nat) (hc : c.lock n) (he : e.lock 1) (hs : c.same e) :
    C03.Conserves c e (Gen.replace dr c i e) := by
  rw [Gen.replace_eq dr i hc he hs]; exact C03.replace dr i hc he hs
theorem pop_conserves (dr : Bool) (c : Cols) : C03.Conserves c (c.const []) (Gen.pop dr c) := by
  rw [Gen.pop_eq]; exact C03.pop c
theorem remove_conserves (dr : Bool) (c : Cols) (i : Nat) : C03.Conserves c (c.const []) (Gen.remove dr c i) := by
  rw [Gen.remove_eq]; exact C03.remove c i
theorem swapRemove_conserves (dr : Bool) (c : Cols) (i : Nat) : C03.Conserves c (c.const []) (Gen.swapRemove dr c i) := by
  rw [Gen.swapRemove_eq]; exact C03.swapRemove c i
theorem splitOff_conserves (dr : Bool) (c : Cols) (i : Nat) : C03.Conserves c (c.const []) (Gen.splitOff dr c i) := by
  rw [Gen.splitOff_eq]; exact C03.splitOff c i
theorem truncate_conserves (dr : Bool) (k : Nat) (hc : c.lock n) : C03.Conserves c (c.const []) (Gen.truncate dr c k) := by
  rw [Gen.truncate_eq dr k hc]; exact C03.truncate dr c k
theorem clear_conserves (dr : Bool) (hc : c.lock n) : C03.Conserves c (c.const []) (Gen.clear dr c) := by
  rw [Gen.clear_eq dr hc]; exact C03.clear dr c
theorem dropVec_conserves (dr : Bool) (hc : c.lock n) : C03.Conserves c (c.const []) (Gen.dropVec dr c) := by
  rw [Gen.dropVec_eq dr hc]; exact C03.dropVec dr c

/-- `retain` / `retain_mut` as extracted, with any answers, any panicking call and any writes of the callback -/
theorem retain_conserves (dr mut_ : Bool) (keep : Nat → Bool) (boom : Option Nat) (touch : Nat → Nat → Option (Nat × Nat))
    (hc : c.lock n) :
    ((Gen.retain dr mut_ c keep boom touch).st.flat ++ C03.held (Gen.retain dr mut_ c keep boom touch) ++
      (Gen.retain dr mut_ c keep boom touch).ev.drops).Perm (c.flat ++ (Gen.retain dr mut_ c keep boom touch).made) := by
  rw [Gen.retain_eq_w dr mut_ keep boom touch hc]; exact C03.retain dr c keep boom touch

/-! ## C08: the struct's own destructor -/

theorem truncate_dropT (dr : Bool) (k : Nat) (hc : c.lock n) :
    (Gen.truncate dr c k).ev.dropT.Perm (Spec.truncate dr c.rows k).ev.dropT := by
  rw [Gen.truncate_eq dr k hc]; exact C08.truncate dr k hc
theorem clear_dropT (dr : Bool) (hc : c.lock n) : (Gen.clear dr c).ev.dropT.Perm (Spec.clear dr c.rows).ev.dropT := by
  rw [Gen.clear_eq dr hc]; exact C08.clear dr hc
theorem dropVec_dropT (hc : c.lock n) : (Gen.dropVec true c).ev.dropT.Perm (c.rows.map C08.firstId) := by
  rw [Gen.dropVec_eq true hc]; exact C08.dropVec hc
theorem retain_dropT (mut_ : Bool) (keep : Nat → Bool) (hc : c.lock n) :
    (Gen.retain true mut_ c keep none (fun _ _ => none)).ev.dropT.Perm
      ((RetainIdx.filterIdx (fun i => !keep i) 0 c.rows).map C08.firstId) := by
  rw [Gen.retain_eq true mut_ keep none hc]; exact C08.retain keep hc
/-- … and with a callback that writes -/
theorem retain_mut_dropT (mut_ : Bool) (keep : Nat → Bool) (touch : Nat → Nat → Option (Nat × Nat)) (hc : c.lock n) :
    (Gen.retain true mut_ c keep none touch).ev.dropT.Perm (Spec.retain true c.rows keep none touch).ev.dropT := by
  rw [Gen.retain_eq_w true mut_ keep none touch hc, C08.retain_mut_spec]; exact C08.retain_mut keep touch hc

theorem push_dropT (dr : Bool) : (Gen.push dr c e).ev.dropT = [] := by rw [Gen.push_eq]; rfl
theorem pop_dropT (dr : Bool) : (Gen.pop dr c).ev.dropT = [] := by rw [Gen.pop_eq]; exact C08.pop_none
theorem remove_dropT (dr : Bool) (i : Nat) : (Gen.remove dr c i).ev.dropT = [] := by rw [Gen.remove_eq]; exact C08.remove_none i
theorem swapRemove_dropT (dr : Bool) (i : Nat) : (Gen.swapRemove dr c i).ev.dropT = [] := by
  rw [Gen.swapRemove_eq]; exact C08.swapRemove_none i

/-! ## C16: the callback of `retain` / `retain_mut` panics at any call -/

theorem retain_fault (dr mut_ : Bool) (keep : Nat → Bool) (k : Nat) (hc : c.lock n)
    (hp : (Gen.retain dr mut_ c keep (some k) (fun _ _ => none)).panicked = true) :
    (Gen.retain dr mut_ c keep (some k) (fun _ _ => none)).st.lock n ∧
    c.same (Gen.retain dr mut_ c keep (some k) (fun _ _ => none)).st ∧
    (Gen.retain dr mut_ c keep (some k) (fun _ _ => none)).st.rows.Perm c.rows ∧
    (Gen.retain dr mut_ c keep (some k) (fun _ _ => none)).ev.drops = [] := by
  rw [Gen.retain_eq dr mut_ keep (some k) hc] at hp ⊢
  exact C16.retain_fault dr keep k hc hp

/-- … and when the callback also writes -/
theorem retain_fault_w (dr mut_ : Bool) (keep : Nat → Bool) (k : Nat) (touch : Nat → Nat → Option (Nat × Nat)) (hc : c.lock n)
    (hp : (Gen.retain dr mut_ c keep (some k) touch).panicked = true) :
    (Gen.retain dr mut_ c keep (some k) touch).st.lock n ∧ c.same (Gen.retain dr mut_ c keep (some k) touch).st ∧
    ((Gen.retain dr mut_ c keep (some k) touch).st.flat ++ (Gen.retain dr mut_ c keep (some k) touch).ev.drops).Perm
      (c.flat ++ (Gen.retain dr mut_ c keep (some k) touch).made) := by
  rw [Gen.retain_eq_w dr mut_ keep (some k) touch hc] at hp ⊢
  exact C16.retain_fault_w dr keep k touch hc hp

end Soa.Extr
