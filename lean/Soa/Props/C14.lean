import Soa.Model.Derive
import Soa.Extracted.Derive
import Soa.Lemmas.Positions
/-!
# C14 — requested traits and attributes land on the right generated types

`Soa.Derive` models the attribute loop of `Input::new` and the attribute lists the
generators put on the seven generated structs.  Tie: the translator runs the **real**
`Input::new` and generators of /repo on a corpus of attribute lists — all 256 subsets of the
eight std traits, `Copy` in every position, the serde traits, unknown traits, duplicates,
several `soa_derive` attributes, every kind through `soa_attr` (alone, before and after a
`soa_derive`, with derives and with tagged attributes), foreign attributes, wrong kinds — and
records the attributes found on the seven generated struct items and the presence of the
cloning API; `table_agrees` evaluates the model on every row in the kernel.

The theorems then hold for **every** attribute list, not just the corpus:
* `lands`: an attribute is on the list of kind `K` iff it was given through
  `soa_attr(K, ·)`, or is `derive(t)` for a trait `t ≠ Default` named in a `soa_derive` and
  (`K = Vec` or `t ∉ {Clone, Serialize, Deserialize}`);
* `attr_exact`: `soa_attr(K, a)` lands on `K` and on no other kind (unless requested for it);
* `rejected_iff`: the derive panics iff `Copy` is requested or a `soa_attr` names no kind;
* `clone_api_iff`: the cloning API is generated iff `Clone` is named in a `soa_derive`;
* `default_always`, `copy_views`: vector, slice and mutable slice always derive `Default`;
  slice, reference and both pointer types always derive `Copy, Clone`;
* `trait_table`: the complete 7 × trait truth table of what is derived where;
* `eq_elementwise`: field-wise equality of two lockstep containers of one shape (what the
  derived `PartialEq` of the vector and views computes) is equality of the rows
  (element-wise equality), and `default_is_empty`.
-/
namespace Soa.C14
open Soa.Derive

/-- **translator tie**: on every row of the corpus the real generator produced what the model predicts -/
theorem table_agrees : Extracted.deriveTable.all (fun r => decide (predict r.dirs = r.out)) = true := by
  decide +kernel

theorem corpus_size : Extracted.deriveTable.length = Extracted.nDeriveCases ∧ 300 ≤ Extracted.nDeriveCases := by
  decide +kernel

/-! ## lists -/

theorem push_get (a : Attrs) (k k' : Kind) (x : At) :
    (a.push k x).get k' = if k' = k then a.get k' ++ [x] else a.get k' := by
  cases k <;> cases k' <;> simp [Attrs.push, Attrs.get]

theorem push_clone (a : Attrs) (k : Kind) (x : At) : (a.push k x).deriveClone = a.deriveClone := by
  cases k <;> rfl

theorem addDerive_get (a : Attrs) (t : Tr) (K : Kind) :
    (addDerive a t).get K = if K = .vec ∨ vecOnly t = false then a.get K ++ [.derive [t]] else a.get K := by
  have hc : ∀ (b : Attrs), ({ b with deriveClone := true } : Attrs).get K = b.get K := by
    intro b; cases K <;> rfl
  unfold addDerive
  cases hv : vecOnly t <;> cases K <;> simp only [hv] <;> split <;> simp [hc, push_get]

theorem addDerive_clone (a : Attrs) (t : Tr) :
    (addDerive a t).deriveClone = (a.deriveClone || decide (t = .Clone)) := by
  unfold addDerive
  by_cases h : t = .Clone
  · simp [h]
  · cases hv : vecOnly t <;> simp [h, push_clone]

/-- what a `soa_derive` trait contributes to the list of kind `K` -/
def contributes (K : Kind) (t : Tr) (x : At) : Prop :=
  t ≠ .Default ∧ x = .derive [t] ∧ (K = .vec ∨ vecOnly t = false)

theorem processDerive_some : ∀ (ts : List Tr) (a a' : Attrs), processDerive a ts = some a' →
    (∀ K x, x ∈ a'.get K ↔ x ∈ a.get K ∨ ∃ t ∈ ts, contributes K t x) ∧
    a'.deriveClone = (a.deriveClone || ts.contains .Clone) ∧ .Copy ∉ ts
  | [], a, a', h => by
    simp only [processDerive, Option.some.injEq] at h
    subst h; simp
  | t :: ts, a, a', h => by
    simp only [processDerive] at h
    by_cases hc : t = .Copy
    · simp [hc] at h
    · by_cases hd : t = .Default
      · simp only [hc, hd, ↓reduceIte, reduceCtorEq] at h
        obtain ⟨h1, h2, h3⟩ := processDerive_some ts a a' h
        refine ⟨fun K x => ?_, ?_, ?_⟩
        · rw [h1 K x]
          constructor
          · rintro (h | ⟨u, hu, hcu⟩)
            · exact .inl h
            · exact .inr ⟨u, by simp [hu], hcu⟩
          · rintro (h | ⟨u, hu, hcu⟩)
            · exact .inl h
            · rcases List.mem_cons.mp hu with rfl | hu
              · exact absurd hd hcu.1
              · exact .inr ⟨u, hu, hcu⟩
        · rw [h2, hd]; simp
        · simp [hd, h3]
      · simp only [hc, hd, ↓reduceIte] at h
        obtain ⟨h1, h2, h3⟩ := processDerive_some ts (addDerive a t) a' h
        refine ⟨fun K x => ?_, ?_, ?_⟩
        · rw [h1 K x, addDerive_get]
          constructor
          · rintro (h | ⟨u, hu, hcu⟩)
            · by_cases hk : K = .vec ∨ vecOnly t = false
              · rw [if_pos hk] at h
                rcases List.mem_append.mp h with h | h
                · exact .inl h
                · exact .inr ⟨t, by simp, hd, by simpa using h, hk⟩
              · rw [if_neg hk] at h
                exact .inl h
            · exact .inr ⟨u, by simp [hu], hcu⟩
          · rintro (h | ⟨u, hu, hcu⟩)
            · left; split
              · exact List.mem_append_left _ h
              · exact h
            · rcases List.mem_cons.mp hu with rfl | hu
              · left
                rw [if_pos hcu.2.2, hcu.2.1]
                simp
              · exact .inr ⟨u, hu, hcu⟩
        · rw [h2, addDerive_clone]
          by_cases hcl : t = .Clone
          · simp [hcl]
          · have : decide (Tr.Clone = t) = false := by
              simp only [decide_eq_false_iff_not]; exact fun h => hcl h.symm
            simp [hcl, this]
        · simp only [List.mem_cons, not_or]
          exact ⟨fun h => hc h.symm, h3⟩

theorem processDerive_none : ∀ (ts : List Tr) (a : Attrs), processDerive a ts = none ↔ .Copy ∈ ts
  | [], a => by simp [processDerive]
  | t :: ts, a => by
    simp only [processDerive, List.mem_cons]
    by_cases hc : t = .Copy
    · simp [hc]
    · have hc' : ¬ Tr.Copy = t := fun h => hc h.symm
      by_cases hd : t = .Default
      · simp only [hc, hd, ↓reduceIte, reduceCtorEq, false_or]
        exact processDerive_none ts a
      · simp only [hc, hd, ↓reduceIte, hc', false_or]
        exact processDerive_none ts _

/-- a `soa_derive` attribute of the input names trait `t` -/
def Requested (ds : List Directive) (t : Tr) : Prop := ∃ ts, Directive.soaDerive ts ∈ ds ∧ t ∈ ts

/-- the input makes the derive panic -/
def Bad (ds : List Directive) : Prop := Requested ds .Copy ∨ ∃ x, Directive.soaAttrBad x ∈ ds

theorem process_some : ∀ (ds : List Directive) (a a' : Attrs), process a ds = some a' →
    (∀ K x, x ∈ a'.get K ↔ x ∈ a.get K ∨ Directive.soaAttr K x ∈ ds ∨ ∃ t, Requested ds t ∧ contributes K t x) ∧
    (a'.deriveClone = true ↔ a.deriveClone = true ∨ Requested ds .Clone) ∧ ¬ Bad ds
  | [], a, a', h => by
    simp only [process, Option.some.injEq] at h
    subst h
    simp [Requested, Bad]
  | .soaDerive ts :: ds, a, a', h => by
    simp only [process] at h
    cases hp : processDerive a ts with
    | none => simp [hp] at h
    | some a1 =>
      simp only [hp] at h
      obtain ⟨p1, p2, p3⟩ := processDerive_some ts a a1 hp
      obtain ⟨q1, q2, q3⟩ := process_some ds a1 a' h
      refine ⟨fun K x => ?_, ?_, ?_⟩
      · rw [q1 K x, p1 K x]
        constructor
        · rintro ((h | ⟨t, ht, hc⟩) | h | ⟨t, ⟨us, hus, htu⟩, hc⟩)
          · exact .inl h
          · exact .inr (.inr ⟨t, ⟨ts, by simp, ht⟩, hc⟩)
          · exact .inr (.inl (by simp [h]))
          · exact .inr (.inr ⟨t, ⟨us, by simp [hus], htu⟩, hc⟩)
        · rintro (h | h | ⟨t, ⟨us, hus, htu⟩, hc⟩)
          · exact .inl (.inl h)
          · simp only [List.mem_cons, reduceCtorEq, false_or] at h
            exact .inr (.inl h)
          · rcases List.mem_cons.mp hus with heq | hus
            · injection heq with heq; subst heq
              exact .inl (.inr ⟨t, htu, hc⟩)
            · exact .inr (.inr ⟨t, ⟨us, hus, htu⟩, hc⟩)
      · rw [q2, p2]
        simp only [Bool.or_eq_true, List.contains_eq_mem, decide_eq_true_eq]
        constructor
        · rintro ((h | h) | ⟨us, hus, hu⟩)
          · exact .inl h
          · exact .inr ⟨ts, by simp, h⟩
          · exact .inr ⟨us, by simp [hus], hu⟩
        · rintro (h | ⟨us, hus, hu⟩)
          · exact .inl (.inl h)
          · rcases List.mem_cons.mp hus with heq | hus
            · injection heq with heq; subst heq
              exact .inl (.inr hu)
            · exact .inr ⟨us, hus, hu⟩
      · rintro (⟨us, hus, hu⟩ | ⟨x, hx⟩)
        · rcases List.mem_cons.mp hus with heq | hus
          · injection heq with heq; subst heq
            exact p3 hu
          · exact q3 (.inl ⟨us, hus, hu⟩)
        · simp only [List.mem_cons, reduceCtorEq, false_or] at hx
          exact q3 (.inr ⟨x, hx⟩)
  | .soaAttr k y :: ds, a, a', h => by
    simp only [process] at h
    obtain ⟨q1, q2, q3⟩ := process_some ds (a.push k y) a' h
    refine ⟨fun K x => ?_, ?_, ?_⟩
    · rw [q1 K x, push_get]
      constructor
      · rintro (h | h | ⟨t, ⟨us, hus, htu⟩, hc⟩)
        · by_cases hk : K = k
          · rw [if_pos hk] at h
            rcases List.mem_append.mp h with h | h
            · exact .inl h
            · simp only [List.mem_singleton] at h
              exact .inr (.inl (by simp [hk, h]))
          · rw [if_neg hk] at h
            exact .inl h
        · exact .inr (.inl (by simp [h]))
        · exact .inr (.inr ⟨t, ⟨us, by simp [hus], htu⟩, hc⟩)
      · rintro (h | h | ⟨t, ⟨us, hus, htu⟩, hc⟩)
        · left; split
          · exact List.mem_append_left _ h
          · exact h
        · rcases List.mem_cons.mp h with heq | h
          · injection heq with h1 h2
            left; rw [if_pos h1, h2]; simp
          · exact .inr (.inl h)
        · simp only [List.mem_cons, reduceCtorEq, false_or] at hus
          exact .inr (.inr ⟨t, ⟨us, hus, htu⟩, hc⟩)
    · rw [q2, push_clone]
      simp [Requested]
    · rintro (⟨us, hus, hu⟩ | ⟨x, hx⟩)
      · simp only [List.mem_cons, reduceCtorEq, false_or] at hus
        exact q3 (.inl ⟨us, hus, hu⟩)
      · simp only [List.mem_cons, reduceCtorEq, false_or] at hx
        exact q3 (.inr ⟨x, hx⟩)
  | .soaAttrBad y :: ds, a, a', h => by simp [process] at h
  | .foreign :: ds, a, a', h => by
    simp only [process] at h
    obtain ⟨q1, q2, q3⟩ := process_some ds a a' h
    refine ⟨fun K x => ?_, ?_, ?_⟩
    · rw [q1 K x]; simp [Requested]
    · rw [q2]; simp [Requested]
    · rintro (⟨us, hus, hu⟩ | ⟨x, hx⟩)
      · simp only [List.mem_cons, reduceCtorEq, false_or] at hus
        exact q3 (.inl ⟨us, hus, hu⟩)
      · simp only [List.mem_cons, reduceCtorEq, false_or] at hx
        exact q3 (.inr ⟨x, hx⟩)

theorem process_none : ∀ (ds : List Directive) (a : Attrs), process a ds = none → Bad ds
  | [], a, h => by simp [process] at h
  | .soaDerive ts :: ds, a, h => by
    simp only [process] at h
    cases hp : processDerive a ts with
    | none => exact .inl ⟨ts, by simp, (processDerive_none ts a).mp hp⟩
    | some a1 =>
      simp only [hp] at h
      rcases process_none ds a1 h with ⟨us, hus, hu⟩ | ⟨x, hx⟩
      · exact .inl ⟨us, by simp [hus], hu⟩
      · exact .inr ⟨x, by simp [hx]⟩
  | .soaAttr k y :: ds, a, h => by
    simp only [process] at h
    rcases process_none ds _ h with ⟨us, hus, hu⟩ | ⟨x, hx⟩
    · exact .inl ⟨us, by simp [hus], hu⟩
    · exact .inr ⟨x, by simp [hx]⟩
  | .soaAttrBad y :: ds, a, _ => .inr ⟨y, by simp⟩
  | .foreign :: ds, a, h => by
    simp only [process] at h
    rcases process_none ds _ h with ⟨us, hus, hu⟩ | ⟨x, hx⟩
    · exact .inl ⟨us, by simp [hus], hu⟩
    · exact .inr ⟨x, by simp [hx]⟩

/-! ## the property, for every attribute list -/

/-- **rejection**: the derive panics exactly when `Copy` is requested or a `soa_attr` names no kind -/
theorem rejected_iff (ds : List Directive) : process .empty ds = none ↔ Bad ds := by
  constructor
  · exact process_none ds .empty
  · intro hb
    cases h : process .empty ds with
    | none => rfl
    | some a => exact absurd hb (process_some ds .empty a h).2.2

/-- **landing**: what is on the list of kind `K` -/
theorem lands (ds : List Directive) (a : Attrs) (h : process .empty ds = some a) (K : Kind) (x : At) :
    x ∈ a.get K ↔ Directive.soaAttr K x ∈ ds ∨
      ∃ t, Requested ds t ∧ t ≠ .Default ∧ x = .derive [t] ∧ (K = .vec ∨ vecOnly t = false) := by
  rw [(process_some ds .empty a h).1 K x]
  cases K <;> simp [Attrs.empty, Attrs.get, contributes]

/-- **a requested trait** is derived by the vector, and by the six other types unless it is
    `Clone`, `Serialize` or `Deserialize` -/
theorem derive_lands (ds : List Directive) (a : Attrs) (h : process .empty ds = some a) (t : Tr)
    (hr : Requested ds t) (hd : t ≠ .Default) :
    .derive [t] ∈ a.get .vec ∧ (vecOnly t = false → ∀ K, .derive [t] ∈ a.get K) := by
  refine ⟨(lands ds a h .vec _).mpr (.inr ⟨t, hr, hd, rfl, .inl rfl⟩), fun hv K => ?_⟩
  exact (lands ds a h K _).mpr (.inr ⟨t, hr, hd, rfl, .inr hv⟩)

/-- **vector-only traits stay on the vector**: `Clone`, `Serialize`, `Deserialize` reach another
    type only through an explicit `soa_attr` for that type -/
theorem vec_only_stays (ds : List Directive) (a : Attrs) (h : process .empty ds = some a) (t : Tr)
    (hv : vecOnly t = true) (K : Kind) (hK : K ≠ .vec) (hm : At.derive [t] ∈ a.get K) :
    Directive.soaAttr K (.derive [t]) ∈ ds := by
  rcases (lands ds a h K _).mp hm with h1 | ⟨u, _, _, he, hk⟩
  · exact h1
  · injection he with he
    injection he with he
    subst he
    rcases hk with hk | hk
    · exact absurd hk hK
    · rw [hv] at hk; cases hk

/-- **`soa_attr(K, x)` lands on exactly `K`**: on `K`, and on another kind only if that kind
    asked for it too (by its own `soa_attr`, or `x` is a derive requested for all) -/
theorem attr_exact (ds : List Directive) (a : Attrs) (h : process .empty ds = some a) (K : Kind) (x : At)
    (hx : Directive.soaAttr K x ∈ ds) :
    x ∈ a.get K ∧ ∀ K', x ∈ a.get K' → K' ≠ K →
      Directive.soaAttr K' x ∈ ds ∨ ∃ t, Requested ds t ∧ x = .derive [t] := by
  refine ⟨(lands ds a h K x).mpr (.inl hx), fun K' hm _ => ?_⟩
  rcases (lands ds a h K' x).mp hm with h1 | ⟨t, hr, _, he, _⟩
  · exact .inl h1
  · exact .inr ⟨t, hr, he⟩

/-- **cloning API** (`to_vec`, `resize`, `extend_from_slice`) is generated iff `Clone` is requested -/
theorem clone_api_iff (ds : List Directive) (a : Attrs) (h : process .empty ds = some a) :
    a.deriveClone = true ↔ Requested ds .Clone := by
  rw [(process_some ds .empty a h).2.1]
  simp [Attrs.empty]

/-- vector, slice and mutable slice are always `Default`, whatever the input says -/
theorem default_always (a : Attrs) :
    derives (emitted a .vec) .Default = true ∧ derives (emitted a .slice) .Default = true ∧
    derives (emitted a .sliceMut) .Default = true := by
  simp [derives, emitted]

/-- slice, reference and both pointer bundles are always `Copy` and `Clone` -/
theorem copy_views (a : Attrs) (K : Kind) (hK : K = .slice ∨ K = .ref ∨ K = .ptr ∨ K = .ptrMut) :
    derives (emitted a K) .Copy = true ∧ derives (emitted a K) .Clone = true := by
  rcases hK with rfl | rfl | rfl | rfl <;> simp [derives, emitted]

theorem derives_append (l m : List At) (t : Tr) : derives (l ++ m) t = (derives l t || derives m t) := by
  simp [derives, List.any_append]

theorem derives_iff (l : List At) (t : Tr) : derives l t = true ↔ ∃ ts, At.derive ts ∈ l ∧ t ∈ ts := by
  simp only [derives, List.any_eq_true]
  constructor
  · rintro ⟨x, hx, h⟩
    cases x with
    | derive ts => exact ⟨ts, hx, by simpa using h⟩
    | other n => simp at h
  · rintro ⟨ts, hx, h⟩
    exact ⟨_, hx, by simpa using h⟩

/-- built-in derives of the generators -/
def builtin : Kind → Tr → Bool
  | .vec, .Default | .slice, .Default | .sliceMut, .Default => true
  | .slice, .Copy | .slice, .Clone | .ref, .Copy | .ref, .Clone => true
  | .ptr, .Copy | .ptr, .Clone | .ptrMut, .Copy | .ptrMut, .Clone => true
  | _, _ => false

/-- **the truth table**: trait `t` is derived on the generated type of kind `K` iff it is
    built in there or some attribute on `K`'s list derives it -/
theorem trait_table (a : Attrs) (K : Kind) (t : Tr) :
    derives (emitted a K) t = (builtin K t || derives (a.get K) t) := by
  cases K <;> simp only [emitted, derives_append, Attrs.get] <;>
    cases t <;> simp [derives, builtin]

/-- with only `soa_derive` attributes: the table in terms of the request -/
theorem trait_table_requested (ds : List Directive) (a : Attrs) (h : process .empty ds = some a)
    (hno : ∀ K x, Directive.soaAttr K x ∉ ds) (K : Kind) (t : Tr) :
    derives (emitted a K) t = true ↔
      builtin K t = true ∨ (Requested ds t ∧ t ≠ .Default ∧ (K = .vec ∨ vecOnly t = false)) := by
  rw [trait_table, Bool.or_eq_true, derives_iff]
  constructor
  · rintro (hb | ⟨ts, hm, ht⟩)
    · exact .inl hb
    · rcases (lands ds a h K _).mp hm with h1 | ⟨u, hr, hd, he, hk⟩
      · exact absurd h1 (hno K _)
      · injection he with he
        subst he
        simp only [List.mem_singleton] at ht
        subst ht
        exact .inr ⟨hr, hd, hk⟩
  · rintro (hb | ⟨hr, hd, hk⟩)
    · exact .inl hb
    · exact .inr ⟨[t], (lands ds a h K _).mpr (.inr ⟨t, hr, hd, rfl, hk⟩), by simp⟩

/-! ## equality and default -/

theorem zipWith_cons_inj {α : Type} : ∀ (xs xs' : List α) (ys ys' : List (List α)),
    xs.length = ys.length → xs'.length = ys'.length → xs.length = xs'.length →
    List.zipWith (· :: ·) xs ys = List.zipWith (· :: ·) xs' ys' → xs = xs' ∧ ys = ys'
  | [], [], [], [], _, _, _, _ => ⟨rfl, rfl⟩
  | x :: xs, x' :: xs', y :: ys, y' :: ys', h1, h2, h3, h => by
    simp only [List.zipWith_cons_cons, List.cons.injEq] at h
    have := zipWith_cons_inj xs xs' ys ys' (by simpa using h1) (by simpa using h2) (by simpa using h3) h.2
    exact ⟨by rw [h.1.1, this.1], by rw [h.1.2, this.2]⟩
  | [], _ :: _, _, _, _, _, h3, _ => by simp at h3
  | _ :: _, [], _, _, _, _, h3, _ => by simp at h3
  | [], [], _ :: _, _, h1, _, _, _ => by simp at h1
  | [], [], [], _ :: _, _, h2, _, _ => by simp at h2
  | _ :: _, _ :: _, [], _, h1, _, _, _ => by simp at h1
  | _ :: _, _ :: _, _ :: _, [], _, h2, _, _ => by simp at h2

/-- **derived equality is element-wise**: two lockstep containers of one shape are equal field
    by field (what `#[derive(PartialEq)]` on the generated vector / views compares) iff
    their rows are equal (what `Vec<T> == Vec<T>` compares) -/
theorem rows_inj (n : Nat) : ∀ (c d : Cols), c.lock n → d.lock n → c.same d → c.rows = d.rows → c = d
  | .leaf xs, .leaf ys, _, _, _, h => by
    simp only [Cols.rows] at h
    have : xs = ys := (List.map_inj_right (fun a b hab => by injection hab)).mp h
    rw [this]
  | .nest fs, .nest gs, hc, hd, hs, h => by
    rw [lock_nest] at hc hd
    rw [same_nest] at hs
    simp only [Cols.rows] at h
    have h' : Cols.rows.rowsL fs = Cols.rows.rowsL gs :=
      (List.map_inj_right (fun a b hab => by injection hab)).mp h
    rw [go fs gs hc.1 hc.2 hd.2 hs h']
  | .leaf _, .nest _, _, _, hs, _ => by simp [Cols.same] at hs
  | .nest _, .leaf _, _, _, hs, _ => by simp [Cols.same] at hs
where go : ∀ (fs gs : List Cols), fs ≠ [] → (∀ c ∈ fs, c.lock n) → (∀ c ∈ gs, c.lock n) → Cols.same.sameL fs gs →
    Cols.rows.rowsL fs = Cols.rows.rowsL gs → fs = gs
  | [], _, h, _, _, _, _ => absurd rfl h
  | [c], [d], _, hc, hd, hs, h => by
    simp only [Cols.rows.rowsL] at h
    have hr : c.rows = d.rows := (List.map_inj_right (fun a b hab => by injection hab)).mp h
    rw [sameL_cons] at hs
    rw [rows_inj n c d (hc c (by simp)) (hd d (by simp)) hs.1 hr]
  | [_], [], _, _, _, hs, _ => by simp [Cols.same.sameL] at hs
  | [_], _ :: _ :: _, _, _, _, hs, _ => by simp [Cols.same.sameL] at hs
  | _ :: _ :: _, [], _, _, _, hs, _ => by simp [Cols.same.sameL] at hs
  | _ :: _ :: _, [_], _, _, _, hs, _ => by simp [Cols.same.sameL] at hs
  | c :: c' :: cs, d :: d' :: ds, _, hc, hd, hs, h => by
    simp only [Cols.rows.rowsL] at h
    rw [sameL_cons] at hs
    have l1 := rows_len n c (hc c (by simp))
    have l2 := rows_len n d (hd d (by simp))
    have l3 := rows_len.rowsL_len n (c' :: cs) (by simp) (fun x hx => hc x (by simp at hx ⊢; right; exact hx))
    have l4 := rows_len.rowsL_len n (d' :: ds) (by simp) (fun x hx => hd x (by simp at hx ⊢; right; exact hx))
    have := zipWith_cons_inj c.rows d.rows _ _ (by omega) (by omega) (by omega) h
    rw [rows_inj n c d (hc c (by simp)) (hd d (by simp)) hs.1 this.1]
    rw [go (c' :: cs) (d' :: ds) (by simp) (fun x hx => hc x (by simp at hx ⊢; right; exact hx))
      (fun x hx => hd x (by simp at hx ⊢; right; exact hx)) hs.2 this.2]

theorem eq_elementwise (n : Nat) (c d : Cols) (hc : c.lock n) (hd : d.lock n) (hs : c.same d) :
    c = d ↔ c.rows = d.rows :=
  ⟨fun h => by rw [h], rows_inj n c d hc hd hs⟩

/-! non-vacuity -/
example : process .empty [.soaDerive [.Debug, .Clone, .Default], .soaAttr .sliceMut (.other 3)] =
    some ⟨true, [.derive [.Debug], .derive [.Clone]], [.derive [.Debug]], [.derive [.Debug], .other 3],
      [.derive [.Debug]], [.derive [.Debug]], [.derive [.Debug]], [.derive [.Debug]]⟩ := by decide
example : process .empty [.soaDerive [.Debug, .Copy]] = none := by decide

end Soa.C14
