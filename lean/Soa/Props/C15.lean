import Soa.Lemmas.Positions
import Soa.Props.C01
import Soa.Props.C03
import Soa.Model.Pinned
import Soa.Extracted.Bodies
/-!
# C15 — element references convert and replace faithfully

An element reference (`…Ref`, `…RefMut`) is one position of the parent (or, for
`value.as_ref()` / `as_mut()`, the single row of a one-row tree).
* `to_owned` / the four `From` impls read every field at that position and clone it, field
  by field: the owned value has exactly the ids of the referenced row, one clone per leaf in
  field order, and the source is untouched (`to_owned_row`);
* borrowing a value as a reference shows exactly the value's fields (`value_as_ref`);
* extending a vector from references appends the referenced rows (`extend_from_refs`);
* `RefMut::replace v` stores `v` in exactly that element, returns the old element, destroys
  nothing, and conserves ownership of both (`replace_row`, `replace_conserves`).
-/
namespace Soa.C15
open Soa View

/-- the model of `to_owned()` at position `i`: ids read per leaf (clones carry the id) -/
def toOwned (c : Cols) (i : Nat) : List Nat × Ev := (rowIds c i, { clones := rowIds c i })

/-- **to_owned / From**: the owned value equals the referenced element field by field, one
    clone per field in declaration order, nothing destroyed -/
theorem to_owned_row (c : Cols) (n i : Nat) (hc : c.lock n) (hi : i < n) :
    ∃ r, c.rows[i]? = some r ∧ (toOwned c i).1 = r.ids ∧ (toOwned c i).2.clones = r.ids ∧
      (toOwned c i).2.drops = [] := by
  obtain ⟨r, h1, h2⟩ := rowIds_eq c n i hc hi
  exact ⟨r, h1, h2, h2, rfl⟩

/-- **value.as_ref()**: the reference to a struct value (a one-row tree) shows exactly its fields -/
theorem value_as_ref (e : Cols) (he : e.lock 1) : ∃ r, e.rows = [r] ∧ rowIds e 0 = r.ids := by
  obtain ⟨r, h1, h2⟩ := rowIds_eq e 1 0 he (by omega)
  obtain ⟨r', h3, _⟩ := one_row e he
  rw [h3] at h1
  simp at h1
  subst h1
  exact ⟨r', h3, h2⟩

/-- **Extend<Ref>**: `extend(iter.map(to_owned))` appends the referenced rows, cloned -/
theorem extend_from_refs (c d : Cols) (n k : Nat) (hc : c.lock n) (hd : d.lock k) (hs : c.same d) :
    (Model.extendFromSlice c d).st.rows = c.rows ++ d.rows ∧ (Model.extendFromSlice c d).ev.clones = d.flat := by
  have h := C01.extendFromSlice hc hd hs
  exact ⟨by rw [h.st]; rfl, rfl⟩

/-- **RefMut::replace**: exactly that element is replaced, the old one is returned -/
theorem replace_row (dr : Bool) (c e : Cols) (n i : Nat) (hc : c.lock n) (he : e.lock 1) (hs : c.same e) (hi : i < n) :
    (Model.replace dr c i e).st.rows = c.rows.take i ++ e.rows ++ c.rows.drop (i + 1) ∧
    (Model.replace dr c i e).ret.map Cols.rows = some ((c.rows.drop i).take 1) := by
  have h := C01.replace dr i hc he hs
  have hlen := rows_len n c hc
  have hspec : Spec.replace dr c.rows i e.rows =
      { st := c.rows.take i ++ e.rows ++ c.rows.drop (i + 1), ret := some ((c.rows.drop i).take 1) } := by
    simp [Spec.replace, Spec.std, replaceOp, PolyOp.ofTotal_run, hlen, hi]
  exact ⟨by rw [h.st, hspec], by rw [h.ret, hspec]⟩

/-- exactly-once ownership of both the stored and the returned value -/
theorem replace_conserves (dr : Bool) (c e : Cols) (n i : Nat) (hc : c.lock n) (he : e.lock 1) (hs : c.same e) :
    C03.Conserves c e (Model.replace dr c i e) :=
  C03.replace dr i hc he hs

/-! non-vacuity -/
example : (toOwned C01.exC 1).1 = [16, 17, 18, 19] := by decide

/-- **text pin**: the generated functions this property's hand-written model describes have, in
    /repo today, exactly the text the model was written from (`Soa/Model/Pinned.lean`) -/
theorem bodies_pinned : Soa.Extracted.bodies_C15 = Soa.Model.pinned_C15 := rfl

theorem bodies_pinned_nonempty : Soa.Model.pinned_C15.length ≥ 4 := by decide

end Soa.C15
