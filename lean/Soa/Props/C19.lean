import Soa.Model.IndexSafe
import Soa.Extracted.Unsafe
import Soa.Props.C03
/-!
# C19 — the safe API stays memory-safe when field arrays are desynchronised

The field arrays are public, so safe code can build a container whose arrays differ in
length.  Nothing below assumes lockstep.

1. **Where can the safe API be unsafe at all?**  Only where a safe generated function
   contains an `unsafe` block.  The translator lists those sites from the generator sources
   of this run; `unsafe_sites` pins the list: the four `ptr::read` move-in templates
   (`push`, `insert`, `replace`, `RefMut::replace`) and nothing else — in particular nothing
   in the index layer any more (fix aa7ec8d).  Every other safe method is safe Rust calling
   bounds-checked std methods and zipping iterators (which stop at the shortest field): it
   can panic, but cannot touch memory beyond a field array — that part rests on rustc's
   safety guarantee (trusted), and is what the desync correspondence exercises.
2. **Accessors**: for every tree of field lengths, every index value, both profiles, every
   safe accessor (`get`/`get_mut`/`index`/`index_mut`, 7 forms, 4 container kinds) of the index
   layer *extracted from /repo* never performs an unchecked out-of-bounds access
   (`accessors_never_ub`: a static analysis of the extracted terms, `analysis_accepts`, plus
   its soundness proof `eval_not_ub`).  The `unsafe fn get_unchecked*` entries are, rightly,
   not accepted (`unchecked_is_rejected`).
3. **Move-in templates**: with `ManuallyDrop` (fix b19a205) a per-field call that panics
   half-way — possible only on a desynchronised container — cannot make a value owned twice:
   on **every** pair of trees the ids left in the container and the ids not moved in are
   together a permutation of what there was (`move_in_no_duplication`), so with distinct ids
   nothing is in both (`move_in_disjoint`).  Values not moved in are leaked or dropped once
   by std, never twice.  `remove`/`swap_remove`/`pop`/`split_off`/`truncate`/`clear`/`append`
   conserve ownership on every tree (C03).
-/
namespace Soa.C19
open Soa Soa.IdxIR Soa.Extracted

/-- the only safe generated functions containing `unsafe` code -/
theorem unsafe_sites :
    unsafeSites = ["PVec::push", "PVec::insert", "PVec::replace", "PRefMut<'a>::replace"] := by decide

/-- the accessors callable from safe code -/
def safeMethod : M → Bool
  | .get | .getMut | .index | .indexMut => true
  | .getUnchecked | .getUncheckedMut => false

/-- the analysis accepts every safe accessor of the extracted table -/
theorem analysis_accepts (k : Kind) (form : Form) (m : M) (hm : safeMethod m = true) (b : B)
    (hb : table k form m = some b) : safeB table 8 k form b = true := by
  cases k <;> cases form <;> cases m <;> simp [safeMethod] at hm <;>
    (simp only [table] at hb; cases hb; try decide)

/-- **C19, accessors**: no safe accessor ever performs an unchecked out-of-bounds access, on
    any (also desynchronised) container, for any index value, in any profile -/
theorem accessors_never_ub (p : Prof) (t : LT) (k : Kind) (iv : IV) (m : M) (hm : safeMethod m = true) :
    runLT p t k iv m ≠ .err .ub := by
  unfold runLT
  cases hb : table k iv.form m with
  | none => simp
  | some b => exact eval_not_ub table p t 8 k iv b (analysis_accepts k iv.form m hm b hb)

/-- the analysis is not vacuous: it rejects the `unsafe fn` entries, which do use unchecked access -/
theorem unchecked_is_rejected : safeB table 8 .slice .pos slice_pos_getUnchecked = false := by decide

/-- and those entries really are undefined behaviour on a desynchronised container
    (second field shorter) — which is why they are `unsafe fn` -/
example : runLT .release (.nest [.leaf 2, .leaf 1]) .slice { form := .pos, pos := 1 } .getUnchecked = .err .ub := by
  decide

/-- the same position through the safe `get`: `None` (one field is too short), not UB -/
example : runLT .release (.nest [.leaf 2, .leaf 1]) .slice { form := .pos, pos := 1 } .get = .ok .none_ := by
  decide

/-- …and through the safe `index`: a panic -/
example : runLT .release (.nest [.leaf 2, .leaf 1]) .slice { form := .pos, pos := 1 } .index = .err .panic := by
  decide

/-- **C19, move-in templates** (`push`/`insert`/`replace`): on every pair of same-shaped trees,
    lockstep or not, also when a field's std call panics half-way, the values left in the
    container and the values not moved in are together exactly what there was -/
theorem move_in_no_duplication (op : PolyOp) (hl : op.Linear) (c e : Cols) (hs : c.same e) :
    ((c.apply2 op e).st.flat ++ (c.apply2 op e).out.flat).Perm (c.flat ++ e.flat) :=
  apply2_conserve op hl c e hs

/-- with distinct values: nothing is both in the container and still with the caller, so
    nothing can be destroyed twice -/
theorem move_in_disjoint (op : PolyOp) (hl : op.Linear) (c e : Cols) (hs : c.same e)
    (hd : (c.flat ++ e.flat).Nodup) : ((c.apply2 op e).st.flat ++ (c.apply2 op e).out.flat).Nodup :=
  (List.Perm.nodup_iff (move_in_no_duplication op hl c e hs)).mpr hd

/-- the three templates are linear -/
theorem templates_linear (i : Nat) : appendOp.Linear ∧ (insertOp i).Linear ∧ (replaceOp i).Linear :=
  ⟨append_linear, insert_linear i, replace_linear i⟩

/-- witness: `insert(1, x)` on a container whose second field array is empty: the first
    field accepts, the second panics; `x.a` is now in the container, `x.b` stayed outside —
    nothing is duplicated -/
example : ((Cols.nest [.leaf [8, 16], .leaf []]).apply2 (insertOp 1) (.nest [.leaf [24], .leaf [25]])).panicked = true ∧
    ((Cols.nest [.leaf [8, 16], .leaf []]).apply2 (insertOp 1) (.nest [.leaf [24], .leaf [25]])).st.leaves = [[8, 24, 16], []] ∧
    ((Cols.nest [.leaf [8, 16], .leaf []]).apply2 (insertOp 1) (.nest [.leaf [24], .leaf [25]])).out.leaves = [[], [25]] := by
  decide

end Soa.C19
