import Soa.Lemmas.Ledger
import Soa.Props.C01
import Soa.Lemmas.Transpose
import Soa.Lemmas.RetainConserve
/-!
# C03 — every field value is owned exactly once

One call at a time: what is in the container afterwards, what was handed back to the
caller and what was destroyed (including by unwinding after a panic) is, as a multiset,
exactly what was in the container before plus what was moved in.  With distinct ids this
says: never two owners, never destroyed twice, never lost (`exactly_once`).

`remove`, `swap_remove`, `pop`, `split_off`, `truncate`, `clear`, `append`, `retain` and the
destruction of the vector conserve ownership on **every** tree, also desynchronised ones
and also when a field's std call panics half-way.  `push`, `insert`, `replace` (the
`ptr::read` + `mem::forget` templates) need lockstep: C19 records what happens without it.
The push loop (`extend`, `FromIterator`) and the clone API built on it since /repo 72750cf
(`resize`, `extend_from_slice`; `Extend<Ref>` always was) conserve ownership too: the
container afterwards owns what it owned plus the elements pushed — the value moved in and
the clones created, each clone counted as a new value (`extend`, `resize_grow`,
`resize_shrink`, `extendFromSlice`).
-/
namespace Soa.C03
open Soa

/-- field values handed back to the caller by a call -/
def held (o : Model.Out) : List Nat :=
  (o.ret.map Cols.flat).getD [] ++ (o.other.map Cols.flat).getD []

/-- exactly-once ownership across one call -/
def Conserves (c args : Cols) (o : Model.Out) : Prop :=
  (o.st.flat ++ held o ++ o.ev.drops).Perm (c.flat ++ args.flat)

theorem swapRemove_linear (i : Nat) : (swapRemoveOp i).Linear :=
  PolyOp.ofTotal_linear (by
    intro α xs as h
    simp only [Bool.and_eq_true, decide_eq_true_eq, beq_iff_eq] at h
    have : as = [] := List.eq_nil_of_length_eq_zero h.2
    subst this
    simp only [List.take_append_drop, List.append_nil]
    exact swapList_perm xs _ _)

/-- a per-field method without argument, built as the four templates are -/
theorem noArg_conserves (op : PolyOp) (hl : op.Linear) (c : Cols) :
    Conserves c (c.const [])
      (if (c.apply2 op (c.const [])).panicked
        then { st := (c.apply2 op (c.const [])).st, panicked := true, ev := dropFields (c.apply2 op (c.const [])).out }
        else { st := (c.apply2 op (c.const [])).st, ret := some (c.apply2 op (c.const [])).out }) := by
  have h := apply2_conserve op hl c (c.const []) (same_const [] c)
  unfold Conserves held
  split <;> simpa [dropFields] using h

theorem remove (c : Cols) (i : Nat) : Conserves c (c.const []) (Model.remove c i) :=
  noArg_conserves (removeOp i) (remove_linear i) c

theorem swapRemove (c : Cols) (i : Nat) : Conserves c (c.const []) (Model.swapRemove c i) :=
  noArg_conserves (swapRemoveOp i) (swapRemove_linear i) c

theorem splitOff (c : Cols) (i : Nat) : Conserves c (c.const []) (Model.splitOff c i) :=
  noArg_conserves (splitOffOp i) (splitOff_linear i) c

theorem pop (c : Cols) : Conserves c (c.const []) (Model.pop c) := by
  unfold Model.pop
  split
  · simp [Conserves, held, flat_const_nil]
  · exact noArg_conserves popOp pop_linear c

theorem append (c d : Cols) (hs : c.same d) : Conserves c d (Model.append c d) := by
  have h := apply2_conserve appendOp append_linear c d hs
  simpa [Conserves, held, Model.append] using h

/-- the pop loop of `truncate` / `clear` / `Drop for Vec`, on any tree -/
theorem truncateLoop (dr : Bool) (k : Nat) : ∀ (fuel : Nat) (c : Cols) (ev : Ev),
    ((Model.truncateLoop dr k fuel c ev).st.flat ++ (Model.truncateLoop dr k fuel c ev).ev.drops).Perm
      (c.flat ++ ev.drops) ∧ (Model.truncateLoop dr k fuel c ev).ret = none ∧
      (Model.truncateLoop dr k fuel c ev).other = none
  | 0, c, ev => by simp [Model.truncateLoop]
  | fuel + 1, c, ev => by
    simp only [Model.truncateLoop]
    by_cases hk : c.firstLen > k
    · simp only [hk, ↓reduceIte]
      have hcons := apply2_conserve popOp pop_linear c (c.const []) (same_const [] c)
      rw [flat_const_nil, List.append_nil] at hcons
      rcases pop_cases c with h | ⟨hp, h⟩ | ⟨hp, h⟩
      · rw [h]; simp
      · rw [h]
        simp only [↓reduceIte, and_self, and_true]
        show ((c.apply2 popOp (c.const [])).st.flat ++ (ev.drops ++ (c.apply2 popOp (c.const [])).out.flat)).Perm _
        have := List.Perm.append_right ev.drops hcons
        refine List.Perm.trans ?_ this
        simp only [List.append_assoc]
        exact List.Perm.append_left _ List.perm_append_comm
      · rw [h]
        simp only [Bool.false_eq_true, ↓reduceIte]
        have ih := truncateLoop dr k fuel (c.apply2 popOp (c.const [])).st
          (ev ++ dropWhole dr (c.apply2 popOp (c.const [])).out)
        refine ⟨ih.1.trans ?_, ih.2⟩
        show ((c.apply2 popOp (c.const [])).st.flat ++ (ev.drops ++ (c.apply2 popOp (c.const [])).out.flat)).Perm _
        have := List.Perm.append_right ev.drops hcons
        refine List.Perm.trans ?_ this
        simp only [List.append_assoc]
        exact List.Perm.append_left _ List.perm_append_comm
    · simp [hk]

theorem truncate (dr : Bool) (c : Cols) (k : Nat) : Conserves c (c.const []) (Model.truncate dr c k) := by
  have h := truncateLoop dr k (c.firstLen - k + 1) c {}
  unfold Conserves held Model.truncate
  rw [h.2.1, h.2.2]
  simpa [flat_const_nil] using h.1

theorem clear (dr : Bool) (c : Cols) : Conserves c (c.const []) (Model.clear dr c) := truncate dr c 0

/-- destroying the vector destroys every field value it holds, once -/
theorem dropVec (dr : Bool) (c : Cols) : Conserves c (c.const []) (Model.dropVec dr c) := truncate dr c 0

theorem dropVec_all (dr : Bool) (c : Cols) (n : Nat) (hc : c.lock n) :
    (Model.dropVec dr c).ev.drops.Perm c.flat := by
  have h := dropVec dr c
  have hr := (C01.dropVec dr hc)
  obtain ⟨m, hm⟩ := hr.lock
  have h0 : m = 0 := by
    have := rows_len m _ hm
    rw [hr.st] at this
    simp [Spec.dropVec, Spec.truncate] at this
    omega
  subst h0
  have hret : (Model.dropVec dr c).ret = none := (truncateLoop dr 0 _ c {}).2.1
  have hoth : (Model.dropVec dr c).other = none := (truncateLoop dr 0 _ c {}).2.2
  simpa [Conserves, held, flat_nil_of_lock0 _ hm, flat_const_nil, hret, hoth] using h

variable {c e : Cols} {n : Nat}

theorem push (hc : c.lock n) (he : e.lock 1) (hs : c.same e) : Conserves c e (Model.push c e) := by
  have h := apply2_conserve appendOp append_linear c e hs
  cases perField appendOp c e n 1 hc he hs with
  | ok s hrun _ _ _ hout _ hlo _ _ =>
    simp only [appendOp, PolyOp.ofTotal_run, ↓reduceIte, Option.some.injEq] at hrun
    subst hrun
    have hlo' := lock_of_rows_len hlo (k := 0) (by rw [hout]; rfl)
    rw [flat_nil_of_lock0 _ hlo', List.append_nil] at h
    simpa [Conserves, held, Model.push] using h
  | fail _ hfail _ _ _ => simp [appendOp] at hfail

theorem insert (dr : Bool) (i : Nat) (hc : c.lock n) (he : e.lock 1) (hs : c.same e) :
    Conserves c e (Model.insert dr c i e) := by
  have h := apply2_conserve (insertOp i) (insert_linear i) c e hs
  unfold Model.insert
  rw [firstLen_lock c n hc]
  cases perField (insertOp i) c e n 1 hc he hs with
  | ok s hrun hfail hp _ hout _ hlo _ _ =>
    have hi : ¬ i > n := by simpa [insertOp] using hfail
    have hi' : i ≤ c.rows.length := by rw [rows_len n c hc]; omega
    simp only [insertOp, PolyOp.ofTotal_run, hi', decide_true, ↓reduceIte, Option.some.injEq] at hrun
    subst hrun
    have hlo' := lock_of_rows_len hlo (k := 0) (by rw [hout]; rfl)
    rw [flat_nil_of_lock0 _ hlo', List.append_nil] at h
    simpa [Conserves, held, hi, hp] using h
  | fail _ hfail _ _ _ =>
    have hi : i > n := by simpa [insertOp] using hfail
    simp [Conserves, held, hi, dropWhole]

theorem replace (dr : Bool) (i : Nat) (hc : c.lock n) (he : e.lock 1) (hs : c.same e) :
    Conserves c e (Model.replace dr c i e) := by
  have h := apply2_conserve (replaceOp i) (replace_linear i) c e hs
  unfold Model.replace
  rw [firstLen_lock c n hc]
  cases perField (replaceOp i) c e n 1 hc he hs with
  | ok s _ hfail hp _ _ _ _ _ _ =>
    have hi : ¬ i ≥ n := by simpa [replaceOp] using hfail
    simpa [Conserves, held, hi, hp] using h
  | fail _ hfail _ _ _ =>
    have hi : i ≥ n := by simpa [replaceOp] using hfail
    simp [Conserves, held, hi, dropWhole]

/-- **the push loop** (`extend`, `FromIterator`): afterwards the container owns exactly what it
    owned plus the elements pushed; nothing is destroyed -/
theorem extend : ∀ (es : List Cols) (c : Cols) (n : Nat), c.lock n → (∀ e ∈ es, e.lock 1 ∧ c.same e) →
    (Model.extend c es).st.flat.Perm (c.flat ++ (es.map Cols.flat).flatten) ∧
    (Model.extend c es).ev.drops = [] ∧ held (Model.extend c es) = []
  | [], c, n, _, _ => by simp [Model.extend, held]
  | e :: es, c, n, hc, he => by
    have hp := C01.push hc (he e (by simp)).1 (he e (by simp)).2
    have hcons := push hc (he e (by simp)).1 (he e (by simp)).2
    have hpp : (Model.push c e).panicked = false := by
      rw [hp.panicked]; simp [Spec.push, Spec.std, appendOp]
    simp only [Model.extend, hpp, Bool.false_eq_true, ↓reduceIte]
    obtain ⟨m, hm⟩ := hp.lock
    have ih := extend es (Model.push c e).st m hm (fun x hx =>
      ⟨(he x (by simp [hx])).1, same_trans _ _ _ (same_symm _ _ hp.same) (he x (by simp [hx])).2⟩)
    have h1 : (Model.push c e).st.flat.Perm (c.flat ++ e.flat) := by
      simpa [Conserves, held, Model.push] using hcons
    refine ⟨?_, ih.2.1, ih.2.2⟩
    refine ih.1.trans ?_
    simp only [List.map_cons, List.flatten_cons, ← List.append_assoc]
    exact List.Perm.append_right _ h1

/-- **growing `resize`**: the container owns what it owned, the value moved in and its
    `new_len - len - 1` clones — as many new values as clone events -/
theorem resize_grow (dr : Bool) (k : Nat) (hc : c.lock n) (he : e.lock 1) (hs : c.same e) (hk : k > n) :
    (Model.resize dr c k e).st.flat.Perm (c.flat ++ e.flat ++ (Model.resize dr c k e).ev.clones) ∧
    (Model.resize dr c k e).ev.drops = [] := by
  have h := extend (List.replicate (k - n) e) c n hc (fun x hx => by
    rw [List.eq_of_mem_replicate hx]; exact ⟨he, hs⟩)
  unfold Model.resize
  rw [firstLen_lock c n hc]
  simp only [hk, ↓reduceIte]
  refine ⟨h.1.trans ?_, trivial⟩
  obtain ⟨m, hm⟩ : ∃ m, k - n = m + 1 := ⟨k - n - 1, by omega⟩
  rw [hm, List.replicate_succ]
  simp [List.append_assoc, hm]

/-- **shrinking `resize`**: `truncate`, then the value is destroyed -/
theorem resize_shrink (dr : Bool) (k : Nat) (hc : c.lock n) (hk : k ≤ n) :
    Conserves c e (Model.resize dr c k e) := by
  have h := truncate dr c k
  unfold Model.resize
  rw [firstLen_lock c n hc]
  have hk' : ¬ k > n := by omega
  simp only [hk', ↓reduceIte]
  unfold Conserves held at h ⊢
  simp only [flat_const_nil, List.append_nil] at h
  have hr : (Model.truncate dr c k).ret = none ∧ (Model.truncate dr c k).other = none := by
    unfold Model.truncate
    exact (truncateLoop dr k _ c {}).2
  simp only [hr.1, hr.2, Option.map_none, Option.getD_none, List.append_nil] at h ⊢
  have : ((Model.truncate dr c k).ev ++ dropWhole dr e).drops = (Model.truncate dr c k).ev.drops ++ e.flat := rfl
  rw [this, ← List.append_assoc]
  exact List.Perm.append_right _ h

theorem rows_ids_range (R : List Elem) :
    ((List.range R.length).map (fun i => ((R.drop i).take 1).map Elem.ids)).flatten.flatten = (R.map Elem.ids).flatten := by
  have := C01.flatten_rows_range R
  conv => rhs; rw [← this]
  simp [List.map_flatten, List.map_map, Function.comp_def]

/-- **`extend_from_slice`**: the container owns what it owned plus one clone of every value of the source -/
theorem extendFromSlice {d : Cols} {k : Nat} (hc : c.lock n) (hd : d.lock k) (hs : c.same d) :
    (Model.extendFromSlice c d).st.flat.Perm (c.flat ++ (Model.extendFromSlice c d).ev.clones) ∧
    (Model.extendFromSlice c d).ev.drops = [] := by
  have hrows : ∀ x ∈ (List.range k).map (Model.rowCols d), x.lock 1 ∧ c.same x := by
    intro x hx
    obtain ⟨i, hi, rfl⟩ := List.mem_map.mp hx
    have := C01.rowCols_spec hd i (List.mem_range.mp hi)
    exact ⟨this.1, same_trans _ _ _ hs this.2.1⟩
  have h := extend ((List.range k).map (Model.rowCols d)) c n hc hrows
  unfold Model.extendFromSlice
  rw [firstLen_lock d k hd]
  refine ⟨h.1.trans (List.Perm.append_left _ ?_), rfl⟩
  -- the values pushed are, row by row, the values of the source
  have hl := rows_len k d hd
  have hrow : ∀ i ∈ List.range k, (Model.rowCols d i).flat = (((d.rows.drop i).take 1).map Elem.ids).flatten := by
    intro i hi
    have hs := C01.rowCols_spec hd i (List.mem_range.mp hi)
    obtain ⟨r, hr1, hr2⟩ := one_row _ hs.1
    rw [hr2, ← hs.2.2, hr1]; simp
  have : ((List.range k).map (Model.rowCols d)).map Cols.flat =
      (List.range k).map (fun i => (((d.rows.drop i).take 1).map Elem.ids).flatten) := by
    rw [List.map_map]
    exact List.map_congr_left hrow
  rw [this]
  have h2 := rows_ids_range d.rows
  rw [hl] at h2
  have h3 : ((List.range k).map (fun i => (((d.rows.drop i).take 1).map Elem.ids).flatten)).flatten =
      ((List.range k).map (fun i => ((d.rows.drop i).take 1).map Elem.ids)).flatten.flatten := by
    simp [List.flatten_flatten, List.map_map, Function.comp_def]
  rw [h3, h2]
  show ((d.rows.map Elem.ids).flatten).Perm d.flat
  rw [flat_eq_ids]
  exact rows_ids_perm k d hd

/-- **`retain` / `retain_mut`**, on every tree, for every sequence of answers of the callback, every
    call at which it panics (`boom`) and every write it makes to the element it is shown (`touch`;
    `retain_mut` only — a write destroys the old field value and stores one the callback created,
    `made`): afterwards the container and the destroyed values are, as a multiset, what the
    container held plus what the callback created. -/
theorem retain (dr : Bool) (c : Cols) (keep : Nat → Bool) (boom : Option Nat) (touch : Nat → Nat → Option (Nat × Nat)) :
    ((Model.retain dr c keep boom touch).st.flat ++ held (Model.retain dr c keep boom touch) ++
      (Model.retain dr c keep boom touch).ev.drops).Perm (c.flat ++ (Model.retain dr c keep boom touch).made) := by
  obtain ⟨mk, dk, hm, hd, hp⟩ := Lp.retainLoop_conserve keep boom touch c.firstLen 0 0 c [] {} []
  unfold Model.retain
  dsimp only
  generalize Model.retainLoop keep boom touch c.firstLen 0 0 c [] {} [] = r at hm hd hp
  simp only [List.nil_append] at hm
  have hd' : r.ev.drops = dk := by simpa using hd
  by_cases hb : r.boom = true
  · simp only [hb, ↓reduceIte, held, Option.map_none, Option.getD_none, List.append_nil, hm, hd']
    exact hp
  · simp only [hb, Bool.false_eq_true, ↓reduceIte]
    by_cases hdel : r.del > 0
    · simp only [hdel, ↓reduceIte]
      have ht := truncate dr r.c (c.firstLen - r.del)
      unfold Conserves at ht
      rw [flat_const_nil, List.append_nil] at ht
      generalize Model.truncate dr r.c (c.firstLen - r.del) = t at ht
      simp only [held, hm] at ht ⊢
      rw [Lp.ev_drops_append, hd']
      -- t.st ++ held t ++ (dk ++ t.drops) ~ (t.st ++ held t ++ t.drops) ++ dk ~ r.c ++ dk ~ c ++ mk
      refine List.Perm.trans ?_ hp
      refine List.Perm.trans ?_ (List.Perm.append_right dk ht)
      simp only [List.append_assoc]
      refine List.Perm.append_left _ (List.Perm.append_left _ ?_)
      refine List.Perm.append_left _ ?_
      exact List.perm_append_comm
    · simp only [hdel, ↓reduceIte, held, Option.map_none, Option.getD_none, List.append_nil, hm, hd']
      exact hp

/-- with distinct ids: nothing has two owners, is destroyed twice, or is both returned and
    destroyed — the three lists on the left are pairwise disjoint and duplicate-free -/
theorem exactly_once {args : Cols} {o : Model.Out} (h : Conserves c args o)
    (hd : (c.flat ++ args.flat).Nodup) : (o.st.flat ++ held o ++ o.ev.drops).Nodup :=
  (List.Perm.nodup_iff h).mpr hd

/-! non-vacuity -/
example : Conserves C01.exC C01.exE (Model.insert false C01.exC 1 C01.exE) :=
  insert false 1 (n := 2) (by simp [C01.exC]) (by simp [C01.exE])
    (by simp [C01.exC, C01.exE, Cols.same, Cols.same.sameL])
example : (C01.exC.flat ++ C01.exE.flat).Nodup := by decide
/- `retain_mut` on a 2-element, 4-leaf container: the first element is rejected, the callback overwrites leaf 0
   of the second one with a value it created (99): 16 and the rejected element are destroyed, 99 is stored -/
example : (Model.retain false C01.exC (fun i => i != 0) none (fun k _ => if k = 1 then some (0, 99) else none)).made = [99] ∧
    (Model.retain false C01.exC (fun i => i != 0) none (fun k _ => if k = 1 then some (0, 99) else none)).ev.drops = [16, 8, 9, 10, 11] ∧
    (Model.retain false C01.exC (fun i => i != 0) none (fun k _ => if k = 1 then some (0, 99) else none)).st.flat = [99, 17, 18, 19] := by
  decide

end Soa.C03
