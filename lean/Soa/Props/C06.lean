import Soa.Extracted.Skel
import Soa.Lemmas.Positions
import Batteries.Data.List.Perm
import Soa.Model.Pinned
import Soa.Extracted.Bodies
/-!
# C06 — iterators match std slice iterators under any consumption pattern

The generated iterators zip one `slice::Iter`/`IterMut` per field (a nested field
contributes its own generated iterator); on a lockstep container every component holds the
same window of positions not yet yielded.  `next` takes the front position in every
field, `next_back` the back position (`View.next`, `View.nextBack`).

For every window, and every finite sequence of front/back steps — including steps past
exhaustion: the positions yielded are those of double-ended iteration over the list of
positions (`run_positions`), hence the elements yielded are those std's slice iterator
yields on the rows (`run_rows`: same function, mapped); the exact length and the size hint
after every step are the number of positions left (`len_after`); no position is yielded
twice, so a mutable iterator hands out each element at most once (`yields_nodup`), and
after `l` successful steps every position of the window has been yielded exactly once
(`yields_all`).
-/
namespace Soa.C06
open Soa View

inductive Step | F | B
  deriving DecidableEq, Repr

/-- one step of the generated iterator on its window -/
def stepW (w : Win) : Step → Option Nat × Win
  | .F => View.next w
  | .B => View.nextBack w

/-- run a step sequence: what each step yields, and the final window -/
def runW : List Step → Win → List (Option Nat) × Win
  | [], w => ([], w)
  | s :: ss, w => let r := stepW w s; let rr := runW ss r.2; (r.1 :: rr.1, rr.2)

/-- double-ended iteration over a list (what `std::slice::Iter` does on `&[T]`) -/
def stepL {α : Type} (xs : List α) : Step → Option α × List α
  | .F => (xs.head?, xs.tail)
  | .B => (xs.getLast?, xs.dropLast)

def runL {α : Type} : List Step → List α → List (Option α) × List α
  | [], xs => ([], xs)
  | s :: ss, xs => let r := stepL xs s; let rr := runL ss r.2; (r.1 :: rr.1, rr.2)

theorem positions_nil (w : Win) (h : w.l = 0) : w.positions = [] := by simp [Win.positions, h]

theorem step_positions (w : Win) (s : Step) :
    (stepW w s).1 = (stepL w.positions s).1 ∧ (stepW w s).2.positions = (stepL w.positions s).2 := by
  cases s with
  | F =>
    simp only [stepW, stepL, View.next]
    by_cases h : w.l = 0
    · simp [h, positions_nil w h]
    · obtain ⟨m, hm⟩ : ∃ m, w.l = m + 1 := ⟨w.l - 1, by omega⟩
      simp [h, Win.positions, hm, List.range'_succ]
  | B =>
    simp only [stepW, stepL, View.nextBack]
    by_cases h : w.l = 0
    · simp [h, positions_nil w h]
    · obtain ⟨m, hm⟩ : ∃ m, w.l = m + 1 := ⟨w.l - 1, by omega⟩
      simp only [h, ↓reduceIte, Win.positions, hm, Nat.add_sub_cancel]
      rw [List.range'_concat]
      simp

/-- **yields = double-ended iteration over the positions**, for every step sequence -/
theorem run_positions : ∀ (ss : List Step) (w : Win),
    (runW ss w).1 = (runL ss w.positions).1 ∧ (runW ss w).2.positions = (runL ss w.positions).2
  | [], w => ⟨rfl, rfl⟩
  | s :: ss, w => by
    have h := step_positions w s
    have ih := run_positions ss (stepW w s).2
    simp only [runW, runL]
    rw [h.2] at ih
    exact ⟨by rw [h.1, ih.1], ih.2⟩

theorem stepL_map {α β : Type} (f : α → β) (xs : List α) (s : Step) :
    (stepL (xs.map f) s).1 = (stepL xs s).1.map f ∧ (stepL (xs.map f) s).2 = (stepL xs s).2.map f := by
  cases s <;> simp [stepL, List.head?_map, List.getLast?_map, List.map_dropLast]

/-- iteration commutes with reading: the elements yielded are the rows at the yielded
    positions, i.e. what std's iterator yields on the slice of rows -/
theorem runL_map {α β : Type} (f : α → β) : ∀ (ss : List Step) (xs : List α),
    (runL ss (xs.map f)).1 = (runL ss xs).1.map (Option.map f) ∧ (runL ss (xs.map f)).2 = (runL ss xs).2.map f
  | [], xs => ⟨rfl, rfl⟩
  | s :: ss, xs => by
    have h := stepL_map f xs s
    have ih := runL_map f ss (stepL xs s).2
    simp only [runL]
    rw [h.2]
    exact ⟨by rw [h.1, ih.1]; rfl, ih.2⟩

/-- **elements**: for a window inside the parent, the rows at the yielded positions are
    exactly what double-ended iteration over the visible rows yields -/
theorem run_rows {α : Type} (R : List α) (d : α) (w : Win) (hw : w.s + w.l ≤ R.length) (ss : List Step) :
    (runW ss w).1.map (Option.map (R.getD · d)) = (runL ss ((R.drop w.s).take w.l)).1 := by
  rw [(run_positions ss w).1, ← (runL_map (R.getD · d) ss w.positions).1]
  congr 2
  apply List.ext_getElem
  · simp [Win.positions]; omega
  · intro i h1 h2
    simp [Win.positions] at h1 h2 ⊢
    have : w.s + i < R.length := by omega
    simp [List.getD_eq_getElem?_getD, List.getElem?_eq_getElem this]

/-- steps past exhaustion keep answering `None` and a length of 0 -/
theorem exhausted_stays (w : Win) (h : w.l = 0) (s : Step) : stepW w s = (none, w) := by
  cases s <;> simp [stepW, View.next, View.nextBack, h]

theorem step_len (w : Win) (s : Step) : (stepW w s).2.l = w.l - 1 := by
  cases s <;> simp only [stepW, View.next, View.nextBack] <;> split <;> simp_all

/-- **exact length / size hint**: after the steps the window holds the positions not yet
    yielded; its length is what `len()` and `size_hint()` report -/
theorem len_after : ∀ (ss : List Step) (w : Win),
    (runW ss w).2.l = w.l - ((runW ss w).1.filterMap id).length
  | [], w => by simp [runW]
  | s :: ss, w => by
    have ih := len_after ss (stepW w s).2
    simp only [runW]
    rw [ih, step_len]
    by_cases h : w.l = 0
    · rw [exhausted_stays w h s]; simp [h]
    · have : ∃ p, (stepW w s).1 = some p := by
        cases s <;> simp [stepW, View.next, View.nextBack, h]
      obtain ⟨p, hp⟩ := this
      simp only [hp, List.filterMap_cons, id_eq, List.length_cons]
      omega

/-- a step yields a position of the window that is no longer in the remaining window -/
theorem step_fresh (w : Win) (s : Step) (p : Nat) (h : (stepW w s).1 = some p) :
    p ∈ w.positions ∧ p ∉ (stepW w s).2.positions ∧ ∀ q ∈ (stepW w s).2.positions, q ∈ w.positions := by
  have hl : w.l ≠ 0 := by
    intro h0; rw [exhausted_stays w h0 s] at h; simp at h
  cases s with
  | F =>
    simp only [stepW, View.next, hl, ↓reduceIte, Option.some.injEq] at h ⊢
    subst h
    simp only [Win.positions, List.mem_range'_1]
    exact ⟨by omega, by omega, fun q hq => by omega⟩
  | B =>
    simp only [stepW, View.nextBack, hl, ↓reduceIte, Option.some.injEq] at h ⊢
    subst h
    simp only [Win.positions, List.mem_range'_1]
    exact ⟨by omega, by omega, fun q hq => by omega⟩

/-- **each element at most once** (mutable iteration never hands out an element twice) -/
theorem yields_nodup : ∀ (ss : List Step) (w : Win),
    ((runW ss w).1.filterMap id).Nodup ∧ ∀ p ∈ (runW ss w).1.filterMap id, p ∈ w.positions
  | [], w => by simp [runW]
  | s :: ss, w => by
    have ih := yields_nodup ss (stepW w s).2
    simp only [runW]
    cases hy : (stepW w s).1 with
    | none =>
      simp only [List.filterMap_cons, id_eq]
      refine ⟨ih.1, fun p hp => ?_⟩
      have := ih.2 p hp
      cases s <;> simp only [stepW, View.next, View.nextBack] at hy this ⊢ <;> split at hy <;> simp_all
    | some p =>
      have hf := step_fresh w s p hy
      simp only [List.filterMap_cons, id_eq, List.nodup_cons, List.mem_cons, forall_eq_or_imp]
      refine ⟨⟨fun hp => hf.2.1 (ih.2 p hp), ih.1⟩, hf.1, fun q hq => hf.2.2 q (ih.2 q hq)⟩

/-- **each element exactly once**: once the window is exhausted, every position of it has
    been yielded exactly once (in front order from the front, reverse order from the back) -/
theorem yields_all (ss : List Step) (w : Win) (h : (runW ss w).2.l = 0) :
    ((runW ss w).1.filterMap id).Perm w.positions := by
  have hn := yields_nodup ss w
  have hl := len_after ss w
  rw [h] at hl
  have hlen : ((runW ss w).1.filterMap id).length = w.positions.length := by
    have hle : ((runW ss w).1.filterMap id).length ≤ w.positions.length :=
      (List.subperm_of_subset hn.1 hn.2).length_le
    simp [Win.positions] at hle ⊢
    omega
  exact (List.subperm_of_subset hn.1 hn.2).perm_of_length_le (Nat.le_of_eq hlen.symm)

/-! non-vacuity: window of 3 positions, steps F B B F F: yields 2, 4, 3, none, none -/
example : (runW [.F, .B, .B, .F, .F] ⟨2, 3⟩).1 = [some 2, some 4, some 3, none, none] := by decide


/-! ## adaptor-style consumption: `nth`, `nth_back`, `last`, `count` are iterated `next` / `next_back`

std's provided methods (the generated iterators do not override them) are defined by repeated stepping; so the
"any consumption pattern" of the property reduces to the front/back interleavings above. -/

def nextN : Nat → Win → Win
  | 0, w => w
  | k + 1, w => nextN k (View.next w).2

def nextBackN : Nat → Win → Win
  | 0, w => w
  | k + 1, w => nextBackN k (View.nextBack w).2

theorem nextN_eq : ∀ (k : Nat) (w : Win), nextN k w = if k ≤ w.l then ⟨w.s + k, w.l - k⟩ else ⟨w.s + w.l, 0⟩
  | 0, w => by simp [nextN]
  | k + 1, w => by
    rw [nextN, nextN_eq k]
    unfold View.next
    by_cases h0 : w.l = 0
    · simp [h0]
    · simp only [h0, ↓reduceIte]
      by_cases hk : k + 1 ≤ w.l
      · have : k ≤ w.l - 1 := by omega
        simp only [this, hk, ↓reduceIte, Win.mk.injEq]; omega
      · have : ¬ k ≤ w.l - 1 := by omega
        simp only [this, hk, ↓reduceIte, Win.mk.injEq]
        exact ⟨by omega, trivial⟩

/-- `nth(k)` = `k` times `next()`, then `next()` -/
theorem nth_is_iterated_next (w : Win) (k : Nat) : View.nth w k = View.next (nextN k w) := by
  rw [nextN_eq]
  unfold View.nth View.next
  by_cases hk : k < w.l
  · have : k ≤ w.l := by omega
    have h2 : w.l - k ≠ 0 := by omega
    simp [hk, this, h2]
  · by_cases he : k ≤ w.l
    · have : w.l - k = 0 := by omega
      have hkl : k = w.l := by omega
      simp [hk, he, this, hkl]
    · simp [hk, he]

theorem nextBackN_eq : ∀ (k : Nat) (w : Win), nextBackN k w = ⟨w.s, w.l - k⟩
  | 0, w => by simp [nextBackN]
  | k + 1, w => by
    rw [nextBackN, nextBackN_eq k]
    unfold View.nextBack
    by_cases h0 : w.l = 0
    · simp [h0]
    · simp only [h0, ↓reduceIte, Win.mk.injEq, true_and]; omega

/-- `nth_back(k)` = `k` times `next_back()`, then `next_back()` -/
theorem nthBack_is_iterated_nextBack (w : Win) (k : Nat) : View.nthBack w k = View.nextBack (nextBackN k w) := by
  rw [nextBackN_eq]
  unfold View.nthBack View.nextBack
  by_cases hk : k < w.l
  · have h2 : w.l - k ≠ 0 := by omega
    simp only [hk, ↓reduceIte, h2, Prod.mk.injEq, Win.mk.injEq, true_and]
    constructor
    · congr 1; omega
    · omega
  · have : w.l - k = 0 := by omega
    simp [hk, this]

/-- `last()` yields what the final `next_back()` would and exhausts the iterator; `count()` is the remaining length -/
theorem last_is_nextBack (w : Win) : (View.lastOf w).1 = (View.nextBack w).1 ∧ (View.lastOf w).2.l = 0 := by
  unfold View.lastOf View.nextBack
  by_cases h : w.l = 0 <;> simp [h]

/-! ## internal iteration: `fold` / `for_each` is `next` until `None`, `rfold` / `rev().for_each` is `next_back` until `None` -/

/-- what std's default `fold` visits: `next()` until it answers `None` (fuel = the remaining length suffices) -/
def foldVisits : Nat → Win → List Nat
  | 0, _ => []
  | f + 1, w => match View.next w with
    | (some p, w') => p :: foldVisits f w'
    | (none, _) => []

/-- what std's default `rfold` visits -/
def rfoldVisits : Nat → Win → List Nat
  | 0, _ => []
  | f + 1, w => match View.nextBack w with
    | (some p, w') => p :: rfoldVisits f w'
    | (none, _) => []

/-- `fold` visits the remaining positions front to back, each once -/
theorem fold_visits : ∀ (f : Nat) (w : Win), w.l ≤ f → foldVisits f w = List.range' w.s w.l
  | 0, w, h => by
    have : w.l = 0 := by omega
    simp [foldVisits, this]
  | f + 1, w, h => by
    unfold foldVisits View.next
    by_cases h0 : w.l = 0
    · simp [h0]
    · simp only [h0, ↓reduceIte]
      rw [fold_visits f ⟨w.s + 1, w.l - 1⟩ (by simp; omega)]
      obtain ⟨m, hm⟩ : ∃ m, w.l = m + 1 := ⟨w.l - 1, by omega⟩
      simp [hm, List.range'_succ]

/-- `rfold` (what `rev().for_each(..)`, `rev().fold(..)`, `rev().last()` run) visits them back to front -/
theorem rfold_visits : ∀ (f : Nat) (w : Win), w.l ≤ f → rfoldVisits f w = (List.range' w.s w.l).reverse
  | 0, w, h => by
    have : w.l = 0 := by omega
    simp [rfoldVisits, this]
  | f + 1, w, h => by
    unfold rfoldVisits View.nextBack
    by_cases h0 : w.l = 0
    · simp [h0]
    · simp only [h0, ↓reduceIte]
      rw [rfold_visits f ⟨w.s, w.l - 1⟩ (by simp; omega)]
      obtain ⟨m, hm⟩ : ∃ m, w.l = m + 1 := ⟨w.l - 1, by omega⟩
      simp only [hm, Nat.add_sub_cancel]
      rw [List.range'_concat]
      simp

/-- the generated iterators implement `next`, `size_hint`, `next_back` and `len` and **nothing else** of the iterator
    traits: every other method (`nth`, `nth_back`, `fold`, `rfold`, `last`, `count`, …) is std's default, defined from
    these — which is what `nth_is_iterated_next`, `fold_visits`, `rfold_visits` … describe.  Read from the templates the
    translator recovered from /repo on this run: an override added to either iterator makes this false. -/
theorem iterator_methods :
    ((Soa.Extracted.skAll.filter (fun f => f.owner == "PIter<'a>")).map (fun f => (f.trait_, f.name))) =
      [("<Iterator>", "next"), ("<Iterator>", "size_hint"), ("<DoubleEndedIterator>", "next_back"), ("<ExactSizeIterator>", "len")] ∧
    ((Soa.Extracted.skAll.filter (fun f => f.owner == "PIterMut<'a>")).map (fun f => (f.trait_, f.name))) =
      [("<Iterator>", "next"), ("<Iterator>", "size_hint"), ("<DoubleEndedIterator>", "next_back"), ("<ExactSizeIterator>", "len")] := by
  decide

/-- **text pin**: the generated functions this property's hand-written model describes have, in
    /repo today, exactly the text the model was written from (`Soa/Model/Pinned.lean`) -/
theorem bodies_pinned : Soa.Extracted.bodies_C06 = Soa.Model.pinned_C06 := rfl

theorem bodies_pinned_nonempty : Soa.Model.pinned_C06.length ≥ 4 := by decide

end Soa.C06
