import Soa.Props.C01
/-!
# Histories over several vectors (C01 / C02 for the two-container operations)

`C01.history` follows one vector.  `append`, `split_off`, `to_vec` and `extend_from_slice`
involve two: this file follows a whole *world* of vectors of one struct type (registers, as
in the correspondence scenarios) through any finite sequence of operations — single-vector
operations with arbitrary arguments on any register, and the four two-container operations
between any two different registers.  For every such history, started from any world of
lockstep containers of one shape: every register stays in lockstep with that shape (C02),
and the rows of every register are exactly the rows of the corresponding `Vec<T>` in the
world of `Vec<T>`s driven by the same history (C01).
-/
namespace Soa.World
open Soa C01

inductive WOp
  | on (r : Nat) (op : Op)                   -- a single-vector operation on register `r`
  | append (r q : Nat)                       -- `regs[r].append(&mut regs[q])`
  | splitOff (r i q : Nat)                   -- `regs[q] = regs[r].split_off(i)`
  | toVec (r q : Nat)                        -- `regs[q] = regs[r].as_slice().to_vec()`
  | extendFromSlice (r q : Nat)              -- `regs[r].extend_from_slice(regs[q].as_slice())`

/-- the borrow checker only admits two *different* vectors; registers exist -/
def WOp.wf (c0 : Cols) (nreg : Nat) : WOp → Prop
  | .on r op => r < nreg ∧ op.wf c0
  | .append r q | .toVec r q | .extendFromSlice r q => r < nreg ∧ q < nreg ∧ r ≠ q
  | .splitOff r _ q => r < nreg ∧ q < nreg ∧ r ≠ q

def wstep (dr : Bool) (c0 : Cols) (regs : List Cols) : WOp → List Cols
  | .on r op => regs.set r (mstep dr (regs.getD r c0) op).st
  | .append r q =>
    let o := Model.append (regs.getD r c0) (regs.getD q c0)
    (regs.set r o.st).set q (o.other.getD (regs.getD q c0))
  | .splitOff r i q =>
    let o := Model.splitOff (regs.getD r c0) i
    if o.panicked then regs else (regs.set r o.st).set q (o.ret.getD (regs.getD q c0))
  | .toVec r q => regs.set q ((Model.toVec (regs.getD r c0)).ret.getD c0)
  | .extendFromSlice r q => regs.set r (Model.extendFromSlice (regs.getD r c0) (regs.getD q c0)).st

def sstepW (dr : Bool) (rows : List (List Elem)) : WOp → List (List Elem)
  | .on r op => rows.set r (sstep dr (rows.getD r []) op).st
  | .append r q =>
    let o := Spec.append (rows.getD r []) (rows.getD q [])
    (rows.set r o.st).set q (o.other.getD (rows.getD q []))
  | .splitOff r i q =>
    let o := Spec.splitOff (rows.getD r []) i
    if o.panicked then rows else (rows.set r o.st).set q (o.ret.getD (rows.getD q []))
  | .toVec r q => rows.set q ((Spec.toVec (rows.getD r [])).ret.getD [])
  | .extendFromSlice r q => rows.set r (Spec.extendFromSlice (rows.getD r []) (rows.getD q [])).st

/-- every register is a lockstep container of the shape `c0` -/
def Inv (c0 : Cols) (regs : List Cols) : Prop := ∀ c ∈ regs, (∃ n, c.lock n) ∧ c0.same c

theorem inv_get {c0 : Cols} {regs : List Cols} (h : Inv c0 regs) (r : Nat) (hr : r < regs.length) :
    (∃ n, (regs.getD r c0).lock n) ∧ c0.same (regs.getD r c0) := by
  have : regs.getD r c0 = regs[r] := by simp [List.getD_eq_getElem?_getD, hr]
  rw [this]
  exact h _ (List.getElem_mem hr)

theorem inv_set {c0 : Cols} {regs : List Cols} (h : Inv c0 regs) (r : Nat) (x : Cols)
    (hx : (∃ n, x.lock n) ∧ c0.same x) : Inv c0 (regs.set r x) := by
  intro c hc
  rcases List.mem_or_eq_of_mem_set hc with hm | rfl
  · exact h c hm
  · exact hx

theorem rows_getD (regs : List Cols) (c0 : Cols) (r : Nat) (hr : r < regs.length) :
    (regs.map Cols.rows).getD r [] = (regs.getD r c0).rows := by
  simp [List.getD_eq_getElem?_getD, hr]

/-- the emptied second operand of `append` -/
theorem append_other {c d : Cols} {n k : Nat} (hc : c.lock n) (hd : d.lock k) (hs : c.same d) :
    ∃ o, (Model.append c d).other = some o ∧ o.lock 0 ∧ c.same o ∧ o.rows = [] := by
  unfold Model.append
  cases perField appendOp c d n k hc hd hs with
  | ok s hrun _ _ _ hout _ hlo _ hso =>
    simp only [appendOp, PolyOp.ofTotal_run, ↓reduceIte, Option.some.injEq] at hrun
    subst hrun
    exact ⟨_, rfl, lock_of_rows_len hlo (k := 0) (by rw [hout]; rfl), hso, hout⟩
  | fail _ hfail _ _ _ => simp [appendOp] at hfail

/-- the container handed back by `split_off` -/
theorem splitOff_ret {c : Cols} {n : Nat} (i : Nat) (hc : c.lock n)
    (hp : (Model.splitOff c i).panicked = false) :
    ∃ o, (Model.splitOff c i).ret = some o ∧ (∃ m, o.lock m) ∧ c.same o ∧
      some o.rows = (Spec.splitOff c.rows i).ret := by
  have href := C01.splitOff i hc
  unfold Model.splitOff Model.noArgs at hp href ⊢
  cases perField0 (splitOffOp i) c n hc with
  | ok s hrun _ hpp _ hout _ hlo _ hso =>
    simp only [hpp, Bool.false_eq_true, ↓reduceIte] at hp href ⊢
    refine ⟨_, rfl, ⟨_, hlo⟩, hso, ?_⟩
    have := href.ret
    simpa using this
  | fail _ _ hpp _ _ =>
    simp [hpp] at hp

/-- **one step of a world**: the invariant is kept and the rows follow the world of `Vec<T>`s -/
theorem wstep_refines (dr : Bool) (c0 : Cols) (regs : List Cols) (op : WOp) (hi : Inv c0 regs)
    (hw : op.wf c0 regs.length) :
    Inv c0 (wstep dr c0 regs op) ∧ (wstep dr c0 regs op).map Cols.rows = sstepW dr (regs.map Cols.rows) op ∧
      (wstep dr c0 regs op).length = regs.length := by
  cases op with
  | on r o =>
    obtain ⟨hr, hwf⟩ := hw
    obtain ⟨⟨n, hn⟩, hs⟩ := inv_get hi r hr
    have h := step_refines dr o hn (wf_same hs o hwf)
    refine ⟨inv_set hi r _ ⟨h.lock, same_trans _ _ _ hs h.same⟩, ?_, by simp [wstep]⟩
    simp only [wstep, sstepW, List.map_set, rows_getD regs c0 r hr, h.st]
  | append r q =>
    obtain ⟨hr, hq, hne⟩ := hw
    obtain ⟨⟨n, hn⟩, hs⟩ := inv_get hi r hr
    obtain ⟨⟨k, hk⟩, hsq⟩ := inv_get hi q hq
    have hrq : (regs.getD r c0).same (regs.getD q c0) := same_trans _ _ _ (same_symm _ _ hs) hsq
    have h := C01.append hn hk hrq
    obtain ⟨o, ho, hol, hos, hor⟩ := append_other hn hk hrq
    refine ⟨inv_set (inv_set hi r _ ⟨h.1.lock, same_trans _ _ _ hs h.1.same⟩) q _ ?_, ?_, by simp [wstep]⟩
    · rw [ho]; exact ⟨⟨0, hol⟩, same_trans _ _ _ hs hos⟩
    · simp only [wstep, sstepW, List.map_set, rows_getD regs c0 r hr, rows_getD regs c0 q hq, h.1.st, ho,
        Option.getD_some, hor]
      simp [Spec.append]
  | splitOff r i q =>
    obtain ⟨hr, hq, hne⟩ := hw
    obtain ⟨⟨n, hn⟩, hs⟩ := inv_get hi r hr
    have h := C01.splitOff i hn
    simp only [wstep, sstepW, rows_getD regs c0 r hr, ← h.panicked]
    by_cases hp : (Model.splitOff (regs.getD r c0) i).panicked = true
    · simp only [hp, ↓reduceIte]
      exact ⟨hi, trivial, trivial⟩
    · have hp' : (Model.splitOff (regs.getD r c0) i).panicked = false := by simpa using hp
      obtain ⟨o, ho, hol, hos, hor⟩ := splitOff_ret i hn hp'
      simp only [hp', Bool.false_eq_true, ↓reduceIte, ho, Option.getD_some]
      refine ⟨inv_set (inv_set hi r _ ⟨h.lock, same_trans _ _ _ hs h.same⟩) q _ ⟨hol, same_trans _ _ _ hs hos⟩, ?_, by simp⟩
      simp only [List.map_set, h.st, ← hor, Option.getD_some]
  | toVec r q =>
    obtain ⟨hr, hq, hne⟩ := hw
    obtain ⟨hl, hs⟩ := inv_get hi r hr
    refine ⟨inv_set hi q _ ⟨by simpa [Model.toVec] using hl, by simpa [Model.toVec] using hs⟩, ?_, by simp [wstep]⟩
    have hg := rows_getD regs c0 r hr
    simp only [wstep, sstepW, Model.toVec, Spec.toVec, List.map_set, Option.getD_some, hg]
  | extendFromSlice r q =>
    obtain ⟨hr, hq, hne⟩ := hw
    obtain ⟨⟨n, hn⟩, hs⟩ := inv_get hi r hr
    obtain ⟨⟨k, hk⟩, hsq⟩ := inv_get hi q hq
    have hrq : (regs.getD r c0).same (regs.getD q c0) := same_trans _ _ _ (same_symm _ _ hs) hsq
    have h := C01.extendFromSlice hn hk hrq
    refine ⟨inv_set hi r _ ⟨h.lock, same_trans _ _ _ hs h.same⟩, ?_, by simp [wstep]⟩
    simp only [wstep, sstepW, List.map_set, rows_getD regs c0 r hr, rows_getD regs c0 q hq, h.st]

def wrun (dr : Bool) (c0 : Cols) : List Cols → List WOp → List Cols
  | regs, [] => regs
  | regs, op :: ops => wrun dr c0 (wstep dr c0 regs op) ops

def srunW (dr : Bool) : List (List Elem) → List WOp → List (List Elem)
  | rows, [] => rows
  | rows, op :: ops => srunW dr (sstepW dr rows op) ops

/-- **histories over a world of vectors**: after any finite sequence of operations — on one
    vector or between two — every register is a lockstep container of the common shape, and
    its rows are those of the corresponding `Vec<T>` -/
theorem history (dr : Bool) (c0 : Cols) : ∀ (ops : List WOp) (regs : List Cols), Inv c0 regs →
    (∀ op ∈ ops, op.wf c0 regs.length) →
    Inv c0 (wrun dr c0 regs ops) ∧ (wrun dr c0 regs ops).map Cols.rows = srunW dr (regs.map Cols.rows) ops
  | [], regs, hi, _ => ⟨hi, rfl⟩
  | op :: ops, regs, hi, hw => by
    have h := wstep_refines dr c0 regs op hi (hw op (by simp))
    have ih := history dr c0 ops (wstep dr c0 regs op) h.1 (fun o ho => by rw [h.2.2]; exact hw o (by simp [ho]))
    simp only [wrun, srunW]
    rw [← h.2.1]
    exact ih

/-! non-vacuity: three registers of a nested two-field shape -/
example : Inv C01.exC [C01.exC, C01.exC, C01.exC] := by
  intro c hc
  simp only [List.mem_cons, List.not_mem_nil, or_false, or_self] at hc
  subst hc
  exact ⟨⟨2, by simp [C01.exC]⟩, same_refl _⟩

end Soa.World
