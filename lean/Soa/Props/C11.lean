import Soa.Lemmas.Positions
/-!
# C11 — nested SoA behaves as if flattened

`flatten c` is the container of the equivalent struct with the nested fields written
inline: one level, the same leaf arrays in declaration order.  Because the whole model is
generic in the tree, C01–C10 are already proved for nested shapes of any depth; this file
adds the equivalence with the flattened twin:
* same leaf arrays (`leaves_flatten`) — every leaf array of every nested container has the
  outer container's length exactly when the flattened container is in lockstep
  (`lock_flatten`, `lock_of_flatten`);
* the rows correspond one to one, row `i` of the twin is row `i` with the nested struct
  values inlined (`rows_flatten`): position `i` of every leaf holds part of logical element `i`;
* **every per-field operation** (every `PolyOp`: the std calls behind push, insert, remove,
  swap_remove, pop, replace, truncate, append, split_off, swap, gathers/sorts, windows,
  resize, extend_from_slice) acts on the leaf arrays of a nested container exactly as on
  those of its flattened twin — same leaf arrays left behind, same leaf arrays handed back,
  same panic (`apply2_flatten`, with the leaf-by-leaf characterisation `apply2_leaves`).
  Everything observable (public field arrays, returned elements, views, iterator yields,
  pointer reads) is a function of the leaf arrays.
-/
namespace Soa.C11
open Soa

/-- the flattened twin: nested fields written inline -/
def flatten (c : Cols) : Cols := .nest (c.leaves.map .leaf)

/-- a struct value with its nested struct values inlined -/
def flattenElem (e : Elem) : Elem := .nest (e.ids.map .leaf)

theorem leavesL_map_leaf : ∀ ls : List (List Nat), Cols.leaves.leavesL (ls.map Cols.leaf) = ls
  | [] => rfl
  | l :: ls => by simp [Cols.leaves.leavesL, Cols.leaves, leavesL_map_leaf ls]

/-- the twin has the very same leaf arrays, in the same order -/
theorem leaves_flatten (c : Cols) : (flatten c).leaves = c.leaves := by
  simp [flatten, Cols.leaves, leavesL_map_leaf]

/-- lockstep of the nested container ⇒ lockstep of the twin -/
theorem lock_flatten (c : Cols) (n : Nat) (h : c.lock n) : (flatten c).lock n := by
  unfold flatten
  rw [lock_nest]
  refine ⟨?_, ?_⟩
  · intro he
    exact leaves_ne_nil c n h (List.map_eq_nil_iff.mp he)
  · intro d hd
    obtain ⟨l, hl, rfl⟩ := List.mem_map.mp hd
    exact lock_leaf.mpr (leaves_lock n c h l hl)

/-- lockstep of the twin ⇔ every leaf array of every nested container has the outer length -/
theorem lock_of_flatten (c : Cols) (n : Nat) (h : (flatten c).lock n) : ∀ l ∈ c.leaves, l.length = n := by
  intro l hl
  have := leaves_lock n (flatten c) h l (by rw [leaves_flatten]; exact hl)
  exact this

/-- rows of a one-level container of leaf arrays are one-level struct values -/
theorem rowsL_leaves : ∀ (ls : List (List Nat)) (n : Nat), ls ≠ [] → (∀ l ∈ ls, l.length = n) →
    Cols.rows.rowsL (ls.map Cols.leaf) = (List.range n).map (fun i => ls.map (fun l => Elem.leaf (l.getD i 0)))
  | [], _, h, _ => absurd rfl h
  | [l], n, _, hl => by
    have := hl l (by simp)
    simp only [List.map_cons, List.map_nil, Cols.rows.rowsL, Cols.rows, List.map_map]
    apply List.ext_getElem
    · simp [this]
    · intro i h1 h2
      simp at h1 h2
      simp [List.getD_eq_getElem?_getD, List.getElem?_eq_getElem (show i < l.length by omega)]
  | l :: l' :: ls, n, _, hl => by
    have h1 := hl l (by simp)
    have ih := rowsL_leaves (l' :: ls) n (by simp) (fun x hx => hl x (by simp at hx ⊢; right; exact hx))
    simp only [List.map_cons] at ih ⊢
    rw [Cols.rows.rowsL, ih]
    simp only [Cols.rows]
    apply List.ext_getElem
    · simp [h1]
    · intro i h2 h3
      simp at h2 h3
      simp [List.getD_eq_getElem?_getD, List.getElem?_eq_getElem (show i < l.length by omega)]

/-- **rows correspond**: row `i` of the flattened twin is row `i` of the nested container
    with the nested values inlined -/
theorem rows_flatten (c : Cols) (n : Nat) (h : c.lock n) : (flatten c).rows = c.rows.map flattenElem := by
  have hne := leaves_ne_nil c n h
  have hl := leaves_lock n c h
  unfold flatten
  simp only [Cols.rows]
  rw [rowsL_leaves c.leaves n hne hl]
  apply List.ext_getElem
  · simp [rows_len n c h]
  · intro i h1 h2
    simp at h1 h2
    obtain ⟨r, hr1, hr2⟩ := rowIds_eq c n i h (by omega)
    have hi : i < c.rows.length := by rw [rows_len n c h]; omega
    simp only [List.getElem_map, List.getElem_range]
    rw [List.getElem?_eq_getElem hi] at hr1
    simp only [Option.some.injEq] at hr1
    rw [hr1, flattenElem, ← hr2]
    simp [View.rowIds, List.map_map, Function.comp_def]

/-! ## every per-field operation acts leaf by leaf -/

/-- what one std call does to one field array -/
def leafSt (op : PolyOp) (xs as : List Nat) : List Nat := ((op.run xs as).getD (xs, as)).1
def leafOut (op : PolyOp) (xs as : List Nat) : List Nat := ((op.run xs as).getD (xs, as)).2

theorem same_leaves_len : ∀ c a : Cols, c.same a → c.leaves.length = a.leaves.length
  | .leaf _, .leaf _, _ => rfl
  | .nest fs, .nest gs, h => by
    rw [same_nest] at h
    simp only [Cols.leaves]
    exact go fs gs h
  | .leaf _, .nest _, h => by simp [Cols.same] at h
  | .nest _, .leaf _, h => by simp [Cols.same] at h
where go : ∀ fs gs : List Cols, Cols.same.sameL fs gs →
    (Cols.leaves.leavesL fs).length = (Cols.leaves.leavesL gs).length
  | [], [], _ => rfl
  | [], _ :: _, h => by simp [Cols.same.sameL] at h
  | _ :: _, [], h => by simp [Cols.same.sameL] at h
  | c :: cs, a :: as, h => by
    rw [sameL_cons] at h
    simp [Cols.leaves.leavesL, same_leaves_len c a h.1, go cs as h.2]

/-- **leaf-by-leaf**: on lockstep trees of the same shape, a per-field operation that does not
    fail at these lengths does to every leaf array — at whatever nesting depth — what the std
    call does to one field array -/
theorem apply2_leaves (op : PolyOp) (n k : Nat) (hf : op.fails n k = false) :
    ∀ c a : Cols, c.lock n → a.lock k → c.same a →
      (c.apply2 op a).st.leaves = List.zipWith (leafSt op) c.leaves a.leaves ∧
      (c.apply2 op a).out.leaves = List.zipWith (leafOut op) c.leaves a.leaves
  | .leaf xs, .leaf as, hc, ha, _ => by
    have hl : xs.length = n := lock_leaf.mp hc
    have hk : as.length = k := lock_leaf.mp ha
    have := op.fail_iff xs as
    rw [hl, hk, hf] at this
    simp only [Cols.apply2]
    cases hr : op.run xs as with
    | none => simp [hr] at this
    | some r => simp [Cols.leaves, leafSt, leafOut, hr]
  | .nest fs, .nest gs, hc, ha, hs => by
    rw [lock_nest] at hc ha
    rw [same_nest] at hs
    simp only [Cols.apply2, Cols.leaves]
    exact go fs gs hc.2 ha.2 hs
  | .leaf _, .nest _, _, _, hs => by simp [Cols.same] at hs
  | .nest _, .leaf _, _, _, hs => by simp [Cols.same] at hs
where go : ∀ fs gs : List Cols, (∀ c ∈ fs, c.lock n) → (∀ a ∈ gs, a.lock k) → Cols.same.sameL fs gs →
    Cols.leaves.leavesL (Cols.apply2.apply2L op fs gs).1 =
      List.zipWith (leafSt op) (Cols.leaves.leavesL fs) (Cols.leaves.leavesL gs) ∧
    Cols.leaves.leavesL (Cols.apply2.apply2L op fs gs).2.1 =
      List.zipWith (leafOut op) (Cols.leaves.leavesL fs) (Cols.leaves.leavesL gs)
  | [], [], _, _, _ => by simp [Cols.apply2.apply2L, Cols.leaves.leavesL]
  | [], _ :: _, _, _, h => by simp [Cols.same.sameL] at h
  | _ :: _, [], _, _, h => by simp [Cols.same.sameL] at h
  | c :: cs, a :: as, hc, ha, hs => by
    rw [sameL_cons] at hs
    have hc1 := hc c (by simp)
    have ha1 := ha a (by simp)
    have ih := apply2_leaves op n k hf c a hc1 ha1 hs.1
    have hp := (apply2_ok op n k hf c a hc1 ha1 hs.1).1
    have ih' := go cs as (fun x hx => hc x (by simp [hx])) (fun x hx => ha x (by simp [hx])) hs.2
    have hlen := same_leaves_len c a hs.1
    rw [Cols.apply2.apply2L]
    simp only [hp, Bool.false_eq_true, ↓reduceIte, Cols.leaves.leavesL]
    rw [ih.1, ih.2, ih'.1, ih'.2, List.zipWith_append hlen, List.zipWith_append hlen]
    exact ⟨rfl, rfl⟩

theorem sameL_leaves : ∀ xs ys : List (List Nat), xs.length = ys.length →
    Cols.same.sameL (xs.map Cols.leaf) (ys.map Cols.leaf)
  | [], [], _ => by simp [Cols.same.sameL]
  | [], _ :: _, h => by simp at h
  | _ :: _, [], h => by simp at h
  | x :: xs, y :: ys, h => by
    simp only [List.map_cons, sameL_cons]
    exact ⟨by simp [Cols.same], sameL_leaves xs ys (by simpa using h)⟩

/-- **C11, every per-field operation**: the nested container and its flattened twin end up
    with the same leaf arrays, hand back the same leaf arrays, and panic alike -/
theorem apply2_flatten (op : PolyOp) (n k : Nat) (c a : Cols) (hc : c.lock n) (ha : a.lock k) (hs : c.same a) :
    ((flatten c).apply2 op (flatten a)).st.leaves = (c.apply2 op a).st.leaves ∧
    ((flatten c).apply2 op (flatten a)).out.leaves = (c.apply2 op a).out.leaves ∧
    ((flatten c).apply2 op (flatten a)).panicked = (c.apply2 op a).panicked := by
  have hcf := lock_flatten c n hc
  have haf := lock_flatten a k ha
  have hsf : (flatten c).same (flatten a) := by
    unfold flatten
    rw [same_nest]
    exact sameL_leaves _ _ (same_leaves_len c a hs)
  cases hf : op.fails n k with
  | false =>
    have h1 := apply2_leaves op n k hf c a hc ha hs
    have h2 := apply2_leaves op n k hf (flatten c) (flatten a) hcf haf hsf
    rw [leaves_flatten, leaves_flatten] at h2
    exact ⟨by rw [h2.1, h1.1], by rw [h2.2, h1.2],
      by rw [(apply2_ok op n k hf c a hc ha hs).1, (apply2_ok op n k hf _ _ hcf haf hsf).1]⟩
  | true =>
    have h1 := apply2_fail op n k hf c a hc ha hs
    have h2 := apply2_fail op n k hf (flatten c) (flatten a) hcf haf hsf
    rw [h1.1, h1.2.1, h1.2.2, h2.1, h2.2.1, h2.2.2, leaves_flatten, leaves_flatten]
    exact ⟨rfl, rfl, rfl⟩

/-! non-vacuity: nesting in the middle, two levels deep -/
def exN : Cols := .nest [.leaf [1, 2], .nest [.leaf [3, 4], .nest [.leaf [5, 6]]], .leaf [7, 8]]
example : exN.lock 2 := by simp [exN]
example : (flatten exN).leaves = [[1, 2], [3, 4], [5, 6], [7, 8]] := by decide
example : (exN.apply2 (removeOp 0) (exN.const [])).st.leaves = [[2], [4], [6], [8]] := by decide

end Soa.C11
