import Soa.Model.Surface
import Soa.Extracted.Surface
import Soa.Extracted.Unsafe
/-!
# C18 — compile-time surface: exclusive borrows, Copy views, auto traits — **partial**

rustc's borrow checker and auto-trait solver are the judge of this property; no model of
them is built here.  What is proved, over tables **extracted from /repo on every run**:

* `field_ctors`: every generated type stores, per plain field, exactly the std reference /
  container type it stands for (`Vec<T>`, `&'a [T]`, `&'a mut [T]`, `&'a T`, `&'a mut T`,
  `*const T`, `*mut T`, `slice::Iter`, `slice::IterMut`) and, per nested field, the nested
  generated type of the same kind;
* `no_unsafe_impls`: the generated code contains no `unsafe impl` (no hand-written
  `Send`/`Sync`);
* `access_fns_are_safe_rust`: every safe generated function whose result carries shared or
  mutable access to elements contains no `unsafe` block (cross-check with the unsafe-site
  list of C19) — so the borrow- and lifetime-soundness of its signature is rustc's own
  guarantee about safe Rust over those std field types;
* `discipline`: every safe function whose result carries **mutable** access takes its
  source by exclusive borrow, or consumes a source that is itself exclusive and not `Copy`;
* auto traits for **every shape** (`auto_is_std`, by induction over nesting): the generated
  type of kind `k` is `Send`/`Sync` exactly when the std type it stands for, applied to the
  element type, is; pointer bundles are neither, for every non-empty shape (`ptr_never`);
* `Copy` exactly for slice / reference / pointer bundles (`copy_kinds`), views and references
  covariant in their lifetime (`covariant_lifetime`);
* the loan calculus' verdicts on the program patterns of the probe corpus
  (`excl_twice_rejected` … `copy_reuse_accepted`): two live results one of which is
  exclusive are rejected, sequential use and any number of shared results are accepted, a
  result used after its source's scope is rejected, a consumed non-`Copy` source cannot be
  reused.

Every probe program's verdict by rustc is compared with the calculus' prediction on every
run (the tie); the Send/Sync/Copy table rustc computes is compared with `stdAuto` and with
rustc's own verdict on the std types.
-/
namespace Soa.C18
open Soa.Surface

/-- the generated types store what the std types they stand for store -/
theorem field_ctors :
    ∀ k ∈ K9.all, (Extracted.fieldCtors.lookup k) = some [ctorOf k, .nested k, ctorOf k] := by decide

theorem no_unsafe_impls : Extracted.unsafeImpls = [] := by decide

/-- **discipline** on the extracted signature table -/
theorem discipline : Extracted.sigs.all Sig.ok = true := by decide +kernel

/-- qualified name in the format of `Extracted.unsafeSites` -/
def Sig.site (s : Sig) : String :=
  s.owner ++ (if s.trait_ == "" then "" else "<" ++ s.trait_ ++ ">") ++ "::" ++ s.name

/-- every safe function that hands out access is free of `unsafe` blocks -/
theorem access_fns_are_safe_rust :
    Extracted.sigs.all (fun s => s.unsafe_ || s.out == .none ||
      !(Extracted.unsafeSites.any (fun u => u.endsWith ("::" ++ s.name) && u.startsWith (s.owner.takeWhile (· != '<'))))) = true := by
  decide +kernel

/-- the safe functions with `unsafe` blocks return no access at all -/
theorem unsafe_sites_return_owned :
    Extracted.unsafeSites = ["PVec::push", "PVec::insert", "PVec::replace", "PRefMut<'a>::replace"] := by decide

/-! ## auto traits, for every shape -/

theorem and2_assoc (a b c : Bool × Bool) : and2 (and2 a b) c = and2 a (and2 b c) := by
  simp [and2, Bool.and_assoc]

/-- for the constructors that are homomorphic in the flags: conjunction commutes -/
def Homo (c : Ctor) : Prop := ∀ a b, ctorAuto c (and2 a b) = and2 (ctorAuto c a) (ctorAuto c b)

theorem homo_of (k : K9) (hk : k ≠ .ptr ∧ k ≠ .ptrMut) : Homo (ctorOf k) := by
  intro a b
  obtain ⟨a1, a2⟩ := a
  obtain ⟨b1, b2⟩ := b
  cases k <;> simp_all [ctorOf, ctorAuto, and2]

theorem top_of (k : K9) (hk : k ≠ .ptr ∧ k ≠ .ptrMut) : ctorAuto (ctorOf k) (true, true) = (true, true) := by
  cases k <;> simp_all [ctorOf, ctorAuto]

/-- **vectors, views, references and iterators are Send/Sync exactly when the std type they
    stand for is**, for every shape (any number of fields, any nesting) -/
theorem auto_is_std (k : K9) (hk : k ≠ .ptr ∧ k ≠ .ptrMut) : ∀ sh : Sh, sh.gen k = stdAuto k sh.elem
  | .leaf s y => rfl
  | .nest fs => by
    simp only [Sh.gen, Sh.elem]
    exact go fs
where go : ∀ fs : List Sh, Sh.gen.genL k fs = stdAuto k (Sh.elem.elemL fs)
  | [] => by simp [Sh.gen.genL, Sh.elem.elemL, stdAuto, top_of k hk]
  | f :: fs => by
    simp only [Sh.gen.genL, Sh.elem.elemL]
    rw [auto_is_std k hk f, go fs]
    exact (homo_of k hk _ _).symm

/-- **pointer bundles are neither Send nor Sync**, for every non-empty shape -/
theorem ptr_never (k : K9) (hk : k = .ptr ∨ k = .ptrMut) : ∀ sh : Sh, sh.wf = true → sh.gen k = (false, false)
  | .leaf s y, _ => by rcases hk with rfl | rfl <;> rfl
  | .nest [], h => by simp [Sh.wf] at h
  | .nest (f :: fs), h => by
    simp only [Sh.wf, List.isEmpty_cons, Bool.not_false, Bool.true_and, Sh.wf.wfL, Bool.and_eq_true] at h
    simp only [Sh.gen, Sh.gen.genL]
    rw [ptr_never k hk f h.1]
    simp [and2]

/-- what the std types give, spelled out: `Vec<T>`, `&mut [T]`, `&mut T`, `IterMut` follow `T`;
    `&[T]`, `&T`, `Iter` need `T: Sync` for both -/
theorem std_rules (s y : Bool) :
    stdAuto .vec (s, y) = (s, y) ∧ stdAuto .sliceMut (s, y) = (s, y) ∧ stdAuto .refMut (s, y) = (s, y) ∧
    stdAuto .iterMut (s, y) = (s, y) ∧ stdAuto .slice (s, y) = (y, y) ∧ stdAuto .ref (s, y) = (y, y) ∧
    stdAuto .iter (s, y) = (y, y) := by
  simp [stdAuto, ctorOf, ctorAuto]

/-! ## Copy and variance -/

/-- a struct can be `Copy` only if every field is; with the extracted constructors that
    leaves exactly the shared views and the pointer bundles -/
theorem copy_kinds (k : K9) : k.copy = ctorCopy (ctorOf k) := by cases k <;> rfl

/-- exclusive kinds are never `Copy` -/
theorem exclusive_not_copy (k : K9) (h : k.exclusive = true) : k.copy = false := by cases k <;> simp_all [K9.exclusive, K9.copy]

/-- the field constructors of views and references are covariant in the lifetime parameter, so the
    structs are (a nested field contributes the nested view / reference, by induction the same); the
    iterators of a struct with a nested field name the nested iterator through an associated type of
    `SoAIter<'a>` and are invariant — the property asks covariance of views and references only -/
theorem covariant_lifetime (k : K9) (hk : k = .slice ∨ k = .sliceMut ∨ k = .ref ∨ k = .refMut) :
    ctorCovariantLt (ctorOf k) = true := by rcases hk with rfl | rfl | rfl | rfl <;> rfl

theorem covariant_type_iff (k : K9) :
    ctorCovariantTy (ctorOf k) = true ↔ k = .vec ∨ k = .slice ∨ k = .ref ∨ k = .ptr ∨ k = .iter := by
  cases k <;> simp [ctorOf, ctorCovariantTy]

/-! ## loan calculus: the verdicts the probe corpus expects -/

/-- two results of one source alive together, the first keeping an exclusive borrow: rejected,
    however the second call takes the source -/
theorem excl_twice_rejected (c : Bool) (t h : Mode) (ht : t ≠ .none) :
    accepted c [.call .excl .excl, .call t h, .use 0, .use 1] = false := by
  cases c <;> cases t <;> cases h <;> simp_all <;> decide

/-- a shared result alive across an exclusive call, or across a move of a non-`Copy` source: rejected -/
theorem shared_then_excl_rejected (c : Bool) (h : Mode) :
    accepted c [.call .shared .shared, .call .excl h, .use 0] = false ∧
    accepted false [.call .shared .shared, .call .value h, .use 0] = false := by
  cases c <;> cases h <;> decide

/-- an exclusive result alive across any other access, even one whose result keeps nothing (`len()`): rejected -/
theorem excl_then_shared_rejected (c : Bool) (h : Mode) :
    accepted c [.call .excl .excl, .call .shared h, .use 0] = false := by
  cases c <;> cases h <;> decide

/-- sequential use is accepted: the first result is dead before the second call -/
theorem sequential_accepted (c : Bool) (t h t' h' : Mode) (hv : t ≠ .value) :
    accepted c [.call t h, .use 0, .call t' h', .use 1] = true := by
  cases c <;> cases t <;> cases h <;> cases t' <;> cases h' <;> simp_all <;> decide

/-- any number of shared results may be alive together -/
theorem shared_many_accepted (c : Bool) :
    accepted c [.call .shared .shared, .call .shared .shared, .call .shared .shared, .use 0, .use 1, .use 2] = true := by
  cases c <;> decide

/-- results that keep nothing borrowed (a mutable iterator's `next`) may be alive together -/
theorem untied_many_accepted (c : Bool) : accepted c [.call .excl .none, .call .excl .none, .use 0, .use 1] = true := by
  cases c <;> decide

/-- a borrowed result used after the source's scope: rejected -/
theorem escape_rejected (c : Bool) (t h : Mode) (hh : h = .shared ∨ h = .excl) :
    accepted c [.call t h, .endScope, .use 0] = false := by
  rcases hh with rfl | rfl <;> cases c <;> cases t <;> decide

/-- a consumed non-`Copy` source cannot be used again; a `Copy` one can -/
theorem moved_reuse_rejected (t h h' : Mode) (ht : t ≠ .none) :
    accepted false [.call .value h, .call t h'] = false := by
  cases t <;> cases h <;> cases h' <;> simp_all <;> decide

theorem copy_reuse_accepted :
    accepted true [.call .value .none, .call .value .none, .use 0, .use 1] = true ∧
    accepted true [.call .value .none, .call .shared .shared, .use 0, .use 1] = true := by
  decide

/-- the parts of a consuming split are one result: both usable -/
theorem split_halves_accepted (c : Bool) : accepted c [.call .value .none, .use 0, .use 0] = true := by
  cases c <;> decide

/-- what the signature table says the calculus should assume about each function -/
theorem hold_of_untied (s : Sig) (h : s.tied = false) : s.hold = .none := by
  unfold Sig.hold; cases s.mode <;> simp [h]

/-! non-vacuity: the table is not empty and contains the functions the corpus is built from -/
example : 250 ≤ Extracted.sigs.length := by decide +kernel
example : (Extracted.sigs.filter (fun s => s.out == .mutable && !s.unsafe_)).length ≥ 55 := by decide +kernel
example : Sh.gen .slice (.nest [.leaf true false, .nest [.leaf true true]]) = (false, false) := by decide
example : Sh.gen .vec (.nest [.leaf true false, .nest [.leaf true true]]) = (true, false) := by decide

end Soa.C18
