import Soa.Props.C01
/-!
# C02 — field arrays always stay in lockstep

After any operation with any (valid or invalid) argument, on any shape: every leaf array
(recursively through nested containers) has one common length, the tree keeps its shape,
position `i` of every array holds a field of one logical element — every row of the new
container is a whole row that was in the container or was moved in — and a call that
panics on its argument leaves the container exactly as it was.
-/
namespace Soa.C02
open Soa

variable {c : Cols} {n : Nat}

/-- one step: lockstep and shape are preserved -/
theorem lockstep_step (dr : Bool) (op : C01.Op) (hc : c.lock n) (hw : op.wf c) :
    (∃ m, (C01.mstep dr c op).st.lock m) ∧ c.same (C01.mstep dr c op).st :=
  ⟨(C01.step_refines dr op hc hw).lock, (C01.step_refines dr op hc hw).same⟩

/-- a call that panics because of an invalid argument leaves the container as it was -/
theorem atomic_step (dr : Bool) (op : C01.Op) (hc : c.lock n) (hw : op.wf c)
    (hp : (C01.mstep dr c op).panicked = true) : (C01.mstep dr c op).st = c :=
  (C01.step_refines dr op hc hw).atomic hp

/-- all histories, invalid arguments included -/
theorem lockstep_history (dr : Bool) (ops : List C01.Op) (hc : c.lock n) (hw : ∀ op ∈ ops, op.wf c) :
    (∃ m, (C01.mrun dr c ops).2.lock m) ∧ c.same (C01.mrun dr c ops).2 :=
  ⟨(C01.history dr ops c n hc hw).2.2.1, (C01.history dr ops c n hc hw).2.2.2⟩

/-- free theorem: a natural list operation invents no value — everything in its results
    comes from its inputs -/
theorem PolyOp.mem_of_run (op : PolyOp) {α : Type} (xs as : List α) (r : List α × List α)
    (h : op.run xs as = some r) : ∀ y ∈ r.1 ++ r.2, y ∈ xs ++ as := by
  let S := { x : α // x ∈ xs ++ as }
  let xs' : List S := xs.attach.map (fun x => ⟨x.1, List.mem_append_left _ x.2⟩)
  let as' : List S := as.attach.map (fun x => ⟨x.1, List.mem_append_right _ x.2⟩)
  have hx : xs'.map Subtype.val = xs := by simp [xs', List.map_map, Function.comp_def]
  have ha : as'.map Subtype.val = as := by simp [as', List.map_map, Function.comp_def]
  have hn := op.nat (Subtype.val : S → α) xs' as'
  rw [hx, ha, h] at hn
  cases hr : op.run xs' as' with
  | none => simp [hr] at hn
  | some r' =>
    simp only [hr, Option.map_some, Option.some.injEq] at hn
    intro y hy
    rw [hn] at hy
    simp only [List.mem_append, List.mem_map] at hy
    rcases hy with ⟨s, _, rfl⟩ | ⟨s, _, rfl⟩ <;> exact s.2

/-- coherence of every per-field std call: each row of the result (of the container and of
    what is handed back) is a whole row of the container or of the argument -/
theorem rows_coherent (op : PolyOp) (a : Cols) (k : Nat) (hc : c.lock n) (ha : a.lock k) (hs : c.same a)
    (hp : (c.apply2 op a).panicked = false) :
    ∀ row ∈ (c.apply2 op a).st.rows ++ (c.apply2 op a).out.rows, row ∈ c.rows ++ a.rows := by
  cases perField op c a n k hc ha hs with
  | ok s hrun _ _ hst hout _ _ _ _ =>
    rw [hst, hout]
    exact PolyOp.mem_of_run op _ _ s hrun
  | fail _ _ hp' _ _ => rw [hp] at hp'; cases hp'

/-- the swap loop and the pop loop only move whole rows: after `retain` every row was there before -/
theorem retain_coherent (dr : Bool) (keep : Nat → Bool) (hc : c.lock n) :
    ∀ row ∈ (Model.retain dr c keep none (fun _ _ => none)).st.rows, row ∈ c.rows := by
  have h := (C01.retain dr keep hc).1.st
  rw [h, (Spec.retain_none dr keep c.rows).2.1]
  intro row hr
  exact filterIdx_subset keep 0 c.rows row hr
where filterIdx_subset (keep : Nat → Bool) : ∀ (i : Nat) (rs : List Elem) (row : Elem),
    row ∈ RetainIdx.filterIdx keep i rs → row ∈ rs
  | _, [], _, h => by simp [RetainIdx.filterIdx] at h
  | i, r :: rs, row, h => by
    simp only [RetainIdx.filterIdx] at h
    split at h
    · simp only [List.mem_cons] at h ⊢
      rcases h with h | h
      · exact Or.inl h
      · exact Or.inr (filterIdx_subset keep (i + 1) rs row h)
    · exact List.mem_cons_of_mem _ (filterIdx_subset keep (i + 1) rs row h)

theorem truncate_coherent (dr : Bool) (k : Nat) (hc : c.lock n) :
    ∀ row ∈ (Model.truncate dr c k).st.rows, row ∈ c.rows := by
  rw [(C01.truncate dr k hc).st]
  intro row hr
  exact List.mem_of_mem_take hr

/-! non-vacuity: an invalid `insert` on the example container panics and changes nothing -/
example : (Model.insert false C01.exC 5 C01.exE).panicked = true ∧
    (Model.insert false C01.exC 5 C01.exE).st = C01.exC := by
  have h := C01.insert false 5 (c := C01.exC) (e := C01.exE) (n := 2) (by simp [C01.exC]) (by simp [C01.exE])
    (by simp [C01.exC, C01.exE, Cols.same, Cols.same.sameL])
  have hp : (Model.insert false C01.exC 5 C01.exE).panicked = true := by
    simp [Model.insert, firstLen_lock C01.exC 2 (by simp [C01.exC])]
  exact ⟨hp, h.atomic hp⟩

end Soa.C02
