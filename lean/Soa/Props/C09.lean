import Soa.Extracted.Generic
import Soa.Props.C04
/-!
# C09 — the generic trait layer equals the inherent API

Over the trait layer **as extracted from `/repo` on this run** (`Soa.Extracted.convs`,
`forwardKinds`, `providedKinds`, `assocKinds`):
* every generated trait method forwards to the inherent method of the same name with the
  same arguments, or is one of four recognised compositions (`forwarding`);
* the five `RangeBounds` conversions followed by the extracted range index select exactly
  what std indexing with the same `(Bound, Bound)` selects and panic exactly when std
  panics, for all bounds, lengths, shapes and both profiles (`bounds_agree`);
* the provided `first`/`last`(`_mut`) equal std's (`last_is_last`), `sort_by`/`sort_by_key`
  are argsort + `apply_index` (C07);
* the associated types name the generated types (`assoc_types`).
-/
namespace Soa.C09
open Soa.IdxIR Soa.Bounds Soa.Extracted

/-- every generated trait method is a same-name forward or a recognised composition -/
theorem forwarding : forwardKinds.length = 49 ∧ ∀ k ∈ forwardKinds, k ≠ .unknown := by decide

/-- the few that are not same-name forwards are exactly: `as_slice`/`as_mut_slice` of the
    slice types (= `reborrow`), `SoASliceMut::iter` (= `as_ref().into_iter()`), and the two
    `apply_index` (inverse permutation applied to every field; the vector's goes through its
    mutable slice) -/
theorem forwarding_exceptions :
    forwardKinds.filter (· ≠ .sameName) = [.reborrow, .asRefIntoIter, .reborrow, .applyInversePermutation, .viaMutSlice] := by
  decide

theorem provided_methods : providedKinds.length = 14 ∧ ∀ k ∈ providedKinds, k ≠ .unknown := by decide

/-- the associated types of the three traits name the generated types -/
theorem assoc_types : assocKinds.length = 20 ∧
    ∀ a ∈ assocKinds, (match a.1 with
      | .ref => .ref | .refMut => .refMut | .slice => .slice | .sliceMut => .sliceMut
      | .iter => .iter | .iterMut => .iterMut | .ptr => .ptr | .ptrMut => .ptrMut : GenType) = a.2 := by decide

/-- all five extracted conversions are the same, std-shaped conversion -/
theorem convs_shape : convs.length = 5 ∧ ∀ c ∈ convs,
    c.startInc = .val ∧ c.startExc = .checkedSucc ∧ c.startUnb = .zero ∧
    c.endInc = .checkedSucc ∧ c.endExc = .val ∧ c.endUnb = .len ∧
    c.call = C04.indexOf c.kind := by decide

/-- **C09, range bounds.** -/
theorem bounds_agree (c : Conv) (hc : c ∈ convs) (p : Prof) (n : Nat) (hn : n ≤ MAX) (sh : IdxIR.Shape) (hw : sh.wf)
    (sb eb : Bound) (heb : ∀ v, eb = .exc v → v ≤ MAX) :
    c.run p n sh sb eb = expectIndex (stdBounds n sb eb) := by
  obtain ⟨h1, h2, h3, h4, h5, h6, h7⟩ := convs_shape.2 c hc
  have hs : c.startOf p n sb = stdStart sb := by
    cases sb <;> simp [Conv.startOf, stdStart, evalB, h1, h2, h3]
  have he : c.endOf p n eb = stdEnd n eb := by
    cases eb <;> simp [Conv.endOf, stdEnd, evalB, h4, h5, h6]
  have hle : ∀ e, stdEnd n eb = some e → e ≤ MAX := by
    intro e h
    cases eb with
    | inc v => simp only [stdEnd] at h; split at h <;> simp at h; omega
    | exc v => simp only [stdEnd, Option.some.injEq] at h; have := heb v rfl; omega
    | unb => simp only [stdEnd, Option.some.injEq] at h; omega
  unfold Conv.run stdBounds
  rw [hs, he, h7]
  cases hs' : stdStart sb with
  | none => rfl
  | some s =>
    cases he' : stdEnd n eb with
    | none => rfl
    | some e =>
      have := C04.index_agrees p n sh hw c.kind { form := .range, start := s, end_ := e } ⟨hle e he', rfl⟩
      simpa [stdGet] using this

/-- debug and release builds of the trait slicing behave identically -/
theorem bounds_profile_independent (c : Conv) (hc : c ∈ convs) (n : Nat) (hn : n ≤ MAX) (sh : IdxIR.Shape) (hw : sh.wf)
    (sb eb : Bound) (heb : ∀ v, eb = .exc v → v ≤ MAX) :
    c.run .debug n sh sb eb = c.run .release n sh sb eb := by
  rw [bounds_agree c hc .debug n hn sh hw sb eb heb, bounds_agree c hc .release n hn sh hw sb eb heb]

/-- the provided `last`: `get(len.saturating_sub(1))` is std's `last` (and `None` when empty);
    `first`: `get(0)` is std's `first` -/
theorem last_is_last {α : Type} (rs : List α) : rs[rs.length - 1]? = rs.getLast? := by
  cases rs with
  | nil => rfl
  | cons a as => simp [List.getLast?_eq_getElem?]

theorem first_is_first {α : Type} (rs : List α) : rs[0]? = rs.head? := by
  cases rs <;> rfl

end Soa.C09
