import Soa.Model.Zip
import Soa.Extracted.ZipMacro
/-!
# C20 — `soa_zip!` yields the selected fields in lockstep

The model (`Soa.Zip`) has one function per rule group of `soa_zip_impl!`; the rule texts it
was written from are compared with the rules **extracted from /repo/src/lib.rs** on every
run (`rules_are_modelled`).  For every non-empty selection of fields, in any order and with
any `mut` mask, any number of externals and any lengths:

* `total`: a rule applies at every step (the only token list without a rule is the empty
  selection — `empty_selection_rejected`);
* `yields`: the tuples yielded are, for positions `0, 1, 2, … < m` where `m` is the length
  of the shortest input, the flat tuple of (references to) position `i` of the selected
  fields **in the order written**, followed by item `i` of every external — flat: every
  component is an atom, the nesting produced by the `.zip()` chain is undone by the
  generated closure, for any number of inputs;
* `mut_markers`: a component is a mutable reference exactly when its field was written
  with `mut`;
* `writes_land`: writing through every `mut` component touches exactly the positions
  `(field, i)`, `i < m`, of the `mut` fields, each once per occurrence.

Trusted: rustc's macro hygiene for the repeated binder `a` of `@flatten` (modelled as one
binder per expansion step) and std's `Zip` / `slice::Iter(Mut)`.
-/
namespace Soa.C20
open Soa.Zip

/-- **translator tie**: the macro rules in /repo today are the ones the model was written from -/
theorem rules_are_modelled : Extracted.zipRules = rulesText ∧ Extracted.zipEntry = entryText := ⟨rfl, rfl⟩

def toSrc (s : Sel) : Src := .field s.field s.mu

/-! ## `@munch` -/

theorem munch_eq : ∀ (sels : List Sel) (out : List Src), sels ≠ [] → munch sels out = some (out ++ sels.map toSrc)
  | [s], out, _ => by simp [munch, toSrc]
  | s :: s' :: t, out, _ => by
    rw [munch, munch_eq (s' :: t) _ (by simp)]
    simp [toSrc]
    all_goals simp

theorem empty_selection_rejected (out : List Src) : munch [] out = none := rfl

/-! ## `.zip()` chain -/

/-- a non-empty row `(x, ys)` nested the way a chain of `.zip()` nests it -/
def nest {α : Type} (r : α × List α) : Val α := r.2.foldl (fun acc y => .pair acc (.atom y)) (.atom r.1)

def rowsStep {α : Type} (rows : List (α × List α)) (t : List α) : List (α × List α) :=
  List.zipWith (fun r x => (r.1, r.2 ++ [x])) rows t

theorem nest_snoc {α : Type} (x : α) (ys : List α) (y : α) : nest (x, ys ++ [y]) = .pair (nest (x, ys)) (.atom y) := by
  simp [nest, List.foldl_append]

theorem zipChain_nest {α : Type} : ∀ (ts : List (List α)) (rows : List (α × List α)),
    zipChain (rows.map nest) ts = (ts.foldl rowsStep rows).map nest
  | [], rows => rfl
  | t :: ts, rows => by
    simp only [zipChain, List.foldl_cons]
    rw [← zipChain_nest ts (rowsStep rows t)]
    congr 1
    simp only [rowsStep, List.zipWith_map_left, List.map_zipWith, nest_snoc]

theorem rowsStep_len {α : Type} (d : Nat) (rows : List (α × List α)) (t : List α) (h : ∀ r ∈ rows, r.2.length = d) :
    ∀ r ∈ rowsStep rows t, r.2.length = d + 1 := by
  intro r hr
  simp only [rowsStep, List.mem_iff_getElem, List.getElem_zipWith, List.length_zipWith] at hr
  obtain ⟨i, hi, rfl⟩ := hr
  simp [h rows[i] (List.getElem_mem _)]

theorem fold_len {α : Type} : ∀ (ts : List (List α)) (d : Nat) (rows : List (α × List α)), (∀ r ∈ rows, r.2.length = d) →
    ∀ r ∈ ts.foldl rowsStep rows, r.2.length = d + ts.length
  | [], d, rows, h => by simpa using h
  | t :: ts, d, rows, h => by
    have := fold_len ts (d + 1) (rowsStep rows t) (rowsStep_len d rows t h)
    simp only [List.foldl_cons, List.length_cons]
    intro r hr
    rw [this r hr]; omega

/-! ## the generated closure -/

theorem lookup_append {α : Type} (e1 e2 : List (Nat × Val α)) (j : Nat) :
    lookup (e1 ++ e2) j = match lookup e1 j with | some v => some v | none => lookup e2 j := by
  induction e1 with
  | nil => simp [lookup]
  | cons p e ih =>
    obtain ⟨i, v⟩ := p
    simp only [List.cons_append, lookup]
    split <;> simp [ih]

theorem evalTuple_mono {α : Type} (env e2 : List (Nat × Val α)) : ∀ (tup : List Nat) (vs : List (Val α)),
    evalTuple env tup = some vs → evalTuple (env ++ e2) tup = some vs
  | [], vs, h => by simpa [evalTuple] using h
  | k :: ks, vs, h => by
    simp only [evalTuple] at h ⊢
    cases h1 : lookup env k with
    | none => simp [h1] at h
    | some v =>
      cases h2 : evalTuple env ks with
      | none => simp [h1, h2] at h
      | some ws =>
        simp only [h1, h2, Option.some.injEq] at h
        rw [lookup_append, h1, evalTuple_mono env e2 ks ws h2]
        simp [h]

theorem evalTuple_append {α : Type} (env : List (Nat × Val α)) : ∀ (a b : List Nat) (va vb : List (Val α)),
    evalTuple env a = some va → evalTuple env b = some vb → evalTuple env (a ++ b) = some (va ++ vb)
  | [], b, va, vb, ha, hb => by simp [evalTuple] at ha; simp [← ha, hb]
  | k :: ks, b, va, vb, ha, hb => by
    simp only [evalTuple, List.cons_append] at ha ⊢
    cases h1 : lookup env k with
    | none => simp [h1] at ha
    | some v =>
      cases h2 : evalTuple env ks with
      | none => simp [h1, h2] at ha
      | some ws =>
        simp only [h1, h2, Option.some.injEq] at ha
        rw [evalTuple_append env ks b ws vb h2 hb]
        simp [← ha]

/-- the closure `|p| (tup…)` undoes the nesting of rows with `d` zipped components;
    all its binders are numbered below `k` -/
def Good (α : Type) (p : Pat) (tup : List Nat) (k d : Nat) : Prop :=
  ∀ (x : α) (ys : List α), ys.length = d →
    ∃ env, p.bind (nest (x, ys)) = some env ∧ (∀ j, k ≤ j → lookup env j = none) ∧
      evalTuple env tup = some ((x :: ys).map .atom)

theorem good_base (α : Type) : Good α (.var 0) [0] 1 0 := by
  intro x ys h
  have : ys = [] := List.eq_nil_of_length_eq_zero h
  subst this
  refine ⟨[(0, .atom x)], rfl, ?_, ?_⟩
  · intro j hj
    have : ¬ 0 = j := by omega
    simp [lookup, this]
  · simp [evalTuple, lookup]

theorem good_step (α : Type) (p : Pat) (tup : List Nat) (k d : Nat) (h : Good α p tup k d) :
    Good α (.pair p (.var k)) (tup ++ [k]) (k + 1) (d + 1) := by
  intro x ys hl
  obtain ⟨ys', y, rfl⟩ : ∃ ys' y, ys = ys' ++ [y] := by
    rcases List.eq_nil_or_concat ys with h0 | ⟨l, a, h1⟩
    · subst h0; simp at hl
    · exact ⟨l, a, by simpa using h1⟩
  have hl' : ys'.length = d := by simp at hl; omega
  obtain ⟨env, hb, hk, ht⟩ := h x ys' hl'
  refine ⟨env ++ [(k, .atom y)], ?_, ?_, ?_⟩
  · rw [nest_snoc]
    simp [Pat.bind, hb]
  · intro j hj
    rw [lookup_append, hk j (by omega)]
    have : ¬ k = j := by omega
    simp [lookup, this]
  · have h1 := evalTuple_mono env [(k, .atom y)] tup _ ht
    have h2 : evalTuple (env ++ [(k, Val.atom y)]) [k] = some [.atom y] := by
      simp [evalTuple, lookup_append, hk k (Nat.le_refl k), lookup]
    have := evalTuple_append _ tup [k] _ _ h1 h2
    rw [this]
    simp

theorem flatten_good (α : Type) : ∀ (n : Nat) (p : Pat) (tup : List Nat) (k d : Nat), Good α p tup k d →
    Good α (flattenRule p tup k n).1 (flattenRule p tup k n).2 (k + n) (d + n)
  | 0, p, tup, k, d, h => by simpa [flattenRule] using h
  | n + 1, p, tup, k, d, h => by
    have := flatten_good α n _ _ _ _ (good_step α p tup k d h)
    simp only [flattenRule]
    have e1 : k + 1 + n = k + (n + 1) := by omega
    have e2 : d + 1 + n = d + (n + 1) := by omega
    rw [e1, e2] at this
    exact this

theorem mapAll_map {α β γ : Type} (f : β → Option γ) (g : α → β) (r : α → γ) : ∀ (xs : List α),
    (∀ x ∈ xs, f (g x) = some (r x)) → mapAll f (xs.map g) = some (xs.map r)
  | [], _ => rfl
  | x :: xs, h => by
    simp only [List.map_cons, mapAll]
    rw [h x (by simp), mapAll_map f g r xs (fun y hy => h y (by simp [hy]))]

/-- **`@last` + `@flatten`**: the zip chain followed by the generated closure yields the
    flat rows of its inputs, for any number of inputs -/
theorem last_flat {α : Type} (l0 : List α) (ts : List (List α)) :
    last (l0 :: ts) = some ((ts.foldl rowsStep (l0.map (fun x => (x, [])))).map (fun r => (r.1 :: r.2).map .atom)) := by
  simp only [last]
  have h0 : l0.map Val.atom = (l0.map (fun x => (x, ([] : List α)))).map nest := by
    simp [nest]
  rw [h0, zipChain_nest]
  apply mapAll_map
  intro r hr
  have hlen := fold_len ts 0 (l0.map (fun x => (x, []))) (by simp) r hr
  have hg := flatten_good α ts.length (.var 0) [0] 1 0 (good_base α)
  obtain ⟨env, hb, _, ht⟩ := hg r.1 r.2 (by omega)
  simp only [applyClosure]
  have : nest r = nest (r.1, r.2) := rfl
  rw [this, hb]
  exact ht

/-! ## columns to rows -/

theorem zipWith_range {α β γ : Type} (f : β → α → γ) (g : Nat → β) (m : Nat) (t : List α) (d : α) :
    List.zipWith f ((List.range m).map g) t = (List.range (min m t.length)).map (fun i => f (g i) (t.getD i d)) := by
  apply List.ext_getElem
  · simp
  · intro i h1 h2
    simp at h1 h2
    simp [List.getD_eq_getElem?_getD, List.getElem?_eq_getElem (show i < t.length by omega)]

/-- length of the shortest input -/
def minLen {α : Type} (m : Nat) (ts : List (List α)) : Nat := ts.foldl (fun m l => min m l.length) m

theorem fold_rows {α : Type} (d : α) (h : Nat → α) : ∀ (ts prev : List (List α)) (m : Nat),
    ts.foldl rowsStep ((List.range m).map (fun i => (h i, prev.map (·.getD i d)))) =
      (List.range (minLen m ts)).map (fun i => (h i, (prev ++ ts).map (·.getD i d)))
  | [], prev, m => by simp [minLen]
  | t :: ts, prev, m => by
    simp only [List.foldl_cons, minLen]
    have : rowsStep ((List.range m).map (fun i => (h i, prev.map (·.getD i d)))) t =
        (List.range (min m t.length)).map (fun i => (h i, (prev ++ [t]).map (·.getD i d))) := by
      unfold rowsStep
      rw [zipWith_range _ _ m t d]
      simp
    rw [this, fold_rows d h ts (prev ++ [t]) (min m t.length)]
    simp [minLen]

theorem minLen_le {α : Type} : ∀ (ts : List (List α)) (m : Nat), minLen m ts ≤ m ∧ ∀ t ∈ ts, minLen m ts ≤ t.length
  | [], m => by simp [minLen]
  | t :: ts, m => by
    have ih := minLen_le ts (min m t.length)
    simp only [minLen, List.foldl_cons] at ih ⊢
    refine ⟨by omega, ?_⟩
    intro u hu
    rcases List.mem_cons.mp hu with rfl | hu
    · omega
    · exact ih.2 u hu

/-- the zip chain over any inputs yields, for `i` below the length of the shortest input,
    the flat tuple of the `i`-th items in input order -/
theorem last_rows {α : Type} (d : α) (l0 : List α) (ts : List (List α)) :
    last (l0 :: ts) = some ((List.range (minLen l0.length ts)).map (fun i => ((l0 :: ts).map (·.getD i d)).map .atom)) := by
  rw [last_flat]
  have h0 : l0.map (fun x => (x, ([] : List α))) =
      (List.range l0.length).map (fun i => (l0.getD i d, ([] : List (List α)).map (·.getD i d))) := by
    apply List.ext_getElem
    · simp
    · intro i h1 h2
      simp at h1
      simp [List.getD_eq_getElem?_getD, List.getElem?_eq_getElem h1]
  rw [h0, fold_rows d (fun i => l0.getD i d) ts [] l0.length]
  simp

/-! ## the macro -/

/-- every input of the zip: the selected fields in the order written, then the externals -/
def inputs (sels : List Sel) (nExt : Nat) : List Src := sels.map toSrc ++ (List.range nExt).map Src.ext

/-- length of the shortest input -/
def shortest (sels : List Sel) (nExt : Nat) (flen : Nat → Nat) (ext : Nat → List Nat) : Nat :=
  match (inputs sels nExt).map (Src.items flen ext) with
  | [] => 0
  | l0 :: ts => minLen l0.length ts

/-- the tuple the property asks for at position `i` -/
def expected (sels : List Sel) (nExt : Nat) (ext : Nat → List Nat) (i : Nat) : List (Val Item) :=
  sels.map (fun s => .atom (.ref s.field i s.mu)) ++ (List.range nExt).map (fun k => .atom (.ext k ((ext k).getD i 0)))

theorem items_getD (flen : Nat → Nat) (ext : Nat → List Nat) (i : Nat) (d : Item) : ∀ (s : Src),
    i < (s.items flen ext).length →
    (s.items flen ext).getD i d = match s with | .field f m => .ref f i m | .ext k => .ext k ((ext k).getD i 0)
  | .field f m, h => by
    simp [Src.items] at h
    simp [Src.items, List.getD_eq_getElem?_getD, h]
  | .ext k, h => by
    simp [Src.items] at h
    simp [Src.items, List.getD_eq_getElem?_getD, h]

/-- **totality**: every non-empty selection, any `mut` mask, any number of externals expands -/
theorem total (sels : List Sel) (h : sels ≠ []) (nExt : Nat) (flen : Nat → Nat) (ext : Nat → List Nat) :
    (run sels nExt flen ext).isSome = true := by
  unfold run
  rw [munch_eq sels [] h]
  obtain ⟨s, t, rfl⟩ := List.exists_cons_of_ne_nil h
  simp only [List.nil_append, List.map_cons, List.cons_append]
  rw [last_flat]
  rfl

/-- **lockstep yield**: positions `0 … m-1` (`m` = shortest input), fields in the order
    written, then the externals, flat -/
theorem yields (sels : List Sel) (h : sels ≠ []) (nExt : Nat) (flen : Nat → Nat) (ext : Nat → List Nat) :
    run sels nExt flen ext =
      some ((List.range (shortest sels nExt flen ext)).map (expected sels nExt ext)) := by
  unfold run
  rw [munch_eq sels [] h]
  obtain ⟨s, t, rfl⟩ := List.exists_cons_of_ne_nil h
  simp only [List.nil_append]
  have hin : (((s :: t).map toSrc ++ (List.range nExt).map Src.ext).map (Src.items flen ext)) =
      (toSrc s).items flen ext :: ((t.map toSrc ++ (List.range nExt).map Src.ext).map (Src.items flen ext)) := by simp
  rw [hin, last_rows (Item.ext 0 0)]
  simp only [shortest, inputs, hin]
  congr 1
  apply List.map_congr_left
  intro i hi
  have hi := List.mem_range.mp hi
  have hle := minLen_le ((t.map toSrc ++ (List.range nExt).map Src.ext).map (Src.items flen ext)) ((toSrc s).items flen ext).length
  have hall : ∀ src ∈ (s :: t).map toSrc ++ (List.range nExt).map Src.ext, i < (src.items flen ext).length := by
    intro src hsrc
    simp only [List.map_cons, List.cons_append, List.mem_cons] at hsrc
    rcases hsrc with rfl | hsrc
    · omega
    · have := hle.2 (src.items flen ext) (List.mem_map.mpr ⟨src, hsrc, rfl⟩)
      omega
  rw [← hin]
  simp only [expected, List.map_append, List.map_map]
  congr 1
  · apply List.map_congr_left
    intro x hx
    have hm : toSrc x ∈ List.map toSrc (s :: t) ++ List.map Src.ext (List.range nExt) :=
      List.mem_append_left _ (List.mem_map.mpr ⟨x, hx, rfl⟩)
    have := items_getD flen ext i (Item.ext 0 0) (toSrc x) (hall _ hm)
    simp only [toSrc] at this
    simp only [Function.comp_apply, toSrc, this]
  · apply List.map_congr_left
    intro k hk
    have hm : Src.ext k ∈ List.map toSrc (s :: t) ++ List.map Src.ext (List.range nExt) :=
      List.mem_append_right _ (List.mem_map.mpr ⟨k, hk, rfl⟩)
    have := items_getD flen ext i (Item.ext 0 0) (Src.ext k) (hall _ hm)
    simp only [Function.comp_apply, this]

/-- a component is a mutable reference exactly when its field was written with `mut`, and
    refers to the field written at that place of the selection -/
theorem mut_markers (sels : List Sel) (nExt : Nat) (ext : Nat → List Nat) (i j : Nat) (hj : j < sels.length) :
    (expected sels nExt ext i)[j]? = some (.atom (.ref sels[j].field i sels[j].mu)) := by
  simp [expected, List.getElem?_append_left, hj]

/-- the externals follow the fields, in the order written -/
theorem externals_follow (sels : List Sel) (nExt : Nat) (ext : Nat → List Nat) (i k : Nat) (hk : k < nExt) :
    (expected sels nExt ext i)[sels.length + k]? = some (.atom (.ext k ((ext k).getD i 0))) := by
  simp [expected, List.getElem?_append_right, hk]

theorem writes_map (f : Nat → List (Val Item)) : ∀ (is : List Nat),
    writes (is.map f) = is.flatMap (fun i => (f i).filterMap mutTarget)
  | [] => rfl
  | i :: is => by simp [writes, writes_map f is]

theorem mut_filter (i : Nat) : ∀ (t : List Sel),
    t.filterMap (fun x => mutTarget (.atom (.ref x.field i x.mu))) = (t.filter (·.mu)).map (fun s => (s.field, i))
  | [] => rfl
  | s :: t => by
    have ih := mut_filter i t
    simp only [List.filterMap_cons, List.filter_cons]
    rw [ih]
    cases hm : s.mu <;> simp [mutTarget]

/-- **writes land in the corresponding element**: writing through every `mut` component of
    every yielded tuple touches exactly position `i` of each `mut` field, for `i < m` -/
theorem writes_land (sels : List Sel) (h : sels ≠ []) (nExt : Nat) (flen : Nat → Nat) (ext : Nat → List Nat) :
    (run sels nExt flen ext).map writes =
      some ((List.range (shortest sels nExt flen ext)).flatMap
        (fun i => (sels.filter (·.mu)).map (fun s => (s.field, i)))) := by
  rw [yields sels h, Option.map_some, writes_map]
  congr 2
  funext i
  simp only [expected, List.filterMap_append]
  have h2 : ((List.range nExt).map (fun k => Val.atom (Item.ext k ((ext k).getD i 0)))).filterMap
      mutTarget = [] := by
    simp [List.filterMap_map, Function.comp_def, mutTarget]
  rw [h2, List.append_nil, List.filterMap_map]
  exact mut_filter i sels

/-! non-vacuity / shape of the result on a concrete invocation:
    `soa_zip!(&mut v, [c, mut a], &e0)` on 3 elements with an external of 2 items -/
example : run [⟨2, false⟩, ⟨0, true⟩] 1 (fun _ => 3) (fun _ => [1000, 1001]) =
    some [[.atom (.ref 2 0 false), .atom (.ref 0 0 true), .atom (.ext 0 1000)],
          [.atom (.ref 2 1 false), .atom (.ref 0 1 true), .atom (.ext 0 1001)]] := by decide
example : run [] 1 (fun _ => 3) (fun _ => [1000, 1001]) = none := by decide

end Soa.C20
