import Soa.Model.Accept
import Soa.Extracted.Shape
/-!
# C13 — the derive is total and hygienic over struct shapes — **partial**

That rustc type-checks the generated code without warnings under the strict lint set is
outside any model built here: it is covered by the probe run (shape grammar sampled by seed
plus a corner corpus, compiled with the lint header of `example/`).  What is proved:

* `table_agrees`: on a corpus of declarations (named structs of 1…40 fields, visibilities,
  raw identifiers, nested fields; tuple / unit / empty structs; enums; unions; `Copy` in any
  position; well- and ill-formed `soa_attr`; several attributes in either order) the **real**
  `Input::new` + generators of /repo accept / panic exactly as `accept` says, with the
  diagnostic it says;
* `accept_iff`: code is generated **iff** the declaration is a struct with named fields, at
  least one field, no `Copy` request and only well-formed `soa_attr`s — and
  `unsupported_rejected`: enums, unions, tuple structs, unit structs and `Copy` requests all
  get a diagnostic, whatever else the declaration says;
* hygiene, over the binder / use events **extracted** from every generated function that
  binds field-named or generator-private locals: for every naming of the fields that is
  injective and avoids the function's reserved strings, every use resolves to its own binder
  (`hygienic_of_avoid`, from `resolveBy_congr` + a `decide`d symbolic check of the table);
  a field named like a fixed local of the templates is harmless in every extracted
  function (`fixed_collisions_harmless`, all assignments enumerated); the full-strength
  statement ("any identifier") is decided by how the generator builds its private names
  (`private_binders_hygienic` — the extracted span constructor);
* `api_complete`: the documented API is generated, with and without the cloning API.
-/
namespace Soa.C13
open Soa.Accept

/-! ## acceptance -/

/-- **translator tie**: the real derive accepts / rejects every declaration of the corpus as the model says -/
theorem table_agrees : Extracted.acceptTable.all (fun r => decide (accept r.1 = r.2)) = true := by decide +kernel

theorem firstBad_none_iff : ∀ ds : List Dir, firstBad ds = none ↔
    (∀ ts, Dir.traits ts ∈ ds → Tr.Copy ∉ ts) ∧ (∀ a, Dir.attr a ∈ ds → a = .okKind)
  | [] => by simp [firstBad]
  | .traits ts :: ds => by
    simp only [firstBad, List.mem_cons, Dir.traits.injEq, reduceCtorEq, false_or]
    by_cases h : ts.contains Tr.Copy = true
    · simp only [h, ↓reduceIte, reduceCtorEq, false_iff, not_and]
      intro h1
      exact absurd (by simpa using h) (h1 ts (.inl rfl))
    · simp only [h, Bool.false_eq_true, ↓reduceIte]
      rw [firstBad_none_iff ds]
      constructor
      · rintro ⟨h1, h2⟩
        refine ⟨fun us hu => ?_, h2⟩
        rcases hu with rfl | hu
        · simpa using h
        · exact h1 us hu
      · rintro ⟨h1, h2⟩
        exact ⟨fun us hu => h1 us (.inr hu), h2⟩
  | .attr .okKind :: ds => by
    simp only [firstBad, List.mem_cons, reduceCtorEq, false_or, Dir.attr.injEq]
    rw [firstBad_none_iff ds]
    constructor
    · rintro ⟨h1, h2⟩
      exact ⟨h1, fun a ha => ha.elim (fun h => h) (h2 a)⟩
    · rintro ⟨h1, h2⟩
      exact ⟨h1, fun a ha => h2 a (.inr ha)⟩
  | .attr .badKind :: ds => by
    simp only [firstBad, reduceCtorEq, List.mem_cons, false_or, Dir.attr.injEq, false_iff, not_and]
    intro _ h
    exact absurd (h .badKind (.inl rfl)) (by decide)
  | .attr .badShape :: ds => by
    simp only [firstBad, reduceCtorEq, List.mem_cons, false_or, Dir.attr.injEq, false_iff, not_and]
    intro _ h
    exact absurd (h .badShape (.inl rfl)) (by decide)

/-- **totality on the supported inputs and only there** -/
theorem accept_iff (d : Decl) :
    accept d = none ↔ d.kind = .namedStruct ∧ 1 ≤ d.nFields ∧
      (∀ ts, Dir.traits ts ∈ d.dirs → Tr.Copy ∉ ts) ∧ (∀ a, Dir.attr a ∈ d.dirs → a = .okKind) ∨
      -- (a unit struct has no fields; a declaration `⟨unitStruct, n+1, _⟩` does not exist)
      (d.kind = .unitStruct ∧ 1 ≤ d.nFields ∧ firstBad d.dirs = none) := by
  rw [← firstBad_none_iff]
  obtain ⟨k, n, ds⟩ := d
  cases k <;> simp only [accept, reduceCtorEq, false_and, and_false, or_false, false_or, true_and] <;>
    by_cases hn : n = 0 <;> simp [hn] <;> cases firstBad ds <;> simp <;> omega

/-- **every unsupported input is rejected with a diagnostic**, whatever else it says -/
theorem unsupported_rejected (d : Decl) :
    (d.kind = .enum_ ∨ d.kind = .union_ → accept d = some .notStruct) ∧
    (d.kind = .tupleStruct → (accept d).isSome = true) ∧
    (d.nFields = 0 → (accept d).isSome = true) ∧
    ((∃ ts, Dir.traits ts ∈ d.dirs ∧ Tr.Copy ∈ ts) → (accept d).isSome = true) := by
  refine ⟨?_, ?_, ?_, ?_⟩
  · rintro (h | h) <;> simp [accept, h]
  · intro h
    simp only [accept, h]
    by_cases hn : d.nFields = 0
    · simp [hn]
    · simp only [hn, ↓reduceIte]
      cases firstBad d.dirs <;> simp
  · intro h
    cases hk : d.kind <;> simp [accept, h, hk]
  · rintro ⟨ts, hm, hc⟩
    cases h : accept d with
    | some _ => rfl
    | none =>
      have := (accept_iff d).mp h
      rcases this with ⟨_, _, h1, _⟩ | ⟨_, _, h3⟩
      · exact absurd hc (h1 ts hm)
      · exact absurd hc (((firstBad_none_iff d.dirs).mp h3).1 ts hm)

/-! ## hygiene -/

theorem find_congr {α : Type} (p q : α → Bool) : ∀ (l : List α), (∀ x ∈ l, p x = q x) → l.find? p = l.find? q
  | [], _ => rfl
  | x :: xs, h => by
    simp only [List.find?_cons]
    rw [h x (by simp), find_congr p q xs (fun y hy => h y (by simp [hy]))]

/-- resolution only depends on which names have equal keys -/
theorem resolveBy_congr {κ₁ κ₂ : Type} [DecidableEq κ₁] [DecidableEq κ₂] (k₁ : Name → κ₁) (k₂ : Name → κ₂)
    (S : List Name) (h : ∀ a ∈ S, ∀ b ∈ S, (k₁ a = k₁ b ↔ k₂ a = k₂ b)) :
    ∀ (evs : List Ev) (env : List Name), (∀ n ∈ env, n ∈ S) → (∀ e ∈ evs, e.name ∈ S) →
      resolveBy k₁ env evs = resolveBy k₂ env evs
  | [], _, _, _ => rfl
  | .bind n :: es, env, he, hs => by
    simp only [resolveBy]
    apply resolveBy_congr k₁ k₂ S h es
    · intro m hm
      rcases List.mem_cons.mp hm with rfl | hm
      · exact hs (.bind _) (by simp)
      · exact he m hm
    · exact fun e hm => hs e (by simp [hm])
  | .use n :: es, env, he, hs => by
    simp only [resolveBy]
    have hn : n ∈ S := hs (.use n) (by simp)
    have : lookupBy k₁ env n = lookupBy k₂ env n := by
      unfold lookupBy
      apply find_congr
      intro m hm
      have := h m (he m hm) n hn
      by_cases h1 : k₁ m = k₁ n <;> simp [h1, this.mp, (not_congr this).mp] <;> simp_all
    rw [this, resolveBy_congr k₁ k₂ S h es env he (fun e hm => hs e (by simp [hm]))]

def names (evs : List Ev) : List Name := evs.map Ev.name

/-- the non-field names of the function have pairwise different keys (a fact about concrete strings) -/
def nonFieldDistinct (hyg : Bool) (evs : List Ev) : Bool :=
  (names evs).all (fun a => (names evs).all (fun b =>
    match a, b with
    | .field _, _ => true
    | _, .field _ => true
    | a, b => decide (key hyg (fun _ => "") a = key hyg (fun _ => "") b → a = b)))

theorem key_nonfield (hyg : Bool) (ν ν' : Nat → String) : ∀ n : Name, (∀ i, n ≠ .field i) → key hyg ν n = key hyg ν' n
  | .field i, h => absurd rfl (h i)
  | .fixed _, _ => rfl
  | .priv _ _, _ => rfl

theorem key_mem_reserved (hyg : Bool) (ν : Nat → String) (evs : List Ev) (n : Name) (hn : n ∈ names evs)
    (hnf : ∀ i, n ≠ .field i) (s : String) (hk : key hyg ν n = .inl s) : s ∈ reservedOf hyg evs := by
  simp only [names, List.mem_map] at hn
  obtain ⟨e, he, rfl⟩ := hn
  simp only [reservedOf, List.mem_filterMap]
  refine ⟨e, he, ?_⟩
  cases hname : e.name with
  | field i => exact absurd hname (hnf i)
  | fixed t =>
    rw [hname] at hk
    simp only [key, Sum.inl.injEq] at hk
    simp [hk]
  | priv f i =>
    rw [hname] at hk
    cases hyg
    · simp only [key, Bool.false_eq_true, ↓reduceIte, Sum.inl.injEq] at hk
      simp only [Bool.false_eq_true, ↓reduceIte, hk]
    · simp [key] at hk

/-- **hygiene for every admissible naming**: if the field names are pairwise different and none
    of them is a reserved string of the function, every use resolves exactly as it does when
    all names are different -/
theorem hygienic_of_avoid (hyg : Bool) (ν : Nat → String) (evs : List Ev)
    (hinj : ∀ i j, Name.field i ∈ names evs → Name.field j ∈ names evs → ν i = ν j → i = j)
    (havoid : ∀ i, Name.field i ∈ names evs → ν i ∉ reservedOf hyg evs)
    (hdist : nonFieldDistinct hyg evs = true) :
    hygienic hyg ν evs = hygienicSym evs := by
  unfold hygienic hygienicSym
  apply resolveBy_congr (key hyg ν) id (names evs)
  · intro a ha b hb
    simp only [id_eq]
    constructor
    · intro hk
      cases a with
      | field i =>
        cases b with
        | field j =>
          simp only [key, Sum.inl.injEq] at hk
          rw [hinj i j ha hb hk]
        | fixed s =>
          exact absurd (key_mem_reserved hyg ν evs (.fixed s) hb (by simp) (ν i) hk.symm) (havoid i ha)
        | priv f k =>
          exact absurd (key_mem_reserved hyg ν evs (.priv f k) hb (by simp) (ν i) hk.symm) (havoid i ha)
      | fixed s =>
        cases b with
        | field j =>
          exact absurd (key_mem_reserved hyg ν evs (.fixed s) ha (by simp) (ν j) hk) (havoid j hb)
        | fixed t =>
          simp only [nonFieldDistinct, List.all_eq_true] at hdist
          have := hdist _ ha _ hb
          simp only [decide_eq_true_eq] at this
          exact this (by rw [← key_nonfield hyg ν _ _ (by simp), ← key_nonfield hyg ν _ _ (by simp)]; exact hk)
        | priv f k =>
          simp only [nonFieldDistinct, List.all_eq_true] at hdist
          have := hdist _ ha _ hb
          simp only [decide_eq_true_eq] at this
          exact this (by rw [← key_nonfield hyg ν _ _ (by simp), ← key_nonfield hyg ν _ _ (by simp)]; exact hk)
      | priv f k =>
        cases b with
        | field j =>
          exact absurd (key_mem_reserved hyg ν evs (.priv f k) ha (by simp) (ν j) hk) (havoid j hb)
        | fixed t =>
          simp only [nonFieldDistinct, List.all_eq_true] at hdist
          have := hdist _ ha _ hb
          simp only [decide_eq_true_eq] at this
          exact this (by rw [← key_nonfield hyg ν _ _ (by simp), ← key_nonfield hyg ν _ _ (by simp)]; exact hk)
        | priv g l =>
          simp only [nonFieldDistinct, List.all_eq_true] at hdist
          have := hdist _ ha _ hb
          simp only [decide_eq_true_eq] at this
          exact this (by rw [← key_nonfield hyg ν _ _ (by simp), ← key_nonfield hyg ν _ _ (by simp)]; exact hk)
    · intro h; rw [h]
  · simp
  · intro e he
    exact List.mem_map.mpr ⟨e, he, rfl⟩

/-- are the generator's private binders created in their own hygiene context? (extracted) -/
def privHygienic : Bool := Extracted.privateSpans.all (fun p => p.2.2 == "mixed_site")

/-- on the extracted table: with all names different every use resolves to its own binder, and the
    non-field names are different strings -/
theorem table_symbolic : Extracted.binderFns.all (fun f => hygienicSym f.2 && nonFieldDistinct privHygienic f.2) = true := by
  decide +kernel

/-- **hygiene of every extracted function for every admissible naming of the fields** -/
theorem hygiene (ν : Nat → String) (f : String × List Ev) (hf : f ∈ Extracted.binderFns)
    (hinj : ∀ i j, ν i = ν j → i = j) (havoid : ∀ i, ν i ∉ reservedOf privHygienic f.2) :
    hygienic privHygienic ν f.2 = true := by
  have h := List.all_eq_true.mp table_symbolic f hf
  simp only [Bool.and_eq_true] at h
  rw [hygienic_of_avoid privHygienic ν f.2 (fun i j _ _ => hinj i j) (fun i _ => havoid i) h.2]
  exact h.1

/-- fresh field names, different from every string of the generator -/
def fresh (i : Nat) : String := "§" ++ toString i

/-- all ways of naming the three schematic fields after fixed locals of the function (or freshly) -/
def assignments (evs : List Ev) : List (List String) :=
  let pool := (reservedOf true evs).eraseDups
  let opts := fun (i : Nat) => fresh i :: pool
  (opts 0).flatMap (fun a => (opts 1).flatMap (fun b => (opts 2).map (fun c => [a, b, c])))

/-- **a field named like a fixed local of the templates is harmless**: for every extracted
    function and every injective assignment of fixed-local names (or fresh names) to the
    three schematic fields, every use still resolves to its own binder -/
theorem fixed_collisions_harmless :
    Extracted.binderFns.all (fun f => (assignments f.2).all (fun ν =>
      !(ν.eraseDups.length == 3) || hygienic true (fun i => ν.getD i "") f.2)) = true := by
  decide +kernel

/-- how the generator builds its private binder names today -/
theorem private_binders_hygienic : privHygienic = true := by decide +kernel

/-! ## API completeness -/

/-- the documented API (owner type of the schematic struct `P`, function): the `Vec<T>` / slice
    mirror, the views, references, pointers and iterators -/
def documentedApi : List (String × String) := [
  ("PVec", "new"), ("PVec", "with_capacity"), ("PVec", "capacity"), ("PVec", "reserve"), ("PVec", "reserve_exact"),
  ("PVec", "shrink_to_fit"), ("PVec", "truncate"), ("PVec", "push"), ("PVec", "len"), ("PVec", "is_empty"),
  ("PVec", "swap_remove"), ("PVec", "insert"), ("PVec", "replace"), ("PVec", "remove"), ("PVec", "pop"),
  ("PVec", "append"), ("PVec", "clear"), ("PVec", "split_off"), ("PVec", "as_slice"), ("PVec", "as_mut_slice"),
  ("PVec", "slice"), ("PVec", "slice_mut"), ("PVec", "retain"), ("PVec", "retain_mut"), ("PVec", "get"), ("PVec", "get_mut"),
  ("PVec", "index"), ("PVec", "index_mut"), ("PVec", "as_ptr"), ("PVec", "as_mut_ptr"), ("PVec", "iter"), ("PVec", "iter_mut"),
  ("PVec", "get_unchecked"), ("PVec", "get_unchecked_mut"), ("PVec", "from_raw_parts"),
  ("P", "as_ref"), ("P", "as_mut"),
  ("PRef<'a>", "to_owned"), ("PRef<'a>", "as_ptr"), ("PRefMut<'a>", "to_owned"), ("PRefMut<'a>", "replace"),
  ("PRefMut<'a>", "as_ptr"), ("PRefMut<'a>", "as_mut_ptr"),
  ("PPtr", "as_mut_ptr"), ("PPtr", "is_null"), ("PPtr", "as_ref"), ("PPtr", "offset"), ("PPtr", "wrapping_offset"),
  ("PPtr", "add"), ("PPtr", "sub"), ("PPtr", "wrapping_add"), ("PPtr", "wrapping_sub"), ("PPtr", "read"),
  ("PPtr", "read_volatile"), ("PPtr", "read_unaligned"),
  ("PPtrMut", "as_ptr"), ("PPtrMut", "is_null"), ("PPtrMut", "as_ref"), ("PPtrMut", "as_mut"), ("PPtrMut", "offset"),
  ("PPtrMut", "wrapping_offset"), ("PPtrMut", "add"), ("PPtrMut", "sub"), ("PPtrMut", "wrapping_add"), ("PPtrMut", "wrapping_sub"),
  ("PPtrMut", "read"), ("PPtrMut", "read_volatile"), ("PPtrMut", "read_unaligned"), ("PPtrMut", "write"),
  ("PPtrMut", "write_volatile"), ("PPtrMut", "write_unaligned"),
  ("PSlice<'a>", "len"), ("PSlice<'a>", "is_empty"), ("PSlice<'a>", "first"), ("PSlice<'a>", "split_first"), ("PSlice<'a>", "last"),
  ("PSlice<'a>", "split_last"), ("PSlice<'a>", "split_at"), ("PSlice<'a>", "get"), ("PSlice<'a>", "index"), ("PSlice<'a>", "reborrow"),
  ("PSlice<'a>", "as_ptr"), ("PSlice<'a>", "iter"), ("PSlice<'a>", "into_iter"), ("PSlice<'a>", "get_unchecked"), ("PSlice<'a>", "from_raw_parts"),
  ("PSliceMut<'a>", "as_ref"), ("PSliceMut<'a>", "len"), ("PSliceMut<'a>", "is_empty"), ("PSliceMut<'a>", "first_mut"),
  ("PSliceMut<'a>", "split_first_mut"), ("PSliceMut<'a>", "last_mut"), ("PSliceMut<'a>", "split_last_mut"), ("PSliceMut<'a>", "split_at_mut"),
  ("PSliceMut<'a>", "swap"), ("PSliceMut<'a>", "get"), ("PSliceMut<'a>", "index"), ("PSliceMut<'a>", "get_mut"), ("PSliceMut<'a>", "index_mut"),
  ("PSliceMut<'a>", "as_slice"), ("PSliceMut<'a>", "reborrow"), ("PSliceMut<'a>", "as_ptr"), ("PSliceMut<'a>", "as_mut_ptr"),
  ("PSliceMut<'a>", "sort_by"), ("PSliceMut<'a>", "sort_by_key"), ("PSliceMut<'a>", "iter"), ("PSliceMut<'a>", "iter_mut"),
  ("PSliceMut<'a>", "into_iter"), ("PSliceMut<'a>", "get_unchecked"), ("PSliceMut<'a>", "get_unchecked_mut"), ("PSliceMut<'a>", "from_raw_parts_mut"),
  ("PIter<'a>", "next"), ("PIter<'a>", "next_back"), ("PIter<'a>", "size_hint"), ("PIter<'a>", "len"),
  ("PIterMut<'a>", "next"), ("PIterMut<'a>", "next_back"), ("PIterMut<'a>", "size_hint"), ("PIterMut<'a>", "len"),
  ("PVec", "from_iter"), ("PVec", "extend"), ("PVec", "drop")]

/-- only with `#[soa_derive(Clone)]` -/
def cloneApi : List (String × String) := [("PVec", "resize"), ("PVec", "extend_from_slice"), ("PSlice<'a>", "to_vec"), ("PSliceMut<'a>", "to_vec")]

def has (api : List (String × String × String)) (p : String × String) : Bool := api.any (fun a => a.1 == p.1 && a.2.2 == p.2)

/-- **the documented API is generated**, with and without the cloning API; the cloning API only on request -/
theorem api_complete :
    documentedApi.all (has Extracted.apiNoClone) = true ∧ documentedApi.all (has Extracted.apiClone) = true ∧
    cloneApi.all (has Extracted.apiClone) = true ∧ cloneApi.all (fun p => !has Extracted.apiNoClone p) = true := by
  decide +kernel

/-- the trait layer is generated for the three container kinds -/
theorem trait_layer :
    (["::soa_derive::SoAVec<P>", "::soa_derive::SoASlice<P>", "::soa_derive::SoASliceMut<P>", "::soa_derive::SoAIter<'a>"].all
      (fun t => Extracted.apiNoClone.any (fun a => a.2.1 == t) || t == "::soa_derive::SoAIter<'a>")) = true := by
  decide +kernel

/-! ## witnesses -/

/-- with call-site private binders a field may capture one: the full-strength statement is false -/
example : hygienic false (fun i => ["x", "___soa_derive_private_slice_1_0", "z"].getD i "")
    [.bind (.field 0), .bind (.priv "___soa_derive_private_slice_1" 0), .bind (.field 1), .bind (.priv "___soa_derive_private_slice_1" 1),
     .use (.field 0), .use (.field 1), .use (.priv "___soa_derive_private_slice_1" 0)] = false := by decide
/-- with hygienic private binders the same naming is fine -/
example : hygienic true (fun i => ["x", "___soa_derive_private_slice_1_0", "z"].getD i "")
    [.bind (.field 0), .bind (.priv "___soa_derive_private_slice_1" 0), .bind (.field 1), .bind (.priv "___soa_derive_private_slice_1" 1),
     .use (.field 0), .use (.field 1), .use (.priv "___soa_derive_private_slice_1" 0)] = true := by decide
example : accept ⟨.namedStruct, 3, [.traits [.Debug, .Clone], .attr .okKind]⟩ = none := by decide
example : accept ⟨.tupleStruct, 2, [.traits [.Debug]]⟩ = some .unnamedField := by decide

end Soa.C13
