import Soa.Lemmas.Positions
import Batteries.Data.List.Perm
import Soa.Model.Pinned
import Soa.Extracted.Bodies
/-!
# C07 — sorting and reordering move all fields by one stable permutation

The generated code computes a permutation of positions with the user's comparator applied
to the *rows* (`permutation.sort_by(|j, k| f(self.index(*j), self.index(*k)))`) and then
applies it to every field array, nested ones included (`gatherWin`: `new[i] = old[p[i]]`
in every leaf — the functional meaning of `Permutation::oneline(p).inverse()
.apply_slice_in_place`, validated against the real crate by the correspondence).

For every shape, every lockstep container, every window (whole slice or sub-slice) and every
comparator: the rows afterwards are the rows before with the window replaced by its stable
merge sort — which is std's `sort_by` on the array of structs (the output of a stable sort
is unique for a total preorder).  `apply_index p` puts old element `p[i]` at position `i`.
The multiset of elements is preserved.
-/
namespace Soa.C07
open Soa View

theorem mapLeaves_congr (f g : List Nat → List Nat) (n : Nat) (h : ∀ xs : List Nat, xs.length = n → f xs = g xs) :
    ∀ c : Cols, c.lock n → mapLeaves f c = mapLeaves g c
  | .leaf xs, hc => by simp [mapLeaves, h xs (lock_leaf.mp hc)]
  | .nest fs, hc => by
    rw [lock_nest] at hc
    simp only [mapLeaves]
    congr 1
    exact go fs hc.2
where go : ∀ fs : List Cols, (∀ c ∈ fs, c.lock n) → mapLeaves.mapLeavesL f fs = mapLeaves.mapLeavesL g fs
  | [], _ => rfl
  | c :: cs, hc => by
    simp only [mapLeaves.mapLeavesL]
    rw [mapLeaves_congr f g n h c (hc c (by simp)), go cs (fun x hx => hc x (by simp [hx]))]

theorem map_getD_eq_filterMap {α : Type} (xs : List α) (d : α) (ps : List Nat) (h : ∀ p ∈ ps, p < xs.length) :
    ps.map (fun p => xs.getD p d) = ps.filterMap (xs[·]?) := by
  induction ps with
  | nil => rfl
  | cons p ps ih =>
    have hp := h p (by simp)
    simp only [List.map_cons, List.filterMap_cons, List.getElem?_eq_getElem hp]
    rw [ih (fun q hq => h q (by simp [hq]))]
    simp [List.getD_eq_getElem?_getD, List.getElem?_eq_getElem hp]

/-- **one permutation for all fields**: gathering every leaf array (of every nested
    container) by the positions `ps` inside the window `w` gathers the rows -/
theorem gatherWin_rows (c : Cols) (n : Nat) (hc : c.lock n) (w : Win) (ps : List Nat) (hps : ∀ p ∈ ps, p < n) :
    (gatherWin c w ps).rows = c.rows.take w.s ++ ps.filterMap (c.rows[·]?) ++ c.rows.drop (w.s + w.l) := by
  unfold gatherWin
  rw [mapLeaves_congr _ (fun l => l.take w.s ++ ps.filterMap (l[·]?) ++ l.drop (w.s + w.l)) n (by
    intro xs hx
    rw [map_getD_eq_filterMap xs 0 ps (by intro p hp; rw [hx]; exact hps p hp)]) c hc]
  exact mapLeaves_rows (fun _ => true) (fun xs => xs.take w.s ++ ps.filterMap (xs[·]?) ++ xs.drop (w.s + w.l))
    (by intros; simp [List.map_take, List.map_drop, List.map_filterMap]) n rfl c hc

theorem isPerm_bound (p : List Nat) (n : Nat) (h : isPerm p n = true) : p.length = n ∧ ∀ i ∈ p, i < n := by
  simp only [isPerm, Bool.and_eq_true, beq_iff_eq, List.all_eq_true, List.mem_range, List.contains_eq_mem,
    decide_eq_true_eq] at h
  refine ⟨h.1, ?_⟩
  -- a list of length n containing every number below n contains nothing else (pigeonhole)
  intro i hi
  rcases Nat.lt_or_ge i n with hlt | hge
  · exact hlt
  exfalso
  have hsub : List.range n ⊆ p.erase i := by
    intro j hj
    have hjn := List.mem_range.mp hj
    have hjp := h.2 j hjn
    exact (List.mem_erase_of_ne (by omega)).mpr hjp
  have hlen := List.Subperm.length_le (List.subperm_of_subset (List.nodup_range) hsub)
  rw [List.length_range, List.length_erase_of_mem hi] at hlen
  have h1 := h.1
  have hpos := List.length_pos_of_mem hi
  omega

/-- **`apply_index p`**: the old element `p[i]` ends up at position `i`, in every field -/
theorem apply_index (c : Cols) (n : Nat) (hc : c.lock n) (p : List Nat) (hp : isPerm p n = true) :
    (gatherWin c ⟨0, n⟩ p).rows = p.filterMap (c.rows[·]?) := by
  have hb := isPerm_bound p n hp
  rw [gatherWin_rows c n hc ⟨0, n⟩ p hb.2]
  simp [List.drop_of_length_le (Nat.le_of_eq (rows_len n c hc))]

/-- argsort over a window of positions, then gather = merge sort of that window of rows -/
theorem argsort_window {α : Type} (le : α → α → Bool) (R : List α) (d : α) (w : Win) (hw : w.s + w.l ≤ R.length) :
    ((List.range' w.s w.l).mergeSort (fun j k => le (R.getD j d) (R.getD k d))).map (R.getD · d) =
      ((R.drop w.s).take w.l).mergeSort le := by
  have h := List.map_mergeSort (r := fun j k => le (R.getD j d) (R.getD k d)) (s := le)
      (f := (R.getD · d)) (l := List.range' w.s w.l) (by intros; rfl)
  rw [h]
  congr 1
  apply List.ext_getElem
  · simp; omega
  · intro i h1 h2
    simp at h1 h2
    have : w.s + i < R.length := by omega
    simp [List.getD_eq_getElem?_getD, List.getElem?_eq_getElem this]

/-- **sorting** (whole slice or sub-slice, any comparator on rows): the window of rows is
    replaced by its stable merge sort, the rest is untouched — every field array, nested
    ones included, moved by the same permutation -/
theorem sort_rows (c : Cols) (n : Nat) (hc : c.lock n) (w : Win) (hw : w.s + w.l ≤ n)
    (le : Elem → Elem → Bool) (d : Elem) :
    (gatherWin c w ((List.range' w.s w.l).mergeSort
        (fun j k => le (c.rows.getD j d) (c.rows.getD k d)))).rows =
      c.rows.take w.s ++ ((c.rows.drop w.s).take w.l).mergeSort le ++ c.rows.drop (w.s + w.l) := by
  have hlen := rows_len n c hc
  have hmem : ∀ p ∈ (List.range' w.s w.l).mergeSort (fun j k => le (c.rows.getD j d) (c.rows.getD k d)), p < n := by
    intro p hp
    have := (List.mem_mergeSort).mp hp
    simp [List.mem_range'] at this
    omega
  rw [gatherWin_rows c n hc w _ hmem]
  rw [← map_getD_eq_filterMap c.rows d _ (by intro p hp; rw [hlen]; exact hmem p hp)]
  rw [argsort_window le c.rows d w (by omega)]

/-- what the executable model compares (ids read at positions of the columns) is what the
    specification compares (ids of the rows) -/
theorem key_on_columns (c : Cols) (n : Nat) (hc : c.lock n) (p : Nat) (hp : p < n) (d : Elem)
    (key : List Nat → Nat) : key (rowIds c p) = key (c.rows.getD p d).ids := by
  obtain ⟨r, h1, h2⟩ := rowIds_eq c n p hc hp
  rw [h2]
  simp [List.getD_eq_getElem?_getD, h1]

/-- the multiset of elements is preserved -/
theorem sort_perm (R : List Elem) (w : Win) (le : Elem → Elem → Bool) :
    (R.take w.s ++ ((R.drop w.s).take w.l).mergeSort le ++ R.drop (w.s + w.l)).Perm R := by
  have h1 : (((R.drop w.s).take w.l).mergeSort le).Perm ((R.drop w.s).take w.l) := List.mergeSort_perm _ _
  have h2 : R = R.take w.s ++ ((R.drop w.s).take w.l) ++ R.drop (w.s + w.l) := by
    rw [List.append_assoc, ← List.drop_drop, List.take_append_drop, List.take_append_drop]
  conv => rhs; rw [h2]
  exact List.Perm.append_right _ (List.Perm.append_left _ h1)

/-- the sorted window is ordered and the sort is stable: any ordered sub-sequence of the
    window keeps its relative order (in particular equal keys keep their original order) -/
theorem sort_sorted_stable (seg : List Elem) (le : Elem → Elem → Bool)
    (trans : ∀ a b c, le a b = true → le b c = true → le a c = true)
    (total : ∀ a b, (le a b || le b a) = true) :
    (seg.mergeSort le).Pairwise (fun a b => le a b = true) ∧
    ∀ sub : List Elem, sub.Sublist seg → sub.Pairwise (fun a b => le a b = true) → sub.Sublist (seg.mergeSort le) :=
  ⟨List.pairwise_mergeSort trans total seg, fun sub hs hp => List.sublist_mergeSort trans total hp hs⟩

/-! non-vacuity: a nested 3-field container, sorting positions 0..3 by a key -/
def exC : Cols := .nest [.leaf [8, 16, 24], .nest [.leaf [9, 17, 25], .leaf [10, 18, 26]]]
example : exC.lock 3 := by simp [exC]
example : (gatherWin exC ⟨0, 3⟩ [2, 0, 1]).leaves = [[24, 8, 16], [25, 9, 17], [26, 10, 18]] := by decide
example : isPerm [2, 0, 1] 3 = true := by decide

/-- **text pin**: the generated functions this property's hand-written model describes have, in
    /repo today, exactly the text the model was written from (`Soa/Model/Pinned.lean`) -/
theorem bodies_pinned : Soa.Extracted.bodies_C07 = Soa.Model.pinned_C07 := rfl

theorem bodies_pinned_nonempty : Soa.Model.pinned_C07.length ≥ 4 := by decide

end Soa.C07
