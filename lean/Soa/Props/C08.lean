import Soa.Lemmas.SpecRetainW
import Soa.Props.C01
import Soa.Lemmas.Ledger
/-!
# C08 — a struct's own destructor runs exactly once per element the container destroys

`dropT` lists the struct-destructor runs of a call (named by the element's first leaf id).
For the destroying operations (`truncate`, `clear`, dropping the vector, the discards of
`retain`) it is, as a multiset, the first ids of exactly the rows `Vec<T>` destroys; for the
operations that move an element in or hand one back it is empty.
-/
namespace Soa.C08
open Soa

abbrev firstId (r : Elem) : Nat := r.firstId

theorem firstLeaf_one (e : Cols) (he : e.lock 1) : ∃ r, e.rows = [r] ∧ e.firstLeaf = [firstId r] := by
  obtain ⟨r, h1, h2⟩ := one_row e he
  refine ⟨r, h1, ?_⟩
  unfold Cols.firstLeaf
  show _ = [r.ids.headD 0]
  have hne := leaves_ne_nil e 1 he
  cases hl : e.leaves with
  | nil => exact absurd hl hne
  | cons l ls =>
    have hlen := leaves_lock 1 e he l (by simp [hl])
    simp only [List.headD_cons]
    unfold Cols.flat at h2
    rw [hl] at h2
    match l, hlen with
    | [v], _ =>
      simp only [List.flatten_cons, List.cons_append, List.nil_append] at h2
      rw [← h2]; rfl

/-- the pop loop runs the destructor once for each discarded row -/
theorem truncateLoop_dropT (k : Nat) : ∀ (fuel n : Nat) (c : Cols) (ev : Ev),
    c.lock n → n - k < fuel →
    (Model.truncateLoop true k fuel c ev).ev.dropT.Perm (ev.dropT ++ (c.rows.drop k).map firstId)
  | 0, _, _, _, _, h => by omega
  | fuel + 1, n, c, ev, hc, hf => by
    simp only [Model.truncateLoop]
    rw [firstLen_lock c n hc]
    by_cases hk : n > k
    · obtain ⟨m, rfl⟩ : ∃ m, n = m + 1 := ⟨n - 1, by omega⟩
      obtain ⟨st, e, hpop, hl, he, _, hrows, herows⟩ := pop_ok c m hc
      simp only [hk, ↓reduceIte, hpop, Bool.false_eq_true]
      have ih := truncateLoop_dropT k fuel m st (ev ++ dropWhole true e) hl (by omega)
      refine ih.trans ?_
      obtain ⟨r, hr1, hr2⟩ := firstLeaf_one e he
      have e1 : (ev ++ dropWhole true e).dropT = ev.dropT ++ [firstId r] := by
        show ev.dropT ++ (dropWhole true e).dropT = _
        simp [dropWhole, hr2]
      rw [e1, hrows]
      have hlen := rows_len (m + 1) c hc
      have hsplit : c.rows.drop k = (c.rows.take m).drop k ++ [r] := by
        rw [herows] at hr1
        have : c.rows = c.rows.take m ++ c.rows.drop m := (List.take_append_drop m c.rows).symm
        rw [hr1] at this
        conv => lhs; rw [this]
        rw [List.drop_append_of_le_length (by simp [hlen]; omega)]
      rw [hsplit]
      simp only [List.map_append, List.map_cons, List.map_nil, List.append_assoc]
      exact List.Perm.append_left _ List.perm_append_comm
    · simp only [hk, ↓reduceIte]
      rw [List.drop_of_length_le (by rw [rows_len n c hc]; omega)]
      simp

variable {c e : Cols} {n : Nat}

/-- `truncate` / `clear` / dropping the vector: destructor runs = those of `Vec<T>` -/
theorem truncate (dr : Bool) (k : Nat) (hc : c.lock n) :
    (Model.truncate dr c k).ev.dropT.Perm (Spec.truncate dr c.rows k).ev.dropT := by
  cases dr with
  | true =>
    have h := truncateLoop_dropT k (c.firstLen - k + 1) n c {} hc (by rw [firstLen_lock c n hc]; omega)
    simpa [Model.truncate, Spec.truncate, dropRows] using h
  | false =>
    have : ∀ (fuel : Nat) (c : Cols) (ev : Ev), ev.dropT = [] →
        (Model.truncateLoop false k fuel c ev).ev.dropT = [] := by
      intro fuel
      induction fuel with
      | zero => intro c ev h; simpa [Model.truncateLoop] using h
      | succ f ih =>
        intro c ev h
        simp only [Model.truncateLoop]
        split
        · rcases pop_cases c with hp | ⟨_, hp⟩ | ⟨_, hp⟩
          · rw [hp]; simpa using h
          · rw [hp]
            simp only [↓reduceIte]
            show ev.dropT ++ (dropFields _).dropT = []
            simp [h, dropFields]
          · rw [hp]
            simp only [Bool.false_eq_true, ↓reduceIte]
            apply ih
            show ev.dropT ++ (dropWhole false _).dropT = []
            simp [h, dropWhole]
        · simpa using h
    simp [Model.truncate, Spec.truncate, dropRows, this _ c {} rfl]

theorem clear (dr : Bool) (hc : c.lock n) :
    (Model.clear dr c).ev.dropT.Perm (Spec.clear dr c.rows).ev.dropT := truncate dr 0 hc

/-- the vector's own destruction runs the destructor once for every element it holds -/
theorem dropVec (hc : c.lock n) : (Model.dropVec true c).ev.dropT.Perm (c.rows.map firstId) := by
  have h := truncate true 0 hc
  simpa [Spec.truncate, dropRows, Model.dropVec] using h

/-- moving an element in never runs its destructor (also not for the overwritten slot of
    `replace`, which is handed back) -/
theorem push_none : (Model.push c e).ev.dropT = [] := rfl

theorem insert_ok (dr : Bool) (i : Nat) (hp : (Model.insert dr c i e).panicked = false) :
    (Model.insert dr c i e).ev.dropT = [] := by
  unfold Model.insert at hp ⊢
  split
  · simp_all
  · dsimp only at hp ⊢
    simp_all

theorem replace_ok (dr : Bool) (i : Nat) (hp : (Model.replace dr c i e).panicked = false) :
    (Model.replace dr c i e).ev.dropT = [] := by
  unfold Model.replace at hp ⊢
  split
  · simp_all
  · dsimp only at hp ⊢
    split
    · simp_all
    · rfl

/-- a rejected `insert` / `replace` destroys the element it was given, as `Vec<T>` does:
    one destructor run -/
theorem insert_panic (i : Nat) (hc : c.lock n) (he : e.lock 1) (hs : c.same e) :
    (Model.insert true c i e).ev.dropT.Perm (Spec.insert true c.rows i e.rows).ev.dropT := by
  obtain ⟨r, hr1, hr2⟩ := firstLeaf_one e he
  unfold Model.insert Spec.insert Spec.std
  rw [firstLen_lock c n hc]
  cases perField (insertOp i) c e n 1 hc he hs with
  | ok s hrun hfail hp _ _ _ _ _ _ =>
    have : ¬ i > n := by simpa [insertOp] using hfail
    rw [hrun]
    simp only [this, ↓reduceIte, hp]
    exact List.Perm.refl _
  | fail hrun hfail _ _ _ =>
    have : i > n := by simpa [insertOp] using hfail
    rw [hrun]
    simp [this, dropWhole, dropRows, hr1, hr2]

/-- `extend` / `FromIterator` (the push loop): no destructor runs -/
theorem extend_none : ∀ (es : List Cols) (c : Cols), (Model.extend c es).ev.dropT = []
  | [], c => rfl
  | e :: es, c => by
    simp only [Model.extend]
    split
    · rfl
    · exact extend_none es _

/-- **`resize`** (element-wise since /repo 72750cf): growing runs no destructor; shrinking runs it
    for exactly the rows `Vec<T>::resize` destroys — the discarded suffix and the value -/
theorem resize (dr : Bool) (k : Nat) (hc : c.lock n) (he : e.lock 1) :
    (Model.resize dr c k e).ev.dropT.Perm (Spec.resize dr c.rows k e.rows).ev.dropT := by
  have hlen := rows_len n c hc
  unfold Model.resize Spec.resize
  rw [firstLen_lock c n hc, hlen]
  by_cases hk : k > n
  · have hk' : ¬ k ≤ n := by omega
    simp only [hk, hk', ↓reduceIte]
    exact List.Perm.refl _
  · have hk' : k ≤ n := by omega
    simp only [hk, hk', ↓reduceIte]
    have ht := truncate dr k hc
    show ((Model.truncate dr c k).ev.dropT ++ (dropWhole dr e).dropT).Perm _
    obtain ⟨r, hr1, hr2⟩ := firstLeaf_one e he
    cases dr with
    | true =>
      simp only [Spec.truncate, dropRows, ↓reduceIte] at ht
      simp only [dropRows, dropWhole, ↓reduceIte, hr1, hr2, List.map_append, List.map_cons, List.map_nil]
      exact List.Perm.append_right _ ht
    | false =>
      simp only [Spec.truncate, dropRows, Bool.false_eq_true, ↓reduceIte, List.perm_nil] at ht
      simp [dropRows, dropWhole, ht]

/-- handing an element back never runs its destructor -/
theorem pop_none : (Model.pop c).ev.dropT = [] := by
  rcases pop_cases c with h | ⟨_, h⟩ | ⟨_, h⟩ <;> rw [h] <;> rfl

theorem remove_none (i : Nat) : (Model.remove c i).ev.dropT = [] := by
  unfold Model.remove; dsimp only; split <;> rfl

theorem swapRemove_none (i : Nat) : (Model.swapRemove c i).ev.dropT = [] := by
  unfold Model.swapRemove; dsimp only; split <;> rfl

/-- `retain`: the destructor runs once for each element the callback rejected -/
theorem retain (keep : Nat → Bool) (hc : c.lock n) :
    (Model.retain true c keep none (fun _ _ => none)).ev.dropT.Perm
      ((RetainIdx.filterIdx (fun i => !keep i) 0 c.rows).map firstId) := by
  have hlen := rows_len n c hc
  have hL := retainLoop_rows keep none n n 0 0 c [] [] {} [] hc (by omega) (by simp)
  have hF := RetainIdx.loop_filter keep c.rows
  have hJ := RetainIdx.loop_junk keep c.rows
  rw [hlen] at hF hJ
  simp only at hL hF hJ
  unfold Model.retain
  rw [firstLen_lock c n hc]
  dsimp only
  generalize Model.retainLoop keep none (fun _ _ => none) n 0 0 c [] {} [] = L at hL ⊢
  generalize RetainIdx.loop keep none n 0 0 c.rows [] = R at hL hF hJ
  obtain ⟨hL1, hL2, _, hL4, hL5, _, hL7, _⟩ := hL
  obtain ⟨hF1, _, _, hF4, hF5⟩ := hF
  have hb : L.boom = false := by rw [hL4, hF1]
  by_cases hd : L.del > 0
  · simp only [hb, hd, Bool.false_eq_true, ↓reduceIte]
    have ht := truncateLoop_dropT (n - L.del) (L.c.firstLen - (n - L.del) + 1) n L.c {} hL5
      (by rw [firstLen_lock _ n hL5]; omega)
    show (L.ev.dropT ++ (Model.truncate true L.c (n - L.del)).ev.dropT).Perm _
    rw [hL7]
    simp only [Model.truncate]
    refine (List.Perm.trans ?_ (List.Perm.map firstId hJ))
    rw [← hL1, ← hL2]
    simpa using ht
  · simp only [hb, hd, Bool.false_eq_true, ↓reduceIte]
    have hz : R.2.1 = 0 := by rw [← hL2]; omega
    rw [hz, Nat.sub_zero, List.drop_of_length_le (by omega)] at hJ
    rw [hL7]
    have := List.Perm.map firstId hJ
    simpa using this

/-- the discards of `retain` are destroyed as `Vec::retain` destroys them -/
theorem retain_spec (keep : Nat → Bool) (rs : List Elem) :
    (Spec.retain true rs keep none (fun _ _ => none)).ev.dropT =
      (RetainIdx.filterIdx (fun i => !keep i) 0 rs).map firstId := by
  unfold Spec.retain
  rw [Spec.retainGo_none]
  simp only [dropRows, ↓reduceIte]
  show ([] : List Nat) ++ _ = _
  simp

/-- `retain_mut` with a callback that **writes**: the destructor runs once for each (written) element the
    callback rejected — the writes themselves run no struct destructor -/
theorem retain_mut (keep : Nat → Bool) (touch : Nat → Nat → Option (Nat × Nat)) (hc : c.lock n) :
    (Model.retain true c keep none touch).ev.dropT.Perm
      ((RetainIdx.filterIdx (fun i => !keep i) 0 (RetainIdx.updFrom (Lp.updOf touch) 0 c.rows)).map firstId) := by
  have hlen := rows_len n c hc
  have hL := Lp.retainLoopW_rows keep touch n n 0 0 c [] [] {} [] hc (by omega) (by simp)
  have hF := RetainIdx.loopW_filter keep (Lp.updOf touch) c.rows
  have hJ := RetainIdx.loopW_junk keep (Lp.updOf touch) c.rows
  have hD := Lp.retainLoopW_dropT keep none touch n 0 0 c [] {} []
  rw [hlen] at hF hJ
  simp only at hL hF hJ
  unfold Model.retain
  rw [firstLen_lock c n hc]
  dsimp only
  generalize Model.retainLoop keep none touch n 0 0 c [] {} [] = L at hL hD ⊢
  generalize RetainIdx.loopW keep (Lp.updOf touch) n 0 0 c.rows [] = R at hL hF hJ
  obtain ⟨hL1, hL2, _, hL4, hL5, _⟩ := hL
  obtain ⟨_, _, hF4, hF5⟩ := hF
  have hb : L.boom = false := hL4
  have hD' : L.ev.dropT = [] := hD
  by_cases hd : L.del > 0
  · simp only [hb, hd, Bool.false_eq_true, ↓reduceIte]
    have ht := truncateLoop_dropT (n - L.del) (L.c.firstLen - (n - L.del) + 1) n L.c {} hL5
      (by rw [firstLen_lock _ n hL5]; omega)
    show (L.ev.dropT ++ (Model.truncate true L.c (n - L.del)).ev.dropT).Perm _
    rw [hD']
    simp only [Model.truncate]
    refine (List.Perm.trans ?_ (List.Perm.map firstId hJ))
    rw [← hL1, ← hL2]
    simpa using ht
  · simp only [hb, hd, Bool.false_eq_true, ↓reduceIte]
    have hz : R.2.1 = 0 := by rw [← hL2]; omega
    rw [hz, Nat.sub_zero, List.drop_of_length_le (by omega)] at hJ
    rw [hD']
    have := List.Perm.map firstId hJ
    simpa using this

/-- … as `Vec::retain_mut` destroys them -/
theorem retain_mut_spec (keep : Nat → Bool) (touch : Nat → Nat → Option (Nat × Nat)) (rs : List Elem) :
    (Spec.retain true rs keep none touch).ev.dropT =
      (RetainIdx.filterIdx (fun i => !keep i) 0 (RetainIdx.updFrom (Lp.updOf touch) 0 rs)).map firstId := by
  unfold Spec.retain
  show (Spec.retainGo keep none touch 0 rs _).ev.dropT ++ _ = _
  rw [Spec.retainGo_touch_dropT, Spec.retainGo_touch_gone]
  simp [dropRows]

/-! non-vacuity: a Drop-implementing 2-field struct, clearing 2 elements runs 2 destructors -/
example : (Model.clear true (.nest [.leaf [8, 16], .leaf [9, 17]])).ev.dropT = [16, 8] := by decide

end Soa.C08
