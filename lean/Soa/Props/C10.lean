import Soa.Lemmas.Positions
import Soa.Props.C01
import Soa.Props.C03
import Soa.Model.Pinned
import Soa.Extracted.Bodies
/-!
# C10 — pointer bundles are faithful field-wise raw pointers  (**partial**)

A pointer bundle is one raw pointer per field; in the model, one element position per leaf
(an `Int`, so that `wrapping_*` arithmetic may leave `0..len` transiently) plus a null flag.
Every method of `ptr.rs` applies the same pointer operation to every field.

Proved here, for every shape: moving a bundle by any sequence of element offsets moves every
component by the same total (`uniform`, `offsets_sum`), so a bundle obtained at position
`base` and moved in bounds designates element `base + Σ offsets` in every field; reading
there returns exactly that row (`read_row`); a pointer write replaces exactly that row,
returns nothing and destroys nothing — neither the overwritten slot nor the written value
(`write_row`, `write_conserves`); `is_null` is "some component is null" (`is_null_iff`).

Not expressible in this model (hence *partial*): alignment, volatility, provenance and
allocator behaviour — `read`/`read_volatile`/`read_unaligned` (and the writes) are the same
function here; `from_raw_parts` round trips are the identity by construction.  Those are
covered by the correspondence on the real code only (ids read, ledger, capacities).
-/
namespace Soa.C10
open Soa View

/-- a pointer bundle: per leaf an element position relative to its field array and a null flag -/
inductive Bundle where
  | leaf (pos : Int) (null : Bool)
  | nest (fs : List Bundle)

/-- `add`/`sub`/`offset` and the wrapping variants: the same count on every field -/
def Bundle.shift (k : Int) : Bundle → Bundle
  | .leaf p n => .leaf (p + k) n
  | .nest fs => .nest (shiftL k fs)
where shiftL (k : Int) : List Bundle → List Bundle
  | [] => []
  | b :: bs => b.shift k :: shiftL k bs

/-- every component designates position `p` -/
def Bundle.at (p : Int) : Bundle → Prop
  | .leaf q _ => q = p
  | .nest fs => ∀ b ∈ fs, b.at p

/-- `is_null()`: `false || self.f.is_null() || …` -/
def Bundle.isNull : Bundle → Bool
  | .leaf _ n => n
  | .nest fs => isNullL fs
where isNullL : List Bundle → Bool
  | [] => false
  | b :: bs => b.isNull || isNullL bs

/-- some component is null -/
def Bundle.someNull : Bundle → Prop
  | .leaf _ n => n = true
  | .nest fs => someNullL fs
where someNullL : List Bundle → Prop
  | [] => False
  | b :: bs => b.someNull ∨ someNullL bs

/-- **uniformity**: moving a bundle whose components all designate `p` by `k` gives a bundle
    whose components all designate `p + k` — for every shape -/
theorem uniform (k p : Int) : ∀ b : Bundle, b.at p → (b.shift k).at (p + k)
  | .leaf q n, h => by simp only [Bundle.at] at h; simp [Bundle.shift, Bundle.at, h]
  | .nest fs, h => by
    simp only [Bundle.at] at h
    simp only [Bundle.shift, Bundle.at]
    exact go fs h
where go : ∀ fs : List Bundle, (∀ b ∈ fs, b.at p) → ∀ b ∈ Bundle.shift.shiftL k fs, b.at (p + k)
  | [], _ => by simp [Bundle.shift.shiftL]
  | b :: bs, h => by
    intro x hx
    simp only [Bundle.shift.shiftL, List.mem_cons] at hx
    rcases hx with rfl | hx
    · exact uniform k p b (h b (by simp))
    · exact go bs (fun y hy => h y (by simp [hy])) x hx

/-- any sequence of offsets (`add`, `sub`, `offset`, wrapping or not, in any order): the
    bundle designates `base + Σ offsets` in every field -/
theorem offsets_sum (base : Int) : ∀ (ks : List Int) (b : Bundle), b.at base →
    (ks.foldl (fun b k => b.shift k) b).at (base + ks.sum)
  | [], b, h => by simpa using h
  | k :: ks, b, h => by
    have := offsets_sum (base + k) ks (b.shift k) (uniform k base b h)
    simp only [List.foldl_cons, List.sum_cons]
    rw [← Int.add_assoc]; exact this

/-- `is_null()` is true exactly when one of the component pointers is null -/
theorem is_null_iff : ∀ b : Bundle, b.isNull = true ↔ b.someNull
  | .leaf _ n => by simp [Bundle.isNull, Bundle.someNull]
  | .nest fs => by
    simp only [Bundle.isNull, Bundle.someNull]
    exact go fs
where go : ∀ fs : List Bundle, Bundle.isNull.isNullL fs = true ↔ Bundle.someNull.someNullL fs
  | [] => by simp [Bundle.isNull.isNullL, Bundle.someNull.someNullL]
  | b :: bs => by
    simp only [Bundle.isNull.isNullL, Bool.or_eq_true, Bundle.someNull.someNullL]
    rw [is_null_iff b, go bs]

/-- **read**: reading every field at position `p` of a lockstep container yields exactly the
    element at `p` (a bitwise copy: no event, the container is unchanged) -/
theorem read_row (c : Cols) (n p : Nat) (hc : c.lock n) (hp : p < n) :
    ∃ r, c.rows[p]? = some r ∧ rowIds c p = r.ids :=
  rowIds_eq c n p hc hp

/-- **write**: `ptr.write(v)` at an in-bounds position stores `v` in exactly that element
    (every other row untouched), destroys nothing and returns nothing to destroy: the
    overwritten slot is handed out bitwise (the harness takes it out first) -/
theorem write_row (dr : Bool) (c e : Cols) (n p : Nat) (hc : c.lock n) (he : e.lock 1) (hs : c.same e) (hp : p < n) :
    (Model.replace dr c p e).panicked = false ∧ (Model.replace dr c p e).ev.drops = [] ∧
    (Model.replace dr c p e).ev.dropT = [] ∧
    (Model.replace dr c p e).st.rows = c.rows.take p ++ e.rows ++ c.rows.drop (p + 1) := by
  have h := C01.replace dr p hc he hs
  have hlen := rows_len n c hc
  have hspec : Spec.replace dr c.rows p e.rows =
      { st := c.rows.take p ++ e.rows ++ c.rows.drop (p + 1), ret := some ((c.rows.drop p).take 1) } := by
    simp [Spec.replace, Spec.std, replaceOp, PolyOp.ofTotal_run, hlen, hp]
  have hpan : (Model.replace dr c p e).panicked = false := by rw [h.panicked, hspec]
  refine ⟨hpan, ?_, ?_, by rw [h.st, hspec]⟩
  · unfold Model.replace at hpan ⊢
    rw [firstLen_lock c n hc] at hpan ⊢
    have : ¬ p ≥ n := by omega
    simp only [this, ↓reduceIte] at hpan ⊢
    split <;> simp_all
  · unfold Model.replace at hpan ⊢
    rw [firstLen_lock c n hc] at hpan ⊢
    have : ¬ p ≥ n := by omega
    simp only [this, ↓reduceIte] at hpan ⊢
    split <;> simp_all

/-- a pointer write neither leaks nor duplicates: old slot + new container = old container + value -/
theorem write_conserves (dr : Bool) (c e : Cols) (n p : Nat) (hc : c.lock n) (he : e.lock 1) (hs : c.same e) :
    C03.Conserves c e (Model.replace dr c p e) :=
  C03.replace dr p hc he hs

/-! non-vacuity -/
def exB : Bundle := .nest [.leaf 2 false, .nest [.leaf 2 false, .leaf 2 false]]
example : exB.at 2 := by simp [exB, Bundle.at]
example : ([3, -4, 1].foldl (fun b k => b.shift k) exB).at 2 := by
  have := offsets_sum 2 [3, -4, 1] exB (by simp [exB, Bundle.at])
  simpa using this

/-- **text pin**: the generated functions this property's hand-written model describes have, in
    /repo today, exactly the text the model was written from (`Soa/Model/Pinned.lean`) -/
theorem bodies_pinned : Soa.Extracted.bodies_C10 = Soa.Model.pinned_C10 := rfl

theorem bodies_pinned_nonempty : Soa.Model.pinned_C10.length ≥ 4 := by decide

end Soa.C10
