import Soa.Props.C01
import Soa.Props.C03
import Soa.Model.Views
/-!
# C16 — panics in user callbacks leave the container coherent

Fault points are universally quantified in the theorems.

* `retain` / `retain_mut`: for **every** call index `k` at which the callback panics, the
  container is afterwards in lockstep with its shape, its rows are a permutation of the rows
  before (nothing lost, nothing duplicated — the swap loop only permutes; the final
  `truncate` is not reached), and nothing has been destroyed (`retain_fault`).
* sorting (7 entry points): the user's comparator / key function / `Ord` is called only while
  the permutation of *indices* is computed; the fields are touched afterwards.  A panic
  there leaves the container exactly as it was (`sort_fault_atomic`: the model is literally
  "argsort, then gather").
* `to_vec`, `to_owned`/`From`, `Extend<Ref>`: the source is only read; a panic in `Clone`
  destroys the part copy (modelled by construction, checked by the ledger monitor).
* `resize`, `extend_from_slice`, `Extend<Ref>`: every element is cloned *whole*
  (`to_owned()`) before it is pushed, so a `Clone` panic happens while a value that is not
  yet part of the container is being built.  For **every** number `j` of elements already
  pushed when it happens, the container is in lockstep with its shape and holds exactly its
  old rows followed by the first `j` new ones (`extend_fault_coherent`); `resize` and
  `extend_from_slice` are such loops by definition of the model (`resize_is_extend`,
  `extendFromSlice_is_extend`).  (Until /repo commit 72750cf both methods worked field by
  field and left field arrays of different lengths; `fieldwise_resize_desync` keeps the
  proof that the old shape of the code could not satisfy the property.)
-/
namespace Soa.C16
open Soa

variable {c : Cols} {n : Nat}

/-- **retain / retain_mut, every fault point**: the callback panics at its `k`-th call -/
theorem retain_fault (dr : Bool) (keep : Nat → Bool) (k : Nat) (hc : c.lock n)
    (hp : (Model.retain dr c keep (some k) (fun _ _ => none)).panicked = true) :
    (Model.retain dr c keep (some k) (fun _ _ => none)).st.lock n ∧
    c.same (Model.retain dr c keep (some k) (fun _ _ => none)).st ∧
    (Model.retain dr c keep (some k) (fun _ _ => none)).st.rows.Perm c.rows ∧
    (Model.retain dr c keep (some k) (fun _ _ => none)).ev.drops = [] := by
  have hL := retainLoop_rows keep (some k) n n 0 0 c [] [] {} [] hc (by omega) (by simp)
  have hP := RetainIdx.loop_perm keep (some k) n 0 0 c.rows ([] : List Elem)
  simp only at hL
  unfold Model.retain at hp ⊢
  rw [firstLen_lock c n hc] at hp ⊢
  dsimp only at hp ⊢
  generalize Model.retainLoop keep (some k) (fun _ _ => none) n 0 0 c [] {} [] = L at hL hp ⊢
  obtain ⟨hL1, _, _, _, hL5, hL6, hL7, _⟩ := hL
  by_cases hb : L.boom = true
  · simp only [hb, ↓reduceIte] at hp ⊢
    exact ⟨hL5, hL6, by rw [hL1]; exact hP, by rw [hL7]⟩
  · -- not reached: without the panic the call does not report one
    simp only [hb, Bool.false_eq_true, ↓reduceIte] at hp
    exfalso
    split at hp
    · have ht := truncateLoop_ok dr (n - L.del) (L.c.firstLen - (n - L.del) + 1) n L.c {} hL5
        (by rw [firstLen_lock _ n hL5]; omega)
      simp only [Model.truncate] at hp
      rw [ht.1] at hp; cases hp
    · cases hp

/-- **retain_mut with a callback that writes, every fault point**: whatever the callback had written and wherever it
    panics, every field array still has the original length, the shape is unchanged, and container + destroyed values
    are what the container held plus what the callback created (nothing lost, nothing twice) -/
theorem retain_fault_w (dr : Bool) (keep : Nat → Bool) (k : Nat) (touch : Nat → Nat → Option (Nat × Nat)) (hc : c.lock n)
    (hp : (Model.retain dr c keep (some k) touch).panicked = true) :
    (Model.retain dr c keep (some k) touch).st.lock n ∧
    c.same (Model.retain dr c keep (some k) touch).st ∧
    ((Model.retain dr c keep (some k) touch).st.flat ++ (Model.retain dr c keep (some k) touch).ev.drops).Perm
      (c.flat ++ (Model.retain dr c keep (some k) touch).made) := by
  have hcons := C03.retain dr c keep (some k) touch
  have hl := Lp.retainLoopW_lock keep (some k) touch n n 0 0 c [] {} [] hc (by omega) (by omega)
  have hs := Lp.retainLoopW_same keep (some k) touch n n 0 0 c [] {} [] hc (by omega) (by omega)
  have hheld : C03.held (Model.retain dr c keep (some k) touch) = [] := by
    unfold Model.retain
    rw [firstLen_lock c n hc]
    dsimp only
    split
    · rfl
    · split
      · have := (C03.truncateLoop dr (n - (Model.retainLoop keep (some k) touch n 0 0 c [] {} []).del)
          ((Model.retainLoop keep (some k) touch n 0 0 c [] {} []).c.firstLen - (n - (Model.retainLoop keep (some k) touch n 0 0 c [] {} []).del) + 1)
          (Model.retainLoop keep (some k) touch n 0 0 c [] {} []).c {}).2
        simp [C03.held, Model.truncate, this.1, this.2]
      · rfl
  rw [hheld, List.append_nil] at hcons
  refine ⟨?_, ?_, hcons⟩
  all_goals
    unfold Model.retain at hp ⊢
    rw [firstLen_lock c n hc] at hp ⊢
    dsimp only at hp ⊢
    generalize Model.retainLoop keep (some k) touch n 0 0 c [] {} [] = L at hl hs hp ⊢
    by_cases hb : L.boom = true
    · simp only [hb, ↓reduceIte]
      first | exact hl | exact hs
    · simp only [hb, Bool.false_eq_true, ↓reduceIte] at hp
      exfalso
      split at hp
      · have ht := truncateLoop_ok dr (n - L.del) (L.c.firstLen - (n - L.del) + 1) n L.c {} hl
          (by rw [firstLen_lock _ n hl]; omega)
        simp only [Model.truncate] at hp
        rw [ht.1] at hp; cases hp
      · cases hp

/-- the two phases of every generated sort: the permutation of positions is computed with the
    user's callback (`fault` = it panicked), then every field is gathered by it -/
def sortTwoPhase (c : Cols) (w : View.Win) (le : Nat → Nat → Bool) (fault : Bool) : Cols × Bool :=
  if fault then (c, true) else (View.gatherWin c w ((List.range' w.s w.l).mergeSort le), false)

/-- **sorting, every fault point**: a panic in the comparator / key function / `Ord` leaves
    the container exactly as it was -/
theorem sort_fault_atomic (w : View.Win) (le : Nat → Nat → Bool) :
    (sortTwoPhase c w le true).1 = c ∧ (sortTwoPhase c w le true).2 = true := ⟨rfl, rfl⟩

/-! ## `resize` / `extend_from_slice` / `Extend<Ref>` with a panicking `Clone` -/

/-- **every fault point**: when `Clone` panics while the `(j+1)`-th new element is being built,
    `j` whole elements have been pushed: the container is in lockstep with its shape and its
    rows are the old rows followed by the first `j` new ones — nothing lost, nothing
    duplicated, no field array ahead of another -/
theorem extend_fault_coherent (es : List Cols) (j : Nat) (hc : c.lock n)
    (he : ∀ e ∈ es, e.lock 1 ∧ c.same e) :
    (Model.extend c (es.take j)).panicked = false ∧
    (∃ m, (Model.extend c (es.take j)).st.lock m) ∧ c.same (Model.extend c (es.take j)).st ∧
    (Model.extend c (es.take j)).st.rows = c.rows ++ ((es.take j).map Cols.rows).flatten := by
  have h := C01.extend (es.take j) c n hc (fun e hm => he e (List.mem_of_mem_take hm))
  exact ⟨by rw [h.panicked]; rfl, h.lock, h.same, by rw [h.st]; rfl⟩

/-- growing `resize` is the push loop over clones of the value -/
theorem resize_is_extend (dr : Bool) (k : Nat) (e : Cols) (hk : k > c.firstLen) :
    (Model.resize dr c k e).st = (Model.extend c (List.replicate (k - c.firstLen) e)).st ∧
    (Model.resize dr c k e).panicked = (Model.extend c (List.replicate (k - c.firstLen) e)).panicked := by
  simp [Model.resize, hk]

/-- `extend_from_slice` is the push loop over the elements of the source -/
theorem extendFromSlice_is_extend (src : Cols) :
    (Model.extendFromSlice c src).st = (Model.extend c ((List.range src.firstLen).map (Model.rowCols src))).st := rfl

/-! ## why the element-wise loop is needed: the field-by-field version (the code before 72750cf) -/

/-- the leaf arrays after `resize(new_len, value)` when `Clone` panics inside the `j`-th field
    array's `Vec::resize` after `part` copies: the earlier field arrays are fully resized,
    the `j`-th partly, the later ones not at all (`vals`: the value's field ids) -/
def resizeFaultLeaves (ls : List (List Nat)) (vals : List Nat) (newLen j part : Nat) : List (List Nat) :=
  (ls.zipIdx).map (fun p =>
    if p.2 < j then p.1 ++ List.replicate (newLen - p.1.length) (vals.getD p.2 0)
    else if p.2 = j then p.1 ++ List.replicate part (vals.getD p.2 0)
    else p.1)

/-- **the full-strength statement fails**: with at least two field arrays, growing, and the
    fault in any field array but the first, the field arrays end up with different lengths -/
theorem fieldwise_resize_desync (ls : List (List Nat)) (vals : List Nat) (n newLen j part : Nat)
    (hl : ∀ l ∈ ls, l.length = n) (hgrow : n < newLen) (hj0 : 0 < j) (hj : j < ls.length)
    (hpart : n + part < newLen) :
    ¬ ∃ m, ∀ l ∈ resizeFaultLeaves ls vals newLen j part, l.length = m := by
  rintro ⟨m, hm⟩
  have h0 : 0 < ls.length := by omega
  -- the first field array was fully resized …
  have e0 : (resizeFaultLeaves ls vals newLen j part)[0]? =
      some (ls[0] ++ List.replicate (newLen - ls[0].length) (vals.getD 0 0)) := by
    simp [resizeFaultLeaves, List.getElem?_map, List.getElem?_zipIdx, h0, hj0]
  -- … the faulting one only partly
  have ej : (resizeFaultLeaves ls vals newLen j part)[j]? =
      some (ls[j] ++ List.replicate part (vals.getD j 0)) := by
    simp [resizeFaultLeaves, List.getElem?_map, List.getElem?_zipIdx, hj]
  have m0 := hm _ (List.mem_of_getElem? e0)
  have mj := hm _ (List.mem_of_getElem? ej)
  have l0 := hl ls[0] (List.getElem_mem h0)
  have lj := hl ls[j] (List.getElem_mem hj)
  simp only [List.length_append, List.length_replicate] at m0 mj
  omega

/-- the part that holds: a struct with a single field array is coherent after the fault -/
theorem fieldwise_resize_single (l : List Nat) (vals : List Nat) (newLen part : Nat) :
    ∃ m, ∀ x ∈ resizeFaultLeaves [l] vals newLen 0 part, x.length = m :=
  ⟨(l ++ List.replicate part (vals.getD 0 0)).length, by simp [resizeFaultLeaves]⟩

/-- witness (the defect repaired by 72750cf): `{flag, x}` empty, `resize(3, v)` with the clone fuse at 0
    for the second field: leaf arrays `[[216,216,216],[]]` … the real code's `[[216],[]]`
    differs only in how far the first field got — both are out of lockstep -/
example : resizeFaultLeaves [[], []] [216, 217] 3 1 0 = [[216, 216, 216], []] := by decide

/-! non-vacuity of `retain_fault`: a 2-field container, the callback panics at its second call -/
example : (Model.retain false (.nest [.leaf [8, 16, 24], .leaf [9, 17, 25]]) (fun i => i != 0) (some 1)
    (fun _ _ => none)).panicked = true := by decide

end Soa.C16
