import Soa.Model.Vec
import Soa.Spec.Vec
import Soa.Lemmas.PerField
import Soa.Lemmas.Loops
import Soa.Lemmas.SpecRetain
import Soa.Lemmas.SpecRetainW
import Soa.Model.Pinned
import Soa.Extracted.Bodies
import Soa.Lemmas.SkelTie
/-!
# C01 — the SoA vector is observationally a `Vec<T>`

For every struct shape (any number of fields, any nesting), every container `c` in lockstep
and every argument: the model of the generated method and the std operation on the rows
agree on the panic flag, the returned value, the `None` answer and the contents left
behind, and the container stays in lockstep with its shape.  Property theorems only; the
helper lemmas live in `Soa/Lemmas`.
-/
namespace Soa.C01
open Soa

/-- observational refinement of one call: model outcome vs `Vec<T>` outcome -/
structure Refines (c : Cols) (o : Model.Out) (s : Spec.Out) : Prop where
  panicked : o.panicked = s.panicked
  st : o.st.rows = s.st
  ret : o.ret.map Cols.rows = s.ret
  isNone : o.isNone = s.isNone
  lock : ∃ m, o.st.lock m
  same : c.same o.st
  atomic : o.panicked = true → o.st = c

macro "atom" : tactic => `(tactic| (intro hh; first | rfl | (simp_all; done) | (simp at hh)))

variable {c e : Cols} {n : Nat}

theorem push (hc : c.lock n) (he : e.lock 1) (hs : c.same e) :
    Refines c (Model.push c e) (Spec.push c.rows e.rows) := by
  unfold Model.push Spec.push Spec.std
  cases perField appendOp c e n 1 hc he hs with
  | ok s hrun _ hp hst _ hl _ hsm _ =>
    rw [hrun]
    exact ⟨hp, hst, rfl, rfl, ⟨_, hl⟩, hsm, by atom⟩
  | fail _ hfail _ _ _ => simp [appendOp] at hfail

theorem insert (dr : Bool) (i : Nat) (hc : c.lock n) (he : e.lock 1) (hs : c.same e) :
    Refines c (Model.insert dr c i e) (Spec.insert dr c.rows i e.rows) := by
  unfold Model.insert Spec.insert Spec.std
  rw [firstLen_lock c n hc]
  cases perField (insertOp i) c e n 1 hc he hs with
  | ok s hrun hfail hp hst _ hl _ hsm _ =>
    have : ¬ i > n := by simpa [insertOp] using hfail
    rw [hrun]
    simp only [this, ↓reduceIte, hp]
    exact ⟨rfl, hst, rfl, rfl, ⟨_, hl⟩, hsm, by atom⟩
  | fail hrun hfail _ _ _ =>
    have : i > n := by simpa [insertOp] using hfail
    rw [hrun]
    simp only [this, ↓reduceIte]
    exact ⟨rfl, rfl, rfl, rfl, ⟨n, hc⟩, same_refl c, by atom⟩

theorem replace (dr : Bool) (i : Nat) (hc : c.lock n) (he : e.lock 1) (hs : c.same e) :
    Refines c (Model.replace dr c i e) (Spec.replace dr c.rows i e.rows) := by
  unfold Model.replace Spec.replace Spec.std
  rw [firstLen_lock c n hc]
  cases perField (replaceOp i) c e n 1 hc he hs with
  | ok s hrun hfail hp hst hout hl _ hsm _ =>
    have : ¬ i ≥ n := by simpa [replaceOp] using hfail
    rw [hrun]
    simp only [this, ↓reduceIte, hp, Bool.false_eq_true]
    exact ⟨rfl, hst, by simp [hout], rfl, ⟨_, hl⟩, hsm, by atom⟩
  | fail hrun hfail _ _ _ =>
    have : i ≥ n := by simpa [replaceOp] using hfail
    rw [hrun]
    simp only [this, ↓reduceIte]
    exact ⟨rfl, rfl, rfl, rfl, ⟨n, hc⟩, same_refl c, by atom⟩

theorem remove (i : Nat) (hc : c.lock n) :
    Refines c (Model.remove c i) (Spec.remove c.rows i) := by
  unfold Model.remove Spec.remove Spec.std Model.noArgs
  cases perField0 (removeOp i) c n hc with
  | ok s hrun _ hp hst hout hl _ hsm _ =>
    rw [rows_noArgs c n hc] at hrun
    rw [hrun]
    simp only [hp, Bool.false_eq_true, ↓reduceIte]
    exact ⟨rfl, hst, by simp [hout], rfl, ⟨_, hl⟩, hsm, by atom⟩
  | fail hrun _ hp hst _ =>
    rw [rows_noArgs c n hc] at hrun
    rw [hrun]
    simp only [hp, ↓reduceIte, hst]
    exact ⟨rfl, rfl, rfl, rfl, ⟨n, hc⟩, same_refl c, by atom⟩

theorem swapRemove (i : Nat) (hc : c.lock n) :
    Refines c (Model.swapRemove c i) (Spec.swapRemove c.rows i) := by
  unfold Model.swapRemove Spec.swapRemove Spec.std Model.noArgs
  cases perField0 (swapRemoveOp i) c n hc with
  | ok s hrun _ hp hst hout hl _ hsm _ =>
    rw [rows_noArgs c n hc] at hrun
    rw [hrun]
    simp only [hp, Bool.false_eq_true, ↓reduceIte]
    exact ⟨rfl, hst, by simp [hout], rfl, ⟨_, hl⟩, hsm, by atom⟩
  | fail hrun _ hp hst _ =>
    rw [rows_noArgs c n hc] at hrun
    rw [hrun]
    simp only [hp, ↓reduceIte, hst]
    exact ⟨rfl, rfl, rfl, rfl, ⟨n, hc⟩, same_refl c, by atom⟩

theorem pop (hc : c.lock n) :
    Refines c (Model.pop c) (Spec.pop c.rows) := by
  unfold Model.pop Spec.pop Spec.std Model.noArgs
  rw [firstLen_lock c n hc]
  cases perField0 popOp c n hc with
  | ok s hrun hfail hp hst hout hl _ hsm _ =>
    have : ¬ n = 0 := by
      have : 0 < n := by simpa [popOp] using hfail
      omega
    rw [rows_noArgs c n hc] at hrun
    rw [hrun]
    simp only [this, ↓reduceIte, hp, Bool.false_eq_true]
    exact ⟨rfl, hst, by simp [hout], rfl, ⟨_, hl⟩, hsm, by atom⟩
  | fail hrun hfail _ _ _ =>
    have : n = 0 := by
      have : ¬ 0 < n := by simpa [popOp] using hfail
      omega
    rw [rows_noArgs c n hc] at hrun
    rw [hrun]
    simp only [this, ↓reduceIte]
    exact ⟨rfl, rfl, rfl, rfl, ⟨n, hc⟩, same_refl c, by atom⟩

theorem splitOff (i : Nat) (hc : c.lock n) :
    Refines c (Model.splitOff c i) (Spec.splitOff c.rows i) := by
  unfold Model.splitOff Spec.splitOff Spec.std Model.noArgs
  cases perField0 (splitOffOp i) c n hc with
  | ok s hrun _ hp hst hout hl _ hsm _ =>
    rw [rows_noArgs c n hc] at hrun
    rw [hrun]
    simp only [hp, Bool.false_eq_true, ↓reduceIte]
    exact ⟨rfl, hst, by simp [hout], rfl, ⟨_, hl⟩, hsm, by atom⟩
  | fail hrun _ hp hst _ =>
    rw [rows_noArgs c n hc] at hrun
    rw [hrun]
    simp only [hp, ↓reduceIte, hst]
    exact ⟨rfl, rfl, rfl, rfl, ⟨n, hc⟩, same_refl c, by atom⟩

theorem truncate (dr : Bool) (k : Nat) (hc : c.lock n) :
    Refines c (Model.truncate dr c k) (Spec.truncate dr c.rows k) := by
  unfold Model.truncate Spec.truncate
  rw [firstLen_lock c n hc]
  have h := truncateLoop_ok dr k (n - k + 1) n c {} hc (by omega)
  exact ⟨h.1, h.2.1, by simp [h.2.2.2.2.1], h.2.2.2.2.2, ⟨_, h.2.2.1⟩, h.2.2.2.1, by intro hh; rw [h.1] at hh; cases hh⟩

theorem clear (dr : Bool) (hc : c.lock n) :
    Refines c (Model.clear dr c) (Spec.clear dr c.rows) := truncate dr 0 hc

/-- dropping the vector (its `Drop` impl) destroys exactly its elements -/
theorem dropVec (dr : Bool) (hc : c.lock n) :
    Refines c (Model.dropVec dr c) (Spec.dropVec dr c.rows) := truncate dr 0 hc

/-- `append`: the receiver gets the rows of `other` appended; `other` is left empty -/
theorem append {d : Cols} {k : Nat} (hc : c.lock n) (hd : d.lock k) (hs : c.same d) :
    Refines c (Model.append c d) (Spec.append c.rows d.rows) ∧
      (Model.append c d).other.map Cols.rows = (Spec.append c.rows d.rows).other := by
  unfold Model.append Spec.append
  cases perField appendOp c d n k hc hd hs with
  | ok s hrun _ hp hst hout hl _ hsm _ =>
    simp only [appendOp, PolyOp.ofTotal_run, ↓reduceIte, Option.some.injEq] at hrun
    subst hrun
    exact ⟨⟨hp, hst, rfl, rfl, ⟨_, hl⟩, hsm, by atom⟩, by simp [hout]⟩
  | fail _ hfail _ _ _ => simp [appendOp] at hfail

/-- `retain` / `retain_mut` (with a callback that does not write): the elements kept are
    those for which the callback answered `true`, in order; the callback is shown every
    element exactly once, in index order -/
theorem retain (dr : Bool) (keep : Nat → Bool) (hc : c.lock n) :
    Refines c (Model.retain dr c keep none (fun _ _ => none)) (Spec.retain dr c.rows keep none (fun _ _ => none)) ∧
      (Model.retain dr c keep none (fun _ _ => none)).vis = (Spec.retain dr c.rows keep none (fun _ _ => none)).vis ∧
      (Spec.retain dr c.rows keep none (fun _ _ => none)).vis = c.rows.map Elem.ids := by
  have hlen := rows_len n c hc
  have hL := retainLoop_rows keep none n n 0 0 c [] [] {} [] hc (by omega) (by simp)
  have hF := RetainIdx.loop_filter keep c.rows
  rw [hlen] at hF
  simp only at hL hF
  have hS := Spec.retain_none dr keep c.rows
  unfold Model.retain
  rw [firstLen_lock c n hc]
  dsimp only
  generalize Model.retainLoop keep none (fun _ _ => none) n 0 0 c [] {} [] = L at hL ⊢
  generalize Spec.retain dr c.rows keep none (fun _ _ => none) = S at hS ⊢
  generalize RetainIdx.loop keep none n 0 0 c.rows [] = R at hL hF
  obtain ⟨hL1, hL2, hL3, hL4, hL5, hL6, _, _⟩ := hL
  obtain ⟨hF1, hF2, hF3, _, _⟩ := hF
  obtain ⟨hS1, hS2, hS3, hS4, hS5⟩ := hS
  have hb : L.boom = false := by rw [hL4, hF1]
  by_cases hd : L.del > 0
  · simp only [hb, hd, Bool.false_eq_true, ↓reduceIte]
    have ht := truncateLoop_ok dr (n - L.del) (n - (n - L.del) + 1) n L.c {} hL5 (by omega)
    unfold Model.truncate
    rw [firstLen_lock _ n hL5]
    simp only at ht
    refine ⟨⟨by rw [hS1]; exact ht.1, ?_, by rw [ht.2.2.2.2.1, hS4]; rfl, by rw [ht.2.2.2.2.2, hS5],
      ⟨_, ht.2.2.1⟩, same_trans _ _ _ hL6 ht.2.2.2.1, by intro hh; rw [ht.1] at hh; cases hh⟩, ?_, hS3⟩
    · show (Model.truncateLoop dr (n - L.del) (n - (n - L.del) + 1) L.c {}).st.rows = S.st
      rw [ht.2.1, hL1, hL2, hS2]; exact hF3
    · show L.vis = S.vis
      rw [hL3, hF2, hS3]
  · simp only [hb, hd, Bool.false_eq_true, ↓reduceIte]
    refine ⟨⟨by rw [hS1], ?_, by rw [hS4]; rfl, by rw [hS5], ⟨n, hL5⟩, hL6, by atom⟩, ?_, hS3⟩
    · show L.c.rows = S.st
      have hz : R.2.1 = 0 := by rw [← hL2]; omega
      have hRl : R.1.length = n := by rw [← hL1]; exact rows_len n _ hL5
      rw [hz, Nat.sub_zero, List.take_of_length_le (by omega)] at hF3
      rw [hL1, hS2]; exact hF3
    · show L.vis = S.vis
      rw [hL3, hF2, hS3]

/-- `retain_mut` (and `retain`) with a callback that **writes** to the element it is shown: what is
    kept are the written elements for which the callback answered `true`, in order; the callback is
    shown every element exactly once, in index order, as `Vec::retain_mut` shows it (before its own
    write).  `touch k k = some (l, id)`: at call `k` leaf `l` of the element is overwritten with `id`
    (any leaf number; one outside the struct writes nothing on either side). -/
theorem retain_mut (dr : Bool) (keep : Nat → Bool) (touch : Nat → Nat → Option (Nat × Nat)) (hc : c.lock n) :
    Refines c (Model.retain dr c keep none touch) (Spec.retain dr c.rows keep none touch) ∧
      (Model.retain dr c keep none touch).vis = (Spec.retain dr c.rows keep none touch).vis ∧
      (Spec.retain dr c.rows keep none touch).vis = c.rows.map Elem.ids := by
  have hlen := rows_len n c hc
  have hL := Lp.retainLoopW_rows keep touch n n 0 0 c [] [] {} [] hc (by omega) (by simp)
  have hF := RetainIdx.loopW_filter keep (Lp.updOf touch) c.rows
  rw [hlen] at hF
  simp only at hL hF
  have hS := Spec.retain_touch dr keep touch c.rows
  unfold Model.retain
  rw [firstLen_lock c n hc]
  dsimp only
  generalize Model.retainLoop keep none touch n 0 0 c [] {} [] = L at hL ⊢
  generalize Spec.retain dr c.rows keep none touch = S at hS ⊢
  generalize RetainIdx.loopW keep (Lp.updOf touch) n 0 0 c.rows [] = R at hL hF
  obtain ⟨hL1, hL2, hL3, hL4, hL5, hL6⟩ := hL
  obtain ⟨hF2, hF3, _, _⟩ := hF
  obtain ⟨hS1, hS2, hS3, hS4, hS5⟩ := hS
  have hb : L.boom = false := hL4
  by_cases hd : L.del > 0
  · simp only [hb, hd, Bool.false_eq_true, ↓reduceIte]
    have ht := truncateLoop_ok dr (n - L.del) (n - (n - L.del) + 1) n L.c {} hL5 (by omega)
    unfold Model.truncate
    rw [firstLen_lock _ n hL5]
    simp only at ht
    refine ⟨⟨by rw [hS1]; exact ht.1, ?_, by rw [ht.2.2.2.2.1, hS4]; rfl, by rw [ht.2.2.2.2.2, hS5],
      ⟨_, ht.2.2.1⟩, same_trans _ _ _ hL6 ht.2.2.2.1, by intro hh; rw [ht.1] at hh; cases hh⟩, ?_, hS3⟩
    · show (Model.truncateLoop dr (n - L.del) (n - (n - L.del) + 1) L.c {}).st.rows = S.st
      rw [ht.2.1, hL1, hL2, hS2]; exact hF3
    · show L.vis = S.vis
      rw [hL3, hF2, hS3]
  · simp only [hb, hd, Bool.false_eq_true, ↓reduceIte]
    refine ⟨⟨by rw [hS1], ?_, by rw [hS4]; rfl, by rw [hS5], ⟨n, hL5⟩, hL6, by atom⟩, ?_, hS3⟩
    · show L.c.rows = S.st
      have hz : R.2.1 = 0 := by rw [← hL2]; omega
      have hRl : R.1.length = n := by rw [← hL1]; exact rows_len n _ hL5
      rw [hz, Nat.sub_zero, List.take_of_length_le (by omega)] at hF3
      rw [hL1, hS2]; exact hF3
    · show L.vis = S.vis
      rw [hL3, hF2, hS3]

/-- `Extend<T>` / `FromIterator`: pushing the items one by one appends their rows -/
theorem extend : ∀ (es : List Cols) (c : Cols) (n : Nat), c.lock n →
    (∀ e ∈ es, e.lock 1 ∧ c.same e) →
    Refines c (Model.extend c es) (Spec.extend c.rows (es.map Cols.rows).flatten)
  | [], c, n, hc, _ => by
    simp only [Model.extend, Spec.extend, List.map_nil, List.flatten_nil, List.append_nil]
    exact ⟨rfl, rfl, rfl, rfl, ⟨n, hc⟩, same_refl c, by atom⟩
  | e :: es, c, n, hc, he => by
    have hp := push hc (he e (by simp)).1 (he e (by simp)).2
    simp only [Model.extend]
    have hpp : (Model.push c e).panicked = false := by
      rw [hp.panicked]; simp [Spec.push, Spec.std, appendOp]
    simp only [hpp, Bool.false_eq_true, ↓reduceIte]
    obtain ⟨m, hm⟩ := hp.lock
    have ih := extend es (Model.push c e).st m hm (fun x hx =>
      ⟨(he x (by simp [hx])).1, same_trans _ _ _ (same_symm _ _ hp.same) (he x (by simp [hx])).2⟩)
    have hst : (Model.push c e).st.rows = c.rows ++ e.rows := by
      rw [hp.st]; simp [Spec.push, Spec.std, appendOp]
    simp only [Spec.extend, hst] at ih ⊢
    refine ⟨ih.panicked, ?_, ih.ret, ih.isNone, ih.lock, same_trans _ _ _ hp.same ih.same, by intro hh; rw [ih.panicked] at hh; simp [Spec.extend] at hh⟩
    rw [ih.st]; simp

/-- the element at a position, as a one-row tree -/
theorem rowCols_spec {d : Cols} {k : Nat} (hd : d.lock k) (i : Nat) (hi : i < k) :
    (Model.rowCols d i).lock 1 ∧ d.same (Model.rowCols d i) ∧
    (Model.rowCols d i).rows = (d.rows.drop i).take 1 := by
  unfold Model.rowCols Model.noArgs
  have hl := rows_len k d hd
  have hi' : i < d.rows.length := by omega
  cases perField0 (pickOp [i]) d k hd with
  | ok s hrun _ _ _ hout _ hlo _ hso =>
    rw [rows_noArgs d k hd] at hrun
    simp only [pickOp, PolyOp.ofTotal_run, hl, List.all_cons, hi, decide_true, List.all_nil, Bool.and_self,
      ↓reduceIte, Option.some.injEq] at hrun
    subst hrun
    simp only [List.filterMap_cons, List.getElem?_eq_getElem hi', List.filterMap_nil] at hout
    refine ⟨lock_of_rows_len hlo (k := 1) (by rw [hout]; rfl), hso, ?_⟩
    rw [hout, List.drop_eq_getElem_cons hi', List.take_succ_cons, List.take_zero]
  | fail _ hfail _ _ _ =>
    simp [pickOp, PolyOp.ofTotal, hi] at hfail

theorem flatten_rows_range {α : Type} (R : List α) :
    ((List.range R.length).map (fun i => (R.drop i).take 1)).flatten = R := by
  induction R with
  | nil => rfl
  | cons x xs ih =>
    rw [List.length_cons, List.range_succ_eq_map]
    simp only [List.map_cons, List.drop_zero, List.take_succ_cons, List.take_zero, List.map_map, List.flatten_cons,
      List.singleton_append, List.cons.injEq, true_and]
    have : ((fun i => List.take 1 (List.drop i (x :: xs))) ∘ Nat.succ) = fun i => (xs.drop i).take 1 := by
      funext i; simp
    rw [this]
    exact ih

theorem resize (dr : Bool) (k : Nat) (hc : c.lock n) (he : e.lock 1) (hs : c.same e) :
    Refines c (Model.resize dr c k e) (Spec.resize dr c.rows k e.rows) := by
  unfold Model.resize Spec.resize
  have hlen := rows_len n c hc
  rw [firstLen_lock c n hc, hlen]
  by_cases hk : k > n
  · have hk' : ¬ k ≤ n := by omega
    simp only [hk, hk', ↓reduceIte]
    have h := extend (List.replicate (k - n) e) c n hc (fun x hx => by
      rw [List.eq_of_mem_replicate hx]; exact ⟨he, hs⟩)
    refine ⟨by rw [h.panicked]; rfl, ?_, rfl, rfl, h.lock, h.same, h.atomic⟩
    rw [h.st]
    simp [Spec.extend]
  · have hk' : k ≤ n := by omega
    simp only [hk, hk', ↓reduceIte]
    have h := truncate dr k hc
    exact ⟨by rw [h.panicked]; rfl, by rw [h.st]; rfl, rfl, rfl, h.lock, h.same, h.atomic⟩

theorem extendFromSlice {d : Cols} {k : Nat} (hc : c.lock n) (hd : d.lock k) (hs : c.same d) :
    Refines c (Model.extendFromSlice c d) (Spec.extendFromSlice c.rows d.rows) := by
  unfold Model.extendFromSlice Spec.extendFromSlice
  rw [firstLen_lock d k hd]
  have hrows : ∀ x ∈ (List.range k).map (Model.rowCols d), x.lock 1 ∧ c.same x := by
    intro x hx
    obtain ⟨i, hi, rfl⟩ := List.mem_map.mp hx
    have := rowCols_spec hd i (List.mem_range.mp hi)
    exact ⟨this.1, same_trans _ _ _ hs this.2.1⟩
  have h := extend ((List.range k).map (Model.rowCols d)) c n hc hrows
  refine ⟨by rw [h.panicked]; rfl, ?_, rfl, rfl, h.lock, h.same, h.atomic⟩
  rw [h.st]
  simp only [Spec.extend, List.map_map]
  congr 1
  have hl := rows_len k d hd
  rw [← flatten_rows_range d.rows, hl]
  congr 1
  apply List.map_congr_left
  intro i hi
  exact (rowCols_spec hd i (List.mem_range.mp hi)).2.2

theorem toVec (hc : c.lock n) : Refines c (Model.toVec c) (Spec.toVec c.rows) :=
  ⟨rfl, rfl, rfl, rfl, ⟨n, hc⟩, same_refl c, by atom⟩

/-! ## histories -/

/-- element-level operations on one vector; element arguments are one-row trees -/
inductive Op where
  | push (e : Cols) | pop | insert (i : Nat) (e : Cols) | replace (i : Nat) (e : Cols)
  | remove (i : Nat) | swapRemove (i : Nat) | truncate (k : Nat) | clear
  | retain (keep : Nat → Bool) | retainMut (keep : Nat → Bool) (touch : Nat → Nat → Option (Nat × Nat))
  | extend (es : List Cols) | resize (k : Nat) (e : Cols)
  | splitOff (i : Nat) | extendFromSlice (d : Cols) | append (d : Cols)

/-- arguments have the container's shape; elements are single rows -/
def Op.wf (c : Cols) : Op → Prop
  | .push e | .insert _ e | .replace _ e | .resize _ e => e.lock 1 ∧ c.same e
  | .extend es => ∀ e ∈ es, e.lock 1 ∧ c.same e
  | .extendFromSlice d | .append d => (∃ k, d.lock k) ∧ c.same d
  | _ => True

def mstep (dr : Bool) (c : Cols) : Op → Model.Out
  | .push e => Model.push c e | .pop => Model.pop c | .insert i e => Model.insert dr c i e
  | .replace i e => Model.replace dr c i e | .remove i => Model.remove c i
  | .swapRemove i => Model.swapRemove c i | .truncate k => Model.truncate dr c k
  | .clear => Model.clear dr c | .retain keep => Model.retain dr c keep none (fun _ _ => none)
  | .retainMut keep touch => Model.retain dr c keep none touch
  | .extend es => Model.extend c es | .resize k e => Model.resize dr c k e
  | .splitOff i => Model.splitOff c i | .extendFromSlice d => Model.extendFromSlice c d
  | .append d => Model.append c d

def sstep (dr : Bool) (rs : List Elem) : Op → Spec.Out
  | .push e => Spec.push rs e.rows | .pop => Spec.pop rs | .insert i e => Spec.insert dr rs i e.rows
  | .replace i e => Spec.replace dr rs i e.rows | .remove i => Spec.remove rs i
  | .swapRemove i => Spec.swapRemove rs i | .truncate k => Spec.truncate dr rs k
  | .clear => Spec.clear dr rs | .retain keep => Spec.retain dr rs keep none (fun _ _ => none)
  | .retainMut keep touch => Spec.retain dr rs keep none touch
  | .extend es => Spec.extend rs (es.map Cols.rows).flatten | .resize k e => Spec.resize dr rs k e.rows
  | .splitOff i => Spec.splitOff rs i | .extendFromSlice d => Spec.extendFromSlice rs d.rows
  | .append d => Spec.append rs d.rows

/-- every operation, with arbitrary (valid or invalid) arguments, refines `Vec<T>` -/
theorem step_refines (dr : Bool) (op : Op) (hc : c.lock n) (hw : op.wf c) :
    Refines c (mstep dr c op) (sstep dr c.rows op) := by
  cases op with
  | push e => exact push hc hw.1 hw.2
  | pop => exact pop hc
  | insert i e => exact insert dr i hc hw.1 hw.2
  | replace i e => exact replace dr i hc hw.1 hw.2
  | remove i => exact remove i hc
  | swapRemove i => exact swapRemove i hc
  | truncate k => exact truncate dr k hc
  | clear => exact clear dr hc
  | retain keep => exact (retain dr keep hc).1
  | retainMut keep touch => exact (retain_mut dr keep touch hc).1
  | extend es => exact extend es c n hc hw
  | resize k e => exact resize dr k hc hw.1 hw.2
  | splitOff i => exact splitOff i hc
  | extendFromSlice d => obtain ⟨⟨k, hk⟩, hs⟩ := hw; exact extendFromSlice hc hk hs
  | append d => obtain ⟨⟨k, hk⟩, hs⟩ := hw; exact (append hc hk hs).1

theorem wf_same {c c' : Cols} (h : c.same c') (op : Op) (hw : op.wf c) : op.wf c' := by
  have hs := same_symm _ _ h
  cases op <;> simp only [Op.wf] at hw ⊢
  all_goals first
    | exact ⟨hw.1, same_trans _ _ _ hs hw.2⟩
    | exact fun e he => ⟨(hw e he).1, same_trans _ _ _ hs (hw e he).2⟩
    | trivial

/-- the observable part of one call -/
def obsM (o : Model.Out) : Bool × Option (List Elem) × Bool := (o.panicked, o.ret.map Cols.rows, o.isNone)
def obsS (o : Spec.Out) : Bool × Option (List Elem) × Bool := (o.panicked, o.ret, o.isNone)

def mrun (dr : Bool) : Cols → List Op → List (Bool × Option (List Elem) × Bool) × Cols
  | c, [] => ([], c)
  | c, op :: ops => let o := mstep dr c op; let r := mrun dr o.st ops; (obsM o :: r.1, r.2)

def srun (dr : Bool) : List Elem → List Op → List (Bool × Option (List Elem) × Bool) × List Elem
  | rs, [] => ([], rs)
  | rs, op :: ops => let o := sstep dr rs op; let r := srun dr o.st ops; (obsS o :: r.1, r.2)

/-- **C01, histories.**  For every finite sequence of operations with arbitrary arguments,
    started from any lockstep container of any shape: the sequence of observations (panic
    flag, returned value, `None`) and the final contents are those of the same sequence on
    the `Vec<T>` of rows; and the final container is in lockstep (C02). -/
theorem history (dr : Bool) : ∀ (ops : List Op) (c : Cols) (n : Nat), c.lock n → (∀ op ∈ ops, op.wf c) →
    (mrun dr c ops).1 = (srun dr c.rows ops).1 ∧ (mrun dr c ops).2.rows = (srun dr c.rows ops).2 ∧
      (∃ m, (mrun dr c ops).2.lock m) ∧ c.same (mrun dr c ops).2
  | [], c, n, hc, _ => ⟨rfl, rfl, ⟨n, hc⟩, same_refl c⟩
  | op :: ops, c, n, hc, hw => by
    have h := step_refines dr op hc (hw op (by simp))
    obtain ⟨m, hm⟩ := h.lock
    have ih := history dr ops (mstep dr c op).st m hm
      (fun o ho => wf_same h.same o (hw o (by simp [ho])))
    simp only [mrun, srun]
    rw [h.st] at ih
    refine ⟨?_, ih.2.1, ih.2.2.1, same_trans _ _ _ h.same ih.2.2.2⟩
    rw [ih.1]
    simp [obsM, obsS, h.panicked, h.ret, h.isNone]

/-- from `new()`: the empty container of any well-formed shape is in lockstep with no rows -/
theorem empty_lock : ∀ sh : Shape, sh.wf → sh.empty.lock 0
  | .leaf _, _ => by simp [Shape.empty, Shape.fill]
  | .nest fs, h => by
    rw [Shape.wf_nest] at h
    simp only [Shape.empty, Shape.fill, lock_nest]
    refine ⟨?_, go fs h.2⟩
    cases fs with
    | nil => exact absurd rfl h.1
    | cons f fs => simp [Shape.fill.fillL]
where go : ∀ fs : List Shape, (∀ f ∈ fs, f.wf) → ∀ c ∈ Shape.fill.fillL [] fs, c.lock 0
  | [], _ => by simp [Shape.fill.fillL]
  | f :: fs, h => by
    intro c hc
    simp only [Shape.fill.fillL, List.mem_cons] at hc
    cases hc with
    | inl e => subst e; exact empty_lock f (h f (by simp))
    | inr e => exact go fs (fun x hx => h x (by simp [hx])) c e

/-! ## non-vacuity: a concrete 3-field, nested container of length 2 meets the hypotheses -/

def exC : Cols := .nest [.leaf [8, 16], .nest [.leaf [9, 17], .leaf [10, 18]], .leaf [11, 19]]
def exE : Cols := .nest [.leaf [24], .nest [.leaf [25], .leaf [26]], .leaf [27]]
example : exC.lock 2 ∧ exE.lock 1 ∧ exC.same exE := by
  simp [exC, exE, Cols.lock, Cols.same, Cols.same.sameL]

/- `retain_mut` with a writing callback on the same container: the second call overwrites leaf 2 of the element it is shown
   with 99 and keeps it, the first element is rejected — on the field arrays and on the array of structs alike -/
example : (Model.retain false exC (fun i => i != 0) none (fun k _ => if k = 1 then some (2, 99) else none)).st.rows.map Elem.ids =
    (Spec.retain false exC.rows (fun i => i != 0) none (fun k _ => if k = 1 then some (2, 99) else none)).st.map Elem.ids ∧
    (Model.retain false exC (fun i => i != 0) none (fun k _ => if k = 1 then some (2, 99) else none)).st.flat = [16, 17, 99, 19] := by
  decide
example : (Model.insert false exC 1 exE).st.rows = (Spec.insert false exC.rows 1 exE.rows).st :=
  (insert false 1 (n := 2) (by simp [exC, Cols.lock]) (by simp [exE, Cols.lock])
    (by simp [exC, exE, Cols.same, Cols.same.sameL])).st


/-! ## the same, for the methods *as extracted from /repo on this run*

`Sk.runElem dr Extracted.sk_… c args` is the outcome computed from the template the translator
recovered from the generated code (validated against the real generators on eight struct
shapes).  These are the statements about the code itself; the hand-written `Model.*`
functions are intermediate. -/

/-- outcome of the extracted method refines the std operation -/
def RefinesX (c : Cols) (o : Option Model.Out) (s : Spec.Out) : Prop := ∃ m, o = some m ∧ Refines c m s

open Soa.Sk Soa.Extracted in
theorem push_extracted (dr : Bool) (hc : c.lock n) (he : e.lock 1) (hs : c.same e) :
    RefinesX c (runElem dr sk_PVec_push c [.elem e]) (Spec.push c.rows e.rows) :=
  ⟨_, push_tie dr c e, push hc he hs⟩

open Soa.Sk Soa.Extracted in
theorem insert_extracted (dr : Bool) (i : Nat) (hc : c.lock n) (he : e.lock 1) (hs : c.same e) :
    RefinesX c (runElem dr sk_PVec_insert c [.nat i, .elem e]) (Spec.insert dr c.rows i e.rows) :=
  ⟨_, insert_tie dr i hc he hs, insert dr i hc he hs⟩

open Soa.Sk Soa.Extracted in
theorem replace_extracted (dr : Bool) (i : Nat) (hc : c.lock n) (he : e.lock 1) (hs : c.same e) :
    RefinesX c (runElem dr sk_PVec_replace c [.nat i, .elem e]) (Spec.replace dr c.rows i e.rows) :=
  ⟨_, replace_tie dr i hc he hs, replace dr i hc he hs⟩

open Soa.Sk Soa.Extracted in
theorem remove_extracted (dr : Bool) (i : Nat) (hc : c.lock n) :
    RefinesX c (runElem dr sk_PVec_remove c [.nat i]) (Spec.remove c.rows i) :=
  ⟨_, remove_tie dr i c, remove i hc⟩

open Soa.Sk Soa.Extracted in
theorem swapRemove_extracted (dr : Bool) (i : Nat) (hc : c.lock n) :
    RefinesX c (runElem dr sk_PVec_swap_remove c [.nat i]) (Spec.swapRemove c.rows i) :=
  ⟨_, swap_remove_tie dr i c, swapRemove i hc⟩

open Soa.Sk Soa.Extracted in
theorem pop_extracted (dr : Bool) (hc : c.lock n) :
    RefinesX c (runElem dr sk_PVec_pop c []) (Spec.pop c.rows) :=
  ⟨_, pop_tie dr c, pop hc⟩

open Soa.Sk Soa.Extracted in
theorem splitOff_extracted (dr : Bool) (i : Nat) (hc : c.lock n) :
    RefinesX c (runElem dr sk_PVec_split_off c [.nat i]) (Spec.splitOff c.rows i) :=
  ⟨_, split_off_tie dr i c, splitOff i hc⟩

open Soa.Sk Soa.Extracted in
theorem append_extracted (dr : Bool) {d : Cols} {k : Nat} (hc : c.lock n) (hd : d.lock k) (hs : c.same d) :
    ∃ m, runElem dr sk_PVec_append c [.cont d] = some m ∧ m = Model.append c d :=
  ⟨_, append_tie dr c d, rfl⟩

open Soa.Sk Soa.Extracted in
theorem toVec_extracted (hc : c.lock n) :
    RefinesX c (runToVec sk_PSlice_a_to_vec c) (Spec.toVec c.rows) ∧
    RefinesX c (runToVec sk_PSliceMut_a_to_vec c) (Spec.toVec c.rows) :=
  ⟨⟨_, (to_vec_tie c).1, toVec hc⟩, ⟨_, (to_vec_tie c).2, toVec hc⟩⟩

/-- non-vacuity: the extracted `insert` on the concrete container really computes the std result -/
example : ((Soa.Sk.runElem false Soa.Extracted.sk_PVec_insert exC [.nat 1, .elem exE]).map (·.st.rows)) =
    some (Spec.insert false exC.rows 1 exE.rows).st := by
  rw [Soa.Sk.insert_tie false 1 (n := 2) (by simp [exC, Cols.lock]) (by simp [exE, Cols.lock])
    (by simp [exC, exE, Cols.same, Cols.same.sameL])]
  exact congrArg some (insert false 1 (n := 2) (by simp [exC, Cols.lock]) (by simp [exE, Cols.lock])
    (by simp [exC, exE, Cols.same, Cols.same.sameL])).st

/-- **text pin**: the generated functions this property's hand-written model describes have, in
    /repo today, exactly the text the model was written from (`Soa/Model/Pinned.lean`) -/
theorem bodies_pinned : Soa.Extracted.bodies_C01 = Soa.Model.pinned_C01 := rfl

theorem bodies_pinned_nonempty : Soa.Model.pinned_C01.length ≥ 4 := by decide

end Soa.C01
