import Soa.Props.C04Gen.VecRefGet
import Soa.Props.C04Gen.VecRefIndex
import Soa.Props.C04Gen.VecMutGetMut
import Soa.Props.C04Gen.VecMutIndexMut
import Soa.Props.C04Gen.SliceGet
import Soa.Props.C04Gen.SliceIndex
import Soa.Props.C04Gen.SliceMutGetMut
import Soa.Props.C04Gen.SliceMutIndexMut
import Soa.Model.Pinned
import Soa.Extracted.Bodies
/-!
# C04 — checked indexing agrees with std slices and is never out of bounds

Stated over the index layer **as extracted from `/repo` on this run** (`Soa.Extracted.table`,
84 functions).  For every container kind, every index form, every index value up to
`usize::MAX`, every length, every well-formed struct shape and both build profiles, the
non-panicking accessors return exactly what std's `get` returns, the panicking accessors
panic exactly when std indexing panics, the window is the same in every field, and it lies
inside the initialised part of every field array.

Partial in one respect (known finding KF-C04-exhausted-inclusive): an *exhausted*
`RangeInclusive` is excluded by hypothesis; the counter-example is proved below.
-/
namespace Soa.C04
open Soa.IdxIR Soa.Extracted

/-- the translator expressed every generated index function in the IR (nothing opaque) -/
theorem translation_complete : nFunctions = 84 ∧ nOpaque = 0 := by decide

/-- the non-panicking accessor of each container kind -/
def getOf : Kind → M
  | .vecRef | .slice => .get
  | .vecMut | .sliceMut => .getMut

/-- the panicking accessor of each container kind -/
def indexOf : Kind → M
  | .vecRef | .slice => .index
  | .vecMut | .sliceMut => .indexMut

/-- index values a program can build: `usize` fields, not an exhausted inclusive range -/
structure IV.ok (iv : IV) : Prop where
  end_le : iv.end_ ≤ MAX
  fresh : iv.exhausted = false

/-- **C04, `get` / `get_mut`.** -/
theorem get_agrees (p : Prof) (n : Nat) (sh : Shape) (hw : sh.wf) (k : Kind) (iv : IV) (hiv : IV.ok iv) :
    run p n sh k iv (getOf k) = expectGet (stdGet n iv) := by
  obtain ⟨he, hx⟩ := hiv
  cases k <;> cases hf : iv.form <;> simp only [getOf]
  all_goals first
    | exact agrees_vecRef_pos_get p n iv hf sh hw
    | exact agrees_vecRef_range_get p n iv hf sh hw
    | exact agrees_vecRef_rangeTo_get p n iv hf sh hw
    | exact agrees_vecRef_rangeFrom_get p n iv hf sh hw
    | exact agrees_vecRef_rangeFull_get p n iv hf sh hw
    | exact agrees_vecRef_rangeIncl_get p n iv hf sh hw he hx
    | exact agrees_vecRef_rangeToIncl_get p n iv hf sh hw he
    | exact agrees_vecMut_pos_getMut p n iv hf sh hw
    | exact agrees_vecMut_range_getMut p n iv hf sh hw
    | exact agrees_vecMut_rangeTo_getMut p n iv hf sh hw
    | exact agrees_vecMut_rangeFrom_getMut p n iv hf sh hw
    | exact agrees_vecMut_rangeFull_getMut p n iv hf sh hw
    | exact agrees_vecMut_rangeIncl_getMut p n iv hf sh hw he hx
    | exact agrees_vecMut_rangeToIncl_getMut p n iv hf sh hw he
    | exact agrees_slice_pos_get p n iv hf sh hw
    | exact agrees_slice_range_get p n iv hf sh hw
    | exact agrees_slice_rangeTo_get p n iv hf sh hw
    | exact agrees_slice_rangeFrom_get p n iv hf sh hw
    | exact agrees_slice_rangeFull_get p n iv hf sh hw
    | exact agrees_slice_rangeIncl_get p n iv hf sh hw he hx
    | exact agrees_slice_rangeToIncl_get p n iv hf sh hw he
    | exact agrees_sliceMut_pos_getMut p n iv hf sh hw
    | exact agrees_sliceMut_range_getMut p n iv hf sh hw
    | exact agrees_sliceMut_rangeTo_getMut p n iv hf sh hw
    | exact agrees_sliceMut_rangeFrom_getMut p n iv hf sh hw
    | exact agrees_sliceMut_rangeFull_getMut p n iv hf sh hw
    | exact agrees_sliceMut_rangeIncl_getMut p n iv hf sh hw he hx
    | exact agrees_sliceMut_rangeToIncl_getMut p n iv hf sh hw he

/-- **C04, `index` / `index_mut`.** -/
theorem index_agrees (p : Prof) (n : Nat) (sh : Shape) (hw : sh.wf) (k : Kind) (iv : IV) (hiv : IV.ok iv) :
    run p n sh k iv (indexOf k) = expectIndex (stdGet n iv) := by
  obtain ⟨he, hx⟩ := hiv
  cases k <;> cases hf : iv.form <;> simp only [indexOf]
  all_goals first
    | exact agrees_vecRef_pos_index p n iv hf sh hw
    | exact agrees_vecRef_range_index p n iv hf sh hw
    | exact agrees_vecRef_rangeTo_index p n iv hf sh hw
    | exact agrees_vecRef_rangeFrom_index p n iv hf sh hw
    | exact agrees_vecRef_rangeFull_index p n iv hf sh hw
    | exact agrees_vecRef_rangeIncl_index p n iv hf sh hw he hx
    | exact agrees_vecRef_rangeToIncl_index p n iv hf sh hw he
    | exact agrees_vecMut_pos_indexMut p n iv hf sh hw
    | exact agrees_vecMut_range_indexMut p n iv hf sh hw
    | exact agrees_vecMut_rangeTo_indexMut p n iv hf sh hw
    | exact agrees_vecMut_rangeFrom_indexMut p n iv hf sh hw
    | exact agrees_vecMut_rangeFull_indexMut p n iv hf sh hw
    | exact agrees_vecMut_rangeIncl_indexMut p n iv hf sh hw he hx
    | exact agrees_vecMut_rangeToIncl_indexMut p n iv hf sh hw he
    | exact agrees_slice_pos_index p n iv hf sh hw
    | exact agrees_slice_range_index p n iv hf sh hw
    | exact agrees_slice_rangeTo_index p n iv hf sh hw
    | exact agrees_slice_rangeFrom_index p n iv hf sh hw
    | exact agrees_slice_rangeFull_index p n iv hf sh hw
    | exact agrees_slice_rangeIncl_index p n iv hf sh hw he hx
    | exact agrees_slice_rangeToIncl_index p n iv hf sh hw he
    | exact agrees_sliceMut_pos_indexMut p n iv hf sh hw
    | exact agrees_sliceMut_range_indexMut p n iv hf sh hw
    | exact agrees_sliceMut_rangeTo_indexMut p n iv hf sh hw
    | exact agrees_sliceMut_rangeFrom_indexMut p n iv hf sh hw
    | exact agrees_sliceMut_rangeFull_indexMut p n iv hf sh hw
    | exact agrees_sliceMut_rangeIncl_indexMut p n iv hf sh hw he hx
    | exact agrees_sliceMut_rangeToIncl_indexMut p n iv hf sh hw he

/-- every window std selects lies inside the slice -/
theorem stdGet_inbounds (n : Nat) (iv : IV) (s l : Nat) (h : stdGet n iv = some (s, l)) : s + l ≤ n := by
  unfold stdGet at h
  cases hf : iv.form <;> simp only [hf] at h
  all_goals (try split at h) <;> (try split at h) <;> simp at h <;> (try omega)
  all_goals (obtain ⟨h1, h2⟩ := h; subst h1 h2; split at * <;> omega)

/-- **C04, never out of bounds.**  Whatever an accessor returns is a window inside the
    initialised part of every field array — in both profiles (so the `get_unchecked` calls of
    the generated code are in bounds: the outcome is never `ub`). -/
theorem inbounds (p : Prof) (n : Nat) (sh : Shape) (hw : sh.wf) (k : Kind) (iv : IV) (hiv : IV.ok iv) :
    (∀ s l, run p n sh k iv (getOf k) = .ok (.some_ (.win s l)) → s + l ≤ n) ∧
    (∀ s l, run p n sh k iv (indexOf k) = .ok (.win s l) → s + l ≤ n) ∧
    run p n sh k iv (getOf k) ≠ .err .ub ∧ run p n sh k iv (indexOf k) ≠ .err .ub := by
  rw [get_agrees p n sh hw k iv hiv, index_agrees p n sh hw k iv hiv]
  refine ⟨?_, ?_, ?_, ?_⟩
  · intro s l h
    cases hg : stdGet n iv with
    | none => simp [hg, expectGet] at h
    | some w =>
      obtain ⟨s', l'⟩ := w
      simp only [hg, expectGet, R.ok.injEq, V.some_.injEq, V.win.injEq] at h
      obtain ⟨rfl, rfl⟩ := h
      exact stdGet_inbounds n iv _ _ hg
  · intro s l h
    cases hg : stdGet n iv with
    | none => simp [hg, expectIndex] at h
    | some w =>
      obtain ⟨s', l'⟩ := w
      simp only [hg, expectIndex, R.ok.injEq, V.win.injEq] at h
      obtain ⟨rfl, rfl⟩ := h
      exact stdGet_inbounds n iv _ _ hg
  · cases stdGet n iv <;> simp [expectGet]
  · cases stdGet n iv <;> simp [expectIndex]

/-- debug and release builds of the accessors behave identically (C17 for the index layer) -/
theorem profile_independent (n : Nat) (sh : Shape) (hw : sh.wf) (k : Kind) (iv : IV) (hiv : IV.ok iv) :
    run .debug n sh k iv (getOf k) = run .release n sh k iv (getOf k) ∧
    run .debug n sh k iv (indexOf k) = run .release n sh k iv (indexOf k) := by
  rw [get_agrees .debug n sh hw k iv hiv, get_agrees .release n sh hw k iv hiv,
    index_agrees .debug n sh hw k iv hiv, index_agrees .release n sh hw k iv hiv]
  exact ⟨rfl, rfl⟩

/-! ## the full-strength statement fails on an exhausted inclusive range (known finding) -/

def sh3 : Shape := .nest [.leaf, .nest [.leaf, .leaf], .leaf]

/-- witness: on a container of length 1, `get(0..=0)` with the range exhausted: the generated
    code selects element 0, std selects the empty range at 1 -/
example : run .release 1 sh3 .vecRef { form := .rangeIncl, start := 0, end_ := 0, exhausted := true } .get
    = .ok (.some_ (.win 0 1)) := by decide
example : expectGet (stdGet 1 { form := .rangeIncl, start := 0, end_ := 0, exhausted := true })
    = .ok (.some_ (.win 1 0)) := by decide

/-! ## non-vacuity -/
example : sh3.wf := by simp [sh3, Shape.wf]
example : IV.ok { form := .rangeIncl, start := 1, end_ := 2 } := ⟨by decide, rfl⟩
example : run .debug 3 sh3 .sliceMut { form := .rangeIncl, start := 1, end_ := 2 } .getMut = .ok (.some_ (.win 1 2)) := by
  decide

/-- **text pin**: the generated functions this property's hand-written model describes have, in
    /repo today, exactly the text the model was written from (`Soa/Model/Pinned.lean`) -/
theorem bodies_pinned : Soa.Extracted.bodies_C04 = Soa.Model.pinned_C04 := rfl

theorem bodies_pinned_nonempty : Soa.Model.pinned_C04.length ≥ 4 := by decide

end Soa.C04
