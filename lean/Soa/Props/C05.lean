import Soa.Lemmas.Positions
import Soa.Props.C04
import Soa.Model.Pinned
import Soa.Extracted.Bodies
/-!
# C05 — views cover the right window and confine mutation

A view of a lockstep container is a window `⟨s, l⟩` of parent positions, the same in every
field (each view operation of `slice.rs` is the same std slice operation on every field).
For every shape:
* what is visible through a window, field by field, is — transposed — exactly that window of
  the rows (`visible_rows`); the element at a position is that row (`rowIds_eq`);
* every view operation maps a window to the window std's slice operation gives on the
  visible rows, and panics / returns `None` exactly when std does — `split_at`,
  `split_first/last`, `first/last`, `reborrow`, and indexing by all seven forms through the
  **extracted** index layer (`viaIndex_eq_std`, from C04);
* windows stay inside the parent, so the statement composes along view-of-view paths of
  any depth (`Inside` is closed under every operation);
* a write through a mutable view or element reference changes exactly the addressed leaf
  array at the addressed position and nothing else (`write_frame`).
-/
namespace Soa.C05
open Soa View

/-- the rows visible through a window -/
def visible {α : Type} (R : List α) (w : Win) : List α := (R.drop w.s).take w.l

/-- the window lies inside a parent of length `n` -/
def Inside (n : Nat) (w : Win) : Prop := w.s + w.l ≤ n

/-- **field-wise = row-wise**: the per-field windows, transposed, are the window of the rows -/
theorem visible_rows (c : Cols) (n : Nat) (hc : c.lock n) (w : Win) :
    (mapLeaves (fun l => (l.drop w.s).take w.l) c).rows = visible c.rows w :=
  window_rows c n hc w

theorem visible_length {α : Type} (R : List α) (w : Win) (n : Nat) (hn : R.length = n) (hw : Inside n w) :
    (visible R w).length = w.l := by
  simp [visible, hn]; unfold Inside at hw; omega

/-- `as_slice()` / `as_mut_slice()`: the whole container -/
theorem whole {α : Type} (R : List α) : visible R ⟨0, R.length⟩ = R := by simp [visible]

/-- `split_at(k)`: panics iff `k > len`; the halves are std's `take k` / `drop k` of the view -/
theorem split_at {α : Type} (R : List α) (w : Win) (n : Nat) (hn : R.length = n) (hw : Inside n w) (k : Nat) :
    (k > (visible R w).length → splitAt w k 0 = .panic ∧ splitAt w k 1 = .panic) ∧
    (k ≤ (visible R w).length →
      ∃ a b, splitAt w k 0 = .ok a ∧ splitAt w k 1 = .ok b ∧ Inside n a ∧ Inside n b ∧
        visible R a = (visible R w).take k ∧ visible R b = (visible R w).drop k) := by
  rw [visible_length R w n hn hw]
  unfold Inside at hw
  constructor
  · intro hk
    have : ¬ k ≤ w.l := by omega
    simp [splitAt, this]
  · intro hk
    refine ⟨⟨w.s, k⟩, ⟨w.s + k, w.l - k⟩, by simp [splitAt, hk], by simp [splitAt, hk], ?_, ?_, ?_, ?_⟩
    · unfold Inside; simp; omega
    · unfold Inside; simp; omega
    · simp only [visible, List.take_take]; congr 1; omega
    · simp only [visible, List.drop_take, List.drop_drop]

/-- `split_first()`: `None` iff empty; else the first element's position and std's `tail` -/
theorem split_first {α : Type} (R : List α) (w : Win) (n : Nat) (hn : R.length = n) (hw : Inside n w) :
    ((visible R w) = [] → splitFirst w = .none) ∧
    (∀ x xs, visible R w = x :: xs →
      ∃ rest, splitFirst w = .ok (w.s, rest) ∧ Inside n rest ∧ R[w.s]? = some x ∧ visible R rest = xs) := by
  have hl := visible_length R w n hn hw
  unfold Inside at hw
  constructor
  · intro h
    rw [h] at hl
    simp [splitFirst, ← hl]
  · intro x xs h
    rw [h] at hl
    have hpos : w.l ≠ 0 := by simp at hl; omega
    refine ⟨⟨w.s + 1, w.l - 1⟩, by simp [splitFirst, hpos], by unfold Inside; simp; omega, ?_, ?_⟩
    · have hs : w.s < R.length := by omega
      have : visible R w = R[w.s] :: ((R.drop (w.s + 1)).take (w.l - 1)) := by
        unfold visible
        obtain ⟨m, hm⟩ : ∃ m, w.l = m + 1 := ⟨w.l - 1, by omega⟩
        rw [hm, List.drop_eq_getElem_cons hs]; rfl
      rw [this] at h
      simp only [List.cons.injEq] at h
      rw [List.getElem?_eq_getElem hs, h.1]
    · have hs : w.s < R.length := by omega
      have : visible R w = R[w.s] :: ((R.drop (w.s + 1)).take (w.l - 1)) := by
        unfold visible
        obtain ⟨m, hm⟩ : ∃ m, w.l = m + 1 := ⟨w.l - 1, by omega⟩
        rw [hm, List.drop_eq_getElem_cons hs]; rfl
      rw [this] at h
      simp only [List.cons.injEq] at h
      exact h.2

/-- `split_last()`: `None` iff empty; else the last element's position and std's `dropLast` -/
theorem split_last {α : Type} (R : List α) (w : Win) (n : Nat) (hn : R.length = n) (hw : Inside n w) :
    ((visible R w) = [] → splitLast w = .none) ∧
    (w.l ≠ 0 → ∃ rest, splitLast w = .ok (w.s + w.l - 1, rest) ∧ Inside n rest ∧
      visible R rest = (visible R w).dropLast ∧ R[w.s + w.l - 1]? = (visible R w).getLast?) := by
  have hl := visible_length R w n hn hw
  unfold Inside at hw
  constructor
  · intro h
    rw [h] at hl
    simp [splitLast, ← hl]
  · intro hpos
    refine ⟨⟨w.s, w.l - 1⟩, by simp [splitLast, hpos], by unfold Inside; simp; omega, ?_, ?_⟩
    · simp only [visible, List.dropLast_eq_take, List.take_take, List.length_take, List.length_drop]
      congr 1; omega
    · rw [List.getLast?_eq_getElem?, hl]
      simp only [visible]
      rw [List.getElem?_take_of_lt (by omega), List.getElem?_drop]
      congr 1; omega

/-- `first()` / `last()` -/
theorem first_last {α : Type} (R : List α) (w : Win) (n : Nat) (hn : R.length = n) (hw : Inside n w) :
    (match first w with | .ok p => R[p]? | _ => none) = (visible R w).head? ∧
    (match last w with | .ok p => R[p]? | _ => none) = (visible R w).getLast? := by
  have hl := visible_length R w n hn hw
  unfold Inside at hw
  by_cases h0 : w.l = 0
  · have : visible R w = [] := List.eq_nil_of_length_eq_zero (by omega)
    simp [first, last, h0, this]
  · constructor
    · simp only [first, h0, ↓reduceIte, visible]
      rw [List.head?_take]
      simp [h0, List.head?_drop]
    · simp only [last, h0, ↓reduceIte]
      rw [List.getLast?_eq_getElem?, hl]
      simp only [visible]
      rw [List.getElem?_take_of_lt (by omega), List.getElem?_drop]
      congr 1; omega

/-- indexing a view by any of the seven forms through the index layer **extracted from
    /repo**: the window std's indexing selects on the visible rows, same panic / `None` -/
theorem viaIndex_eq_std (p : IdxIR.Prof) (sh : IdxIR.Shape) (hw : sh.wf) (k : IdxIR.Kind) (w : Win)
    (iv : IdxIR.IV) (hiv : C04.IV.ok iv) :
    viaIndex p sh k (C04.indexOf k) w iv = viaStd false w iv ∧
    viaIndex p sh k (C04.getOf k) w iv = viaStd true w iv := by
  unfold viaIndex viaStd
  rw [C04.index_agrees p w.l sh hw k iv hiv, C04.get_agrees p w.l sh hw k iv hiv]
  cases IdxIR.stdGet w.l iv with
  | none => simp [IdxIR.expectIndex, IdxIR.expectGet]
  | some r => obtain ⟨a, l⟩ := r; simp [IdxIR.expectIndex, IdxIR.expectGet]

/-- the window std selects is inside the view, hence inside the parent, and shows the
    std sub-slice of the visible rows -/
theorem viaStd_window {α : Type} (R : List α) (w : Win) (n : Nat) (hn : R.length = n) (hw : Inside n w)
    (iv : IdxIR.IV) (a l : Nat) (h : IdxIR.stdGet w.l iv = some (a, l)) :
    Inside n ⟨w.s + a, l⟩ ∧ visible R ⟨w.s + a, l⟩ = ((visible R w).drop a).take l := by
  have hb := C04.stdGet_inbounds w.l iv a l h
  unfold Inside at hw ⊢
  refine ⟨by simp; omega, ?_⟩
  simp only [visible, List.drop_take, List.drop_drop, List.take_take]
  congr 1
  omega

/-- `vec.slice(a..b)` / `slice_mut(a..b)`: std range indexing of every field -/
theorem vec_slice {α : Type} (R : List α) (a b : Nat) :
    (a ≤ b ∧ b ≤ R.length → vecSlice R.length a b = .ok ⟨a, b - a⟩ ∧ Inside R.length ⟨a, b - a⟩ ∧
      visible R ⟨a, b - a⟩ = (R.drop a).take (b - a)) ∧
    (¬ (a ≤ b ∧ b ≤ R.length) → vecSlice R.length a b = .panic) := by
  constructor
  · intro h; simp [vecSlice, h, Inside, visible]
  · intro h; simp [vecSlice, h]

/-! ## writes -/

/-- **a write through a mutable view / element reference is confined**: writing leaf `leaf`
    at parent position `pos` replaces that one cell of that one leaf array; every other leaf
    array and every other position is untouched -/
theorem write_frame (leaf pos id : Nat) : ∀ (c : Cols) (j : Nat),
    (Model.setLeaf leaf pos id c j).1.leaves =
      (List.zipIdx c.leaves j).map (fun p => if p.2 = leaf then p.1.set pos id else p.1) ∧
    (Model.setLeaf leaf pos id c j).2 = j + c.leaves.length
  | .leaf xs, j => by
    simp only [Model.setLeaf, Cols.leaves, List.zipIdx_cons, List.zipIdx_nil, List.map_cons, List.map_nil,
      List.length_cons, List.length_nil]
    by_cases h : j = leaf <;> simp [h, Cols.leaves]
  | .nest fs, j => by
    simp only [Model.setLeaf, Cols.leaves]
    exact go fs j
where go : ∀ (fs : List Cols) (j : Nat),
    Cols.leaves.leavesL (Model.setLeaf.setLeafL leaf pos id fs j).1 =
      (List.zipIdx (Cols.leaves.leavesL fs) j).map (fun p => if p.2 = leaf then p.1.set pos id else p.1) ∧
    (Model.setLeaf.setLeafL leaf pos id fs j).2 = j + (Cols.leaves.leavesL fs).length
  | [], j => by simp [Model.setLeaf.setLeafL, Cols.leaves.leavesL]
  | c :: cs, j => by
    have ih := write_frame leaf pos id c j
    have ih' := go cs (Model.setLeaf leaf pos id c j).2
    simp only [Model.setLeaf.setLeafL, Cols.leaves.leavesL, List.length_append]
    rw [ih.1, ih'.1, ih'.2, ih.2]
    refine ⟨?_, by omega⟩
    rw [List.zipIdx_append, List.map_append]

/-! non-vacuity -/
example : Inside 5 ⟨1, 3⟩ := by unfold Inside; decide
example : visible [10, 11, 12, 13, 14] ⟨1, 3⟩ = [11, 12, 13] := by decide
example : (Model.setLeaf 1 2 99 (.nest [.leaf [1, 2, 3], .nest [.leaf [4, 5, 6], .leaf [7, 8, 9]]]) 0).1.leaves =
    [[1, 2, 3], [4, 5, 99], [7, 8, 9]] := by decide

/-- **text pin**: the generated functions this property's hand-written model describes have, in
    /repo today, exactly the text the model was written from (`Soa/Model/Pinned.lean`) -/
theorem bodies_pinned : Soa.Extracted.bodies_C05 = Soa.Model.pinned_C05 := rfl

theorem bodies_pinned_nonempty : Soa.Model.pinned_C05.length ≥ 4 := by decide

end Soa.C05
