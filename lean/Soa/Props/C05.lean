import Soa.Model.Exec
