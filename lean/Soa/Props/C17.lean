import Soa.Props.C04
import Soa.Props.C09
import Soa.Props.C01
/-!
# C17 — debug and release builds behave identically

Two mechanisms could make the profiles differ: `debug_assert*` lines, and `+ 1` evaluated
with overflow checks on or off.
* The generated `len()` / `is_empty()` assertions are vacuous on a lockstep container
  (`len_independent`, `isEmpty_independent`); `capacity()` no longer asserts (fix 368d6b1);
  no other generated method mentions a debug assertion, and the model of the vector API
  (`Soa.Model`, C01–C03) has no profile parameter at all — tied to both builds by the
  correspondence.
* Every `+ 1` of the extracted index layer and of the extracted `RangeBounds` conversions
  is evaluated only below `usize::MAX`: the accessors return the same result in both
  profiles (`index_layer_independent`, `bounds_independent`, over the terms extracted from
  `/repo` on this run).
-/
namespace Soa.C17
open Soa

theorem len_independent (c : Cols) (n : Nat) (h : c.lock n) :
    Model.len .debug c = some n ∧ Model.len .release c = some n := by
  have hf := firstLen_lock c n h
  have hl := leaves_lock n c h
  refine ⟨?_, by simp [Model.len, hf]⟩
  simp only [Model.len, hf]
  have : c.leaves.all (fun l => l.length == n) = true := by
    rw [List.all_eq_true]; intro l hm; simp [hl l hm]
  simp [this]

theorem isEmpty_independent (c : Cols) (n : Nat) (h : c.lock n) :
    Model.isEmpty .debug c = some (n == 0) ∧ Model.isEmpty .release c = some (n == 0) := by
  have hf := firstLen_lock c n h
  have hl := leaves_lock n c h
  refine ⟨?_, by simp [Model.isEmpty, hf]⟩
  simp only [Model.isEmpty, hf]
  have : c.leaves.all (fun l => (l.length == 0) == (n == 0)) = true := by
    rw [List.all_eq_true]; intro l hm; simp [hl l hm]
  simp [this]

/-- checked indexing (extracted index layer): same outcome in both profiles -/
theorem index_layer_independent (n : Nat) (sh : IdxIR.Shape) (hw : sh.wf) (k : IdxIR.Kind) (iv : IdxIR.IV)
    (hiv : C04.IV.ok iv) :
    IdxIR.run .debug n sh k iv (C04.getOf k) = IdxIR.run .release n sh k iv (C04.getOf k) ∧
    IdxIR.run .debug n sh k iv (C04.indexOf k) = IdxIR.run .release n sh k iv (C04.indexOf k) :=
  C04.profile_independent n sh hw k iv hiv

/-- trait slicing with any range bounds (extracted conversions): same outcome in both profiles -/
theorem bounds_independent (c : Bounds.Conv) (hc : c ∈ Extracted.convs) (n : Nat) (hn : n ≤ IdxIR.MAX)
    (sh : IdxIR.Shape) (hw : sh.wf) (sb eb : Bounds.Bound) (heb : ∀ v, eb = .exc v → v ≤ IdxIR.MAX) :
    c.run .debug n sh sb eb = c.run .release n sh sb eb :=
  C09.bounds_profile_independent c hc n hn sh hw sb eb heb

/-- the full-strength statement needs lockstep: on a desynchronised container `len()` differs -/
example : Model.len .debug (.nest [.leaf [1, 2], .leaf [3]]) = none ∧
    Model.len .release (.nest [.leaf [1, 2], .leaf [3]]) = some 2 := by decide

end Soa.C17
