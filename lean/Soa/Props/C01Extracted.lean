import Soa.Props.C01
import Soa.Lemmas.GenTie
/-!
# C01 for the vector API *as extracted from /repo*: every finite history refines `Vec<T>`

`gstep` is one call of the vector API computed the way the model driver computes it: from the
templates and statement trees the translator extracted from /repo on this run, the loops
calling the extracted element-level methods.  `history_extracted` is `C01.history` for it:
for every shape, every lockstep start and every finite sequence of operations with arbitrary
(valid or invalid) arguments, the observations (panic flag, returned value, `None`) and the
final contents are those of the same sequence on the `Vec<T>` of rows.
-/
namespace Soa.C01
open Soa Soa.Exec

def gstep (dr : Bool) (c : Cols) : Op → Model.Out
  | .push e => Gen.push dr c e | .pop => Gen.pop dr c | .insert i e => Gen.insert dr c i e
  | .replace i e => Gen.replace dr c i e | .remove i => Gen.remove dr c i
  | .swapRemove i => Gen.swapRemove dr c i | .truncate k => Gen.truncate dr c k
  | .clear => Gen.clear dr c | .retain keep => Gen.retain dr false c keep none (fun _ _ => none)
  | .retainMut keep touch => Gen.retain dr true c keep none touch
  | .extend es => Gen.extend dr c es | .resize k e => Gen.resize dr c k e
  | .splitOff i => Gen.splitOff dr c i | .extendFromSlice d => Gen.extendFromSlice dr c d
  | .append d => Gen.append dr c d

/-- same contents left behind, same panic flag, same returned value, same `None` -/
def Eqv (a b : Model.Out) : Prop := a.st = b.st ∧ a.panicked = b.panicked ∧ a.ret = b.ret ∧ a.isNone = b.isNone

theorem Eqv.of_eq {a b : Model.Out} (h : a = b) : Eqv a b := by subst h; exact ⟨rfl, rfl, rfl, rfl⟩

variable {c : Cols} {n : Nat}

/-- one extracted call = one call of the hand-written model (the clone events of `extend_from_slice` aside) -/
theorem gstep_eqv (dr : Bool) (op : Op) (hc : c.lock n) (hw : op.wf c) : Eqv (gstep dr c op) (mstep dr c op) := by
  cases op with
  | push e => exact .of_eq (Gen.push_eq dr c e)
  | pop => exact .of_eq (Gen.pop_eq dr c)
  | insert i e => exact .of_eq (Gen.insert_eq dr i hc hw.1 hw.2)
  | replace i e => exact .of_eq (Gen.replace_eq dr i hc hw.1 hw.2)
  | remove i => exact .of_eq (Gen.remove_eq dr c i)
  | swapRemove i => exact .of_eq (Gen.swapRemove_eq dr c i)
  | truncate k => exact .of_eq (Gen.truncate_eq dr k hc)
  | clear => exact .of_eq (Gen.clear_eq dr hc)
  | retain keep => exact .of_eq (Gen.retain_eq dr false keep none hc)
  | retainMut keep touch => exact .of_eq (Gen.retain_eq_w dr true keep none touch hc)
  | extend es => exact .of_eq (Gen.extend_eq dr c es)
  | resize k e => exact .of_eq (Gen.resize_eq dr k hc hw.1 hw.2)
  | splitOff i => exact .of_eq (Gen.splitOff_eq dr c i)
  | append d => exact .of_eq (Gen.append_eq dr c d)
  | extendFromSlice d =>
    have h := Gen.extendFromSlice_core dr c d
    simp only [Lp.core, Prod.mk.injEq] at h
    have hm : (Model.extendFromSlice c d).ret = none ∧ (Model.extendFromSlice c d).isNone = false := ⟨rfl, rfl⟩
    refine ⟨h.1, h.2.1, ?_, ?_⟩
    · -- the interpreter returns nothing from a unit function
      simp only [gstep, mstep, Gen.extendFromSlice]
      cases hr : Lp.run { dr := dr, ps := [Lp.V.src d], M := Gen.methods dr c, fuel := c.firstLen + 2 }
          Extracted.lp_PVec_soa_derive_SoAAppendVec_P_extend_from_slice c with
      | none => rfl
      | some o =>
        simp only [Option.getD_some]
        unfold Lp.run at hr
        simp only [Lp.efs_stmts.2] at hr
        split at hr <;> simp at hr <;> subst hr <;> rfl
    · simp only [gstep, mstep, Gen.extendFromSlice]
      cases hr : Lp.run { dr := dr, ps := [Lp.V.src d], M := Gen.methods dr c, fuel := c.firstLen + 2 }
          Extracted.lp_PVec_soa_derive_SoAAppendVec_P_extend_from_slice c with
      | none => rfl
      | some o =>
        simp only [Option.getD_some]
        unfold Lp.run at hr
        simp only [Lp.efs_stmts.2] at hr
        split at hr <;> simp at hr <;> subst hr <;> rfl

theorem gstep_refines (dr : Bool) (op : Op) (hc : c.lock n) (hw : op.wf c) :
    Refines c (gstep dr c op) (sstep dr c.rows op) := by
  have h := step_refines dr op hc hw
  obtain ⟨h1, h2, h3, h4⟩ := gstep_eqv dr op hc hw
  exact ⟨by rw [h2]; exact h.panicked, by rw [h1]; exact h.st, by rw [h3]; exact h.ret, by rw [h4]; exact h.isNone,
    by rw [h1]; exact h.lock, by rw [h1]; exact h.same, by rw [h1, h2]; exact h.atomic⟩

def grun (dr : Bool) : Cols → List Op → List (Bool × Option (List Elem) × Bool) × Cols
  | c, [] => ([], c)
  | c, op :: ops => let o := gstep dr c op; let r := grun dr o.st ops; (obsM o :: r.1, r.2)

/-- **C01 for the extracted vector API, histories** -/
theorem history_extracted (dr : Bool) : ∀ (ops : List Op) (c : Cols) (n : Nat), c.lock n → (∀ op ∈ ops, op.wf c) →
    (grun dr c ops).1 = (srun dr c.rows ops).1 ∧ (grun dr c ops).2.rows = (srun dr c.rows ops).2 ∧
      (∃ m, (grun dr c ops).2.lock m) ∧ c.same (grun dr c ops).2
  | [], c, n, hc, _ => ⟨rfl, rfl, ⟨n, hc⟩, same_refl c⟩
  | op :: ops, c, n, hc, hw => by
    have h := gstep_refines dr op hc (hw op (by simp))
    obtain ⟨m, hm⟩ := h.lock
    have ih := history_extracted dr ops (gstep dr c op).st m hm
      (fun o ho => wf_same h.same o (hw o (by simp [ho])))
    simp only [grun, srun]
    rw [h.st] at ih
    refine ⟨?_, ih.2.1, ih.2.2.1, same_trans _ _ _ h.same ih.2.2.2⟩
    rw [ih.1]
    simp [obsM, obsS, h.panicked, h.ret, h.isNone]

/-- non-vacuity: a concrete history on the concrete nested container -/
example : (grun false exC [.insert 1 exE, .pop, .truncate 1]).2.rows = (srun false exC.rows [.insert 1 exE, .pop, .truncate 1]).2 :=
  (history_extracted false [.insert 1 exE, .pop, .truncate 1] exC 2 (by simp [exC, Cols.lock])
    (by intro op hop
        simp only [List.mem_cons, List.mem_nil_iff, or_false] at hop
        rcases hop with rfl | rfl | rfl
        · exact ⟨by simp [exE, Cols.lock], by simp [exC, exE, Cols.same, Cols.same.sameL]⟩
        · trivial
        · trivial)).2.1

end Soa.C01
