import Soa.Core
/-!
# The std operations the generated code calls on every field array

Each one is a `PolyOp`: a partial list operation with an argument column and a result
column, natural in the element type, whose failure (= panic of the std call) is decided
by the two lengths.  Operations without an argument require the empty argument column
(`k = 0`); the model always passes it.

Validated against the real std on every run by the std-mirror ↔ spec comparison.
-/
namespace Soa


/-- build a `PolyOp` from a length guard and a total natural function -/
def PolyOp.ofTotal (ok : Nat → Nat → Bool)
    (f : {α : Type} → List α → List α → List α × List α)
    (hnat : ∀ {α β : Type} (g : α → β) (xs as : List α),
      f (xs.map g) (as.map g) = ((f xs as).1.map g, (f xs as).2.map g)) : PolyOp where
  run xs as := if ok xs.length as.length then some (f xs as) else none
  fails n k := !ok n k
  fail_iff xs as := by cases h : ok xs.length as.length <;> simp [h]
  nat g xs as := by
    cases h : ok xs.length as.length <;> simp [h, hnat]

@[simp] theorem PolyOp.ofTotal_run {ok f hnat} {α : Type} (xs as : List α) :
    (PolyOp.ofTotal ok f hnat).run xs as = if ok xs.length as.length then some (f xs as) else none := rfl
@[simp] theorem PolyOp.ofTotal_fails {ok f hnat} (n k : Nat) :
    (PolyOp.ofTotal ok f hnat).fails n k = !ok n k := rfl

/-- `Vec::push` / `Vec::append` / `Extend`: the argument column is appended. -/
def appendOp : PolyOp :=
  .ofTotal (fun _ _ => true) (fun xs as => (xs ++ as, [])) (by intros; simp)

/-- `Vec::insert(i, a)`: argument column spliced in at `i`; panics iff `i > len`. -/
def insertOp (i : Nat) : PolyOp :=
  .ofTotal (fun n _ => decide (i ≤ n)) (fun xs as => (xs.take i ++ as ++ xs.drop i, []))
    (by intros; simp [List.map_take, List.map_drop])

/-- `Vec::remove(i)`: panics iff `i ≥ len`; result column = the removed value. -/
def removeOp (i : Nat) : PolyOp :=
  .ofTotal (fun n k => decide (i < n) && k == 0)
    (fun xs _ => (xs.take i ++ xs.drop (i+1), (xs.drop i).take 1))
    (by intros; simp [List.map_take, List.map_drop])

/-- `Vec::pop().unwrap()`: panics iff empty. -/
def popOp : PolyOp :=
  .ofTotal (fun n k => decide (0 < n) && k == 0)
    (fun xs _ => (xs.take (xs.length - 1), xs.drop (xs.length - 1)))
    (by intros; simp [List.map_take, List.map_drop])

/-- `mem::replace(&mut v[i], a)`: panics iff `i ≥ len`; result column = the old value. -/
def replaceOp (i : Nat) : PolyOp :=
  .ofTotal (fun n _ => decide (i < n))
    (fun xs as => (xs.take i ++ as ++ xs.drop (i+1), (xs.drop i).take 1))
    (by intros; simp [List.map_take, List.map_drop])

/-- `Vec::truncate(k)` (and `clear` = `truncate 0`): result column = the discarded suffix. -/
def truncateOp (k : Nat) : PolyOp :=
  .ofTotal (fun _ j => j == 0) (fun xs _ => (xs.take k, xs.drop k))
    (by intros; simp [List.map_take, List.map_drop])

/-- `Vec::split_off(at)`: panics iff `at > len`; result column = the tail. -/
def splitOffOp (at_ : Nat) : PolyOp :=
  .ofTotal (fun n k => decide (at_ ≤ n) && k == 0) (fun xs _ => (xs.take at_, xs.drop at_))
    (by intros; simp [List.map_take, List.map_drop])

/-- swap of two positions of a list (total; identity when out of range) -/
def swapList {α : Type} (xs : List α) (a b : Nat) : List α :=
  match xs[a]?, xs[b]? with
  | some x, some y => (xs.set a y).set b x
  | _, _ => xs

theorem map_swapList {α β : Type} (f : α → β) (xs : List α) (a b : Nat) :
    swapList (xs.map f) a b = (swapList xs a b).map f := by
  unfold swapList
  cases ha : xs[a]? <;> cases hb : xs[b]? <;> simp [ha, hb, List.map_set]

@[simp] theorem length_swapList {α : Type} (xs : List α) (a b : Nat) :
    (swapList xs a b).length = xs.length := by
  unfold swapList
  cases xs[a]? <;> cases xs[b]? <;> simp

theorem swapList_perm {α : Type} (xs : List α) (a b : Nat) : (swapList xs a b).Perm xs := by
  unfold swapList
  cases ha : xs[a]? with
  | none => simp
  | some x =>
    cases hb : xs[b]? with
    | none => simp
    | some y =>
      obtain ⟨h1, e1⟩ := List.getElem?_eq_some_iff.mp ha
      obtain ⟨h2, e2⟩ := List.getElem?_eq_some_iff.mp hb
      simp only
      rw [← e1, ← e2]
      exact List.set_set_perm h1 h2

/-- `Vec::swap_remove(i)`: swap with the last value, then pop it. -/
def swapRemoveOp (i : Nat) : PolyOp :=
  .ofTotal (fun n k => decide (i < n) && k == 0)
    (fun xs _ => ((swapList xs i (xs.length - 1)).take (xs.length - 1),
                  (swapList xs i (xs.length - 1)).drop (xs.length - 1)))
    (by intros; simp [List.map_take, List.map_drop, map_swapList])

/-- `slice::swap(a, b)`: panics iff an index is out of range. -/
def swapOp (a b : Nat) : PolyOp :=
  .ofTotal (fun n k => decide (a < n) && decide (b < n) && k == 0) (fun xs _ => (swapList xs a b, []))
    (by intros; simp [map_swapList])

/-- valid index list for a gather of a column of length `n` (what `permutation` asserts) -/
def gatherOk (p : List Nat) (n : Nat) : Bool := p.length == n && p.all (· < n)

/-- permutation gather `new[i] = old[p[i]]`: the functional specification of
    `Permutation::oneline(p).inverse().apply_slice_in_place`. -/
def gatherOp (p : List Nat) : PolyOp :=
  .ofTotal (fun n k => gatherOk p n && k == 0) (fun xs _ => (p.filterMap (xs[·]?), []))
    (by intros; simp [List.map_filterMap])

/-- reading the positions `is` (a window, one position, …) without changing the column -/
def pickOp (is : List Nat) : PolyOp :=
  .ofTotal (fun n _ => is.all (· < n)) (fun xs _ => (xs, is.filterMap (xs[·]?)))
    (by intros; simp [List.map_filterMap])

/-- `Vec::resize(new_len, a)` on one field with the value column `[a]`: grows by copies of
    the argument (clones are copies of the id), or truncates; the result column is what
    is destroyed (the truncated suffix, and the value itself when nothing is appended). -/
def resizeOp (newLen : Nat) : PolyOp :=
  .ofTotal (fun _ _ => true)
    (fun xs as => if newLen ≤ xs.length then (xs.take newLen, xs.drop newLen ++ as)
      else (xs ++ (List.replicate (newLen - xs.length) as).flatten, []))
    (by
      intro α β g xs as
      by_cases h : newLen ≤ xs.length <;>
        simp [h, List.map_take, List.map_drop, List.map_flatten, List.map_replicate])

/-- `Vec::extend_from_slice(src)`: clones of the source column are appended; the source
    column is handed back unchanged (it is only borrowed). -/
def extendCloneOp : PolyOp :=
  .ofTotal (fun _ _ => true) (fun xs as => (xs ++ as, as)) (by intros; simp)

end Soa
