import Soa.Ops
namespace Soa

/-- a view / iterator / pointer bundle is a container of *parent positions* with the parent's shape -/
def Cols.const (is : List Nat) : Cols → Cols
  | .leaf _ => .leaf is
  | .nest fs => .nest (constL is fs)
where constL (is : List Nat) : List Cols → List Cols
  | [] => []
  | c :: cs => c.const is :: constL is cs

/-- gather with an arbitrary index list (window, reversed window, single position, ...) -/

theorem same_const (is : List Nat) : ∀ c : Cols, c.same (c.const is)
  | .leaf _ => by simp [Cols.const, Cols.same]
  | .nest fs => by
    simp only [Cols.const, same_nest]
    exact go fs
where go : ∀ fs : List Cols, Cols.same.sameL fs (Cols.const.constL is fs)
  | [] => by simp [Cols.const.constL, Cols.same.sameL]
  | c :: cs => by simp only [Cols.const.constL, sameL_cons]; exact ⟨same_const is c, go cs⟩

theorem lock_const (is : List Nat) : ∀ c : Cols, (∃ n, c.lock n) → (c.const is).lock is.length
  | .leaf _, _ => by simp [Cols.const]
  | .nest fs, ⟨n, h⟩ => by
    rw [lock_nest] at h
    simp only [Cols.const, lock_nest]
    refine ⟨?_, go fs n h.2⟩
    cases fs with
    | nil => exact absurd rfl h.1
    | cons c cs => simp [Cols.const.constL]
where go : ∀ (fs : List Cols) (n : Nat), (∀ c ∈ fs, c.lock n) → ∀ d ∈ Cols.const.constL is fs, d.lock is.length
  | [], _, _ => by simp [Cols.const.constL]
  | c :: cs, n, h => by
    intro d hd
    simp only [Cols.const.constL, List.mem_cons] at hd
    cases hd with
    | inl e => subst e; exact lock_const is c ⟨n, h c (by simp)⟩
    | inr e => exact go cs n (fun x hx => h x (by simp [hx])) d e

/-- reading through a uniform view selects exactly those rows of the parent, for any shape:
    what is visible through the view = `is.filterMap rows[·]?`  -/
theorem read_view (is : List Nat) (n : Nat) (c : Cols) (hc : c.lock n) (hb : is.all (· < n) = true) :
    ((c.apply2 (pickOp is) (c.const is)).out.rows) = is.filterMap (c.rows[·]?) := by
  have hl := rows_len n c hc
  have h := (apply2_ok (pickOp is) n is.length (by simp [pickOp, hb]) c (c.const is) hc
      (lock_const is c ⟨n, hc⟩) (same_const is c)).2
  simp only [pickOp, PolyOp.ofTotal_run, hl, hb, ↓reduceIte, Option.some.injEq, Prod.mk.injEq] at h
  exact h.2.symm

#print axioms read_view
end Soa
