import Soa.Core
import Soa.Lemmas.Retain
import Soa.Ops
import Soa.View
import Soa.Own
import Soa.Model.Exec
