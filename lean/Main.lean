import Soa.Model.Exec
import Soa.Model.Zip
import Soa.Model.Derive
import Soa.Model.Surface
open Soa Soa.Exec

/-- line-protocol driver: reads scenarios (`shape …` line, then one operation per line) from
    stdin, prints the model (`I`) and specification (`S`) observation lines -/
partial def loop (prof : IdxIR.Prof) (h : IO.FS.Stream) (st : Option (Ctx × World × Nat)) (k : Nat) : IO Unit := do
  let line ← h.getLine
  if line.isEmpty then
    match st with
    | some (cx, w, _) => let (a, b) := endLines cx w; IO.println a; IO.println b
    | none => pure ()
    return ()
  let line := line.trimAscii.toString
  if line.isEmpty || line.startsWith "#" then loop prof h st k
  else if line.startsWith "shape " then
    match st with
    | some (cx, w, _) => let (a, b) := endLines cx w; IO.println a; IO.println b
    | none => pure ()
    match parseShapeLine prof line with
    | some cx =>
      IO.println s!"# scenario {k} {line}"
      loop prof h (some (cx, World.init cx, 0)) (k + 1)
    | none =>
      IO.println s!"# scenario {k} bad-shape"
      loop prof h none (k + 1)
  else
    match st with
    | some (cx, w, n) =>
      let (w', a, b) := stepLines cx w n line
      IO.println a; IO.println b
      loop prof h (some (cx, w', n + 1)) k
    | none => IO.println "bad-op"; loop prof h st k

/-- `zip` mode: one `soa_zip!` invocation form per line -/
partial def zipLoop (h : IO.FS.Stream) : IO Unit := do
  let line ← h.getLine
  if line.isEmpty then return ()
  IO.println (Soa.Zip.zipLine line)
  zipLoop h

/-- `derive` mode: one attribute list per line -/
partial def deriveLoop (h : IO.FS.Stream) : IO Unit := do
  let line ← h.getLine
  if line.isEmpty then return ()
  IO.println (Soa.Derive.deriveLine line)
  deriveLoop h

/-- `surface` mode: loan-calculus verdicts and the auto-trait table -/
partial def surfaceLoop (h : IO.FS.Stream) : IO Unit := do
  let line ← h.getLine
  if line.isEmpty then return ()
  IO.println (Soa.Surface.surfaceLine line)
  surfaceLoop h

def main (args : List String) : IO Unit := do
  if args == ["zip"] then
    zipLoop (← IO.getStdin)
    return ()
  if args == ["derive"] then
    deriveLoop (← IO.getStdin)
    return ()
  if args == ["surface"] then
    surfaceLoop (← IO.getStdin)
    return ()
  let prof : IdxIR.Prof := if args == ["release"] then .release else .debug
  loop prof (← IO.getStdin) none 0
