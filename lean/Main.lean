import Soa.Model.Exec
open Soa Soa.Exec

/-- line-protocol driver: reads scenarios (`shape …` line, then one operation per line) from
    stdin, prints the model (`I`) and specification (`S`) observation lines -/
partial def loop (h : IO.FS.Stream) (st : Option (Ctx × World × Nat)) (k : Nat) : IO Unit := do
  let line ← h.getLine
  if line.isEmpty then
    match st with
    | some (cx, w, _) => let (a, b) := endLines cx w; IO.println a; IO.println b
    | none => pure ()
    return ()
  let line := line.trimAscii.toString
  if line.isEmpty || line.startsWith "#" then loop h st k
  else if line.startsWith "shape " then
    match st with
    | some (cx, w, _) => let (a, b) := endLines cx w; IO.println a; IO.println b
    | none => pure ()
    match parseShapeLine line with
    | some cx =>
      IO.println s!"# scenario {k} {line}"
      loop h (some (cx, World.init cx, 0)) (k + 1)
    | none =>
      IO.println s!"# scenario {k} bad-shape"
      loop h none (k + 1)
  else
    match st with
    | some (cx, w, n) =>
      let (w', a, b) := stepLines cx w n line
      IO.println a; IO.println b
      loop h (some (cx, w', n + 1)) k
    | none => IO.println "bad-op"; loop h st k

def main : IO Unit := do loop (← IO.getStdin) none 0
