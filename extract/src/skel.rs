//! Stage-2 translation: every generated function as a *shape-generic template*.
//!
//! The real generators of /repo are run on a schematic struct (leaf, nested, leaf).  The token tree of every
//! generated function body is searched for per-field repetitions (what `#( … )*` of `quote!` produced): runs of
//! items (statements, struct-literal fields, call arguments, `||` operands) that mention field 0, field 1, field 2
//! in turn and agree up to the field.  The result is a template: fixed tokens interleaved with
//! `rep leaf nest` nodes (`§` = the field, `§T` = its type, `§p…` = the generator-private binder of the field,
//! `§first` = the first field, `$k` = parameter number k).
//!
//! The template is then *validated, not trusted*: it is instantiated for several other struct shapes (one leaf,
//! one nested, nested first, five fields, …) and compared token by token with what the real generators emit for
//! those shapes.  A function whose template does not reproduce the generated code for every shape is emitted as
//! `opaque` and breaks the proof obligations that mention it.

use proc_macro2::{Delimiter, Spacing, TokenStream, TokenTree};
use quote::ToTokens;
use std::collections::BTreeMap;
use std::fmt::Write;

#[derive(Clone)]
pub struct Shape { pub nested: Vec<bool> }
impl Shape {
    fn fname(i: usize) -> String { format!("fld_{}", i) }
    fn tname(i: usize) -> String { format!("Ty{}", i) }
    fn decl(&self) -> String {
        let fs: Vec<String> = self.nested.iter().enumerate().map(|(i, n)| format!("{}pub {}: {}", if *n { "#[nested_soa] " } else { "" }, Self::fname(i), Self::tname(i))).collect();
        format!("#[soa_derive(Clone)] pub struct P {{ {} }}", fs.join(", "))
    }
}

/// tokens with multi-character punctuation joined (`::`, `->`, `>=`, `..`, `+=`, `||`)
fn toks(ts: TokenStream, out: &mut Vec<String>) {
    let mut pending = String::new();
    for t in ts {
        match t {
            TokenTree::Punct(p) => {
                pending.push(p.as_char());
                if p.spacing() == Spacing::Alone { out.push(std::mem::take(&mut pending)); }
            }
            other => {
                if !pending.is_empty() { out.push(std::mem::take(&mut pending)); }
                match other {
                    TokenTree::Group(g) => {
                        let (o, c) = match g.delimiter() { Delimiter::Parenthesis => ("(", ")"), Delimiter::Brace => ("{", "}"), Delimiter::Bracket => ("[", "]"), Delimiter::None => ("", "") };
                        if !o.is_empty() { out.push(o.into()); }
                        toks(g.stream(), out);
                        if !c.is_empty() { out.push(c.into()); }
                    }
                    o => out.push(o.to_string()),
                }
            }
        }
    }
    if !pending.is_empty() { out.push(pending); }
}

/// a node of the token tree, punctuation joined
#[derive(Clone, Debug, PartialEq)]
enum Tt { Tok(String), Grp(char, Vec<Tt>) }
fn tree(ts: TokenStream) -> Vec<Tt> {
    let mut out = vec![]; let mut pending = String::new();
    for t in ts {
        match t {
            TokenTree::Punct(p) => { pending.push(p.as_char()); if p.spacing() == Spacing::Alone { out.push(Tt::Tok(std::mem::take(&mut pending))); } }
            other => {
                if !pending.is_empty() { out.push(Tt::Tok(std::mem::take(&mut pending))); }
                match other {
                    TokenTree::Group(g) => {
                        let d = match g.delimiter() { Delimiter::Parenthesis => '(', Delimiter::Brace => '{', Delimiter::Bracket => '[', Delimiter::None => ' ' };
                        if d == ' ' { out.extend(tree(g.stream())); } else { out.push(Tt::Grp(d, tree(g.stream()))); }
                    }
                    o => out.push(Tt::Tok(o.to_string())),
                }
            }
        }
    }
    if !pending.is_empty() { out.push(Tt::Tok(pending)); }
    out
}
fn close(d: char) -> &'static str { match d { '(' => ")", '{' => "}", _ => "]" } }
fn flat_tt(ts: &[Tt], out: &mut Vec<String>) {
    for t in ts { match t { Tt::Tok(s) => out.push(s.clone()), Tt::Grp(d, inner) => { out.push(d.to_string()); flat_tt(inner, out); out.push(close(*d).into()); } } }
}

/// which field does an identifier belong to, and its canonical spelling
fn canon_ident(s: &str, nfields: usize) -> Option<(usize, String)> {
    if let Some(r) = s.strip_prefix("fld_") { if let Ok(i) = r.parse::<usize>() { if i < nfields { return Some((i, "§".into())); } } }
    if let Some(r) = s.strip_prefix("Ty") {
        let digits: String = r.chars().take_while(|c| c.is_ascii_digit()).collect();
        if !digits.is_empty() { if let Ok(i) = digits.parse::<usize>() { if i < nfields { return Some((i, format!("§T{}", &r[digits.len()..]))); } } }
    }
    if let Some(r) = s.strip_prefix("___soa_derive_private") {
        if let Some(p) = r.rfind('_') { if let Ok(i) = r[p + 1..].parse::<usize>() { if i < nfields { return Some((i, format!("§p{}", &r[..p]))); } } }
    }
    None
}
fn fields_of(ts: &[Tt], n: usize, acc: &mut Vec<usize>) {
    for t in ts { match t { Tt::Tok(s) => { if let Some((i, _)) = canon_ident(s, n) { if !acc.contains(&i) { acc.push(i); } } } Tt::Grp(_, inner) => fields_of(inner, n, acc) } }
}
/// canonical flat tokens of an item that mentions exactly field `f`
fn canon(ts: &[Tt], n: usize, f: usize) -> Vec<String> {
    let mut v = vec![]; flat_tt(ts, &mut v);
    v.into_iter().map(|s| match canon_ident(&s, n) { Some((i, c)) if i == f => c, _ => s }).collect()
}

/// template: fixed tokens and per-field repetitions
#[derive(Clone, Debug, PartialEq)]
pub enum Tm { T(Vec<String>), Rep { leaf: Vec<String>, nest: Vec<String>, sep: String, trailing: bool },
              /// `e0.m(e1).m(e2)…`: a left fold over the fields (the zip chains of iter.rs)
              Chain { leaf: Vec<String>, nest: Vec<String>, method: String },
              /// `((f0, f1), f2)…`: the left-nested tuple pattern over the field names
              TuplePat }

fn push_tok(out: &mut Vec<Tm>, s: String) { if let Some(Tm::T(v)) = out.last_mut() { v.push(s); } else { out.push(Tm::T(vec![s])); } }

/// split a group's content into items at the top-level separator `sep`; an item carries no separator
fn split_items(ts: &[Tt], sep: &str) -> (Vec<Vec<Tt>>, bool) {
    let mut items = vec![]; let mut cur = vec![]; let mut trailing = false;
    for t in ts {
        if let Tt::Tok(s) = t { if s == sep { items.push(std::mem::take(&mut cur)); trailing = true; continue; } }
        cur.push(t.clone()); trailing = false;
    }
    if !cur.is_empty() { items.push(cur); }
    (items, trailing)
}


/// `((a, b), c)` → [a, b, c]
fn left_nested(inner: &[Tt]) -> Option<Vec<String>> {
    // inner = X , ident   where X is an ident or a parenthesised left-nested pair
    if inner.len() != 3 { return None; }
    let last = match &inner[2] { Tt::Tok(s) => s.clone(), _ => return None };
    match &inner[1] { Tt::Tok(c) if c == "," => {}, _ => return None }
    let mut v = match &inner[0] { Tt::Tok(s) => vec![s.clone()], Tt::Grp('(', g) => left_nested(g)?, _ => return None };
    v.push(last); Some(v)
}
/// the whole sequence is `HEAD . m ( X1 ) . m ( X2 )` with HEAD on field 0, X1 on field 1, X2 on field 2
fn chain_of(ts: &[Tt]) -> Option<Tm> {
    let n = ts.len();
    if n < 7 { return None; }
    let link = |i: usize| -> Option<(String, &Vec<Tt>)> { match (&ts[i], &ts[i + 1], &ts[i + 2]) { (Tt::Tok(d), Tt::Tok(m), Tt::Grp('(', g)) if d == "." => Some((m.clone(), g)), _ => None } };
    let (m2, x2) = link(n - 3)?; let (m1, x1) = link(n - 6)?;
    if m1 != m2 { return None; }
    let head = &ts[..n - 6];
    let only = |t: &[Tt], f: usize| { let mut a = vec![]; fields_of(t, 3, &mut a); a == vec![f] };
    if !(only(head, 0) && only(x1, 1) && only(x2, 2)) { return None; }
    if canon(head, 3, 0) != canon(x2, 3, 2) { return None; }
    Some(Tm::Chain { leaf: canon(head, 3, 0), nest: canon(x1, 3, 1), method: m1 })
}

/// templatise the content of one group (schematic shape: fields 0 = leaf, 1 = nested, 2 = leaf)
fn templ(ts: &[Tt], out: &mut Vec<Tm>) {
    let n = 3;
    if let Some(c) = chain_of(ts) { out.push(c); return; }
    for sep in [";", ",", "||"] {
        if !ts.iter().any(|t| matches!(t, Tt::Tok(s) if s == sep)) { continue; }
        let (items, trailing) = split_items(ts, sep);
        let labels: Vec<Option<usize>> = items.iter().map(|it| { let mut a = vec![]; fields_of(it, n, &mut a); if a.len() == 1 { Some(a[0]) } else { None } }).collect();
        // find i, k: k items of field 0, k of field 1, k of field 2, leaf templates agree
        let mut found: Option<(usize, usize)> = None;
        'search: for i in 0..items.len() {
            for k in 1..=(items.len() - i) / 3 {
                let ok = (0..k).all(|j| labels[i + j] == Some(0) && labels[i + k + j] == Some(1) && labels[i + 2 * k + j] == Some(2))
                    && (0..k).all(|j| canon(&items[i + j], n, 0) == canon(&items[i + 2 * k + j], n, 2));
                if ok { found = Some((i, k)); break 'search; }
            }
        }
        if let Some((i, k)) = found {
            let last_in_rep = i + 3 * k == items.len();
            for (j, it) in items.iter().enumerate().take(i) { templ(it, out); let _ = j; push_tok(out, sep.into()); }
            let join = |from: usize, f: usize| -> Vec<String> {
                let mut v = vec![];
                for j in 0..k { v.extend(canon(&items[from + j], n, f)); if j + 1 < k { v.push(sep.into()); } }
                v
            };
            // separators: between the k-item blocks always; after the last block iff something follows or the group has a trailing separator
            let rep_trailing = !last_in_rep || trailing;
            out.push(Tm::Rep { leaf: join(i, 0), nest: join(i + k, 1), sep: sep.into(), trailing: rep_trailing });
            for (j, it) in items.iter().enumerate().skip(i + 3 * k) {
                templ(it, out);
                if j + 1 < items.len() || trailing { push_tok(out, sep.into()); }
            }
            return;
        }
    }
    // no repetition at this level: descend into groups
    for t in ts {
        match t {
            Tt::Tok(s) => push_tok(out, match canon_ident(s, n) { Some((0, c)) => c.replacen('§', "§first", 1), _ => s.clone() }),
            Tt::Grp(d, inner) => {
                if *d == '(' { if let Some(v) = left_nested(inner) { if v == (0..n).map(Shape::fname).collect::<Vec<_>>() { out.push(Tm::TuplePat); continue; } } }
                push_tok(out, d.to_string()); templ(inner, out); push_tok(out, close(*d).into());
            }
        }
    }
}

/// instantiate a template for a shape
fn render(tm: &[Tm], sh: &Shape) -> Vec<String> {
    let mut out = vec![];
    let inst = |t: &str, i: usize| -> String {
        if let Some(r) = t.strip_prefix("§first") { return if let Some(x) = r.strip_prefix('T') { format!("{}{}", Shape::tname(0), x) } else if let Some(x) = r.strip_prefix('p') { format!("___soa_derive_private{}_0", x) } else { Shape::fname(0) }; }
        if let Some(r) = t.strip_prefix("§T") { return format!("{}{}", Shape::tname(i), r); }
        if let Some(r) = t.strip_prefix("§p") { return format!("___soa_derive_private{}_{}", r, i); }
        if t == "§" { return Shape::fname(i); }
        t.to_string()
    };
    for t in tm {
        match t {
            Tm::T(v) => out.extend(v.iter().map(|s| inst(s, 0))),
            Tm::Rep { leaf, nest, sep, trailing } => {
                let n = sh.nested.len();
                for i in 0..n {
                    let src = if sh.nested[i] { nest } else { leaf };
                    out.extend(src.iter().map(|s| inst(s, i)));
                    if i + 1 < n || *trailing { out.push(sep.clone()); }
                }
            }
            Tm::Chain { leaf, nest, method } => {
                for i in 0..sh.nested.len() {
                    let src = if sh.nested[i] { nest } else { leaf };
                    if i > 0 { out.push(".".into()); out.push(method.clone()); out.push("(".into()); }
                    out.extend(src.iter().map(|s| inst(s, i)));
                    if i > 0 { out.push(")".into()); }
                }
            }
            Tm::TuplePat => {
                let n = sh.nested.len();
                for _ in 1..n { out.push("(".into()); }
                out.push(Shape::fname(0));
                for i in 1..n { out.push(",".into()); out.push(Shape::fname(i)); out.push(")".into()); }
            }
        }
    }
    out
}

pub struct GenFn { pub name: String, pub owner: String, pub tr: String, pub key: String, pub file: &'static str, pub params: Vec<String>, pub sig: Vec<String>, pub body: TokenStream }

pub fn gen_fns(sh: &Shape) -> Vec<GenFn> {
    let ast: syn::DeriveInput = syn::parse_str(&sh.decl()).expect("schematic declaration parses");
    let input = crate::input::Input::new(ast);
    let mut out = vec![];
    let mut seen: std::collections::HashMap<String, usize> = Default::default();
    for (file, tstream) in [("vec", crate::vec::derive(&input)), ("refs", crate::refs::derive(&input)), ("ptr", crate::ptr::derive(&input)), ("slice", crate::slice::derive(&input)),
                            ("slice_mut", crate::slice::derive_mut(&input)), ("iter", crate::iter::derive(&input)), ("index", crate::index::derive(&input)),
                            ("generic", crate::generic::derive_slice(&input)), ("generic", crate::generic::derive_slice_mut(&input)), ("generic", crate::generic::derive_vec(&input))] {
        let f: syn::File = syn::parse2(tstream).expect("generated code parses");
        for item in &f.items {
            if let syn::Item::Impl(im) = item {
                let owner = crate::ts(&im.self_ty);
                let tr = im.trait_.as_ref().map(|(_, p, _)| format!("<{}>", crate::ts(p))).unwrap_or_default();
                for ii in &im.items {
                    if let syn::ImplItem::Fn(fun) = ii {
                        let mut key = format!("{}{}::{}", owner, tr, fun.sig.ident);
                        let c = seen.entry(key.clone()).or_insert(0); *c += 1;
                        if *c > 1 { key = format!("{}#{}", key, c); }
                        let params: Vec<String> = fun.sig.inputs.iter().filter_map(|a| match a { syn::FnArg::Typed(pt) => match &*pt.pat { syn::Pat::Ident(pi) => Some(pi.ident.to_string()), _ => Some("_".into()) }, _ => None }).collect();
                        let mut sig = vec![]; toks(fun.sig.to_token_stream(), &mut sig);
                        out.push(GenFn { name: fun.sig.ident.to_string(), owner: owner.clone(), tr: tr.clone(), key, file, params, sig, body: fun.block.to_token_stream() });
                    }
                }
            }
        }
    }
    out
}

fn lean_str(s: &str) -> String { format!("\"{}\"", s.replace('\\', "\\\\").replace('"', "\\\"")) }
fn lean_toks(v: &[String]) -> String { format!("[{}]", v.iter().map(|s| lean_str(s)).collect::<Vec<_>>().join(", ")) }

/// the key of a function in a shape whose type names differ only through the field types
fn lean_name(key: &str) -> String {
    let mut s = String::new();
    for ch in key.chars() { if ch.is_ascii_alphanumeric() { s.push(ch); } else if !s.ends_with('_') { s.push('_'); } }
    s.trim_matches('_').to_string()
}

pub fn skeletons(out: &mut String) {
    let schematic = Shape { nested: vec![false, true, false] };
    let others = [vec![false], vec![true], vec![true, false], vec![false, false], vec![false, false, true, true, false], vec![true, true], vec![false, true, false, true]];
    let base = gen_fns(&schematic);
    // a generator that panics on one of the validation shapes (a supported struct!) must not take the translator down:
    // every template is then reported as not validated for that shape
    let hook = std::panic::take_hook();
    std::panic::set_hook(Box::new(|_| {}));
    let other_fns: Vec<(Shape, Option<BTreeMap<String, Vec<String>>>)> = others.iter().map(|n| {
        let sh = Shape { nested: n.clone() };
        let sh2 = sh.clone();
        let m = std::panic::catch_unwind(move || gen_fns(&sh2).into_iter().map(|g| { let mut v = vec![]; toks(g.body, &mut v); (g.key, v) }).collect::<BTreeMap<_, _>>()).ok();
        (sh, m)
    }).collect();
    std::panic::set_hook(hook);
    writeln!(out, "import Soa.Model.SkelSyntax\n-- generated by /verif/extract (skel.rs) from the generator sources in /repo/soa-derive-internal/src; do not edit").unwrap();
    writeln!(out, "/-! shape-generic templates of every generated function: recovered from the code generated for the schematic struct\n    (leaf, nested, leaf) and validated by instantiating them for {} other struct shapes and comparing, token by token,\n    with what the real generators emit for those shapes -/", others.len()).unwrap();
    writeln!(out, "namespace Soa.Extracted\nopen Soa.Sk\n").unwrap();
    let mut names = vec![];
    let mut n_opaque = 0;
    for g in &base {
        let tt = tree(g.body.clone());
        let mut tm = vec![];
        templ(&tt, &mut tm);
        // validate on the schematic shape and on every other shape
        let mut why = String::new();
        let mut real = vec![]; toks(g.body.clone(), &mut real);
        if render(&tm, &schematic) != real { why = "template does not reproduce the schematic instance".into(); }
        for (sh, fns) in &other_fns {
            if !why.is_empty() { break; }
            match fns {
                None => why = format!("the generator panics on the struct shape {:?}", sh.nested),
                Some(fns) => match fns.get(&g.key) {
                    Some(r) => if &render(&tm, sh) != r { why = format!("not uniform: shape {:?} is generated differently", sh.nested); },
                    None => why = format!("function missing for shape {:?}", sh.nested),
                }
            }
        }
        // parameters by position
        let tm: Vec<Tm> = tm.into_iter().map(|t| {
            // an identifier after `.` or `::` is a member / path segment, never the parameter
            let sub = |v: Vec<String>| { let mut prev = String::new(); v.into_iter().map(|s| {
                let r = match g.params.iter().position(|p| *p == s) { Some(k) if prev != "." && prev != "::" => format!("${}", k), _ => s.clone() };
                prev = s; r }).collect::<Vec<_>>() };
            match t { Tm::T(v) => Tm::T(sub(v)), Tm::Rep { leaf, nest, sep, trailing } => Tm::Rep { leaf: sub(leaf), nest: sub(nest), sep, trailing },
                      Tm::Chain { leaf, nest, method } => Tm::Chain { leaf: sub(leaf), nest: sub(nest), method }, Tm::TuplePat => Tm::TuplePat }
        }).collect();
        let name = format!("sk_{}", lean_name(&g.key));
        let body = if why.is_empty() {
            tm.iter().map(|t| match t {
                Tm::T(v) => format!(".t {}", lean_toks(v)),
                Tm::Rep { leaf, nest, sep, trailing } => format!(".rep {} {} {} {}", lean_toks(leaf), lean_toks(nest), lean_str(sep), trailing),
                Tm::Chain { leaf, nest, method } => format!(".chain {} {} {}", lean_toks(leaf), lean_toks(nest), lean_str(method)),
                Tm::TuplePat => ".tuplePat".to_string(),
            }).collect::<Vec<_>>().join(",\n    ")
        } else { n_opaque += 1; format!(".opaque {}", lean_str(&why)) };
        let recv = g.sig.iter().position(|s| s == "self").map(|p| {
            let before: Vec<&str> = g.sig[..p].iter().rev().take(3).map(|s| s.as_str()).collect();
            if before.first() == Some(&"mut") && before.get(1) == Some(&"&") { ".refMut" } else if before.first() == Some(&"mut") { ".byValueMut" }
            else if before.first() == Some(&"&") || (before.len() >= 2 && before[1] == "&") { ".ref" } else { ".byValue" }
        }).unwrap_or(".none");
        writeln!(out, "def {} : Fn where\n  key := {}\n  scope := {}\n  owner := {}\n  trait_ := {}\n  name := {}\n  file := {}\n  recv := {}\n  nparams := {}\n  isUnsafe := {}\n  body := [\n    {}]\n",
            name, lean_str(&g.key), lean_str(match g.file { "index" => "C04", "generic" => "C09", f => crate::scope_of(f, &g.key, &g.name) }), lean_str(&g.owner), lean_str(&g.tr), lean_str(&g.name), lean_str(g.file), recv, g.params.len(), g.sig.first().map(|s| s == "unsafe").unwrap_or(false), body).unwrap();
        names.push(name);
    }
    writeln!(out, "def skAll : List Fn := [{}]\n", names.join(", ")).unwrap();
    writeln!(out, "def skNamed : List (String × Fn) := [{}]\n", names.iter().map(|n| format!("({}, {})", lean_str(n), n)).collect::<Vec<_>>().join(", ")).unwrap();
    writeln!(out, "/-- functions whose template could not be validated on every shape -/\ndef skOpaqueCount : Nat := {}\n\nend Soa.Extracted", n_opaque).unwrap();
}

// ---------------------------------------------------------------------------------------------------------------
// Bodies without per-field content (loops, delegations): a structural translation of the syn AST into the small
// statement language of `Soa/Model/Loop.lean`.  Anything outside the subset becomes `.other "<tokens>"`.

fn path_str(p: &syn::Path) -> String { p.to_token_stream().to_string().replace(' ', "") }

fn lex(e: &syn::Expr, params: &[String]) -> String {
    use syn::Expr;
    let list = |v: Vec<String>| format!("[{}]", v.join(", "));
    match e {
        Expr::Paren(p) => lex(&p.expr, params),
        Expr::Group(g) => lex(&g.expr, params),
        Expr::Reference(r) => lex(&r.expr, params),      // `&e` / `&mut e`: borrowing is not modelled
        Expr::Path(p) if p.qself.is_none() && p.path.segments.len() == 1 && p.path.leading_colon.is_none() => {
            let id = p.path.segments[0].ident.to_string();
            if id == "self" { ".self_".into() }
            else if let Some(k) = params.iter().position(|x| *x == id) { format!("(.param {})", k) }
            else { format!("(.var {})", lean_str(&id)) }
        }
        Expr::Lit(l) => match &l.lit { syn::Lit::Int(i) => format!("(.num {})", i.base10_digits()), _ => format!("(.other {})", lean_str(&crate::ts(e))) },
        Expr::MethodCall(m) if m.turbofish.is_none() =>
            format!("(.mcall {} {} {})", lex(&m.receiver, params), lean_str(&m.method.to_string()), list(m.args.iter().map(|a| lex(a, params)).collect())),
        Expr::Call(c) => {
            let args = list(c.args.iter().map(|a| lex(a, params)).collect());
            match &*c.func {
                Expr::Path(p) if p.qself.is_none() && p.path.segments.len() == 1 && p.path.leading_colon.is_none() => {
                    let id = p.path.segments[0].ident.to_string();
                    if let Some(k) = params.iter().position(|x| *x == id) { format!("(.app {} {})", k, args) }
                    else { format!("(.fcall {} {})", lean_str(&id), args) }
                }
                Expr::Path(p) => format!("(.fcall {} {})", lean_str(&crate::ts(p)), args),
                _ => format!("(.other {})", lean_str(&crate::ts(e))),
            }
        }
        Expr::Binary(b) => format!("(.bin {} {} {})", lean_str(&b.op.to_token_stream().to_string()), lex(&b.left, params), lex(&b.right, params)),
        Expr::Unary(u) => match u.op { syn::UnOp::Not(_) => format!("(.not {})", lex(&u.expr, params)), syn::UnOp::Deref(_) => lex(&u.expr, params), _ => format!("(.other {})", lean_str(&crate::ts(e))) },
        Expr::Range(r) if matches!(r.limits, syn::RangeLimits::HalfOpen(_)) && r.start.is_some() && r.end.is_some() =>
            format!("(.range {} {})", lex(r.start.as_ref().unwrap(), params), lex(r.end.as_ref().unwrap(), params)),
        Expr::Field(f) => match &f.member { syn::Member::Unnamed(i) => format!("(.proj {} {})", lex(&f.base, params), i.index), syn::Member::Named(n) => format!("(.fld {} {})", lex(&f.base, params), lean_str(&n.to_string())) },
        Expr::Closure(c) => {
            let ps: Vec<String> = c.inputs.iter().map(|p| match p { syn::Pat::Ident(pi) => lean_str(&pi.ident.to_string()), _ => lean_str("_") }).collect();
            format!("(.lam {} {})", list(ps), lex(&c.body, params))
        }
        _ => format!("(.other {})", lean_str(&crate::ts(e))),
    }
}

fn lblock(b: &syn::Block, params: &[String]) -> (Vec<String>, Option<String>) {
    let mut out = vec![]; let mut tail = None;
    let n = b.stmts.len();
    for (i, s) in b.stmts.iter().enumerate() {
        match s {
            syn::Stmt::Item(_) => {}                      // `use soa_derive::Permutation;`
            syn::Stmt::Local(l) => {
                let name = match &l.pat { syn::Pat::Ident(pi) => Some(pi.ident.to_string()), syn::Pat::Type(pt) => match &*pt.pat { syn::Pat::Ident(pi) => Some(pi.ident.to_string()), _ => None }, syn::Pat::Wild(_) => Some("_".into()), _ => None };
                match (name, &l.init) {
                    (Some(x), Some(init)) if init.diverge.is_none() => out.push(format!("(.let_ {} {})", lean_str(&x), lex(&init.expr, params))),
                    _ => out.push(format!("(.other {})", lean_str(&crate::ts(s)))),
                }
            }
            syn::Stmt::Expr(e, semi) => {
                if i + 1 == n && semi.is_none() && !is_stmt_like(e) { tail = Some(lex(e, params)); } else { out.push(lstmt(e, params)); }
            }
            syn::Stmt::Macro(m) => out.push(format!("(.other {})", lean_str(&crate::ts(m)))),
        }
    }
    (out, tail)
}
fn is_stmt_like(e: &syn::Expr) -> bool { matches!(e, syn::Expr::If(_) | syn::Expr::While(_) | syn::Expr::ForLoop(_) | syn::Expr::Block(_)) }
fn lstmts(b: &syn::Block, params: &[String]) -> String {
    let (mut ss, tail) = lblock(b, params);
    if let Some(t) = tail { ss.push(format!("(.expr {})", t)); }
    format!("[{}]", ss.join(", "))
}
fn lstmt(e: &syn::Expr, params: &[String]) -> String {
    use syn::Expr;
    match e {
        Expr::If(i) => {
            let els = match &i.else_branch { None => "[]".to_string(), Some((_, eb)) => match &**eb { Expr::Block(b) => lstmts(&b.block, params), other => format!("[{}]", lstmt(other, params)) } };
            format!("(.ite {} {} {})", lex(&i.cond, params), lstmts(&i.then_branch, params), els)
        }
        Expr::While(w) => match &*w.cond {
            Expr::Let(l) => {
                // `while let Some(x) = e`
                if let syn::Pat::TupleStruct(ts_) = &*l.pat { if path_str(&ts_.path) == "Some" && ts_.elems.len() == 1 { if let syn::Pat::Ident(pi) = &ts_.elems[0] {
                    return format!("(.whileLetSome {} {} {})", lean_str(&pi.ident.to_string()), lex(&l.expr, params), lstmts(&w.body, params)); } } }
                format!("(.other {})", lean_str(&crate::ts(e)))
            }
            c => format!("(.while_ {} {})", lex(c, params), lstmts(&w.body, params)),
        },
        Expr::ForLoop(f) => {
            let x = match &*f.pat { syn::Pat::Ident(pi) => pi.ident.to_string(), syn::Pat::Wild(_) => "_".into(), _ => return format!("(.other {})", lean_str(&crate::ts(e))) };
            format!("(.forIn {} {} {})", lean_str(&x), lex(&f.expr, params), lstmts(&f.body, params))
        }
        Expr::Block(b) if b.label.is_none() => format!("(.block {})", lstmts(&b.block, params)),
        Expr::Binary(b) if matches!(b.op, syn::BinOp::AddAssign(_) | syn::BinOp::SubAssign(_)) => {
            if let Expr::Path(p) = &*b.left { if p.path.segments.len() == 1 { return format!("(.opAssign {} {} {})", lean_str(&b.op.to_token_stream().to_string()), lean_str(&p.path.segments[0].ident.to_string()), lex(&b.right, params)); } }
            format!("(.other {})", lean_str(&crate::ts(e)))
        }
        other => format!("(.expr {})", lex(other, params)),
    }
}

pub fn loops(out: &mut String) {
    let schematic = Shape { nested: vec![false, true, false] };
    let ast: syn::DeriveInput = syn::parse_str(&schematic.decl()).expect("schematic declaration parses");
    let input = crate::input::Input::new(ast);
    writeln!(out, "import Soa.Model.LoopSyntax\n-- generated by /verif/extract (skel.rs) from the generator sources in /repo/soa-derive-internal/src; do not edit").unwrap();
    writeln!(out, "/-! the generated functions without per-field content (loops over other generated methods, delegations), as\n    statement trees; the same for every struct shape (their templates in `Skel.lean` contain no repetition) -/").unwrap();
    writeln!(out, "namespace Soa.Extracted\nopen Soa.Lp\n").unwrap();
    let mut names = vec![];
    let mut seen: std::collections::HashMap<String, usize> = Default::default();
    for (file, tstream) in [("vec", crate::vec::derive(&input)), ("refs", crate::refs::derive(&input)), ("slice", crate::slice::derive(&input)),
                            ("slice_mut", crate::slice::derive_mut(&input)), ("iter", crate::iter::derive(&input))] {
        let f: syn::File = syn::parse2(tstream).expect("generated code parses");
        for item in &f.items { if let syn::Item::Impl(im) = item {
            let owner = crate::ts(&im.self_ty);
            let tr = im.trait_.as_ref().map(|(_, p, _)| format!("<{}>", crate::ts(p))).unwrap_or_default();
            for ii in &im.items { if let syn::ImplItem::Fn(fun) = ii {
                let mut key = format!("{}{}::{}", owner, tr, fun.sig.ident);
                let c = seen.entry(key.clone()).or_insert(0); *c += 1;
                if *c > 1 { key = format!("{}#{}", key, c); }
                // only bodies without per-field content
                let mut tm = vec![]; templ(&tree(fun.block.to_token_stream()), &mut tm);
                if tm.len() != 1 || !matches!(tm[0], Tm::T(_)) { continue; }
                let params: Vec<String> = fun.sig.inputs.iter().filter_map(|a| match a { syn::FnArg::Typed(pt) => match &*pt.pat { syn::Pat::Ident(pi) => Some(pi.ident.to_string()), _ => Some("_".into()) }, _ => None }).collect();
                let (ss, tail) = lblock(&fun.block, &params);
                let name = format!("lp_{}", lean_name(&key));
                writeln!(out, "def {} : Body where\n  key := {}\n  scope := {}\n  name := {}\n  stmts := [\n    {}]\n  tail := {}\n", name, lean_str(&key),
                    lean_str(crate::scope_of(file, &key, &fun.sig.ident.to_string())), lean_str(&fun.sig.ident.to_string()), ss.join(",\n    "),
                    match tail { Some(t) => format!("some {}", t), None => "none".into() }).unwrap();
                names.push(name);
            } }
        } }
    }
    writeln!(out, "def lpAll : List Body := [{}]\n\nend Soa.Extracted", names.join(", ")).unwrap();
}
