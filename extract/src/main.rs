#![allow(dead_code, clippy::all)]
#[path = "/repo/soa-derive-internal/src/index.rs"] mod index;
#[path = "/repo/soa-derive-internal/src/input.rs"] mod input;
#[path = "/repo/soa-derive-internal/src/iter.rs"] mod iter;
#[path = "/repo/soa-derive-internal/src/ptr.rs"] mod ptr;
#[path = "/repo/soa-derive-internal/src/refs.rs"] mod refs;
#[path = "/repo/soa-derive-internal/src/slice.rs"] mod slice;
#[path = "/repo/soa-derive-internal/src/vec.rs"] mod vec;
#[path = "/repo/soa-derive-internal/src/generic.rs"] mod generic;
#[path = "/repo/soa-derive-internal/src/names.rs"] pub(crate) mod names;
mod skel;

use quote::ToTokens;
use syn::{Expr, ImplItem, Item, Type};

fn ts(t: &impl ToTokens) -> String { t.to_token_stream().to_string().replace(' ', "") }

// ---------- arithmetic ----------
fn arith(e: &Expr) -> String {
    match e {
        Expr::Paren(p) => arith(&p.expr),
        Expr::Lit(l) => format!("(.lit {})", ts(l)),
        Expr::Binary(b) if matches!(b.op, syn::BinOp::Add(_)) => format!("(.add {} {})", arith(&b.left), arith(&b.right)),
        Expr::Unary(u) if matches!(u.op, syn::UnOp::Deref(_)) => arith(&u.expr),
        _ => {
            let s = ts(e);
            match s.as_str() {
                "self" => ".self".into(),
                "self.start" | "self.start()" => ".start".into(),
                "self.end" | "self.end()" => ".end_".into(),
                "usize::MAX" => ".max".into(),
                "soa.len()" | "slice.len()" => ".lenChecked".into(),
                _ if s.starts_with("slice.") && s.ends_with(".len()") => ".lenFirst".into(),
                _ => format!("(.opaque \"{}\")", s),
            }
        }
    }
}
fn cond(e: &Expr) -> String {
    match e {
        Expr::Paren(p) => cond(&p.expr),
        Expr::Binary(b) => {
            let (l, r) = (&b.left, &b.right);
            match b.op {
                syn::BinOp::And(_) => format!("(.and {} {})", cond(l), cond(r)),
                syn::BinOp::Lt(_) => format!("(.lt {} {})", arith(l), arith(r)),
                syn::BinOp::Le(_) => format!("(.le {} {})", arith(l), arith(r)),
                syn::BinOp::Eq(_) => format!("(.eq {} {})", arith(l), arith(r)),
                _ => format!("(.opaque \"{}\")", ts(e)),
            }
        }
        _ => format!("(.opaque \"{}\")", ts(e)),
    }
}
fn idx(e: &Expr) -> String {
    match e {
        Expr::Range(r) => {
            let a = r.start.as_ref().map(|x| arith(x)).unwrap_or(".none".into());
            let b = r.end.as_ref().map(|x| arith(x)).unwrap_or(".none".into());
            match r.limits { syn::RangeLimits::HalfOpen(_) => format!("(.range {} {})", a, b), syn::RangeLimits::Closed(_) => format!("(.rangeIncl {} {})", a, b) }
        }
        _ => { let s = ts(e); if s == "self" || s == "self.clone()" { ".self".into() } else { format!("(.opaque \"{}\")", s) } }
    }
}
fn cont(e: &Expr) -> Option<&'static str> {
    match ts(e).as_str() { "soa" | "slice" => Some(".same"), "soa.as_slice()" => Some(".asSlice"), "soa.as_mut_slice()" => Some(".asMutSlice"), _ => None }
}
fn body(e: &Expr) -> String {
    match e {
        Expr::Block(b) => block(&b.block),
        Expr::Unsafe(u) => block(&u.block),
        Expr::Paren(p) => body(&p.expr),
        Expr::If(i) => {
            let els = i.else_branch.as_ref().map(|(_, e)| body(e)).unwrap_or(".unit".into());
            format!("(.ite {} {} {})", cond(&i.cond), block(&i.then_branch), els)
        }
        Expr::Path(p) if ts(p) == "None" => ".none".into(),
        Expr::Call(c) => {
            let f = ts(&c.func);
            let args: Vec<&Expr> = c.args.iter().collect();
            if f == "Some" && args.len() == 1 { return format!("(.some {})", body(args[0])); }
            for (pre, _) in [("::soa_derive::SoAIndex::", 0), ("::soa_derive::SoAIndexMut::", 1)] {
                if let Some(m) = f.strip_prefix(pre) {
                    if args.len() == 2 { if let Some(k) = cont(args[1]) { return format!("(.call .{} {} {})", camel(m), idx(args[0]), k); } }
                }
            }
            format!("(.opaque \"{}\")", ts(e))
        }
        Expr::Struct(s) => {
            // per-field builder: classify every field initialiser, require uniformity
            let mut leaf: Option<String> = None; let mut nested: Option<String> = None; let mut bad = false;
            for f in &s.fields {
                let k = field_acc(&f.expr);
                if let Some(m) = k.strip_prefix(".nested ") { if nested.get_or_insert(m.to_string()) != m { bad = true } }
                else if k.starts_with("(.opaque") { bad = true }
                else if leaf.get_or_insert(k.clone()) != &k { bad = true }
            }
            match (bad, leaf, nested) {
                (false, Some(l), Some(n)) => format!("(.build {} {})", l, n),
                _ => format!("(.opaque \"{}\")", ts(e)),
            }
        }
        _ => if let Some(k) = cont(e) { format!("(.cont {})", k) } else { format!("(.opaque \"{}\")", ts(e)) },
    }
}
fn field_acc(e: &Expr) -> String {
    let s = ts(e);
    // nested: ::soa_derive::SoAIndex::m(self.clone(), slice.f)
    for pre in ["::soa_derive::SoAIndex::", "::soa_derive::SoAIndexMut::"] {
        if let Some(rest) = s.strip_prefix(pre) {
            if let Some(p) = rest.find('(') { let m = &rest[..p]; if rest[p..].starts_with("(self.clone(),slice.") { return format!(".nested .{}", camel(m)); } }
        }
    }
    if s.starts_with("slice.") && s.ends_with(".get(self.clone())?") { return ".leafGet".into(); }
    if s.starts_with("slice.") && s.ends_with(".get_mut(self.clone())?") { return ".leafGetMut".into(); }
    if s.starts_with("slice.") && s.ends_with(".get_unchecked(self.clone())") { return ".leafUnchecked".into(); }
    if s.starts_with("slice.") && s.ends_with(".get_unchecked_mut(self.clone())") { return ".leafUncheckedMut".into(); }
    if s.starts_with("&slice.") && s.ends_with("[self.clone()]") { return ".leafIndex".into(); }
    if s.starts_with("&mutslice.") && s.ends_with("[self.clone()]") { return ".leafIndexMut".into(); }
    format!("(.opaque \"{}\")", s)
}
fn camel(m: &str) -> String {
    let mut out = String::new(); let mut up = false;
    for ch in m.chars() { if ch == '_' { up = true } else if up { out.push(ch.to_ascii_uppercase()); up = false } else { out.push(ch) } }
    out
}
fn is_panic_block(b: &syn::Block) -> bool {
    b.stmts.len() == 1 && match &b.stmts[0] {
        syn::Stmt::Macro(m) => m.mac.path.is_ident("panic"),
        syn::Stmt::Expr(Expr::Macro(m), _) => m.mac.path.is_ident("panic"),
        _ => false,
    }
}
fn block(b: &syn::Block) -> String {
    if b.stmts.len() == 1 { if let syn::Stmt::Expr(e, None) = &b.stmts[0] { return body(e); } }
    // `if c { panic!(..) }` followed by the result expression
    if b.stmts.len() == 2 {
        if let (syn::Stmt::Expr(Expr::If(i), _), syn::Stmt::Expr(e, None)) = (&b.stmts[0], &b.stmts[1]) {
            if i.else_branch.is_none() && is_panic_block(&i.then_branch) {
                return format!("(.ite {} .panic {})", cond(&i.cond), body(e));
            }
        }
    }
    format!("(.opaque \"{}\")", ts(b))
}
fn container_kind(t: &Type, vec: &str) -> String {
    let s = ts(t);
    if s == format!("&'a{}", vec) { "vecRef".into() } else if s == format!("&'amut{}", vec) { "vecMut".into() }
    else if s.contains("SliceMut<") { "sliceMut".into() } else if s.contains("Slice<") { "slice".into() } else { format!("unknown_{}", s) }
}
fn idx_form(t: &Type) -> String {
    let s = ts(t);
    match s.as_str() { "usize" => "pos", "::std::ops::Range<usize>" => "range", "::std::ops::RangeTo<usize>" => "rangeTo", "::std::ops::RangeFrom<usize>" => "rangeFrom",
        "::std::ops::RangeFull" => "rangeFull", "::std::ops::RangeInclusive<usize>" => "rangeIncl", "::std::ops::RangeToInclusive<usize>" => "rangeToIncl", _ => "unknownForm" }.into()
}

fn index_layer(out: &mut String) {
    use std::fmt::Write;
    let src = "pub struct P { pub a: A, #[nested_soa] pub n: N, pub c: C }";
    let ast: syn::DeriveInput = syn::parse_str(src).expect("parse");
    let input = input::Input::new(ast);
    let file: syn::File = syn::parse2(index::derive(&input)).expect("index parses");
    writeln!(out, "-- generated by /verif/extract from /repo/soa-derive-internal/src/index.rs; do not edit").unwrap();
    writeln!(out, "import Soa.Model.Index\nnamespace Soa.Extracted\nopen Soa.IdxIR\n").unwrap();
    let mut keys = Vec::new();
    for item in &file.items {
        if let Item::Impl(im) = item {
            let (_, path, _) = im.trait_.as_ref().expect("trait impl");
            let seg = path.segments.last().unwrap();
            let targ = match &seg.arguments { syn::PathArguments::AngleBracketed(a) => match a.args.first().unwrap() { syn::GenericArgument::Type(t) => t.clone(), _ => panic!() }, _ => panic!() };
            let ck = container_kind(&targ, "PVec");
            let form = idx_form(&im.self_ty);
            for ii in &im.items {
                if let ImplItem::Fn(f) = ii {
                    let name = format!("{}_{}_{}", ck, form, camel(&f.sig.ident.to_string()));
                    writeln!(out, "def {} : B := {}", name, block(&f.block)).unwrap();
                    keys.push((ck.clone(), form.clone(), camel(&f.sig.ident.to_string()), name));
                }
            }
        }
    }
    writeln!(out, "\ndef table : Kind → Form → M → Option B").unwrap();
    for (ck, form, m, name) in &keys { writeln!(out, "  | .{}, .{}, .{} => some {}", ck, form, m, name).unwrap(); }
    writeln!(out, "  | _, _, _ => none\n").unwrap();
    for (ck, form, m, name) in &keys { writeln!(out, "theorem table_{} : table .{} .{} .{} = some {} := rfl", name, ck, form, m, name).unwrap(); }
    writeln!(out, "\n/-- number of extracted functions and of terms the translator could not express -/").unwrap();
    let opaque = out.matches(".opaque").count();
    writeln!(out, "def nFunctions : Nat := {}\ndef nOpaque : Nat := {}\n\nend Soa.Extracted", keys.len(), opaque).unwrap();
}

// ---------- generic.rs + src/lib.rs: RangeBounds conversion, forwarding, associated types, provided methods ----------
fn lean_str(s: &str) -> String { format!("\"{}\"", s.replace('\\', "\\\\").replace('"', "\\\"")) }

fn bexpr(e: &Expr) -> String {
    let s = ts(e);
    if s == "*i" { return ".val".into(); }
    if s == "0" { return ".zero".into(); }
    if s == "n" { return ".len".into(); }
    if s.starts_with("i.checked_add(1).expect(") { return ".checkedSucc".into(); }
    if s == "*i+1" { return ".plainSucc".into(); }
    if s == "(*i+1).min(n)" { return ".succMinLen".into(); }
    format!("(.opaque {})", lean_str(&s))
}

/// `match index.X_bound() { Included(i) => a, Excluded(i) => b, Unbounded => c }` -> (a, b, c)
fn bound_match(e: &Expr) -> Option<(String, String, String)> {
    if let Expr::Match(m) = e {
        let (mut inc, mut exc, mut unb) = (None, None, None);
        for arm in &m.arms {
            let pat = ts(&arm.pat);
            let val = bexpr(&arm.body);
            if pat.contains("Included") { inc = Some(val.clone()); }
            if pat.contains("Excluded") { exc = Some(val.clone()); }
            if pat.contains("Unbounded") { unb = Some(val.clone()); }
        }
        return Some((inc?, exc?, unb?));
    }
    None
}

fn conv_of(f: &syn::ImplItemFn) -> Option<(String, String, String, String, String, String, String)> {
    // let start = match ..; let n = self.len(); let end = match ..; self.index(start..end)
    let st = &f.block.stmts;
    if st.len() != 4 { return None; }
    let init = |s: &syn::Stmt, name: &str| -> Option<Expr> {
        if let syn::Stmt::Local(l) = s { if ts(&l.pat) == name { return l.init.as_ref().map(|i| (*i.expr).clone()); } }
        None
    };
    let start = bound_match(&init(&st[0], "start")?)?;
    if ts(&init(&st[1], "n")?) != "self.len()" { return None; }
    let end = bound_match(&init(&st[2], "end")?)?;
    let call = match &st[3] { syn::Stmt::Expr(e, None) => ts(e), _ => return None };
    let m = match call.as_str() { "self.index(start..end)" => ".index", "self.index_mut(start..end)" => ".indexMut", _ => return None };
    Some((start.0, start.1, start.2, end.0, end.1, end.2, m.to_string()))
}

/// how a generated trait method is implemented
fn fwd_kind(name: &str, args: &[String], body: &str) -> String {
    let call_args: Vec<&str> = args.iter().filter(|a| !a.contains("self")).map(|a| a.as_str()).collect();
    let a = call_args.join(",");
    for cand in [format!("{{self.{}({})}}", name, a), format!("{{self.{}({});}}", name, a), format!("{{Self::{}({})}}", name, a)] {
        if body == cand { return ".sameName".into(); }
    }
    match (name, body) {
        ("as_slice", "{self.reborrow::<'c>()}") => ".reborrow".into(),
        ("as_mut_slice", "{self.reborrow()}") => ".reborrow".into(),
        ("iter", "{self.as_ref().into_iter()}") => ".asRefIntoIter".into(),
        ("apply_index", "{self.__private_apply_permutation(&mut::soa_derive::Permutation::oneline(indices).inverse());}") => ".applyInversePermutation".into(),
        ("apply_index", "{use::soa_derive::SoASliceMut;self.as_mut_slice().apply_index(indices);}") => ".viaMutSlice".into(),
        // validated form: length and permutation checked before the inverse permutation is applied to every field
        ("apply_index", b) if b.starts_with("{assert_eq!(indices.len(),self.len(),") && b.contains("letpermutation=::soa_derive::Permutation::oneline(indices);assert!(permutation.valid(),")
            && b.ends_with("self.__private_apply_permutation(&mutpermutation.inverse());}") => ".applyInversePermutation".into(),
        _ => ".unknown".into(),
    }
}
fn provided_kind(name: &str, body: &str) -> String {
    match (name, body) {
        ("first", "{self.get(0)}") => ".getZero".into(),
        ("first_mut", "{self.get_mut(0)}") => ".getMutZero".into(),
        ("last", "{self.get(self.len().saturating_sub(1))}") => ".getLenSatSub1".into(),
        ("last_mut", "{self.get_mut(self.len().saturating_sub(1))}") => ".getMutLenSatSub1".into(),
        ("sort_by", "{letmutpermutation:Vec<usize>=(0..self.len()).collect();permutation.sort_by(|j,k|f(self.index(*j),self.index(*k)));self.apply_index(&permutation);}") => ".argsortByThenApply".into(),
        ("sort_by_key", "{letmutpermutation:Vec<usize>=(0..self.len()).collect();permutation.sort_by_key(|j|f(self.index(*j)));self.apply_index(&permutation);}") => ".argsortByKeyThenApply".into(),
        _ => ".unknown".into(),
    }
}
fn gen_type(def: &str) -> String {
    for (suffix, tag) in [("SliceMut<'t>", ".sliceMut"), ("Slice<'t>", ".slice"), ("RefMut<'t>", ".refMut"), ("Ref<'t>", ".ref"), ("IterMut<'t>", ".iterMut"), ("Iter<'t>", ".iter"), ("PtrMut", ".ptrMut"), ("Ptr", ".ptr")] {
        if def == format!("P{}", suffix) { return tag.into(); }
    }
    ".other".into()
}

fn generic_layer(out: &mut String) {
    use std::fmt::Write;
    let src = "pub struct P { pub a: A, #[nested_soa] pub n: N, pub c: C }";
    let ast: syn::DeriveInput = syn::parse_str(src).expect("parse");
    let input = input::Input::new(ast);
    writeln!(out, "-- generated by /verif/extract from /repo/soa-derive-internal/src/generic.rs and /repo/src/lib.rs; do not edit").unwrap();
    writeln!(out, "import Soa.Model.Bounds\nnamespace Soa.Extracted\nopen Soa.IdxIR Soa.Bounds\n").unwrap();
    let mut convs = vec![]; let mut fwd = vec![]; let mut assoc = vec![]; let mut fwdk = vec![]; let mut assock = vec![];
    for (tstream, kind_shared, kind_mut) in [(generic::derive_slice(&input), "slice", "sliceMut"), (generic::derive_slice_mut(&input), "slice", "sliceMut"), (generic::derive_vec(&input), "vecRef", "vecMut")] {
        let file: syn::File = syn::parse2(tstream).expect("generic parses");
        for item in &file.items {
            if let Item::Impl(im) = item {
                let (_, path, _) = im.trait_.as_ref().expect("trait impl");
                let tr = path.segments.last().unwrap().ident.to_string();
                for ii in &im.items {
                    match ii {
                        ImplItem::Fn(f) => {
                            let name = f.sig.ident.to_string();
                            if name == "slice" || name == "slice_mut" {
                                let kind = if name == "slice" { kind_shared } else { kind_mut };
                                match conv_of(f) {
                                    Some(c) => convs.push(format!("{{ name := {}, kind := .{}, startInc := {}, startExc := {}, startUnb := {}, endInc := {}, endExc := {}, endUnb := {}, call := {} }}",
                                        lean_str(&format!("{}::{}", tr, name)), kind, c.0, c.1, c.2, c.3, c.4, c.5, c.6)),
                                    None => convs.push(format!("{{ name := {}, kind := .{}, startInc := .opaque {}, startExc := .val, startUnb := .val, endInc := .val, endExc := .val, endUnb := .val, call := .index }}",
                                        lean_str(&format!("{}::{}", tr, name)), kind, lean_str(&ts(&f.block)))),
                                }
                            } else {
                                let args: Vec<String> = f.sig.inputs.iter().map(|a| match a { syn::FnArg::Receiver(r) => ts(r), syn::FnArg::Typed(t) => ts(&t.pat) }).collect();
                                fwd.push(format!("({}, {}, {})", lean_str(&tr), lean_str(&format!("{}({})", name, args.join(","))), lean_str(&ts(&f.block))));
                                fwdk.push(fwd_kind(&name, &args, &ts(&f.block)));
                            }
                        }
                        ImplItem::Type(t) => { assoc.push(format!("({}, {}, {})", lean_str(&tr), lean_str(&t.ident.to_string()), lean_str(&ts(&t.ty))));
                            assock.push(format!("(.{}, {})", { let n = t.ident.to_string(); let mut c = n.chars(); c.next().unwrap().to_lowercase().collect::<String>() + c.as_str() }, gen_type(&ts(&t.ty)))); }
                        _ => {}
                    }
                }
            }
        }
    }
    writeln!(out, "def convs : List Conv := [\n  {}]\n", convs.join(",\n  ")).unwrap();
    writeln!(out, "/-- (trait, method(args), body) of every generated trait method other than slice/slice_mut -/\ndef forwards : List (String × String × String) := [\n  {}]\n", fwd.join(",\n  ")).unwrap();
    writeln!(out, "/-- how each of those methods is implemented, as classified by the translator -/\ndef forwardKinds : List FwdKind := [{}]\n", fwdk.join(", ")).unwrap();
    writeln!(out, "/-- (associated type, generated type it names), as classified by the translator -/\ndef assocKinds : List (AssocName × GenType) := [{}]\n", assock.join(", ")).unwrap();
    writeln!(out, "/-- (trait, associated type, definition) -/\ndef assocTypes : List (String × String × String) := [\n  {}]\n", assoc.join(",\n  ")).unwrap();
    // provided (default) methods of the traits in src/lib.rs
    let lib = std::fs::read_to_string("/repo/src/lib.rs").expect("src/lib.rs");
    let file = syn::parse_file(&lib).expect("lib.rs parses");
    let mut provided = vec![]; let mut providedk = vec![];
    fn walk(items: &[Item], provided: &mut Vec<String>, providedk: &mut Vec<String>) {
        for it in items {
            match it {
                Item::Mod(m) => if let Some((_, items)) = &m.content { walk(items, provided, providedk) },
                Item::Trait(t) => for ti in &t.items {
                    if let syn::TraitItem::Fn(f) = ti { if let Some(b) = &f.default {
                        provided.push(format!("({}, {}, {})", lean_str(&t.ident.to_string()), lean_str(&f.sig.ident.to_string()), lean_str(&ts(b))));
                        providedk.push(provided_kind(&f.sig.ident.to_string(), &ts(b)));
                    } }
                },
                _ => {}
            }
        }
    }
    walk(&file.items, &mut provided, &mut providedk);
    writeln!(out, "/-- (trait, provided method, body) from src/lib.rs -/\ndef provided : List (String × String × String) := [\n  {}]\n", provided.join(",\n  ")).unwrap();
    writeln!(out, "def providedKinds : List ProvidedKind := [{}]\n", providedk.join(", ")).unwrap();
    writeln!(out, "end Soa.Extracted").unwrap();
}

// ---------- unsafe sites: every `unsafe` block inside a SAFE generated function ----------
struct UnsafeFinder { found: usize }
impl<'ast> syn::visit::Visit<'ast> for UnsafeFinder {
    fn visit_expr_unsafe(&mut self, e: &'ast syn::ExprUnsafe) { self.found += 1; syn::visit::visit_expr_unsafe(self, e); }
}
fn unsafe_sites(out: &mut String) {
    use std::fmt::Write;
    use syn::visit::Visit;
    let mut sites: Vec<String> = vec![];
    let mut nfn = 0usize; let mut nunsafe_fn = 0usize;
    for clone in [false, true] {
        let src = if clone { "#[soa_derive(Clone)] pub struct P { pub a: A, #[nested_soa] pub n: N, pub c: C }" } else { "pub struct P { pub a: A, #[nested_soa] pub n: N, pub c: C }" };
        let ast: syn::DeriveInput = syn::parse_str(src).expect("parse");
        let input = input::Input::new(ast);
        for tstream in [vec::derive(&input), refs::derive(&input), ptr::derive(&input), slice::derive(&input), slice::derive_mut(&input),
                        index::derive(&input), iter::derive(&input), generic::derive_slice(&input), generic::derive_slice_mut(&input), generic::derive_vec(&input)] {
            let file: syn::File = syn::parse2(tstream).expect("generated code parses");
            for item in &file.items {
                if let Item::Impl(im) = item {
                    let owner = ts(&im.self_ty);
                    let tr = im.trait_.as_ref().map(|(_, p, _)| format!("<{}>", p.segments.last().unwrap().ident)).unwrap_or_default();
                    for ii in &im.items {
                        if let ImplItem::Fn(f) = ii {
                            if !clone { nfn += 1; }
                            if f.sig.unsafety.is_some() { if !clone { nunsafe_fn += 1; } continue; }
                            let mut v = UnsafeFinder { found: 0 };
                            v.visit_block(&f.block);
                            if v.found > 0 {
                                let s = format!("{}{}::{}", owner, tr, f.sig.ident);
                                if !sites.contains(&s) { sites.push(s); }
                            }
                        }
                    }
                }
            }
        }
    }
    writeln!(out, "-- generated by /verif/extract from the generator sources in /repo/soa-derive-internal/src; do not edit").unwrap();
    writeln!(out, "namespace Soa.Extracted\n").unwrap();
    writeln!(out, "/-- every SAFE generated function (schematic struct with a nested field, with and without the Clone API)\n    whose body contains an `unsafe` block: the only places where the safe API can do something unsafe -/").unwrap();
    writeln!(out, "def unsafeSites : List String := [{}]\n", sites.iter().map(|s| lean_str(s)).collect::<Vec<_>>().join(", ")).unwrap();
    writeln!(out, "def nGeneratedFns : Nat := {}\ndef nUnsafeFns : Nat := {}\n\nend Soa.Extracted", nfn, nunsafe_fn).unwrap();
}


// ---------- soa_zip! / soa_zip_impl! rules (src/lib.rs) ----------
/// token stream printed one token per word (independent of source spacing)
fn flat_tokens(ts: proc_macro2::TokenStream, out: &mut Vec<String>) {
    for t in ts {
        match t {
            proc_macro2::TokenTree::Group(g) => {
                let (o, c) = match g.delimiter() {
                    proc_macro2::Delimiter::Parenthesis => ("(", ")"),
                    proc_macro2::Delimiter::Brace => ("{", "}"),
                    proc_macro2::Delimiter::Bracket => ("[", "]"),
                    proc_macro2::Delimiter::None => ("", ""),
                };
                if !o.is_empty() { out.push(o.into()); }
                flat_tokens(g.stream(), out);
                if !c.is_empty() { out.push(c.into()); }
            }
            other => out.push(other.to_string()),
        }
    }
}
fn flat(ts: proc_macro2::TokenStream) -> String { let mut v = vec![]; flat_tokens(ts, &mut v); v.join(" ") }
fn macro_rules_of(file: &syn::File, name: &str) -> Vec<(String, String)> {
    fn find<'a>(items: &'a [Item], name: &str) -> Option<&'a syn::ItemMacro> {
        for it in items {
            match it {
                Item::Macro(m) if m.ident.as_ref().map(|i| i == name).unwrap_or(false) => return Some(m),
                Item::Mod(md) => if let Some((_, inner)) = &md.content { if let Some(m) = find(inner, name) { return Some(m); } },
                _ => {}
            }
        }
        None
    }
    let m = find(&file.items, name).unwrap_or_else(|| panic!("macro {} not found in src/lib.rs", name));
    let toks: Vec<proc_macro2::TokenTree> = m.mac.tokens.clone().into_iter().collect();
    let mut rules = vec![];
    let mut i = 0;
    while i < toks.len() {
        // (matcher) => {transcriber} ;
        let lhs = match &toks[i] { proc_macro2::TokenTree::Group(g) => flat(g.stream()), t => panic!("unexpected token {} in macro {}", t, name) };
        let rhs = match &toks[i + 3] { proc_macro2::TokenTree::Group(g) => flat(g.stream()), t => panic!("unexpected token {} in macro {}", t, name) };
        rules.push((lhs, rhs));
        i += 4;
        if i < toks.len() { if let proc_macro2::TokenTree::Punct(p) = &toks[i] { if p.as_char() == ';' { i += 1; } } }
    }
    rules
}
fn zip_macro(out: &mut String) {
    use std::fmt::Write;
    let src = std::fs::read_to_string("/repo/src/lib.rs").expect("read /repo/src/lib.rs");
    let file: syn::File = syn::parse_file(&src).expect("src/lib.rs parses");
    writeln!(out, "-- generated by /verif/extract from /repo/src/lib.rs; do not edit").unwrap();
    writeln!(out, "namespace Soa.Extracted\n").unwrap();
    for (lean, name) in [("zipEntry", "soa_zip"), ("zipRules", "soa_zip_impl")] {
        let rules = macro_rules_of(&file, name);
        writeln!(out, "/-- the rules of `{}!` as (matcher, transcriber) token streams, in source order -/", name).unwrap();
        writeln!(out, "def {} : List (String × String) := [", lean).unwrap();
        let body: Vec<String> = rules.iter().map(|(l, r)| format!("  ({},\n   {})", lean_str(l), lean_str(r))).collect();
        writeln!(out, "{}]\n", body.join(",\n")).unwrap();
    }
    writeln!(out, "end Soa.Extracted").unwrap();
}


// ---------- derive / attribute landing table (C14): the real Input::new + generators on a corpus of attribute lists ----------
#[derive(Clone)]
enum Dir { Derive(Vec<String>), Attr(String, String), Foreign(String) }
const TRAITS: [&str; 11] = ["Debug", "PartialEq", "Eq", "PartialOrd", "Ord", "Hash", "Clone", "Default", "Serialize", "Deserialize", "Copy"];
const KINDS: [&str; 7] = ["Vec", "Slice", "SliceMut", "Ref", "RefMut", "Ptr", "PtrMut"];
fn lean_tr(t: &str) -> String { if TRAITS.contains(&t) { format!(".{}", t) } else { format!("(.other {})", t.len()) } }
fn lean_at(meta: &syn::Meta) -> Option<String> {
    let path = meta.path().get_ident().map(|i| i.to_string()).unwrap_or_default();
    match path.as_str() {
        "doc" | "allow" => None,
        "derive" => {
            let l = meta.require_list().expect("derive list");
            let ids: syn::punctuated::Punctuated<syn::Path, syn::Token![,]> = l.parse_args_with(syn::punctuated::Punctuated::parse_terminated).expect("derive args");
            Some(format!("(.derive [{}])", ids.iter().map(|p| lean_tr(&p.segments.last().unwrap().ident.to_string())).collect::<Vec<_>>().join(", ")))
        }
        "cfg_attr" => {
            let s = meta.require_list().map(|l| l.tokens.to_string()).unwrap_or_default();
            let n: String = s.chars().skip_while(|c| !c.is_ascii_digit()).take_while(|c| c.is_ascii_digit()).collect();
            Some(format!("(.other {})", if n.is_empty() { "9999".to_string() } else { n }))
        }
        _ => Some("(.other 9999)".into()),
    }
}
fn lean_dir(d: &Dir) -> String {
    match d {
        Dir::Derive(ts) => format!("(.soaDerive [{}])", ts.iter().map(|t| lean_tr(t)).collect::<Vec<_>>().join(", ")),
        Dir::Attr(k, a) => {
            let meta: syn::Meta = syn::parse_str(a).expect("attr parses");
            let at = lean_at(&meta).unwrap_or("(.other 9999)".into());
            match KINDS.iter().position(|x| x == k) {
                Some(_) => format!("(.soaAttr .{} {})", match k.as_str() { "Vec" => "vec", "Slice" => "slice", "SliceMut" => "sliceMut", "Ref" => "ref", "RefMut" => "refMut", "Ptr" => "ptr", _ => "ptrMut" }, at),
                None => format!("(.soaAttrBad {})", at),
            }
        }
        Dir::Foreign(_) => ".foreign".into(),
    }
}
fn src_dir(d: &Dir) -> String {
    match d {
        Dir::Derive(ts) => format!("#[soa_derive({})]", ts.join(", ")),
        Dir::Attr(k, a) => format!("#[soa_attr({}, {})]", k, a),
        Dir::Foreign(a) => format!("#[{}]", a),
    }
}
fn run_derive_case(dirs: &[Dir]) -> Option<(Vec<Vec<String>>, Vec<bool>)> {
    let src = format!("{} pub struct P {{ pub a: A, #[nested_soa] pub n: N }}", dirs.iter().map(src_dir).collect::<Vec<_>>().join(" "));
    let r = std::panic::catch_unwind(|| {
        let ast: syn::DeriveInput = syn::parse_str(&src).expect("parse");
        let input = input::Input::new(ast);
        let mut structs: std::collections::HashMap<String, Vec<String>> = Default::default();
        let mut fns: std::collections::HashSet<(String, String)> = Default::default();
        for tstream in [vec::derive(&input), refs::derive(&input), ptr::derive(&input), slice::derive(&input), slice::derive_mut(&input),
                        index::derive(&input), iter::derive(&input), generic::derive_slice(&input), generic::derive_slice_mut(&input), generic::derive_vec(&input)] {
            let file: syn::File = syn::parse2(tstream).expect("generated code parses");
            for item in &file.items {
                match item {
                    Item::Struct(st) => { structs.insert(st.ident.to_string(), st.attrs.iter().filter_map(|a| lean_at(&a.meta)).collect()); }
                    Item::Impl(im) => {
                        let owner = ts(&im.self_ty);
                        for ii in &im.items { if let ImplItem::Fn(f) = ii { fns.insert((owner.clone(), f.sig.ident.to_string())); } }
                    }
                    _ => {}
                }
            }
        }
        let lists: Vec<Vec<String>> = KINDS.iter().map(|k| structs.get(&format!("P{}", k)).cloned().expect("generated struct present")).collect();
        let has = |o: &str, f: &str| fns.contains(&(o.to_string(), f.to_string()));
        (lists, vec![has("PVec", "resize"), has("PSlice<'a>", "to_vec"), has("PSliceMut<'a>", "to_vec"), has("PVec", "extend_from_slice")])
    });
    r.ok()
}
fn derive_table(out: &mut String) {
    use std::fmt::Write;
    let mut cases: Vec<Vec<Dir>> = vec![];
    let d = |ts: &[&str]| Dir::Derive(ts.iter().map(|s| s.to_string()).collect());
    // all 256 subsets of the eight std traits, as one soa_derive attribute
    for mask in 0u32..256 { cases.push(vec![Dir::Derive((0..8).filter(|i| mask >> i & 1 == 1).map(|i| TRAITS[i].to_string()).collect())]); }
    // Copy anywhere is rejected
    cases.push(vec![d(&["Copy"])]); cases.push(vec![d(&["Debug", "Copy"])]); cases.push(vec![d(&["Copy", "Clone"])]);
    cases.push(vec![d(&["Debug"]), d(&["Clone", "Copy"])]);
    // serde traits, unknown traits, reversed order, duplicates, several attributes
    cases.push(vec![d(&["Serialize", "Deserialize"])]); cases.push(vec![d(&["Debug", "Serialize", "Clone", "Deserialize", "PartialEq"])]);
    cases.push(vec![d(&["Foo"])]); cases.push(vec![d(&["Foo", "Clone", "BarBaz"])]);
    cases.push(vec![d(&["Hash", "Ord", "PartialOrd", "Eq", "PartialEq", "Debug"])]);
    cases.push(vec![d(&["Clone"]), d(&["Debug"]), d(&[]), d(&["Default", "PartialEq"])]);
    cases.push(vec![d(&["Debug", "Debug"])]);
    // every kind through soa_attr: a derive and a tagged attribute; alone, before and after a soa_derive
    for (i, k) in KINDS.iter().enumerate() {
        cases.push(vec![Dir::Attr(k.to_string(), "derive(Hash)".into())]);
        cases.push(vec![Dir::Attr(k.to_string(), format!("cfg_attr(tag{}, x)", i + 1))]);
        cases.push(vec![d(&["Debug", "Clone"]), Dir::Attr(k.to_string(), "derive(PartialEq)".into()), d(&["Eq"])]);
        cases.push(vec![Dir::Attr(k.to_string(), format!("cfg_attr(tag{}, x)", i + 10)), d(&["Clone", "PartialOrd"]), Dir::Attr(k.to_string(), "derive(Clone)".into())]);
        cases.push(vec![Dir::Foreign("derive(Debug)".into()), Dir::Attr(k.to_string(), "derive(Default)".into()), Dir::Foreign("repr(C)".into())]);
    }
    // all kinds at once, in reverse order
    cases.push(KINDS.iter().rev().enumerate().map(|(i, k)| Dir::Attr(k.to_string(), format!("cfg_attr(tag{}, x)", i + 20))).collect());
    // not a kind
    cases.push(vec![Dir::Attr("Bogus".into(), "derive(Debug)".into())]);
    cases.push(vec![d(&["Debug"]), Dir::Attr("Iter".into(), "cfg_attr(tag5, x)".into())]);
    // only foreign attributes
    cases.push(vec![Dir::Foreign("derive(Debug, Clone)".into())]);
    let hook = std::panic::take_hook();
    std::panic::set_hook(Box::new(|_| {}));
    let rows: Vec<String> = cases.iter().map(|c| {
        let dirs = c.iter().map(lean_dir).collect::<Vec<_>>().join(", ");
        let o = match run_derive_case(c) {
            None => "none".to_string(),
            Some((lists, api)) => format!("some ([{}], [{}])",
                lists.iter().map(|l| format!("[{}]", l.join(", "))).collect::<Vec<_>>().join(",\n      "),
                api.iter().map(|b| b.to_string()).collect::<Vec<_>>().join(", ")),
        };
        format!("  ⟨[{}],\n    {}⟩", dirs, o)
    }).collect();
    std::panic::set_hook(hook);
    writeln!(out, "import Soa.Model.Derive\n-- generated by /verif/extract: the real Input::new and generators of /repo run on a corpus of attribute lists; do not edit").unwrap();
    writeln!(out, "namespace Soa.Extracted\nopen Soa.Derive\n").unwrap();
    writeln!(out, "/-- per input attribute list: the attributes found on the seven generated structs (Vec, Slice, SliceMut, Ref, RefMut, Ptr, PtrMut; docs and\n    `allow` omitted) and the presence of resize / Slice::to_vec / SliceMut::to_vec / extend_from_slice; `none` = the derive panics -/").unwrap();
    writeln!(out, "def deriveTable : List Row := [\n{}]\n", rows.join(",\n")).unwrap();
    writeln!(out, "def nDeriveCases : Nat := {}\n\nend Soa.Extracted", cases.len()).unwrap();
}

fn sig_dump() {
    let src = "#[soa_derive(Clone)] pub struct P { pub a: A, #[nested_soa] pub n: N, pub c: C }";
    let ast: syn::DeriveInput = syn::parse_str(src).expect("parse");
    let input = input::Input::new(ast);
    for tstream in [vec::derive(&input), refs::derive(&input), ptr::derive(&input), slice::derive(&input), slice::derive_mut(&input),
                    index::derive(&input), iter::derive(&input), generic::derive_slice(&input), generic::derive_slice_mut(&input), generic::derive_vec(&input)] {
        let file: syn::File = syn::parse2(tstream).expect("generated code parses");
        for item in &file.items {
            if let Item::Struct(st) = item { println!("STRUCT {}", st.to_token_stream().to_string()); }
            if let Item::Impl(im) = item {
                if im.unsafety.is_some() { println!("UNSAFE IMPL {}", im.to_token_stream().to_string()); }
                let owner = im.self_ty.to_token_stream().to_string();
                let tr = im.trait_.as_ref().map(|(_, p, _)| p.to_token_stream().to_string()).unwrap_or_default();
                let gens = im.generics.to_token_stream().to_string();
                for ii in &im.items {
                    if let ImplItem::Fn(f) = ii {
                        println!("{} | {} | {} | {}", owner, tr, gens, f.sig.to_token_stream().to_string());
                    }
                }
            }
        }
    }
}


// ---------- compile-time surface (C18): signature table, field type constructors, unsafe impls ----------
fn k9_of(ty: &str) -> Option<&'static str> {
    // ty: type text without spaces
    let t = ty.trim_start_matches('&').trim_start_matches("'a").trim_start_matches("mut");
    let base = t.split('<').next().unwrap_or("");
    match base {
        "PVec" => Some("vec"), "PSlice" => Some("slice"), "PSliceMut" => Some("sliceMut"), "PRef" => Some("ref"), "PRefMut" => Some("refMut"),
        "PPtr" => Some("ptr"), "PPtrMut" => Some("ptrMut"), "PIter" => Some("iter"), "PIterMut" => Some("iterMut"), _ => None,
    }
}
fn out_class(ret: &str) -> &'static str {
    // ret: return type text without spaces, associated types already resolved where the impl defines them
    const MUT: [&str; 8] = ["PSliceMut", "PRefMut", "PIterMut", "MutOutput", "SliceMut<", "RefMut<", "IterMut<", "&mut"];
    const SHARED: [&str; 8] = ["PSlice", "PRef", "PIter", "RefOutput", "Slice<", "Ref<", "Iter<", "&"];
    let lt_mut = ret.contains("&'") && ret.contains("mut");   // & 'a mut T
    if MUT.iter().any(|m| ret.contains(m)) || lt_mut { return "mutable"; }
    if SHARED.iter().any(|m| ret.contains(m)) { return "shared"; }
    "none"
}
fn ctor_of(ty: &str) -> String {
    // ty without spaces
    if ty.starts_with("Vec<") { return ".vec".into(); }
    if ty.starts_with("&'amut[") { return ".sliceMutRef".into(); }
    if ty.starts_with("&'a[") { return ".sliceRef".into(); }
    if ty.starts_with("&'amut") { return ".refMut".into(); }
    if ty.starts_with("&'a") { return ".ref".into(); }
    if ty.starts_with("*const") { return ".ptrConst".into(); }
    if ty.starts_with("*mut") { return ".ptrMut".into(); }
    if ty.starts_with("::std::slice::IterMut<") { return ".sliceIterMut".into(); }
    if ty.starts_with("::std::slice::Iter<") { return ".sliceIter".into(); }
    for (n, k) in [("NVec", "vec"), ("NSliceMut", "sliceMut"), ("NSlice", "slice"), ("NRefMut", "refMut"), ("NRef", "ref"), ("NPtrMut", "ptrMut"), ("NPtr", "ptr")] {
        if ty == n || ty.starts_with(&format!("{}<", n)) { return format!("(.nested .{})", k); }
    }
    if ty.starts_with("<Nassoa_derive::SoAIter<'a>>::IterMut") { return "(.nested .iterMut)".into(); }
    if ty.starts_with("<Nassoa_derive::SoAIter<'a>>::Iter") { return "(.nested .iter)".into(); }
    ".other".into()
}
fn zip_leaves(t: &Type, out: &mut Vec<String>) {
    // Zip<Zip<A, B>, C> -> [A, B, C]
    if let Type::Path(p) = t {
        if let Some(seg) = p.path.segments.last() {
            if seg.ident == "Zip" {
                if let syn::PathArguments::AngleBracketed(ab) = &seg.arguments {
                    for a in &ab.args { if let syn::GenericArgument::Type(inner) = a { zip_leaves(inner, out); } }
                    return;
                }
            }
        }
    }
    out.push(ts(t));
}
fn surface_tables(out: &mut String) {
    use std::fmt::Write;
    let src = "#[soa_derive(Clone)] pub struct P { pub a: A, #[nested_soa] pub n: N, pub c: C }";
    let ast: syn::DeriveInput = syn::parse_str(src).expect("parse");
    let input = input::Input::new(ast);
    let mut sigs: Vec<String> = vec![];
    let mut ctors: Vec<String> = vec![];
    let mut unsafe_impls: Vec<String> = vec![];
    let mut json: Vec<String> = vec![];
    for tstream in [vec::derive(&input), refs::derive(&input), ptr::derive(&input), slice::derive(&input), slice::derive_mut(&input),
                    index::derive(&input), iter::derive(&input), generic::derive_slice(&input), generic::derive_slice_mut(&input), generic::derive_vec(&input)] {
        let file: syn::File = syn::parse2(tstream).expect("generated code parses");
        for item in &file.items {
            match item {
                Item::Struct(st) => {
                    if let Some(k) = k9_of(&st.ident.to_string()) {
                        let mut cs: Vec<String> = vec![];
                        match &st.fields {
                            syn::Fields::Named(n) => for f in &n.named { cs.push(ctor_of(&ts(&f.ty))); },
                            syn::Fields::Unnamed(u) => for f in &u.unnamed { let mut leaves = vec![]; zip_leaves(&f.ty, &mut leaves); for l in leaves { cs.push(ctor_of(&l)); } },
                            syn::Fields::Unit => {}
                        }
                        ctors.push(format!("(.{}, [{}])", k, cs.join(", ")));
                    }
                }
                Item::Impl(im) => {
                    let owner = ts(&im.self_ty);
                    let tr = im.trait_.as_ref().map(|(_, p, _)| ts(p)).unwrap_or_default();
                    if im.unsafety.is_some() { unsafe_impls.push(format!("{} for {}", tr, owner)); }
                    // associated types defined by this impl (to resolve `Self::X` in return types)
                    let mut assoc: Vec<(String, String)> = vec![];
                    for ii in &im.items { if let ImplItem::Type(t) = ii { assoc.push((t.ident.to_string(), ts(&t.ty))); } }
                    assoc.sort_by_key(|(n, _)| std::cmp::Reverse(n.len()));   // `Self::RefMut` before `Self::Ref`
                    for ii in &im.items {
                        if let ImplItem::Fn(f) = ii {
                            let mut ret = match &f.sig.output { syn::ReturnType::Default => String::new(), syn::ReturnType::Type(_, t) => ts(t) };
                            for (n, t) in &assoc { ret = ret.replace(&format!("Self::{}", n), t); }
                            // source: the receiver when the impl is on a generated type / the element type / a reference to the vector,
                            // otherwise the first parameter of such a type
                            let mut mode = "none"; let mut srck = ".other".to_string();
                            let own_k = k9_of(&owner);
                            let recv = f.sig.receiver();
                            // lifetime of the borrow through which the source is taken (None: elided or by value)
                            let mut src_lt: Option<String> = None;
                            let ref_lt = |t: &Type| -> Option<String> { if let Type::Reference(r) = t { r.lifetime.as_ref().map(|l| format!("'{}", l.ident)) } else { None } };
                            if let Some(r) = recv {
                                if let Some((_, Some(lt))) = &r.reference { src_lt = Some(format!("'{}", lt.ident)); }
                                if r.reference.is_none() { src_lt = ref_lt(&im.self_ty); }
                                let by_ref = r.reference.is_some();
                                let m = if by_ref { if r.mutability.is_some() { "excl" } else { "shared" } } else { "value" };
                                if let Some(k) = own_k {
                                    srck = format!("(.gen .{})", k);
                                    mode = if owner.starts_with("&'amut") { "excl" } else if owner.starts_with("&'a") { "shared" } else { m };
                                } else if owner == "P" { srck = ".elem".into(); mode = m; }
                            }
                            if srck == ".other" {
                                for a in &f.sig.inputs {
                                    if let syn::FnArg::Typed(pt) = a {
                                        let t = ts(&pt.ty);
                                        if let Some(k) = k9_of(&t) {
                                            src_lt = ref_lt(&pt.ty);
                                            srck = format!("(.gen .{})", k);
                                            mode = if t.starts_with("&'amut") || t.starts_with("&mut") { "excl" } else if t.starts_with('&') { "shared" } else { "value" };
                                            break;
                                        }
                                    }
                                }
                            }
                            let oc = out_class(&ret);
                            // lifetimes named in the (resolved) return type
                            let mut ret_lts: Vec<String> = vec![];
                            { let b: Vec<char> = ret.chars().collect(); let mut i = 0;
                              while i < b.len() { if b[i] == '\'' { let mut j = i + 1; while j < b.len() && (b[j].is_alphanumeric() || b[j] == '_') { j += 1; }
                                  ret_lts.push(b[i..j].iter().collect()); i = j; } else { i += 1; } } }
                            // the result borrows from the borrow of the source: no lifetime named (elision), or the source's borrow lifetime named
                            let tied = ret_lts.is_empty() || ret_lts.iter().all(|l| l == "'_") || src_lt.as_ref().map(|l| ret_lts.contains(l)).unwrap_or(false);
                            sigs.push(format!("⟨{}, {}, {}, {}, .{}, {}, .{}, {}⟩", lean_str(&owner), lean_str(&tr), lean_str(&f.sig.ident.to_string()),
                                              f.sig.unsafety.is_some(), mode, srck, oc, tied));
                            json.push(format!("{{\"owner\":\"{}\",\"trait\":\"{}\",\"name\":\"{}\",\"unsafe\":{},\"mode\":\"{}\",\"src\":\"{}\",\"out\":\"{}\",\"tied\":{},\"ret\":\"{}\",\"sig\":\"{}\"}}",
                                              owner, tr.replace('"', "'"), f.sig.ident, f.sig.unsafety.is_some(), mode, srck, oc, tied, ret.replace('"', "'"),
                                              f.sig.to_token_stream().to_string().replace('"', "'")));
                        }
                    }
                }
                _ => {}
            }
        }
    }
    writeln!(out, "import Soa.Model.Surface\n-- generated by /verif/extract from the generator sources in /repo/soa-derive-internal/src (schematic struct P {{ a: A, #[nested_soa] n: N, c: C }}, with the Clone API); do not edit").unwrap();
    writeln!(out, "namespace Soa.Extracted\nopen Soa.Surface\n").unwrap();
    writeln!(out, "/-- every generated function: owner, trait, name, unsafe, how it takes its source, source kind, access carried by the result,\n    whether the result borrows from the borrow of the source (as opposed to carrying the source's own lifetime) -/").unwrap();
    writeln!(out, "def sigs : List Sig := [\n  {}]\n", sigs.join(",\n  ")).unwrap();
    writeln!(out, "/-- field type constructors of the nine generated types (plain field, nested field, plain field) -/").unwrap();
    writeln!(out, "def fieldCtors : List (K9 × List Ctor) := [\n  {}]\n", ctors.join(",\n  ")).unwrap();
    writeln!(out, "/-- `unsafe impl` items in the generated code -/").unwrap();
    writeln!(out, "def unsafeImpls : List String := [{}]\n\nend Soa.Extracted", unsafe_impls.iter().map(|s| lean_str(s)).collect::<Vec<_>>().join(", ")).unwrap();
    // the same table for the probe generator
    let dir = std::env::var("SOA_EXTRACT_JSON").unwrap_or_else(|_| "/verif/work".into());
    let _ = std::fs::create_dir_all(&dir);
    write_if_changed(&format!("{}/sigs.json", dir), &format!("[\n{}\n]\n", json.join(",\n")));
}


// ---------- derive totality / hygiene / API (C13) ----------
static LAST_PANIC: std::sync::Mutex<String> = std::sync::Mutex::new(String::new());
fn all_generators(input: &input::Input) -> Vec<proc_macro2::TokenStream> {
    vec![vec::derive(input), refs::derive(input), ptr::derive(input), slice::derive(input), slice::derive_mut(input),
         index::derive(input), iter::derive(input), generic::derive_slice(input), generic::derive_slice_mut(input), generic::derive_vec(input)]
}
/// run the real Input::new and every generator on a declaration; Err(panic message) if the derive panics
fn run_decl(src: &str) -> Result<Vec<syn::File>, String> {
    let src = src.to_string();
    LAST_PANIC.lock().unwrap().clear();
    let r = std::panic::catch_unwind(move || {
        let ast: syn::DeriveInput = syn::parse_str(&src).expect("declaration parses");
        let input = input::Input::new(ast);
        all_generators(&input).into_iter().map(|t| syn::parse2::<syn::File>(t).expect("generated code parses")).collect::<Vec<_>>()
    });
    r.map_err(|_| LAST_PANIC.lock().unwrap().clone())
}
fn diag_of(msg: &str) -> String {
    if msg.contains("only supports struct with fields") { ".noFields".into() }
    else if msg.contains("only supports struct") { ".notStruct".into() }
    else if msg.contains("missing ident") || msg.contains("`Option::unwrap()` on a `None` value") { ".unnamedField".into() }
    else if msg.contains("can not derive Copy") { ".copy".into() }
    else if msg.contains("expected one of the SoA type") { ".badKind".into() }
    else if msg.contains("expected attribute like") { ".badAttrShape".into() }
    else if msg.contains("soa_derive") { ".badDeriveList".into() }
    else { format!("(.other {})", lean_str(msg)) }
}
#[derive(Clone, PartialEq)]
enum BName { Field(usize), Priv(String, usize), Fixed(String) }
struct BinderWalk<'a> { fields: &'a [String], ev: Vec<(bool, BName)> }
impl<'a> BinderWalk<'a> {
    fn classify(&self, id: &str) -> BName {
        if let Some(i) = self.fields.iter().position(|f| f == id) { return BName::Field(i); }
        if id.starts_with("___soa_derive_private") {
            if let Some(p) = id.rfind('_') { if let Ok(i) = id[p + 1..].parse::<usize>() { return BName::Priv(id[..p].to_string(), i); } }
        }
        BName::Fixed(id.to_string())
    }
    fn bind_pat(&mut self, p: &syn::Pat) {
        match p {
            syn::Pat::Ident(pi) => { let n = self.classify(&pi.ident.to_string()); self.ev.push((true, n)); if let Some((_, sub)) = &pi.subpat { self.bind_pat(sub); } }
            syn::Pat::Tuple(t) => for e in &t.elems { self.bind_pat(e); },
            syn::Pat::TupleStruct(t) => for e in &t.elems { self.bind_pat(e); },
            syn::Pat::Struct(st) => for f in &st.fields { self.bind_pat(&f.pat); },
            syn::Pat::Reference(r) => self.bind_pat(&r.pat),
            syn::Pat::Type(t) => self.bind_pat(&t.pat),
            syn::Pat::Paren(t) => self.bind_pat(&t.pat),
            syn::Pat::Or(o) => for c in &o.cases { self.bind_pat(c); },
            syn::Pat::Slice(sl) => for e in &sl.elems { self.bind_pat(e); },
            _ => {}
        }
    }
}
impl<'a, 'ast> syn::visit::Visit<'ast> for BinderWalk<'a> {
    fn visit_local(&mut self, l: &'ast syn::Local) {
        // the initialiser is evaluated before the pattern binds
        if let Some(init) = &l.init { self.visit_expr(&init.expr); if let Some((_, d)) = &init.diverge { self.visit_expr(d); } }
        self.bind_pat(&l.pat);
    }
    fn visit_expr_closure(&mut self, c: &'ast syn::ExprClosure) {
        for p in &c.inputs { self.bind_pat(p); }
        self.visit_expr(&c.body);
    }
    fn visit_arm(&mut self, a: &'ast syn::Arm) { self.bind_pat(&a.pat); if let Some((_, g)) = &a.guard { self.visit_expr(g); } self.visit_expr(&a.body); }
    fn visit_expr_for_loop(&mut self, f: &'ast syn::ExprForLoop) { self.visit_expr(&f.expr); self.bind_pat(&f.pat); self.visit_block(&f.body); }
    fn visit_expr_let(&mut self, l: &'ast syn::ExprLet) { self.visit_expr(&l.expr); self.bind_pat(&l.pat); }
    fn visit_expr_path(&mut self, p: &'ast syn::ExprPath) {
        if p.qself.is_none() && p.path.segments.len() == 1 && p.path.leading_colon.is_none() {
            let id = p.path.segments[0].ident.to_string();
            if id != "self" && id != "Self" && id.chars().next().map(|c| c.is_lowercase() || c == '_').unwrap_or(false) {
                let n = self.classify(&id); self.ev.push((false, n));
            }
        }
    }
    fn visit_field_value(&mut self, fv: &'ast syn::FieldValue) {
        // `field: expr` — the member is not a variable; shorthand `field` is a use
        if fv.colon_token.is_none() { if let syn::Member::Named(id) = &fv.member { let n = self.classify(&id.to_string()); self.ev.push((false, n)); } }
        else { self.visit_expr(&fv.expr); }
    }
    fn visit_macro(&mut self, m: &'ast syn::Macro) {
        // debug_assert!/assert!/format-like macros: identifiers used as arguments are uses
        for t in m.tokens.clone() { if let proc_macro2::TokenTree::Ident(id) = t { let s = id.to_string();
            if s != "self" && s.chars().next().map(|c| c.is_lowercase() || c == '_').unwrap_or(false) { let n = self.classify(&s); if !matches!(n, BName::Fixed(_)) { self.ev.push((false, n)); } } } }
    }
}
fn lean_bname(n: &BName) -> String {
    match n { BName::Field(i) => format!("(.field {})", i), BName::Priv(f, i) => format!("(.priv {} {})", lean_str(f), i), BName::Fixed(s) => format!("(.fixed {})", lean_str(s)) }
}
fn shape_tables(out: &mut String) {
    use std::fmt::Write;
    use syn::visit::Visit;
    let hook = std::panic::take_hook();
    std::panic::set_hook(Box::new(|info| {
        let msg = if let Some(s) = info.payload().downcast_ref::<&str>() { s.to_string() } else if let Some(s) = info.payload().downcast_ref::<String>() { s.clone() } else { "?".into() };
        *LAST_PANIC.lock().unwrap() = msg;
    }));
    // --- acceptance corpus: (Lean declaration, source)
    let mut decls: Vec<(String, String)> = vec![];
    let fields = |n: usize| (0..n).map(|i| format!("pub f{}: T{}", i, i)).collect::<Vec<_>>().join(", ");
    for n in [1usize, 2, 3, 7, 12, 40] { decls.push((format!("⟨.namedStruct, {}, []⟩", n), format!("pub struct P {{ {} }}", fields(n)))); }
    decls.push(("⟨.namedStruct, 2, []⟩".into(), "struct P { a: A, pub(crate) b: B }".into()));
    decls.push(("⟨.namedStruct, 2, []⟩".into(), "pub(crate) struct P { #[nested_soa] pub a: A, pub r#type: B }".into()));
    decls.push(("⟨.namedStruct, 0, []⟩".into(), "pub struct P {}".into()));
    decls.push(("⟨.unitStruct, 0, []⟩".into(), "pub struct P;".into()));
    for n in [1usize, 2, 5] { decls.push((format!("⟨.tupleStruct, {}, []⟩", n), format!("pub struct P({});", (0..n).map(|i| format!("pub T{}", i)).collect::<Vec<_>>().join(", ")))); }
    decls.push(("⟨.tupleStruct, 0, []⟩".into(), "pub struct P();".into()));
    decls.push(("⟨.enum_, 2, []⟩".into(), "pub enum P { A, B }".into()));
    decls.push(("⟨.enum_, 1, []⟩".into(), "pub enum P { A { x: u32 } }".into()));
    decls.push(("⟨.enum_, 0, []⟩".into(), "pub enum P {}".into()));
    decls.push(("⟨.union_, 2, []⟩".into(), "pub union P { a: u32, b: f32 }".into()));
    for (ts_, lean) in [("Copy", "[.Copy]"), ("Clone, Copy", "[.Clone, .Copy]"), ("Copy, Debug", "[.Copy, .Debug]"), ("Debug, Clone", "[.Debug, .Clone]"), ("Default", "[.Default]"), ("", "[]")] {
        decls.push((format!("⟨.namedStruct, 2, [.traits {}]⟩", lean), format!("#[soa_derive({})] pub struct P {{ pub a: A, pub b: B }}", ts_)));
        decls.push((format!("⟨.tupleStruct, 2, [.traits {}]⟩", lean), format!("#[soa_derive({})] pub struct P(A, B);", ts_)));
        decls.push((format!("⟨.enum_, 2, [.traits {}]⟩", lean), format!("#[soa_derive({})] pub enum P {{ A, B }}", ts_)));
        decls.push((format!("⟨.unitStruct, 0, [.traits {}]⟩", lean), format!("#[soa_derive({})] pub struct P;", ts_)));
    }
    for (a, lean) in [("Vec, derive(Debug)", ".okKind"), ("PtrMut, derive(Debug)", ".okKind"), ("Bogus, derive(Debug)", ".badKind"), ("Vec", ".badShape"),
                      ("Vec, derive(Debug), derive(Clone)", ".badShape"), ("foo::Vec, derive(Debug)", ".badKind")] {
        decls.push((format!("⟨.namedStruct, 1, [.attr {}]⟩", lean), format!("#[soa_attr({})] pub struct P {{ pub a: A }}", a)));
        decls.push((format!("⟨.unitStruct, 0, [.attr {}]⟩", lean), format!("#[soa_attr({})] pub struct P;", a)));
        decls.push((format!("⟨.tupleStruct, 1, [.attr {}]⟩", lean), format!("#[soa_attr({})] pub struct P(A);", a)));
    }
    decls.push(("⟨.namedStruct, 1, [.traits [.Copy], .attr .badKind]⟩".into(), "#[soa_derive(Copy)] #[soa_attr(Bogus, derive(Debug))] pub struct P { pub a: A }".into()));
    decls.push(("⟨.namedStruct, 1, [.attr .badKind, .traits [.Copy]]⟩".into(), "#[soa_attr(Bogus, derive(Debug))] #[soa_derive(Copy)] pub struct P { pub a: A }".into()));
    decls.push(("⟨.namedStruct, 1, [.attr .okKind, .traits [.Debug], .attr .badShape, .traits [.Copy]]⟩".into(), "#[soa_attr(Ref, derive(Debug))] #[soa_derive(Debug)] #[soa_attr(Ref)] #[soa_derive(Copy)] pub struct P { pub a: A }".into()));
    decls.push(("⟨.namedStruct, 3, [.traits [.Debug], .traits [.Clone, .PartialEq], .attr .okKind]⟩".into(), "#[soa_derive(Debug)] #[soa_derive(Clone, PartialEq)] #[soa_attr(Vec, derive(Hash))] pub struct P { pub a: A, #[nested_soa] pub b: B, c: C }".into()));
    let rows: Vec<String> = decls.iter().map(|(lean, src)| {
        let r = run_decl(src);
        format!("  ({}, {})", lean, match r { Ok(_) => "none".to_string(), Err(m) => format!("some {}", diag_of(&m)) })
    }).collect();
    // --- binder events per generated function (schematic struct, with the Clone API)
    let fnames: Vec<String> = vec!["fld_zero".into(), "fld_one".into(), "fld_two".into()];
    let files = run_decl("#[soa_derive(Clone)] pub struct P { pub fld_zero: A, #[nested_soa] pub fld_one: N, pub fld_two: C }").expect("schematic struct is accepted");
    let mut fn_rows: Vec<String> = vec![];
    let mut locals: std::collections::BTreeSet<String> = Default::default();
    let mut api: Vec<(String, String, String)> = vec![];
    for file in &files {
        for item in &file.items {
            if let Item::Impl(im) = item {
                let owner = ts(&im.self_ty);
                let tr = im.trait_.as_ref().map(|(_, p, _)| ts(p)).unwrap_or_default();
                for ii in &im.items {
                    if let ImplItem::Fn(f) = ii {
                        api.push((owner.clone(), tr.clone(), f.sig.ident.to_string()));
                        let mut w = BinderWalk { fields: &fnames, ev: vec![] };
                        for a in &f.sig.inputs { if let syn::FnArg::Typed(pt) = a { w.bind_pat(&pt.pat); } }
                        w.visit_block(&f.block);
                        let uses_field_binder = w.ev.iter().any(|(b, n)| *b && !matches!(n, BName::Fixed(_)));
                        for (_, n) in &w.ev { if let BName::Fixed(s) = n { locals.insert(s.clone()); } }
                        if uses_field_binder {
                            let evs: Vec<String> = w.ev.iter().map(|(b, n)| format!("{} {}", if *b { ".bind" } else { ".use" }, lean_bname(n))).collect();
                            fn_rows.push(format!("  ({}, [{}])", lean_str(&format!("{}{}::{}", owner, if tr.is_empty() { String::new() } else { format!("<{}>", tr) }, f.sig.ident)), evs.join(", ")));
                        }
                    }
                }
            }
        }
    }
    let files_nc = run_decl("pub struct P { pub a: A, #[nested_soa] pub n: N, pub c: C }").expect("schematic struct is accepted");
    let mut api_nc: Vec<(String, String, String)> = vec![];
    for file in &files_nc { for item in &file.items { if let Item::Impl(im) = item {
        let owner = ts(&im.self_ty); let tr = im.trait_.as_ref().map(|(_, p, _)| ts(p)).unwrap_or_default();
        for ii in &im.items { if let ImplItem::Fn(f) = ii { api_nc.push((owner.clone(), tr.clone(), f.sig.ident.to_string())); } } } } }
    std::panic::set_hook(hook);
    // --- how the generator builds its private binder names (syntactic, from the generator sources)
    let mut priv_spans: Vec<String> = vec![];
    for file in ["refs.rs", "slice.rs", "vec.rs", "ptr.rs", "iter.rs", "index.rs", "generic.rs"] {
        let src = std::fs::read_to_string(format!("/repo/soa-derive-internal/src/{}", file)).expect("generator source");
        let mut rest = src.as_str();
        while let Some(p) = rest.find("\"___soa_derive_private") {
            let tail = &rest[p + 1..];
            let fmt: String = tail.chars().take_while(|c| *c != '"').collect();
            let after = &tail[fmt.len()..];
            let span = if let Some(q) = after.find("Span::") { after[q + 6..].chars().take_while(|c| c.is_alphanumeric() || *c == '_').collect::<String>() } else { "?".into() };
            priv_spans.push(format!("({}, {}, {})", lean_str(file), lean_str(fmt.trim_end_matches("_{}")), lean_str(&span)));
            rest = &tail[fmt.len()..];
        }
    }
    writeln!(out, "import Soa.Model.Accept\n-- generated by /verif/extract: the real Input::new and generators of /repo run on a corpus of declarations; binder events, API lists; do not edit").unwrap();
    writeln!(out, "namespace Soa.Extracted\nopen Soa.Accept\n").unwrap();
    writeln!(out, "/-- declaration ↦ `none` (code is generated) or the diagnostic the derive panics with -/").unwrap();
    writeln!(out, "def acceptTable : List (Decl × Option Diag) := [\n{}]\n", rows.join(",\n")).unwrap();
    writeln!(out, "/-- every generated function that binds a field-named or generator-private local: its binder / use events in evaluation order -/").unwrap();
    writeln!(out, "def binderFns : List (String × List Ev) := [\n{}]\n", fn_rows.join(",\n")).unwrap();
    writeln!(out, "/-- every fixed (generator-chosen, call-site) local identifier of the generated code: the name pool of the hygiene probes -/").unwrap();
    writeln!(out, "def localIdents : List String := [{}]\n", locals.iter().map(|s| lean_str(s)).collect::<Vec<_>>().join(", ")).unwrap();
    writeln!(out, "/-- (generator file, private binder family, span constructor) -/").unwrap();
    writeln!(out, "def privateSpans : List (String × String × String) := [{}]\n", priv_spans.join(", ")).unwrap();
    let fmt_api = |v: &Vec<(String, String, String)>| v.iter().map(|(o, t, n)| format!("({}, {}, {})", lean_str(o), lean_str(t), lean_str(n))).collect::<Vec<_>>().join(",\n  ");
    writeln!(out, "/-- (owner, trait, function) of the generated API with `#[soa_derive(Clone)]` / without -/").unwrap();
    writeln!(out, "def apiClone : List (String × String × String) := [\n  {}]\n", fmt_api(&api)).unwrap();
    writeln!(out, "def apiNoClone : List (String × String × String) := [\n  {}]\n\nend Soa.Extracted", fmt_api(&api_nc)).unwrap();
}


// ---------- bodies of the generated functions (text pin of the hand-written model) ----------
/// which property's hand-written model describes a generated function
fn scope_of(file: &str, key: &str, name: &str) -> &'static str {
    let cap = ["new", "with_capacity", "capacity", "reserve", "reserve_exact", "shrink_to_fit"];
    let idx = ["get", "get_unchecked", "index", "get_mut", "get_unchecked_mut", "index_mut"];
    let ptrs = ["as_ptr", "as_mut_ptr", "from_raw_parts", "from_raw_parts_mut"];
    let sorts = ["__private_apply_permutation", "sort_by", "sort_by_key", "sort"];
    if file == "ptr" || ptrs.contains(&name) { "C10" }
    else if idx.contains(&name) { "C04" }
    else if file == "refs" || key == "PVec<Extend<PRef<'a>>>::extend" { "C15" }
    else if name == "to_vec" || name == "from_iter" || key == "PVec<Extend<P>>::extend" { "C01" }
    else if file == "iter" { "C06" }
    else if sorts.contains(&name) { "C07" }
    else if file == "vec" && cap.contains(&name) { "C12" }
    else if file == "vec" && ["as_slice", "as_mut_slice", "slice", "slice_mut"].contains(&name) { "C05" }
    else if file == "vec" { "C01" }
    else { "C05" }
}
fn bodies(out: &mut String) {
    use std::fmt::Write;
    let src = "#[soa_derive(Clone)] pub struct P { pub a: A, #[nested_soa] pub n: N, pub c: C }";
    let ast: syn::DeriveInput = syn::parse_str(src).expect("parse");
    let input = input::Input::new(ast);
    let mut rows: std::collections::BTreeMap<&'static str, Vec<String>> = Default::default();
    let mut seen: std::collections::HashMap<String, usize> = Default::default();
    // the index layer and the trait layer are translated (Index.lean, Generic.lean); here: everything else
    for (file, tstream) in [("vec", vec::derive(&input)), ("refs", refs::derive(&input)), ("ptr", ptr::derive(&input)), ("slice", slice::derive(&input)),
                            ("slice_mut", slice::derive_mut(&input)), ("iter", iter::derive(&input))] {
        let f: syn::File = syn::parse2(tstream).expect("generated code parses");
        for item in &f.items {
            if let Item::Impl(im) = item {
                let owner = ts(&im.self_ty);
                let tr = im.trait_.as_ref().map(|(_, p, _)| format!("<{}>", ts(p))).unwrap_or_default();
                for ii in &im.items {
                    if let ImplItem::Fn(fun) = ii {
                        let mut key = format!("{}{}::{}", owner, tr, fun.sig.ident);
                        let n = seen.entry(key.clone()).or_insert(0); *n += 1;
                        if *n > 1 { key = format!("{}#{}", key, n); }
                        let text = format!("{} {}", flat(fun.sig.to_token_stream()), flat(fun.block.to_token_stream()));
                        let scope = scope_of(file, &key, &fun.sig.ident.to_string());
                        rows.entry(scope).or_default().push(format!("  ({}, {})", lean_str(&key), lean_str(&text)));
                    }
                }
            }
        }
    }
    writeln!(out, "-- generated by /verif/extract from the generator sources in /repo/soa-derive-internal/src (schematic struct P {{ a: A, #[nested_soa] n: N, c: C }}, with the Clone API); do not edit").unwrap();
    writeln!(out, "namespace Soa.Extracted\n").unwrap();
    writeln!(out, "/-! (function, signature and body as one token per word) of every generated function outside the index and trait layers,\n    grouped by the property whose hand-written model describes it -/\n").unwrap();
    for (scope, v) in &rows {
        writeln!(out, "def bodies_{} : List (String × String) := [\n{}]\n", scope, v.join(",\n")).unwrap();
    }
    writeln!(out, "end Soa.Extracted").unwrap();
}

/// write only when the content changed, so that `lake build` re-checks nothing on an unchanged tree
fn write_if_changed(path: &str, content: &str) {
    if std::fs::read_to_string(path).map(|old| old == content).unwrap_or(false) { return; }
    std::fs::write(path, content).expect("write extracted file");
    eprintln!("updated {}", path);
}

fn main() {
    if std::env::args().nth(1).as_deref() == Some("--sigs") { sig_dump(); return; }
    let outdir = std::env::args().nth(1).unwrap_or_else(|| "/verif/lean/Soa/Extracted".into());
    std::fs::create_dir_all(&outdir).unwrap();
    let mut s = String::new();
    index_layer(&mut s);
    write_if_changed(&format!("{}/Index.lean", outdir), &s);
    let mut g = String::new();
    generic_layer(&mut g);
    write_if_changed(&format!("{}/Generic.lean", outdir), &g);
    let mut u = String::new();
    unsafe_sites(&mut u);
    write_if_changed(&format!("{}/Unsafe.lean", outdir), &u);
    let mut z = String::new();
    zip_macro(&mut z);
    write_if_changed(&format!("{}/ZipMacro.lean", outdir), &z);
    let mut d = String::new();
    derive_table(&mut d);
    write_if_changed(&format!("{}/Derive.lean", outdir), &d);
    let mut f = String::new();
    surface_tables(&mut f);
    write_if_changed(&format!("{}/Surface.lean", outdir), &f);
    let mut h = String::new();
    shape_tables(&mut h);
    write_if_changed(&format!("{}/Shape.lean", outdir), &h);
    let mut b = String::new();
    bodies(&mut b);
    write_if_changed(&format!("{}/Bodies.lean", outdir), &b);
    let mut k = String::new();
    skel::skeletons(&mut k);
    write_if_changed(&format!("{}/Skel.lean", outdir), &k);
    let mut l = String::new();
    skel::loops(&mut l);
    write_if_changed(&format!("{}/Loops.lean", outdir), &l);
}
