#![allow(dead_code, clippy::all)]
#[path = "/repo/soa-derive-internal/src/index.rs"] mod index;
#[path = "/repo/soa-derive-internal/src/input.rs"] mod input;
#[path = "/repo/soa-derive-internal/src/iter.rs"] mod iter;
#[path = "/repo/soa-derive-internal/src/ptr.rs"] mod ptr;
#[path = "/repo/soa-derive-internal/src/refs.rs"] mod refs;
#[path = "/repo/soa-derive-internal/src/slice.rs"] mod slice;
#[path = "/repo/soa-derive-internal/src/vec.rs"] mod vec;
#[path = "/repo/soa-derive-internal/src/generic.rs"] mod generic;
#[path = "/repo/soa-derive-internal/src/names.rs"] pub(crate) mod names;

use quote::ToTokens;
use syn::{Expr, ImplItem, Item, Type};

fn ts(t: &impl ToTokens) -> String { t.to_token_stream().to_string().replace(' ', "") }

// ---------- arithmetic ----------
fn arith(e: &Expr) -> String {
    match e {
        Expr::Paren(p) => arith(&p.expr),
        Expr::Lit(l) => format!("(.lit {})", ts(l)),
        Expr::Binary(b) if matches!(b.op, syn::BinOp::Add(_)) => format!("(.add {} {})", arith(&b.left), arith(&b.right)),
        Expr::Unary(u) if matches!(u.op, syn::UnOp::Deref(_)) => arith(&u.expr),
        _ => {
            let s = ts(e);
            match s.as_str() {
                "self" => ".self".into(),
                "self.start" | "self.start()" => ".start".into(),
                "self.end" | "self.end()" => ".end_".into(),
                "usize::MAX" => ".max".into(),
                "soa.len()" | "slice.len()" => ".lenChecked".into(),
                _ if s.starts_with("slice.") && s.ends_with(".len()") => ".lenFirst".into(),
                _ => format!("(.opaque \"{}\")", s),
            }
        }
    }
}
fn cond(e: &Expr) -> String {
    match e {
        Expr::Paren(p) => cond(&p.expr),
        Expr::Binary(b) => {
            let (l, r) = (&b.left, &b.right);
            match b.op {
                syn::BinOp::And(_) => format!("(.and {} {})", cond(l), cond(r)),
                syn::BinOp::Lt(_) => format!("(.lt {} {})", arith(l), arith(r)),
                syn::BinOp::Le(_) => format!("(.le {} {})", arith(l), arith(r)),
                syn::BinOp::Eq(_) => format!("(.eq {} {})", arith(l), arith(r)),
                _ => format!("(.opaque \"{}\")", ts(e)),
            }
        }
        _ => format!("(.opaque \"{}\")", ts(e)),
    }
}
fn idx(e: &Expr) -> String {
    match e {
        Expr::Range(r) => {
            let a = r.start.as_ref().map(|x| arith(x)).unwrap_or(".none".into());
            let b = r.end.as_ref().map(|x| arith(x)).unwrap_or(".none".into());
            match r.limits { syn::RangeLimits::HalfOpen(_) => format!("(.range {} {})", a, b), syn::RangeLimits::Closed(_) => format!("(.rangeIncl {} {})", a, b) }
        }
        _ => { let s = ts(e); if s == "self" || s == "self.clone()" { ".self".into() } else { format!("(.opaque \"{}\")", s) } }
    }
}
fn cont(e: &Expr) -> Option<&'static str> {
    match ts(e).as_str() { "soa" | "slice" => Some(".same"), "soa.as_slice()" => Some(".asSlice"), "soa.as_mut_slice()" => Some(".asMutSlice"), _ => None }
}
fn body(e: &Expr) -> String {
    match e {
        Expr::Block(b) => block(&b.block),
        Expr::Unsafe(u) => block(&u.block),
        Expr::Paren(p) => body(&p.expr),
        Expr::If(i) => {
            let els = i.else_branch.as_ref().map(|(_, e)| body(e)).unwrap_or(".unit".into());
            format!("(.ite {} {} {})", cond(&i.cond), block(&i.then_branch), els)
        }
        Expr::Path(p) if ts(p) == "None" => ".none".into(),
        Expr::Call(c) => {
            let f = ts(&c.func);
            let args: Vec<&Expr> = c.args.iter().collect();
            if f == "Some" && args.len() == 1 { return format!("(.some {})", body(args[0])); }
            for (pre, _) in [("::soa_derive::SoAIndex::", 0), ("::soa_derive::SoAIndexMut::", 1)] {
                if let Some(m) = f.strip_prefix(pre) {
                    if args.len() == 2 { if let Some(k) = cont(args[1]) { return format!("(.call .{} {} {})", camel(m), idx(args[0]), k); } }
                }
            }
            format!("(.opaque \"{}\")", ts(e))
        }
        Expr::Struct(s) => {
            // per-field builder: classify every field initialiser, require uniformity
            let mut leaf: Option<String> = None; let mut nested: Option<String> = None; let mut bad = false;
            for f in &s.fields {
                let k = field_acc(&f.expr);
                if let Some(m) = k.strip_prefix(".nested ") { if nested.get_or_insert(m.to_string()) != m { bad = true } }
                else if k.starts_with("(.opaque") { bad = true }
                else if leaf.get_or_insert(k.clone()) != &k { bad = true }
            }
            match (bad, leaf, nested) {
                (false, Some(l), Some(n)) => format!("(.build {} {})", l, n),
                _ => format!("(.opaque \"{}\")", ts(e)),
            }
        }
        _ => if let Some(k) = cont(e) { format!("(.cont {})", k) } else { format!("(.opaque \"{}\")", ts(e)) },
    }
}
fn field_acc(e: &Expr) -> String {
    let s = ts(e);
    // nested: ::soa_derive::SoAIndex::m(self.clone(), slice.f)
    for pre in ["::soa_derive::SoAIndex::", "::soa_derive::SoAIndexMut::"] {
        if let Some(rest) = s.strip_prefix(pre) {
            if let Some(p) = rest.find('(') { let m = &rest[..p]; if rest[p..].starts_with("(self.clone(),slice.") { return format!(".nested .{}", camel(m)); } }
        }
    }
    if s.starts_with("slice.") && s.ends_with(".get_unchecked(self.clone())") { return ".leafUnchecked".into(); }
    if s.starts_with("slice.") && s.ends_with(".get_unchecked_mut(self.clone())") { return ".leafUncheckedMut".into(); }
    if s.starts_with("&slice.") && s.ends_with("[self.clone()]") { return ".leafIndex".into(); }
    if s.starts_with("&mutslice.") && s.ends_with("[self.clone()]") { return ".leafIndexMut".into(); }
    format!("(.opaque \"{}\")", s)
}
fn camel(m: &str) -> String {
    let mut out = String::new(); let mut up = false;
    for ch in m.chars() { if ch == '_' { up = true } else if up { out.push(ch.to_ascii_uppercase()); up = false } else { out.push(ch) } }
    out
}
fn is_panic_block(b: &syn::Block) -> bool {
    b.stmts.len() == 1 && match &b.stmts[0] {
        syn::Stmt::Macro(m) => m.mac.path.is_ident("panic"),
        syn::Stmt::Expr(Expr::Macro(m), _) => m.mac.path.is_ident("panic"),
        _ => false,
    }
}
fn block(b: &syn::Block) -> String {
    if b.stmts.len() == 1 { if let syn::Stmt::Expr(e, None) = &b.stmts[0] { return body(e); } }
    // `if c { panic!(..) }` followed by the result expression
    if b.stmts.len() == 2 {
        if let (syn::Stmt::Expr(Expr::If(i), _), syn::Stmt::Expr(e, None)) = (&b.stmts[0], &b.stmts[1]) {
            if i.else_branch.is_none() && is_panic_block(&i.then_branch) {
                return format!("(.ite {} .panic {})", cond(&i.cond), body(e));
            }
        }
    }
    format!("(.opaque \"{}\")", ts(b))
}
fn container_kind(t: &Type, vec: &str) -> String {
    let s = ts(t);
    if s == format!("&'a{}", vec) { "vecRef".into() } else if s == format!("&'amut{}", vec) { "vecMut".into() }
    else if s.contains("SliceMut<") { "sliceMut".into() } else if s.contains("Slice<") { "slice".into() } else { format!("unknown_{}", s) }
}
fn idx_form(t: &Type) -> String {
    let s = ts(t);
    match s.as_str() { "usize" => "pos", "::std::ops::Range<usize>" => "range", "::std::ops::RangeTo<usize>" => "rangeTo", "::std::ops::RangeFrom<usize>" => "rangeFrom",
        "::std::ops::RangeFull" => "rangeFull", "::std::ops::RangeInclusive<usize>" => "rangeIncl", "::std::ops::RangeToInclusive<usize>" => "rangeToIncl", _ => "unknownForm" }.into()
}

fn index_layer(out: &mut String) {
    use std::fmt::Write;
    let src = "pub struct P { pub a: A, #[nested_soa] pub n: N, pub c: C }";
    let ast: syn::DeriveInput = syn::parse_str(src).expect("parse");
    let input = input::Input::new(ast);
    let file: syn::File = syn::parse2(index::derive(&input)).expect("index parses");
    writeln!(out, "-- generated by /verif/extract from /repo/soa-derive-internal/src/index.rs; do not edit").unwrap();
    writeln!(out, "import Soa.Model.Index\nnamespace Soa.Extracted\nopen Soa.IdxIR\n").unwrap();
    let mut keys = Vec::new();
    for item in &file.items {
        if let Item::Impl(im) = item {
            let (_, path, _) = im.trait_.as_ref().expect("trait impl");
            let seg = path.segments.last().unwrap();
            let targ = match &seg.arguments { syn::PathArguments::AngleBracketed(a) => match a.args.first().unwrap() { syn::GenericArgument::Type(t) => t.clone(), _ => panic!() }, _ => panic!() };
            let ck = container_kind(&targ, "PVec");
            let form = idx_form(&im.self_ty);
            for ii in &im.items {
                if let ImplItem::Fn(f) = ii {
                    let name = format!("{}_{}_{}", ck, form, camel(&f.sig.ident.to_string()));
                    writeln!(out, "def {} : B := {}", name, block(&f.block)).unwrap();
                    keys.push((ck.clone(), form.clone(), camel(&f.sig.ident.to_string()), name));
                }
            }
        }
    }
    writeln!(out, "\ndef table : Kind → Form → M → Option B").unwrap();
    for (ck, form, m, name) in &keys { writeln!(out, "  | .{}, .{}, .{} => some {}", ck, form, m, name).unwrap(); }
    writeln!(out, "  | _, _, _ => none\n").unwrap();
    for (ck, form, m, name) in &keys { writeln!(out, "theorem table_{} : table .{} .{} .{} = some {} := rfl", name, ck, form, m, name).unwrap(); }
    writeln!(out, "\n/-- number of extracted functions and of terms the translator could not express -/").unwrap();
    let opaque = out.matches(".opaque").count();
    writeln!(out, "def nFunctions : Nat := {}\ndef nOpaque : Nat := {}\n\nend Soa.Extracted", keys.len(), opaque).unwrap();
}

/// write only when the content changed, so that `lake build` re-checks nothing on an unchanged tree
fn write_if_changed(path: &str, content: &str) {
    if std::fs::read_to_string(path).map(|old| old == content).unwrap_or(false) { return; }
    std::fs::write(path, content).expect("write extracted file");
    eprintln!("updated {}", path);
}

fn main() {
    let outdir = std::env::args().nth(1).unwrap_or_else(|| "/verif/lean/Soa/Extracted".into());
    std::fs::create_dir_all(&outdir).unwrap();
    let mut s = String::new();
    index_layer(&mut s);
    write_if_changed(&format!("{}/Index.lean", outdir), &s);
}
