//! Scenario interpreter: runs every line on the generated SoA code (side 0, `I` lines) and on
//! a real std mirror `Vec<T>` / slice / iterator (side 1, `S` lines).
#![allow(clippy::all)]
use crate::payload::*;
use crate::shapes::*;
use std::fmt::Write as _;
use std::panic::{catch_unwind, AssertUnwindSafe};

pub const NREG: usize = 3;

thread_local! { pub static LIVE: std::cell::Cell<bool> = const { std::cell::Cell::new(false) }; }
/// append an observation line; in live mode (isolated re-run after a crash) also print it at once, so that the
/// lines before an abort (std's non-unwinding UB check in debug builds) are not lost
pub fn emit(out: &mut String, line: String) {
    if LIVE.with(|l| l.get()) { use std::io::Write; let so = std::io::stdout(); let mut l = so.lock(); let _ = writeln!(l, "{}", line); let _ = l.flush(); }
    else { out.push_str(&line); out.push('\n'); }
}

pub fn fmt_cols(c: &[Vec<u32>]) -> String { format!("{:?}", c).replace(' ', "") }
pub fn fmt_ids(c: &[u32]) -> String { format!("{:?}", c).replace(' ', "") }
pub fn fmt_ev(e: &[String]) -> String { format!("[{}]", e.join(",")) }

/// something an operation hands back to the caller: rendered, then dropped (events recorded apart)
pub trait Ret { fn repr(&self) -> String; }
impl Ret for () { fn repr(&self) -> String { "-".into() } }
impl Ret for String { fn repr(&self) -> String { self.clone() } }
impl Ret for usize { fn repr(&self) -> String { self.to_string() } }
impl Ret for bool { fn repr(&self) -> String { self.to_string() } }
pub struct El<T: Shape>(pub T);
impl<T: Shape> Ret for El<T> { fn repr(&self) -> String { let mut o = vec![]; self.0.ids(&mut o); fmt_ids(&o) } }
pub struct OptEl<T: Shape>(pub Option<T>);
impl<T: Shape> Ret for OptEl<T> {
    fn repr(&self) -> String { match &self.0 { Some(e) => { let mut o = vec![]; e.ids(&mut o); format!("some{}", fmt_ids(&o)) } None => "none".into() } }
}

thread_local! { pub static ARM: std::cell::Cell<Option<(bool, i64)>> = const { std::cell::Cell::new(None) }; }

pub fn exec<R: Ret>(side: usize, f: impl FnOnce() -> R) -> String {
    set_side(side);
    arm_clone_fuse(-1); arm_cmp_fuse(-1);
    match ARM.with(|a| a.get()) { Some((true, k)) => arm_clone_fuse(k), Some((false, k)) => arm_cmp_fuse(k), None => {} }
    let f = move || { let r = f(); arm_clone_fuse(-1); arm_cmp_fuse(-1); r };
    let r = catch_unwind(AssertUnwindSafe(f));
    let ev = take_events(side);
    match r {
        Ok(v) => {
            let s = v.repr();
            drop(v);
            let rev = take_events(side);
            format!("ok ret={} rev={} ev={}", s, fmt_ev(&rev), fmt_ev(&ev))
        }
        Err(_) => format!("panic ret=- rev=[] ev={}", fmt_ev(&ev)),
    }
}

pub fn two_mut<T>(v: &mut [T], i: usize, j: usize) -> (&mut T, &mut T) {
    assert!(i != j);
    if i < j { let (a, b) = v.split_at_mut(j); (&mut a[i], &mut b[0]) } else { let (a, b) = v.split_at_mut(i); (&mut b[0], &mut a[j]) }
}

pub fn transpose(rows: &[Vec<u32>], ncol: usize) -> Vec<Vec<u32>> {
    (0..ncol).map(|c| rows.iter().map(|r| r[c]).collect()).collect()
}
pub fn mirror_cols<T: Shape>(m: &[T]) -> Vec<Vec<u32>> {
    let rows: Vec<Vec<u32>> = m.iter().map(|e| { let mut o = vec![]; e.ids(&mut o); o }).collect();
    transpose(&rows, T::nleaves())
}

pub fn parse_list(s: &str) -> Vec<usize> {
    if s.is_empty() || s == "-" { return vec![]; }
    s.split(',').map(|x| x.parse().unwrap()).collect()
}
/// `key=value` lookup in the words of a line
pub fn kv<'a>(w: &[&'a str], key: &str) -> Option<&'a str> {
    w.iter().find_map(|x| x.strip_prefix(key).and_then(|r| r.strip_prefix('=')))
}
pub fn reg(s: &str) -> usize { s.strip_prefix('r').expect("register").parse().expect("register") }

/// callback state shared by retain / retain_mut on both sides
pub struct Cb { pub k: usize, pub mask: Vec<bool>, pub panic_at: Option<usize>, pub visits: Vec<Vec<u32>> }
impl Cb {
    pub fn new(w: &[&str]) -> Cb {
        Cb { k: 0, mask: kv(w, "keep").unwrap_or("").chars().map(|c| c == '1').collect(),
             panic_at: kv(w, "panic").map(|x| x.parse().unwrap()), visits: vec![] }
    }
    pub fn call(&mut self, ids: Vec<u32>) -> bool {
        let k = self.k; self.k += 1; self.visits.push(ids);
        if self.panic_at == Some(k) { panic!("callback fuse") }
        *self.mask.get(k).unwrap_or(&true)
    }
}



/// dispatch through the generic traits only: every function here is bounded by a trait of
/// `soa_derive` and nothing else, so the call resolves to the trait impl (or a provided method)
pub mod tr {
    use soa_derive::{SoASlice, SoASliceMut, SoAVec, StructOfArray, ToSoAVec, SoAAppendVec};
    use std::ops::Bound;
    pub fn push<T: StructOfArray, V: SoAVec<T>>(v: &mut V, e: T) { v.push(e) }
    pub fn pop<T: StructOfArray, V: SoAVec<T>>(v: &mut V) -> Option<T> { v.pop() }
    pub fn insert<T: StructOfArray, V: SoAVec<T>>(v: &mut V, i: usize, e: T) { v.insert(i, e) }
    pub fn remove<T: StructOfArray, V: SoAVec<T>>(v: &mut V, i: usize) -> T { v.remove(i) }
    pub fn swap_remove<T: StructOfArray, V: SoAVec<T>>(v: &mut V, i: usize) -> T { v.swap_remove(i) }
    pub fn replace<T: StructOfArray, V: SoAVec<T>>(v: &mut V, i: usize, e: T) -> T { v.replace(i, e) }
    pub fn truncate<T: StructOfArray, V: SoAVec<T>>(v: &mut V, n: usize) { v.truncate(n) }
    pub fn clear<T: StructOfArray, V: SoAVec<T>>(v: &mut V) { v.clear() }
    pub fn append<T: StructOfArray, V: SoAVec<T>>(v: &mut V, o: &mut V) { v.append(o) }
    pub fn split_off<T: StructOfArray, V: SoAVec<T>>(v: &mut V, at: usize) -> V { v.split_off(at) }
    pub fn new<T: StructOfArray, V: SoAVec<T>>() -> V { V::new() }
    pub fn with_capacity<T: StructOfArray, V: SoAVec<T>>(n: usize) -> V { V::with_capacity(n) }
    pub fn capacity<T: StructOfArray, V: SoAVec<T>>(v: &V) -> usize { v.capacity() }
    pub fn reserve<T: StructOfArray, V: SoAVec<T>>(v: &mut V, n: usize) { v.reserve(n) }
    pub fn reserve_exact<T: StructOfArray, V: SoAVec<T>>(v: &mut V, n: usize) { v.reserve_exact(n) }
    pub fn shrink_to_fit<T: StructOfArray, V: SoAVec<T>>(v: &mut V) { v.shrink_to_fit() }
    pub fn vlen<T: StructOfArray, V: SoAVec<T>>(v: &V) -> (usize, bool) { (v.len(), v.is_empty()) }
    pub fn slen<T: StructOfArray, S: SoASlice<T>>(v: &S) -> (usize, bool) { (v.len(), v.is_empty()) }
    pub fn smlen<T: StructOfArray, S: SoASliceMut<T>>(v: &S) -> (usize, bool) { (v.len(), v.is_empty()) }
    // element access (usize only in the traits) and the provided first/last
    pub fn vget<T: StructOfArray, V: SoAVec<T>>(v: &V, i: usize) -> Option<V::Ref<'_>> { v.get(i) }
    pub fn vindex<T: StructOfArray, V: SoAVec<T>>(v: &V, i: usize) -> V::Ref<'_> { v.index(i) }
    pub fn vget_mut<T: StructOfArray, V: SoAVec<T>>(v: &mut V, i: usize) -> Option<V::RefMut<'_>> { v.get_mut(i) }
    pub fn vindex_mut<T: StructOfArray, V: SoAVec<T>>(v: &mut V, i: usize) -> V::RefMut<'_> { v.index_mut(i) }
    pub fn vfirst<T: StructOfArray, V: SoAVec<T>>(v: &V) -> Option<V::Ref<'_>> { v.first() }
    pub fn vlast<T: StructOfArray, V: SoAVec<T>>(v: &V) -> Option<V::Ref<'_>> { v.last() }
    pub fn vfirst_mut<T: StructOfArray, V: SoAVec<T>>(v: &mut V) -> Option<V::RefMut<'_>> { v.first_mut() }
    pub fn vlast_mut<T: StructOfArray, V: SoAVec<T>>(v: &mut V) -> Option<V::RefMut<'_>> { v.last_mut() }
    pub fn sget<T: StructOfArray, S: SoASlice<T>>(v: &S, i: usize) -> Option<S::Ref<'_>> { v.get(i) }
    pub fn sindex<T: StructOfArray, S: SoASlice<T>>(v: &S, i: usize) -> S::Ref<'_> { v.index(i) }
    pub fn sfirst<T: StructOfArray, S: SoASlice<T>>(v: &S) -> Option<S::Ref<'_>> { v.first() }
    pub fn slast<T: StructOfArray, S: SoASlice<T>>(v: &S) -> Option<S::Ref<'_>> { v.last() }
    pub fn smget<T: StructOfArray, S: SoASliceMut<T>>(v: &S, i: usize) -> Option<S::Ref<'_>> { v.get(i) }
    pub fn smindex<T: StructOfArray, S: SoASliceMut<T>>(v: &S, i: usize) -> S::Ref<'_> { v.index(i) }
    pub fn smfirst<T: StructOfArray, S: SoASliceMut<T>>(v: &S) -> Option<S::Ref<'_>> { v.first() }
    pub fn smlast<T: StructOfArray, S: SoASliceMut<T>>(v: &S) -> Option<S::Ref<'_>> { v.last() }
    pub fn smget_mut<T: StructOfArray, S: SoASliceMut<T>>(v: &mut S, i: usize) -> Option<S::RefMut<'_>> { v.get_mut(i) }
    pub fn smindex_mut<T: StructOfArray, S: SoASliceMut<T>>(v: &mut S, i: usize) -> S::RefMut<'_> { v.index_mut(i) }
    pub fn smfirst_mut<T: StructOfArray, S: SoASliceMut<T>>(v: &mut S) -> Option<S::RefMut<'_>> { v.first_mut() }
    pub fn smlast_mut<T: StructOfArray, S: SoASliceMut<T>>(v: &mut S) -> Option<S::RefMut<'_>> { v.last_mut() }
    // range-bounds slicing
    pub fn vslice<T: StructOfArray, V: SoAVec<T>>(v: &V, b: (Bound<usize>, Bound<usize>)) -> V::Slice<'_> { v.slice(b) }
    pub fn vslice_mut<T: StructOfArray, V: SoAVec<T>>(v: &mut V, b: (Bound<usize>, Bound<usize>)) -> V::SliceMut<'_> { v.slice_mut(b) }
    pub fn sslice<T: StructOfArray, S: SoASlice<T>>(v: &S, b: (Bound<usize>, Bound<usize>)) -> S::Slice<'_> { v.slice(b) }
    pub fn smslice<T: StructOfArray, S: SoASliceMut<T>>(v: &S, b: (Bound<usize>, Bound<usize>)) -> S::Slice<'_> { v.slice(b) }
    pub fn smslice_mut<T: StructOfArray, S: SoASliceMut<T>>(v: &mut S, b: (Bound<usize>, Bound<usize>)) -> S::SliceMut<'_> { v.slice_mut(b) }
    pub fn vas_slice<T: StructOfArray, V: SoAVec<T>>(v: &V) -> V::Slice<'_> { v.as_slice() }
    pub fn vas_mut_slice<T: StructOfArray, V: SoAVec<T>>(v: &mut V) -> V::SliceMut<'_> { v.as_mut_slice() }
    pub fn sas_slice<T: StructOfArray, S: SoASlice<T>>(v: &S) -> S::Slice<'_> { v.as_slice() }
    pub fn smas_slice<T: StructOfArray, S: SoASliceMut<T>>(v: &S) -> S::Slice<'_> { v.as_slice() }
    pub fn smas_mut_slice<T: StructOfArray, S: SoASliceMut<T>>(v: &mut S) -> S::SliceMut<'_> { v.as_mut_slice() }
    // iteration, sorting
    pub fn viter<T: StructOfArray, V: SoAVec<T>>(v: &V) -> V::Iter<'_> { v.iter() }
    pub fn viter_mut<T: StructOfArray, V: SoAVec<T>>(v: &mut V) -> V::IterMut<'_> { v.iter_mut() }
    pub fn siter<T: StructOfArray, S: SoASlice<T>>(v: &S) -> S::Iter<'_> { v.iter() }
    pub fn smiter<T: StructOfArray, S: SoASliceMut<T>>(v: &S) -> S::Iter<'_> { v.iter() }
    pub fn smiter_mut<T: StructOfArray, S: SoASliceMut<T>>(v: &mut S) -> S::IterMut<'_> { v.iter_mut() }
    pub fn vapply_index<T: StructOfArray, V: SoAVec<T>>(v: &mut V, idx: &[usize]) { v.apply_index(idx) }
    pub fn smapply_index<T: StructOfArray, S: SoASliceMut<T>>(v: &mut S, idx: &[usize]) { v.apply_index(idx) }
    pub fn to_vec<T: StructOfArray, S: ToSoAVec<T>>(s: &S) -> S::SoAVecType { s.to_vec() }
    pub fn extend_from_slice<'a, T: StructOfArray, V: SoAAppendVec<T>>(v: &mut V, o: V::Slice<'a>) { v.extend_from_slice(o) }
}

pub fn parse_bound(s: &str) -> std::ops::Bound<usize> {
    if s == "unb" { return std::ops::Bound::Unbounded; }
    let (k, v) = s.split_once(':').expect("bound");
    let v: usize = v.parse().expect("bound value");
    match k { "inc" => std::ops::Bound::Included(v), "exc" => std::ops::Bound::Excluded(v), _ => panic!("bad bound") }
}


// ---------------------------------------------------------------- view paths on the std mirror
fn tok3(t: &str) -> (&str, usize, usize) {
    let mut it = t.split(':');
    let name = it.next().unwrap();
    let a = it.next().map(|x| x.parse().unwrap_or(usize::MAX - 7)).unwrap_or(0);
    let b = it.next().map(|x| x.parse().unwrap_or(usize::MAX - 7)).unwrap_or(0);
    (name, a, b)
}
fn tokw(t: &str) -> Option<(usize, i64, u32)> {
    // write:pos:leaf:tag
    let v: Vec<&str> = t.split(':').collect();
    if v[0] != "write" { return None; }
    Some((v[1].parse().unwrap(), v[2].parse().unwrap(), v[3].parse().unwrap()))
}
pub fn el_ids<T: Shape>(e: &T) -> String { let mut o = vec![]; e.ids(&mut o); fmt_ids(&o) }
pub fn spath_std<T: Shape>(mut s: &[T], toks: &[&str]) -> String {
    for (n, t) in toks.iter().enumerate() {
        let (name, a, b) = tok3(t);
        let side = t.rsplit(':').next().unwrap();
        match name {
            "split_at" => { let (l, r) = s.split_at(a); s = if b == 0 { l } else { r }; }
            "split_first" => match s.split_first() { Some((e, rest)) => { if side == "elem" { return format!("some{}", el_ids(e)); } s = rest; } None => return "none".into() },
            "split_last" => match s.split_last() { Some((e, rest)) => { if side == "elem" { return format!("some{}", el_ids(e)); } s = rest; } None => return "none".into() },
            "range" => { s = &s[a..b]; }
            "rangeto" => { s = &s[..a]; }
            "rangefrom" => { s = &s[a..]; }
            // the Option-returning accessor with a range: `None` ends the walk
            "getr" => match s.get(a..b) { Some(x) => { s = x; } None => return "none".into() },
            "incl" => { s = &s[a..=b]; }
            "first" => return match s.first() { Some(e) => format!("some{}", el_ids(e)), None => "none".into() },
            "last" => return match s.last() { Some(e) => format!("some{}", el_ids(e)), None => "none".into() },
            "get" => return match s.get(a) { Some(e) => format!("some{}", el_ids(e)), None => "none".into() },
            "idx" => return el_ids(&s[a]),
            "reborrow" | "as_ref" | "as_slice" => { let _ = n; }
            _ => panic!("bad view token {}", t),
        }
    }
    fmt_cols(&mirror_cols(s))
}
pub fn mpath_std<T: Shape>(s: &mut [T], toks: &[&str]) -> String {
    if toks.is_empty() { return fmt_cols(&mirror_cols(s)); }
    let t = toks[0]; let rest = &toks[1..];
    if let Some((pos, leaf, tag)) = tokw(t) {
        return match s.get_mut(pos) { Some(e) => { let mut j = leaf; T::own_write(e, &mut j, tag * 8 + leaf as u32); "written".into() } None => "nowrite".into() };
    }
    let (name, a, b) = tok3(t);
    let side = t.rsplit(':').next().unwrap();
    let welem = |e: &mut T, rest: &[&str]| -> String {
        if let Some(Some((_, leaf, tag))) = rest.first().map(|x| tokw(x)) { let mut j = leaf; T::own_write(e, &mut j, tag * 8 + leaf as u32); "written".into() } else { format!("some{}", el_ids(e)) }
    };
    match name {
        "split_at" => { let (l, r) = s.split_at_mut(a); mpath_std(if b == 0 { l } else { r }, rest) }
        "split_first" => match s.split_first_mut() { Some((e, r)) => if side == "elem" { welem(e, rest) } else { mpath_std(r, rest) }, None => "none".into() },
        "split_last" => match s.split_last_mut() { Some((e, r)) => if side == "elem" { welem(e, rest) } else { mpath_std(r, rest) }, None => "none".into() },
        "range" => mpath_std(&mut s[a..b], rest),
        "rangeto" => mpath_std(&mut s[..a], rest),
        "rangefrom" => mpath_std(&mut s[a..], rest),
        "getr" => match s.get_mut(a..b) { Some(x) => mpath_std(x, rest), None => "none".into() },
        "incl" => mpath_std(&mut s[a..=b], rest),
        "first" => match s.first_mut() { Some(e) => welem(e, rest), None => "none".into() },
        "last" => match s.last_mut() { Some(e) => welem(e, rest), None => "none".into() },
        "get" => match s.get_mut(a) { Some(e) => welem(e, rest), None => "none".into() },
        "idx" => { let e = &mut s[a]; if let Some(Some((_, leaf, tag))) = rest.first().map(|x| tokw(x)) { let mut j = leaf; T::own_write(e, &mut j, tag * 8 + leaf as u32); "written".into() } else { el_ids(e) } }
        "reborrow" | "rebdrop" | "peek" => mpath_std(s, rest),
        "as_ref" | "as_slice" => spath_std(s, rest),
        _ => panic!("bad view token {}", t),
    }
}


// ---------------------------------------------------------------- iterators, sorting, pointers on the std mirror
/// drive a double-ended exact-size iterator by a step string: F next, B next_back, L len, H size_hint,
/// N nth(1), Z nth(1000), R nth_back(1), T last(), C count()
/// `inb=false` marker for an iterator transcript: more elements were handed out than the shortest field array holds
/// (only possible on a desynchronised container: the element then lies beyond that array's length)
pub fn iter_oob(transcript: &str, minlen: usize) -> &'static str {
    let yielded = transcript.split(',').filter(|t| { let t = t.trim(); !t.is_empty() && !t.ends_with("none") && matches!(t.as_bytes()[0], b'F' | b'B' | b'N' | b'Z' | b'R' | b'T') }).count();
    if yielded > minlen { " inb=false" } else { "" }
}
pub fn drive<I, X>(mut it: I, steps: &str, mut show: impl FnMut(X, usize) -> String) -> String
where I: DoubleEndedIterator<Item = X> + ExactSizeIterator {
    let mut out: Vec<String> = vec![]; let mut k = 0usize;
    for c in steps.chars() {
        match c {
            // internal iteration, consuming the iterator itself (so that an override of `fold` / `rfold` by the generated
            // iterator is what runs): X = fold, Y = rfold, V = rev().for_each (= rfold through `Rev`); the rest of the steps is ignored
            'X' => { it.fold((), |(), x| { out.push(format!("F{}", show(x, k))); k += 1; }); return out.join(",") }
            'Y' => { it.rfold((), |(), x| { out.push(format!("B{}", show(x, k))); k += 1; }); return out.join(",") }
            'V' => { it.rev().for_each(|x| { out.push(format!("B{}", show(x, k))); k += 1; }); return out.join(",") }
            // the reversed iterator (method syntax `.rev()`), stepped from both of ITS ends alternately until exhausted:
            // its `next` is the original's `next_back` and vice versa
            'W' => { let mut rv = it.rev(); let mut front = true;
                loop { let y = if front { rv.next() } else { rv.next_back() };
                    match y { Some(x) => { out.push(format!("{}{}", if front { "B" } else { "F" }, show(x, k))); k += 1; } None => break }
                    front = !front; }
                return out.join(",") }
            'F' => out.push(match it.next() { Some(x) => { let s = format!("F{}", show(x, k)); k += 1; s } None => "Fnone".into() }),
            'B' => out.push(match it.next_back() { Some(x) => { let s = format!("B{}", show(x, k)); k += 1; s } None => "Bnone".into() }),
            // adaptor-style consumption: nth / nth_back (in range and overshooting), last, count
            'N' => out.push(match it.nth(1) { Some(x) => { let s = format!("N{}", show(x, k)); k += 1; s } None => "Nnone".into() }),
            'Z' => out.push(match it.nth(1000) { Some(x) => { let s = format!("Z{}", show(x, k)); k += 1; s } None => "Znone".into() }),
            'R' => out.push(match it.nth_back(1) { Some(x) => { let s = format!("R{}", show(x, k)); k += 1; s } None => "Rnone".into() }),
            'T' => out.push(match it.by_ref().last() { Some(x) => { let s = format!("T{}", show(x, k)); k += 1; s } None => "Tnone".into() }),
            'C' => out.push(format!("C{}", it.by_ref().count())),
            'L' => out.push(format!("L{}", it.len())),
            'H' => { let (lo, hi) = it.size_hint(); out.push(format!("H{}:{}", lo, hi.map(|x| x.to_string()).unwrap_or("inf".into()))) }
            _ => panic!("bad iterator step"),
        }
    }
    out.join(",")
}
pub fn key_leaf<T: Shape>() -> usize { let mut d = String::new(); T::desc(&mut d); d.chars().filter(|c| "zbslhp".contains(*c)).position(|c| c != 'z').unwrap_or(0) }
/// gather `new[i] = old[p[i]]` on the mirror (what `apply_index` must do)
pub fn gather<T>(v: &mut Vec<T>, p: &[usize]) {
    assert!(p.len() == v.len());
    let mut seen = vec![false; p.len()];
    for &i in p { assert!(i < p.len() && !seen[i], "not a permutation"); seen[i] = true; }
    let mut slots: Vec<Option<T>> = std::mem::take(v).into_iter().map(Some).collect();
    for &i in p { v.push(slots[i].take().unwrap()); }
}
pub struct SortCb { pub k: usize, pub panic_at: Option<usize>, pub modulus: u32 }
impl SortCb {
    pub fn new(w: &[&str]) -> SortCb { SortCb { k: 0, panic_at: kv(w, "panic").map(|x| x.parse().unwrap()), modulus: kv(w, "mod").map(|x| x.parse().unwrap()).unwrap_or(4) } }
    pub fn key(&mut self, id: u32) -> u32 { let k = self.k; self.k += 1; if self.panic_at == Some(k) { panic!("callback fuse") } (id / 8) % self.modulus }
}

/// is every leaf span of `child` inside the corresponding leaf span of `parent`
/// (spans: base address, length, element size), element-aligned
pub fn within(parent: &[(usize, usize, usize)], child: &[(usize, usize, usize)]) -> bool {
    if parent.len() != child.len() { return false; }
    parent.iter().zip(child).all(|(p, c)| {
        if p.2 == 0 { return c.1 <= p.1; }
        c.0 >= p.0 && c.0 + c.1 * c.2 <= p.0 + p.1 * p.2 && (c.0 - p.0) % p.2 == 0
    })
}
pub fn ref_spans<T: Shape>(addrs: &[usize], parent: &[(usize, usize, usize)]) -> Vec<(usize, usize, usize)> {
    addrs.iter().zip(parent).map(|(a, p)| (*a, 1, p.2)).collect()
}
/// an exhausted `RangeInclusive` (`b..=b` after one `next()`): std indexing treats it as the empty range at `b + 1`
pub fn exhausted(b: usize) -> std::ops::RangeInclusive<usize> { let mut r = b..=b; r.next(); r }

/// expand an expression once per index form (the seven `SliceIndex` types)
#[macro_export]
macro_rules! by_form {
    ($form:expr, $a:expr, $b:expr, $ex:expr, $idx:ident => pos: $pos:expr, range: $rng:expr) => {
        match $form {
            "pos" => { let $idx = $a; $pos }
            "range" => { let $idx = $a..$b; $rng }
            "rangeto" => { let $idx = ..$b; $rng }
            "rangefrom" => { let $idx = $a..; $rng }
            "full" => { let $idx = ..; $rng }
            "incl" => { let $idx = if $ex { exhausted($b) } else { $a..=$b }; $rng }
            "toincl" => { let $idx = ..=$b; $rng }
            _ => panic!("bad index form"),
        }
    };
}

#[macro_export]
macro_rules! interp {
    ($run:ident, $T:ident, $V:ident, $S:ident, $SM:ident, $R:ident, $RM:ident, $P:ident, $PM:ident, $IT:ident, $ITM:ident, $cl:tt) => {
        #[allow(unused_variables, unused_mut, unreachable_code)]
        pub fn $run(lines: &[&str], out: &mut String) {
            use soa_derive::*;
            type T = $T;
            fn rids_s(x: &$R<'_>) -> String { let mut o = vec![]; <T as Shape>::rids(x, &mut o); fmt_ids(&o) }
            fn rmids_s(x: &$RM<'_>) -> String { let mut o = vec![]; <T as Shape>::rmids(x, &mut o); fmt_ids(&o) }
            /// a path of view operations on a shared slice (views are `Copy`; `reborrow` recurses because it shortens the lifetime)
            fn spath<'a>(mut s: $S<'a>, toks: &[&str]) -> String {
                for (n, t) in toks.iter().enumerate() {
                    let (name, a, b) = tok3(t);
                    let side = t.rsplit(':').next().unwrap();
                    match name {
                        "split_at" => { let (l, r) = s.split_at(a); s = if b == 0 { l } else { r }; }
                        "split_first" => match s.split_first() { Some((e, rest)) => { if side == "elem" { return format!("some{}", rids_s(&e)); } s = rest; } None => return "none".into() },
                        "split_last" => match s.split_last() { Some((e, rest)) => { if side == "elem" { return format!("some{}", rids_s(&e)); } s = rest; } None => return "none".into() },
                        "range" => { s = ::soa_derive::SoAIndex::index(a..b, s); }
                        "rangeto" => { s = ::soa_derive::SoAIndex::index(..a, s); }
                        "rangefrom" => { s = ::soa_derive::SoAIndex::index(a.., s); }
                        "getr" => match ::soa_derive::SoAIndex::get(a..b, s) { Some(x) => { s = x; } None => return "none".into() },
                        "incl" => { s = ::soa_derive::SoAIndex::index(a..=b, s); }
                        "first" => return match s.first() { Some(e) => format!("some{}", rids_s(&e)), None => "none".into() },
                        "last" => return match s.last() { Some(e) => format!("some{}", rids_s(&e)), None => "none".into() },
                        "get" => return match ::soa_derive::SoAIndex::get(a, s) { Some(e) => format!("some{}", rids_s(&e)), None => "none".into() },
                        "idx" => return rids_s(&::soa_derive::SoAIndex::index(a, s)),
                        "reborrow" => { let t2 = s; return spath(t2.reborrow(), &toks[n + 1..]); }
                        _ => panic!("bad view token {}", t),
                    }
                }
                let mut o = vec![]; <T as Shape>::scols(&s, &mut o); fmt_cols(&o)
            }
            /// the same on a mutable slice (consumed at every step); a final `write:pos:leaf:tag` writes through it
            fn mpath<'a>(mut s: $SM<'a>, toks: &[&str]) -> String {
                if toks.is_empty() { let mut o = vec![]; <T as Shape>::smcols(&s, &mut o); return fmt_cols(&o); }
                let t = toks[0]; let rest = &toks[1..];
                if let Some((pos, leaf, tag)) = tokw(t) {
                    return match s.get_mut(pos) { Some(mut e) => { let mut j = leaf; <T as Shape>::rm_write(&mut e, &mut j, tag * 8 + leaf as u32); "written".into() } None => "nowrite".into() };
                }
                let (name, a, b) = tok3(t);
                let side = t.rsplit(':').next().unwrap();
                fn welem(mut e: $RM<'_>, rest: &[&str]) -> String {
                    if let Some(Some((_, leaf, tag))) = rest.first().map(|x| tokw(x)) { let mut j = leaf; <T as Shape>::rm_write(&mut e, &mut j, tag * 8 + leaf as u32); "written".into() } else { format!("some{}", rmids_s(&e)) }
                }
                match name {
                    "split_at" => { let (l, r) = s.split_at_mut(a); mpath(if b == 0 { l } else { r }, rest) }
                    "split_first" => match s.split_first_mut() { Some((e, r)) => if side == "elem" { welem(e, rest) } else { mpath(r, rest) }, None => "none".into() },
                    "split_last" => match s.split_last_mut() { Some((e, r)) => if side == "elem" { welem(e, rest) } else { mpath(r, rest) }, None => "none".into() },
                    "range" => mpath(::soa_derive::SoAIndexMut::index_mut(a..b, s), rest),
                    "rangeto" => mpath(::soa_derive::SoAIndexMut::index_mut(..a, s), rest),
                    "rangefrom" => mpath(::soa_derive::SoAIndexMut::index_mut(a.., s), rest),
                    "getr" => match ::soa_derive::SoAIndexMut::get_mut(a..b, s) { Some(x) => mpath(x, rest), None => "none".into() },
                    "incl" => mpath(::soa_derive::SoAIndexMut::index_mut(a..=b, s), rest),
                    "first" => match s.first_mut() { Some(e) => welem(e, rest), None => "none".into() },
                    "last" => match s.last_mut() { Some(e) => welem(e, rest), None => "none".into() },
                    "get" => match s.get_mut(a) { Some(e) => welem(e, rest), None => "none".into() },
                    "idx" => { let mut e = s.index_mut(a); if let Some(Some((_, leaf, tag))) = rest.first().map(|x| tokw(x)) { let mut j = leaf; <T as Shape>::rm_write(&mut e, &mut j, tag * 8 + leaf as u32); "written".into() } else { rmids_s(&e) } }
                    "reborrow" => mpath(s.reborrow(), rest),
                    // take a child view (explicitly, or inside get_mut / index_mut / as_slice), drop it, go on with the parent
                    "rebdrop" => { { let _child = s.reborrow(); } mpath(s, rest) }
                    "peek" => { { let _e = s.get_mut(a); } { let _c = s.as_slice(); } mpath(s, rest) }
                    "as_ref" => spath(s.as_ref(), rest),
                    "as_slice" => spath(s.as_slice(), rest),
                    _ => panic!("bad view token {}", t),
                }
            }
            reset_ledgers();
            let mut regs: Vec<$V> = (0..NREG).map(|_| $V::new()).collect();
            let mut mirs: Vec<Vec<T>> = (0..NREG).map(|_| Vec::new()).collect();
            let mk = |side: usize, tag: usize| -> T { set_side(side); <T as Shape>::make(tag as u32) };
            let mut fuse: Option<(&str, i64)> = None;
            for (n, line) in lines.iter().enumerate() {
                let w: Vec<&str> = line.split_whitespace().collect();
                // a fuse armed by the previous line applies to this operation, separately on each side
                let armed = if w[0] != "clonefuse" && w[0] != "cmpfuse" { fuse.take() } else { None };
                ARM.with(|a| a.set(armed.map(|(k, v)| (k == "clone", v))));
                if LIVE.with(|l| l.get()) { emit(out, format!("# step {}", n)); }
                let arg = |i: usize| -> usize { w[i].parse().expect("usize arg") };
                // read-only observations do not reprint the registers (`regs=~` = unchanged)
                let pure = matches!(w[0], "get" | "index" | "len" | "is_empty" | "capacity" | "caps" | "view" | "iter" | "bounds" | "tget" | "tlen" | "ptr" | "refs");
                let (ri, rs): (String, String) = match w[0] {
                    "new" => { let r = reg(w[1]);
                        (exec(0, || { regs[r] = $V::new(); }), exec(1, || { mirs[r] = Vec::new(); })) }
                    "with_capacity" => { let r = reg(w[1]);
                        (exec(0, || { regs[r] = $V::with_capacity(arg(2)); }), exec(1, || { mirs[r] = Vec::with_capacity(arg(2)); })) }
                    "drop" => { let r = reg(w[1]);
                        (exec(0, || { regs[r] = $V::new(); }), exec(1, || { mirs[r] = Vec::new(); })) }
                    // desync r <leaf> <pop|push|clear> [tag]: edit ONE public field array directly (safe code can do this)
                    "desync" => { let r = reg(w[1]); let what = w[3]; let tag = if w.len() > 4 { arg(4) as u32 } else { 30 };
                        (exec(0, || { let mut j = arg(2) as i64; let l = arg(2) as u32; <T as Shape>::desync(&mut regs[r], &mut j, what, tag * 8 + l); }), exec(1, || {})) }
                    // the container is owned by a frame that unwinds: it is destroyed while the thread is panicking
                    "unwind_drop" => { let r = reg(w[1]);
                        (exec(0, || -> () { let _owned = std::mem::take(&mut regs[r]); if _owned.len() < usize::MAX { panic!("unwinding with a live container") } }),
                         exec(1, || -> () { let _owned = std::mem::take(&mut mirs[r]); if _owned.len() < usize::MAX { panic!("unwinding with a live container") } })) }
                    "push" => { let r = reg(w[1]); let (a, b) = (mk(0, arg(2)), mk(1, arg(2)));
                        (exec(0, || { regs[r].push(a); }), exec(1, || { mirs[r].push(b); })) }
                    "pop" => { let r = reg(w[1]);
                        (exec(0, || OptEl(regs[r].pop())), exec(1, || OptEl(mirs[r].pop()))) }
                    "insert" => { let r = reg(w[1]); let (a, b) = (mk(0, arg(3)), mk(1, arg(3)));
                        (exec(0, || { regs[r].insert(arg(2), a); }), exec(1, || { mirs[r].insert(arg(2), b); })) }
                    "remove" => { let r = reg(w[1]);
                        (exec(0, || El(regs[r].remove(arg(2)))), exec(1, || El(mirs[r].remove(arg(2))))) }
                    "swap_remove" => { let r = reg(w[1]);
                        (exec(0, || El(regs[r].swap_remove(arg(2)))), exec(1, || El(mirs[r].swap_remove(arg(2))))) }
                    "replace" => { let r = reg(w[1]); let (a, b) = (mk(0, arg(3)), mk(1, arg(3)));
                        (exec(0, || El(regs[r].replace(arg(2), a))), exec(1, || { let i = arg(2); El(std::mem::replace(&mut mirs[r][i], b)) })) }
                    "truncate" => { let r = reg(w[1]);
                        (exec(0, || { regs[r].truncate(arg(2)); }), exec(1, || { mirs[r].truncate(arg(2)); })) }
                    "clear" => { let r = reg(w[1]);
                        (exec(0, || { regs[r].clear(); }), exec(1, || { mirs[r].clear(); })) }
                    "append" => { let (r, q) = (reg(w[1]), reg(w[2]));
                        (exec(0, || { let (a, b) = two_mut(&mut regs, r, q); a.append(b); }),
                         exec(1, || { let (a, b) = two_mut(&mut mirs, r, q); a.append(b); })) }
                    "split_off" => { let (r, q) = (reg(w[1]), reg(w[3]));
                        (exec(0, || { let t = regs[r].split_off(arg(2)); regs[q] = t; }),
                         exec(1, || { let t = mirs[r].split_off(arg(2)); mirs[q] = t; })) }
                    "retain" => { let r = reg(w[1]); let (mut ca, mut cb) = (Cb::new(&w), Cb::new(&w));
                        // every element reference handed to the callback must lie inside its field array (checked before it is read)
                        let mut pspans = vec![]; <T as Shape>::vspans(&regs[r], &mut pspans); let mut oob = false;
                        let a = exec(0, || { regs[r].retain(|e| { let mut ad = vec![]; <T as Shape>::raddrs(&e, &mut ad);
                            if !within(&pspans, &ref_spans::<T>(&ad, &pspans)) { oob = true; return ca.call(vec![]); }
                            let mut o = vec![]; <T as Shape>::rids(&e, &mut o); ca.call(o) }); });
                        let b = exec(1, || { mirs[r].retain(|e| { let mut o = vec![]; e.ids(&mut o); cb.call(o) }); });
                        (format!("{}{} vis={}", a, if oob { " inb=false" } else { "" }, fmt_cols(&ca.visits)), format!("{} vis={}", b, fmt_cols(&cb.visits))) }
                    "retain_mut" => { let r = reg(w[1]); let (mut ca, mut cb) = (Cb::new(&w), Cb::new(&w));
                        let wl: Option<i64> = kv(&w, "wleaf").map(|x| x.parse().unwrap());
                        let wt: u32 = kv(&w, "wtag").map(|x| x.parse().unwrap()).unwrap_or(0);
                        let mut pspans = vec![]; <T as Shape>::vspans(&regs[r], &mut pspans); let mut oob = false;
                        let a = exec(0, || { regs[r].retain_mut(|mut e| { let mut ad = vec![]; <T as Shape>::rmaddrs(&e, &mut ad);
                            if !within(&pspans, &ref_spans::<T>(&ad, &pspans)) { oob = true; return ca.call(vec![]); }
                            let mut o = vec![]; <T as Shape>::rmids(&e, &mut o);
                            if let Some(l) = wl { let mut j = l; <T as Shape>::rm_write(&mut e, &mut j, ((wt + ca.k as u32) % 32) * 8 + l as u32); }
                            ca.call(o) }); });
                        let b = exec(1, || { mirs[r].retain_mut(|e| { let mut o = vec![]; e.ids(&mut o);
                            if let Some(l) = wl { let mut j = l; <T as Shape>::own_write(e, &mut j, ((wt + cb.k as u32) % 32) * 8 + l as u32); }
                            cb.call(o) }); });
                        (format!("{}{} vis={}", a, if oob { " inb=false" } else { "" }, fmt_cols(&ca.visits)), format!("{} vis={}", b, fmt_cols(&cb.visits))) }
                    "extend" => { let r = reg(w[1]); let tags = parse_list(w[2]);
                        let ea: Vec<T> = tags.iter().map(|t| mk(0, *t)).collect(); let eb: Vec<T> = tags.iter().map(|t| mk(1, *t)).collect();
                        (exec(0, || { regs[r].extend(ea); }), exec(1, || { mirs[r].extend(eb); })) }
                    // `extend` from an iterator that panics when asked for item number k (the items before it were yielded)
                    "extend_boom" => { let r = reg(w[1]); let tags = parse_list(w[2]); let k = arg(3);
                        let ea: Vec<T> = tags.iter().map(|t| mk(0, *t)).collect(); let eb: Vec<T> = tags.iter().map(|t| mk(1, *t)).collect();
                        (exec(0, || { regs[r].extend(ea.into_iter().enumerate().map(move |(i, x)| { if i == k { panic!("the iterator panics") } x })); }),
                         exec(1, || { mirs[r].extend(eb.into_iter().enumerate().map(move |(i, x)| { if i == k { panic!("the iterator panics") } x })); })) }
                    // `extend` / `collect` from an iterator whose size_hint promises only its first `lo` items (the rest comes out of a filter)
                    "extend_lo" | "collect_lo" => { let r = reg(w[1]); let tags = parse_list(w[2]); let lo = arg(3).min(tags.len());
                        let ea: Vec<T> = tags.iter().map(|t| mk(0, *t)).collect(); let eb: Vec<T> = tags.iter().map(|t| mk(1, *t)).collect();
                        fn lo_iter<X>(mut v: Vec<X>, lo: usize) -> impl Iterator<Item = X> { let rest = v.split_off(lo); v.into_iter().chain(rest.into_iter().filter(|_| true)) }
                        let coll = w[0] == "collect_lo";
                        (exec(0, || { if coll { regs[r] = lo_iter(ea, lo).collect(); } else { regs[r].extend(lo_iter(ea, lo)); } }),
                         exec(1, || { if coll { mirs[r] = lo_iter(eb, lo).collect(); } else { mirs[r].extend(lo_iter(eb, lo)); } })) }
                    // clone_from r q: `Clone::clone_from` of the vector (the user's Clone may be armed to panic)
                    "clone_from" => { let (r, q) = (reg(w[1]), reg(w[2])); assert!(r != q);
                        (exec(0, || { let src = std::mem::take(&mut regs[q]); let res = catch_unwind(AssertUnwindSafe(|| regs[r].clone_from(&src))); regs[q] = src; if let Err(e) = res { std::panic::resume_unwind(e) } }),
                         exec(1, || { let src = std::mem::take(&mut mirs[q]); let res = catch_unwind(AssertUnwindSafe(|| mirs[r].clone_from(&src))); mirs[q] = src; if let Err(e) = res { std::panic::resume_unwind(e) } })) }
                    "collect" => { let r = reg(w[1]); let tags = parse_list(w[2]);
                        let ea: Vec<T> = tags.iter().map(|t| mk(0, *t)).collect(); let eb: Vec<T> = tags.iter().map(|t| mk(1, *t)).collect();
                        (exec(0, || { regs[r] = ea.into_iter().collect(); }), exec(1, || { mirs[r] = eb.into_iter().collect(); })) }
                    "len" => { let r = reg(w[1]); (exec(0, || regs[r].len()), exec(1, || mirs[r].len())) }
                    "is_empty" => { let r = reg(w[1]); (exec(0, || regs[r].is_empty()), exec(1, || mirs[r].is_empty())) }
                    // checked / panicking indexing: <get|index> r <vec|slice|slicemut> <shared|mut> <form> a b [ex]
                    "get" | "index" => { let r = reg(w[1]); let (kind, mode, form) = (w[2], w[3], w[4]); let (a, b) = (arg(5), arg(6)); let ex = w.get(7) == Some(&"ex");
                        let getting = w[0] == "get";
                        let ri = exec(0, || -> String {
                            let mut pspans = vec![]; <T as Shape>::vspans(&regs[r], &mut pspans);
                            let fr = |x: $R<'_>| { let mut o = vec![]; <T as Shape>::rids(&x, &mut o); let mut ad = vec![]; <T as Shape>::raddrs(&x, &mut ad); (fmt_ids(&o), within(&pspans, &ref_spans::<T>(&ad, &pspans))) };
                            let frm = |x: $RM<'_>| { let mut o = vec![]; <T as Shape>::rmids(&x, &mut o); let mut ad = vec![]; <T as Shape>::rmaddrs(&x, &mut ad); (fmt_ids(&o), within(&pspans, &ref_spans::<T>(&ad, &pspans))) };
                            let fs = |x: $S<'_>| { let mut o = vec![]; <T as Shape>::scols(&x, &mut o); let mut sp = vec![]; <T as Shape>::sspans(&x, &mut sp); (fmt_cols(&o), within(&pspans, &sp)) };
                            let fsm = |x: $SM<'_>| { let mut o = vec![]; <T as Shape>::smcols(&x, &mut o); let mut sp = vec![]; <T as Shape>::smspans(&x, &mut sp); (fmt_cols(&o), within(&pspans, &sp)) };
                            fn opt(getting: bool, x: Option<(String, bool)>) -> String { match x { Some((s, inb)) => format!("{}{} inb={}", if getting { "some" } else { "" }, s, inb), None => "none inb=true".into() } }
                            match (kind, mode, getting) {
                                ("vec", "shared", true) => by_form!(form, a, b, ex, i => pos: opt(true, regs[r].get(i).map(fr)), range: opt(true, regs[r].get(i).map(fs))),
                                ("vec", "shared", false) => by_form!(form, a, b, ex, i => pos: opt(false, Some(fr(regs[r].index(i)))), range: opt(false, Some(fs(regs[r].index(i))))),
                                ("vec", "mut", true) => by_form!(form, a, b, ex, i => pos: opt(true, regs[r].get_mut(i).map(frm)), range: opt(true, regs[r].get_mut(i).map(fsm))),
                                ("vec", "mut", false) => by_form!(form, a, b, ex, i => pos: opt(false, Some(frm(regs[r].index_mut(i)))), range: opt(false, Some(fsm(regs[r].index_mut(i))))),
                                ("slice", "shared", true) => { let sl = regs[r].as_slice(); by_form!(form, a, b, ex, i => pos: opt(true, sl.get(i).map(fr)), range: opt(true, sl.get(i).map(fs))) }
                                ("slice", "shared", false) => { let sl = regs[r].as_slice(); by_form!(form, a, b, ex, i => pos: opt(false, Some(fr(sl.index(i)))), range: opt(false, Some(fs(sl.index(i))))) }
                                ("slicemut", "shared", true) => { let sl = regs[r].as_mut_slice(); by_form!(form, a, b, ex, i => pos: opt(true, sl.get(i).map(fr)), range: opt(true, sl.get(i).map(fs))) }
                                ("slicemut", "shared", false) => { let sl = regs[r].as_mut_slice(); by_form!(form, a, b, ex, i => pos: opt(false, Some(fr(sl.index(i)))), range: opt(false, Some(fs(sl.index(i))))) }
                                ("slicemut", "mut", true) => { let mut sl = regs[r].as_mut_slice(); by_form!(form, a, b, ex, i => pos: opt(true, sl.get_mut(i).map(frm)), range: opt(true, sl.get_mut(i).map(fsm))) }
                                ("slicemut", "mut", false) => { let mut sl = regs[r].as_mut_slice(); by_form!(form, a, b, ex, i => pos: opt(false, Some(frm(sl.index_mut(i)))), range: opt(false, Some(fsm(sl.index_mut(i))))) }
                                _ => panic!("bad container kind / mode"),
                            }
                        });
                        let rs = exec(1, || -> String {
                            let fr = |x: &T| { let mut o = vec![]; x.ids(&mut o); fmt_ids(&o) };
                            let fs = |x: &[T]| fmt_cols(&mirror_cols(x));
                            fn opt(getting: bool, x: Option<String>) -> String { match x { Some(s) => format!("{}{} inb=true", if getting { "some" } else { "" }, s), None => "none inb=true".into() } }
                            let m: &[T] = &mirs[r];
                            if getting { by_form!(form, a, b, ex, i => pos: opt(true, m.get(i).map(fr)), range: opt(true, m.get(i).map(fs))) }
                            else { by_form!(form, a, b, ex, i => pos: opt(false, Some(fr(&m[i]))), range: opt(false, Some(fs(&m[i])))) }
                        });
                        (ri, rs) }
                    // ---- the same operations dispatched through the generic traits (C09)
                    "tpush" => { let r = reg(w[1]); let (a, b) = (mk(0, arg(2)), mk(1, arg(2)));
                        (exec(0, || { tr::push::<T, $V>(&mut regs[r], a); }), exec(1, || { mirs[r].push(b); })) }
                    "tpop" => { let r = reg(w[1]);
                        (exec(0, || OptEl(tr::pop::<T, $V>(&mut regs[r]))), exec(1, || OptEl(mirs[r].pop()))) }
                    "tinsert" => { let r = reg(w[1]); let (a, b) = (mk(0, arg(3)), mk(1, arg(3)));
                        (exec(0, || { tr::insert::<T, $V>(&mut regs[r], arg(2), a); }), exec(1, || { mirs[r].insert(arg(2), b); })) }
                    "tremove" => { let r = reg(w[1]);
                        (exec(0, || El(tr::remove::<T, $V>(&mut regs[r], arg(2)))), exec(1, || El(mirs[r].remove(arg(2))))) }
                    "tswap_remove" => { let r = reg(w[1]);
                        (exec(0, || El(tr::swap_remove::<T, $V>(&mut regs[r], arg(2)))), exec(1, || El(mirs[r].swap_remove(arg(2))))) }
                    "treplace" => { let r = reg(w[1]); let (a, b) = (mk(0, arg(3)), mk(1, arg(3)));
                        (exec(0, || El(tr::replace::<T, $V>(&mut regs[r], arg(2), a))), exec(1, || { let i = arg(2); El(std::mem::replace(&mut mirs[r][i], b)) })) }
                    "ttruncate" => { let r = reg(w[1]);
                        (exec(0, || { tr::truncate::<T, $V>(&mut regs[r], arg(2)); }), exec(1, || { mirs[r].truncate(arg(2)); })) }
                    "tclear" => { let r = reg(w[1]);
                        (exec(0, || { tr::clear::<T, $V>(&mut regs[r]); }), exec(1, || { mirs[r].clear(); })) }
                    "tappend" => { let (r, q) = (reg(w[1]), reg(w[2]));
                        (exec(0, || { let (a, b) = two_mut(&mut regs, r, q); tr::append::<T, $V>(a, b); }),
                         exec(1, || { let (a, b) = two_mut(&mut mirs, r, q); a.append(b); })) }
                    "tsplit_off" => { let (r, q) = (reg(w[1]), reg(w[3]));
                        (exec(0, || { let t = tr::split_off::<T, $V>(&mut regs[r], arg(2)); regs[q] = t; }),
                         exec(1, || { let t = mirs[r].split_off(arg(2)); mirs[q] = t; })) }
                    "tnew" => { let r = reg(w[1]);
                        (exec(0, || { regs[r] = tr::new::<T, $V>(); }), exec(1, || { mirs[r] = Vec::new(); })) }
                    // tlen r <vec|slice|slicemut>: len and is_empty through the trait
                    "tlen" => { let r = reg(w[1]);
                        (exec(0, || { let (l, e) = match w[2] { "vec" => tr::vlen::<T, $V>(&regs[r]), "slice" => tr::slen::<T, $S>(&regs[r].as_slice()), _ => tr::smlen::<T, $SM>(&regs[r].as_mut_slice()) }; format!("{}/{}", l, e) }),
                         exec(1, || format!("{}/{}", mirs[r].len(), mirs[r].is_empty()))) }
                    // tget r <kind> <get|index|get_mut|index_mut|first|last|first_mut|last_mut> [i]
                    "tget" => { let r = reg(w[1]); let (kind, m) = (w[2], w[3]); let i = if w.len() > 4 { arg(4) } else { 0 };
                        let ri = exec(0, || -> String {
                            let fr = |x: $R<'_>| { let mut o = vec![]; <T as Shape>::rids(&x, &mut o); fmt_ids(&o) };
                            let frm = |x: $RM<'_>| { let mut o = vec![]; <T as Shape>::rmids(&x, &mut o); fmt_ids(&o) };
                            fn opt(x: Option<String>) -> String { match x { Some(s) => format!("some{}", s), None => "none".into() } }
                            match (kind, m) {
                                ("vec", "get") => opt(tr::vget::<T, $V>(&regs[r], i).map(fr)), ("vec", "index") => fr(tr::vindex::<T, $V>(&regs[r], i)),
                                ("vec", "get_mut") => opt(tr::vget_mut::<T, $V>(&mut regs[r], i).map(frm)), ("vec", "index_mut") => frm(tr::vindex_mut::<T, $V>(&mut regs[r], i)),
                                ("vec", "first") => opt(tr::vfirst::<T, $V>(&regs[r]).map(fr)), ("vec", "last") => opt(tr::vlast::<T, $V>(&regs[r]).map(fr)),
                                ("vec", "first_mut") => opt(tr::vfirst_mut::<T, $V>(&mut regs[r]).map(frm)), ("vec", "last_mut") => opt(tr::vlast_mut::<T, $V>(&mut regs[r]).map(frm)),
                                ("slice", "get") => opt(tr::sget::<T, $S>(&regs[r].as_slice(), i).map(fr)), ("slice", "index") => fr(tr::sindex::<T, $S>(&regs[r].as_slice(), i)),
                                ("slice", "first") => opt(tr::sfirst::<T, $S>(&regs[r].as_slice()).map(fr)), ("slice", "last") => opt(tr::slast::<T, $S>(&regs[r].as_slice()).map(fr)),
                                ("slicemut", "get") => opt(tr::smget::<T, $SM>(&regs[r].as_mut_slice(), i).map(fr)), ("slicemut", "index") => fr(tr::smindex::<T, $SM>(&regs[r].as_mut_slice(), i)),
                                ("slicemut", "first") => opt(tr::smfirst::<T, $SM>(&regs[r].as_mut_slice()).map(fr)), ("slicemut", "last") => opt(tr::smlast::<T, $SM>(&regs[r].as_mut_slice()).map(fr)),
                                ("slicemut", "get_mut") => opt(tr::smget_mut::<T, $SM>(&mut regs[r].as_mut_slice(), i).map(frm)), ("slicemut", "index_mut") => frm(tr::smindex_mut::<T, $SM>(&mut regs[r].as_mut_slice(), i)),
                                ("slicemut", "first_mut") => opt(tr::smfirst_mut::<T, $SM>(&mut regs[r].as_mut_slice()).map(frm)), ("slicemut", "last_mut") => opt(tr::smlast_mut::<T, $SM>(&mut regs[r].as_mut_slice()).map(frm)),
                                _ => panic!("bad tget"),
                            } });
                        let rs = exec(1, || -> String {
                            let fr = |x: &T| { let mut o = vec![]; x.ids(&mut o); fmt_ids(&o) };
                            fn opt(x: Option<String>) -> String { match x { Some(s) => format!("some{}", s), None => "none".into() } }
                            let ms: &[T] = &mirs[r];
                            match m { "get" | "get_mut" => opt(ms.get(i).map(fr)), "index" | "index_mut" => fr(&ms[i]),
                                      "first" | "first_mut" => opt(ms.first().map(fr)), "last" | "last_mut" => opt(ms.last().map(fr)), _ => panic!("bad tget") } });
                        (ri, rs) }
                    // bounds r <vec|slice|slicemut> <shared|mut> <start bound> <end bound>: trait slice()/slice_mut() with any RangeBounds
                    "bounds" => { let r = reg(w[1]); let (kind, mode) = (w[2], w[3]); let b = (parse_bound(w[4]), parse_bound(w[5]));
                        let ri = exec(0, || -> String {
                            let mut pspans = vec![]; <T as Shape>::vspans(&regs[r], &mut pspans);
                            let fs = |x: $S<'_>| { let mut o = vec![]; <T as Shape>::scols(&x, &mut o); let mut sp = vec![]; <T as Shape>::sspans(&x, &mut sp); format!("{} inb={}", fmt_cols(&o), within(&pspans, &sp)) };
                            let fsm = |x: $SM<'_>| { let mut o = vec![]; <T as Shape>::smcols(&x, &mut o); let mut sp = vec![]; <T as Shape>::smspans(&x, &mut sp); format!("{} inb={}", fmt_cols(&o), within(&pspans, &sp)) };
                            match (kind, mode) {
                                ("vec", "shared") => fs(tr::vslice::<T, $V>(&regs[r], b)), ("vec", "mut") => fsm(tr::vslice_mut::<T, $V>(&mut regs[r], b)),
                                ("slice", "shared") => fs(tr::sslice::<T, $S>(&regs[r].as_slice(), b)),
                                ("slicemut", "shared") => fs(tr::smslice::<T, $SM>(&regs[r].as_mut_slice(), b)), ("slicemut", "mut") => fsm(tr::smslice_mut::<T, $SM>(&mut regs[r].as_mut_slice(), b)),
                                _ => panic!("bad bounds kind") } });
                        let rs = exec(1, || -> String { let ms: &[T] = &mirs[r]; format!("{} inb=true", fmt_cols(&mirror_cols(&ms[b]))) });
                        (ri, rs) }
                    // ---- capacity contract (C12)
                    "reserve" => { let r = reg(w[1]);
                        (exec(0, || { regs[r].reserve(arg(2)); }), exec(1, || { mirs[r].reserve(arg(2)); })) }
                    "reserve_exact" => { let r = reg(w[1]);
                        (exec(0, || { regs[r].reserve_exact(arg(2)); }), exec(1, || { mirs[r].reserve_exact(arg(2)); })) }
                    "shrink_to_fit" => { let r = reg(w[1]);
                        (exec(0, || { regs[r].shrink_to_fit(); }), exec(1, || { mirs[r].shrink_to_fit(); })) }
                    "capacity" => { let r = reg(w[1]); (exec(0, || regs[r].capacity()), exec(1, || {})) }
                    // the capacity API dispatched through SoAVec
                    "treserve" => { let r = reg(w[1]);
                        (exec(0, || { tr::reserve::<T, $V>(&mut regs[r], arg(2)); }), exec(1, || { mirs[r].reserve(arg(2)); })) }
                    "treserve_exact" => { let r = reg(w[1]);
                        (exec(0, || { tr::reserve_exact::<T, $V>(&mut regs[r], arg(2)); }), exec(1, || { mirs[r].reserve_exact(arg(2)); })) }
                    "tshrink_to_fit" => { let r = reg(w[1]);
                        (exec(0, || { tr::shrink_to_fit::<T, $V>(&mut regs[r]); }), exec(1, || { mirs[r].shrink_to_fit(); })) }
                    // (the trait's answer, marked when the inherent method answers something else)
                    "tcapacity" => { let r = reg(w[1]); (exec(0, || { let (t, i) = (tr::capacity::<T, $V>(&regs[r]), regs[r].capacity()); format!("{}{}", t, if t != i { format!(" parity=false:{}", i) } else { String::new() }) }), exec(1, || {})) }
                    "twith_capacity" => { let r = reg(w[1]);
                        (exec(0, || { regs[r] = tr::with_capacity::<T, $V>(arg(2)); }), exec(1, || { mirs[r] = Vec::with_capacity(arg(2)); })) }
                    "caps" => { let r = reg(w[1]);
                        (exec(0, || { let mut c = vec![]; <T as Shape>::caps(&regs[r], &mut c); format!("{:?}", c).replace(' ', "") }), exec(1, || {})) }
                    // promise r [n]: push n (default: capacity() - len(), at most 64) elements; did any field array move?
                    "promise" => { let r = reg(w[1]);
                        let mut k = 0usize;
                        let ri = exec(0, || -> String {
                            let (len, cap) = (regs[r].len(), if w.len() > 2 { regs[r].len() + arg(2) } else { regs[r].capacity() });
                            k = cap.saturating_sub(len).min(if w.len() > 2 { 1024 } else { 64 });   // an explicit promise is used up in full (up to 1024 pushes)
                            let mut b0 = vec![]; <T as Shape>::bases(&regs[r], &mut b0);
                            for j in 0..k { regs[r].push(<T as Shape>::make((j % 32) as u32)); }
                            let mut b1 = vec![]; <T as Shape>::bases(&regs[r], &mut b1);
                            format!("promise cap_ge_len={} moved={} pushed={}", cap >= len, b0 != b1, k) });
                        let rs = exec(1, || { for j in 0..k { mirs[r].push(mk(1, j % 32)); } });
                        (ri, rs) }
                    // view r <shared|mut> <as_slice|as_mut_slice|slice:a:b|slice_mut:a:b> <path tokens...>   (pure: reads)
                    // viewmut r mut <start> <path tokens...> write:pos:leaf:tag                                 (writes through the view)
                    "view" | "viewmut" => { let r = reg(w[1]); let (mode, start) = (w[2], w[3]); let toks: Vec<&str> = w[4..].to_vec();
                        let (sn, sa, sb) = tok3(start);
                        let ri = exec(0, || -> String { match (mode, sn) {
                            ("shared", "as_slice") => spath(regs[r].as_slice(), &toks),
                            ("shared", "slice") => spath(regs[r].slice(sa..sb), &toks),
                            ("mut", "as_mut_slice") => mpath(regs[r].as_mut_slice(), &toks),
                            ("mut", "slice_mut") => mpath(regs[r].slice_mut(sa..sb), &toks),
                            _ => panic!("bad view start") } });
                        let rs = exec(1, || -> String { match (mode, sn) {
                            ("shared", "as_slice") => spath_std::<T>(&mirs[r], &toks),
                            ("shared", "slice") => spath_std::<T>(&mirs[r][sa..sb], &toks),
                            ("mut", "as_mut_slice") => mpath_std::<T>(&mut mirs[r], &toks),
                            ("mut", "slice_mut") => mpath_std::<T>(&mut mirs[r][sa..sb], &toks),
                            _ => panic!("bad view start") } });
                        (ri, rs) }
                    // iter r <source> <steps>       (pure)   |   itermut r <source> <steps>   (every yielded element is written)
                    "iter" => { let r = reg(w[1]); let (src, steps) = (w[2], w[3]);
                        let minlen = { let mut cs = vec![]; <T as Shape>::cols(&regs[r], &mut cs); cs.iter().map(|c| c.len()).min().unwrap_or(0) };
                        let ri = exec(0, || -> String {
                            let show = |x: $R<'_>, _k: usize| rids_s(&x);
                            let a: String = match src {
                                "vec.iter" => drive(regs[r].iter(), steps, show),
                                "vec.for" => drive((&regs[r]).into_iter(), steps, show),
                                // `.rev()` in method syntax ON THE CONCRETE TYPE (an inherent `rev` would be what runs), then stepped from both ends
                                "vec.iter.rev" => drive(regs[r].iter().rev(), steps, show),
                                "slice.iter.rev" => { let sl = regs[r].as_slice(); drive(sl.iter().rev(), steps, show) }
                                "slice.iter" => { let sl = regs[r].as_slice(); let mut it: $IT<'_> = sl.iter(); drive(it, steps, show) }
                                "slice.into_iter" => drive(regs[r].as_slice().into_iter(), steps, show),
                                "slice.trait" => drive(IntoIterator::into_iter(regs[r].as_slice()), steps, show),
                                "slice.for_ref" => { let sl = regs[r].as_slice(); let mut it: $IT<'_> = (&sl).into_iter(); drive(it, steps, show) }
                                "slicemut.iter" => { let mut sl = regs[r].as_mut_slice(); let mut it: $IT<'_> = sl.iter(); drive(it, steps, show) }
                                // the view is used again after the iterator obtained from it by reference is gone
                                "slice.iter.reuse" => { let sl = regs[r].as_slice(); let a = { let mut it: $IT<'_> = sl.iter(); drive(it, steps, show) };
                                    format!("{},P{},Q{}", a, sl.len(), sl.iter().count()) }
                                "slicemut.iter.reuse" => { let mut sl = regs[r].as_mut_slice(); let a = { let mut it: $IT<'_> = sl.iter(); drive(it, steps, show) };
                                    let n = sl.len(); format!("{},P{},Q{}", a, n, sl.iter().count()) }
                                _ => panic!("bad iterator source") };
                            format!("{}{}", a, iter_oob(&a, minlen)) });
                        let rs = exec(1, || -> String { let a = if src.ends_with(".rev") { drive(mirs[r].iter().rev(), steps, |x: &T, _k| el_ids(x)) } else { drive(mirs[r].iter(), steps, |x: &T, _k| el_ids(x)) };
                            if src.ends_with(".reuse") { format!("{},P{},Q{}", a, mirs[r].len(), mirs[r].iter().count()) } else { a } });
                        (ri, rs) }
                    "itermut" => { let r = reg(w[1]); let (src, steps) = (w[2], w[3]); let nl = <T as Shape>::nleaves();
                        let minlen = { let mut cs = vec![]; <T as Shape>::cols(&regs[r], &mut cs); cs.iter().map(|c| c.len()).min().unwrap_or(0) };
                        let ri = exec(0, || -> String {
                            let show = |mut x: $RM<'_>, k: usize| { let s = rmids_s(&x); let l = k % nl; let mut j = l as i64; <T as Shape>::rm_write(&mut x, &mut j, ((16 + k as u32) % 32) * 8 + l as u32); s };
                            let a: String = match src {
                                "vec.iter_mut" => drive(regs[r].iter_mut(), steps, show),
                                "vec.for_mut" => drive((&mut regs[r]).into_iter(), steps, show),
                                "vec.iter_mut.rev" => drive(regs[r].iter_mut().rev(), steps, show),
                                "slicemut.iter_mut.rev" => { let mut sl = regs[r].as_mut_slice(); drive(sl.iter_mut().rev(), steps, show) }
                                "slicemut.iter_mut" => { let mut sl = regs[r].as_mut_slice(); let mut it: $ITM<'_> = sl.iter_mut(); drive(it, steps, show) }
                                "slicemut.into_iter" => drive(regs[r].as_mut_slice().into_iter(), steps, show),
                                "slicemut.trait" => drive(IntoIterator::into_iter(regs[r].as_mut_slice()), steps, show),
                                "slicemut.iter_mut.reuse" => { let mut sl = regs[r].as_mut_slice(); let a = { let mut it: $ITM<'_> = sl.iter_mut(); drive(it, steps, show) };
                                    let n = sl.len(); format!("{},P{},Q{}", a, n, sl.iter_mut().count()) }
                                _ => panic!("bad iterator source") };
                            format!("{}{}", a, iter_oob(&a, minlen)) });
                        let rs = exec(1, || -> String { let wr = |x: &mut T, k: usize| { let s = el_ids(x); let l = k % nl; let mut j = l as i64; <T as Shape>::own_write(x, &mut j, ((16 + k as u32) % 32) * 8 + l as u32); s };
                            let a = if src.ends_with(".rev") { drive(mirs[r].iter_mut().rev(), steps, wr) } else { drive(mirs[r].iter_mut(), steps, |x: &mut T, k| { let s = el_ids(x); let l = k % nl; let mut j = l as i64; <T as Shape>::own_write(x, &mut j, ((16 + k as u32) % 32) * 8 + l as u32); s }) };
                            if src.ends_with(".reuse") { format!("{},P{},Q{}", a, mirs[r].len(), mirs[r].iter_mut().count()) } else { a } });;
                        (ri, rs) }
                    // sort r <entry> [mod=m] [panic=k] [range=a:b]
                    "sort" => { let r = reg(w[1]); let entry = w[2]; let kl = key_leaf::<T>();
                        let rng: Option<(usize, usize)> = kv(&w, "range").map(|x| { let (a, b) = x.split_once(':').unwrap(); (a.parse().unwrap(), b.parse().unwrap()) });
                        let (mut ca, mut cb) = (SortCb::new(&w), SortCb::new(&w));
                        let ri = exec(0, || {
                            let mut keyr = |x: $R<'_>| { let mut o = vec![]; <T as Shape>::rids(&x, &mut o); ca.key(o[kl]) };
                            match entry {
                                "tvec_sort_by" => ::soa_derive::SoAVec::sort_by(&mut regs[r], |a, b| { let (x, y) = (keyr(a), keyr(b)); x.cmp(&y) }),
                                "tvec_sort_by_key" => ::soa_derive::SoAVec::sort_by_key(&mut regs[r], |a| keyr(a)),
                                "tsm_sort_by" | "tsm_sort_by_key" => {
                                    // the provided methods of SoASliceMut need `Self: 'static` (GAT bound): park the vector on the heap
                                    // to obtain a `SliceMut<'static>`, and bring it home also when the callback panics
                                    let p: *mut $V = Box::into_raw(Box::new(std::mem::take(&mut regs[r])));
                                    let res = catch_unwind(AssertUnwindSafe(|| {
                                        let v: &'static mut $V = unsafe { &mut *p };
                                        let mut sl = v.as_mut_slice();
                                        if entry == "tsm_sort_by" { ::soa_derive::SoASliceMut::sort_by(&mut sl, |a, b| { let (x, y) = (keyr(a), keyr(b)); x.cmp(&y) }) }
                                        else { ::soa_derive::SoASliceMut::sort_by_key(&mut sl, |a| keyr(a)) }
                                    }));
                                    let home = unsafe { *Box::from_raw(p) };
                                    let empty = std::mem::replace(&mut regs[r], home); std::mem::forget(empty);
                                    if let Err(e) = res { std::panic::resume_unwind(e) }
                                }
                                _ => {
                                    let whole = regs[r].as_mut_slice();
                                    let mut sl = match rng { Some((a, b)) => ::soa_derive::SoAIndexMut::index_mut(a..b, whole), None => whole };
                                    match entry {
                                        "sort" => sl.sort(),
                                        "sort_by" => sl.sort_by(|a, b| { let (x, y) = (keyr(a), keyr(b)); x.cmp(&y) }),
                                        "sort_by_key" => sl.sort_by_key(|a| keyr(a)),
                                        _ => panic!("bad sort entry") } } } });
                        let rs = exec(1, || {
                            let mut keyo = |x: &T| { let mut o = vec![]; x.ids(&mut o); cb.key(o[kl]) };
                            let sl: &mut [T] = match rng { Some((a, b)) if !entry.starts_with('t') => &mut mirs[r][a..b], _ => &mut mirs[r] };
                            match entry {
                                "sort" => sl.sort(),
                                "sort_by" | "tsm_sort_by" | "tvec_sort_by" => sl.sort_by(|a, b| { let (x, y) = (keyo(a), keyo(b)); x.cmp(&y) }),
                                _ => sl.sort_by_key(|a| keyo(a)) } });
                        { let _ = (ca.k, cb.k); (ri, rs) } }
                    // apply_index r <vec|slicemut> <index list>
                    "apply_index" => { let r = reg(w[1]); let idx = parse_list(w[3]);
                        (exec(0, || { match w[2] { "vec" => ::soa_derive::SoAVec::apply_index(&mut regs[r], &idx), _ => ::soa_derive::SoASliceMut::apply_index(&mut regs[r].as_mut_slice(), &idx) } }),
                         exec(1, || { gather(&mut mirs[r], &idx); })) }
                    // apply_index_reuse r <index list>: through the SoASliceMut trait on a NAMED mutable slice, which is looked at again afterwards
                    "apply_index_reuse" => { let r = reg(w[1]); let idx = parse_list(w[2]);
                        (exec(0, || -> String { let mut sm = regs[r].as_mut_slice(); ::soa_derive::SoASliceMut::apply_index(&mut sm, &idx); format!("P{},Q{}", sm.len(), sm.iter().count()) }),
                         exec(1, || -> String { gather(&mut mirs[r], &idx); format!("P{},Q{}", mirs[r].len(), mirs[r].iter().count()) })) }
                    // swap r a b  (SliceMut::swap)
                    "swap" => { let r = reg(w[1]);
                        (exec(0, || { regs[r].as_mut_slice().swap(arg(2), arg(3)); }), exec(1, || { mirs[r].swap(arg(2), arg(3)); })) }
                    // ptr r <vec|slice|slicemut|ref:i> <const|mut> <steps...> <terminal>     (pure)
                    // ptrw ... write:tag | write_volatile:tag | write_unaligned:tag | as_mut:leaf:tag    (writes)
                    "ptr" | "ptrw" => { let r = reg(w[1]); let (from, cm) = (w[2], w[3]); let toks: Vec<&str> = w[4..].to_vec();
                        let (fname, fi, fj) = tok3(from);
                        let signed = |t: &str| -> isize { t.split(':').nth(1).unwrap().parse().unwrap() };
                        let ri = exec(0, || -> String { unsafe {
                            let mut pc: Option<$P> = None; let mut pm: Option<$PM> = None;
                            match (fname, cm) {
                                ("vec", "const") => pc = Some(regs[r].as_ptr()), ("vec", "mut") => pm = Some(regs[r].as_mut_ptr()),
                                ("slice", "const") => pc = Some(regs[r].as_slice().as_ptr()),
                                ("slicemut", "const") => pc = Some(regs[r].as_mut_slice().as_ptr()), ("slicemut", "mut") => pm = Some(regs[r].as_mut_slice().as_mut_ptr()),
                                // the same through the generic traits (UFCS: the trait's method, not the inherent one)
                                ("tvec", "const") => pc = Some(<$V as ::soa_derive::SoAVec<T>>::as_ptr(&regs[r])), ("tvec", "mut") => pm = Some(<$V as ::soa_derive::SoAVec<T>>::as_mut_ptr(&mut regs[r])),
                                ("tslice", "const") => { let sl = regs[r].as_slice(); pc = Some(<$S<'_> as ::soa_derive::SoASlice<T>>::as_ptr(&sl)) }
                                ("tslicemut", "const") => { let sm = regs[r].as_mut_slice(); pc = Some(<$SM<'_> as ::soa_derive::SoASliceMut<T>>::as_ptr(&sm)) }
                                ("tslicemut", "mut") => { let mut sm = regs[r].as_mut_slice(); pm = Some(<$SM<'_> as ::soa_derive::SoASliceMut<T>>::as_mut_ptr(&mut sm)) }
                                ("ref", "const") => pc = Some(regs[r].index(fi).as_ptr()),
                                ("refmut", "const") => pc = Some(regs[r].index_mut(fi).as_ptr()), ("refmut", "mut") => pm = Some(regs[r].index_mut(fi).as_mut_ptr()),
                                // windows [a, b) of the views, directly and rebuilt from (pointer bundle, length)
                                ("wins", "const") => pc = Some(regs[r].as_slice().index(fi..fj).as_ptr()),
                                ("winsm", "const") => pc = Some(regs[r].as_mut_slice().index_mut(fi..fj).as_ptr()), ("winsm", "mut") => pm = Some(regs[r].as_mut_slice().index_mut(fi..fj).as_mut_ptr()),
                                ("rts", "const") => { let sl = regs[r].as_slice(); let wv = sl.index(fi..fj); pc = Some($S::from_raw_parts(wv.as_ptr(), wv.len()).as_ptr()) }
                                ("rtsm", "const") => { let mut sl = regs[r].as_mut_slice(); let mut wv = sl.index_mut(fi..fj); let (p, l) = (wv.as_mut_ptr(), wv.len()); pc = Some($SM::from_raw_parts_mut(p, l).as_ptr()) }
                                ("rtsm", "mut") => { let mut sl = regs[r].as_mut_slice(); let mut wv = sl.index_mut(fi..fj); let (p, l) = (wv.as_mut_ptr(), wv.len()); pm = Some($SM::from_raw_parts_mut(p, l).as_mut_ptr()) }
                                _ => panic!("bad pointer source") }
                            for t in &toks {
                                let (name, a, _) = tok3(t);
                                macro_rules! both { ($m:ident, $x:expr) => {{ if let Some(p) = pc { pc = Some(p.$m($x)); } if let Some(p) = pm { pm = Some(p.$m($x)); } }} }
                                match name {
                                    "add" => both!(add, a), "sub" => both!(sub, a), "offset" => both!(offset, signed(t)),
                                    "wadd" => both!(wrapping_add, a), "wsub" => both!(wrapping_sub, a), "woffset" => both!(wrapping_offset, signed(t)),
                                    "as_mut_ptr" => { pm = Some(pc.take().unwrap().as_mut_ptr()); }
                                    "as_ptr" => { pc = Some(pm.take().unwrap().as_ptr()); }
                                    "null" => { let mut j = a as i64; if let Some(p) = pc.as_mut() { <T as Shape>::pnull(p, &mut j); } if let Some(p) = pm.as_mut() { <T as Shape>::pmnull(p, &mut j); } }
                                    "is_null" => return format!("{}", match (pc, pm) { (Some(p), _) => p.is_null(), (_, Some(p)) => p.is_null(), _ => unreachable!() }),
                                    "read" | "read_volatile" | "read_unaligned" => {
                                        let v: T = match (pc, pm, name) { (Some(p), _, "read") => p.read(), (Some(p), _, "read_volatile") => p.read_volatile(), (Some(p), _, _) => p.read_unaligned(),
                                            (_, Some(p), "read") => p.read(), (_, Some(p), "read_volatile") => p.read_volatile(), (_, Some(p), _) => p.read_unaligned(), _ => unreachable!() };
                                        let s = el_ids(&v); std::mem::forget(v); return s; }   // a bitwise copy: the container still owns the value
                                    "as_ref" => return match (pc, pm) { (Some(p), _) => p.as_ref().map(|x| rids_s(&x)), (_, Some(p)) => p.as_ref().map(|x| rids_s(&x)), _ => unreachable!() }.map(|s| format!("some{}", s)).unwrap_or("none".into()),
                                    "as_mut" => { let v: Vec<&str> = t.split(':').collect();
                                        return match pm.unwrap().as_mut() { Some(mut x) => { if v.len() > 2 { let l: i64 = v[1].parse().unwrap(); let tag: u32 = v[2].parse().unwrap(); let mut j = l; <T as Shape>::rm_write(&mut x, &mut j, tag * 8 + l as u32); "written".into() } else { format!("some{}", rmids_s(&x)) } } None => "none".into() }; }
                                    "write" | "write_volatile" | "write_unaligned" => {
                                        let p = pm.unwrap(); let old: T = p.read();    // take the overwritten slot out first: a pointer write must not destroy it
                                        let new = <T as Shape>::make(a as u32);
                                        match name { "write" => p.write(new), "write_volatile" => p.write_volatile(new), _ => p.write_unaligned(new) }
                                        let evs = take_events(0);                       // events of the write itself: must be none
                                        let s = format!("written:{}:wev={}", el_ids(&old), fmt_ev(&evs)); drop(old); return s; }
                                    _ => panic!("bad pointer token {}", t) }
                            }
                            let mut o = vec![]; match (pc, pm) { (Some(p), _) => <T as Shape>::paddrs(&p, &mut o), (_, Some(p)) => <T as Shape>::pmaddrs(&p, &mut o), _ => {} }
                            let mut b = vec![]; <T as Shape>::vspans(&regs[r], &mut b);
                            // report the element offset of every component relative to its field array (must be one common value)
                            let offs: Vec<i64> = o.iter().zip(&b).map(|(a, s)| if s.2 == 0 { -1 } else { (*a as i64 - s.0 as i64) / s.2 as i64 }).collect();
                            format!("at{:?}", offs).replace(' ', "") } });
                        let rs = exec(1, || -> String { unsafe {
                            let base: usize = if fname == "ref" || fname == "refmut" || fname.starts_with("win") || fname.starts_with("rt") { fi } else { 0 };
                            let mut p: *mut T = mirs[r].as_mut_ptr().add(base); let mut null = false;
                            for t in &toks {
                                let (name, a, _) = tok3(t);
                                match name {
                                    "add" => p = p.add(a), "sub" => p = p.sub(a), "offset" => p = p.offset(signed(t)),
                                    "wadd" => p = p.wrapping_add(a), "wsub" => p = p.wrapping_sub(a), "woffset" => p = p.wrapping_offset(signed(t)),
                                    "as_mut_ptr" | "as_ptr" => {}
                                    "null" => null = true,
                                    "is_null" => return format!("{}", null || p.is_null()),
                                    "read" | "read_volatile" | "read_unaligned" => { let v = p.read(); let s = el_ids(&v); std::mem::forget(v); return s; }
                                    "as_ref" => return if null { "none".into() } else { format!("some{}", el_ids(&*p)) },
                                    "as_mut" => { let v: Vec<&str> = t.split(':').collect(); if null { return "none".into(); }
                                        if v.len() > 2 { let l: i64 = v[1].parse().unwrap(); let tag: u32 = v[2].parse().unwrap(); let mut j = l; <T as Shape>::own_write(&mut *p, &mut j, tag * 8 + l as u32); return "written".into(); } else { return format!("some{}", el_ids(&*p)); } }
                                    "write" | "write_volatile" | "write_unaligned" => { let old = p.read(); p.write(<T as Shape>::make(a as u32)); let evs = take_events(1); let s = format!("written:{}:wev={}", el_ids(&old), fmt_ev(&evs)); drop(old); return s; }
                                    _ => panic!("bad pointer token {}", t) }
                            }
                            let off = (p as usize as i64 - mirs[r].as_ptr() as usize as i64) / (std::mem::size_of::<T>().max(1) as i64);
                            let kinds: Vec<char> = { let mut d = String::new(); <T as Shape>::desc(&mut d); d.chars().filter(|c| "zbslhp".contains(*c)).collect() };
                            format!("at{:?}", kinds.iter().map(|k| if *k == 'z' { -1 } else { off }).collect::<Vec<i64>>()).replace(' ', "") } });
                        (ri, rs) }
                    // roundtrip r <vec|slice|slicemut>: rebuild the container from its pointer bundle and length (and capacity)
                    "roundtrip" => { let r = reg(w[1]);
                        // precondition of the capacity-keeping round trip, decided before either side runs
                        let mut cb: Vec<usize> = vec![]; <T as Shape>::caps(&regs[r], &mut cb);
                        let cbs: Vec<usize> = cb.iter().cloned().filter(|c| *c != usize::MAX).collect();
                        let cap_na = cbs.is_empty() || cbs.iter().any(|c| *c != cbs[0]) || cbs[0] == 0;
                        (exec(0, || -> String { unsafe { match w[2] {
                            "vec" => { regs[r].shrink_to_fit(); let mut v = std::mem::take(&mut regs[r]); let (p, l, c) = (v.as_mut_ptr(), v.len(), v.capacity()); std::mem::forget(v);
                                       let nv = $V::from_raw_parts(p, l, if l == 0 { 0 } else { c }); let old = std::mem::replace(&mut regs[r], nv); std::mem::forget(old); "rebuilt".into() }
                            "vec_cap" => {   // keeps the capacity: only meaningful when every field array has the same capacity (after with_capacity / reserve_exact)
                                let mut before: Vec<usize> = vec![]; <T as Shape>::caps(&regs[r], &mut before); let cs: Vec<usize> = before.iter().cloned().filter(|c| *c != usize::MAX).collect();
                                if cap_na { "n/a".into() } else {
                                    let mut v = std::mem::take(&mut regs[r]); let (p, l) = (v.as_mut_ptr(), v.len()); std::mem::forget(v);
                                    let nv = $V::from_raw_parts(p, l, cs[0]); let old = std::mem::replace(&mut regs[r], nv); std::mem::forget(old);
                                    let mut after: Vec<usize> = vec![]; <T as Shape>::caps(&regs[r], &mut after);
                                    if after == before { "kept".into() } else { format!("changed:{:?}->{:?}", before, after).replace(' ', "") } } }
                            "slice" => { let sl = regs[r].as_slice(); let nsl = $S::from_raw_parts(sl.as_ptr(), sl.len()); let mut o = vec![]; <T as Shape>::scols(&nsl, &mut o); fmt_cols(&o) }
                            _ => { let mut sl = regs[r].as_mut_slice(); let (p, l) = (sl.as_mut_ptr(), sl.len()); let nsl = $SM::from_raw_parts_mut(p, l); let mut o = vec![]; <T as Shape>::smcols(&nsl, &mut o); fmt_cols(&o) } } } }),
                         exec(1, || -> String { match w[2] { "vec" => { mirs[r].shrink_to_fit(); "rebuilt".into() } "vec_cap" => (if cap_na { "n/a" } else { "kept" }).into(), _ => fmt_cols(&mirror_cols(&mirs[r])) } })) }
                    // refs r <op> ...: element references <-> owned values (C15)
                    "refs" => { let r = reg(w[1]); let what = w[2];
                        let ri = exec(0, || -> String { match what {
                            "value_as_ref" => { let v = <T as Shape>::make(arg(3) as u32); let s = rids_s(&v.as_ref()); format!("{}/{}", s, el_ids(&v)) }
                            "value_as_mut" => { let mut v = <T as Shape>::make(arg(3) as u32); { let mut m = v.as_mut(); let l = arg(4) as i64; let mut j = l; <T as Shape>::rm_write(&mut m, &mut j, (arg(5) as u32) * 8 + l as u32); } el_ids(&v) }
                            "to_owned" => el_ids(&regs[r].index(arg(3)).to_owned()),
                            "from" => el_ids(&T::from(regs[r].index(arg(3)))),
                            "from_ref" => { let x = regs[r].index(arg(3)); el_ids(&T::from(&x)) }
                            "mut_to_owned" => el_ids(&regs[r].index_mut(arg(3)).to_owned()),
                            "from_mut" => el_ids(&T::from(regs[r].index_mut(arg(3)))),
                            "from_mut_ref" => { let x = regs[r].index_mut(arg(3)); el_ids(&T::from(&x)) }
                            _ => panic!("bad refs op") } });
                        let rs = exec(1, || -> String { match what {
                            "value_as_ref" => { let v = <T as Shape>::make(arg(3) as u32); format!("{}/{}", el_ids(&v), el_ids(&v)) }
                            "value_as_mut" => { let mut v = <T as Shape>::make(arg(3) as u32); let l = arg(4) as i64; let mut j = l; <T as Shape>::own_write(&mut v, &mut j, (arg(5) as u32) * 8 + l as u32); el_ids(&v) }
                            _ => el_ids(&mirs[r][arg(3)].clone()) } });
                        (ri, rs) }
                    "refreplace" => { let r = reg(w[1]); let (a, b) = (mk(0, arg(3)), mk(1, arg(3)));
                        (exec(0, || El(regs[r].index_mut(arg(2)).replace(a))), exec(1, || { let i = arg(2); El(std::mem::replace(&mut mirs[r][i], b)) })) }
                    // arm the user's Clone / Ord implementation to panic at its k-th call, on one side at a time:
                    // the next operation runs with the fuse re-armed for each side
                    "clonefuse" => { fuse = Some(("clone", w[1].parse().unwrap())); (exec(0, || {}), exec(1, || {})) }
                    "cmpfuse" => { fuse = Some(("cmp", w[1].parse().unwrap())); (exec(0, || {}), exec(1, || {})) }
                    _ => interp!(@clone $cl, w, regs, mirs, mk, arg, T, $V),
                };
                if pure {
                    emit(out, format!("I {} {} regs=~", n, ri));
                    emit(out, format!("S {} {} regs=~", n, rs));
                    continue;
                }
                let mut ic: Vec<String> = vec![]; let mut sc: Vec<String> = vec![];
                let mut overfull = false;
                for r in 0..NREG {
                    let mut c = vec![]; <T as Shape>::cols(&regs[r], &mut c); ic.push(fmt_cols(&c));
                    sc.push(fmt_cols(&mirror_cols(&mirs[r])));
                    // a field array holding more elements than its allocation: something was written past its end
                    let mut cp = vec![]; <T as Shape>::caps(&regs[r], &mut cp);
                    if c.iter().zip(cp.iter()).any(|(col, cap)| col.len() > *cap) { overfull = true; }
                }
                let ri = if overfull { format!("{} inb=false overfull=true", ri) } else { format!("{}", ri) };
                emit(out, format!("I {} {} regs={}", n, ri, ic.join(";")));
                emit(out, format!("S {} {} regs={}", n, rs, sc.join(";")));
            }
            if LIVE.with(|l| l.get()) { emit(out, "# step end".to_string()); }
            // final drop of every container: everything created must have been destroyed exactly once
            let fi = exec(0, || { regs.clear(); });
            let fs = exec(1, || { mirs.clear(); });
            let (ddi, leaki) = audit(0); let (dds, leaks) = audit(1);
            emit(out, format!("I end {} double_drop={} leak={}", fi, ddi, leaki));
            emit(out, format!("S end {} double_drop={} leak={}", fs, dds, leaks));
        }
    };
    (@clone yes, $w:ident, $regs:ident, $mirs:ident, $mk:ident, $arg:ident, $T:ident, $V:ident) => {
        match $w[0] {
            "resize" => { let r = reg($w[1]); let (a, b) = ($mk(0, $arg(3)), $mk(1, $arg(3)));
                (exec(0, || { $regs[r].resize($arg(2), a); }), exec(1, || { $mirs[r].resize($arg(2), b); })) }
            "to_vec" => { let (r, q) = (reg($w[1]), reg($w[2]));
                (exec(0, || { let t = $regs[r].as_slice().to_vec(); $regs[q] = t; }),
                 exec(1, || { let t = $mirs[r].as_slice().to_vec(); $mirs[q] = t; })) }
            "to_vec_sm" => { let (r, q) = (reg($w[1]), reg($w[2]));
                (exec(0, || { let t = $regs[r].as_mut_slice().to_vec(); $regs[q] = t; }),
                 exec(1, || { let t = $mirs[r].as_mut_slice().to_vec(); $mirs[q] = t; })) }
            "to_vec_ts" => { let (r, q) = (reg($w[1]), reg($w[2]));
                (exec(0, || { let t = ::soa_derive::ToSoAVec::to_vec(&$regs[r].as_slice()); $regs[q] = t; }),
                 exec(1, || { let t = $mirs[r].as_slice().to_vec(); $mirs[q] = t; })) }
            "to_vec_tsm" => { let (r, q) = (reg($w[1]), reg($w[2]));
                (exec(0, || { let t = ::soa_derive::ToSoAVec::to_vec(&$regs[r].as_mut_slice()); $regs[q] = t; }),
                 exec(1, || { let t = $mirs[r].as_mut_slice().to_vec(); $mirs[q] = t; })) }
            "extend_from_slice" => { let (r, q) = (reg($w[1]), reg($w[2]));
                (exec(0, || { let (a, b) = two_mut(&mut $regs, r, q); a.extend_from_slice(b.as_slice()); }),
                 exec(1, || { let (a, b) = two_mut(&mut $mirs, r, q); a.extend_from_slice(b.as_slice()); })) }
            "extend_refs" => { let (r, q) = (reg($w[1]), reg($w[2]));
                (exec(0, || { let (a, b) = two_mut(&mut $regs, r, q); a.extend(b.iter()); }),
                 exec(1, || { let (a, b) = two_mut(&mut $mirs, r, q); a.extend(b.iter().cloned()); })) }
            // the same through an adaptor without an exact size (size_hint().0 == 0)
            "extend_refs_f" => { let (r, q) = (reg($w[1]), reg($w[2]));
                (exec(0, || { let (a, b) = two_mut(&mut $regs, r, q); a.extend(b.iter().filter(|_| true)); }),
                 exec(1, || { let (a, b) = two_mut(&mut $mirs, r, q); a.extend(b.iter().filter(|_| true).cloned()); })) }
            _ => ("bad-op".to_string(), "bad-op".to_string()),
        }
    };
    (@clone no, $w:ident, $regs:ident, $mirs:ident, $mk:ident, $arg:ident, $T:ident, $V:ident) => {
        ("bad-op".to_string(), "bad-op".to_string())
    };
}

interp!(run_one, One, OneVec, OneSlice, OneSliceMut, OneRef, OneRefMut, OnePtr, OnePtrMut, OneIter, OneIterMut, yes);
interp!(run_two, Two, TwoVec, TwoSlice, TwoSliceMut, TwoRef, TwoRefMut, TwoPtr, TwoPtrMut, TwoIter, TwoIterMut, yes);
interp!(run_flat4, Flat4, Flat4Vec, Flat4Slice, Flat4SliceMut, Flat4Ref, Flat4RefMut, Flat4Ptr, Flat4PtrMut, Flat4Iter, Flat4IterMut, yes);
interp!(run_heap, Heap, HeapVec, HeapSlice, HeapSliceMut, HeapRef, HeapRefMut, HeapPtr, HeapPtrMut, HeapIter, HeapIterMut, yes);
interp!(run_drh, DrH, DrHVec, DrHSlice, DrHSliceMut, DrHRef, DrHRefMut, DrHPtr, DrHPtrMut, DrHIter, DrHIterMut, yes);
interp!(run_plc, PlC, PlCVec, PlCSlice, PlCSliceMut, PlCRef, PlCRefMut, PlCPtr, PlCPtrMut, PlCIter, PlCIterMut, yes);
interp!(run_drp, DrP, DrPVec, DrPSlice, DrPSliceMut, DrPRef, DrPRefMut, DrPPtr, DrPPtrMut, DrPIter, DrPIterMut, yes);
interp!(run_drn, DrN, DrNVec, DrNSlice, DrNSliceMut, DrNRef, DrNRefMut, DrNPtr, DrNPtrMut, DrNIter, DrNIterMut, yes);
interp!(run_drnn, DrNN, DrNNVec, DrNNSlice, DrNNSliceMut, DrNNRef, DrNNRefMut, DrNNPtr, DrNNPtrMut, DrNNIter, DrNNIterMut, yes);
interp!(run_nfirst, NFirst, NFirstVec, NFirstSlice, NFirstSliceMut, NFirstRef, NFirstRefMut, NFirstPtr, NFirstPtrMut, NFirstIter, NFirstIterMut, yes);
interp!(run_nfirstf, NFirstF, NFirstFVec, NFirstFSlice, NFirstFSliceMut, NFirstFRef, NFirstFRefMut, NFirstFPtr, NFirstFPtrMut, NFirstFIter, NFirstFIterMut, yes);
interp!(run_hyg, Hyg, HygVec, HygSlice, HygSliceMut, HygRef, HygRefMut, HygPtr, HygPtrMut, HygIter, HygIterMut, yes);
interp!(run_hygd0, HygD0, HygD0Vec, HygD0Slice, HygD0SliceMut, HygD0Ref, HygD0RefMut, HygD0Ptr, HygD0PtrMut, HygD0Iter, HygD0IterMut, yes);
interp!(run_hygd1, HygD1, HygD1Vec, HygD1Slice, HygD1SliceMut, HygD1Ref, HygD1RefMut, HygD1Ptr, HygD1PtrMut, HygD1Iter, HygD1IterMut, yes);
interp!(run_hygd2, HygD2, HygD2Vec, HygD2Slice, HygD2SliceMut, HygD2Ref, HygD2RefMut, HygD2Ptr, HygD2PtrMut, HygD2Iter, HygD2IterMut, yes);
interp!(run_hygd3, HygD3, HygD3Vec, HygD3Slice, HygD3SliceMut, HygD3Ref, HygD3RefMut, HygD3Ptr, HygD3PtrMut, HygD3Iter, HygD3IterMut, yes);
interp!(run_hygd4, HygD4, HygD4Vec, HygD4Slice, HygD4SliceMut, HygD4Ref, HygD4RefMut, HygD4Ptr, HygD4PtrMut, HygD4Iter, HygD4IterMut, yes);
interp!(run_npl, NPl, NPlVec, NPlSlice, NPlSliceMut, NPlRef, NPlRefMut, NPlPtr, NPlPtrMut, NPlIter, NPlIterMut, yes);
interp!(run_n2, N2, N2Vec, N2Slice, N2SliceMut, N2Ref, N2RefMut, N2Ptr, N2PtrMut, N2Iter, N2IterMut, yes);
interp!(run_zz, ZZ, ZZVec, ZZSlice, ZZSliceMut, ZZRef, ZZRefMut, ZZPtr, ZZPtrMut, ZZIter, ZZIterMut, yes);
interp!(run_nmid, NMid, NMidVec, NMidSlice, NMidSliceMut, NMidRef, NMidRefMut, NMidPtr, NMidPtrMut, NMidIter, NMidIterMut, yes);
interp!(run_nmidf, NMidF, NMidFVec, NMidFSlice, NMidFSliceMut, NMidFRef, NMidFRefMut, NMidFPtr, NMidFPtrMut, NMidFIter, NMidFIterMut, yes);
interp!(run_nlast, NLast, NLastVec, NLastSlice, NLastSliceMut, NLastRef, NLastRefMut, NLastPtr, NLastPtrMut, NLastIter, NLastIterMut, yes);
interp!(run_nlastf, NLastF, NLastFVec, NLastFSlice, NLastFSliceMut, NLastFRef, NLastFRefMut, NLastFPtr, NLastFPtrMut, NLastFIter, NLastFIterMut, yes);
interp!(run_deep, Deep, DeepVec, DeepSlice, DeepSliceMut, DeepRef, DeepRefMut, DeepPtr, DeepPtrMut, DeepIter, DeepIterMut, yes);
interp!(run_deepf, DeepF, DeepFVec, DeepFSlice, DeepFSliceMut, DeepFRef, DeepFRefMut, DeepFPtr, DeepFPtrMut, DeepFIter, DeepFIterMut, yes);

pub fn shape_desc(name: &str) -> Option<String> {
    // `drops=1:<leaves>`: the leaf indices (declaration order) that name the destructor of a NESTED struct implementing `Drop`
    fn d<T: Shape>() -> String { let mut s = String::new(); T::desc(&mut s); format!("{} drops={}{} {}", T::NAME, T::DROPS as u8, if T::NAME == "DrNN" { ":1" } else { "" }, s.trim()) }
    Some(match name {
        "One" => d::<One>(), "Two" => d::<Two>(), "Flat4" => d::<Flat4>(), "Heap" => d::<Heap>(),
        "DrH" => d::<DrH>(), "DrN" => d::<DrN>(), "DrNN" => d::<DrNN>(), "DrP" => d::<DrP>(), "PlC" => d::<PlC>(), "NFirst" => d::<NFirst>(), "NFirstF" => d::<NFirstF>(),
        "Hyg" => d::<Hyg>(), "N2" => d::<N2>(), "ZZ" => d::<ZZ>(), "NMid" => d::<NMid>(), "NMidF" => d::<NMidF>(), "NLast" => d::<NLast>(), "NLastF" => d::<NLastF>(),
        "Deep" => d::<Deep>(), "DeepF" => d::<DeepF>(),
        "NPl" => d::<NPl>(), "HygD0" => d::<HygD0>(), "HygD1" => d::<HygD1>(), "HygD2" => d::<HygD2>(), "HygD3" => d::<HygD3>(), "HygD4" => d::<HygD4>(), _ => return None })
}
pub const SHAPES: &[&str] = &["One", "Two", "Flat4", "Heap", "DrH", "DrN", "DrNN", "DrP", "PlC", "NFirst", "NFirstF", "Hyg", "N2", "ZZ", "NMid", "NMidF", "NLast", "NLastF", "Deep", "DeepF", "NPl", "HygD0", "HygD1", "HygD2", "HygD3", "HygD4"];

pub fn run_shape(name: &str, lines: &[&str], out: &mut String) -> bool {
    match name {
        "One" => run_one(lines, out), "Two" => run_two(lines, out), "Flat4" => run_flat4(lines, out), "Heap" => run_heap(lines, out),
        "DrH" => run_drh(lines, out), "DrN" => run_drn(lines, out), "DrNN" => run_drnn(lines, out), "DrP" => run_drp(lines, out), "PlC" => run_plc(lines, out), "NFirst" => run_nfirst(lines, out), "NFirstF" => run_nfirstf(lines, out),
        "Hyg" => run_hyg(lines, out), "N2" => run_n2(lines, out), "ZZ" => run_zz(lines, out), "NMid" => run_nmid(lines, out), "NMidF" => run_nmidf(lines, out), "NLast" => run_nlast(lines, out), "NLastF" => run_nlastf(lines, out),
        "Deep" => run_deep(lines, out), "DeepF" => run_deepf(lines, out),
        "NPl" => run_npl(lines, out), "HygD0" => run_hygd0(lines, out), "HygD1" => run_hygd1(lines, out), "HygD2" => run_hygd2(lines, out), "HygD3" => run_hygd3(lines, out), "HygD4" => run_hygd4(lines, out), _ => return false }
    true
}
