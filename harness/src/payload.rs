//! Instrumented leaf payloads.  Every instance carries an id (`tag * 8 + leaf index`, < 256);
//! two count ledgers (side 0 = the generated SoA code, side 1 = the std mirror) observe
//! creation, clone and drop.  A bitwise duplicate that is dropped twice drives a count
//! negative — a double drop is *observed*, never suffered (no payload operation is UB on a
//! duplicated value: the heap-owning payload leaks its box instead of freeing it).
use std::cell::{Cell, RefCell};
use std::collections::BTreeMap;

#[derive(Default)]
pub struct Ledger {
    pub live: BTreeMap<u32, i64>,
    pub zst_live: i64,
    pub events: Vec<String>,
    pub double_drop: bool,
}

thread_local! {
    pub static SIDE: Cell<usize> = const { Cell::new(0) };
    pub static LEDGERS: RefCell<[Ledger; 2]> = RefCell::new([Ledger::default(), Ledger::default()]);
    /// number of further `Clone::clone` calls that succeed; negative = unarmed
    pub static CLONE_FUSE: Cell<i64> = const { Cell::new(-1) };
    /// number of further payload comparisons (`Ord::cmp`) that succeed; negative = unarmed
    pub static CMP_FUSE: Cell<i64> = const { Cell::new(-1) };
    /// total number of payload clones (distribution statistics)
    pub static CLONES: Cell<u64> = const { Cell::new(0) };
}

pub fn set_side(s: usize) { SIDE.with(|c| c.set(s)); }
fn with_ledger<R>(f: impl FnOnce(&mut Ledger) -> R) -> R {
    let s = SIDE.with(|c| c.get());
    LEDGERS.with(|l| f(&mut l.borrow_mut()[s]))
}
pub fn ev(s: String) { with_ledger(|l| l.events.push(s)); }
pub fn take_events(side: usize) -> Vec<String> {
    LEDGERS.with(|l| { let mut e = std::mem::take(&mut l.borrow_mut()[side].events); e.sort(); e })
}
pub fn reset_ledgers() {
    LEDGERS.with(|l| *l.borrow_mut() = [Ledger::default(), Ledger::default()]);
    CLONE_FUSE.with(|c| c.set(-1));
    CMP_FUSE.with(|c| c.set(-1));
}
/// (double drop seen, something still live) for a side
pub fn audit(side: usize) -> (bool, bool) {
    LEDGERS.with(|l| {
        let l = &l.borrow()[side];
        (l.double_drop, l.live.values().any(|c| *c != 0) || l.zst_live != 0)
    })
}
pub fn double_drop_seen(side: usize) -> bool { LEDGERS.with(|l| l.borrow()[side].double_drop) }
pub fn arm_clone_fuse(k: i64) { CLONE_FUSE.with(|c| c.set(k)); }
pub fn arm_cmp_fuse(k: i64) { CMP_FUSE.with(|c| c.set(k)); }
fn cmp_tick() {
    let boom = CMP_FUSE.with(|c| {
        let v = c.get();
        if v == 0 { c.set(-1); true } else { if v > 0 { c.set(v - 1); } false }
    });
    if boom { panic!("cmp fuse") }
}

fn created(id: u32) { with_ledger(|l| *l.live.entry(id).or_insert(0) += 1); }
fn dropped(id: u32) {
    with_ledger(|l| {
        let c = l.live.entry(id).or_insert(0);
        *c -= 1;
        if *c < 0 { l.double_drop = true; }
        l.events.push(format!("d{}", id));
    });
}
fn clone_tick() {
    CLONES.with(|c| c.set(c.get() + 1));
    let boom = CLONE_FUSE.with(|c| {
        let v = c.get();
        if v == 0 { c.set(-1); true } else { if v > 0 { c.set(v - 1); } false }
    });
    if boom { panic!("clone fuse") }
}

/// The payloads' order.  Leaf number `j` of an element (id = `tag * 8 + j`) is ordered by bit `j % 5` of the element's tag
/// alone: two elements tie on most fields, so the natural order of a struct (derived `Ord`: lexicographic over the
/// fields in declaration order) depends on every field and on their order — not on the first field only, as it would
/// with ids compared as numbers.
pub fn okey(id: u32) -> u32 { ((id / 8) >> ((id % 8) % 5)) & 1 }
macro_rules! ord_by_okey { ($t:ty, $tick:expr) => {
    impl Ord for $t { fn cmp(&self, o: &Self) -> std::cmp::Ordering { if $tick { cmp_tick(); } okey(self.ident()).cmp(&okey(o.ident())) } }
    impl PartialOrd for $t { fn partial_cmp(&self, o: &Self) -> Option<std::cmp::Ordering> { Some(self.cmp(o)) } }
} }

pub trait Leaf: Sized {
    /// `z` zero-sized, `b` one byte, `s` 2..=1024 bytes, `l` > 1024 bytes, `h` heap-owning, `p` plain data without destructor
    const KIND: char;
    fn make(id: u32) -> Self;
    fn ident(&self) -> u32;
}

/// payload of `4 + N` bytes
#[derive(Debug, PartialEq, Eq, Hash)]
pub struct Tk<const N: usize> { pub id: u32, pad: [u8; N] }
/// the user's `Ord` implementation: may be told to panic at its k-th call (`cmpfuse`)
impl<const N: usize> Ord for Tk<N> { fn cmp(&self, o: &Self) -> std::cmp::Ordering { cmp_tick(); okey(self.id).cmp(&okey(o.id)) } }
impl<const N: usize> PartialOrd for Tk<N> { fn partial_cmp(&self, o: &Self) -> Option<std::cmp::Ordering> { Some(self.cmp(o)) } }
impl<const N: usize> Tk<N> { pub fn new(id: u32) -> Self { created(id); Tk { id, pad: [0xAB; N] } } }
impl<const N: usize> Drop for Tk<N> { fn drop(&mut self) { dropped(self.id) } }
impl<const N: usize> Clone for Tk<N> {
    fn clone(&self) -> Self { clone_tick(); ev(format!("c{}", self.id)); Tk::new(self.id) }
}
impl<const N: usize> Leaf for Tk<N> {
    const KIND: char = if N + 4 > 1024 { 'l' } else { 's' };
    fn make(id: u32) -> Self { Tk::new(id) }
    fn ident(&self) -> u32 { self.id }
}

/// one-byte payload (std growth class 8)
#[derive(Debug, PartialEq, Eq, Hash)]
pub struct B1(pub u8);
ord_by_okey!(B1, false);
impl B1 { pub fn new(id: u32) -> Self { assert!(id < 256); created(id); B1(id as u8) } }
impl Drop for B1 { fn drop(&mut self) { dropped(self.0 as u32) } }
impl Clone for B1 {
    fn clone(&self) -> Self { clone_tick(); ev(format!("c{}", self.0)); B1::new(self.0 as u32) }
}
impl Leaf for B1 {
    const KIND: char = 'b';
    fn make(id: u32) -> Self { B1::new(id) }
    fn ident(&self) -> u32 { self.0 as u32 }
}

/// zero-sized payload: counted, not identified
#[derive(Debug, PartialEq, Eq, PartialOrd, Ord, Hash)]
pub struct Z;
impl Z { pub fn new() -> Self { with_ledger(|l| l.zst_live += 1); Z } }
impl Drop for Z {
    fn drop(&mut self) {
        with_ledger(|l| { l.zst_live -= 1; if l.zst_live < 0 { l.double_drop = true } l.events.push("dz".into()); });
    }
}
impl Clone for Z { fn clone(&self) -> Self { clone_tick(); ev("cz".into()); Z::new() } }
impl Leaf for Z {
    const KIND: char = 'z';
    fn make(_: u32) -> Self { Z::new() }
    fn ident(&self) -> u32 { 0 }
}

/// heap-owning payload.  The box is deliberately leaked (never freed): a bitwise duplicate
/// dropped twice is then counted by the ledger instead of being a double free, and reading
/// the id of a duplicate is always defined.
#[derive(Debug, PartialEq, Eq, Hash)]
pub struct Hp(pub std::mem::ManuallyDrop<Box<u32>>);
ord_by_okey!(Hp, false);
impl Hp { pub fn new(id: u32) -> Self { created(id); Hp(std::mem::ManuallyDrop::new(Box::new(id))) } }
impl Drop for Hp { fn drop(&mut self) { dropped(**self.0) } }
impl Clone for Hp {
    fn clone(&self) -> Self { clone_tick(); ev(format!("c{}", **self.0)); Hp::new(**self.0) }
}
impl Leaf for Hp {
    const KIND: char = 'h';
    fn make(id: u32) -> Self { Hp::new(id) }
    fn ident(&self) -> u32 { **self.0 }
}

/// plain data: no destructor, not tracked by the ledger (`needs_drop::<Pl>() == false`)
#[derive(Debug, Clone, Copy, PartialEq, Eq, Hash)]
pub struct Pl(pub u32);
ord_by_okey!(Pl, false);
impl Leaf for Pl {
    const KIND: char = 'p';
    fn make(id: u32) -> Self { Pl(id) }
    fn ident(&self) -> u32 { self.0 }
}

/// plain data with a user-written `Clone` (the clone fuse applies) but no destructor and not `Copy`:
/// a struct made of these has no drop glue at all (`needs_drop == false`)
#[derive(Debug, PartialEq, Eq, Hash)]
pub struct Pc(pub u32);
ord_by_okey!(Pc, false);
impl Clone for Pc { fn clone(&self) -> Self { clone_tick(); Pc(self.0) } }
impl Leaf for Pc {
    const KIND: char = 'p';
    fn make(id: u32) -> Self { Pc(id) }
    fn ident(&self) -> u32 { self.0 }
}

/// struct-level destructor event (logged by the `Drop` impl of a shape struct)
pub fn struct_dropped(first_leaf_id: u32) { ev(format!("T{}", first_leaf_id)); }
/// destructor of a NESTED struct that implements `Drop`: counted, not named (its first leaf may have been overwritten
/// through a mutable reference; which values die is recorded by the field events)
pub fn nested_struct_dropped() { ev("N".to_string()); }
