//! soa-harness: correspondence harness for the generated SoA code.
//!   soa-harness run <scenario-file>     run scenarios, print observation lines
//!   soa-harness shapes                  print the shape descriptors (for the Lean model)
#![allow(dead_code, unused_imports)]
mod payload;
mod shapes;
mod interp;

use std::io::Write;

fn main() {
    // panics are expected and silent — except std's checks of unsafe preconditions (debug builds), which do
    // not unwind: their message is the only trace of an unchecked out-of-bounds access
    std::panic::set_hook(Box::new(|info| {
        let msg = info.to_string();
        if msg.contains("unsafe precondition") { eprintln!("UBCHECK: {}", msg.replace('\n', " ")); }
    }));
    let args: Vec<String> = std::env::args().collect();
    match args.get(1).map(|s| s.as_str()) {
        Some("shapes") => {
            for s in interp::SHAPES { println!("shape {}", interp::shape_desc(s).unwrap()); }
        }
        Some("run") | Some("run1") => {
            // run1 <file> <k>: only scenario k, every line printed as soon as it is produced
            let only: Option<usize> = if args[1] == "run1" { interp::LIVE.with(|l| l.set(true)); Some(args[3].parse().unwrap()) } else { None };
            // run <file> [start]: skip the first `start` scenarios (resuming after a scenario that killed the process)
            let start: usize = if args[1] == "run" && args.len() > 3 { args[3].parse().unwrap() } else { 0 };
            let stop: usize = if args[1] == "run" && args.len() > 4 { args[4].parse().unwrap() } else { usize::MAX };
            let text = std::fs::read_to_string(&args[2]).expect("scenario file");
            let lines: Vec<&str> = text.lines().filter(|l| !l.trim().is_empty() && !l.starts_with('#')).collect();
            let stdout = std::io::stdout();
            let mut i = 0;
            let mut k = 0;
            while i < lines.len() {
                let head: Vec<&str> = lines[i].split_whitespace().collect();
                assert!(head[0] == "shape", "scenario must start with a shape line: {}", lines[i]);
                let mut j = i + 1;
                while j < lines.len() && !lines[j].starts_with("shape ") { j += 1; }
                if (only.is_some() && only != Some(k)) || k < start || k >= stop { i = j; k += 1; continue; }
                let mut out = String::new();
                let head_line = format!("# scenario {} shape {}\n", k, interp::shape_desc(head[1]).unwrap_or_else(|| "unknown".into()));
                if only.is_some() { let mut l = stdout.lock(); l.write_all(head_line.as_bytes()).unwrap(); l.flush().unwrap(); } else { out.push_str(&head_line); }
                if !interp::run_shape(head[1], &lines[i + 1..j], &mut out) { out.push_str("bad-shape\n"); }
                if only.is_some() { return; }
                { let mut l = stdout.lock(); l.write_all(out.as_bytes()).unwrap(); l.flush().unwrap(); }
                i = j; k += 1;
            }
        }
        _ => { eprintln!("usage: soa-harness run <file> | shapes"); std::process::exit(2); }
    }
}
