//! The fixed family of struct shapes the correspondence runs on, each with the real
//! `#[derive(StructOfArray)]`, plus the generic plumbing (`Shape`) that lets the interpreter
//! build elements, read leaf ids out of every generated type and write single leaves.
#![allow(clippy::all)]
use crate::payload::*;
use soa_derive::StructOfArray;

pub trait Shape: Sized + 'static {
    const NAME: &'static str;
    /// does the struct itself implement `Drop`
    const DROPS: bool;
    type V;
    type S<'a>: Copy;
    type SM<'a>;
    type R<'a>: Copy;
    type RM<'a>;
    type P: Copy;
    type PM: Copy;
    /// shape tree for the Lean model, e.g. `( s ( s b ) s )`
    fn desc(out: &mut String);
    fn make_at(tag: u32, j: &mut u32) -> Self;
    fn make(tag: u32) -> Self { let mut j = 0; Self::make_at(tag, &mut j) }
    fn ids(&self, out: &mut Vec<u32>);
    fn cols(v: &Self::V, out: &mut Vec<Vec<u32>>);
    fn caps(v: &Self::V, out: &mut Vec<usize>);
    fn bases(v: &Self::V, out: &mut Vec<usize>);
    fn scols(s: &Self::S<'_>, out: &mut Vec<Vec<u32>>);
    fn smcols(s: &Self::SM<'_>, out: &mut Vec<Vec<u32>>);
    fn rids(r: &Self::R<'_>, out: &mut Vec<u32>);
    fn rmids(r: &Self::RM<'_>, out: &mut Vec<u32>);
    /// addresses of the leaves a reference points to
    fn raddrs(r: &Self::R<'_>, out: &mut Vec<usize>);
    fn rmaddrs(r: &Self::RM<'_>, out: &mut Vec<usize>);
    /// (base address, len, element size) of every leaf array of a slice
    fn sspans(s: &Self::S<'_>, out: &mut Vec<(usize, usize, usize)>);
    fn smspans(s: &Self::SM<'_>, out: &mut Vec<(usize, usize, usize)>);
    fn vspans(v: &Self::V, out: &mut Vec<(usize, usize, usize)>);
    /// write leaf number `*j` (counted down to 0) with a fresh payload `id`
    fn rm_write(r: &mut Self::RM<'_>, j: &mut i64, id: u32);
    fn own_write(e: &mut Self, j: &mut i64, id: u32);
    fn paddrs(p: &Self::P, out: &mut Vec<usize>);
    fn pmaddrs(p: &Self::PM, out: &mut Vec<usize>);
    /// make component `*j` of a pointer bundle null
    fn pnull(p: &mut Self::P, j: &mut i64);
    fn pmnull(p: &mut Self::PM, j: &mut i64);
    /// pop / push / clear one leaf array directly through the public fields (desynchronise)
    fn desync(v: &mut Self::V, j: &mut i64, what: &str, id: u32);
    fn nleaves() -> usize { let mut s = String::new(); Self::desc(&mut s); s.chars().filter(|c| "zbslhp".contains(*c)).count() }
}

#[macro_export]
macro_rules! shape {
    ($T:ident, $V:ident, $S:ident, $SM:ident, $R:ident, $RM:ident, $P:ident, $PM:ident, drops=$dr:expr,
     [$( ($f:ident $kind:tt $ty:ty) ),*]) => {
        impl Shape for $T {
            const NAME: &'static str = stringify!($T);
            const DROPS: bool = $dr;
            type V = $V; type S<'a> = $S<'a>; type SM<'a> = $SM<'a>;
            type R<'a> = $R<'a>; type RM<'a> = $RM<'a>; type P = $P; type PM = $PM;
            fn desc(out: &mut String) { out.push_str("( "); $( shape!(@desc $kind $ty, out); )* out.push_str(") "); }
            fn make_at(tag: u32, j: &mut u32) -> Self { $( let $f = shape!(@make $kind $ty, tag, j); )* $T { $($f),* } }
            fn ids(&self, out: &mut Vec<u32>) { $( shape!(@ids $kind (self.$f), out); )* }
            fn cols(v: &$V, out: &mut Vec<Vec<u32>>) { $( shape!(@cols $kind $ty, (v.$f), out, cols); )* }
            fn caps(v: &$V, out: &mut Vec<usize>) { $( shape!(@caps $kind $ty, (v.$f), out); )* }
            fn bases(v: &$V, out: &mut Vec<usize>) { $( shape!(@bases $kind $ty, (v.$f), out); )* }
            fn scols(s: &$S<'_>, out: &mut Vec<Vec<u32>>) { $( shape!(@cols $kind $ty, (s.$f), out, scols); )* }
            fn smcols(s: &$SM<'_>, out: &mut Vec<Vec<u32>>) { $( shape!(@cols $kind $ty, (s.$f), out, smcols); )* }
            fn rids(r: &$R<'_>, out: &mut Vec<u32>) { $( shape!(@rids $kind $ty, (r.$f), out, rids); )* }
            fn rmids(r: &$RM<'_>, out: &mut Vec<u32>) { $( shape!(@rids $kind $ty, (r.$f), out, rmids); )* }
            fn raddrs(r: &$R<'_>, out: &mut Vec<usize>) { $( shape!(@raddrs $kind $ty, (r.$f), out, raddrs); )* }
            fn rmaddrs(r: &$RM<'_>, out: &mut Vec<usize>) { $( shape!(@rmaddrs $kind $ty, (r.$f), out, rmaddrs); )* }
            fn sspans(s: &$S<'_>, out: &mut Vec<(usize, usize, usize)>) { $( shape!(@spans $kind $ty, (s.$f), out, sspans); )* }
            fn smspans(s: &$SM<'_>, out: &mut Vec<(usize, usize, usize)>) { $( shape!(@spans $kind $ty, (s.$f), out, smspans); )* }
            fn vspans(v: &$V, out: &mut Vec<(usize, usize, usize)>) { $( shape!(@spans $kind $ty, (v.$f), out, vspans); )* }
            fn rm_write(r: &mut $RM<'_>, j: &mut i64, id: u32) { $( shape!(@rmw $kind $ty, (r.$f), j, id); )* }
            fn own_write(e: &mut $T, j: &mut i64, id: u32) { $( shape!(@ownw $kind $ty, (e.$f), j, id); )* }
            fn paddrs(p: &$P, out: &mut Vec<usize>) { $( shape!(@paddrs $kind $ty, (p.$f), out, paddrs); )* }
            fn pmaddrs(p: &$PM, out: &mut Vec<usize>) { $( shape!(@paddrs $kind $ty, (p.$f), out, pmaddrs); )* }
            fn pnull(p: &mut $P, j: &mut i64) { $( shape!(@pnull $kind $ty, (p.$f), j, pnull, null); )* }
            fn pmnull(p: &mut $PM, j: &mut i64) { $( shape!(@pnull $kind $ty, (p.$f), j, pmnull, null_mut); )* }
            fn desync(v: &mut $V, j: &mut i64, what: &str, id: u32) { $( shape!(@desync $kind $ty, (v.$f), j, what, id); )* }
        }
    };
    (@desc leaf $ty:ty, $out:expr) => { $out.push(<$ty as Leaf>::KIND); $out.push(' '); };
    (@desc nested $ty:ty, $out:expr) => { <$ty as Shape>::desc($out); };
    (@make leaf $ty:ty, $tag:expr, $j:expr) => {{ let id = $tag * 8 + *$j; *$j += 1; <$ty as Leaf>::make(id) }};
    (@make nested $ty:ty, $tag:expr, $j:expr) => { <$ty as Shape>::make_at($tag, $j) };
    (@ids leaf ($e:expr), $out:expr) => { $out.push($e.ident()) };
    (@ids nested ($e:expr), $out:expr) => { $e.ids($out) };
    (@cols leaf $ty:ty, ($e:expr), $out:expr, $m:ident) => { $out.push($e.iter().map(|x| x.ident()).collect()) };
    (@cols nested $ty:ty, ($e:expr), $out:expr, $m:ident) => { <$ty as Shape>::$m(&$e, $out) };
    (@caps leaf $ty:ty, ($e:expr), $out:expr) => { $out.push($e.capacity()) };
    (@caps nested $ty:ty, ($e:expr), $out:expr) => { <$ty as Shape>::caps(&$e, $out) };
    (@bases leaf $ty:ty, ($e:expr), $out:expr) => { $out.push($e.as_ptr() as usize) };
    (@bases nested $ty:ty, ($e:expr), $out:expr) => { <$ty as Shape>::bases(&$e, $out) };
    (@rids leaf $ty:ty, ($e:expr), $out:expr, $m:ident) => { $out.push($e.ident()) };
    (@rids nested $ty:ty, ($e:expr), $out:expr, $m:ident) => { <$ty as Shape>::$m(&$e, $out) };
    (@raddrs leaf $ty:ty, ($e:expr), $out:expr, $m:ident) => { $out.push($e as *const $ty as usize) };
    (@raddrs nested $ty:ty, ($e:expr), $out:expr, $m:ident) => { <$ty as Shape>::$m(&$e, $out) };
    (@rmaddrs leaf $ty:ty, ($e:expr), $out:expr, $m:ident) => { $out.push(&*$e as *const $ty as usize) };
    (@rmaddrs nested $ty:ty, ($e:expr), $out:expr, $m:ident) => { <$ty as Shape>::$m(&$e, $out) };
    (@spans leaf $ty:ty, ($e:expr), $out:expr, $m:ident) => { $out.push(($e.as_ptr() as usize, $e.len(), std::mem::size_of::<$ty>())) };
    (@spans nested $ty:ty, ($e:expr), $out:expr, $m:ident) => { <$ty as Shape>::$m(&$e, $out) };
    (@rmw leaf $ty:ty, ($e:expr), $j:expr, $id:expr) => { if *$j == 0 { *$e = <$ty as Leaf>::make($id); } *$j -= 1; };
    (@rmw nested $ty:ty, ($e:expr), $j:expr, $id:expr) => { <$ty as Shape>::rm_write(&mut $e, $j, $id) };
    (@ownw leaf $ty:ty, ($e:expr), $j:expr, $id:expr) => { if *$j == 0 { $e = <$ty as Leaf>::make($id); } *$j -= 1; };
    (@ownw nested $ty:ty, ($e:expr), $j:expr, $id:expr) => { <$ty as Shape>::own_write(&mut $e, $j, $id) };
    (@paddrs leaf $ty:ty, ($e:expr), $out:expr, $m:ident) => { $out.push($e as usize) };
    (@paddrs nested $ty:ty, ($e:expr), $out:expr, $m:ident) => { <$ty as Shape>::$m(&$e, $out) };
    (@pnull leaf $ty:ty, ($e:expr), $j:expr, $m:ident, $n:ident) => { if *$j == 0 { $e = std::ptr::$n(); } *$j -= 1; };
    (@pnull nested $ty:ty, ($e:expr), $j:expr, $m:ident, $n:ident) => { <$ty as Shape>::$m(&mut $e, $j) };
    (@desync leaf $ty:ty, ($e:expr), $j:expr, $what:expr, $id:expr) => {
        if *$j == 0 { match $what { "pop" => { $e.pop(); } "push" => { $e.push(<$ty as Leaf>::make($id)); } "clear" => { $e.clear(); }
            // grow this one field array until it is exactly full (len == capacity), at least one element
            "fill" => { $e.push(<$ty as Leaf>::make($id)); while $e.len() < $e.capacity() && $e.len() < 64 { $e.push(<$ty as Leaf>::make($id)); } }
            _ => panic!("bad desync") } }
        *$j -= 1;
    };
    (@desync nested $ty:ty, ($e:expr), $j:expr, $what:expr, $id:expr) => { <$ty as Shape>::desync(&mut $e, $j, $what, $id) };
}

macro_rules! soa_struct {
    (clone, $(#[$m:meta])* pub struct $T:ident { $($body:tt)* }) => {
        #[derive(Debug, Clone, PartialEq, Eq, PartialOrd, Ord, StructOfArray)]
        #[soa_derive(Debug, Clone, PartialEq, Eq, PartialOrd, Ord)]
        $(#[$m])*
        pub struct $T { $($body)* }
    };
    (noclone, $(#[$m:meta])* pub struct $T:ident { $($body:tt)* }) => {
        #[derive(Debug, Clone, PartialEq, Eq, PartialOrd, Ord, StructOfArray)]
        #[soa_derive(Debug, PartialEq, Eq, PartialOrd, Ord)]
        $(#[$m])*
        pub struct $T { $($body)* }
    };
}

soa_struct!(clone, pub struct One { pub a: Tk<0> });
shape!(One, OneVec, OneSlice, OneSliceMut, OneRef, OneRefMut, OnePtr, OnePtrMut, drops=false, [(a leaf Tk<0>)]);

soa_struct!(clone, pub struct Two { pub flag: B1, pub x: Tk<4> });
shape!(Two, TwoVec, TwoSlice, TwoSliceMut, TwoRef, TwoRefMut, TwoPtr, TwoPtrMut, drops=false, [(flag leaf B1), (x leaf Tk<4>)]);

soa_struct!(clone, pub struct Flat4 { pub z: Z, pub b: B1, pub k: Tk<12>, pub big: Tk<2044> });
shape!(Flat4, Flat4Vec, Flat4Slice, Flat4SliceMut, Flat4Ref, Flat4RefMut, Flat4Ptr, Flat4PtrMut, drops=false,
    [(z leaf Z), (b leaf B1), (k leaf Tk<12>), (big leaf Tk<2044>)]);

soa_struct!(clone, pub struct Heap { pub h: Hp, pub v: Tk<0> });
shape!(Heap, HeapVec, HeapSlice, HeapSliceMut, HeapRef, HeapRefMut, HeapPtr, HeapPtrMut, drops=false, [(h leaf Hp), (v leaf Tk<0>)]);

soa_struct!(clone, pub struct Inner { pub x: Tk<0>, pub y: B1 });
shape!(Inner, InnerVec, InnerSlice, InnerSliceMut, InnerRef, InnerRefMut, InnerPtr, InnerPtrMut, drops=false, [(x leaf Tk<0>), (y leaf B1)]);

// struct-level destructors (with the Clone API since /repo 72750cf; before, `resize` did not compile for a `Drop` struct)
soa_struct!(clone, pub struct DrH { pub a: Tk<0>, pub h: Hp });
impl Drop for DrH { fn drop(&mut self) { struct_dropped(self.a.id) } }
shape!(DrH, DrHVec, DrHSlice, DrHSliceMut, DrHRef, DrHRefMut, DrHPtr, DrHPtrMut, drops=true, [(a leaf Tk<0>), (h leaf Hp)]);

soa_struct!(clone, pub struct DrN { pub a: Tk<0>, #[nested_soa] pub n: Inner });
impl Drop for DrN { fn drop(&mut self) { struct_dropped(self.a.id) } }
shape!(DrN, DrNVec, DrNSlice, DrNSliceMut, DrNRef, DrNRefMut, DrNPtr, DrNPtrMut, drops=true, [(a leaf Tk<0>), (n nested Inner)]);

// a `Drop` struct whose nested SoA field is itself a `Drop` struct: two destructors per element
soa_struct!(clone, pub struct InnerD { pub x: Tk<0>, pub y: B1 });
impl Drop for InnerD { fn drop(&mut self) { nested_struct_dropped() } }
shape!(InnerD, InnerDVec, InnerDSlice, InnerDSliceMut, InnerDRef, InnerDRefMut, InnerDPtr, InnerDPtrMut, drops=true, [(x leaf Tk<0>), (y leaf B1)]);
soa_struct!(clone, pub struct DrNN { pub a: Tk<0>, #[nested_soa] pub n: InnerD });
impl Drop for DrNN { fn drop(&mut self) { struct_dropped(self.a.id) } }
shape!(DrNN, DrNNVec, DrNNSlice, DrNNSliceMut, DrNNRef, DrNNRefMut, DrNNPtr, DrNNPtrMut, drops=true, [(a leaf Tk<0>), (n nested InnerD)]);

// a `Drop` struct made of plain data only: no field needs dropping, the struct still does
soa_struct!(clone, pub struct DrP { pub a: Pl, pub b: Pl });
impl Drop for DrP { fn drop(&mut self) { struct_dropped(self.a.0) } }
shape!(DrP, DrPVec, DrPSlice, DrPSliceMut, DrPRef, DrPRefMut, DrPPtr, DrPPtrMut, drops=true, [(a leaf Pl), (b leaf Pl)]);

// plain data with a user-written Clone and no drop glue anywhere (`needs_drop::<PlC>() == false`)
soa_struct!(clone, pub struct PlC { pub a: Pc, pub b: Pc });
shape!(PlC, PlCVec, PlCSlice, PlCSliceMut, PlCRef, PlCRefMut, PlCPtr, PlCPtrMut, drops=false, [(a leaf Pc), (b leaf Pc)]);

// nested SoA in first / middle / last position, two levels deep, and the flattened twins
soa_struct!(clone, pub struct NFirst { #[nested_soa] pub n: Inner, pub c: Tk<4> });
shape!(NFirst, NFirstVec, NFirstSlice, NFirstSliceMut, NFirstRef, NFirstRefMut, NFirstPtr, NFirstPtrMut, drops=false, [(n nested Inner), (c leaf Tk<4>)]);
soa_struct!(clone, pub struct NFirstF { pub x: Tk<0>, pub y: B1, pub c: Tk<4> });
shape!(NFirstF, NFirstFVec, NFirstFSlice, NFirstFSliceMut, NFirstFRef, NFirstFRefMut, NFirstFPtr, NFirstFPtrMut, drops=false, [(x leaf Tk<0>), (y leaf B1), (c leaf Tk<4>)]);

// field names that are also names of locals and parameters inside the generated code (`index`, `len`, `value`, `other`,
// `field`, `val`), `val` last and `Copy` (a capture of the parameter `val` then still type-checks), `field` followed by a
// member of its own type (a capture of the per-field temporary `field` then still type-checks)
// (written out, not through `soa_struct!`: identifiers that pass through a `macro_rules!` expansion get another hygiene
//  context than the derive's own locals and could never capture them — the other shapes cannot show such a capture)
#[derive(Debug, Clone, PartialEq, Eq, PartialOrd, Ord, StructOfArray)]
#[soa_derive(Debug, Clone, PartialEq, Eq, PartialOrd, Ord)]
pub struct Hyg { pub index: Tk<0>, pub len: B1, pub value: Tk<4>, pub other: Tk<4>, pub field: Pl, pub val: Pl }
shape!(Hyg, HygVec, HygSlice, HygSliceMut, HygRef, HygRefMut, HygPtr, HygPtrMut, drops=false,
    [(index leaf Tk<0>), (len leaf B1), (value leaf Tk<4>), (other leaf Tk<4>), (field leaf Pl), (val leaf Pl)]);

// a nested shape without any drop glue (plain `Copy` data only): `needs_drop::<NPl>() == false` selects the code paths that
// skip destructors, and they have their own nested-field arms
soa_struct!(clone, pub struct InPl { pub x: Pl, pub y: Pc });
shape!(InPl, InPlVec, InPlSlice, InPlSliceMut, InPlRef, InPlRefMut, InPlPtr, InPlPtrMut, drops=false, [(x leaf Pl), (y leaf Pc)]);
soa_struct!(clone, pub struct NPl { pub a: Pl, #[nested_soa] pub n: InPl, pub c: Pc });
shape!(NPl, NPlVec, NPlSlice, NPlSliceMut, NPlRef, NPlRefMut, NPlPtr, NPlPtrMut, drops=false, [(a leaf Pl), (n nested InPl), (c leaf Pc)]);

// five more hygiene shapes whose field names are regenerated on every run from the locals the translator finds in /repo
include!("hygdyn_gen.rs");

// every field nested, the same nested type twice (a swap of the two nested columns type-checks); only zero-sized fields
soa_struct!(clone, pub struct N2 { #[nested_soa] pub p: Inner, #[nested_soa] pub q: Inner });
shape!(N2, N2Vec, N2Slice, N2SliceMut, N2Ref, N2RefMut, N2Ptr, N2PtrMut, drops=false, [(p nested Inner), (q nested Inner)]);
soa_struct!(clone, pub struct ZZ { pub z1: Z, pub z2: Z });
shape!(ZZ, ZZVec, ZZSlice, ZZSliceMut, ZZRef, ZZRefMut, ZZPtr, ZZPtrMut, drops=false, [(z1 leaf Z), (z2 leaf Z)]);

soa_struct!(clone, pub struct NMid { pub a: Tk<4>, #[nested_soa] pub n: Inner, pub c: Tk<0> });
shape!(NMid, NMidVec, NMidSlice, NMidSliceMut, NMidRef, NMidRefMut, NMidPtr, NMidPtrMut, drops=false, [(a leaf Tk<4>), (n nested Inner), (c leaf Tk<0>)]);
soa_struct!(clone, pub struct NMidF { pub a: Tk<4>, pub x: Tk<0>, pub y: B1, pub c: Tk<0> });
shape!(NMidF, NMidFVec, NMidFSlice, NMidFSliceMut, NMidFRef, NMidFRefMut, NMidFPtr, NMidFPtrMut, drops=false, [(a leaf Tk<4>), (x leaf Tk<0>), (y leaf B1), (c leaf Tk<0>)]);

soa_struct!(clone, pub struct NLast { pub a: B1, #[nested_soa] pub n: Inner });
shape!(NLast, NLastVec, NLastSlice, NLastSliceMut, NLastRef, NLastRefMut, NLastPtr, NLastPtrMut, drops=false, [(a leaf B1), (n nested Inner)]);
soa_struct!(clone, pub struct NLastF { pub a: B1, pub x: Tk<0>, pub y: B1 });
shape!(NLastF, NLastFVec, NLastFSlice, NLastFSliceMut, NLastFRef, NLastFRefMut, NLastFPtr, NLastFPtrMut, drops=false, [(a leaf B1), (x leaf Tk<0>), (y leaf B1)]);

soa_struct!(clone, pub struct Deep { pub d: Tk<12>, #[nested_soa] pub m: NMid });
shape!(Deep, DeepVec, DeepSlice, DeepSliceMut, DeepRef, DeepRefMut, DeepPtr, DeepPtrMut, drops=false, [(d leaf Tk<12>), (m nested NMid)]);
soa_struct!(clone, pub struct DeepF { pub d: Tk<12>, pub a: Tk<4>, pub x: Tk<0>, pub y: B1, pub c: Tk<0> });
shape!(DeepF, DeepFVec, DeepFSlice, DeepFSliceMut, DeepFRef, DeepFRefMut, DeepFPtr, DeepFPtrMut, drops=false,
    [(d leaf Tk<12>), (a leaf Tk<4>), (x leaf Tk<0>), (y leaf B1), (c leaf Tk<0>)]);
